(* C03/Erase.v — from addressed heap trees to the pure trie of coq/Trie (Trie/Node.v): [er] forgets
   addresses, generations and MustBeHashed; [lwf]: every leaf holds a value (what Trie.Node.Leaf
   requires).  Basic equations. *)
From Common Require Import Bytes.
From Trie Require Import Nibbles Encode Node.
From Trie Require Model.
From C03 Require Import Model Tree.
From Coq Require Import Arith Lia.
Local Open Scope nat_scope.

Fixpoint er (t : atree) : tnode :=
  match t with
  | AN _ pk sv _ _ isb ks =>
    if isb then
      Branch pk sv ((fix go (l : list (option atree)) : list (option tnode) :=
                       match l with
                       | [] => []
                       | None :: r => None :: go r
                       | Some k :: r => Some (er k) :: go r
                       end) ks)
    else Leaf pk (match sv with Some v => v | None => [] end)
  end.
Definition ero (o : option atree) : option tnode := option_map er o.

Lemma er_unfold a pk sv mbh gn isb ks :
  er (AN a pk sv mbh gn isb ks)
  = if isb then Branch pk sv (map ero ks) else Leaf pk (match sv with Some v => v | None => [] end).
Proof.
  simpl. destruct isb; auto. f_equal. induction ks as [|[k|] ks IH]; simpl; auto; now rewrite IH.
Qed.

Fixpoint lwf (t : atree) : Prop :=
  match t with
  | AN _ _ sv _ _ isb ks => (isb = false -> sv <> None) /\ oall lwf ks
  end.
Lemma lwf_unfold a pk sv mbh gn isb ks :
  lwf (AN a pk sv mbh gn isb ks) <-> (isb = false -> sv <> None) /\ forall k, In (Some k) ks -> lwf k.
Proof. simpl. now rewrite oall_in. Qed.
Definition lwf_o (o : option atree) : Prop := match o with Some t => lwf t | None => True end.

(* ---------- children lists ---------- *)
Lemma map_ero_set_nth i v l : map ero (set_nth i v l) = set_child (map ero l) i (ero v).
Proof. revert i. induction l as [|x l IH]; intros [|i]; simpl; auto. now rewrite IH. Qed.

Lemma map_ero_no_kids : map ero (repeat None 16) = no_children.
Proof. reflexivity. Qed.

Lemma nth_map_ero ks i : nth i (map ero ks) None = ero (nth i ks None).
Proof. change None with (ero None) at 1. apply map_nth. Qed.

Lemma set_child_same cs i c : nth i cs None = Some c -> set_child cs i (Some c) = cs.
Proof. revert i. induction cs as [|x cs IH]; intros [|i] E; simpl in *; try discriminate; [now subst | now rewrite IH]. Qed.
