From Common Require Import Bytes Blake2b.
From C03 Require Import Model Proofs.

Theorem C03_version_upgrade_refuted :
  frozen_parents bad_hist = true /\
  view blake2b_256 false (run blake2b_256 false false bad_hist init_state) 0
    <> view blake2b_256 false (run blake2b_256 false false (firstn 3 bad_hist) init_state) 0.
Proof. exact version_upgrade_refuted. Qed.
Print Assumptions C03_version_upgrade_refuted.
