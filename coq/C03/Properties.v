(* C03/Properties.v — property C03: trie snapshots are isolated from one another.
   Only statements, each closed by `exact <lemma>`, with Print Assumptions beneath.

   The model (Model.v) is an explicit heap of trie nodes with generation, Dirty flag, cached
   Merkle value and MustBeHashed; a handle is (generation, root, version).  [run H fx fd hist st]
   executes a fork history (Snapshot / Put / Delete / ClearPrefix / SetVersion / WriteDirty / Hash
   on any handle); fx = true is the repaired code.  [view H fg st j] is what a reader of handle j
   sees: Hash() (computed through the Merkle-value caches) and Entries().
   H is an arbitrary hash function; fd, fg select the variants of Delete/Get with or without the
   pending repairs of property C02 (the theorem holds for all four combinations).
   [frozen_parents hist]: no handle is mutated (Put/Delete/ClearPrefix) after a snapshot was taken
   from it — the copy-on-write contract under which "modified independently" is read
   (DESIGN.md §5 C03); SetVersion, WriteDirty, Hash and further snapshots of it remain allowed.
   [xrun]/[xstep] add ClearPrefixLimit (deleteNodesLimit) to the steps; the theorems are stated
   for both kinds of histories. *)
From Common Require Import Bytes Blake2b.
From C03 Require Import Model Proofs Main MainX.

(* No step of a fork history changes what is seen through any handle other than the one it
   mutates; steps that mutate no handle (Snapshot, SetVersion — raising the version included —,
   WriteDirty, Hash) change no view at all. *)
Theorem C03_isolation :
  forall (H : list byte -> list byte) (fd fg : bool) (hist : list step),
  frozen_parents hist = true ->
  forall n s, nth_error hist n = Some s ->
  forall j, mutated_handle s <> Some j ->
    j < length (s_hs (run H true fd (firstn n hist) init_state)) ->
    view H fg (run H true fd (firstn (S n) hist) init_state) j
    = view H fg (run H true fd (firstn n hist) init_state) j.
Proof. exact isolation. Qed.
Print Assumptions C03_isolation.

(* A new snapshot shows exactly what its source shows. *)
Theorem C03_snapshot_view :
  forall (H : list byte -> list byte) (fd fg : bool) (hist : list step),
  frozen_parents hist = true ->
  forall n i, nth_error hist n = Some (Snap i) ->
  let before := run H true fd (firstn n hist) init_state in
  i < length (s_hs before) ->
  view H fg (run H true fd (firstn (S n) hist) init_state) (length (s_hs before)) = view H fg before i.
Proof. exact snapshot_view. Qed.
Print Assumptions C03_snapshot_view.

(* The same for histories that also contain ClearPrefixLimit steps (any prefix, any limit): the
   whole mutating interface of the trie (Put, Delete, ClearPrefix, ClearPrefixLimit). *)
Theorem C03_isolation_with_limit :
  forall (H : list byte -> list byte) (fd fg : bool) (hist : list xstep),
  xfrozen_parents hist = true ->
  forall n s, nth_error hist n = Some s ->
  forall j, xmutated_handle s <> Some j ->
    j < length (s_hs (xrun H true fd (firstn n hist) init_state)) ->
    view H fg (xrun H true fd (firstn (S n) hist) init_state) j
    = view H fg (xrun H true fd (firstn n hist) init_state) j.
Proof. exact xisolation. Qed.
Print Assumptions C03_isolation_with_limit.

Theorem C03_snapshot_view_with_limit :
  forall (H : list byte -> list byte) (fd fg : bool) (hist : list xstep),
  xfrozen_parents hist = true ->
  forall n i, nth_error hist n = Some (Core (Snap i)) ->
  let before := xrun H true fd (firstn n hist) init_state in
  i < length (s_hs before) ->
  view H fg (xrun H true fd (firstn (S n) hist) init_state) (length (s_hs before)) = view H fg before i.
Proof. exact xsnapshot_view. Qed.
Print Assumptions C03_snapshot_view_with_limit.

(* The pinned code (MustBeHashed and SetDirty applied to the shared node before
   prepForMutation) violated the property: raising a snapshot's version and re-putting an
   unchanged 40-byte value changes the view through the original. *)
Theorem C03_version_upgrade_refuted :
  frozen_parents bad_hist = true /\
  view blake2b_256 false (run blake2b_256 false false bad_hist init_state) 0
    <> view blake2b_256 false (run blake2b_256 false false (firstn 3 bad_hist) init_state) 0.
Proof. exact version_upgrade_refuted. Qed.
Print Assumptions C03_version_upgrade_refuted.

(* non-vacuity: a history satisfying the hypothesis with snapshots of snapshots, a version
   upgrade, WriteDirty, deletions, in which all four handles end up with different views *)
Example C03_nonvacuous :
  frozen_parents fork_hist = true
  /\ length (s_hs (run blake2b_256 true false fork_hist init_state)) = 4
  /\ (let st := run blake2b_256 true false fork_hist init_state in
      view blake2b_256 false st 0 <> view blake2b_256 false st 1
      /\ view blake2b_256 false st 1 <> view blake2b_256 false st 2
      /\ view blake2b_256 false st 1 <> view blake2b_256 false st 3
      /\ view blake2b_256 false st 0 <> None).
Proof. exact fork_hist_nonvacuous. Qed.

Example C03_limit_nonvacuous :
  xfrozen_parents limit_hist = true
  /\ (let st := xrun blake2b_256 true false limit_hist init_state in
      let st0 := xrun blake2b_256 true false (firstn 7 limit_hist) init_state in
      view blake2b_256 false st 0 = view blake2b_256 false st0 0
      /\ view blake2b_256 false st 1 <> view blake2b_256 false st 0
      /\ view blake2b_256 false st 2 <> view blake2b_256 false st 0
      /\ view blake2b_256 false st 1 <> view blake2b_256 false st 2).
Proof. exact limit_hist_nonvacuous. Qed.

(* informational: the hypothesis is needed — a parent mutated after a snapshot shares its
   in-place writes with the snapshot by design *)
Example C03_parent_mutation_shares :
  frozen_parents parent_hist = false /\
  view blake2b_256 false (run blake2b_256 true false parent_hist init_state) 1
    <> view blake2b_256 false (run blake2b_256 true false (firstn 2 parent_hist) init_state) 1.
Proof. exact parent_mutation_shares. Qed.
