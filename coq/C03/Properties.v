(* C03/Properties.v — property C03: trie snapshots are isolated from one another.
   Only statements, each closed by `exact <lemma>`, with Print Assumptions beneath.

   The model (Model.v) is an explicit heap of trie nodes with generation, Dirty flag, cached
   Merkle value and MustBeHashed; a handle is (generation, root, version).  [run H fx fd hist st]
   executes a fork history (Snapshot / Put / Delete / ClearPrefix / SetVersion / WriteDirty / Hash
   on any handle); fx = true is the repaired code.  [view H fg st j] is what a reader of handle j
   sees: Hash() (computed through the Merkle-value caches) and Entries().
   H is an arbitrary hash function; fd, fg select the variants of Delete/Get with or without the
   pending repairs of property C02 (the theorem holds for all four combinations).
   [frozen_parents hist]: no handle is mutated (Put/Delete/ClearPrefix) after a snapshot was taken
   from it — the copy-on-write contract under which "modified independently" is read
   (DESIGN.md §5 C03); SetVersion, WriteDirty, Hash and further snapshots of it remain allowed.
   [xrun]/[xstep] add ClearPrefixLimit (deleteNodesLimit) to the steps; the theorems are stated
   for both kinds of histories.
   [yrun]/[ystep] (ModelY.v) add child tries: a child trie is one more handle; NewTrie
   (NewEmptyTrie, the child trie PutIntoChild starts from), SnapCopy (the trie Snapshot() makes of
   every child trie: next generation, a COPY of the root node, the parent's version) and AdoptVer
   (child.version = t.version).  Snapshot() of a trie with child tries is
   [snapshot_with_children], PutIntoChild is [put_into_child]: lists of such steps. *)
From Common Require Import Bytes Blake2b.
From Trie Require Spec.
From Trie Require Model Encode.
From Trie Require InsertProofs.
From C03 Require Import Model ModelY Proofs ProofsY Main MainX MainY ViewPure PureAll PureAllX PureAllC.
From C03 Require Import SpecRoot.

(* No step of a fork history changes what is seen through any handle other than the one it
   mutates; steps that mutate no handle (Snapshot, SetVersion — raising the version included —,
   WriteDirty, Hash) change no view at all. *)
Theorem C03_isolation :
  forall (H : list byte -> list byte) (fd fg : bool) (hist : list step),
  frozen_parents hist = true ->
  forall n s, nth_error hist n = Some s ->
  forall j, mutated_handle s <> Some j ->
    j < length (s_hs (run H true fd (firstn n hist) init_state)) ->
    view H fg (run H true fd (firstn (S n) hist) init_state) j
    = view H fg (run H true fd (firstn n hist) init_state) j.
Proof. exact isolation. Qed.
Print Assumptions C03_isolation.

(* A new snapshot shows exactly what its source shows. *)
Theorem C03_snapshot_view :
  forall (H : list byte -> list byte) (fd fg : bool) (hist : list step),
  frozen_parents hist = true ->
  forall n i, nth_error hist n = Some (Snap i) ->
  let before := run H true fd (firstn n hist) init_state in
  i < length (s_hs before) ->
  view H fg (run H true fd (firstn (S n) hist) init_state) (length (s_hs before)) = view H fg before i.
Proof. exact snapshot_view. Qed.
Print Assumptions C03_snapshot_view.

(* The same for histories that also contain ClearPrefixLimit steps (any prefix, any limit): the
   whole mutating interface of the trie (Put, Delete, ClearPrefix, ClearPrefixLimit). *)
Theorem C03_isolation_with_limit :
  forall (H : list byte -> list byte) (fd fg : bool) (hist : list xstep),
  xfrozen_parents hist = true ->
  forall n s, nth_error hist n = Some s ->
  forall j, xmutated_handle s <> Some j ->
    j < length (s_hs (xrun H true fd (firstn n hist) init_state)) ->
    view H fg (xrun H true fd (firstn (S n) hist) init_state) j
    = view H fg (xrun H true fd (firstn n hist) init_state) j.
Proof. exact xisolation. Qed.
Print Assumptions C03_isolation_with_limit.

Theorem C03_snapshot_view_with_limit :
  forall (H : list byte -> list byte) (fd fg : bool) (hist : list xstep),
  xfrozen_parents hist = true ->
  forall n i, nth_error hist n = Some (Core (Snap i)) ->
  let before := xrun H true fd (firstn n hist) init_state in
  i < length (s_hs before) ->
  view H fg (xrun H true fd (firstn (S n) hist) init_state) (length (s_hs before)) = view H fg before i.
Proof. exact xsnapshot_view. Qed.
Print Assumptions C03_snapshot_view_with_limit.

(* ---- child tries (the whole of InMemoryTrie.Snapshot) ----
   The same for histories in which tries have child tries: no step changes the view through a
   handle (main trie or child trie) other than the one it mutates; in particular nothing done to
   a snapshot, or to a child trie of a snapshot, shows through the source trie or its child tries. *)
Theorem C03_isolation_child_tries :
  forall (H : list byte -> list byte) (fd fg : bool) (hist : list ystep),
  yfrozen_parents hist = true ->
  forall n s, nth_error hist n = Some s ->
  forall j, ymutated_handle s <> Some j ->
    j < length (s_hs (yrun H true fd (firstn n hist) init_state)) ->
    view H fg (yrun H true fd (firstn (S n) hist) init_state) j
    = view H fg (yrun H true fd (firstn n hist) init_state) j.
Proof. exact yisolation. Qed.
Print Assumptions C03_isolation_child_tries.

(* The trie Snapshot() builds for a child trie (a copy of the child's root node) shows exactly what
   the child trie of the source shows; so does the root-sharing snapshot of the main trie. *)
Theorem C03_child_snapshot_view :
  forall (H : list byte -> list byte) (fd fg : bool) (hist : list ystep),
  yfrozen_parents hist = true ->
  (forall n i v, nth_error hist n = Some (SnapCopy i v) ->
     let before := yrun H true fd (firstn n hist) init_state in
     forall hd r, nth_error (s_hs before) i = Some hd -> h_root hd = Some r ->
     view H fg (yrun H true fd (firstn (S n) hist) init_state) (length (s_hs before)) = view H fg before i)
  /\ (forall n i, nth_error hist n = Some (Y (Core (Snap i))) ->
     let before := yrun H true fd (firstn n hist) init_state in
     i < length (s_hs before) ->
     view H fg (yrun H true fd (firstn (S n) hist) init_state) (length (s_hs before)) = view H fg before i).
Proof. intros H fd fg hist Hf. split; [exact (ysnapcopy_view H fd fg hist Hf) | exact (ysnapshot_view H fd fg hist Hf)]. Qed.
Print Assumptions C03_child_snapshot_view.

(* non-vacuity: a trie with a child trie is snapshotted, the snapshot is raised to V1 and writes
   into its child trie; sources unchanged, copies diverge *)
Example C03_child_tries_nonvacuous :
  yfrozen_parents child_hist = true
  /\ (let st := yrun blake2b_256 true false child_hist init_state in
      let st0 := yrun blake2b_256 true false (firstn 16 child_hist) init_state in
      length (s_hs st) = 4
      /\ view blake2b_256 false st 0 = view blake2b_256 false st0 0
      /\ view blake2b_256 false st 1 = view blake2b_256 false st0 1
      /\ view blake2b_256 false st0 3 = view blake2b_256 false st0 1
      /\ view blake2b_256 false st 3 <> view blake2b_256 false st 1
      /\ view blake2b_256 false st 2 <> view blake2b_256 false st 0
      /\ root_of st 1 = child_root2 /\ root_of st 3 = child_root3 /\ child_root3 <> child_root2).
Proof. exact child_hist_nonvacuous. Qed.

(* ---- agreement with the pure trie of properties C01/C02 (DESIGN.md: C03_pure_agrees) ----
   [prun hist] replays a fork history on the PURE trie of coq/Trie: per handle a pure trie, its
   version, and a flag "the version was never changed while the trie was non-empty"; Put / Delete /
   ClearPrefix are Trie.Model.trie_put / trie_delete / trie_clear_prefix (the functions properties
   C01/C02/C38 are proved about), Snapshot copies the triple.
   For EVERY fork history of Put, Delete, ClearPrefix, Snapshot, SetVersion, WriteDirty, Hash
   satisfying frozen_parents (the code with the C02 repairs, fd = fg = true) and every handle j:
   Entries() seen through j is exactly Trie.Model.trie_entries of j's pure trie, and Hash() is
   Trie.Encode.trie_root of it for j's version whenever the flag holds (after a version change on a
   non-empty trie old nodes keep their MustBeHashed flags by design, so the root is a mixed one).
   Proof: the heap operations compute the pure ones on the erased tree (InsertPure.insert_spec_er,
   DeletePure.delete_spec_er / clear_prefix_spec_er / handle_deletion_spec_er), reads and encoding
   of the heap tree are those of the erased tree (ViewPure).
   This is the statement for histories without ClearPrefixLimit (no further hypothesis);
   C03_pure_agrees below covers the whole mutating interface. *)
Theorem C03_pure_agrees_core :
  forall (H : list byte -> list byte) (hist : list step),
  frozen_parents hist = true ->
  forall j t pv pu, nth_error (prun hist) j = Some (t, pv, pu) ->
  exists h, view H true (run H true true hist init_state) j
            = Some (h, default_entries (Trie.Model.trie_entries t))
            /\ (pu = true -> h = Trie.Encode.trie_root H (ver_of pv) t).
Proof. exact pure_agrees. Qed.
Print Assumptions C03_pure_agrees_core.

(* The whole mutating interface: histories that also contain ClearPrefixLimit steps (any prefix,
   any limit a Go uint32 can hold: [limits_u32]), replayed on the pure side with
   Trie.Model.trie_clear_prefix_limit (LimitPure/LimitSafe: deleteNodesLimit's loop and
   clearPrefixLimitAtNode compute the pure functions on the erased tree).  No operation is excluded
   and there is NO panic hypothesis: the pure trie of every handle stays canonical along the history
   (first conjunct; CanonPure.v: put / delete — also with the empty key — / clear_prefix /
   clear_prefix_limit keep Canon without any guard), and on a canonical tree the model never reports
   the Go panic "got branch with all nil children" of deleteNodesLimit (LimitSafe.v,
   PureAllC.clear_limit_no_panic), so that panic is unreachable from NewEmptyTrie().
   The hash clause keeps its condition pu = true (the handle's version was never changed while its
   trie was non-empty): this is real behaviour, not a proof gap — after SetVersion(V1) on a non-empty
   V0 trie the untouched nodes keep MustBeHashed = false until they are rewritten, so Hash() is a
   mixed V0/V1 root that equals neither trie_root V0 nor trie_root V1 of the contents; Entries() is
   unaffected. *)
Theorem C03_pure_agrees :
  forall (H : list byte -> list byte) (hist : list xstep),
  xfrozen_parents hist = true -> limits_u32 hist = true ->
  forall j t pv pu, nth_error (pxrun hist) j = Some (t, pv, pu) ->
  InsertProofs.Canon_opt t
  /\ exists h, view H true (xrun H true true hist init_state) j
               = Some (h, default_entries (Trie.Model.trie_entries t))
               /\ (pu = true -> h = Trie.Encode.trie_root H (ver_of pv) t).
Proof. exact pure_agrees_canon. Qed.
Print Assumptions C03_pure_agrees.

(* non-vacuity: the ClearPrefixLimit history of C03_limit_nonvacuous satisfies both hypotheses; the
   pure contents of its three handles *)
Example C03_pure_agrees_limit_nonvacuous :
  xfrozen_parents limit_hist = true /\ limits_u32 limit_hist = true
  /\ map (fun x => map fst (default_entries (Trie.Model.trie_entries (fst (fst x))))) (pxrun limit_hist)
     = [[[n2b 18; n2b 1]; [n2b 18; n2b 18]; [n2b 18; n2b 31]; [n2b 32]];
        [[n2b 18; n2b 31]; [n2b 32]]; [[n2b 32]]].
Proof. vm_compute. repeat split; try reflexivity; intro E; discriminate E. Qed.

(* non-vacuity: Put, Delete, ClearPrefix, a version upgrade on a snapshot; three handles, their pure
   contents, and which of them still have uniform flags *)
Example C03_pure_agrees_nonvacuous :
  let hist := [Put 0 k12 v40; Put 0 k1234 v3; Commit 0; Snap 0; SetVer 1 true; Put 1 k12 v3; Snap 1;
               Del 2 k12; Put 2 [n2b 32] v40; Clear 1 k12] in
  frozen_parents (firstn 9 hist) = true
  /\ map (fun x => (default_entries (Trie.Model.trie_entries (fst (fst x))), snd x)) (prun (firstn 9 hist))
     = [([(k12, v40); (k1234, v3)], true); ([(k12, v3); (k1234, v3)], false);
        ([(k1234, v3); ([n2b 32], v40)], false)].
Proof. vm_compute. split; reflexivity. Qed.

(* ---- snapshots and the Polkadot specification root (SpecRoot.v) ----
   C01's root theorem is about the pure trie, C03_pure_agrees about the heap; this corollary joins them.
   [mxrun hist] replays the fork history on the MAP SPECIFICATION alone (Trie/Spec.v): per handle an
   ordered byte-string map driven by bm_put / bm_del / bm_clear_prefix / bm_clear_prefix_limit, the
   handle's version, and the flag "the version never changed while the map was non-empty"; Snapshot
   copies the triple.  No trie and no heap occur on that side.
   [xguards hist] = no step lies in a recorded C01/C02 finding class, i.e. exactly the hypotheses of
   Trie.MapProofs.Rep_delete, ClearProofs.Rep_clear_prefix, LimitProofs.Rep_clear_prefix_limit, on the
   map m the handle holds when the step runs:
     Del k             guard_delete_exhausted (build_trie (kv_of_bmap m)) k = false   (finding
                       delete-exhausted-key; only k = [] on a root with a non-empty partial key)
     Clear p           guard_trim m p = false                                          (prefix-trim)
     ClearLimit p l    guard_trim m p, guard_limit_zero m p l, guard_limit_order m p l all false.
   Put, Snapshot, SetVersion, WriteDirty, Hash carry no guard; there is no Get step in a history.
   Then for EVERY handle j: Entries() through j is exactly the map m of its lineage (m strictly
   sorted), and Hash() is spec_root H ver (kv_of_bmap m) — the root of the canonical trie built from m
   by longest-common-prefix bucketing, with no reference to the insertion algorithm — whenever the
   handle's version never changed on a non-empty trie (pu = true; see C03_pure_agrees for why that
   condition is real behaviour, and C03_spec_root_flag_needed below). *)
Theorem C03_snapshot_root_is_spec_root :
  forall (H : list byte -> list byte) (hist : list xstep),
  xfrozen_parents hist = true -> limits_u32 hist = true -> xguards hist = true ->
  forall j m pv pu, nth_error (mxrun hist) j = Some (m, pv, pu) ->
  Trie.Spec.bm_sorted m = true
  /\ exists h, view H true (xrun H true true hist init_state) j = Some (h, m)
               /\ (pu = true -> h = Trie.Spec.spec_root H (ver_of pv) (Trie.Spec.kv_of_bmap m)).
Proof. exact snapshot_root_is_spec_root. Qed.
Print Assumptions C03_snapshot_root_is_spec_root.

(* The same with a guard that does not mention the canonical trie: no Delete of the empty key
   ([xguards_simple]: as xguards, but Del k requires k <> []). *)
Theorem C03_snapshot_root_is_spec_root_simple :
  forall (H : list byte -> list byte) (hist : list xstep),
  xfrozen_parents hist = true -> limits_u32 hist = true -> xguards_simple hist = true ->
  forall j m pv pu, nth_error (mxrun hist) j = Some (m, pv, pu) ->
  Trie.Spec.bm_sorted m = true
  /\ exists h, view H true (xrun H true true hist init_state) j = Some (h, m)
               /\ (pu = true -> h = Trie.Spec.spec_root H (ver_of pv) (Trie.Spec.kv_of_bmap m)).
Proof. exact snapshot_root_is_spec_root_simple. Qed.
Print Assumptions C03_snapshot_root_is_spec_root_simple.

(* non-vacuity: a snapshot tree 0 -> {1 -> 2, 3} of a V1 trie (version set while empty) holding a
   40-byte, hence hashed, value; Delete, Put of another hashed value, a limited and an unlimited
   clear on the snapshots.  All hypotheses hold, all four flags are true, Hash()/Entries() of every
   handle are the specification root / the map, and the roots differ (also V1 from V0). *)
Example C03_spec_root_nonvacuous :
  xfrozen_parents spec_hist = true /\ limits_u32 spec_hist = true /\ xguards spec_hist = true
  /\ xguards_simple spec_hist = true
  /\ mxrun spec_hist = [(spec_m0, true, true); (spec_m1, true, true); (spec_m2, true, true); (spec_m0, true, true)]
  /\ (let st := xrun blake2b_256 true true spec_hist init_state in
      view blake2b_256 true st 0
        = Some (Trie.Spec.spec_root blake2b_256 Trie.Encode.V1 (Trie.Spec.kv_of_bmap spec_m0), spec_m0)
      /\ view blake2b_256 true st 1
        = Some (Trie.Spec.spec_root blake2b_256 Trie.Encode.V1 (Trie.Spec.kv_of_bmap spec_m1), spec_m1)
      /\ view blake2b_256 true st 2
        = Some (Trie.Spec.spec_root blake2b_256 Trie.Encode.V1 (Trie.Spec.kv_of_bmap spec_m2), spec_m2)
      /\ view blake2b_256 true st 3 = view blake2b_256 true st 0)
  /\ Trie.Spec.spec_root blake2b_256 Trie.Encode.V1 (Trie.Spec.kv_of_bmap spec_m0)
     <> Trie.Spec.spec_root blake2b_256 Trie.Encode.V0 (Trie.Spec.kv_of_bmap spec_m0)
  /\ Trie.Spec.spec_root blake2b_256 Trie.Encode.V1 (Trie.Spec.kv_of_bmap spec_m1)
     <> Trie.Spec.spec_root blake2b_256 Trie.Encode.V1 (Trie.Spec.kv_of_bmap spec_m0)
  /\ Trie.Spec.spec_root blake2b_256 Trie.Encode.V1 (Trie.Spec.kv_of_bmap spec_m2)
     <> Trie.Spec.spec_root blake2b_256 Trie.Encode.V1 (Trie.Spec.kv_of_bmap spec_m1).
Proof. exact spec_hist_nonvacuous. Qed.

(* informational: the condition pu = true is needed — a V0 trie is snapshotted, the snapshot raised to
   V1 while non-empty and written to: the flag of its map is false, Entries() is still the map, and
   Hash() is neither the V1 nor the V0 specification root of the map. *)
Example C03_spec_root_flag_needed :
  xfrozen_parents mixed_hist = true /\ limits_u32 mixed_hist = true /\ xguards mixed_hist = true
  /\ nth_error (mxrun mixed_hist) 1 = Some (mixed_m1, true, false)
  /\ exists h, view blake2b_256 true (xrun blake2b_256 true true mixed_hist init_state) 1 = Some (h, mixed_m1)
               /\ h <> Trie.Spec.spec_root blake2b_256 Trie.Encode.V1 (Trie.Spec.kv_of_bmap mixed_m1)
               /\ h <> Trie.Spec.spec_root blake2b_256 Trie.Encode.V0 (Trie.Spec.kv_of_bmap mixed_m1).
Proof. exact mixed_hist_flag_needed. Qed.

(* The pinned code (MustBeHashed and SetDirty applied to the shared node before
   prepForMutation) violated the property: raising a snapshot's version and re-putting an
   unchanged 40-byte value changes the view through the original. *)
Theorem C03_version_upgrade_refuted :
  frozen_parents bad_hist = true /\
  view blake2b_256 false (run blake2b_256 false false bad_hist init_state) 0
    <> view blake2b_256 false (run blake2b_256 false false (firstn 3 bad_hist) init_state) 0.
Proof. exact version_upgrade_refuted. Qed.
Print Assumptions C03_version_upgrade_refuted.

(* non-vacuity: a history satisfying the hypothesis with snapshots of snapshots, a version
   upgrade, WriteDirty, deletions, in which all four handles end up with different views *)
Example C03_nonvacuous :
  frozen_parents fork_hist = true
  /\ length (s_hs (run blake2b_256 true false fork_hist init_state)) = 4
  /\ (let st := run blake2b_256 true false fork_hist init_state in
      view blake2b_256 false st 0 <> view blake2b_256 false st 1
      /\ view blake2b_256 false st 1 <> view blake2b_256 false st 2
      /\ view blake2b_256 false st 1 <> view blake2b_256 false st 3
      /\ view blake2b_256 false st 0 <> None).
Proof. exact fork_hist_nonvacuous. Qed.

Example C03_limit_nonvacuous :
  xfrozen_parents limit_hist = true
  /\ (let st := xrun blake2b_256 true false limit_hist init_state in
      let st0 := xrun blake2b_256 true false (firstn 7 limit_hist) init_state in
      view blake2b_256 false st 0 = view blake2b_256 false st0 0
      /\ view blake2b_256 false st 1 <> view blake2b_256 false st 0
      /\ view blake2b_256 false st 2 <> view blake2b_256 false st 0
      /\ view blake2b_256 false st 1 <> view blake2b_256 false st 2).
Proof. exact limit_hist_nonvacuous. Qed.

(* informational: the hypothesis is needed — a parent mutated after a snapshot shares its
   in-place writes with the snapshot by design *)
Example C03_parent_mutation_shares :
  frozen_parents parent_hist = false /\
  view blake2b_256 false (run blake2b_256 true false parent_hist init_state) 1
    <> view blake2b_256 false (run blake2b_256 true false (firstn 2 parent_hist) init_state) 1.
Proof. exact parent_mutation_shares. Qed.

(* informational: the hypothesis also excludes mutating a SNAPSHOT after a snapshot was taken from
   it (fork tree 0 -> 1 -> 2, operation on the inner handle 1 after 2 exists): the nodes of handle 1's
   own generation are shared with handle 2 and rewritten in place.  Snapshot()'s contract is
   "copy on write as modifications are done on this NEW trie"; dot/state never mutates a trie it
   has handed a snapshot of. *)
Example C03_snapshot_parent_mutation_shares :
  frozen_parents snap_parent_hist = false /\
  frozen_parents (firstn 4 snap_parent_hist) = true /\
  view blake2b_256 false (run blake2b_256 true false snap_parent_hist init_state) 2
    <> view blake2b_256 false (run blake2b_256 true false (firstn 4 snap_parent_hist) init_state) 2.
Proof. exact snapshot_parent_mutation_shares. Qed.

(* ---- closer: the specification-root theorem WITHOUT the prefix-trim / limit-zero guards ----
   [gxrun hist] (SpecRootGo.v) replays the history on the ordered byte map like mxrun, but the two
   clears are the Go-rule operations of Trie/GoSpec.v (go_clear_prefix, go_clear_prefix_limit: byte
   prefix minus one trailing zero nibble; limit 0 leaves the map alone).  [xguards_go hist] keeps only
   the guards C02_refines_go keeps (C02/Guards.v guard_go_of), on the handle's map at the time of the step:
     Delete k              guard_delete_exhausted (canonical trie of the map) k = false
     ClearPrefixLimit p l  guard_limit_order_go m p l = false
   No guard on ClearPrefix, no guard_trim, no guard_limit_zero. *)
From C03 Require Import SpecRootGo.
Theorem C03_snapshot_root_is_spec_root_go :
  forall (H : list byte -> list byte) (hist : list xstep),
  xfrozen_parents hist = true -> limits_u32 hist = true -> xguards_go hist = true ->
  forall j m pv pu, nth_error (gxrun hist) j = Some (m, pv, pu) ->
  Trie.Spec.bm_sorted m = true
  /\ exists h, view H true (xrun H true true hist init_state) j = Some (h, m)
               /\ (pu = true -> h = Trie.Spec.spec_root H (ver_of pv) (Trie.Spec.kv_of_bmap m)).
Proof. exact snapshot_root_is_spec_root_go. Qed.
Print Assumptions C03_snapshot_root_is_spec_root_go.

(* the same with the simple Delete guard (no Delete of the empty key; the order guard stays) *)
Theorem C03_snapshot_root_is_spec_root_go_simple :
  forall (H : list byte -> list byte) (hist : list xstep),
  xfrozen_parents hist = true -> limits_u32 hist = true -> xguards_go_simple hist = true ->
  forall j m pv pu, nth_error (gxrun hist) j = Some (m, pv, pu) ->
  Trie.Spec.bm_sorted m = true
  /\ exists h, view H true (xrun H true true hist init_state) j = Some (h, m)
               /\ (pu = true -> h = Trie.Spec.spec_root H (ver_of pv) (Trie.Spec.kv_of_bmap m)).
Proof. exact snapshot_root_is_spec_root_go_simple. Qed.
Print Assumptions C03_snapshot_root_is_spec_root_go_simple.

(* the Go-rule theorem contains C03_snapshot_root_is_spec_root: under xguards the remaining guards
   hold and the two replays are the same list of maps *)
Theorem C03_xguards_go_of_xguards :
  forall hist, xguards hist = true -> xguards_go hist = true /\ gxrun hist = mxrun hist.
Proof. exact xguards_go_of_xguards. Qed.
Print Assumptions C03_xguards_go_of_xguards.

(* non-vacuity INSIDE the finding classes: snapshot 1 runs ClearPrefix 0x10 (nibbles 1,0 trimmed to the
   odd-length nibble prefix 1: 0x12, 0x1201, 0x1234 are removed although none has the byte prefix — an
   input inside guard_trim), snapshot 2 runs ClearPrefixLimit 0x1200 limit 2 (removes 0x1201) and a
   limit-0 clear of an absent prefix (inside guard_limit_zero).  xguards is false, the byte-wise replay
   mxrun leaves all three maps equal, and Hash()/Entries() of every handle are the spec root / the map
   of the Go-rule replay. *)
Example C03_spec_root_go_nonvacuous :
  xfrozen_parents go_hist = true /\ limits_u32 go_hist = true /\ xguards_go go_hist = true
  /\ xguards_go_simple go_hist = true
  /\ xguards go_hist = false
  /\ Trie.Model.guard_trim go_m0 [n2b 16] = true
  /\ Trie.Model.guard_trim go_m0 [n2b 18; n2b 0] = true
  /\ Trie.Model.guard_limit_zero go_m2 [n2b 48] 0%N = true
  /\ gxrun go_hist = [(go_m0, true, true); (go_m1, true, true); (go_m2, true, true)]
  /\ mxrun go_hist = [(go_m0, true, true); (go_m0, true, true); (go_m0, true, true)]
  /\ (let st := xrun blake2b_256 true true go_hist init_state in
      view blake2b_256 true st 0
        = Some (Trie.Spec.spec_root blake2b_256 Trie.Encode.V1 (Trie.Spec.kv_of_bmap go_m0), go_m0)
      /\ view blake2b_256 true st 1
        = Some (Trie.Spec.spec_root blake2b_256 Trie.Encode.V1 (Trie.Spec.kv_of_bmap go_m1), go_m1)
      /\ view blake2b_256 true st 2
        = Some (Trie.Spec.spec_root blake2b_256 Trie.Encode.V1 (Trie.Spec.kv_of_bmap go_m2), go_m2))
  /\ Trie.Spec.spec_root blake2b_256 Trie.Encode.V1 (Trie.Spec.kv_of_bmap go_m1)
     <> Trie.Spec.spec_root blake2b_256 Trie.Encode.V1 (Trie.Spec.kv_of_bmap go_m0)
  /\ Trie.Spec.spec_root blake2b_256 Trie.Encode.V1 (Trie.Spec.kv_of_bmap go_m2)
     <> Trie.Spec.spec_root blake2b_256 Trie.Encode.V1 (Trie.Spec.kv_of_bmap go_m0).
Proof. exact go_hist_nonvacuous. Qed.

From C03 Require DirtyContract.

(* ---- Closer (closer-c04): the Dirty-flag contract that C04_discipline_chain assumes of the trie
   mutation code, proved for the heap model (DirtyContract.v; repaired code, fx = true).

   C03_mutation_cells (heap level, no invariant needed): one Put / Delete / ClearPrefix /
   ClearPrefixLimit of a handle of generation g relates the heaps by DirtyContract.ev g: a cell of
   another generation keeps all node fields AND its Dirty flag (only its cached Merkle value may be
   filled), a cell of generation g keeps its generation and never goes from dirty to clean, every
   newly allocated cell has generation g and is dirty.

   C03_dirty_contract: for every fork history hist0 (copy-on-write contract xfrozen_parents) and
   every handle i of the state st0 it leads to, with ot0 the trie of handle i there: if that trie
   is persisted (DirtyContract.persisted: each of its nodes is clean and of a generation other
   than the handle's, i.e. the handle is a Snapshot of a trie written by WriteDirty; implied by the
   decidable DirtyContract.heap_persisted), then after ANY sequence ops of Put / Delete /
   ClearPrefix / ClearPrefixLimit on handle i the trie t of handle i satisfies
   DirtyContract.contract:
     (0) a node of t is dirty iff it has the handle's generation iff it was allocated since st0;
     (1) dirty nodes are closed upwards: a node with a dirty child is dirty (a clean node has no
         dirty descendant, by (2));
     (2) below a clean node s of t nothing changed: the persisted heap spells the same addressed
         tree s at the same address (rep (hp m0) s: same partial keys, values, MustBeHashed,
         children, hence the same encoding and Merkle value), s is a subtree of the persisted trie
         ot0, and every node of s is clean in both heaps.
   C03_dirty_contract_handle is the same statement for one handle over any well-formed heap. *)
Theorem C03_mutation_cells :
  forall (H : list byte -> list byte) (fd : bool) (m : mem) (hd : handle) (o : DirtyContract.mop)
         (m1 : mem) (hd1 : handle),
    Tree.hwf m -> DirtyContract.mexec H fd m hd o = (m1, hd1) ->
    DirtyContract.ev (h_gen hd) m m1 /\ h_gen hd1 = h_gen hd.
Proof. exact DirtyContract.mexec_ev. Qed.
Print Assumptions C03_mutation_cells.

Theorem C03_dirty_contract_handle :
  forall (H : list byte -> list byte) (fd : bool) (m0 : mem) (hd0 : handle) (ot0 : option Tree.atree)
         (ops : list DirtyContract.mop) (m : mem) (hd : handle),
    Tree.hwf m0 -> Inv.htree H m0 hd0 ot0 -> DirtyContract.persisted m0 hd0 ot0 ->
    DirtyContract.mrun H fd ops m0 hd0 = (m, hd) ->
    h_gen hd = h_gen hd0
    /\ DirtyContract.ev (h_gen hd0) m0 m
    /\ exists ot, Inv.htree H m hd ot
         /\ forall t, ot = Some t -> DirtyContract.contract m0 ot0 (h_gen hd0) m t.
Proof. exact DirtyContract.dirty_contract. Qed.
Print Assumptions C03_dirty_contract_handle.

Theorem C03_dirty_contract :
  forall (H : list byte -> list byte) (fd fg : bool) (hist0 : list xstep) (i : nat) (hd0 : handle),
    xfrozen_parents hist0 = true ->
    let st0 := xrun H true fd hist0 init_state in
    nth_error (s_hs st0) i = Some hd0 ->
    exists ot0, Inv.htree H (s_mem st0) hd0 ot0 /\
    forall ops, DirtyContract.persisted (s_mem st0) hd0 ot0 ->
      let st := xrun H true fd (map (DirtyContract.xop i) ops) st0 in
      exists hd ot,
        nth_error (s_hs st) i = Some hd /\ h_gen hd = h_gen hd0
        /\ DirtyContract.ev (h_gen hd0) (s_mem st0) (s_mem st)
        /\ Inv.htree H (s_mem st) hd ot
        /\ forall t, ot = Some t ->
             DirtyContract.contract (s_mem st0) ot0 (h_gen hd0) (s_mem st) t.
Proof. exact DirtyContract.dirty_contract_history. Qed.
Print Assumptions C03_dirty_contract.

(* the decidable condition implies the hypothesis of the contract theorems *)
Theorem C03_heap_persisted_ok :
  forall (m : mem) (hd : handle) (ot : option Tree.atree),
    Tree.hwf m -> DirtyContract.heap_persisted m (h_gen hd) = true -> DirtyContract.persisted m hd ot.
Proof. exact DirtyContract.heap_persisted_ok. Qed.
Print Assumptions C03_heap_persisted_ok.

(* non-vacuity: handle 0 stores two keys and runs WriteDirty, handle 1 is its snapshot (hist0);
   the heap is persisted for generation 1; handle 1 overwrites one key and deletes an absent one.
   Afterwards its root (cell 4) and the copied leaf (cell 3) are dirty, generation 1, and the
   untouched leaf (cell 1) is still a child of the new root, clean, generation 0. *)
Example C03_dirty_contract_nonvacuous :
  let st0 := xrun blake2b_256 true true DirtyContract.dc_hist0 init_state in
  let st := xrun blake2b_256 true true (map (DirtyContract.xop 1) DirtyContract.dc_ops) st0 in
  xfrozen_parents DirtyContract.dc_hist0 = true
  /\ nth_error (s_hs st0) 1 = Some (mkH 1 (Some 2%N) false)
  /\ DirtyContract.heap_persisted (s_mem st0) 1 = true
  /\ nth_error (s_hs st) 1 = Some (mkH 1 (Some 4%N) false)
  /\ DirtyContract.dc_info st 4%N = Some (true, 1%N, Some 3%N, Some 1%N)
  /\ DirtyContract.dc_info st 3%N = Some (true, 1%N, None, None)
  /\ DirtyContract.dc_info st 1%N = Some (false, 0%N, None, None)
  /\ DirtyContract.dc_info st0 1%N = Some (false, 0%N, None, None).
Proof. exact DirtyContract.dc_nonvacuous. Qed.
