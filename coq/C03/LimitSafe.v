(* C03/LimitSafe.v — LimitPure.v with the panic case pinned down: the model reports the Go panic of
   deleteNodesLimit only on a NON-canonical tree (limits below 2^32 as in Go's uint32), so on canonical
   tries the erasure equations hold unconditionally.
   Original header: C03/LimitPure.v — deleteNodesLimit and clearPrefixLimitAtNode on the heap compute the pure
   functions of coq/Trie on the erased tree, unless the model reports the Go panic "got branch with
   all nil children" (panic_mark).  The contracts of Limit.v strengthened by the erasure equations. *)
From Common Require Import Bytes.
From Trie Require Import Nibbles Encode Node.
From Trie Require Model NibblesProofs InsertProofs DeleteProofs ClearProofs LimitProofs.
From C03 Require Import Model Tree Cache Frame Ops Spec Insert Delete Limit Erase DeletePure CanonPure.
From Coq Require Import Arith Lia.
Local Open Scope nat_scope.

Notation pdnl := Trie.Model.delete_nodes_limit.
Notation ploop := Trie.LimitProofs.dnl_loop.
Notation pcount := Trie.Model.count_children.

(* ---------- lists ---------- *)
Lemma skipn_nth_cons {A} (l : list A) i d : i < length l -> skipn i l = nth i l d :: skipn (S i) l.
Proof. revert i. induction l as [|x l IH]; intros [|i] Hi; simpl in *; try lia; auto. apply IH. lia. Qed.
Lemma firstn_S_snoc {A} (l : list A) i d : i < length l -> firstn (S i) l = firstn i l ++ [nth i l d].
Proof. revert i. induction l as [|x l IH]; intros [|i] Hi; simpl in *; try lia; auto. f_equal. apply IH. lia. Qed.
Lemma set_child_split l i x : i < length l -> set_child l i x = firstn i l ++ x :: skipn (S i) l.
Proof. revert i. induction l as [|y l IH]; intros [|i] Hi; simpl in *; try lia; auto. f_equal. apply IH. lia. Qed.
Lemma firstn_set_child_S l i x : i < length l -> firstn (S i) (set_child l i x) = firstn i l ++ [x].
Proof.
  intros Hi. rewrite set_child_split by auto. rewrite firstn_app, firstn_length, Nat.min_l by lia.
  replace (S i - i) with 1 by lia. rewrite firstn_firstn, Nat.min_r by lia. reflexivity.
Qed.
Lemma skipn_set_child_S l i x : i < length l -> skipn (S i) (set_child l i x) = skipn (S i) l.
Proof.
  intros Hi. rewrite set_child_split by auto. rewrite skipn_app, firstn_length, Nat.min_l by lia.
  rewrite skipn_all2 by (rewrite firstn_length; lia). replace (S i - i) with 1 by lia. reflexivity.
Qed.
Lemma pcount_set (l : list (option tnode)) i c x :
  nth i l None = Some c ->
  pcount (set_child l i x) + 1 = pcount l + (match x with Some _ => 1 | None => 0 end).
Proof.
  revert i. induction l as [|y l IH]; intros [|i] E; simpl in *; try discriminate.
  - subst y. destruct x; simpl; lia.
  - destruct y; simpl; specialize (IH i E); lia.
Qed.
Lemma pcount_le (l : list (option tnode)) : pcount l <= length l.
Proof. induction l as [|[y|] l IH]; simpl; lia. Qed.

Section LimitPure.
Variable H : list byte -> list byte.
Variable g : N.
Variable rt : option addr.
Variable fl : value -> bool -> Prop.

Notation pre := (Spec.pre H g rt).
Notation post := (Spec.post H g rt).
Notation gone := (Delete.gone H g rt).
Notation lwf := (Erase.lwf fl).
Notation rt_old := (Limit.rt_old rt).

Lemma canon_kid pk sv (ks : list (option atree)) k :
  Canon (Branch pk sv (map ero ks)) -> In (Some k) ks -> Canon (er k).
Proof.
  intros C Hin. apply InsertProofs.Canon_branch_inv in C as (_ & _ & F & _). rewrite Forall_forall in F.
  apply (F (Some (er k))). change (Some (er k)) with (ero (Some k)). apply in_map. exact Hin.
Qed.

Lemma not_2_64 (d limit : N) : (d <= limit)%N -> (limit < 4294967296)%N -> d <> panic_mark.
Proof. unfold panic_mark. lia. Qed.

Definition dres_er (m : mem) (t : atree) (m' : mem) (np : option addr) (vd : N) (pr : option tnode * N) : Prop :=
  (vd = panic_mark /\ ~ Canon (er t))
  \/ ((1 <= vd)%N /\ snd pr = vd
      /\ ((np = None /\ gone m t m' /\ fst pr = None)
          \/ exists T, np = Some (aroot T) /\ post m t m' T /\ fst pr = Some (er T) /\ lwf T)).

Section Loop.
Variables (m : mem) (t : atree) (f : nat) (a1 : addr) (pk : key) (sv : option value) (mbh : bool).
Hypothesis Hp : pre m t.
Hypothesis Hold : rt_old m.
Hypothesis IHf : forall m0 t0 limit0 m' np vd,
  pre m0 t0 -> rt_old m0 -> depth t0 < f -> limit0 <> 0%N -> (limit0 < 4294967296)%N -> lwf t0 ->
  dnl H g rt f m0 (Some (aroot t0)) limit0 = (m', np, vd) ->
  dres_er m0 t0 m' np vd (pdnl (er t0) limit0).

Lemma dnl_loop_spec_er : forall n i mk ks nilc limit vd m' np vd',
  post m t mk (AN a1 pk sv mbh g true ks) -> rt_ok rt (AN a1 pk sv mbh g true ks) ->
  (exists c, hp mk a1 = Some c /\ c_dirty c = true /\ c_mv c = None) ->
  (forall j k, i <= j -> nth j ks None = Some k -> depth k < f) ->
  limit <> 0%N -> (limit < 4294967296)%N ->
  (forall j k, i <= j -> nth j ks None = Some k -> Canon (er t) -> Canon (er k)) ->
  ((1 <= vd)%N \/ exists j k, i <= j < i + n /\ nth j ks None = Some k) ->
  lwf (AN a1 pk sv mbh g true ks) -> n + i = length ks -> nilc + pcount (map ero ks) = 16 ->
  dnl_loop H rt (dnl H g rt f) a1 pk n i mk nilc limit vd = (m', np, vd') ->
  dres_er m t m' np vd' (ploop pk sv (firstn i (map ero ks)) (skipn i (map ero ks)) limit vd).
Proof.
  induction n as [|n IH]; intros i mk ks nilc limit vd m' np vd' Hq Hrt (c & Hc & Hd & Hm) Hdep Hlim Hlt Hcan Hpos Hl Hni Hnc.
  - (* all children visited *)
    simpl. rewrite Hc. intros E. injection E as <- <- <-.
    assert (Hv : (1 <= vd)%N) by (destruct Hpos as [?|(j & k & ? & _)]; [auto | lia]).
    assert (Esv : c_sv c = sv).
    { destruct Hq as (R1 & _). destruct (rep_cell _ _ R1) as (c0 & Hc0 & Hci). simpl in Hc0. rewrite Hc in Hc0.
      injection Hc0 as <-. unfold cell_is in Hci. tauto. }
    simpl in Hni. rewrite skipn_all2 by (rewrite map_length; lia). cbn [Trie.LimitProofs.dnl_loop]. rewrite Esv.
    right. split; [destruct (is_some sv); lia|]. split; [destruct sv; reflexivity|].
    left. split; auto. split; [eapply post_gone; eauto | reflexivity].
  - cbn [dnl_loop]. rewrite Hc.
    set (T := AN a1 pk sv mbh g true ks) in *.
    pose proof Hq as (R1 & R2 & R3 & R4 & Hwk & Hlek & Fk & P8 & P9 & P10).
    destruct (rep_cell _ _ R1) as (c0 & Hc0 & Hci). simpl in Hc0. rewrite Hc in Hc0. injection Hc0 as <-.
    pose proof Hci as Hci'. unfold T, cell_is in Hci'. destruct Hci' as (Epk & Esv & Embh & Egn & Eisb & Eks).
    assert (Hil : i < length (map ero ks)) by (rewrite map_length; lia).
    rewrite (skipn_nth_cons (map ero ks) i None Hil), nth_map_ero.
    rewrite Eks, nth_map_oroot.
    destruct (nth i ks None) as [kt|] eqn:Ekt; simpl oroot; simpl ero; cbn [Trie.LimitProofs.dnl_loop].
    + (* a child to delete below *)
      destruct (nth_some_in _ _ _ Ekt) as (Hkin & _).
      assert (Hpk : pre mk T) by (eapply (post_pre H g rt); eauto).
      assert (Hpkt : pre mk kt) by (apply (pre_kid H g rt mk T kt Hpk Hkin)).
      assert (Holdk : rt_old mk) by (intros r Er; specialize (Hold r Er); lia).
      assert (Hlkt : lwf kt) by (apply (lwf_kid fl T kt Hl Hkin)).
      destruct (dnl H g rt f mk (Some (aroot kt)) limit) as [[m1 ch'] d] eqn:Erec.
      assert (Hdk : depth kt < f) by (apply (Hdep i kt); auto).
      destruct (IHf mk kt limit m1 ch' d Hpkt Holdk Hdk Hlim Hlt Hlkt Erec) as [(Epanic & Hncan)|(Hd1 & Epr2 & Hout)].
      * subst d. rewrite N.eqb_refl. intros E. injection E as <- <- <-. left. split; auto.
        intros Ct. apply Hncan. apply (Hcan i kt); auto.
      * destruct (N.eqb_spec d panic_mark) as [Ep|Hnp].
        { intros E. injection E as <- <- <-. left. split; auto. intros Ct.
          apply (not_2_64 d limit); auto. rewrite <- Epr2. apply pdnl_le; auto. apply (Hcan i kt); auto. }
        assert (Hres : exists onk, ch' = oroot onk /\ kid_result H g rt mk kt m1 onk
                                    /\ fst (pdnl (er kt) limit) = ero onk /\ lwf_o fl onk).
        { destruct Hout as [(-> & Hg0 & Epr1)|(tk & -> & Hqk & Epr1 & Hltk)].
          - exists None. split; [reflexivity|]. split; [exact Hg0|]. split; [exact Epr1 | exact I].
          - exists (Some tk). split; [reflexivity|]. split; [exact Hqk|]. split; [exact Epr1 | exact Hltk]. }
        destruct Hres as (onk & -> & Hres & Epr1 & Hlo).
        destruct (pdnl (er kt) limit) as [nc nd] eqn:Epd. cbn [fst snd] in Epr1, Epr2. subst nc nd.
        destruct (kid_result_gone H g rt _ _ _ _ Hres) as (Hw1 & Hle1 & F1).
        assert (Hb : forall x, In x (addrs T) -> (x < nx mk)%N) by (intros; eapply rep_bounded; eauto).
        assert (Hna : ~ In a1 (addrs kt)) by (apply (sep_root_not_in_kid T kt R2 Hkin)).
        assert (Hc1 : hp m1 a1 = Some c).
        { rewrite (fr_out _ _ _ _ _ _ _ F1); auto. apply Hb. apply (aroot_in_addrs T). }
        destruct (prep_own_noop H g rt m1 a1 c true Hc1 Egn Hd Hm) as (m2 & Ep & Eext & Enx).
        set (fk := fun c' : cell => set_kids_c (set_nth i (oroot onk) (c_kids c')) c').
        pose proof (rebuild_branch H g rt mk a1 pk sv mbh g true ks i kt m1 onk c Hpk Ekt Hres Hc Hci m2 a1 Ep) as Hq2.
        destruct (wr_ext m1 m2 a1 fk Eext Enx) as (Ew & Ewn).
        set (T' := AN a1 pk sv mbh g true (set_nth i onk ks)) in *.
        assert (Hq2' : post mk T (wr m1 a1 fk) T').
        { eapply (post_ext H g rt); [exact Hq2 | |]; intros; symmetry; auto. }
        assert (Hq3 : post m t (wr m1 a1 fk) T') by (eapply (post_trans H g rt); eauto).
        assert (Hrt' : rt_ok rt T').
        { intros r Er Hin. destruct (N.eq_dec r a1) as [|Hne]; auto. exfalso.
          pose proof Hq2' as (_ & _ & _ & _ & _ & _ & _ & Q8 & Q9 & _).
          assert (Hrold : (r < nx mk)%N) by (specialize (Hold r Er); lia).
          destruct (Q9 r Hin Hne Hrold) as [(HinT & HneT)|Ho].
          - apply HneT. apply (Hrt r Er HinT).
          - apply own_addrs in Ho. specialize (Hrt r Er Ho). simpl in Hrt. congruence. }
        assert (Hc2 : exists c2, hp (wr m1 a1 fk) a1 = Some c2 /\ c_dirty c2 = true /\ c_mv c2 = None /\ c_sv c2 = c_sv c).
        { rewrite (wr_some _ _ _ _ Hc1). simpl. rewrite upd_eq. eexists. split; [reflexivity|]. simpl. auto. }
        destruct Hc2 as (c2 & Hc2 & Hd2 & Hm2 & Esv2).
        assert (Hvd : (1 <= vd + d)%N) by lia.
        assert (Hl' : lwf T') by (apply (lwf_set_kid fl a1 pk sv mbh g ks); auto).
        (* the children list of the pure loop *)
        assert (EL : firstn i (map ero ks) ++ ero onk :: skipn (S i) (map ero ks) = map ero (set_nth i onk ks)).
        { rewrite map_ero_set_nth. symmetry. apply set_child_split; auto. }
        rewrite EL.
        assert (Ekt' : nth i (map ero ks) None = Some (er kt)) by (rewrite nth_map_ero, Ekt; reflexivity).
        pose proof (pcount_set (map ero ks) i (er kt) (ero onk) Ekt') as Hcnt.
        rewrite <- map_ero_set_nth in Hcnt.
        assert (Enil : ((match oroot onk with None => S nilc | Some _ => nilc end =? 16) && negb (is_some (c_sv c)))
                       = ((pcount (map ero (set_nth i onk ks)) =? 0) && Trie.Model.is_none sv)).
        { rewrite Esv. f_equal; [|destruct sv; reflexivity].
          destruct onk as [tk|]; cbn [oroot ero option_map] in Hcnt |- *.
          - destruct (Nat.eqb_spec nilc 16), (Nat.eqb_spec (pcount (map ero (set_nth i (Some tk) ks))) 0); auto; lia.
          - destruct (Nat.eqb_spec (S nilc) 16), (Nat.eqb_spec (pcount (map ero (set_nth i None ks))) 0); auto; lia. }
        rewrite Enil.
        destruct ((pcount (map ero (set_nth i onk ks)) =? 0) && Trie.Model.is_none sv).
        { intros E. injection E as <- <- <-. right. split; auto. split; [reflexivity|]. left. split; auto.
          split; [eapply post_gone; eauto | reflexivity]. }
        destruct (N.eqb_spec (limit - d) 0) as [El|El].
        { destruct (handle_deletion H rt (wr m1 a1 fk) a1 pk) as [m3 b] eqn:Ehd.
          destruct (handle_deletion_spec_er H g rt fl m t _ a1 pk sv mbh _ pk m3 b Hp Hq3 Hl' Ehd) as (Tnp & <- & Hqnp & Ernp & Hlnp).
          intros E. injection E as <- <- <-. right. split; auto. split; [reflexivity|]. right.
          exists Tnp. rewrite Ernp. auto. }
        intros E.
        assert (Hil' : i < length (map ero ks)) by auto.
        assert (E1 : firstn i (map ero ks) ++ [ero onk] = firstn (S i) (map ero (set_nth i onk ks))).
        { rewrite map_ero_set_nth. symmetry. apply firstn_set_child_S; auto. }
        assert (E2 : skipn (S i) (map ero ks) = skipn (S i) (map ero (set_nth i onk ks))).
        { rewrite map_ero_set_nth. symmetry. apply skipn_set_child_S; auto. }
        rewrite E1, E2.
        eapply (IH (S i) (wr m1 a1 fk) (set_nth i onk ks)); try exact E; auto.
        -- exists c2. auto.
        -- intros j k Hj Ej. rewrite nth_set_nth_neq in Ej by lia. apply (Hdep j k); auto; lia.
        -- lia.
        -- intros j k Hj Ej. rewrite nth_set_nth_neq in Ej by lia. apply (Hcan j k); auto; lia.
        -- rewrite set_nth_length. lia.
        -- destruct onk as [tk|]; cbn [oroot ero option_map] in Hcnt |- *; lia.
    + (* no child at this index *)
      intros E.
      assert (E1 : firstn i (map ero ks) ++ [None] = firstn (S i) (map ero ks)).
      { rewrite (firstn_S_snoc (map ero ks) i None Hil), nth_map_ero, Ekt. reflexivity. }
      rewrite E1.
      eapply (IH (S i) mk ks); try exact E; auto.
      * exists c; auto.
      * intros j k Hj Ej. apply (Hdep j k); auto; lia.
      * intros j k Hj Ej. apply (Hcan j k); auto; lia.
      * destruct Hpos as [?|(j & k & Hj & Ej)]; auto. right. exists j, k. split; auto.
        destruct (Nat.eq_dec j i) as [->|]; [congruence | lia].
      * lia.
Qed.

End Loop.

Lemma dnl_spec_er : forall fuel m t limit m' np vd,
  pre m t -> rt_old m -> depth t < fuel -> limit <> 0%N -> (limit < 4294967296)%N -> lwf t ->
  dnl H g rt fuel m (Some (aroot t)) limit = (m', np, vd) ->
  dres_er m t m' np vd (pdnl (er t) limit).
Proof.
  induction fuel as [|f IH]; intros m t limit m' np vd Hp Hold Hdep Hlim Hlt Hl; [lia|].
  destruct t as [a pk sv mbh gn isb ks]. set (t := AN a pk sv mbh gn isb ks) in *.
  pose proof Hp as (Hw & Hr & Hs & Hg & Hc & Hrt).
  destruct (rep_cell _ _ Hr) as (c & Hca & Hci). simpl in Hca.
  pose proof Hci as Hci'. unfold t, cell_is in Hci'. destruct Hci' as (Epk & Esv & Embh & Egn & Eisb & Eks).
  change (aroot t) with a. cbn [dnl].
  destruct (N.eqb_spec limit 0) as [|Hl0]; [congruence|]. rewrite Hca, Eisb.
  destruct isb; cbn [negb].
  2:{ assert (Hlv : exists lv, sv = Some lv).
      { pose proof Hl as Hl1. unfold t in Hl1. apply lwf_unfold in Hl1. destruct Hl1 as (Hs0 & _).
        destruct sv; eauto. exfalso; apply Hs0; auto. }
      destruct Hlv as (lv & Elv).
      assert (Eer : er t = Leaf pk lv) by (unfold t; rewrite er_unfold, Elv; reflexivity).
      rewrite Eer, LimitProofs.delete_nodes_limit_leaf. destruct (N.eqb_spec limit 0); [congruence|].
      intros E. injection E as <- <- <-. right. split; [lia|]. split; [reflexivity|]. left. split; auto.
      split; [apply (drop_spec H g rt m t Hp) | reflexivity]. }
  assert (Eer : er t = Branch pk sv (map ero ks)) by (unfold t; rewrite er_unfold; reflexivity).
  destruct (count_kids (c_kids c) =? 0) eqn:Ecnt.
  { intros E. injection E as <- <- <-. left. split; auto. intros Ct. rewrite Eer in Ct.
    apply InsertProofs.Canon_branch_inv in Ct as (_ & _ & _ & C1 & _).
    rewrite count_children_ero, <- Eks in C1. apply Nat.eqb_eq in Ecnt. lia. }
  apply Nat.eqb_neq in Ecnt. rewrite Eks in Ecnt.
  destruct (count_kids_some ks Ecnt) as (j & k & Hj & Ej).
  destruct (prep H g rt m a true) as [m1 a1] eqn:Ep.
  destruct (prep_post H g rt m a pk sv mbh gn true ks c m1 a1 Hp Hold Hca Hci Ep) as (Hq & Hrt1 & Hc1).
  rewrite Epk. intros E.
  rewrite Eer, LimitProofs.delete_nodes_limit_branch. destruct (N.eqb_spec limit 0); [congruence|].
  assert (Hlen : length ks = 16).
  { unfold t in Hl. apply lwf_unfold in Hl. tauto. }
  change (@nil (option tnode)) with (firstn 0 (map ero ks)). change (map ero ks) with (skipn 0 (map ero ks)) at 2.
  assert (A1 : forall j0 k0, 0 <= j0 -> nth j0 ks None = Some k0 -> depth k0 < f).
  { intros j0 k0 _ E0. destruct (nth_some_in _ _ _ E0) as (Hin & _).
    assert (depth k0 < depth t) by (apply depth_kid; auto). lia. }
  assert (A2 : (1 <= 0)%N \/ exists j0 k0, 0 <= j0 < 0 + length (c_kids c) /\ nth j0 ks None = Some k0).
  { right. exists j, k. rewrite Eks, map_length. split; auto. lia. }
  assert (A3 : lwf (AN a1 pk sv mbh g true ks)) by (apply (lwf_retag' fl a pk sv mbh gn true ks); exact Hl).
  assert (A4 : length (c_kids c) + 0 = length ks) by (rewrite Eks, map_length; lia).
  assert (A5 : 16 - count_kids (c_kids c) + pcount (map ero ks) = 16).
  { rewrite Eks, <- count_children_ero. pose proof (pcount_le (map ero ks)) as Hle. rewrite map_length in Hle. lia. }
  assert (A6 : forall j0 k0, 0 <= j0 -> nth j0 ks None = Some k0 -> Canon (er t) -> Canon (er k0)).
  { intros j0 k0 _ E0 Ct. destruct (nth_some_in _ _ _ E0) as (Hin & _). rewrite Eer in Ct. eapply canon_kid; eauto. }
  exact (dnl_loop_spec_er m t f a1 pk sv mbh Hp Hold IH (length (c_kids c)) 0 m1 ks _ limit 0%N m' np vd
           Hq Hrt1 Hc1 A1 Hlim Hlt A6 A2 A3 A4 A5 E).
Qed.

(* ---------- clearPrefixLimitAtNode ---------- *)
Notation pcl := Trie.Model.clear_prefix_limit_node.

Definition cres_er (m : mem) (t : atree) (m' : mem) (p' : option addr) (vd : N) (pr : option tnode * N * bool) : Prop :=
  (vd = panic_mark /\ ~ Canon (er t))
  \/ (vd = 0%N /\ m' = m /\ p' = Some (aroot t) /\ fst pr = (Some (er t), 0%N))
  \/ ((1 <= vd)%N /\ snd (fst pr) = vd
      /\ ((p' = None /\ gone m t m' /\ fst (fst pr) = None)
          \/ exists T, p' = Some (aroot T) /\ post m t m' T /\ fst (fst pr) = Some (er T) /\ lwf T)).

Lemma clear_limit_spec_er : forall fuel m t prefix limit m' p' vd alld,
  length prefix < fuel -> pre m t -> rt_old m -> limit <> 0%N -> (limit < 4294967296)%N -> lwf t ->
  clear_limit_node H g rt fuel m (Some (aroot t)) prefix limit = (m', p', vd, alld) ->
  cres_er m t m' p' vd (pcl (er t) prefix limit).
Proof.
  induction fuel as [|f IH]; intros m t prefix limit m' p' vd alld Hlen Hp Hold Hlim Hlt Hl; [lia|].
  destruct t as [a pk sv mbh gn isb ks]. set (t := AN a pk sv mbh gn isb ks) in *.
  pose proof Hp as (Hw & Hr & Hs & Hg & Hc & Hrt).
  destruct (rep_cell _ _ Hr) as (c & Hca & Hci). simpl in Hca.
  pose proof Hci as Hci'. unfold t, cell_is in Hci'. destruct Hci' as (Epk & Esv & Embh & Egn & Eisb & Eks).
  change (aroot t) with a. cbn [clear_limit_node]. rewrite Hca, Eisb, Epk.
  destruct isb; cbn [negb].
  2:{ assert (Hlv : exists lv, sv = Some lv).
      { pose proof Hl as Hl1. unfold t in Hl1. apply lwf_unfold in Hl1. destruct Hl1 as (Hs0 & _).
        destruct sv; eauto. exfalso; apply Hs0; auto. }
      destruct Hlv as (lv & Elv).
      assert (Eer : er t = Leaf pk lv) by (unfold t; rewrite er_unfold, Elv; reflexivity).
      rewrite Eer, LimitProofs.clear_prefix_limit_leaf.
      destruct (is_prefix prefix pk).
      - intros E. injection E as <- <- <- _. right. right. split; [lia|]. split; [reflexivity|]. left. split; auto.
        split; [apply (drop_spec H g rt m t Hp) | reflexivity].
      - intros E. injection E as <- <- <- _. right. left. rewrite Eer. auto. }
  assert (Eer : er t = Branch pk sv (map ero ks)) by (unfold t; rewrite er_unfold; reflexivity).
  assert (Hsame : forall m0 p0 v0 a0 b0, (m, Some a, 0%N, a0) = (m0, p0, v0, alld) ->
            cres_er m t m0 p0 v0 (Some (Branch pk sv (map ero ks)), 0%N, b0)).
  { intros m0 p0 v0 a0 b0 E. injection E as <- <- <- _. right. left. rewrite Eer. auto. }
  assert (Hdres : forall m1 np v0 b0, dres_er m t m1 np v0 (pdnl (er t) limit) ->
            cres_er m t m1 np v0 (fst (pdnl (er t) limit), snd (pdnl (er t) limit), b0)).
  { intros m1 np v0 b0 [?|(? & ? & ?)]; [left; auto | right; right; auto]. }
  rewrite Eer, LimitProofs.clear_prefix_limit_branch, prefix_is_child_eq. rewrite <- Eer.
  destruct (is_prefix prefix pk).
  { destruct (dnl H g rt (cfuel m) m (Some a) limit) as [[m1 np] v0] eqn:Ed.
    intros E. injection E as <- <- <- _. apply Hdres.
    apply (dnl_spec_er (cfuel m) m t limit m1 np v0 Hp Hold); auto. apply depth_fuel; auto. }
  rewrite Eer. cbv zeta. unfold child_at. rewrite nth_map_ero.
  destruct ((length prefix =? S (length pk)) && is_prefix (removelast prefix) pk).
  { set (idx := nth (length pk) prefix 0).
    rewrite Eks, nth_map_oroot.
    destruct (nth idx ks None) as [kc|] eqn:Ekc; simpl oroot; simpl ero; cbv iota beta; [|apply Hsame].
    pose proof (kid_in_nth ks idx kc Ekc) as Hkin.
    assert (Hpk : pre m kc) by (apply (pre_kid H g rt m t kc Hp Hkin)).
    assert (Hlk : lwf kc) by (apply (lwf_kid fl t kc Hl Hkin)).
    destruct (dnl H g rt (cfuel m) m (Some (aroot kc)) limit) as [[m1 ch'] v0] eqn:Ed.
    assert (Hd : dres_er m kc m1 ch' v0 (pdnl (er kc) limit)).
    { apply (dnl_spec_er (cfuel m) m kc limit m1 ch' v0 Hpk Hold); auto.
      destruct Hpk as (_ & Hrk & Hsk & _). apply depth_fuel; auto. }
    destruct Hd as [(-> & Hncan)|(Hv1 & Epr2 & Hout)].
    { rewrite N.eqb_refl. intros E. injection E as <- <- <- _. left. split; auto.
      intros Ct. apply Hncan. rewrite Eer in Ct. eapply canon_kid; eauto. }
    destruct (N.eqb_spec v0 panic_mark) as [Ep|Hnp].
    { intros E. injection E as <- <- <- _. left. split; auto. intros Ct.
      apply (not_2_64 v0 limit); auto. rewrite <- Epr2. apply pdnl_le; auto. rewrite Eer in Ct. eapply canon_kid; eauto. }
    rewrite Epr2. destruct (N.eqb_spec v0 0) as [E0|_]; [lia|].
    assert (Hres : exists onk, ch' = oroot onk /\ kid_result H g rt m kc m1 onk
                                /\ fst (pdnl (er kc) limit) = ero onk /\ lwf_o fl onk).
    { destruct Hout as [(-> & Hg0 & Epr1)|(tk & -> & Hqk & Epr1 & Hltk)].
      - exists None. split; [reflexivity|]. split; [exact Hg0|]. split; [exact Epr1 | exact I].
      - exists (Some tk). split; [reflexivity|]. split; [exact Hqk|]. split; [exact Epr1 | exact Hltk]. }
    destruct Hres as (onk & -> & Hres & Epr1 & Hlo). rewrite Epr1.
    destruct (prep H g rt m1 a true) as [m2 a2] eqn:Ep.
    pose proof (rebuild_branch H g rt m a pk sv mbh gn true ks idx kc m1 onk c Hp Ekc Hres Hca Hci m2 a2 Ep) as Hq.
    destruct (handle_deletion H rt _ a2 prefix) as [m4 b] eqn:Ehd.
    intros E. injection E as <- <- <- _. right. right. split; auto. split; [reflexivity|]. right.
    assert (Hl2 : lwf (AN a2 pk sv mbh g true (set_nth idx onk ks))) by (apply (lwf_set_kid fl a pk sv mbh gn ks); auto).
    destruct (handle_deletion_spec_er H g rt fl m t _ a2 pk sv mbh _ prefix m4 b Hp Hq Hl2 Ehd) as (T' & <- & HT' & Er' & Hl').
    exists T'. cbn [fst snd]. rewrite Er', map_ero_set_nth. auto. }
  unfold Trie.Model.no_prefix_for_node.
  destruct ((length prefix <=? length pk) || (cpl pk prefix <? length pk)) eqn:Enp; [apply Hsame|].
  set (idx := nth (length pk) prefix 0). rewrite Nat.add_1_r. set (cp := skipn (S (length pk)) prefix).
  rewrite Eks, nth_map_oroot.
  destruct (nth idx ks None) as [kt|] eqn:Ekt; simpl oroot; simpl ero.
  2:{ rewrite clear_limit_none. simpl. apply Hsame. }
  pose proof (kid_in_nth ks idx kt Ekt) as Hkin.
  assert (Hpk : pre m kt) by (apply (pre_kid H g rt m t kt Hp Hkin)).
  assert (Hlk : lwf kt) by (apply (lwf_kid fl t kt Hl Hkin)).
  destruct (clear_limit_node H g rt f m (Some (aroot kt)) cp limit) as [[[m1 ch'] v0] al0] eqn:Erec.
  assert (Hlen' : length cp < f).
  { apply orb_false_iff in Enp. destruct Enp as (E1 & _). apply Nat.leb_gt in E1. unfold cp. rewrite skipn_length. lia. }
  cbv zeta.
  destruct (IH m kt cp limit m1 ch' v0 al0 Hlen' Hpk Hold Hlim Hlt Hlk Erec) as [(-> & Hncan)|[(-> & -> & -> & Epr)|(Hv1 & Epr2 & Hout)]].
  { rewrite N.eqb_refl. intros E. injection E as <- <- <- _. left. split; auto.
    intros Ct. apply Hncan. rewrite Eer in Ct. eapply canon_kid; eauto. }
  { simpl. intros E. injection E as <- <- <- _. right. left.
    assert (E2 : snd (fst (pcl (er kt) cp limit)) = 0%N) by (rewrite Epr; reflexivity).
    rewrite E2, N.eqb_refl. cbn [fst snd]. rewrite Eer. auto. }
  destruct (N.eqb_spec v0 panic_mark) as [Ep|Hnp].
  { intros E. injection E as <- <- <- _. left. split; auto. intros Ct.
    apply (not_2_64 v0 limit); auto. rewrite <- Epr2. apply pcl_le; auto. rewrite Eer in Ct. eapply canon_kid; eauto. }
  rewrite Epr2. destruct (N.eqb_spec v0 0) as [E0|_]; [lia|].
  assert (Hres : exists onk, ch' = oroot onk /\ kid_result H g rt m kt m1 onk
                              /\ fst (fst (pcl (er kt) cp limit)) = ero onk /\ lwf_o fl onk).
  { destruct Hout as [(-> & Hg0 & Epr1)|(tk & -> & Hqk & Epr1 & Hltk)].
    - exists None. split; [reflexivity|]. split; [exact Hg0|]. split; [exact Epr1 | exact I].
    - exists (Some tk). split; [reflexivity|]. split; [exact Hqk|]. split; [exact Epr1 | exact Hltk]. }
  destruct Hres as (onk & -> & Hres & Epr1 & Hlo). rewrite Epr1.
  destruct (prep H g rt m1 a true) as [m2 a2] eqn:Ep.
  pose proof (rebuild_branch H g rt m a pk sv mbh gn true ks idx kt m1 onk c Hp Ekt Hres Hca Hci m2 a2 Ep) as Hq.
  destruct (handle_deletion H rt _ a2 prefix) as [m4 b] eqn:Ehd.
  intros E. injection E as <- <- <- _. right. right. split; auto. split; [reflexivity|]. right.
  assert (Hl2 : lwf (AN a2 pk sv mbh g true (set_nth idx onk ks))) by (apply (lwf_set_kid fl a pk sv mbh gn ks); auto).
  destruct (handle_deletion_spec_er H g rt fl m t _ a2 pk sv mbh _ prefix m4 b Hp Hq Hl2 Ehd) as (T' & <- & HT' & Er' & Hl').
  exists T'. cbn [fst snd]. rewrite Er', map_ero_set_nth. auto.
Qed.

End LimitPure.
