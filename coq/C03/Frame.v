(* C03/Frame.v — what an operation of a trie of generation g may do to the heap, relative to the
   tree t it operates on: cells of t of generation g may be rewritten, new cells may be allocated,
   any other old cell keeps its node fields, cells outside t are untouched, and cache fills are
   valid ([fr_cache]: every cache_ok of a tree of old cells disjoint from the owned cells is kept). *)
From Common Require Import Bytes.
From Trie Require Import Nibbles Encode.
From C03 Require Import Model Tree Cache.
From Coq Require Import Arith Lia.
Local Open Scope nat_scope.

Section Frame.
Variable H : list byte -> list byte.
Variable g : N.
Variable rt : option addr.

Notation is_root := (is_root rt).

(* the operation's root pointer, if it occurs in t, is the root of t *)
Definition rt_ok (t : atree) : Prop := forall r, rt = Some r -> In r (addrs t) -> r = aroot t.

Record frame (n0 : addr) (t : atree) (h h' : heap) : Prop := {
  fr_same : forall x, (x < n0)%N -> ~ In x (own g t) -> samef_o (h x) (h' x);
  fr_gen : forall x c, h x = Some c -> exists c', h' x = Some c' /\ c_gen c' = c_gen c;
  fr_out : forall x, (x < n0)%N -> ~ In x (addrs t) -> h' x = h x;
  fr_cache : forall u rs', rep h u -> sep u ->
             (forall x, In x (addrs u) -> (x < n0)%N) ->
             (forall x, In x (own g t) -> ~ In x (addrs u)) ->
             (forall r, rt = Some r -> In r (addrs u) -> aroot u = r /\ rs' = true) ->
             cache_ok H rs' h u -> cache_ok H rs' h' u
}.

Lemma frame_refl n0 t h : frame n0 t h h.
Proof. constructor; intros; auto using samef_o_refl. eauto. Qed.

(* old trees disjoint from the owned cells stay represented *)
Lemma frame_rep n0 t h h' u :
  frame n0 t h h' -> rep h u -> (forall x, In x (addrs u) -> (x < n0)%N) ->
  (forall x, In x (own g t) -> ~ In x (addrs u)) -> rep h' u.
Proof.
  intros F Hr Hb Hd. eapply rep_frame; eauto. intros x Hx. apply (fr_same _ _ _ _ F); auto.
  intros Ho. eapply Hd; eauto.
Qed.

Lemma frame_trans n0 n1 t h h1 h2 :
  (n0 <= n1)%N -> frame n0 t h h1 -> frame n1 t h1 h2 -> frame n0 t h h2.
Proof.
  intros Hle F1 F2. constructor.
  - intros x Hx Ho. eapply samef_o_trans; [apply (fr_same _ _ _ _ F1) | apply (fr_same _ _ _ _ F2)]; auto. lia.
  - intros x c Hc. destruct (fr_gen _ _ _ _ F1 x c Hc) as (c1 & Hc1 & G1).
    destruct (fr_gen _ _ _ _ F2 x c1 Hc1) as (c2 & Hc2 & G2). exists c2; split; congruence.
  - intros x Hx Hn. rewrite (fr_out _ _ _ _ F2), (fr_out _ _ _ _ F1); auto. lia.
  - intros u rs' Hr Hs Hb Hd Hroot Hc.
    apply (fr_cache _ _ _ _ F2); auto.
    + eapply frame_rep; eauto.
    + intros x Hx. specialize (Hb x Hx). lia.
    + apply (fr_cache _ _ _ _ F1); auto.
Qed.

(* a frame for a subtree is a frame for the tree *)
Lemma frame_lift n0 t s h h' :
  In s (subts t) -> (forall x, In x (own g s) -> In x (own g t)) -> frame n0 s h h' -> frame n0 t h h'.
Proof.
  intros Hs Ho F. constructor.
  - intros x Hx Hn. apply (fr_same _ _ _ _ F); auto.
  - apply (fr_gen _ _ _ _ F).
  - intros x Hx Hn. apply (fr_out _ _ _ _ F); auto. intros Hin. apply Hn. eapply subts_addrs; eauto.
  - intros u rs' Hr Hsu Hb Hd Hroot Hc. apply (fr_cache _ _ _ _ F); auto.
Qed.

Lemma own_kid t k x : In (Some k) (akids t) -> In x (own g k) -> In x (own g t).
Proof. destruct t; simpl akids. intros Hk Hx. apply in_own. right; eauto. Qed.

Lemma subts_kid t k : In (Some k) (akids t) -> In k (subts t).
Proof. destruct t; simpl akids. intros Hk. apply in_subts. right. exists k; split; auto. apply in_subts_self. Qed.

Lemma frame_lift_kid n0 t k h h' :
  In (Some k) (akids t) -> frame n0 k h h' -> frame n0 t h h'.
Proof. intros Hk. apply frame_lift; [apply subts_kid; auto | intros; eapply own_kid; eauto]. Qed.

(* ---- primitive steps ---- *)

(* writing a cell that did not exist at the start of the operation *)
Lemma frame_fresh n0 t h a c :
  (n0 <= a)%N -> (forall c0, h a = Some c0 -> c_gen c = c_gen c0) ->
  frame n0 t h (upd h a c).
Proof.
  intros Hle Hg. constructor.
  - intros x Hx _. rewrite upd_neq by lia. apply samef_o_refl.
  - intros x c0 Hc0. destruct (N.eq_dec x a) as [->|Hne].
    + rewrite upd_eq. eexists; split; eauto.
    + rewrite upd_neq by auto. eauto.
  - intros x Hx _. apply upd_neq. lia.
  - intros u rs' Hr Hs Hb _ _ Hc. eapply cache_ok_frame; eauto.
    intros x Hx. apply upd_neq. specialize (Hb x Hx). lia.
Qed.

(* rewriting in place a cell of t of generation g *)
Lemma frame_own n0 t h a c c' :
  In a (own g t) -> h a = Some c -> c_gen c' = c_gen c -> frame n0 t h (upd h a c').
Proof.
  intros Ho Hc Hg. constructor.
  - intros x _ Hn. rewrite upd_neq; [apply samef_o_refl | intros ->; auto].
  - intros x c0 Hc0. destruct (N.eq_dec x a) as [->|Hne].
    + rewrite upd_eq. rewrite Hc in Hc0. inversion Hc0; subst. eauto.
    + rewrite upd_neq by auto. eauto.
  - intros x _ Hn. apply upd_neq. intros ->. apply Hn. eapply own_addrs; eauto.
  - intros u rs' Hr Hs Hb Hd _ Hcu. eapply cache_ok_frame; eauto.
    intros x Hx. apply upd_neq. intros ->. eapply Hd; eauto.
Qed.

(* the cache fills of a Merkle-value computation on a tree s made of cells of t and new cells *)
Lemma frame_fills n0 t s h h' :
  (forall x, In x (addrs s) -> In x (addrs t) \/ (n0 <= x)%N) -> rep h s ->
  fillsP H (sub_of s) (only s (is_root (aroot s))) h h' -> frame n0 t h h'.
Proof.
  intros Hs Hr Hf. constructor.
  - intros x _ _. eapply fillsP_samef; eauto.
  - intros x c Hc. specialize (Hf x). rewrite Hc in Hf. destruct Hf as (c' & ? & Hsf & _).
    exists c'. split; auto. unfold samef in Hsf. tauto.
  - intros x Hx Hn. eapply fillsP_out; eauto.
    intros s0 Hs0 E. subst x.
    assert (Hin : In s0 (subts s)) by (destruct Hs0 as [?|[_ ->]]; [auto | apply in_subts_self]).
    destruct (Hs (aroot s0)) as [?|?]; [|tauto|lia].
    eapply subts_addrs; eauto. apply aroot_in_addrs.
  - intros u rs' Hru Hsu _ _ Hroot Hc.
    eapply fillsP_cache_ok; eauto.
    + intros s0 [Hs0|[_ ->]]; auto. exact (rep_subt _ _ _ Hr Hs0).
    + intros r [Hir ->] Hin. apply Hroot; auto.
      unfold Model.is_root in Hir. destruct rt as [r0|]; [|discriminate].
      apply N.eqb_eq in Hir. congruence.
Qed.

End Frame.
