(* C03/PureAll.v — what a handle shows IS the pure trie of coq/Trie (properties C01/C02):
   for fork histories of Put, Delete, ClearPrefix, Snapshot, SetVersion, WriteDirty and Hash,
   Entries() of every handle is Trie.Model.trie_entries of the pure trie obtained by replaying the
   operations of the handle's lineage with the pure operations trie_put / trie_delete /
   trie_clear_prefix, and Hash() is its trie_root whenever the handle's version was never changed
   on a non-empty trie.  (The code with the C02 repairs: fd = fg = true.) *)
From Common Require Import Bytes.
From Trie Require Import Nibbles Encode Node.
From Trie Require Model Spec NibblesProofs InsertProofs MapProofs QueryProofs.
From C03 Require Import Model Tree Cache Frame Ops Spec Insert Delete View Inv Mutate Main Erase InsertPure DeletePure ViewPure.
From Coq Require Import Arith Lia.
Local Open Scope nat_scope.

(* ---------- the pure side: per handle (pure trie, version, flags still uniform) ---------- *)
Definition pstate := (trie * bool * bool)%type.

Definition pexec (ps : list pstate) (s : step) : list pstate :=
  match s with
  | Snap i => match nth_error ps i with Some x => ps ++ [x] | None => ps end
  | Put i k v =>
    match nth_error ps i with
    | Some (t, pv, pu) => set_nth i (Trie.Model.trie_put t k v, pv, pu) ps
    | None => ps
    end
  | Del i k =>
    match nth_error ps i with
    | Some (t, pv, pu) => set_nth i (Trie.Model.trie_delete t k, pv, pu) ps
    | None => ps
    end
  | Clear i p =>
    match nth_error ps i with
    | Some (t, pv, pu) => set_nth i (Trie.Model.trie_clear_prefix t p, pv, pu) ps
    | None => ps
    end
  | SetVer i v =>
    match nth_error ps i with
    | Some (t, pv, pu) =>
      if pv && negb v then ps
      else set_nth i (t, v, match t with None => true | Some _ => pu && Bool.eqb v pv end) ps
    | None => ps
    end
  | _ => ps
  end.
Definition prun (hist : list step) : list pstate := fold_left pexec hist [(None, false, true)].

(* the flags are those of version pv as long as pu holds *)
Definition fl_u (pu pv : bool) : value -> bool -> Prop := fun v b => pu = true -> b = must_hash pv v.

Lemma lwf_mono (f f' : value -> bool -> Prop) : (forall v b, f v b -> f' v b) -> forall t, lwf f t -> lwf f' t.
Proof.
  intros Hff. induction t as [a pk sv mbh gn isb ks IH] using atree_ind'. rewrite oall_in in IH.
  rewrite !lwf_unfold. intros (A & B & C & D). repeat split; auto.
Qed.

Definition PInv (st : state) (ts : list (option atree)) (ps : list pstate) : Prop :=
  length ps = length ts
  /\ forall j hd ot t pv pu, nth_error (s_hs st) j = Some hd -> nth_error ts j = Some ot ->
       nth_error ps j = Some (t, pv, pu) -> ero ot = t /\ h_v1 hd = pv /\ lwf_o (fl_u pu pv) ot.

Section PureAll.
Variable H : list byte -> list byte.

Notation Inv := (Inv.Inv H).
Notation htree := (Inv.htree H).
Notation exec := (Model.exec H true true).
Notation run := (Model.run H true true).

(* ---------- the mutating steps, with the erasure of the new tree ---------- *)
Definition step_er (st : state) (fr : list nat) (ts : list (option atree)) (i : nat) (fl : value -> bool -> Prop)
           (st' : state) (pt : trie) : Prop :=
  exists ot', Inv st' fr (set_nth i ot' ts) /\ lwf_o fl ot' /\ ero ot' = pt.

Lemma put_step_er st fr ts i hd ot k v fl :
  Inv st fr ts -> nth_error (s_hs st) i = Some hd -> nth_error ts i = Some ot -> ~ In i fr -> lwf_o fl ot ->
  (forall w, fl w (must_hash (h_v1 hd) w)) ->
  let '(m1, hd1) := put_handle H true (s_mem st) hd k v in
  step_er st fr ts i fl (set_handle st i hd1 m1) (Trie.Model.trie_put (ero ot) k v)
  /\ h_v1 hd1 = h_v1 hd.
Proof.
  intros I Hi Ti Hfr Hl Hfl. pose proof (iw _ _ _ _ I) as Hw. pose proof (it _ _ _ _ I i hd ot Hi Ti) as Ht.
  unfold put_handle, Trie.Model.trie_put. destruct ot as [t|].
  - destruct (htree_some H _ _ _ Ht) as (Er & _). rewrite Er.
    pose proof (pre_of_htree H _ _ _ Hw Ht) as Hp. rewrite Er in Hp.
    destruct (insert H true (h_gen hd) (h_v1 hd) (Some (aroot t)) _ (s_mem st) (Some (aroot t)) _ v)
      as [[m1 a] mut] eqn:E.
    apply (insert_spec_er H (h_gen hd) (h_v1 hd) (Some (aroot t)) fl Hfl) in E; auto.
    split; [|reflexivity].
    destruct E as [(-> & -> & -> & Esame)|(-> & t' & <- & Hq & Et' & Hl')].
    + exists (Some t). rewrite <- Er, handle_eta. unfold set_handle.
      rewrite (set_nth_same _ _ _ Hi), (set_nth_same _ _ _ Ti). split; [destruct st; exact I|].
      split; auto. simpl. now rewrite Esame.
    + exists (Some t'). split; [|split; auto].
      * change (Some (aroot t')) with (oroot (Some t')). eapply mutate_inv; eauto.
        rewrite Er. apply post_outcome; auto.
      * simpl. now rewrite Et'.
  - rewrite (htree_none H _ _ Ht). cbn [insert]. rewrite alloc_eq. split; [|reflexivity].
    set (lf := new_leaf (h_gen hd) (h_v1 hd) (key_le_to_nibbles k) v).
    exists (Some (leaf_tree (h_gen hd) (h_v1 hd) (nx (s_mem st)) (key_le_to_nibbles k) v)).
    split; [|split; [apply (lwf_leaf_tree (h_gen hd) (h_v1 hd) fl Hfl) | reflexivity]].
    change (Some (nx (s_mem st))) with (oroot (Some (leaf_tree (h_gen hd) (h_v1 hd) (nx (s_mem st)) (key_le_to_nibbles k) v))).
    eapply mutate_inv; eauto.
    destruct (leaf_facts H (h_gen hd) (h_v1 hd) (hp (fst (alloc (s_mem st) lf))) (nx (s_mem st)) (key_le_to_nibbles k) v)
      as (L1 & L2 & L3 & L4 & L5).
    { unfold alloc; simpl. apply upd_eq. }
    split; [apply hwf_alloc; auto|]. split; [unfold alloc; simpl; lia|].
    split. { intros x Hx. apply alloc_old; auto. }
    intros t' E. inversion E; subst t'. split; [exact L1|]. split; [exact L2|]. split; [exact L3|]. split; [apply L4|].
    rewrite L5. split. { intros x [<-|[]]. right. lia. }
    split. { intros x [<-|[]] Hne. simpl in Hne. congruence. }
    right. simpl. lia.
Qed.

Lemma result_o_er_step st fr ts i hd t m1 p1 flag fl pr :
  Inv st fr ts -> nth_error (s_hs st) i = Some hd -> nth_error ts i = Some (Some t) -> ~ In i fr ->
  h_root hd = Some (aroot t) -> lwf fl t ->
  result_o_er H (h_gen hd) (h_root hd) fl (s_mem st) t m1 p1 flag pr ->
  step_er st fr ts i fl (set_handle st i (mkH (h_gen hd) p1 (h_v1 hd)) m1) (fst pr).
Proof.
  intros I Hi Ti Hfr Er Hl [(-> & -> & -> & ->)|(-> & [(-> & Hg & ->)|(t' & -> & Hq & -> & Hl')])].
  - replace (mkH (h_gen hd) (Some (aroot t)) (h_v1 hd)) with hd by (destruct hd; simpl in *; congruence).
    exists (Some t). unfold set_handle.
    rewrite (set_nth_same _ _ _ Hi), (set_nth_same _ _ _ Ti). split; [destruct st; exact I|].
    split; [exact Hl | reflexivity].
  - exists None. split; [|split; [exact Logic.I | reflexivity]].
    apply (mutate_inv H st fr ts i hd (Some t) m1 None); auto. apply gone_outcome; auto.
  - exists (Some t'). split; [|split; [exact Hl' | reflexivity]].
    apply (mutate_inv H st fr ts i hd (Some t) m1 (Some t')); auto. apply post_outcome; auto.
Qed.

Lemma unchanged_er st fr ts i hd ot fl :
  Inv st fr ts -> nth_error (s_hs st) i = Some hd -> nth_error ts i = Some ot -> lwf_o fl ot ->
  step_er st fr ts i fl (set_handle st i hd (s_mem st)) (ero ot).
Proof.
  intros I Hi Ti Hl. exists ot. unfold set_handle. rewrite (set_nth_same _ _ _ Hi), (set_nth_same _ _ _ Ti).
  split; [destruct st; exact I | auto].
Qed.

Lemma del_step_er st fr ts i hd ot k fl :
  Inv st fr ts -> nth_error (s_hs st) i = Some hd -> nth_error ts i = Some ot -> ~ In i fr -> lwf_o fl ot ->
  let '(m1, hd1) := del_handle H true (s_mem st) hd k in
  step_er st fr ts i fl (set_handle st i hd1 m1) (Trie.Model.trie_delete (ero ot) k) /\ h_v1 hd1 = h_v1 hd.
Proof.
  intros I Hi Ti Hfr Hl. pose proof (iw _ _ _ _ I) as Hw. pose proof (it _ _ _ _ I i hd ot Hi Ti) as Ht.
  unfold del_handle, Trie.Model.trie_delete. destruct ot as [t|].
  - destruct (htree_some H _ _ _ Ht) as (Er & _).
    pose proof (pre_of_htree H _ _ _ Hw Ht) as Hp.
    destruct (delete H (h_gen hd) (h_root hd) true _ (s_mem st) (h_root hd) _) as [[m1 r] flag] eqn:E.
    rewrite Er in E at 2. apply (delete_spec_er H (h_gen hd) (h_root hd) fl) in E; auto.
    split; [|reflexivity]. simpl ero. eapply result_o_er_step; eauto.
  - rewrite (htree_none H _ _ Ht). rewrite delete_none. split; [|reflexivity].
    pose proof (htree_none H _ _ Ht) as En. rewrite <- En, handle_eta.
    apply (unchanged_er st fr ts i hd None fl); auto.
Qed.

Lemma clear_step_er st fr ts i hd ot p fl :
  Inv st fr ts -> nth_error (s_hs st) i = Some hd -> nth_error ts i = Some ot -> ~ In i fr -> lwf_o fl ot ->
  let '(m1, hd1) := clear_handle H (s_mem st) hd p in
  step_er st fr ts i fl (set_handle st i hd1 m1) (Trie.Model.trie_clear_prefix (ero ot) p) /\ h_v1 hd1 = h_v1 hd.
Proof.
  intros I Hi Ti Hfr Hl. pose proof (iw _ _ _ _ I) as Hw. pose proof (it _ _ _ _ I i hd ot Hi Ti) as Ht.
  unfold clear_handle, Trie.Model.trie_clear_prefix, Trie.Model.trie_clear_prefix_pinned. destruct p as [|b p].
  - split; [|reflexivity]. destruct ot as [t|].
    + destruct (htree_some H _ _ _ Ht) as (Er & _). rewrite Er.
      pose proof (pre_of_htree H _ _ _ Hw Ht) as Hp.
      exists None. split; [|split; [exact Logic.I | reflexivity]].
      apply (mutate_inv H st fr ts i hd (Some t) _ None); auto.
      apply gone_outcome. rewrite Er. rewrite Er in Hp. apply drop_spec; auto.
    + pose proof (htree_none H _ _ Ht) as En. rewrite En. rewrite <- En, handle_eta.
      apply (unchanged_er st fr ts i hd None fl); auto.
  - destruct ot as [t|].
    + destruct (htree_some H _ _ _ Ht) as (Er & _).
      pose proof (pre_of_htree H _ _ _ Hw Ht) as Hp.
      destruct (clear_prefix_node H (h_gen hd) (h_root hd) _ (s_mem st) (h_root hd) _) as [[m1 r] flag] eqn:E.
      rewrite Er in E at 2. apply (clear_prefix_spec_er H (h_gen hd) (h_root hd) fl) in E; auto.
      split; [|reflexivity]. simpl ero. eapply result_o_er_step; eauto.
    + rewrite (htree_none H _ _ Ht). rewrite clear_none. split; [|reflexivity].
      pose proof (htree_none H _ _ Ht) as En. rewrite <- En, handle_eta.
      apply (unchanged_er st fr ts i hd None fl); auto.
Qed.

Lemma freeze_more st fr ts i : Inv st fr ts -> Inv st (i :: fr) ts.
Proof.
  intros I. constructor; try apply I.
  intros a b hd t t' Hab Hfr. apply (i2 _ _ _ _ I a b hd t t' Hab). intros Hin. apply Hfr. simpl; auto.
Qed.

Lemma nth_error_app_last {A} (l : list A) x j y :
  nth_error (l ++ [x]) j = Some y -> (j < length l /\ nth_error l j = Some y) \/ (j = length l /\ y = x).
Proof.
  intros E. destruct (Nat.lt_ge_cases j (length l)).
  - rewrite nth_error_app1 in E by lia. auto.
  - rewrite nth_error_app2 in E by lia. right. destruct (j - length l) as [|d] eqn:Ed; simpl in E.
    + inversion E. split; auto. lia.
    + destruct d; discriminate.
Qed.

(* a mutating step of handle i: the other handles keep handle, tree and pure state *)
Lemma PInv_mut st ts ps i hd ot t pv pu m1 hd1 ot' t' :
  PInv st ts ps -> nth_error (s_hs st) i = Some hd -> nth_error ts i = Some ot -> nth_error ps i = Some (t, pv, pu) ->
  ero ot' = t' -> h_v1 hd1 = h_v1 hd -> lwf_o (fl_u pu pv) ot' ->
  PInv (set_handle st i hd1 m1) (set_nth i ot' ts) (set_nth i (t', pv, pu) ps).
Proof.
  intros (Plen & P) Hi Ti Pi Eo Ev Hl. split; [rewrite !set_nth_length; auto|].
  intros j hdj otj tj pvj puj Hj Tj Pj. simpl in Hj. destruct (Nat.eq_dec i j) as [<-|Hne].
  - rewrite nth_error_set_nth_eq in Hj by (apply nth_error_lt in Hi; auto).
    rewrite nth_error_set_nth_eq in Tj by (apply nth_error_lt in Ti; auto).
    rewrite nth_error_set_nth_eq in Pj by (apply nth_error_lt in Pi; auto).
    inversion Hj; inversion Tj; inversion Pj; subst.
    destruct (P i hd ot t pvj puj Hi Ti Pi) as (_ & Ev0 & _). repeat split; auto. congruence.
  - rewrite nth_error_set_nth_neq in Hj by auto. rewrite nth_error_set_nth_neq in Tj by auto.
    rewrite nth_error_set_nth_neq in Pj by auto. eauto.
Qed.

Lemma pexec_inv st fr ts ps s :
  Inv st fr ts -> PInv st ts ps -> allowed s fr ->
  exists ts', Inv (fst (exec st s)) (frozen_after s fr) ts' /\ PInv (fst (exec st s)) ts' (pexec ps s).
Proof.
  intros I PI Hal. pose proof PI as (Plen & P).
  assert (Hlen : length ts = length (s_hs st)) by apply (il _ _ _ _ I).
  assert (Hts : forall i hd, nth_error (s_hs st) i = Some hd ->
            exists ot x, nth_error ts i = Some ot /\ nth_error ps i = Some x).
  { intros i hd Hi. apply nth_error_lt in Hi.
    destruct (nth_error ts i) as [ot|] eqn:E1; [|apply nth_error_None in E1; lia].
    destruct (nth_error ps i) as [b|] eqn:E2; [|apply nth_error_None in E2; lia]. eauto. }
  assert (Hnone : forall i, nth_error (s_hs st) i = None -> nth_error ps i = None).
  { intros i Hi. apply nth_error_None in Hi. apply nth_error_None. lia. }
  assert (Hfl : forall pu pv w, fl_u pu pv w (must_hash pv w)) by (intros pu pv w _; reflexivity).
  destruct s as [i|i k v|i k|i p|i v|i|i]; simpl exec; cbn [pexec frozen_after].
  - (* Snapshot *)
    destruct (nth_error (s_hs st) i) as [hd|] eqn:Hi.
    + destruct (Hts i hd Hi) as (ot & [[t pv] pu] & Ti & Pi). rewrite Pi. simpl.
      exists (ts ++ [ot]). split; [apply snap_inv; auto|]. split; [rewrite !app_length; simpl; lia|].
      intros j hdj o tj pvj puj Hj Tj Pj. simpl in Hj.
      destruct (nth_error_app_last _ _ _ _ Hj) as [(Hj1 & Hj0)|(Ej1 & ->)];
        destruct (nth_error_app_last _ _ _ _ Tj) as [(Hj2 & Tj0)|(Ej2 & ->)];
        destruct (nth_error_app_last _ _ _ _ Pj) as [(Hj3 & Pj0)|(Ej3 & Ex)]; try lia; eauto.
      injection Ex as -> -> ->. destruct (P i hd ot t pv pu Hi Ti Pi) as (? & ? & ?). simpl. auto.
    + rewrite (Hnone i Hi). simpl. exists ts. split; [apply freeze_more; auto | exact PI].
  - (* Put *)
    destruct (nth_error (s_hs st) i) as [hd|] eqn:Hi.
    + destruct (Hts i hd Hi) as (ot & [[t pv] pu] & Ti & Pi). rewrite Pi.
      destruct (P i hd ot t pv pu Hi Ti Pi) as (Eo & Ev & Hl).
      pose proof (put_step_er st fr ts i hd ot k v (fl_u pu pv) I Hi Ti (Hal i eq_refl) Hl) as Hs.
      rewrite Ev in Hs. specialize (Hs (Hfl pu pv)).
      destruct (put_handle H true (s_mem st) hd k v) as [m1 hd1]. simpl.
      destruct Hs as ((ot' & I' & Hl' & Eo') & Ev1).
      exists (set_nth i ot' ts). split; [exact I'|]. rewrite <- Eo. eapply PInv_mut; eauto.
    + rewrite (Hnone i Hi). simpl. exists ts. split; [exact I | exact PI].
  - (* Delete *)
    destruct (nth_error (s_hs st) i) as [hd|] eqn:Hi.
    + destruct (Hts i hd Hi) as (ot & [[t pv] pu] & Ti & Pi). rewrite Pi.
      destruct (P i hd ot t pv pu Hi Ti Pi) as (Eo & Ev & Hl).
      pose proof (del_step_er st fr ts i hd ot k (fl_u pu pv) I Hi Ti (Hal i eq_refl) Hl) as Hs.
      destruct (del_handle H true (s_mem st) hd k) as [m1 hd1]. simpl.
      destruct Hs as ((ot' & I' & Hl' & Eo') & Ev1).
      exists (set_nth i ot' ts). split; [exact I'|]. rewrite <- Eo. eapply PInv_mut; eauto.
    + rewrite (Hnone i Hi). simpl. exists ts. split; [exact I | exact PI].
  - (* ClearPrefix *)
    destruct (nth_error (s_hs st) i) as [hd|] eqn:Hi.
    + destruct (Hts i hd Hi) as (ot & [[t pv] pu] & Ti & Pi). rewrite Pi.
      destruct (P i hd ot t pv pu Hi Ti Pi) as (Eo & Ev & Hl).
      pose proof (clear_step_er st fr ts i hd ot p (fl_u pu pv) I Hi Ti (Hal i eq_refl) Hl) as Hs.
      destruct (clear_handle H (s_mem st) hd p) as [m1 hd1]. simpl.
      destruct Hs as ((ot' & I' & Hl' & Eo') & Ev1).
      exists (set_nth i ot' ts). split; [exact I'|]. rewrite <- Eo. eapply PInv_mut; eauto.
    + rewrite (Hnone i Hi). simpl. exists ts. split; [exact I | exact PI].
  - (* SetVersion *)
    destruct (nth_error (s_hs st) i) as [hd|] eqn:Hi.
    2:{ rewrite (Hnone i Hi). simpl. exists ts. split; [exact I | exact PI]. }
    destruct (Hts i hd Hi) as (ot & [[t pv] pu] & Ti & Pi). rewrite Pi.
    destruct (P i hd ot t pv pu Hi Ti Pi) as (Eo & Ev & Hl). rewrite Ev.
    destruct (pv && negb v); simpl; [exists ts; split; [exact I | exact PI]|].
    exists ts. split; [apply setver_inv; auto|]. split; [rewrite set_nth_length; auto|].
    intros j hdj otj tj pvj puj Hj Tj Pj. simpl in Hj. destruct (Nat.eq_dec i j) as [<-|Hne].
    + rewrite nth_error_set_nth_eq in Hj by (apply nth_error_lt in Hi; auto).
      rewrite nth_error_set_nth_eq in Pj by (apply nth_error_lt in Pi; auto).
      rewrite Ti in Tj. injection Hj as <-. injection Tj as <-. injection Pj as <- <- <-.
      simpl. split; [exact Eo|]. split; [reflexivity|].
      destruct ot as [tt|]; simpl; [|exact Logic.I]. simpl in Hl, Eo. rewrite <- Eo.
      apply (lwf_mono (fl_u pu pv)); auto. intros w b Hw Hu. apply andb_prop in Hu. destruct Hu as (Hu & Hv).
      apply Bool.eqb_prop in Hv. subst v. auto.
    + rewrite nth_error_set_nth_neq in Hj by auto. rewrite nth_error_set_nth_neq in Pj by auto. eauto.
  - (* WriteDirty *)
    destruct (nth_error (s_hs st) i) as [hd|] eqn:Hi; simpl; [|exists ts; split; [exact I | exact PI]].
    exists ts. split; [apply commit_inv with (j := i); auto | exact PI].
  - (* Hash *)
    destruct (nth_error (s_hs st) i) as [hd|] eqn:Hi; simpl; [|exists ts; split; [exact I | exact PI]].
    exists ts. split; [apply hash_inv with (j := i); auto | exact PI].
Qed.

Lemma prun_inv : forall hist st fr ts ps,
  Inv st fr ts -> PInv st ts ps -> frozen_ok fr hist = true ->
  exists ts', Inv (run hist st) (frozen_after_all hist fr) ts' /\ PInv (run hist st) ts' (fold_left pexec hist ps).
Proof.
  induction hist as [|s hist IH]; intros st fr ts ps I P E; simpl.
  - eauto.
  - destruct (frozen_ok_cons _ _ _ E) as (Hal & E').
    destruct (pexec_inv st fr ts ps s I P Hal) as (ts1 & I1 & P1).
    apply (IH _ _ _ _ I1 P1 E').
Qed.

Definition default_entries (l : list (list byte * option value)) : list (list byte * value) :=
  map (fun e => (fst e, match snd e with Some v => v | None => [] end)) l.

(* under the two invariants the view through a handle is the view of its pure trie *)
Lemma view_of_inv st fr ts ps :
  Inv st fr ts -> PInv st ts ps ->
  forall j t pv pu, nth_error ps j = Some (t, pv, pu) ->
  exists h, Model.view H true st j = Some (h, default_entries (Trie.Model.trie_entries t))
            /\ (pu = true -> h = Encode.trie_root H (ver_of pv) t).
Proof.
  intros I (Plen & P) j t pv pu Pj.
  assert (Hj : j < length ts) by (apply nth_error_lt in Pj; lia).
  destruct (nth_error ts j) as [ot|] eqn:Tj; [|apply nth_error_None in Tj; lia].
  destruct (nth_error (s_hs st) j) as [hd|] eqn:Hh.
  2:{ apply nth_error_None in Hh. rewrite <- (il _ _ _ _ I) in Hh. lia. }
  pose proof (it _ _ _ _ I j hd ot Hh Tj) as Ht. pose proof (iw _ _ _ _ I) as Hw.
  destruct (P j hd ot t pv pu Hh Tj Pj) as (Eo & Ev & Hl).
  unfold Model.view. rewrite Hh. exists (snd (hash_handle H (s_mem st) hd)).
  destruct ot as [tt|]; simpl in Eo; subst t.
  - destruct (htree_some H _ _ _ Ht) as (Er & Hr & Hs & _ & Hc). simpl in Hl. split.
    + f_equal. f_equal. unfold default_entries. apply (entries_trie (fl_u pu pv)); auto.
    + intros Hu. rewrite (hash_pure H _ hd tt) by auto. unfold hr. cbn [Encode.trie_root].
      unfold Encode.root_merkle_value. f_equal. apply penc_enc.
      apply (lwf_mono (fl_u pu pv)); auto. intros w b Hwb. apply Hwb. exact Hu.
  - pose proof (htree_none H _ _ Ht) as En. split.
    + f_equal. f_equal. unfold entries_handle. rewrite En, node_keys_none. reflexivity.
    + intros _. unfold hash_handle. rewrite En. reflexivity.
Qed.

Lemma PInv_init : PInv init_state [None] [(None, false, true)].
Proof.
  split; auto. intros [|[|?]] hd ot tt v u Hh T B; simpl in *; try discriminate.
  inversion Hh; inversion T; inversion B; subst. simpl. auto.
Qed.

(* the view through every handle is the view of the pure trie of its lineage *)
Theorem pure_agrees : forall hist,
  frozen_parents hist = true ->
  forall j t pv pu, nth_error (prun hist) j = Some (t, pv, pu) ->
  exists h, Model.view H true (run hist init_state) j
            = Some (h, default_entries (Trie.Model.trie_entries t))
            /\ (pu = true -> h = Encode.trie_root H (ver_of pv) t).
Proof.
  intros hist Hfz j t pv pu Pj. unfold frozen_parents in Hfz.
  destruct (prun_inv hist init_state [] [None] _ (init_inv H) PInv_init Hfz) as (ts & I & PI).
  exact (view_of_inv _ _ _ _ I PI j t pv pu Pj).
Qed.

End PureAll.
