(* C03/VmCheck.v — replay of a traced fork history inside Coq (definitions only).
   bin/check evaluates [vm_replay] with vm_compute on a sample of the cases the Go harness
   produced (meta.json "vm_sample"): the model's observables are recomputed by the Coq kernel's
   own evaluator and compared with the implementation's, which guards the extraction and the
   OCaml driver. *)
From Common Require Import Bytes.
From Trie Require Import Nibbles Encode.
From C03 Require Import Model.
From Coq Require Import Arith.
Local Open Scope nat_scope.

Definition obs := (list byte * list (list byte * list byte))%type.

Definition entry_eqb (a b : list byte * list byte) : bool :=
  bytes_eqb (fst a) (fst b) && bytes_eqb (snd a) (snd b).
Fixpoint list_eqb {A} (eqb : A -> A -> bool) (a b : list A) : bool :=
  match a, b with
  | [], [] => true
  | x :: a', y :: b' => eqb x y && list_eqb eqb a' b'
  | _, _ => false
  end.
Definition obs_eqb (a b : obs) : bool :=
  bytes_eqb (fst a) (fst b) && list_eqb entry_eqb (snd a) (snd b).

Section Vm.
Variable H : list byte -> list byte.
Variables fd fg : bool.

(* Hash() then Entries() of every live handle, in index order, threading the cache writes *)
Definition observe (st : state) : state * list obs :=
  let '(m, l) :=
    fold_left (fun acc hd =>
      let '(m, l) := acc in
      let '(m1, hv) := hash_handle H m hd in
      (m1, l ++ [(hv, entries_handle fg m1 hd)])) (s_hs st) (s_mem st, []) in
  (mkSt m (s_hs st), l).

Definition extra_eqb (a b : option (N * bool)) : bool :=
  match a, b with
  | None, None => true
  | Some (d, x), Some (e, y) => N.eqb d e && Bool.eqb x y
  | _, _ => false
  end.

(* one expected record per step: the ClearPrefixLimit result and, per handle, its view when it
   differs from the previous record's (None: unchanged, as in the trace) *)
Fixpoint fill (prev : list obs) (e : list (option obs)) : option (list obs) :=
  match e, prev with
  | [], [] => Some []
  | Some v :: er, _ :: pr => option_map (cons v) (fill pr er)
  | None :: er, p :: pr => option_map (cons p) (fill pr er)
  | Some v :: er, [] => option_map (cons v) (fill [] er)
  | _, _ => None
  end.

(* [thread]: continue from the state in which the observing Hash() calls have filled the caches
   (what the Go harness and the OCaml driver do) or from the state before them (the views are the
   same by C03_isolation: Hash changes no view) *)
Variable thread : bool.

Fixpoint replay (st : state) (prev : list obs) (steps : list xstep)
         (exp : list (option (N * bool) * list (option obs))) : bool :=
  match steps, exp with
  | [], [] => true
  | s :: r, (ex, views) :: er =>
    let '(st1, res, extra) := xexec H true fd st s in
    match res with
    | ROk =>
      let '(st2, vs) := observe st1 in
      match fill prev views with
      | Some want => extra_eqb extra ex && list_eqb obs_eqb vs want && replay (if thread then st2 else st1) vs r er
      | None => false
      end
    | _ => false
    end
  | _, _ => false
  end.

Definition vm_replay (init : list obs) (steps : list xstep)
           (exp : list (option (N * bool) * list (option obs))) : bool :=
  let '(st0, vs) := observe init_state in
  list_eqb obs_eqb vs init && replay (if thread then st0 else init_state) vs steps exp.

End Vm.
