(* C03/SpecRoot.v — snapshots and the Polkadot specification root (closer of the gap "C01's root
   theorem is about the pure model, C03's about the heap").
   [mxrun hist] replays a fork history on the MAP SPECIFICATION of coq/Trie/Spec.v alone: per handle
   an ordered byte-string map (bm_put / bm_del / bm_clear_prefix / bm_clear_prefix_limit), its
   version and the flag "the version never changed while the map was non-empty"; Snapshot copies
   the triple.  No trie, no heap.
   [xguards hist]: no step of the history falls into one of the recorded C01/C02 finding classes —
   exactly the hypotheses of Trie.MapProofs.Rep_delete, ClearProofs.Rep_clear_prefix and
   LimitProofs.Rep_clear_prefix_limit, evaluated on the map of the handle at the time of the step:
     Delete k            guard_delete_exhausted (canonical trie of the map) k = false
                         (only k = [] on a root with a non-empty partial key can be inside)
     ClearPrefix p       guard_trim m p = false
     ClearPrefixLimit    guard_trim, guard_limit_zero, guard_limit_order all false.
   Theorem: under frozen_parents, uint32 limits and xguards, for every handle j with map m,
   Entries() is exactly m (so m is strictly sorted), and Hash() = spec_root H ver (kv_of_bmap m)
   whenever the handle's version never changed on a non-empty trie. *)
From Common Require Import Bytes Blake2b.
From Trie Require Import Nibbles Encode Node.
From Trie Require Model Spec InsertProofs BuildProofs MapProofs QueryProofs ClearProofs LimitProofs SpecProofs.
From C03 Require Import Model Tree Inv Proofs Main MainX ViewPure PureAll PureAllX PureAllC.
From Coq Require Import Arith Lia Bool.
Local Open Scope nat_scope.

Import Trie.Spec.

(* ---------- the map-specification side ---------- *)
Definition mstate := (bmap * bool * bool)%type.

Definition mexec (ms : list mstate) (s : step) : list mstate :=
  match s with
  | Snap i => match nth_error ms i with Some x => ms ++ [x] | None => ms end
  | Put i k v =>
    match nth_error ms i with
    | Some (m, pv, pu) => set_nth i (bm_put m k v, pv, pu) ms
    | None => ms
    end
  | Del i k =>
    match nth_error ms i with
    | Some (m, pv, pu) => set_nth i (bm_del m k, pv, pu) ms
    | None => ms
    end
  | Clear i p =>
    match nth_error ms i with
    | Some (m, pv, pu) => set_nth i (bm_clear_prefix m p, pv, pu) ms
    | None => ms
    end
  | SetVer i v =>
    match nth_error ms i with
    | Some (m, pv, pu) =>
      if pv && negb v then ms
      else set_nth i (m, v, match m with [] => true | _ :: _ => pu && Bool.eqb v pv end) ms
    | None => ms
    end
  | _ => ms
  end.

Definition mxexec (ms : list mstate) (s : xstep) : list mstate :=
  match s with
  | Core c => mexec ms c
  | ClearLimit i p limit =>
    match nth_error ms i with
    | Some (m, pv, pu) => set_nth i (fst (fst (bm_clear_prefix_limit m p limit)), pv, pu) ms
    | None => ms
    end
  end.
Definition mxrun (hist : list xstep) : list mstate := fold_left mxexec hist [([], false, true)].

(* the step is outside the recorded finding classes (the guards of the Trie Rep_* lemmas) *)
Definition step_guard (ms : list mstate) (s : xstep) : bool :=
  match s with
  | Core (Del i k) =>
    match nth_error ms i with
    | Some (m, _, _) => negb (Trie.Model.guard_delete_exhausted (build_trie (kv_of_bmap m)) k)
    | None => true
    end
  | Core (Clear i p) =>
    match nth_error ms i with
    | Some (m, _, _) => negb (Trie.Model.guard_trim m p)
    | None => true
    end
  | ClearLimit i p limit =>
    match nth_error ms i with
    | Some (m, _, _) => negb (Trie.Model.guard_trim m p) && negb (Trie.Model.guard_limit_zero m p limit)
                        && negb (Trie.Model.guard_limit_order m p limit)
    | None => true
    end
  | _ => true
  end.
Fixpoint guards_from (ms : list mstate) (hist : list xstep) : bool :=
  match hist with
  | [] => true
  | s :: r => step_guard ms s && guards_from (mxexec ms s) r
  end.
Definition xguards (hist : list xstep) : bool := guards_from [([], false, true)] hist.

(* a sufficient condition that does not mention the canonical trie: no Delete of the empty key *)
Definition step_guard_simple (ms : list mstate) (s : xstep) : bool :=
  match s with
  | Core (Del i k) => match k with [] => false | _ :: _ => true end
  | _ => step_guard ms s
  end.
Fixpoint guards_simple_from (ms : list mstate) (hist : list xstep) : bool :=
  match hist with
  | [] => true
  | s :: r => step_guard_simple ms s && guards_simple_from (mxexec ms s) r
  end.
Definition xguards_simple (hist : list xstep) : bool := guards_simple_from [([], false, true)] hist.

Lemma guards_simple_sound : forall hist ms, guards_simple_from ms hist = true -> guards_from ms hist = true.
Proof.
  induction hist as [|s r IH]; intros ms E; simpl in *; auto.
  apply andb_prop in E. destruct E as (E1 & E2). rewrite (IH _ E2), andb_true_r.
  destruct s as [[i|i k v|i k|i p|i v|i|i]|i p limit]; simpl in *; auto.
  destruct k; [discriminate|]. destruct (nth_error ms i) as [[[m pv] pu]|]; auto.
Qed.

Lemma xguards_simple_sound hist : xguards_simple hist = true -> xguards hist = true.
Proof. apply guards_simple_sound. Qed.

(* ---------- pure tries represent the maps along every guarded history ---------- *)
Definition R1 (p : pstate) (q : mstate) : Prop :=
  Trie.MapProofs.Rep (fst (fst p)) (fst (fst q)) /\ snd (fst p) = snd (fst q) /\ snd p = snd q.
Definition RInv (ps : list pstate) (ms : list mstate) : Prop := Forall2 R1 ps ms.

Lemma F2_nth {A B} (R : A -> B -> Prop) l l' : Forall2 R l l' ->
  forall i x, nth_error l i = Some x -> exists y, nth_error l' i = Some y /\ R x y.
Proof.
  induction 1 as [|a b l l' Hab HF IH]; intros [|i] x E; simpl in *; try discriminate.
  - inversion E; subst. eauto.
  - eauto.
Qed.

Lemma F2_nth_r {A B} (R : A -> B -> Prop) l l' : Forall2 R l l' ->
  forall i y, nth_error l' i = Some y -> exists x, nth_error l i = Some x /\ R x y.
Proof.
  induction 1 as [|a b l l' Hab HF IH]; intros [|i] y E; simpl in *; try discriminate.
  - inversion E; subst. eauto.
  - eauto.
Qed.

Lemma F2_none {A B} (R : A -> B -> Prop) l l' : Forall2 R l l' ->
  forall i, nth_error l i = None -> nth_error l' i = None.
Proof.
  induction 1 as [|a b l l' Hab HF IH]; intros [|i] E; simpl in *; try discriminate; auto.
Qed.

Lemma F2_set {A B} (R : A -> B -> Prop) l l' : Forall2 R l l' ->
  forall i x y, R x y -> Forall2 R (set_nth i x l) (set_nth i y l').
Proof.
  induction 1 as [|a b l l' Hab HF IH]; intros [|i] x y Hxy; simpl; constructor; auto.
Qed.

Lemma rep_build t m : Trie.MapProofs.Rep t m -> build_trie (kv_of_bmap m) = t.
Proof. intros [C E]. rewrite <- E. apply Trie.BuildProofs.build_trie_entries_opt; exact C. Qed.

Lemma rep_empty_iff t m : Trie.MapProofs.Rep t m -> (t = None <-> m = []).
Proof.
  intros R. split; intros ->.
  - apply Trie.QueryProofs.Rep_nil_map; exact R.
  - apply (Trie.SpecProofs.Rep_unique _ _ [] R Trie.MapProofs.Rep_empty).
Qed.

Lemma RInv_mxexec ps ms s : RInv ps ms -> step_guard ms s = true -> RInv (pxexec ps s) (mxexec ms s).
Proof.
  intros RI G. unfold RInv in *.
  assert (Hcase : forall i, (nth_error ps i = None /\ nth_error ms i = None)
                   \/ exists t m pv pu, nth_error ps i = Some (t, pv, pu) /\ nth_error ms i = Some (m, pv, pu)
                                       /\ Trie.MapProofs.Rep t m).
  { intros i. destruct (nth_error ps i) as [[[t pv] pu]|] eqn:E.
    - right. destruct (F2_nth _ _ _ RI i _ E) as ([[m pv'] pu'] & E' & Rp & Ev & Eu). simpl in *. subst.
      exists t, m, pv', pu'. auto.
    - left. split; auto. eapply F2_none; eauto. }
  destruct s as [[i|i k v|i k|i p|i v|i|i]|i p limit]; cbn [pxexec pexec mxexec mexec]; auto;
    destruct (Hcase i) as [(E1 & E2)|(t & m & pv & pu & E1 & E2 & Rp)]; rewrite E1, E2; auto.
  - apply Forall2_app; auto. constructor; [|constructor]. split; [exact Rp | split; reflexivity].
  - apply F2_set; auto. split; [|split; reflexivity]. simpl. apply Trie.MapProofs.Rep_put; auto.
  - apply F2_set; auto. split; [|split; reflexivity]. simpl. apply Trie.MapProofs.Rep_delete; auto.
    cbn [step_guard] in G. rewrite E2 in G. rewrite (rep_build _ _ Rp) in G.
    apply negb_true_iff in G. exact G.
  - apply F2_set; auto. split; [|split; reflexivity]. simpl. apply Trie.ClearProofs.Rep_clear_prefix; auto.
    cbn [step_guard] in G. rewrite E2 in G. apply negb_true_iff in G. exact G.
  - destruct (pv && negb v); auto. apply F2_set; auto. split; [exact Rp|]. split; [reflexivity|]. simpl.
    destruct (rep_empty_iff _ _ Rp) as (A1 & A2).
    destruct t as [n|], m as [|e m']; auto.
    + discriminate (A2 eq_refl).
    + discriminate (A1 eq_refl).
  - apply F2_set; auto. split; [|split; reflexivity]. simpl.
    cbn [step_guard] in G. rewrite E2 in G.
    apply andb_prop in G. destruct G as (G12 & G3). apply andb_prop in G12. destruct G12 as (G1 & G2).
    apply negb_true_iff in G1, G2, G3.
    exact (proj1 (Trie.LimitProofs.Rep_clear_prefix_limit t m p limit Rp G1 G2 G3)).
Qed.

Lemma RInv_fold : forall hist ps ms, RInv ps ms -> guards_from ms hist = true ->
  RInv (fold_left pxexec hist ps) (fold_left mxexec hist ms).
Proof.
  induction hist as [|s r IH]; intros ps ms RI G; simpl in *; auto.
  apply andb_prop in G. destruct G as (G1 & G2). apply IH; auto. apply RInv_mxexec; auto.
Qed.

Lemma RInv_init : RInv [(None, false, true)] [([], false, true)].
Proof. constructor; [|constructor]. split; [exact Trie.MapProofs.Rep_empty | split; reflexivity]. Qed.

Lemma RInv_run hist : xguards hist = true -> RInv (pxrun hist) (mxrun hist).
Proof. intros G. apply RInv_fold; auto. apply RInv_init. Qed.

Lemma default_entries_rep t m : Trie.MapProofs.Rep t m -> default_entries (Trie.Model.trie_entries t) = m.
Proof.
  intros R. rewrite (Trie.QueryProofs.Rep_entries t m R). unfold default_entries. rewrite map_map. simpl.
  rewrite <- (map_id m) at 2. apply map_ext. intros [k v]. reflexivity.
Qed.

(* ---------- the theorem ---------- *)
Theorem snapshot_root_is_spec_root :
  forall (H : list byte -> list byte) (hist : list xstep),
  xfrozen_parents hist = true -> limits_u32 hist = true -> xguards hist = true ->
  forall j m pv pu, nth_error (mxrun hist) j = Some (m, pv, pu) ->
  bm_sorted m = true
  /\ exists h, Model.view H true (Model.xrun H true true hist init_state) j = Some (h, m)
               /\ (pu = true -> h = spec_root H (ver_of pv) (kv_of_bmap m)).
Proof.
  intros H hist Hfz Hu Hg j m pv pu Mj.
  destruct (F2_nth_r _ _ _ (RInv_run hist Hg) j _ Mj) as ([[t pv'] pu'] & Pj & Rp & Ev & Eu).
  simpl in Rp, Ev, Eu. subst pv' pu'.
  split; [exact (Trie.SpecProofs.Rep_sorted_bmap t m Rp)|].
  destruct (pure_agrees_canon H hist Hfz Hu j t pv pu Pj) as (_ & h & Vw & Hh).
  exists h. rewrite (default_entries_rep t m Rp) in Vw. split; [exact Vw|].
  intros Epu. rewrite (Hh Epu). exact (Trie.MapProofs.Rep_root H (ver_of pv) t m Rp).
Qed.

(* the same with the simple guard (no Delete of the empty key) *)
Corollary snapshot_root_is_spec_root_simple :
  forall (H : list byte -> list byte) (hist : list xstep),
  xfrozen_parents hist = true -> limits_u32 hist = true -> xguards_simple hist = true ->
  forall j m pv pu, nth_error (mxrun hist) j = Some (m, pv, pu) ->
  bm_sorted m = true
  /\ exists h, Model.view H true (Model.xrun H true true hist init_state) j = Some (h, m)
               /\ (pu = true -> h = spec_root H (ver_of pv) (kv_of_bmap m)).
Proof.
  intros H hist Hfz Hu Hg. apply snapshot_root_is_spec_root; auto. apply xguards_simple_sound; auto.
Qed.

(* ---------- non-vacuity ---------- *)
(* a V1 trie (version set on the empty trie) with a 40-byte, hence hashed, value is committed and
   snapshotted; the snapshot deletes the hashed entry, stores another hashed value and is snapshotted
   again; that snapshot runs a limited and an unlimited clear; a second snapshot of the original *)
Definition spec_hist : list xstep :=
  [Core (SetVer 0 true); Core (Put 0 k12 v40); Core (Put 0 k1234 v3); Core (Put 0 [n2b 18; n2b 1] v3);
   Core (Commit 0); Core (Snap 0); Core (Del 1 k12); Core (Put 1 [n2b 32] v40); Core (Snap 1);
   ClearLimit 2 [n2b 18] 1%N; Core (Clear 2 [n2b 32]); Core (Snap 0); Core (SetVer 3 true); Core (HashOp 3)].
Definition spec_m0 : bmap := [(k12, v40); ([n2b 18; n2b 1], v3); (k1234, v3)].
Definition spec_m1 : bmap := [([n2b 18; n2b 1], v3); (k1234, v3); ([n2b 32], v40)].
Definition spec_m2 : bmap := [(k1234, v3)].

Lemma spec_hist_nonvacuous :
  xfrozen_parents spec_hist = true /\ limits_u32 spec_hist = true /\ xguards spec_hist = true
  /\ xguards_simple spec_hist = true
  /\ mxrun spec_hist = [(spec_m0, true, true); (spec_m1, true, true); (spec_m2, true, true); (spec_m0, true, true)]
  /\ (let st := Model.xrun blake2b_256 true true spec_hist init_state in
      Model.view blake2b_256 true st 0 = Some (spec_root blake2b_256 V1 (kv_of_bmap spec_m0), spec_m0)
      /\ Model.view blake2b_256 true st 1 = Some (spec_root blake2b_256 V1 (kv_of_bmap spec_m1), spec_m1)
      /\ Model.view blake2b_256 true st 2 = Some (spec_root blake2b_256 V1 (kv_of_bmap spec_m2), spec_m2)
      /\ Model.view blake2b_256 true st 3 = Model.view blake2b_256 true st 0)
  /\ spec_root blake2b_256 V1 (kv_of_bmap spec_m0) <> spec_root blake2b_256 V0 (kv_of_bmap spec_m0)
  /\ spec_root blake2b_256 V1 (kv_of_bmap spec_m1) <> spec_root blake2b_256 V1 (kv_of_bmap spec_m0)
  /\ spec_root blake2b_256 V1 (kv_of_bmap spec_m2) <> spec_root blake2b_256 V1 (kv_of_bmap spec_m1).
Proof. vm_compute. repeat split; try reflexivity; intro E; discriminate E. Qed.

(* informational: the condition pu = true of the hash clause is needed — a V0 trie is snapshotted, the
   snapshot raised to V1 while non-empty and written to: its map flag is false, Entries() is still the
   map, and Hash() is neither the V1 nor the V0 specification root of the map (the untouched 40-byte
   value keeps MustBeHashed = false) *)
Definition mixed_hist : list xstep :=
  [Core (Put 0 k12 v40); Core (Put 0 k1234 v3); Core (Commit 0); Core (Snap 0); Core (SetVer 1 true);
   Core (Put 1 [n2b 32] v40)].
Definition mixed_m1 : bmap := [(k12, v40); (k1234, v3); ([n2b 32], v40)].
Lemma mixed_hist_flag_needed :
  xfrozen_parents mixed_hist = true /\ limits_u32 mixed_hist = true /\ xguards mixed_hist = true
  /\ nth_error (mxrun mixed_hist) 1 = Some (mixed_m1, true, false)
  /\ exists h, Model.view blake2b_256 true (Model.xrun blake2b_256 true true mixed_hist init_state) 1 = Some (h, mixed_m1)
               /\ h <> spec_root blake2b_256 V1 (kv_of_bmap mixed_m1)
               /\ h <> spec_root blake2b_256 V0 (kv_of_bmap mixed_m1).
Proof.
  vm_compute. repeat split; try reflexivity. eexists. repeat split; try reflexivity; intro E; discriminate E.
Qed.
