(* C03/InsertPure.v — the heap insert computes the pure insert: the contract of Insert.v
   strengthened by  er t' = Trie.Model.insert (er t) k v  (and "every leaf holds a value" is
   preserved).  Same case analysis as Insert.v; the witnesses are the same trees. *)
From Common Require Import Bytes.
From Trie Require Import Nibbles Encode Node.
From Trie Require Model NibblesProofs InsertProofs.
From C03 Require Import Model Tree Cache Frame Ops Spec Insert Erase.
From Coq Require Import Arith Lia.
Local Open Scope nat_scope.

Notation pins := Trie.Model.insert.

Lemma sv_eqb_true sv v : sv_eqb sv v = true -> sv = Some v.
Proof. destruct sv as [w|]; simpl; [|discriminate]. destruct (bytes_eqb_spec w v); [congruence | discriminate]. Qed.

Section InsertPure.
Variable H : list byte -> list byte.
Variable g : N.
Variable v1 : bool.
Variable rt : option addr.
Variable fl : value -> bool -> Prop.
Hypothesis Hfl : forall v, fl v (must_hash v1 v).

Notation pre := (Spec.pre H g rt).
Notation post := (Spec.post H g rt).
Notation leaf_tree := (Insert.leaf_tree g v1).

Notation lwf := (Erase.lwf fl).

Definition result_er (m : mem) (t : atree) (m' : mem) (a' : addr) (mut : bool) (k : key) (v : value) : Prop :=
  (mut = false /\ m' = m /\ a' = aroot t /\ pins (er t) k v = er t)
  \/ (mut = true /\ exists t', aroot t' = a' /\ post m t m' t' /\ er t' = pins (er t) k v /\ lwf t').

Definition flagok (sv : option value) (mbh : bool) : Prop := forall v, sv = Some v -> fl v mbh.
Lemma flagok_some v : flagok (Some v) (must_hash v1 v).
Proof. intros w E. inversion E; subst. apply Hfl. Qed.
Lemma flagok_none b : flagok None b.
Proof. intros w E. discriminate. Qed.

Lemma lwf_leaf_tree a pk v : lwf (leaf_tree a pk v).
Proof.
  apply lwf_unfold. split; [congruence|]. split; [apply flagok_some|]. split; [reflexivity|]. intros k [].
Qed.
Lemma er_leaf_tree a pk v : er (leaf_tree a pk v) = Leaf pk v.
Proof. reflexivity. Qed.

Lemma lwf_flag a pk sv mbh gn isb ks : lwf (AN a pk sv mbh gn isb ks) -> flagok sv mbh.
Proof. rewrite lwf_unfold. tauto. Qed.
Lemma lwf_retag a pk sv mbh gn isb ks a' pk' gn' :
  lwf (AN a pk sv mbh gn isb ks) -> lwf (AN a' pk' sv mbh gn' isb ks).
Proof. rewrite !lwf_unfold. tauto. Qed.
Lemma lwf_setval a pk sv mbh gn isb ks a' gn' v :
  lwf (AN a pk sv mbh gn isb ks) -> lwf (AN a' pk (Some v) (must_hash v1 v) gn' isb ks).
Proof.
  rewrite !lwf_unfold. intros (_ & _ & Hlen & Hk). split; [congruence|]. split; [apply flagok_some | auto].
Qed.
Lemma lwf_setkid a pk sv mbh gn ks a' gn' i x :
  lwf (AN a pk sv mbh gn true ks) -> lwf x -> lwf (AN a' pk sv mbh gn' true (set_nth i (Some x) ks)).
Proof.
  rewrite !lwf_unfold. intros (_ & Hf & Hlen & Hk) Hx. split; [congruence|]. split; auto.
  split; [rewrite set_nth_length; auto|].
  intros k Hin. apply in_set_nth_some in Hin. destruct Hin as [E|(j & _ & E)].
  - inversion E; subst; auto.
  - apply Hk. rewrite <- E. apply nth_In. destruct (Nat.lt_ge_cases j (length ks)); auto.
    rewrite nth_overflow in E by auto. discriminate.
Qed.
Lemma len_no_akids : length no_akids = 16.
Proof. reflexivity. Qed.
Lemma lwf_b0 a pk sv mbh gn : flagok sv mbh -> lwf (AN a pk sv mbh gn true no_akids).
Proof.
  intros Hf. apply lwf_unfold. split; [congruence|]. split; auto. split; [reflexivity|].
  intros k Hk. destruct (in_no_akids k Hk).
Qed.
Lemma lwf_b1 a pk sv mbh gn i T : flagok sv mbh -> lwf T -> lwf (AN a pk sv mbh gn true (set_nth i (Some T) no_akids)).
Proof. intros Hf HT. apply (lwf_setkid a pk sv mbh gn no_akids); auto. apply lwf_b0; auto. Qed.
Lemma lwf_b2 a pk sv mbh gn i j T L :
  flagok sv mbh -> lwf T -> lwf L -> lwf (AN a pk sv mbh gn true (set_nth j (Some L) (set_nth i (Some T) no_akids))).
Proof. intros Hf HT HL. apply (lwf_setkid a pk sv mbh gn (set_nth i (Some T) no_akids)); auto. apply lwf_b1; auto. Qed.

Lemma er_branch_one a pk sv mbh gn i T :
  er (AN a pk sv mbh gn true (set_nth i (Some T) no_akids)) = Branch pk sv (set_child no_children i (Some (er T))).
Proof. rewrite er_unfold. unfold no_akids. now rewrite map_ero_set_nth, map_ero_no_kids. Qed.
Lemma er_branch_two a pk sv mbh gn i j T L :
  er (AN a pk sv mbh gn true (set_nth j (Some L) (set_nth i (Some T) no_akids)))
  = Branch pk sv (set_child (set_child no_children i (Some (er T))) j (Some (er L))).
Proof. rewrite er_unfold. unfold no_akids. now rewrite !map_ero_set_nth, map_ero_no_kids. Qed.
Lemma er_branch_none a pk sv mbh gn : er (AN a pk sv mbh gn true no_akids) = Branch pk sv no_children.
Proof. rewrite er_unfold. reflexivity. Qed.

(* the value-replacement path: the key is the partial key of the node *)
Lemma replace_value_spec_er m a pk sv mbh gn isb ks c value csv m' a' mut :
  let t := AN a pk sv mbh gn isb ks in
  pre m t -> lwf t -> hp m a = Some c -> cell_is c t ->
  replace_value H true g v1 rt m a c value csv = (m', a', mut) ->
  result_er m t m' a' mut pk value.
Proof.
  intros t Hp Hl Hca Hci. unfold replace_value.
  assert (Esv : c_sv c = sv) by (unfold t, cell_is in Hci; tauto).
  destruct (Bool.eqb (c_mbh c) (must_hash v1 value) && sv_eqb (c_sv c) value) eqn:Esame.
  - intros E; inversion E; subst m' a' mut. left. repeat split; auto.
    apply andb_prop in Esame. destruct Esame as (_ & Es). rewrite Esv in Es. apply sv_eqb_true in Es.
    unfold t. rewrite er_unfold, Es. destruct isb.
    + now rewrite InsertProofs.insert_branch_same.
    + simpl. now rewrite InsertProofs.insert_in_leaf_same.
  - destruct (prep H g rt m a csv) as [m1 a1] eqn:Ep. intros E. injection E as Em Ea Emut. subst m' a' mut.
    right. split; auto.
    exists (AN a1 pk (Some value) (must_hash v1 value) g isb ks). split; auto. split; [|split].
    + pose proof Hp as (Hw & _).
      eapply (finish H g rt m t m c csv m1 a1); eauto.
      * lia.
      * apply frame_refl.
      * apply pre_copy; auto.
      * intros c1 a0 Hd Hg Hpk Hmbh Hisb Hk Hsv. unfold cell_is in *. simpl.
        destruct Hci as (? & ? & ? & ? & ? & ?). repeat split; auto; congruence.
      * exact (pre_old_kids H g rt m t Hp).
      * destruct Hp as (_ & _ & Hs & _). apply (sep_disjoint_kids t Hs).
    + unfold t. rewrite !er_unfold. destruct isb.
      * now rewrite InsertProofs.insert_branch_same.
      * simpl. now rewrite InsertProofs.insert_in_leaf_same.
    + apply (lwf_setval a pk sv mbh gn isb ks); auto.
Qed.

Lemma insert_in_leaf_spec_er m a pk sv mbh gn ks c k value m' a' mut :
  let t := AN a pk sv mbh gn false ks in
  pre m t -> lwf t -> hp m a = Some c -> cell_is c t ->
  insert_in_leaf H true g v1 rt m a c k value = (m', a', mut) ->
  result_er m t m' a' mut k value.
Proof.
  intros t Hp Hl Hca Hci. unfold insert_in_leaf.
  assert (Epk : c_pk c = pk) by (unfold t, cell_is in Hci; tauto). rewrite Epk.
  assert (Esv : c_sv c = sv) by (unfold t, cell_is in Hci; tauto).
  assert (Hlv : exists lv, sv = Some lv).
  { pose proof Hl as Hl0. unfold t in Hl0. apply lwf_unfold in Hl0. destruct Hl0 as (Hs & _). destruct sv; eauto. exfalso; apply Hs; auto. }
  destruct Hlv as (lv & Elv).
  assert (Eer : er t = Leaf pk lv) by (unfold t; rewrite er_unfold, Elv; reflexivity).
  assert (Hlk : forall k0, In (Some k0) ks -> lwf k0) by (intros k0 Hk0; apply (lwf_kid _ t k0 Hl Hk0)).
  assert (Embh' : c_mbh c = mbh) by (unfold t, cell_is in Hci; tauto).
  unfold result_er. rewrite Eer. cbn [Trie.Model.insert]. unfold Trie.Model.insert_in_leaf.
  destruct (key_eqb pk k) eqn:Ek.
  { apply NibblesProofs.key_eqb_eq in Ek. subst k. intros E.
    pose proof (replace_value_spec_er m a pk sv mbh gn false ks c value false m' a' mut Hp Hl Hca Hci E) as R.
    unfold result_er in *. fold t in R. rewrite Eer in R. cbn [Trie.Model.insert] in R.
    unfold Trie.Model.insert_in_leaf in R. rewrite NibblesProofs.key_eqb_refl in R. exact R. }
  cbv zeta.
  destruct (length k =? cpl k pk).
  - destruct (length k <? length pk).
    + destruct (prep H g rt m a true) as [m1 a1] eqn:Ep.
      rewrite alloc_eq. intros E. injection E as Em Ea Emut. subst m' a' mut.
      right. split; auto.
      pose proof (move_down H g rt m a pk sv mbh gn false ks c (skipn (S (cpl k pk)) pk) m1 a1 Hp Hca Hci Ep) as HT1.
      eexists. split; [|split; [exact (hang_one H g rt m t _ _ (nth (cpl k pk) pk 0) (firstn (cpl k pk) k) (Some value) (must_hash v1 value) Hp HT1)|]].
      * reflexivity.
      * split.
        -- rewrite er_branch_one, er_unfold, Elv. reflexivity.
        -- apply lwf_b1; [apply flagok_some | apply (lwf_retag a pk sv mbh gn false ks); exact Hl].
    + rewrite alloc_eq. intros E. injection E as Em Ea Emut. subst m' a' mut.
      right. split; auto. eexists.
      split; [|split; [exact (hang_none H g rt m t (firstn (cpl k pk) k) (Some value) (must_hash v1 value) Hp)|]].
      * reflexivity.
      * split; [rewrite er_branch_none; reflexivity|].
        apply lwf_b0. apply flagok_some.
  - destruct (length pk =? cpl k pk).
    + rewrite (alloc_eq m). cbv zeta. rewrite alloc_eq. intros E. injection E as Em Ea Emut. subst m' a' mut.
      right. split; auto. eexists.
      split; [|split; [exact (hang_leaf H g v1 rt m t (nth (cpl k pk) k 0) (skipn (S (cpl k pk)) k) value (firstn (cpl k pk) k) (c_sv c) (c_mbh c) Hp)|]].
      * reflexivity.
      * split.
        -- rewrite er_branch_one, er_leaf_tree, Esv, Elv. reflexivity.
        -- apply lwf_b1; [rewrite Esv, Embh'; apply (lwf_flag a pk sv mbh gn false ks Hl) | apply lwf_leaf_tree].
    + destruct (prep H g rt m a true) as [m1 a1] eqn:Ep.
      rewrite (alloc_eq (wr m1 a1 _)). cbv zeta. rewrite alloc_eq. intros E. injection E as Em Ea Emut. subst m' a' mut.
      right. split; auto.
      pose proof (move_down H g rt m a pk sv mbh gn false ks c (skipn (S (cpl k pk)) pk) m1 a1 Hp Hca Hci Ep) as HT1.
      eexists.
      split; [|split; [exact (hang_two H g v1 rt m t _ _ (nth (cpl k pk) pk 0) (nth (cpl k pk) k 0) (skipn (S (cpl k pk)) k) value
                                (firstn (cpl k pk) k) None false Hp HT1)|]].
      * reflexivity.
      * split.
        -- rewrite er_branch_two, er_leaf_tree, er_unfold, Elv. reflexivity.
        -- apply lwf_b2; [apply flagok_none | apply (lwf_retag a pk sv mbh gn false ks); exact Hl | apply lwf_leaf_tree].
Qed.

Lemma insert_spec_er : forall fuel m t k value m' a' mut,
  length k < fuel -> pre m t -> lwf t ->
  insert H true g v1 rt fuel m (Some (aroot t)) k value = (m', a', mut) -> result_er m t m' a' mut k value.
Proof.
  induction fuel as [|f IH]; intros m t k value m' a' mut Hlen Hp Hl; [lia|].
  destruct t as [a pk sv mbh gn isb ks]. set (t := AN a pk sv mbh gn isb ks) in *.
  pose proof Hp as (Hw & Hr & Hs & Hg & Hc & Hrt).
  destruct (rep_cell _ _ Hr) as (c & Hca & Hci). simpl in Hca.
  assert (Hb : forall x, In x (addrs t) -> (x < nx m)%N) by (intros; eapply rep_bounded; eauto).
  pose proof Hci as Hci'. unfold t, cell_is in Hci'. destruct Hci' as (Epk & Esv & Embh & Egn & Eisb & Eks).
  assert (Hlk : forall k0, In (Some k0) ks -> lwf k0) by (intros k0 Hk0; apply (lwf_kid _ t k0 Hl Hk0)).
  assert (Embh' : c_mbh c = mbh) by (unfold t, cell_is in Hci; tauto).
  change (aroot t) with a. cbn [insert]. rewrite Hca. rewrite Eisb.
  destruct isb; cbn [negb].
  2:{ apply insert_in_leaf_spec_er; auto. }
  rewrite Epk.
  assert (Eer : er t = Branch pk sv (map ero ks)) by (unfold t; rewrite er_unfold; reflexivity).
  destruct (key_eqb k pk) eqn:Ekeq.
  { apply NibblesProofs.key_eqb_eq in Ekeq. subst k. apply replace_value_spec_er; auto. }
  unfold result_er. rewrite Eer, InsertProofs.insert_branch, Ekeq.
  destruct (is_prefix pk k) eqn:Epre; cbv zeta.
  - (* the key continues below this branch *)
    set (n := cpl k pk). set (idx := nth n k 0). set (rk := skipn (S n) k).
    rewrite Eks, nth_map_oroot. unfold child_at. rewrite nth_map_ero.
    destruct (nth idx ks None) as [kt|] eqn:Ekt; simpl oroot; simpl ero; cbv iota beta; cbn [Trie.Model.insert_opt].
    + (* existing child: recurse *)
      destruct (nth_some_in _ _ _ Ekt) as (Hkin & _).
      assert (Hpk : pre m kt) by (apply (pre_kid H g rt m t kt Hp Hkin)).
      destruct (insert H true g v1 rt f m (Some (aroot kt)) rk value) as [[m1 ch'] mutated] eqn:Erec.
      assert (Hlen' : length rk < f).
      { pose proof (prefix_neq_nonempty pk k Epre Ekeq). pose proof (skipn_lt n k H0). unfold rk. lia. }
      destruct (IH m kt rk value m1 ch' mutated Hlen' Hpk (Hlk kt Hkin) Erec) as [(-> & -> & -> & Esame)|(-> & tk & Htk & Hq & Etk & Hltk)].
      * simpl. intros E. injection E as Em Ea Emut. subst. left. repeat split; auto.
        rewrite Esame. rewrite set_child_same; auto. rewrite nth_map_ero, Ekt. reflexivity.
      * simpl. destruct (prep H g rt m1 a true) as [m2 a2] eqn:Ep.
        intros E. injection E as Em Ea Emut. subst m' a' mut. right. split; auto.
        exists (AN a2 pk sv mbh g true (set_nth idx (Some tk) ks)). split; auto. split; [|split].
        2:{ rewrite er_unfold, map_ero_set_nth. simpl ero. rewrite Etk. reflexivity. }
        2:{ apply (lwf_setkid a pk sv mbh gn ks); auto. }
        pose proof Hq as (_ & _ & _ & _ & Hw1 & Hle1 & F1 & P8 & _).
        assert (Hna : ~ In a (addrs kt)) by (apply (sep_root_not_in_kid t kt Hs Hkin)).
        assert (Hca1 : hp m1 a = Some c).
        { rewrite (fr_out _ _ _ _ _ _ _ F1); auto. apply Hb. apply (aroot_in_addrs t). }
        eapply (finish H g rt m t m1 c true m2 a2); eauto.
        -- eapply frame_lift_kid; eauto.
        -- intros Hng. assert (Hold : oldt g kt).
           { apply good_unfold in Hg. destruct Hg as (_ & Ho & _). apply Ho; auto. }
           split.
           ++ eapply frame_rep; eauto. intros x Hx. rewrite Hold in Hx. destruct Hx.
           ++ apply (fr_cache _ _ _ _ _ _ _ F1); auto.
              ** intros x Hx. rewrite Hold in Hx. destruct Hx.
              ** intros r Er Hin. specialize (Hrt r Er Hin). simpl in Hrt. subst r. split; auto.
                 unfold Model.is_root. rewrite Er. apply N.eqb_refl.
        -- intros c1 a0 Hd Hg1 Hpk1 Hmbh1 Hisb1 Hk1 Hsv1. unfold cell_is. simpl.
           assert (c_sv c1 = c_sv c) by (rewrite Hsv1; destruct (N.eqb (c_gen c) g); auto).
           rewrite map_set_nth. simpl oroot. rewrite Htk. repeat split; auto; congruence.
        -- intros k0 Hin. apply in_set_nth_some in Hin. destruct Hin as [E|(j & Hj & E)].
           ++ inversion E; subst k0. eapply (new_kid_ok H g v1 rt); eauto.
           ++ destruct (nth_some_in _ _ _ E) as (Hin0 & _). apply (old_kid_ok H g rt); auto.
              intros x Hx. apply (fr_out _ _ _ _ _ _ _ F1).
              ** apply Hb. apply (kid_in_addrs t k0 x Hin0 Hx).
              ** intros Hx'. eapply (sep_kids_disjoint t j idx k0 kt x); eauto.
        -- apply disjoint_set_nth; [apply (sep_disjoint_kids t Hs)|].
           intros j kj x Hj E Hx Hx'. destruct (nth_some_in _ _ _ E) as (Hin0 & _).
           destruct (P8 _ Hx) as [Hx0|Hx0].
           ++ eapply (sep_kids_disjoint t idx j kt kj x); eauto.
           ++ assert ((x < nx m)%N) by (apply Hb; apply (kid_in_addrs t kj x Hin0 Hx')). lia.
    + (* no child there: a new leaf *)
      rewrite (alloc_eq m). cbv zeta.
      set (m1 := fst (alloc m (new_leaf g v1 rk value))).
      destruct (prep H g rt m1 a true) as [m2 a2] eqn:Ep.
      intros E. injection E as Em Ea Emut. subst m' a' mut. right. split; auto.
      exists (AN a2 pk sv mbh g true (set_nth idx (Some (leaf_tree (nx m) rk value)) ks)). split; auto. split; [|split].
      2:{ rewrite er_unfold, map_ero_set_nth. reflexivity. }
      2:{ apply (lwf_setkid a pk sv mbh gn ks); auto. apply lwf_leaf_tree. }
      assert (Hw1 : hwf m1) by (apply hwf_alloc; auto).
      assert (Hold : forall x, (x < nx m)%N -> hp m1 x = hp m x) by (intros; apply alloc_old; auto).
      assert (Hn : ~ In (nx m) (addrs t)) by (intros Hx; specialize (Hb _ Hx); lia).
      eapply (finish H g rt m t m1 c true m2 a2); eauto.
      * unfold m1, alloc; simpl. lia.
      * unfold m1, alloc; simpl. apply frame_fresh; [lia|]. intros c0 Hc0. rewrite Hw in Hc0 by lia. discriminate.
      * rewrite Hold; auto. apply Hb. apply (aroot_in_addrs t).
      * intros _. destruct (carried_upd H (hp m) (nx m) (new_leaf g v1 rk value) t Hn Hr) as (C1 & C2).
        split; [exact C1 | apply C2; auto].
      * intros c1 a0 Hd Hg1 Hpk1 Hmbh1 Hisb1 Hk1 Hsv1. unfold cell_is. simpl.
        assert (c_sv c1 = c_sv c) by (rewrite Hsv1; destruct (N.eqb (c_gen c) g); auto).
        rewrite map_set_nth. simpl oroot. repeat split; auto; congruence.
      * intros k0 Hin. apply in_set_nth_some in Hin. destruct Hin as [E|(j & Hj & E)].
        -- inversion E; subst k0. apply (fresh_leaf_kid_ok H g v1 m t m rk value); auto. lia.
        -- destruct (nth_some_in _ _ _ E) as (Hin0 & _). apply (old_kid_ok H g rt); auto.
           intros x Hx. apply Hold. apply Hb. apply (kid_in_addrs t k0 x Hin0 Hx).
      * apply disjoint_set_nth; [apply (sep_disjoint_kids t Hs)|].
        intros j kj x Hj E Hx Hx'. destruct (nth_some_in _ _ _ E) as (Hin0 & _).
        simpl in Hx. destruct Hx as [<-|[]].
        assert ((nx m < nx m)%N) by (apply Hb; apply (kid_in_addrs t kj _ Hin0 Hx')). lia.
  - (* the keys diverge inside the partial key: a new branch above this one *)
    destruct (prep H g rt m a true) as [m1 a1] eqn:Ep.
    pose proof (move_down H g rt m a pk sv mbh gn true ks c (skipn (S (cpl k pk)) pk) m1 a1 Hp Hca Hci Ep) as HT1.
    assert (HlT : lwf (AN a1 (skipn (S (cpl k pk)) pk) sv mbh g true ks)).
    { apply (lwf_retag a pk sv mbh gn true ks); exact Hl. }
    destruct (length k <=? cpl k pk).
    + rewrite alloc_eq. intros E. injection E as Em Ea Emut. subst m' a' mut. right. split; auto.
      eexists. split; [|split; [exact (hang_one H g rt m t _ _ (nth (cpl k pk) pk 0) (firstn (cpl k pk) k) (Some value) (must_hash v1 value) Hp HT1)|]].
      * reflexivity.
      * split; [rewrite er_branch_one, er_unfold; reflexivity|].
        apply lwf_b1; [apply flagok_some | auto].
    + rewrite (alloc_eq (wr m1 a1 _)). cbv zeta. rewrite alloc_eq.
      intros E. injection E as Em Ea Emut. subst m' a' mut. right. split; auto.
      eexists.
      split; [|split; [exact (hang_two H g v1 rt m t _ _ (nth (cpl k pk) pk 0) (nth (cpl k pk) k 0) (skipn (S (cpl k pk)) k) value
                                (firstn (cpl k pk) k) None false Hp HT1)|]].
      * reflexivity.
      * split; [rewrite er_branch_two, er_leaf_tree, er_unfold; reflexivity|].
        apply lwf_b2; [apply flagok_none | auto | apply lwf_leaf_tree].
Qed.

End InsertPure.
