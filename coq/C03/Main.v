(* C03/Main.v — every step of a fork history preserves the invariant; isolation of the views. *)
From Common Require Import Bytes.
From Trie Require Import Nibbles Encode.
From C03 Require Import Model Tree Cache Frame Ops Spec Insert Delete View Inv Mutate.
From Coq Require Import Arith Lia.
Local Open Scope nat_scope.

Section Main.
Variable H : list byte -> list byte.
Variables fd fg : bool.

Notation cache_ok := (Cache.cache_ok H).
Notation Inv := (Inv.Inv H).
Notation htree := (Inv.htree H).
Notation outcome := (Mutate.outcome H).
Notation exec := (Model.exec H true fd).
Notation run := (Model.run H true fd).
Notation view := (Model.view H fg).

Lemma pre_of_htree m hd t : hwf m -> htree m hd (Some t) -> Spec.pre H (h_gen hd) (h_root hd) m t.
Proof.
  intros Hw Ht. destruct (htree_some H _ _ _ Ht) as (Er & Hr & Hs & Hg & Hc).
  assert (Eir : Model.is_root (h_root hd) (aroot t) = true) by (rewrite Er; simpl; apply N.eqb_refl).
  unfold Spec.pre. rewrite Eir. repeat split; auto.
  intros r E _. rewrite Er in E. inversion E; auto.
Qed.

Lemma handle_eta hd : mkH (h_gen hd) (h_root hd) (h_v1 hd) = hd.
Proof. destruct hd; reflexivity. Qed.

(* ---------- the three mutating operations as outcomes ---------- *)
Definition step_ok (st : state) (fr : list nat) (ts : list (option atree)) (i : nat) (st' : state) : Prop :=
  exists ot', Inv st' fr (set_nth i ot' ts).

Lemma unchanged_step st fr ts i hd ot :
  Inv st fr ts -> nth_error (s_hs st) i = Some hd -> nth_error ts i = Some ot ->
  step_ok st fr ts i (set_handle st i hd (s_mem st)).
Proof.
  intros I Hi Ti. exists ot. unfold set_handle. rewrite (set_nth_same _ _ _ Hi), (set_nth_same _ _ _ Ti).
  destruct st; exact I.
Qed.

Lemma outcome_step st fr ts i hd ot m' ot' :
  Inv st fr ts -> nth_error (s_hs st) i = Some hd -> nth_error ts i = Some ot -> ~ In i fr ->
  outcome (s_mem st) (h_gen hd) (h_root hd) ot m' ot' ->
  step_ok st fr ts i (set_handle st i (mkH (h_gen hd) (oroot ot') (h_v1 hd)) m').
Proof. intros I Hi Ti Hfr Out. exists ot'. eapply mutate_inv; eauto. Qed.

Lemma put_step st fr ts i hd ot k v :
  Inv st fr ts -> nth_error (s_hs st) i = Some hd -> nth_error ts i = Some ot -> ~ In i fr ->
  let '(m1, hd1) := put_handle H true (s_mem st) hd k v in
  step_ok st fr ts i (set_handle st i hd1 m1).
Proof.
  intros I Hi Ti Hfr. pose proof (iw _ _ _ _ I) as Hw. pose proof (it _ _ _ _ I i hd ot Hi Ti) as Ht.
  unfold put_handle. destruct ot as [t|].
  - destruct (htree_some H _ _ _ Ht) as (Er & _). rewrite Er.
    pose proof (pre_of_htree _ _ _ Hw Ht) as Hp. rewrite Er in Hp.
    destruct (insert H true (h_gen hd) (h_v1 hd) (Some (aroot t)) _ (s_mem st) (Some (aroot t)) _ v)
      as [[m1 a] mut] eqn:E.
    apply (insert_spec H (h_gen hd) (h_v1 hd) (Some (aroot t))) in E; auto.
    destruct E as [(-> & -> & ->)|(-> & t' & <- & Hq)].
    + rewrite <- Er, handle_eta. eapply unchanged_step; eauto.
    + change (Some (aroot t')) with (oroot (Some t')). eapply outcome_step; eauto.
      rewrite Er. apply post_outcome; auto.
  - rewrite (htree_none H _ _ Ht). cbn [insert]. rewrite alloc_eq.
    set (lf := new_leaf (h_gen hd) (h_v1 hd) (key_le_to_nibbles k) v).
    change (Some (nx (s_mem st))) with (oroot (Some (leaf_tree (h_gen hd) (h_v1 hd) (nx (s_mem st)) (key_le_to_nibbles k) v))).
    eapply outcome_step; eauto.
    destruct (leaf_facts H (h_gen hd) (h_v1 hd) (hp (fst (alloc (s_mem st) lf))) (nx (s_mem st)) (key_le_to_nibbles k) v)
      as (L1 & L2 & L3 & L4 & L5).
    { unfold alloc; simpl. apply upd_eq. }
    split; [apply hwf_alloc; auto|]. split; [unfold alloc; simpl; lia|].
    split. { intros x Hx. apply alloc_old; auto. }
    intros t' E. inversion E; subst t'. split; [exact L1|]. split; [exact L2|]. split; [exact L3|]. split; [apply L4|].
    rewrite L5. split. { intros x [<-|[]]. right. lia. }
    split. { intros x [<-|[]] Hne. simpl in Hne. congruence. }
    right. simpl. lia.
Qed.

Lemma result_o_step st fr ts i hd t m1 p1 flag :
  Inv st fr ts -> nth_error (s_hs st) i = Some hd -> nth_error ts i = Some (Some t) -> ~ In i fr ->
  h_root hd = Some (aroot t) ->
  Delete.result_o H (h_gen hd) (h_root hd) (s_mem st) t m1 p1 flag ->
  step_ok st fr ts i (set_handle st i (mkH (h_gen hd) p1 (h_v1 hd)) m1).
Proof.
  intros I Hi Ti Hfr Er [(-> & -> & ->)|(-> & [(-> & Hg)|(t' & -> & Hq)])].
  - rewrite <- Er, handle_eta. eapply unchanged_step; eauto.
  - change None with (oroot None). eapply outcome_step; eauto. apply gone_outcome; auto.
  - change (Some (aroot t')) with (oroot (Some t')). eapply outcome_step; eauto. apply post_outcome; auto.
Qed.

Lemma del_step st fr ts i hd ot k :
  Inv st fr ts -> nth_error (s_hs st) i = Some hd -> nth_error ts i = Some ot -> ~ In i fr ->
  let '(m1, hd1) := del_handle H fd (s_mem st) hd k in
  step_ok st fr ts i (set_handle st i hd1 m1).
Proof.
  intros I Hi Ti Hfr. pose proof (iw _ _ _ _ I) as Hw. pose proof (it _ _ _ _ I i hd ot Hi Ti) as Ht.
  unfold del_handle. destruct ot as [t|].
  - destruct (htree_some H _ _ _ Ht) as (Er & _).
    pose proof (pre_of_htree _ _ _ Hw Ht) as Hp.
    destruct (delete H (h_gen hd) (h_root hd) fd _ (s_mem st) (h_root hd) _) as [[m1 r] flag] eqn:E.
    rewrite Er in E at 2. apply (delete_spec H (h_gen hd) (h_root hd) fd) in E; auto.
    eapply result_o_step; eauto.
  - rewrite (htree_none H _ _ Ht). rewrite delete_none.
    pose proof (htree_none H _ _ Ht) as En. rewrite <- En, handle_eta. eapply unchanged_step; eauto.
Qed.

Lemma clear_step st fr ts i hd ot p :
  Inv st fr ts -> nth_error (s_hs st) i = Some hd -> nth_error ts i = Some ot -> ~ In i fr ->
  let '(m1, hd1) := clear_handle H (s_mem st) hd p in
  step_ok st fr ts i (set_handle st i hd1 m1).
Proof.
  intros I Hi Ti Hfr. pose proof (iw _ _ _ _ I) as Hw. pose proof (it _ _ _ _ I i hd ot Hi Ti) as Ht.
  unfold clear_handle. destruct p as [|b p].
  - destruct ot as [t|].
    + destruct (htree_some H _ _ _ Ht) as (Er & _). rewrite Er.
      pose proof (pre_of_htree _ _ _ Hw Ht) as Hp.
      change None with (oroot None). eapply outcome_step; eauto.
      apply gone_outcome. rewrite Er. rewrite Er in Hp. apply drop_spec; auto.
    + pose proof (htree_none H _ _ Ht) as En. rewrite En. rewrite <- En, handle_eta. eapply unchanged_step; eauto.
  - destruct ot as [t|].
    + destruct (htree_some H _ _ _ Ht) as (Er & _).
      pose proof (pre_of_htree _ _ _ Hw Ht) as Hp.
      destruct (clear_prefix_node H (h_gen hd) (h_root hd) _ (s_mem st) (h_root hd) _) as [[m1 r] flag] eqn:E.
      rewrite Er in E at 2. apply (clear_prefix_spec H (h_gen hd) (h_root hd)) in E; auto.
      eapply result_o_step; eauto.
    + rewrite (htree_none H _ _ Ht). rewrite clear_none.
      pose proof (htree_none H _ _ Ht) as En. rewrite <- En, handle_eta. eapply unchanged_step; eauto.
Qed.

(* ---------- one step ---------- *)
Definition frozen_after (s : step) (fr : list nat) : list nat :=
  match s with Snap i => i :: fr | _ => fr end.

Definition allowed (s : step) (fr : list nat) : Prop :=
  forall i, mutated_handle s = Some i -> ~ In i fr.

Lemma exec_inv st fr ts s :
  Inv st fr ts -> allowed s fr ->
  exists ts', Inv (fst (exec st s)) (frozen_after s fr) ts'
              /\ length (s_hs st) <= length (s_hs (fst (exec st s)))
              /\ (forall j, mutated_handle s <> Some j -> j < length ts -> nth_error ts' j = nth_error ts j)
              /\ (forall i, s = Snap i -> i < length ts -> nth_error ts' (length ts) = nth_error ts i).
Proof.
  intros I Hal.
  assert (Hts : forall i hd, nth_error (s_hs st) i = Some hd -> exists ot, nth_error ts i = Some ot).
  { intros i hd Hi. destruct (nth_error ts i) eqn:E; eauto.
    apply nth_error_None in E. apply nth_error_lt in Hi. rewrite (il _ _ _ _ I) in E. lia. }
  assert (Hmut : forall i st', step_ok st fr ts i st' -> mutated_handle s = Some i ->
            length (s_hs st) <= length (s_hs st') ->
            exists ts', Inv st' (frozen_after s fr) ts' /\ length (s_hs st) <= length (s_hs st')
              /\ (forall j, mutated_handle s <> Some j -> j < length ts -> nth_error ts' j = nth_error ts j)
              /\ (forall i0, s = Snap i0 -> i0 < length ts -> nth_error ts' (length ts) = nth_error ts i0)).
  { intros i st' (ot' & I') Hm Hlen. exists (set_nth i ot' ts).
    assert (Efr : frozen_after s fr = fr) by (destruct s; simpl in *; auto; discriminate).
    rewrite Efr. split; auto. split; auto. split.
    - intros j Hj _. apply nth_error_set_nth_neq. intros ->. congruence.
    - intros i0 ->. discriminate. }
  assert (Hnone : forall st', st' = st -> frozen_after s fr = fr ->
            exists ts', Inv st' (frozen_after s fr) ts' /\ length (s_hs st) <= length (s_hs st')
              /\ (forall j, mutated_handle s <> Some j -> j < length ts -> nth_error ts' j = nth_error ts j)
              /\ (forall i0, s = Snap i0 -> i0 < length ts -> nth_error ts' (length ts) = nth_error ts i0)).
  { intros st' -> Efr. exists ts. rewrite Efr. split; [exact I|]. split; [lia|]. split; [auto|].
    intros i0 E. subst s. simpl in Efr. apply (f_equal (@length _)) in Efr. simpl in Efr. lia. }
  destruct s as [i|i k v|i k|i p|i v|i|i]; simpl exec.
  - (* Snapshot *)
    destruct (nth_error (s_hs st) i) as [hd|] eqn:Hi.
    + destruct (Hts i hd Hi) as (ot & Ti). exists (ts ++ [ot]). simpl. split; [apply snap_inv; auto|].
      split; [rewrite app_length; simpl; lia|]. split.
      * intros j _ Hj. apply nth_error_app1; auto.
      * intros i0 E Hi0. inversion E; subst i0. rewrite nth_error_app2 by lia. rewrite Nat.sub_diag. simpl. auto.
    + exists ts. simpl. split.
      * (* an invalid index: nothing happens; freezing an absent handle is harmless *)
        constructor; try apply I.
        intros a b hd t t' Hab Hfr. apply (i2 _ _ _ _ I a b hd t t' Hab). intros Hin. apply Hfr. simpl; auto.
      * repeat split; auto. intros i0 E Hi0. inversion E; subst i0.
        apply nth_error_None in Hi. rewrite <- (il _ _ _ _ I) in Hi. lia.
  - (* Put *)
    destruct (nth_error (s_hs st) i) as [hd|] eqn:Hi; [|apply Hnone; auto].
    destruct (Hts i hd Hi) as (ot & Ti).
    pose proof (put_step st fr ts i hd ot k v I Hi Ti (Hal i eq_refl)) as Hs.
    destruct (put_handle H true (s_mem st) hd k v) as [m1 hd1]. simpl.
    apply (Hmut i); auto. simpl. rewrite set_nth_length. auto.
  - destruct (nth_error (s_hs st) i) as [hd|] eqn:Hi; [|apply Hnone; auto].
    destruct (Hts i hd Hi) as (ot & Ti).
    pose proof (del_step st fr ts i hd ot k I Hi Ti (Hal i eq_refl)) as Hs.
    destruct (del_handle H fd (s_mem st) hd k) as [m1 hd1]. simpl.
    apply (Hmut i); auto. simpl. rewrite set_nth_length. auto.
  - destruct (nth_error (s_hs st) i) as [hd|] eqn:Hi; [|apply Hnone; auto].
    destruct (Hts i hd Hi) as (ot & Ti).
    pose proof (clear_step st fr ts i hd ot p I Hi Ti (Hal i eq_refl)) as Hs.
    destruct (clear_handle H (s_mem st) hd p) as [m1 hd1]. simpl.
    apply (Hmut i); auto. simpl. rewrite set_nth_length. auto.
  - (* SetVersion *)
    destruct (nth_error (s_hs st) i) as [hd|] eqn:Hi; [|apply Hnone; auto].
    destruct (h_v1 hd && negb v); [apply Hnone; auto|]. simpl.
    exists ts. split; [apply setver_inv; auto|]. split; [rewrite set_nth_length; auto|]. split; auto.
    intros i0 E; discriminate.
  - (* WriteDirty *)
    destruct (nth_error (s_hs st) i) as [hd|] eqn:Hi; [|apply Hnone; auto]. simpl.
    exists ts. split; [apply commit_inv with (j := i); auto|]. split; auto. split; auto. intros i0 E; discriminate.
  - (* Hash *)
    destruct (nth_error (s_hs st) i) as [hd|] eqn:Hi; [|apply Hnone; auto]. simpl.
    exists ts. split; [apply hash_inv with (j := i); auto|]. split; auto. split; auto. intros i0 E; discriminate.
Qed.

(* ---------- histories ---------- *)
Definition frozen_after_all (l : list step) (fr : list nat) : list nat :=
  fold_left (fun f s => frozen_after s f) l fr.

Lemma frozen_ok_cons fr s r :
  frozen_ok fr (s :: r) = true -> allowed s fr /\ frozen_ok (frozen_after s fr) r = true.
Proof.
  simpl. intros E. apply andb_prop in E. destruct E as (E1 & E2). split.
  - intros i Hm. rewrite Hm in E1. intros Hin. apply negb_true_iff in E1.
    assert (existsb (Nat.eqb i) fr = true); [|congruence].
    apply existsb_exists. exists i. split; auto. apply Nat.eqb_refl.
  - destruct s; exact E2.
Qed.

Lemma frozen_ok_app fr l1 l2 :
  frozen_ok fr (l1 ++ l2) = true -> frozen_ok fr l1 = true /\ frozen_ok (frozen_after_all l1 fr) l2 = true.
Proof.
  revert fr. induction l1 as [|s l1 IH]; intros fr E; simpl in *; auto.
  apply andb_prop in E. destruct E as (E1 & E2). rewrite E1. simpl.
  destruct (IH _ E2) as (? & ?). split; auto.
Qed.

Lemma run_inv : forall hist st fr ts,
  Inv st fr ts -> frozen_ok fr hist = true ->
  exists ts', Inv (run hist st) (frozen_after_all hist fr) ts'.
Proof.
  induction hist as [|s hist IH]; intros st fr ts I E; simpl.
  - eauto.
  - destruct (frozen_ok_cons _ _ _ E) as (Hal & E').
    destruct (exec_inv st fr ts s I Hal) as (ts1 & I1 & _).
    apply (IH _ _ _ I1 E').
Qed.

Lemma run_app l1 l2 st : run (l1 ++ l2) st = run l2 (run l1 st).
Proof. unfold Model.run. apply fold_left_app. Qed.

Lemma firstn_S_nth {A} (l : list A) n x : nth_error l n = Some x -> firstn (S n) l = firstn n l ++ [x].
Proof.
  revert n. induction l as [|a l IH]; intros [|n] E; simpl in *; try discriminate.
  - inversion E; auto.
  - f_equal. apply IH; auto.
Qed.

Lemma nth_error_split_firstn {A} (l : list A) n x :
  nth_error l n = Some x -> exists r, l = firstn n l ++ x :: r.
Proof.
  revert n. induction l as [|a l IH]; intros [|n] E; simpl in *; try discriminate.
  - inversion E. eauto.
  - destruct (IH _ E) as (r & Er). exists r. f_equal. auto.
Qed.

(* the view through a handle is determined by its tree *)
Lemma view_tree2 st fr ts st' fr' ts' j j' :
  Inv st fr ts -> Inv st' fr' ts' -> j < length ts -> nth_error ts' j' = nth_error ts j ->
  view st' j' = view st j.
Proof.
  intros I I' Hj E. unfold Model.view.
  destruct (nth_error ts j) as [ot|] eqn:Tj; [|apply nth_error_None in Tj; lia].
  destruct (nth_error (s_hs st) j) as [hd|] eqn:Hh.
  2:{ apply nth_error_None in Hh. rewrite <- (il _ _ _ _ I) in Hh. lia. }
  destruct (nth_error (s_hs st') j') as [hd'|] eqn:Hh'.
  2:{ apply nth_error_None in Hh'. rewrite <- (il _ _ _ _ I') in Hh'. apply nth_error_lt in E. lia. }
  pose proof (it _ _ _ _ I j hd ot Hh Tj) as Ht. pose proof (it _ _ _ _ I' j' hd' ot Hh' E) as Ht'.
  pose proof (iw _ _ _ _ I) as Hw. pose proof (iw _ _ _ _ I') as Hw'.
  f_equal. destruct ot as [t|].
  - destruct (htree_some H _ _ _ Ht) as (Er & Hr & Hs & _ & Hc).
    destruct (htree_some H _ _ _ Ht') as (Er' & Hr' & _ & _ & Hc').
    rewrite (hash_pure H (s_mem st) hd t), (hash_pure H (s_mem st') hd' t); auto.
    f_equal. unfold entries_handle. rewrite Er, Er'.
    rewrite (node_keys_pkeys (cfuel (s_mem st)) (hp (s_mem st)) t []) by (auto using depth_fuel).
    rewrite (node_keys_pkeys (cfuel (s_mem st')) (hp (s_mem st')) t []) by (auto using depth_fuel).
    apply map_ext. intros k. f_equal. rewrite (retrieve_rep fg _ (hp (s_mem st')) (hp (s_mem st)) t _ Hr' Hr). reflexivity.
  - pose proof (htree_none H _ _ Ht) as En. pose proof (htree_none H _ _ Ht') as En'.
    unfold hash_handle, entries_handle. rewrite En, En'. rewrite !node_keys_none. reflexivity.
Qed.

Lemma view_tree st fr ts st' fr' ts' j :
  Inv st fr ts -> Inv st' fr' ts' -> j < length ts -> nth_error ts' j = nth_error ts j ->
  view st' j = view st j.
Proof. apply view_tree2. Qed.

(* ---------- isolation ---------- *)
Theorem isolation : forall hist,
  frozen_parents hist = true ->
  forall n s, nth_error hist n = Some s ->
  forall j, mutated_handle s <> Some j ->
            j < length (s_hs (run (firstn n hist) init_state)) ->
            view (run (firstn (S n) hist) init_state) j = view (run (firstn n hist) init_state) j.
Proof.
  intros hist Hfz n s Hn j Hj Hlt.
  destruct (nth_error_split_firstn _ _ _ Hn) as (r & Er).
  unfold frozen_parents in Hfz. rewrite Er in Hfz.
  destruct (frozen_ok_app _ _ _ Hfz) as (Hfz1 & Hfz2).
  destruct (run_inv (firstn n hist) init_state [] [None] (init_inv H) Hfz1) as (ts & I).
  destruct (frozen_ok_cons _ _ _ Hfz2) as (Hal & _).
  destruct (exec_inv _ _ _ s I Hal) as (ts' & I' & _ & Hsame & _).
  rewrite (firstn_S_nth _ _ _ Hn), run_app. simpl.
  assert (Hjt : j < length ts) by (rewrite (il _ _ _ _ I); auto).
  eapply view_tree; eauto.
Qed.

(* a new snapshot shows what its source shows *)
Theorem snapshot_view : forall hist,
  frozen_parents hist = true ->
  forall n i, nth_error hist n = Some (Snap i) ->
  let before := run (firstn n hist) init_state in
  i < length (s_hs before) ->
  view (run (firstn (S n) hist) init_state) (length (s_hs before)) = view before i.
Proof.
  intros hist Hfz n i Hn before Hlt. unfold before in *.
  destruct (nth_error_split_firstn _ _ _ Hn) as (r & Er).
  unfold frozen_parents in Hfz. rewrite Er in Hfz.
  destruct (frozen_ok_app _ _ _ Hfz) as (Hfz1 & Hfz2).
  destruct (run_inv (firstn n hist) init_state [] [None] (init_inv H) Hfz1) as (ts & I).
  destruct (frozen_ok_cons _ _ _ Hfz2) as (Hal & _).
  destruct (exec_inv _ _ _ (Snap i) I Hal) as (ts' & I' & _ & _ & Hsnap).
  rewrite (firstn_S_nth _ _ _ Hn), run_app. simpl Model.run at 1.
  assert (Hit : i < length ts) by (rewrite (il _ _ _ _ I); auto).
  specialize (Hsnap i eq_refl Hit). rewrite <- (il _ _ _ _ I).
  eapply view_tree2; eauto.
Qed.

End Main.
