(* C03/Mutate.v — a mutation of one (not snapshotted) handle preserves the global invariant and
   leaves the tree of every other handle as it is. *)
From Common Require Import Bytes.
From Trie Require Import Nibbles Encode.
From C03 Require Import Model Tree Cache Frame Ops Spec Insert Delete View Inv.
From Coq Require Import Arith Lia.
Local Open Scope nat_scope.

Lemma set_nth_same {A} i (x : A) l : nth_error l i = Some x -> set_nth i x l = l.
Proof. revert i; induction l; destruct i; simpl; intros E; try discriminate; auto; [inversion E; auto | f_equal; auto]. Qed.

Section Mutate.
Variable H : list byte -> list byte.

Notation cache_ok := (Cache.cache_ok H).
Notation Inv := (Inv.Inv H).
Notation htree := (Inv.htree H).

(* what a mutating operation of the handle (generation g, root pointer rt, tree ot) did *)
Definition outcome (m : mem) (g : N) (rt : option addr) (ot : option atree) (m' : mem) (ot' : option atree) : Prop :=
  hwf m' /\ (nx m <= nx m')%N
  /\ (match ot with
      | Some t => Frame.frame H g rt (nx m) t (hp m) (hp m')
      | None => forall x, (x < nx m)%N -> hp m' x = hp m x
      end)
  /\ (forall t', ot' = Some t' ->
        rep (hp m') t' /\ sep t' /\ good g t' /\ cache_ok true (hp m') t'
        /\ (forall x, In x (addrs t') -> (exists t, ot = Some t /\ In x (addrs t)) \/ (nx m <= x)%N)
        /\ (forall x, In x (addrs t') -> x <> aroot t' -> (x < nx m)%N ->
              exists t, ot = Some t /\ ((In x (addrs t) /\ x <> aroot t) \/ In x (own g t)))
        /\ ((exists t, ot = Some t /\ aroot t' = aroot t /\ In (aroot t) (own g t)) \/ (nx m <= aroot t')%N)).

Lemma post_outcome m g rt t m' t' :
  Spec.post H g rt m t m' t' -> outcome m g rt (Some t) m' (Some t').
Proof.
  intros (R1 & R2 & R3 & R4 & Hw & Hle & F & P8 & P9 & P10).
  split; [exact Hw|]. split; [exact Hle|]. split; [exact F|].
  intros t0 E. inversion E; subst t0. split; [exact R1|]. split; [exact R2|]. split; [exact R3|]. split; [apply R4|].
  split. { intros x Hx. destruct (P8 x Hx); eauto. }
  split. { intros x Hx Hne Hlt. exists t. split; auto. }
  destruct P10 as [(? & ?)|?]; eauto.
Qed.

Lemma gone_outcome m g rt t m' :
  Delete.gone H g rt m t m' -> outcome m g rt (Some t) m' None.
Proof.
  intros (Hw & Hle & F). split; [exact Hw|]. split; [exact Hle|]. split; [exact F|]. intros t' E; discriminate.
Qed.

Section Step.
Variables (st : state) (fr : list nat) (ts : list (option atree)).
Variables (i : nat) (hd : handle) (ot : option atree) (m' : mem) (ot' : option atree).
Hypothesis I : Inv st fr ts.
Hypothesis Hi : nth_error (s_hs st) i = Some hd.
Hypothesis Ti : nth_error ts i = Some ot.
Hypothesis Hfr : ~ In i fr.
Hypothesis Out : outcome (s_mem st) (h_gen hd) (h_root hd) ot m' ot'.

Let m := s_mem st.
Let g := h_gen hd.
Let hd' := mkH (h_gen hd) (oroot ot') (h_v1 hd).
Let st' := mkSt m' (set_nth i hd' (s_hs st)).
Let ts' := set_nth i ot' ts.

Lemma other_handle j hdj : j <> i -> nth_error (s_hs st') j = Some hdj -> nth_error (s_hs st) j = Some hdj.
Proof. intros Hne E. simpl in E. rewrite nth_error_set_nth_neq in E; auto. Qed.

Lemma other_tree j o : j <> i -> nth_error ts' j = Some o -> nth_error ts j = Some o.
Proof. intros Hne E. unfold ts' in E. rewrite nth_error_set_nth_neq in E; auto. Qed.

Lemma old_bounded j tj : nth_error ts j = Some (Some tj) -> forall x, In x (addrs tj) -> (x < nx (s_mem st))%N.
Proof.
  intros Tj x Hx. destruct (nth_error (s_hs st) j) as [hdj|] eqn:Hj.
  - destruct (htree_some H _ _ _ (it _ _ _ _ I j hdj _ Hj Tj)) as (_ & Hr & _).
    eapply rep_bounded; eauto. apply (iw _ _ _ _ I).
  - apply nth_error_None in Hj. apply nth_error_lt in Tj. rewrite (il _ _ _ _ I) in Tj. lia.
Qed.

(* the trees of the other handles are still there, with valid caches *)
Lemma others_kept j hdj tj :
  j <> i -> nth_error (s_hs st) j = Some hdj -> nth_error ts j = Some (Some tj) ->
  rep (hp m') tj /\ cache_ok true (hp m') tj.
Proof.
  intros Hne Hj Tj. destruct (htree_some H _ _ _ (it _ _ _ _ I j hdj _ Hj Tj)) as (_ & Hr & Hs & _ & Hc).
  destruct Out as (_ & _ & F & _). destruct ot as [t|].
  - destruct (htree_some H _ _ _ (it _ _ _ _ I i hd _ Hi Ti)) as (Er & _).
    assert (Hdis : forall x, In x (own (h_gen hd) t) -> ~ In x (addrs tj)).
    { intros x Hx. apply (i2 _ _ _ _ I i j hd t tj); auto. }
    split.
    + eapply frame_rep; eauto. apply (old_bounded j tj Tj).
    + apply (fr_cache _ _ _ _ _ _ _ F); auto.
      * apply (old_bounded j tj Tj).
      * intros r Er' Hin. rewrite Er in Er'. inversion Er'; subst r. split; auto.
        symmetry. apply (ij _ _ _ _ I j i tj t Tj Ti Hin).
  - assert (C : Ops.carried H (hp m) (hp m') tj).
    { apply carried_eq. intros x Hx. apply F. apply (old_bounded j tj Tj x Hx). }
    destruct (C Hr) as (? & Hc'). split; auto.
Qed.

Lemma mutate_inv : Inv st' fr ts'.
Proof.
  pose proof (nth_error_lt _ _ _ Hi) as Hlt.
  assert (Hlt' : i < length ts) by (rewrite (il _ _ _ _ I); auto).
  destruct Out as (Hw' & Hle & F & Hnew).
  assert (Hnew_i : nth_error (s_hs st') i = Some hd') by (simpl; apply nth_error_set_nth_eq; auto).
  assert (Tnew_i : nth_error ts' i = Some ot') by (unfold ts'; apply nth_error_set_nth_eq; auto).
  constructor.
  - exact Hw'.
  - unfold ts'. simpl. rewrite !set_nth_length. apply (il _ _ _ _ I).
  - intros j hdj o Hj Tj. destruct (Nat.eq_dec j i) as [->|Hne].
    + rewrite Hnew_i in Hj. rewrite Tnew_i in Tj. inversion Hj; inversion Tj; subst hdj o.
      destruct ot' as [t'|].
      * destruct (Hnew t' eq_refl) as (R1 & R2 & R3 & R4 & _). apply htree_intro_some; auto.
      * apply htree_intro_none. reflexivity.
    + apply other_handle in Hj; auto. apply other_tree in Tj; auto.
      pose proof (it _ _ _ _ I j hdj o Hj Tj) as Ht0. destruct o as [tj|].
      * destruct (htree_some H _ _ _ Ht0) as (Er & _ & Hs & Hg & _).
        destruct (others_kept j hdj tj Hne Hj Tj) as (Hr' & Hc').
        apply htree_intro_some; auto.
      * apply htree_intro_none. apply (htree_none H _ _ Ht0).
  - (* I2 *)
    intros a b hda ta tb Hab Hafr Ha Ta Tb x Hx Hxb.
    destruct (Nat.eq_dec a i) as [->|Hai].
    + rewrite Hnew_i in Ha. rewrite Tnew_i in Ta. inversion Ha; subst hda. inversion Ta as [Eo]. clear Ta Ha.
      apply other_tree in Tb; auto. simpl in Hx.
      destruct (Hnew ta Eo) as (R1 & _ & _ & _ & P8 & _ & _).
      destruct (P8 x (own_addrs _ _ _ Hx)) as [(t & Et & Hxt)|Hfresh].
      * subst ot. destruct (htree_some H _ _ _ (it _ _ _ _ I i hd _ Hi Ti)) as (_ & Hr & _).
        assert (Hown : In x (own (h_gen hd) t)).
        { apply (rep_own_gen _ _ _ _ Hr Hxt).
          destruct (rep_in_cell _ _ _ Hr Hxt) as (c & Hc).
          destruct (fr_gen _ _ _ _ _ _ _ F x c Hc) as (c' & Hc' & Eg).
          apply (rep_own_gen _ _ (h_gen hd) _ R1 (own_addrs _ _ _ Hx)) in Hx. destruct Hx as (c'' & Hc'' & Eg'').
          exists c. split; auto. congruence. }
        apply (i2 _ _ _ _ I i b hd t tb Hab Hfr Hi Ti Tb x Hown Hxb).
      * pose proof (old_bounded b tb Tb x Hxb). lia.
    + apply other_handle in Ha; auto. apply other_tree in Ta; auto.
      destruct (Nat.eq_dec b i) as [->|Hbi].
      * rewrite Tnew_i in Tb. inversion Tb as [Eo]. clear Tb.
        destruct (Hnew tb Eo) as (_ & _ & _ & _ & P8 & _ & _).
        pose proof (old_bounded a ta Ta x (own_addrs _ _ _ Hx)) as Hxa.
        destruct (P8 x Hxb) as [(t & Et & Hxt)|Hfresh]; [|lia].
        subst ot. apply (i2 _ _ _ _ I a i hda ta t Hai Hafr Ha Ta Ti x Hx Hxt).
      * apply other_tree in Tb; auto. apply (i2 _ _ _ _ I a b hda ta tb Hab Hafr Ha Ta Tb x Hx Hxb).
  - (* roots are not inner nodes *)
    intros a b ta tb Ta Tb Hin.
    destruct (Nat.eq_dec a i) as [->|Hai]; destruct (Nat.eq_dec b i) as [->|Hbi].
    + rewrite Ta in Tb. inversion Tb; auto.
    + rewrite Tnew_i in Ta. inversion Ta as [Eo]. clear Ta. apply other_tree in Tb; auto.
      destruct (Hnew ta Eo) as (_ & _ & _ & _ & _ & P9 & _).
      destruct (N.eq_dec (aroot tb) (aroot ta)) as [|Hne]; auto. exfalso.
      assert (Hb : (aroot tb < nx (s_mem st))%N) by (apply (old_bounded b tb Tb); apply aroot_in_addrs).
      destruct (P9 _ Hin Hne Hb) as (t & Et & [(Hxt & Hnr)|Hown]); subst ot.
      * apply Hnr. apply (ij _ _ _ _ I i b t tb Ti Tb Hxt).
      * destruct (nth_error (s_hs st) b) as [hdb|] eqn:Hb'.
        -- apply (i2 _ _ _ _ I i b hd t tb (not_eq_sym Hbi) Hfr Hi Ti Tb _ Hown). apply aroot_in_addrs.
        -- apply nth_error_None in Hb'. apply nth_error_lt in Tb. rewrite (il _ _ _ _ I) in Tb. lia.
    + rewrite Tnew_i in Tb. inversion Tb as [Eo]. clear Tb. apply other_tree in Ta; auto.
      destruct (Hnew tb Eo) as (_ & _ & _ & _ & _ & _ & P10). exfalso.
      destruct P10 as [(t & Et & Er & Hown)|Hfresh].
      * subst ot. rewrite Er in Hin.
        apply (i2 _ _ _ _ I i a hd t ta (not_eq_sym Hai) Hfr Hi Ti Ta _ Hown Hin).
      * pose proof (old_bounded a ta Ta _ Hin). lia.
    + apply other_tree in Ta; auto. apply other_tree in Tb; auto. apply (ij _ _ _ _ I a b ta tb); auto.
Qed.

End Step.

End Mutate.
