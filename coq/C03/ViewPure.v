(* C03/ViewPure.v — the reads through a handle are the reads of the pure trie of coq/Trie on the
   erased tree: Entries() = Trie.Model.trie_entries, hence (for a canonical trie representing the
   byte-keyed map b) exactly b. *)
From Common Require Import Bytes.
From Trie Require Import Nibbles Encode Node.
From Trie Require Model Spec NibblesProofs InsertProofs MapProofs QueryProofs.
From C03 Require Import Model Tree Cache View Erase.
From Coq Require Import Arith Lia.
Local Open Scope nat_scope.

Lemma node_pk_er t : node_pk (er t) = match t with AN _ pk _ _ _ _ _ => pk end.
Proof. destruct t as [a pk sv mbh gn isb ks]. rewrite er_unfold. destruct isb; reflexivity. Qed.

(* ---------- keys ---------- *)
Lemma pkeys_entries : forall t p, pkeys t p = map fst (Trie.Model.entries_node (er t) p).
Proof.
  induction t as [a pk sv mbh gn isb ks IH] using atree_ind'. rewrite oall_in in IH. intros p.
  rewrite er_unfold. cbn [pkeys]. destruct isb; cbn [negb Trie.Model.entries_node map]; auto.
  rewrite map_app. f_equal; [destruct sv; reflexivity|].
  generalize 0 as i. induction ks as [|[k|] ks IHk]; intros i; cbn [pkeys_kids map ero option_map]; auto.
  - rewrite map_app. rewrite IH by (simpl; auto). rewrite <- app_assoc. f_equal.
    apply IHk. intros k0 Hk0. apply IH. simpl; auto.
  - apply IHk. intros k0 Hk0. apply IH. simpl; auto.
Qed.

(* ---------- point reads (the code with the C02 Get repairs: fg = true) ---------- *)
Lemma get_go (ck : key) (cs : list (option tnode)) i :
  (fix go (l : list (option tnode)) (i : nat) {struct l} : option value :=
     match l with
     | [] => None
     | oc :: r =>
       match i with
       | O => match oc with
              | None => None
              | Some c => if (length ck =? 0) && (0 <? length (node_pk c)) then None else Trie.Model.get c ck
              end
       | S j => go r j
       end
     end) cs i
  = match nth i cs None with
    | None => None
    | Some c => if (length ck =? 0) && (0 <? length (node_pk c)) then None else Trie.Model.get c ck
    end.
Proof. revert i. induction cs as [|o cs IH]; intros [|i]; simpl; auto. Qed.

Lemma retrieve_get fl : forall fuel h t k,
  length k < fuel -> rep h t -> lwf fl t ->
  retrieve true fuel h (Some (aroot t)) k = Trie.Model.get (er t) k.
Proof.
  induction fuel as [|f IH]; intros h t k Hlen Hr Hl; [lia|].
  destruct t as [a pk sv mbh gn isb ks].
  destruct (rep_cell _ _ Hr) as (c & Hc & Hci). simpl in Hc.
  unfold cell_is in Hci. destruct Hci as (Epk & Esv & _ & _ & Eisb & Eks).
  cbn [retrieve aroot]. rewrite Hc, Epk, Esv, Eisb, Eks. rewrite er_unfold.
  destruct isb; cbn [negb Trie.Model.get].
  2:{ apply lwf_unfold in Hl. destruct Hl as (Hs & _). destruct sv as [v|]; [|exfalso; apply Hs; auto].
      destruct (key_eqb pk k); reflexivity. }
  destruct ((length k =? 0) || key_eqb pk k) eqn:E0; auto.
  destruct (negb (is_prefix pk k)); auto.
  cbv zeta. rewrite get_go. rewrite nth_map_oroot', nth_map_ero.
  set (ok := nth (nth (cpl pk k) k 0) ks None).
  cbn [andb].
  destruct ok as [k0|] eqn:Eok; simpl oroot; simpl ero.
  - assert (Hin : In (Some k0) ks).
    { unfold ok in Eok. rewrite <- Eok. apply nth_In.
      destruct (Nat.lt_ge_cases (nth (cpl pk k) k 0) (length ks)); auto.
      rewrite nth_overflow in Eok by auto. discriminate. }
    assert (Hrk : rep h k0) by (eapply (rep_kid h (AN a pk sv mbh gn true ks)); eauto).
    assert (Hlk : lwf fl k0) by (apply lwf_unfold in Hl; destruct Hl as (_ & _ & _ & Hk); auto).
    unfold kid_pk_nonempty. destruct (rep_cell _ _ Hrk) as (c0 & Hc0 & Hci0). rewrite Hc0.
    rewrite node_pk_er. destruct k0 as [a0 pk0 sv0 mbh0 gn0 isb0 ks0]. unfold cell_is in Hci0.
    destruct Hci0 as (Epk0 & _). rewrite Epk0.
    destruct ((length (skipn (S (cpl pk k)) k) =? 0) && (0 <? length pk0)); auto.
    apply IH; auto.
    apply orb_false_iff in E0. destruct E0 as (E0 & _). apply Nat.eqb_neq in E0.
    rewrite skipn_length. lia.
  - unfold kid_pk_nonempty. rewrite andb_false_r. destruct f; reflexivity.
Qed.

(* ---------- Entries() ---------- *)
Lemma entries_trie f m hd t :
  hwf m -> rep (hp m) t -> sep t -> h_root hd = Some (aroot t) -> lwf f t ->
  entries_handle true m hd
  = map (fun e => (fst e, match snd e with Some v => v | None => [] end)) (Trie.Model.trie_entries (Some (er t))).
Proof.
  intros Hw Hr Hs Hroot Hl. unfold entries_handle, Trie.Model.trie_entries. rewrite Hroot.
  rewrite (node_keys_pkeys (cfuel m) (hp m) t []) by (auto using depth_fuel).
  rewrite pkeys_entries. cbn [Trie.Model.entries]. rewrite !map_map.
  apply map_ext. intros [k v]. cbn [fst snd]. f_equal.
  unfold Trie.Model.trie_get. rewrite (retrieve_get f); auto.
Qed.

Lemma entries_map f m hd t (b : Spec.bmap) :
  hwf m -> rep (hp m) t -> sep t -> h_root hd = Some (aroot t) -> lwf f t ->
  MapProofs.Rep (Some (er t)) b -> entries_handle true m hd = b.
Proof.
  intros Hw Hr Hs Hroot Hl R. rewrite (entries_trie f m hd t) by auto.
  rewrite (QueryProofs.Rep_entries _ _ R). rewrite map_map. cbn [fst snd].
  rewrite <- (map_id b) at 2. apply map_ext. intros [k v]. reflexivity.
Qed.

(* ---------- Hash() ---------- *)
Definition ver_of (v1 : bool) : version := if v1 then V1 else V0.

Lemma must_hash_ver v1 v : must_hash v1 v = must_be_hashed (ver_of v1) v.
Proof. destruct v1; reflexivity. Qed.

Lemma bitmap_from_ero ks i : Model.bitmap_from i (map oroot ks) = Encode.bitmap_from i (map ero ks).
Proof. revert i. induction ks as [|[k|] ks IH]; intros i; simpl; auto; now rewrite IH. Qed.

Lemma kenc_children H v1 ks :
  (forall k, In (Some k) ks -> penc H k = Encode.enc H (ver_of v1) (er k)) ->
  kenc H (penc H) ks
  = (fix enc_children (l : list (option tnode)) : list byte :=
       match l with
       | [] => []
       | None :: r => enc_children r
       | Some c :: r => scale_bytes (merkle_of_encoding H (Encode.enc H (ver_of v1) c)) ++ enc_children r
       end) (map ero ks).
Proof.
  induction ks as [|[k|] ks IHk]; intros Hk; cbn [kenc map ero option_map]; auto.
  - rewrite (Hk k (or_introl eq_refl)). rewrite IHk by (intros; apply Hk; right; auto). reflexivity.
  - apply IHk. intros; apply Hk; right; auto.
Qed.

(* with the MustBeHashed flags the version demands, the encoding of the heap tree is Node.Encode of
   the pure trie (Trie/Encode.v), so Hash() is the root of property C01 *)
Lemma penc_enc H v1 : forall t, lwf (fl_ver v1) t -> penc H t = Encode.enc H (ver_of v1) (er t).
Proof.
  induction t as [a pk sv mbh gn isb ks IH] using atree_ind'. rewrite oall_in in IH. intros Hl.
  apply lwf_unfold in Hl. destruct Hl as (Hleaf & Hflag & Hlen & Hk).
  rewrite er_unfold. cbn [penc]. unfold enc_fields. destruct isb.
  - cbn [Encode.enc]. unfold Encode.children_bitmap. rewrite bitmap_from_ero.
    rewrite (kenc_children H v1 ks) by (intros k Hin; apply IH; auto).
    destruct sv as [v|]; cbn [is_some].
    + rewrite (Hflag v eq_refl). unfold Encode.enc_value. rewrite !must_hash_ver. reflexivity.
    + destruct mbh; reflexivity.
  - destruct sv as [v|]; [|exfalso; apply Hleaf; auto]. cbn [Encode.enc is_some].
    rewrite (Hflag v eq_refl). unfold Encode.enc_value. rewrite !must_hash_ver.
    destruct ks; [|discriminate]. cbn [kenc]. rewrite !app_nil_r. reflexivity.
Qed.
