(* C03/Model.v — executable heap model of the copy-on-write in-memory trie (definitions only).
   Mirrors pkg/trie/inmemory/in_memory.go (Snapshot, prepForMutation, registerDeletedNodeHash,
   insert/insertInLeaf/insertInBranch, deleteAtNode/deleteLeaf/deleteBranch, handleDeletion,
   ClearPrefix/clearPrefixAtNode, retrieve, Entries, Hash, SetVersion), pkg/trie/node
   (Copy, SetDirty/SetClean, Encode, CalculateMerkleValue / CalculateRootMerkleValue with the
   MerkleValue cache) and pkg/trie/inmemory/database.go (WriteDirty/writeDirtyNode: only its
   effect on the Dirty flags and cached Merkle values).

   Nodes live in an explicit heap  addr -> option cell ; a trie handle is (generation, root, version).
   Every in-place field write of the Go code is a heap update at the same point of the control
   flow.  The boolean [fx] selects the code of the repaired tree (fx = true: MustBeHashed is
   assigned after prepForMutation, see fixes/C03-mustbehashed-before-cow.patch) or of the pinned
   tree (fx = false: MustBeHashed and SetDirty are applied to the shared node before
   prepForMutation).

   Not modelled: Descendants counters, delta tracking (pendingDeltas/recordAllDeleted; only the
   Merkle-value computations they trigger are modelled, because they fill caches of shared
   nodes), IsHashedValue (only set on nodes loaded from a database), child tries, the database
   contents written by WriteDirty, the goroutine fan-out of encodeChildren (sequential here).
   In insertInLeaf the Go test `!bytes.Equal(parentLeaf.PartialKey, newParentLeafKey)` is always
   true (the new key is a strictly shorter suffix), so the model always calls prep there. *)
From Common Require Import Bytes.
From Trie Require Import Nibbles Encode.
From Coq Require Import Arith.
Local Open Scope nat_scope.

Definition addr := N.

Record cell := mkCell {
  c_pk : key;                       (* PartialKey (nibbles) *)
  c_sv : option value;              (* StorageValue; None = nil *)
  c_mbh : bool;                     (* MustBeHashed *)
  c_gen : N;                        (* Generation *)
  c_isb : bool;                     (* Kind() = Branch, i.e. Children != nil *)
  c_kids : list (option addr);      (* Children (16 entries for a branch, [] for a leaf) *)
  c_dirty : bool;                   (* Dirty *)
  c_mv : option (list byte)         (* MerkleValue cache; None = nil *)
}.

Definition heap := addr -> option cell.
Definition empty_heap : heap := fun _ => None.
Definition upd (h : heap) (a : addr) (c : cell) : heap :=
  fun x => if N.eqb x a then Some c else h x.

Record mem := mkMem { hp : heap; nx : addr }.
Definition alloc (m : mem) (c : cell) : mem * addr :=
  (mkMem (upd (hp m) (nx m) c) (N.succ (nx m)), nx m).
(* in-place field write *)
Definition wr (m : mem) (a : addr) (f : cell -> cell) : mem :=
  match hp m a with Some c => mkMem (upd (hp m) a (f c)) (nx m) | None => m end.

Definition set_mv_c (v : list byte) (c : cell) : cell :=
  mkCell (c_pk c) (c_sv c) (c_mbh c) (c_gen c) (c_isb c) (c_kids c) (c_dirty c) (Some v).
Definition set_clean_c (c : cell) : cell :=
  mkCell (c_pk c) (c_sv c) (c_mbh c) (c_gen c) (c_isb c) (c_kids c) false (c_mv c).
(* Node.SetDirty: Dirty = true, MerkleValue = nil *)
Definition set_dirty_c (c : cell) : cell :=
  mkCell (c_pk c) (c_sv c) (c_mbh c) (c_gen c) (c_isb c) (c_kids c) true None.
Definition set_pk_c (pk : key) (c : cell) : cell :=
  mkCell pk (c_sv c) (c_mbh c) (c_gen c) (c_isb c) (c_kids c) (c_dirty c) (c_mv c).
Definition set_sv_c (sv : option value) (c : cell) : cell :=
  mkCell (c_pk c) sv (c_mbh c) (c_gen c) (c_isb c) (c_kids c) (c_dirty c) (c_mv c).
Definition set_mbh_c (b : bool) (c : cell) : cell :=
  mkCell (c_pk c) (c_sv c) b (c_gen c) (c_isb c) (c_kids c) (c_dirty c) (c_mv c).
Definition set_kids_c (ks : list (option addr)) (c : cell) : cell :=
  mkCell (c_pk c) (c_sv c) (c_mbh c) (c_gen c) (c_isb c) ks (c_dirty c) (c_mv c).

Definition set_mv (h : heap) (a : addr) (v : list byte) : heap :=
  match h a with Some c => upd h a (set_mv_c v c) | None => h end.
Definition set_clean (h : heap) (a : addr) : heap :=
  match h a with Some c => upd h a (set_clean_c c) | None => h end.

Fixpoint set_nth {A} (i : nat) (v : A) (l : list A) : list A :=
  match l, i with
  | [], _ => []
  | _ :: r, O => v :: r
  | x :: r, S j => x :: set_nth j v r
  end.
Definition no_kids : list (option addr) := repeat None 16.
Definition is_some {A} (o : option A) : bool := match o with Some _ => true | None => false end.

Fixpoint count_kids (l : list (option addr)) : nat :=
  match l with [] => 0 | None :: r => count_kids r | Some _ :: r => S (count_kids r) end.
Fixpoint first_kid (l : list (option addr)) (i : nat) : option (nat * addr) :=
  match l with [] => None | Some a :: _ => Some (i, a) | None :: r => first_kid r (S i) end.

(* ChildrenBitmap as two little-endian bytes *)
Fixpoint bitmap_from (i : N) (l : list (option addr)) : N :=
  match l with
  | [] => 0
  | None :: r => bitmap_from (i + 1) r
  | Some _ :: r => (2 ^ i + bitmap_from (i + 1) r)%N
  end.

(* StorageValueEqual for a non-nil argument *)
Definition sv_eqb (sv : option value) (v : value) : bool :=
  match sv with Some w => bytes_eqb w v | None => false end.

(* mustBeHashed(version, value): version == V1 && len(value) > 32 *)
Definition must_hash (v1 : bool) (v : value) : bool := v1 && (32 <? length v).

Definition kid_pk_nonempty (h : heap) (ch : option addr) : bool :=
  match ch with
  | Some x => match h x with Some cc => 0 <? length (c_pk cc) | None => false end
  | None => false
  end.

(* fuel for every Merkle-value computation / tree walk: more than the number of cells *)
Definition cfuel (m : mem) : nat := S (N.to_nat (nx m)).

Section Model.
Variable H : list byte -> list byte.

(* ------------------------------------------------------------------ encoding and Merkle values *)

(* Node.Encode given the concatenated encodings of the children *)
Definition enc_fields (pk : key) (sv : option value) (mbh isb : bool) (bitmap : N) (kids_enc : list byte) : list byte :=
  node_header isb (is_some sv) mbh (N.of_nat (length pk))
    ++ nibbles_to_key_le pk
    ++ (if isb then le_bytes 2 bitmap else [])
    ++ (match sv with Some v => if mbh then H v else scale_bytes v | None => [] end)
    ++ kids_enc.
Definition enc_cell (c : cell) (kids_enc : list byte) : list byte :=
  enc_fields (c_pk c) (c_sv c) (c_mbh c) (c_isb c) (bitmap_from 0 (c_kids c)) kids_enc.

(* node.MerkleValue: the encoding when shorter than 32 bytes, else its hash *)
Definition merkle_of (e : list byte) : list byte := if length e <? 32 then e else H e.

(* the cache test of CalculateMerkleValue (rs = false) / CalculateRootMerkleValue (rs = true) *)
Definition cache_hit (rs : bool) (c : cell) : option (list byte) :=
  if c_dirty c then None
  else match c_mv c with
       | Some v => if rs then (if length v =? 32 then Some v else None) else Some v
       | None => None
       end.

(* encodeChildren: each child through CalculateMerkleValue, SCALE-encoded, in index order *)
Definition fold_kids (rec : heap -> addr -> heap * list byte)
  : list (option addr) -> heap -> heap * list byte :=
  fix go l h :=
    match l with
    | [] => (h, [])
    | None :: r => go r h
    | Some k :: r =>
      let '(h1, v) := rec h k in
      let '(h2, e) := go r h1 in
      (h2, scale_bytes v ++ e)
    end.

(* chk = true: Calculate[Root]MerkleValue (cache consulted); chk = false: EncodeAndHash[Root].
   Both store the result in n.MerkleValue.  rs = root style. *)
Fixpoint mvcalc (fuel : nat) (chk rs : bool) (h : heap) (a : addr) {struct fuel} : heap * list byte :=
  match fuel with
  | O => (h, [])
  | S f =>
    match h a with
    | None => (h, [])
    | Some c =>
      match (if chk then cache_hit rs c else None) with
      | Some v => (h, v)
      | None =>
        let '(h1, ke) := fold_kids (mvcalc f true false) (c_kids c) h in
        let e := enc_cell c ke in
        let v := if rs then H e else merkle_of e in
        (set_mv h1 a v, v)
      end
    end
  end.

(* writeDirtyNode: effect on Dirty / MerkleValue *)
Fixpoint commit_node (fuel cf : nat) (rs : bool) (h : heap) (a : addr) {struct fuel} : heap :=
  match fuel with
  | O => h
  | S f =>
    match h a with
    | None => h
    | Some c =>
      if negb (c_dirty c) then h
      else
        let '(h1, v) := mvcalc cf false rs h a in
        if length v <? 32 then set_clean h1 a
        else if negb (c_isb c) then set_clean h1 a
        else
          let h2 := fold_left (fun hh k => match k with Some ka => commit_node f cf false hh ka | None => hh end)
                              (c_kids c) h1 in
          set_clean h2 a
    end
  end.

(* ------------------------------------------------------------------ copy on write *)
Variable fx : bool.         (* true: repaired code; false: pinned code *)
Variable g : N.             (* t.generation *)
Variable v1 : bool.         (* t.version == V1 *)
Variable rt : option addr.  (* t.root during the operation (it is assigned when the operation returns) *)
Variable fd : bool.         (* deleteBranch returns early when the key ends at a child slot whose node has a
                               non-empty partial key (fixes/C02-delete-exhausted-key-nested.patch applied) *)

Definition is_root (a : addr) : bool := match rt with Some r => N.eqb r a | None => false end.

(* registerDeletedNodeHash: ensureMerkleValueIsCalculated(node) — only the cache effect *)
Definition reg (m : mem) (a : addr) : mem :=
  mkMem (fst (mvcalc (cfuel m) true (is_root a) (hp m) a)) (nx m).

(* prepForMutation(currentNode, copySettings): copy iff the generations differ, then SetDirty *)
Definition prep (m : mem) (a : addr) (copy_sv : bool) : mem * addr :=
  match hp m a with
  | None => (m, a)
  | Some c =>
    if N.eqb (c_gen c) g then (mkMem (upd (hp m) a (set_dirty_c c)) (nx m), a)
    else
      let m1 := reg m a in
      alloc m1 (mkCell (c_pk c) (if copy_sv then c_sv c else None) (c_mbh c) g (c_isb c) (c_kids c) true None)
  end.

Definition new_leaf (pk : key) (v : value) : cell :=
  mkCell pk (Some v) (must_hash v1 v) g false [] true None.
Definition new_branch (pk : key) (sv : option value) (mbh : bool) (ks : list (option addr)) : cell :=
  mkCell pk sv mbh g true ks true None.

(* the value-replacement path shared by insertInLeaf / insertInBranch (key == PartialKey) *)
Definition replace_value (m : mem) (a : addr) (c : cell) (value : value) (copy_sv : bool) : mem * addr * bool :=
  let need := must_hash v1 value in
  if fx then
    if Bool.eqb (c_mbh c) need && sv_eqb (c_sv c) value then (m, a, false)
    else
      let '(m1, a1) := prep m a copy_sv in
      (wr m1 a1 (fun c' => set_sv_c (Some value) (set_mbh_c need c')), a1, true)
  else
    (* pinned: MustBeHashed and SetDirty hit the (possibly shared) node before prepForMutation *)
    let '(m0, mut0) := if Bool.eqb (c_mbh c) need then (m, false)
                       else (wr m a (fun c' => set_dirty_c (set_mbh_c need c')), true) in
    if sv_eqb (c_sv c) value then (m0, a, mut0)
    else
      let '(m1, a1) := prep m0 a copy_sv in
      (wr m1 a1 (set_sv_c (Some value)), a1, true).

Definition insert_in_leaf (m : mem) (a : addr) (c : cell) (k : key) (value : value) : mem * addr * bool :=
  let pk := c_pk c in
  if key_eqb pk k then replace_value m a c value false
  else
    let n := cpl k pk in
    if length k =? n then
      (* key is included in parent leaf key: the leaf moves below a new branch holding the value *)
      if length k <? length pk then
        let '(m1, a1) := prep m a true in
        let m2 := wr m1 a1 (set_pk_c (skipn (S n) pk)) in
        let '(m3, b) := alloc m2 (new_branch (firstn n k) (Some value) (must_hash v1 value)
                                             (set_nth (nth n pk 0) (Some a1) no_kids)) in
        (m3, b, true)
      else
        let '(m3, b) := alloc m (new_branch (firstn n k) (Some value) (must_hash v1 value) no_kids) in
        (m3, b, true)
    else if length pk =? n then
      (* the key of the parent leaf is at this new branch *)
      let '(m1, l) := alloc m (new_leaf (skipn (S n) k) value) in
      let '(m2, b) := alloc m1 (new_branch (firstn n k) (c_sv c) (c_mbh c)
                                            (set_nth (nth n k 0) (Some l) no_kids)) in
      (m2, b, true)
    else
      let '(m1, a1) := prep m a true in
      let m2 := wr m1 a1 (set_pk_c (skipn (S n) pk)) in
      let '(m3, l) := alloc m2 (new_leaf (skipn (S n) k) value) in
      let '(m4, b) := alloc m3 (new_branch (firstn n k) None false
                                  (set_nth (nth n k 0) (Some l) (set_nth (nth n pk 0) (Some a1) no_kids))) in
      (m4, b, true).

Fixpoint insert (fuel : nat) (m : mem) (p : option addr) (k : key) (value : value) {struct fuel}
  : mem * addr * bool :=
  match fuel with
  | O => (m, 0%N, false)
  | S f =>
    match p with
    | None => let '(m1, a) := alloc m (new_leaf k value) in (m1, a, true)
    | Some a =>
      match hp m a with
      | None => (m, a, false)
      | Some c =>
        if negb (c_isb c) then insert_in_leaf m a c k value
        else
          (* insertInBranch *)
          let pk := c_pk c in
          if key_eqb k pk then replace_value m a c value true
          else if is_prefix pk k then
            let n := cpl k pk in
            let idx := nth n k 0 in
            let rk := skipn (S n) k in
            match nth idx (c_kids c) None with
            | None =>
              let '(m1, l) := alloc m (new_leaf rk value) in
              let '(m2, a2) := prep m1 a true in
              (wr m2 a2 (fun c' => set_kids_c (set_nth idx (Some l) (c_kids c')) c'), a2, true)
            | Some ch =>
              let '(m1, ch', mutated) := insert f m (Some ch) rk value in
              if negb mutated then (m1, a, false)
              else
                let '(m2, a2) := prep m1 a true in
                (wr m2 a2 (fun c' => set_kids_c (set_nth idx (Some ch') (c_kids c')) c'), a2, true)
            end
          else
            (* branch out where the keys diverge *)
            let n := cpl k pk in
            let '(m1, a1) := prep m a true in
            let m2 := wr m1 a1 (set_pk_c (skipn (S n) pk)) in
            let moved := set_nth (nth n pk 0) (Some a1) no_kids in
            if length k <=? n then
              let '(m3, b) := alloc m2 (new_branch (firstn n k) (Some value) (must_hash v1 value) moved) in
              (m3, b, true)
            else
              let '(m3, l) := alloc m2 (new_leaf (skipn (S n) k) value) in
              let '(m4, b) := alloc m3 (new_branch (firstn n k) None false (set_nth (nth n k 0) (Some l) moved)) in
              (m4, b, true)
      end
    end
  end.

(* handleDeletion(branch, key): [a] was just prepared for mutation *)
Definition handle_deletion (m : mem) (a : addr) (k : key) : mem * addr :=
  match hp m a with
  | None => (m, a)
  | Some c =>
    match count_kids (c_kids c), c_sv c with
    | 0, Some v =>
      alloc m (mkCell (firstn (cpl (c_pk c) k) k) (Some v) (c_mbh c) (c_gen c) false [] true None)
    | 1, None =>
      match first_kid (c_kids c) 0 with
      | None => (m, a)
      | Some (i, ch) =>
        let m1 := reg m ch in
        match hp m1 ch with
        | None => (m1, a)
        | Some cc =>
          alloc m1 (mkCell (c_pk c ++ [i] ++ c_pk cc) (c_sv cc) (c_mbh cc) (c_gen c)
                           (c_isb cc) (c_kids cc) true None)
        end
      end
    | _, _ => (m, a)
    end
  end.

(* deleteAtNode / deleteLeaf / deleteBranch; the boolean is `deleted` *)
Fixpoint delete (fuel : nat) (m : mem) (p : option addr) (k : key) {struct fuel}
  : mem * option addr * bool :=
  match fuel with
  | O => (m, p, false)
  | S f =>
    match p with
    | None => (m, None, false)
    | Some a =>
      match hp m a with
      | None => (m, p, false)
      | Some c =>
        if negb (c_isb c) then
          (* deleteLeaf *)
          if (0 <? length k) && negb (key_eqb k (c_pk c)) then (m, Some a, false)
          else (reg m a, None, true)
        else
          if (length k =? 0) || key_eqb (c_pk c) k then
            let '(m1, a1) := prep m a false in
            let m2 := wr m1 a1 (set_sv_c None) in
            let '(m3, b) := handle_deletion m2 a1 k in
            (m3, Some b, true)
          else
            let n := cpl (c_pk c) k in
            if n <? length (c_pk c) then (m, Some a, false)
            else
              let idx := nth n k 0 in
              if fd && (length (skipn (S n) k) =? 0) && kid_pk_nonempty (hp m) (nth idx (c_kids c) None)
              then (m, Some a, false)
              else
              let '(m1, ch', deleted) := delete f m (nth idx (c_kids c) None) (skipn (S n) k) in
              if negb deleted then (m1, Some a, false)
              else
                let '(m2, a2) := prep m1 a true in
                let m3 := wr m2 a2 (fun c' => set_kids_c (set_nth idx ch' (c_kids c')) c') in
                let '(m4, b) := handle_deletion m3 a2 k in
                (m4, Some b, true)
      end
    end
  end.

(* clearPrefixAtNode; the boolean is nodesRemoved != 0 *)
Fixpoint clear_prefix_node (fuel : nat) (m : mem) (p : option addr) (prefix : key) {struct fuel}
  : mem * option addr * bool :=
  match fuel with
  | O => (m, p, false)
  | S f =>
    match p with
    | None => (m, None, false)
    | Some a =>
      match hp m a with
      | None => (m, p, false)
      | Some c =>
        let pk := c_pk c in
        if is_prefix prefix pk then (reg m a, None, true)
        else if negb (c_isb c) then (m, Some a, false)
        else if (length prefix =? S (length pk)) && is_prefix (removelast prefix) pk then
          let idx := nth (length pk) prefix 0 in
          match nth idx (c_kids c) None with
          | None => (m, Some a, false)
          | Some ch =>
            let '(m1, a1) := prep m a true in
            let m2 := reg m1 ch in
            let m3 := wr m2 a1 (fun c' => set_kids_c (set_nth idx None (c_kids c')) c') in
            let '(m4, b) := handle_deletion m3 a1 prefix in
            (m4, Some b, true)
          end
        else if (length prefix <=? length pk) || (cpl pk prefix <? length pk) then (m, Some a, false)
        else
          let idx := nth (length pk) prefix 0 in
          let '(m1, ch', removed) := clear_prefix_node f m (nth idx (c_kids c) None) (skipn (S (length pk)) prefix) in
          if negb removed then (m1, Some a, false)
          else
            let '(m2, a2) := prep m1 a true in
            let m3 := wr m2 a2 (fun c' => set_kids_c (set_nth idx ch' (c_kids c')) c') in
            let '(m4, b) := handle_deletion m3 a2 prefix in
            (m4, Some b, true)
      end
    end
  end.

(* deleteNodesLimit: the loop over branch.Children of the prepared branch a1.
   Results: new parent pointer, valuesDeleted. *)
(* valuesDeleted = panic_mark signals the Go panic "got branch with all nil children" (reachable
   only through a snapshot whose parent was mutated in place afterwards) *)
Definition panic_mark : N := 18446744073709551616.

Definition dnl_loop (rec : mem -> option addr -> N -> mem * option addr * N) (a1 : addr) (pk : key)
  : nat -> nat -> mem -> nat -> N -> N -> mem * option addr * N :=
  fix loop n i m nilc limit vd :=
    match n with
    | O =>
      (m, None, match hp m a1 with
                | Some c => if is_some (c_sv c) then (vd + 1)%N else vd
                | None => vd
                end)
    | S n' =>
      match hp m a1 with
      | None => (m, None, vd)
      | Some c =>
        match nth i (c_kids c) None with
        | None => loop n' (S i) m nilc limit vd
        | Some ch =>
          let '(m1, ch', d) := rec m (Some ch) limit in
          if (d =? panic_mark)%N then (m1, None, panic_mark) else
          let m2 := wr m1 a1 (fun c' => set_kids_c (set_nth i ch' (c_kids c')) c') in
          let nilc' := match ch' with None => S nilc | Some _ => nilc end in
          let limit' := (limit - d)%N in
          let vd' := (vd + d)%N in
          if (nilc' =? 16) && negb (is_some (c_sv c)) then (m2, None, vd')
          else if (limit' =? 0)%N then
            (* handleDeletion only when the limit is used up and its result is returned
               (repo commit 1209e2508; before it was called after every child) *)
            let '(m3, np) := handle_deletion m2 a1 pk in (m3, Some np, vd')
          else loop n' (S i) m2 nilc' limit' vd'
        end
      end
    end.

Fixpoint dnl (fuel : nat) (m : mem) (p : option addr) (limit : N) {struct fuel} : mem * option addr * N :=
  match fuel with
  | O => (m, p, 0%N)
  | S f =>
    if (limit =? 0)%N then (m, p, 0%N)
    else
      match p with
      | None => (m, None, 0%N)
      | Some a =>
        match hp m a with
        | None => (m, p, 0%N)
        | Some c =>
          if negb (c_isb c) then (reg m a, None, 1%N)
          else if count_kids (c_kids c) =? 0 then (m, None, panic_mark)
          else
            let '(m1, a1) := prep m a true in
            dnl_loop (dnl f) a1 (c_pk c) (length (c_kids c)) 0 m1 (16 - count_kids (c_kids c)) limit 0%N
        end
      end
  end.

Definition is_none {A} (o : option A) : bool := match o with None => true | Some _ => false end.

(* clearPrefixLimitAtNode / clearPrefixLimitBranch / clearPrefixLimitChild:
   (new parent, valuesDeleted, allDeleted) *)
Fixpoint clear_limit_node (fuel : nat) (m : mem) (p : option addr) (prefix : key) (limit : N) {struct fuel}
  : mem * option addr * N * bool :=
  match fuel with
  | O => (m, p, 0%N, true)
  | S f =>
    match p with
    | None => (m, None, 0%N, true)
    | Some a =>
      match hp m a with
      | None => (m, p, 0%N, true)
      | Some c =>
        let pk := c_pk c in
        if negb (c_isb c) then
          if is_prefix prefix pk then (reg m a, None, 1%N, true) else (m, Some a, 0%N, true)
        else if is_prefix prefix pk then
          let '(m1, np, vd) := dnl (cfuel m) m (Some a) limit in (m1, np, vd, is_none np)
        else if (length prefix =? S (length pk)) && is_prefix (removelast prefix) pk then
          let idx := nth (length pk) prefix 0 in
          match nth idx (c_kids c) None with
          | None => (m, Some a, 0%N, true)
          | Some ch =>
            let '(m1, ch', vd) := dnl (cfuel m) m (Some ch) limit in
            if (vd =? panic_mark)%N then (m1, Some a, panic_mark, false) else
            if (vd =? 0)%N then (m1, Some a, 0%N, false)
            else
              let '(m2, a2) := prep m1 a true in
              let m3 := wr m2 a2 (fun c' => set_kids_c (set_nth idx ch' (c_kids c')) c') in
              let '(m4, b) := handle_deletion m3 a2 prefix in
              (m4, Some b, vd, is_none ch')
          end
        else if (length prefix <=? length pk) || (cpl pk prefix <? length pk) then (m, Some a, 0%N, true)
        else
          let idx := nth (length pk) prefix 0 in
          let '(m1, ch', vd, alld) :=
              clear_limit_node f m (nth idx (c_kids c) None) (skipn (S (length pk)) prefix) limit in
          if (vd =? panic_mark)%N then (m1, Some a, panic_mark, alld) else
          if (vd =? 0)%N then (m1, Some a, 0%N, alld)
          else
            let '(m2, a2) := prep m1 a true in
            let m3 := wr m2 a2 (fun c' => set_kids_c (set_nth idx ch' (c_kids c')) c') in
            let '(m4, b) := handle_deletion m3 a2 prefix in
            (m4, Some b, vd, alld)
      end
    end
  end.

End Model.

(* ------------------------------------------------------------------ reads *)

(* retrieve / retrieveFromLeaf / retrieveFromBranch; fg: the early return of
   fixes/C02-get-exhausted-key-nested.patch is present *)
Fixpoint retrieve (fg : bool) (fuel : nat) (h : heap) (p : option addr) (k : key) {struct fuel} : option value :=
  match fuel with
  | O => None
  | S f =>
    match p with
    | None => None
    | Some a =>
      match h a with
      | None => None
      | Some c =>
        if negb (c_isb c) then (if key_eqb (c_pk c) k then c_sv c else None)
        else if (length k =? 0) || key_eqb (c_pk c) k then c_sv c
        else if negb (is_prefix (c_pk c) k) then None
        else
          let n := cpl (c_pk c) k in
          let ch := nth (nth n k 0) (c_kids c) None in
          if fg && (length (skipn (S n) k) =? 0) && kid_pk_nonempty h ch then None
          else retrieve fg f h ch (skipn (S n) k)
      end
    end
  end.

(* the keys visited by buildEntriesMap, as full nibble keys, in index order *)
Fixpoint node_keys (fuel : nat) (h : heap) (p : option addr) (prefix : key) {struct fuel} : list key :=
  match fuel with
  | O => []
  | S f =>
    match p with
    | None => []
    | Some a =>
      match h a with
      | None => []
      | Some c =>
        if negb (c_isb c) then [prefix ++ c_pk c]
        else
          (if is_some (c_sv c) then [prefix ++ c_pk c] else [])
          ++ (fix go (l : list (option addr)) (i : nat) : list key :=
                match l with
                | [] => []
                | ch :: r => node_keys f h ch (prefix ++ c_pk c ++ [i]) ++ go r (S i)
                end) (c_kids c) 0
      end
    end
  end.

(* ------------------------------------------------------------------ handles and histories *)

Record handle := mkH { h_gen : N; h_root : option addr; h_v1 : bool }.
Record state := mkSt { s_mem : mem; s_hs : list handle }.

Definition init_state : state :=
  mkSt (mkMem empty_heap 0%N) [mkH 0%N None false].   (* NewEmptyTrie: generation 0, V0 *)

Inductive step :=
| Snap (i : nat)                         (* handles ++ [handle i .Snapshot()] *)
| Put (i : nat) (k v : list byte)
| Del (i : nat) (k : list byte)
| Clear (i : nat) (p : list byte)        (* ClearPrefix *)
| SetVer (i : nat) (v1 : bool)
| Commit (i : nat)                       (* WriteDirty *)
| HashOp (i : nat).                      (* Hash() (fills the Merkle-value caches) *)

Inductive res := ROk | RPanic | RBad.

(* the handle a step mutates *)
Definition mutated_handle_pre (s : step) : option nat :=
  match s with
  | Put i _ _ | Del i _ | Clear i _ => Some i
  | _ => None
  end.

Section Run.
Variable H : list byte -> list byte.
Variable fx : bool.
Variables fd fg : bool.

Definition set_handle (st : state) (i : nat) (hd : handle) (m : mem) : state :=
  mkSt m (set_nth i hd (s_hs st)).

(* InMemoryTrie.Hash *)
Definition hash_handle (m : mem) (hd : handle) : mem * list byte :=
  match h_root hd with
  | None => (m, H [n2b 0])
  | Some r => let '(h1, v) := mvcalc H (cfuel m) true true (hp m) r in (mkMem h1 (nx m), v)
  end.

(* InMemoryTrie.Entries: every visited key read back with Get *)
Definition entries_handle (m : mem) (hd : handle) : list (list byte * value) :=
  map (fun k => let kb := nibbles_to_key_le k in
                (kb, match retrieve fg (S (length (key_le_to_nibbles kb))) (hp m) (h_root hd) (key_le_to_nibbles kb) with
                     | Some v => v | None => [] end))
      (node_keys (cfuel m) (hp m) (h_root hd) []).

Definition put_handle (m : mem) (hd : handle) (k v : list byte) : mem * handle :=
  let key := key_le_to_nibbles k in
  let '(m1, a, _) := insert H fx (h_gen hd) (h_v1 hd) (h_root hd) (S (length key)) m (h_root hd) key v in
  (m1, mkH (h_gen hd) (Some a) (h_v1 hd)).

Definition del_handle (m : mem) (hd : handle) (k : list byte) : mem * handle :=
  let key := key_le_to_nibbles k in
  let '(m1, r, _) := delete H (h_gen hd) (h_root hd) fd (S (length key)) m (h_root hd) key in
  (m1, mkH (h_gen hd) r (h_v1 hd)).

Definition clear_handle (m : mem) (hd : handle) (p : list byte) : mem * handle :=
  match p with
  | [] =>
    (* ensureMerkleValueIsCalculated(t.root); recordAllDeleted; t.root = nil *)
    let m1 := match h_root hd with
              | Some r => reg H (h_root hd) m r
              | None => m
              end in
    (m1, mkH (h_gen hd) None (h_v1 hd))
  | _ =>
    let prefix := trim_zero_suffix (key_le_to_nibbles p) in
    let '(m1, r, _) := clear_prefix_node H (h_gen hd) (h_root hd) (S (length prefix)) m (h_root hd) prefix in
    (m1, mkH (h_gen hd) r (h_v1 hd))
  end.

Definition commit_handle (m : mem) (hd : handle) : mem :=
  match h_root hd with
  | None => m
  | Some r => mkMem (commit_node H (cfuel m) (cfuel m) true (hp m) r) (nx m)
  end.

Definition exec (st : state) (s : step) : state * res :=
  let m := s_mem st in
  match s with
  | Snap i =>
    match nth_error (s_hs st) i with
    | Some hd => (mkSt m (s_hs st ++ [mkH (N.succ (h_gen hd)) (h_root hd) (h_v1 hd)]), ROk)
    | None => (st, RBad)
    end
  | Put i k v =>
    match nth_error (s_hs st) i with
    | Some hd => let '(m1, hd1) := put_handle m hd k v in (set_handle st i hd1 m1, ROk)
    | None => (st, RBad)
    end
  | Del i k =>
    match nth_error (s_hs st) i with
    | Some hd => let '(m1, hd1) := del_handle m hd k in (set_handle st i hd1 m1, ROk)
    | None => (st, RBad)
    end
  | Clear i p =>
    match nth_error (s_hs st) i with
    | Some hd => let '(m1, hd1) := clear_handle m hd p in (set_handle st i hd1 m1, ROk)
    | None => (st, RBad)
    end
  | SetVer i v =>
    match nth_error (s_hs st) i with
    | Some hd =>
      (* panics when the version regresses *)
      if h_v1 hd && negb v then (st, RPanic)
      else (set_handle st i (mkH (h_gen hd) (h_root hd) v) m, ROk)
    | None => (st, RBad)
    end
  | Commit i =>
    match nth_error (s_hs st) i with
    | Some hd => (mkSt (commit_handle m hd) (s_hs st), ROk)
    | None => (st, RBad)
    end
  | HashOp i =>
    match nth_error (s_hs st) i with
    | Some hd => (mkSt (fst (hash_handle m hd)) (s_hs st), ROk)
    | None => (st, RBad)
    end
  end.

Definition run (hist : list step) (st : state) : state :=
  fold_left (fun s x => fst (exec s x)) hist st.

(* what a reader of handle i sees: Hash() and Entries() *)
Definition view (st : state) (i : nat) : option (list byte * list (list byte * value)) :=
  match nth_error (s_hs st) i with
  | Some hd => Some (snd (hash_handle (s_mem st) hd), entries_handle (s_mem st) hd)
  | None => None
  end.

(* ---- ClearPrefixLimit: part of the executable model and of the correspondence check; the
   isolation theorem (Properties.v) is about the [step] histories above *)
Inductive xstep :=
| Core (s : step)
| ClearLimit (i : nat) (p : list byte) (limit : N).

Definition clear_limit_handle (m : mem) (hd : handle) (p : list byte) (limit : N)
  : mem * handle * N * bool :=
  if (limit =? 0)%N then (m, hd, 0%N, false)
  else
    let prefix := trim_zero_suffix (key_le_to_nibbles p) in
    let '(m1, r, vd, alld) :=
        clear_limit_node H (h_gen hd) (h_root hd) (S (length prefix)) m (h_root hd) prefix limit in
    (m1, mkH (h_gen hd) r (h_v1 hd), vd, alld).

(* result of a ClearPrefixLimit step: (deleted, allDeleted) *)
Definition xexec (st : state) (s : xstep) : state * res * option (N * bool) :=
  match s with
  | Core s0 => let '(st1, r) := exec st s0 in (st1, r, None)
  | ClearLimit i p limit =>
    match nth_error (s_hs st) i with
    | Some hd =>
      let '(m1, hd1, vd, alld) := clear_limit_handle (s_mem st) hd p limit in
      if (vd =? panic_mark)%N then (st, RPanic, None)
      else (set_handle st i hd1 m1, ROk, Some (vd, alld))
    | None => (st, RBad, None)
    end
  end.

Definition xmutated_handle (s : xstep) : option nat :=
  match s with Core s0 => mutated_handle_pre s0 | ClearLimit i _ _ => Some i end.

Definition xrun (hist : list xstep) (st : state) : state :=
  fold_left (fun s x => fst (fst (xexec s x))) hist st.

End Run.

Definition mutated_handle (s : step) : option nat := mutated_handle_pre s.

(* the copy-on-write contract: a handle is not mutated after a snapshot was taken from it *)
Fixpoint frozen_ok (frozen : list nat) (hist : list step) : bool :=
  match hist with
  | [] => true
  | s :: r =>
    (match mutated_handle s with
     | Some i => negb (existsb (Nat.eqb i) frozen)
     | None => true
     end)
    && frozen_ok (match s with Snap i => i :: frozen | _ => frozen end) r
  end.
Definition frozen_parents (hist : list step) : bool := frozen_ok [] hist.

(* the same contract for histories with ClearPrefixLimit steps (which mutate their handle) *)
Definition xcore (s : xstep) : step :=
  match s with Core s0 => s0 | ClearLimit i p _ => Clear i p end.
Definition xfrozen_parents (hist : list xstep) : bool := frozen_parents (map xcore hist).
