(* C03/MainX.v — the isolation theorems for histories that also contain ClearPrefixLimit. *)
From Common Require Import Bytes.
From Trie Require Import Nibbles Encode.
From C03 Require Import Model Tree Cache Frame Ops Spec Insert Delete View Inv Mutate Main Limit.
From Coq Require Import Arith Lia.
Local Open Scope nat_scope.

Section MainX.
Variable H : list byte -> list byte.
Variables fd fg : bool.

Notation Inv := (Inv.Inv H).
Notation htree := (Inv.htree H).
Notation xexec := (Model.xexec H true fd).
Notation xrun := (Model.xrun H true fd).
Notation view := (Model.view H fg).

Lemma clear_limit_step st fr ts i hd ot p limit :
  Inv st fr ts -> nth_error (s_hs st) i = Some hd -> nth_error ts i = Some ot -> ~ In i fr ->
  let '(m1, hd1, vd, alld) := clear_limit_handle H (s_mem st) hd p limit in
  vd = panic_mark \/ step_ok H st fr ts i (set_handle st i hd1 m1).
Proof.
  intros I Hi Ti Hfr. pose proof (iw _ _ _ _ I) as Hw. pose proof (it _ _ _ _ I i hd ot Hi Ti) as Ht.
  unfold clear_limit_handle. destruct (N.eqb_spec limit 0) as [|Hlim].
  { right. eapply unchanged_step; eauto. }
  destruct ot as [t|].
  - destruct (htree_some H _ _ _ Ht) as (Er & Hr & _).
    pose proof (pre_of_htree H _ _ _ Hw Ht) as Hp.
    assert (Hold : rt_old (h_root hd) (s_mem st)).
    { intros r E. rewrite Er in E. injection E as <-. eapply rep_bounded; eauto. apply aroot_in_addrs. }
    destruct (clear_limit_node H (h_gen hd) (h_root hd) _ (s_mem st) (h_root hd) _ limit) as [[[m1 r] vd] alld] eqn:E.
    rewrite Er in E at 2.
    apply (clear_limit_spec H (h_gen hd) (h_root hd)) in E; auto.
    destruct E as [->|[(-> & -> & ->)|(_ & Hout)]]; [left; auto | right | right].
    + rewrite <- Er, handle_eta. eapply unchanged_step; eauto.
    + eapply result_o_step; eauto. right. split; [reflexivity | exact Hout].
  - rewrite (htree_none H _ _ Ht), clear_limit_none. right.
    pose proof (htree_none H _ _ Ht) as En. rewrite <- En, handle_eta. eapply unchanged_step; eauto.
Qed.

Definition xallowed (s : xstep) (fr : list nat) : Prop :=
  forall i, xmutated_handle s = Some i -> ~ In i fr.

Lemma xexec_inv st fr ts s :
  Inv st fr ts -> xallowed s fr ->
  exists ts', Inv (fst (fst (xexec st s))) (frozen_after (xcore s) fr) ts'
              /\ length (s_hs st) <= length (s_hs (fst (fst (xexec st s))))
              /\ (forall j, xmutated_handle s <> Some j -> j < length ts -> nth_error ts' j = nth_error ts j)
              /\ (forall i, s = Core (Snap i) -> i < length ts -> nth_error ts' (length ts) = nth_error ts i).
Proof.
  intros I Hal. destruct s as [s0|i p limit].
  - destruct (exec_inv H fd fg st fr ts s0 I Hal) as (ts' & I' & Hlen & Hsame & Hsnap).
    exists ts'. simpl. destruct (exec H true fd st s0) as [st1 r]. simpl in *.
    split; [exact I'|]. split; [exact Hlen|]. split; [exact Hsame|].
    intros i E. inversion E; subst s0. apply Hsnap; auto.
  - simpl. destruct (nth_error (s_hs st) i) as [hd|] eqn:Hi.
    2:{ exists ts. simpl. split; [exact I|]. split; [lia|]. split; [auto|]. intros i0 E; discriminate. }
    assert (Hts : exists ot, nth_error ts i = Some ot).
    { destruct (nth_error ts i) eqn:E; eauto.
      apply nth_error_None in E. apply nth_error_lt in Hi. rewrite (il _ _ _ _ I) in E. lia. }
    destruct Hts as (ot & Ti).
    pose proof (clear_limit_step st fr ts i hd ot p limit I Hi Ti (Hal i eq_refl)) as Hs.
    destruct (clear_limit_handle H (s_mem st) hd p limit) as [[[m1 hd1] vd] alld].
    destruct (N.eqb_spec vd panic_mark) as [Ep|Hnp]; simpl.
    + exists ts. split; [exact I|]. split; [lia|]. split; [auto|]. intros i0 E; discriminate.
    + destruct Hs as [?|(ot' & I')]; [contradiction|].
      exists (set_nth i ot' ts). split; [exact I'|]. split; [rewrite set_nth_length; auto|]. split.
      * intros j Hj _. apply nth_error_set_nth_neq. intros ->. congruence.
      * intros i0 E; discriminate.
Qed.

Lemma xfrozen_cons fr s r :
  frozen_ok fr (map xcore (s :: r)) = true ->
  xallowed s fr /\ frozen_ok (frozen_after (xcore s) fr) (map xcore r) = true.
Proof.
  intros E. simpl map in E. destruct (frozen_ok_cons _ _ _ E) as (Hal & E'). split; auto.
  intros i Hm. apply Hal. destruct s; simpl in *; auto.
Qed.

Lemma xrun_inv : forall hist st fr ts,
  Inv st fr ts -> frozen_ok fr (map xcore hist) = true ->
  exists ts', Inv (xrun hist st) (frozen_after_all (map xcore hist) fr) ts'.
Proof.
  induction hist as [|s hist IH]; intros st fr ts I E; simpl.
  - eauto.
  - destruct (xfrozen_cons _ _ _ E) as (Hal & E').
    destruct (xexec_inv st fr ts s I Hal) as (ts1 & I1 & _).
    apply (IH _ _ _ I1 E').
Qed.

Lemma xrun_app l1 l2 st : xrun (l1 ++ l2) st = xrun l2 (xrun l1 st).
Proof. unfold Model.xrun. apply fold_left_app. Qed.

(* No step of a fork history — ClearPrefixLimit included — changes what is seen through any handle
   other than the one it mutates. *)
Theorem xisolation : forall hist,
  xfrozen_parents hist = true ->
  forall n s, nth_error hist n = Some s ->
  forall j, xmutated_handle s <> Some j ->
            j < length (s_hs (xrun (firstn n hist) init_state)) ->
            view (xrun (firstn (S n) hist) init_state) j = view (xrun (firstn n hist) init_state) j.
Proof.
  intros hist Hfz n s Hn j Hj Hlt.
  destruct (nth_error_split_firstn _ _ _ Hn) as (r & Er).
  unfold xfrozen_parents, frozen_parents in Hfz. rewrite Er, map_app in Hfz.
  destruct (frozen_ok_app _ _ _ Hfz) as (Hfz1 & Hfz2).
  destruct (xrun_inv (firstn n hist) init_state [] [None] (init_inv H) Hfz1) as (ts & I).
  destruct (xfrozen_cons _ _ _ Hfz2) as (Hal & _).
  destruct (xexec_inv _ _ _ s I Hal) as (ts' & I' & _ & Hsame & _).
  rewrite (firstn_S_nth _ _ _ Hn), xrun_app. simpl.
  assert (Hjt : j < length ts) by (rewrite (il _ _ _ _ I); auto).
  eapply view_tree; eauto.
Qed.

Theorem xsnapshot_view : forall hist,
  xfrozen_parents hist = true ->
  forall n i, nth_error hist n = Some (Core (Snap i)) ->
  let before := xrun (firstn n hist) init_state in
  i < length (s_hs before) ->
  view (xrun (firstn (S n) hist) init_state) (length (s_hs before)) = view before i.
Proof.
  intros hist Hfz n i Hn before Hlt. unfold before in *.
  destruct (nth_error_split_firstn _ _ _ Hn) as (r & Er).
  unfold xfrozen_parents, frozen_parents in Hfz. rewrite Er, map_app in Hfz.
  destruct (frozen_ok_app _ _ _ Hfz) as (Hfz1 & Hfz2).
  destruct (xrun_inv (firstn n hist) init_state [] [None] (init_inv H) Hfz1) as (ts & I).
  destruct (xfrozen_cons _ _ _ Hfz2) as (Hal & _).
  destruct (xexec_inv _ _ _ (Core (Snap i)) I Hal) as (ts' & I' & _ & _ & Hsnap).
  rewrite (firstn_S_nth _ _ _ Hn), xrun_app. simpl Model.xrun at 1.
  assert (Hit : i < length ts) by (rewrite (il _ _ _ _ I); auto).
  specialize (Hsnap i eq_refl Hit). rewrite <- (il _ _ _ _ I).
  eapply view_tree2; eauto.
Qed.

End MainX.
