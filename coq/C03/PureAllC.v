(* C03/PureAllC.v — the proviso of PureAllX.pure_agrees_all discharged: along every fork history the
   pure tries stay canonical (CanonPure.v), and on a canonical tree the model never reports
   deleteNodesLimit's panic (LimitSafe.v; limits below 2^32 as in Go's uint32), so [xnopanic] holds. *)
From Common Require Import Bytes.
From Trie Require Import Nibbles Encode Node.
From Trie Require Model Spec InsertProofs.
From C03 Require Import Model Tree Cache Frame Ops Spec Insert Delete Limit View Inv Mutate Main MainX
     Erase InsertPure DeletePure ViewPure PureAll PureAllX CanonPure.
From C03 Require LimitSafe.
From Coq Require Import Arith Lia.
Local Open Scope nat_scope.

(* ClearPrefixLimit takes a uint32 *)
Definition limit_u32 (s : xstep) : bool :=
  match s with ClearLimit _ _ l => (l <? 4294967296)%N | Core _ => true end.
Definition limits_u32 (hist : list xstep) : bool := forallb limit_u32 hist.

Definition CInv (ps : list pstate) : Prop :=
  forall j t pv pu, nth_error ps j = Some (t, pv, pu) -> Canon_opt t.

Lemma CInv_set ps i t pv pu : CInv ps -> Canon_opt t -> CInv (set_nth i (t, pv, pu) ps).
Proof.
  intros C Ct j t' pv' pu' E. destruct (Nat.eq_dec i j) as [<-|Hne].
  - destruct (Nat.lt_ge_cases i (length ps)) as [Hi|Hi].
    + rewrite nth_error_set_nth_eq in E by auto. inversion E; subst; auto.
    + apply nth_error_lt in E. rewrite set_nth_length in E. lia.
  - rewrite nth_error_set_nth_neq in E by auto. eapply C; eauto.
Qed.

Lemma CInv_pxexec ps s : CInv ps -> CInv (pxexec ps s).
Proof.
  intros C. destruct s as [[i|i k v|i k|i p|i v|i|i]|i p limit]; cbn [pxexec pexec]; auto.
  - destruct (nth_error ps i) as [x|] eqn:E; auto. intros j t pv pu Ej.
    destruct (nth_error_app_last _ _ _ _ Ej) as [(_ & E0)|(_ & Ex)]; [eapply C; eauto|].
    rewrite <- Ex in E. eapply C; eauto.
  - destruct (nth_error ps i) as [[[t pv] pu]|] eqn:E; auto. apply CInv_set; auto. apply canon_put. eapply C; eauto.
  - destruct (nth_error ps i) as [[[t pv] pu]|] eqn:E; auto. apply CInv_set; auto. apply canon_delete. eapply C; eauto.
  - destruct (nth_error ps i) as [[[t pv] pu]|] eqn:E; auto. apply CInv_set; auto. apply canon_clear_prefix. eapply C; eauto.
  - destruct (nth_error ps i) as [[[t pv] pu]|] eqn:E; auto. destruct (pv && negb v); auto.
    apply CInv_set; auto. eapply C; eauto.
  - destruct (nth_error ps i) as [[[t pv] pu]|] eqn:E; auto. apply CInv_set; auto.
    apply canon_clear_prefix_limit. eapply C; eauto.
Qed.

Section PureAllC.
Variable H : list byte -> list byte.

Notation Inv := (Inv.Inv H).
Notation htree := (Inv.htree H).
Notation xexec := (Model.xexec H true true).
Notation xrun := (Model.xrun H true true).

Lemma panic_mark_big : (4294967296 <= panic_mark)%N.
Proof. unfold panic_mark. lia. Qed.

(* on a canonical tree ClearPrefixLimit does not panic *)
Lemma clear_limit_no_panic st fr ts i hd ot p limit fl :
  Inv st fr ts -> nth_error (s_hs st) i = Some hd -> nth_error ts i = Some ot -> lwf_o fl ot ->
  Canon_opt (ero ot) -> (limit < 4294967296)%N ->
  let '(m1, hd1, vd, alld) := clear_limit_handle H (s_mem st) hd p limit in vd <> panic_mark.
Proof.
  intros I Hi Ti Hl Hc Hlt. pose proof (iw _ _ _ _ I) as Hw. pose proof (it _ _ _ _ I i hd ot Hi Ti) as Ht.
  pose proof panic_mark_big as Hbig.
  unfold clear_limit_handle. destruct (N.eqb_spec limit 0) as [|Hlim]; [lia|].
  destruct ot as [t|].
  - destruct (htree_some H _ _ _ Ht) as (Er & Hr & _).
    pose proof (pre_of_htree H _ _ _ Hw Ht) as Hp.
    assert (Hold : rt_old (h_root hd) (s_mem st)).
    { intros r E. rewrite Er in E. injection E as <-. eapply rep_bounded; eauto. apply aroot_in_addrs. }
    destruct (clear_limit_node H (h_gen hd) (h_root hd) _ (s_mem st) (h_root hd) _ limit) as [[[m1 r] vd] alld] eqn:E.
    rewrite Er in E at 2.
    apply (LimitSafe.clear_limit_spec_er H (h_gen hd) (h_root hd) fl) in E; auto.
    simpl in Hc.
    destruct E as [(_ & Hn)|[(-> & _)|(_ & Epr2 & _)]]; [contradiction | lia |].
    rewrite <- Epr2.
    pose proof (pcl_le (er t) (trim_zero_suffix (key_le_to_nibbles p)) limit Hc Hlim). lia.
  - rewrite (htree_none H _ _ Ht), clear_limit_none. lia.
Qed.

Lemma xnopanic_canon : forall hist st fr ts ps,
  Inv st fr ts -> PInv st ts ps -> CInv ps -> frozen_ok fr (map xcore hist) = true -> limits_u32 hist = true ->
  xnopanic H st hist.
Proof.
  induction hist as [|s hist IH]; intros st fr ts ps I PI CI E Hu; simpl; auto.
  destruct (xfrozen_cons' _ _ _ E) as (Hal & E'). simpl in Hu. apply andb_prop in Hu. destruct Hu as (Hu1 & Hu2).
  assert (Hnp : match s with ClearLimit _ _ _ => snd (fst (xexec st s)) <> RPanic | Core _ => True end).
  { destruct s as [s0|i p limit]; auto. simpl in Hu1. apply N.ltb_lt in Hu1.
    cbn [Model.xexec]. destruct (nth_error (s_hs st) i) as [hd|] eqn:Hi; [|simpl; congruence].
    pose proof PI as (Plen & P). assert (Hlen : length ts = length (s_hs st)) by apply (il _ _ _ _ I).
    assert (Hi' : i < length (s_hs st)) by (apply nth_error_lt in Hi; auto).
    destruct (nth_error ts i) as [ot|] eqn:Ti; [|apply nth_error_None in Ti; lia].
    destruct (nth_error ps i) as [[[t pv] pu]|] eqn:Pi; [|apply nth_error_None in Pi; lia].
    destruct (P i hd ot t pv pu Hi Ti Pi) as (Eo & Ev & Hl).
    assert (Hc : Canon_opt (ero ot)) by (rewrite Eo; eapply CI; eauto).
    pose proof (clear_limit_no_panic st fr ts i hd ot p limit (fl_u pu pv) I Hi Ti Hl Hc Hu1) as Hs.
    destruct (clear_limit_handle H (s_mem st) hd p limit) as [[[m1 hd1] vd] alld].
    destruct (N.eqb_spec vd panic_mark); [contradiction | simpl; congruence]. }
  split; [exact Hnp|].
  destruct (pxexec_inv H st fr ts ps s I PI Hal Hnp) as (ts1 & I1 & P1).
  apply (IH _ _ _ _ I1 P1 (CInv_pxexec ps s CI) E' Hu2).
Qed.

Lemma CInv_fold : forall hist ps, CInv ps -> CInv (fold_left pxexec hist ps).
Proof. induction hist as [|s r IH]; intros ps C; simpl; auto. apply IH. apply CInv_pxexec; auto. Qed.

Lemma CInv_init : CInv [(None, false, true)].
Proof. intros [|[|?]] t pv pu E; simpl in E; try discriminate. inversion E; subst. exact I. Qed.

(* agreement with the pure trie for the whole mutating interface, with no panic hypothesis *)
Theorem pure_agrees_canon : forall hist,
  xfrozen_parents hist = true -> limits_u32 hist = true ->
  forall j t pv pu, nth_error (pxrun hist) j = Some (t, pv, pu) ->
  Canon_opt t
  /\ exists h, Model.view H true (xrun hist init_state) j
               = Some (h, default_entries (Trie.Model.trie_entries t))
               /\ (pu = true -> h = Encode.trie_root H (ver_of pv) t).
Proof.
  intros hist Hfz Hu j t pv pu Pj. split.
  - apply (CInv_fold hist _ CInv_init j t pv pu Pj).
  - apply (pure_agrees_all H hist Hfz); auto.
    unfold xfrozen_parents, frozen_parents in Hfz.
    apply (xnopanic_canon hist init_state [] [None] _ (init_inv H) PInv_init CInv_init Hfz Hu).
Qed.

End PureAllC.
