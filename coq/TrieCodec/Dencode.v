(* TrieCodec/Dencode.v — Node.Encode applied to a node that node.Decode returned (definitions only).

   Mirrors pkg/trie/node/encode.go + branch_encode.go for the shape of node Decode builds:
     - a hashed (V1) storage value is kept as {StorageValue: hash, IsHashedValue: true};
     - a child referenced by hash is the stub {MerkleValue: hash} (Dirty = false, so
       CalculateMerkleValue returns the stored Merkle value as it is);
     - an inlined child was decoded in place and has no Merkle value: it is encoded again and
       its Merkle value is that encoding (or its hash, should it be 32 bytes or longer).

   efix = true : fixes/C07-encode-decoded-hashed-value.patch — Encode selects the hashed-value
                 header for IsHashedValue and writes the stored hash as it is;
   efix = false: the tree as found — only MustBeHashed is looked at, so the stored hash is
                 encoded as an inline 32-byte value under the plain leaf / branch-with-value header. *)
From Common Require Import Bytes Outcome.
From Coq Require Import Strings.Byte.
From TrieCodec Require Import Codec.
Local Open Scope N_scope.

Section Dencode.
Variable H : list byte -> list byte.
Variable efix : bool.

Definition dval_variant (isbranch : bool) (v : option dval) : variant :=
  match v with
  | None => if isbranch then VBranch else VLeaf
  | Some (DVInline _) => if isbranch then VBranchVal else VLeaf
  | Some (DVHashed _) =>
    if efix then (if isbranch then VBranchHashed else VLeafHashed)
    else (if isbranch then VBranchVal else VLeaf)
  end.

Definition dval_bytes (v : option dval) : list byte :=
  match v with
  | None => []
  | Some (DVInline z) => enc_bytes (zb_bytes z)
  | Some (DVHashed h) => if efix then h else enc_bytes h
  end.

Fixpoint dencode (n : dnode) : list byte :=
  match n with
  | DStub _ => [n2b 64]            (* a node with neither value nor children: the bare leaf header *)
  | DLeaf pk v =>
    encode_header (dval_variant false (Some v)) (lenN pk) ++ nibbles_to_key_le pk ++ dval_bytes (Some v)
  | DBranch pk v _ cs =>
    encode_header (dval_variant true v) (lenN pk) ++ nibbles_to_key_le pk
    ++ le_bytes 2 (bitmap_of cs 0) ++ dval_bytes v
    ++ flat_map (fun oc => match oc with
                           | None => []
                           | Some (DStub mv) => enc_bytes (zb_bytes mv)
                           | Some c => enc_bytes (merkle_value H (dencode c))
                           end) cs
  end.

(* the contribution of one child slot, as a stand-alone definition for the proofs *)
Definition denc_child (oc : option dnode) : list byte :=
  match oc with
  | None => []
  | Some (DStub mv) => enc_bytes (zb_bytes mv)
  | Some c => enc_bytes (merkle_value H (dencode c))
  end.

End Dencode.

(* whether a decoded node holds a byte string longer than 2^18 bytes (a declared length that was
   zero-filled): the harness does not re-encode those (it would touch the whole buffer) *)
Fixpoint dnode_big (n : dnode) : bool :=
  match n with
  | DStub mv => 262144 <? zb_len mv
  | DLeaf _ v => match v with DVInline z => 262144 <? zb_len z | DVHashed _ => false end
  | DBranch _ v _ cs =>
    match v with Some (DVInline z) => 262144 <? zb_len z | _ => false end
    || existsb (fun oc => match oc with None => false | Some c => dnode_big c end) cs
  end.
