(* TrieCodec/ProofsLookup.v — the point lookup [lookup] and the entry list [entries_node] of a trie
   agree: a key is bound to v by lookup exactly when (key, v) is an entry.  So the specification
   side of C04_point_read / C05 (lookup) is the finite map whose graph the harnesses compare with
   InMemoryTrie.Entries(). *)
From Common Require Import Bytes Outcome.
From Coq Require Import Strings.Byte ZifyN ZifyNat ZifyBool.
From TrieCodec Require Import Codec View Db ProofsBasic ProofsDecode ProofsDb.
Local Open Scope N_scope.

Fixpoint entries_children (prefix pk : list byte) (l : list (option tnode)) (i : N)
  : list (list byte * list byte) :=
  match l with
  | [] => []
  | None :: r => entries_children prefix pk r (i + 1)
  | Some c :: r => entries_node (prefix ++ pk ++ [n2b i]) c ++ entries_children prefix pk r (i + 1)
  end.

Lemma entries_node_unfold prefix pk sv mbh cs :
  entries_node prefix (TN pk sv mbh cs)
  = (match sv with Some v => [(prefix ++ pk, v)] | None => [] end) ++ entries_children prefix pk cs 0.
Proof.
  cbn [entries_node]. f_equal. generalize 0 as i.
  induction cs as [|oc cs IH]; intro i; [reflexivity|].
  destruct oc as [c|]; cbn [entries_children]; rewrite <- IH; reflexivity.
Qed.

Lemma lookup_shape pk sv mbh cs key v : lookup (TN pk sv mbh cs) key = Some v ->
  (pk = key /\ sv = Some v)
  \/ (exists i rest c, key = pk ++ i :: rest
      /\ nth (N.to_nat (b2n i)) cs None = Some c /\ lookup c rest = Some v).
Proof.
  cbn [lookup]. destruct (bytes_eqb pk key) eqn:Ek.
  - intro E. left. split; [now apply bytes_eqb_eq|assumption].
  - intro E. right.
    destruct (is_prefix pk key) eqn:Ep; [|discriminate].
    destruct (is_prefix_app _ _ Ep) as [rest0 ->]. rewrite skipn_app_exact in E.
    destruct rest0 as [|i rest]; [discriminate|]. rewrite pick_nth in E.
    destruct (nth (N.to_nat (b2n i)) cs None) as [c|] eqn:En; [|discriminate].
    exists i, rest, c. auto.
Qed.

Lemma lookup_child pk sv mbh cs i rest :
  lookup (TN pk sv mbh cs) (pk ++ i :: rest)
  = match nth (N.to_nat (b2n i)) cs None with Some c => lookup c rest | None => None end.
Proof.
  cbn [lookup].
  rewrite bytes_eqb_neq.
  2:{ intro E. apply (f_equal (@length byte)) in E. rewrite app_length in E. cbn [length] in E. lia. }
  rewrite is_prefix_app_true, skipn_app_exact, pick_nth. reflexivity.
Qed.

Lemma nth_nth_error {A} (l : list (option A)) j c : nth j l None = Some c <-> nth_error l j = Some (Some c).
Proof.
  revert j. induction l as [|x l IH]; intro j; destruct j; cbn; try (split; discriminate); [|apply IH].
  split; congruence.
Qed.

Definition entry_spec (c : tnode) : Prop :=
  forall p k v, In (k, v) (entries_node p c) <-> exists r, k = p ++ r /\ lookup c r = Some v.

Lemma in_entries_children p pk k v : forall l, Forall (opt_all entry_spec) l -> forall i,
  In (k, v) (entries_children p pk l i) <->
  exists j c, nth_error l j = Some (Some c)
              /\ exists r, k = (p ++ pk ++ [n2b (i + N.of_nat j)]) ++ r /\ lookup c r = Some v.
Proof.
  induction l as [|oc l IHl]; intros Hall i.
  - cbn. split; [contradiction|]. intros (j & c & E & _). destruct j; discriminate.
  - inversion Hall as [|? ? Hoc Hl]; subst. specialize (IHl Hl).
    destruct oc as [c0|]; cbn [entries_children].
    + rewrite in_app_iff, (IHl (i + 1)). cbn in Hoc. rewrite (Hoc _ k v). split.
      * intros [(r & Ek & El)|(j & c & En & r & Ek & El)].
        -- exists O, c0. split; [reflexivity|]. exists r. split; [|assumption].
           replace (i + N.of_nat 0) with i by lia. assumption.
        -- exists (S j), c. split; [exact En|]. exists r. split; [|assumption].
           replace (i + N.of_nat (S j)) with (i + 1 + N.of_nat j) by lia. assumption.
      * intros (j & c & En & r & Ek & El). destruct j as [|j].
        -- left. cbn in En. inversion En; subst c0. exists r. split; [|assumption].
           replace (i + N.of_nat 0) with i in Ek by lia. assumption.
        -- right. exists j, c. split; [exact En|]. exists r. split; [|assumption].
           replace (i + N.of_nat (S j)) with (i + 1 + N.of_nat j) in Ek by lia. assumption.
    + rewrite (IHl (i + 1)). split.
      * intros (j & c & En & r & Ek & El). exists (S j), c. split; [exact En|]. exists r. split; [|assumption].
        replace (i + N.of_nat (S j)) with (i + 1 + N.of_nat j) by lia. assumption.
      * intros (j & c & En & r & Ek & El). destruct j as [|j]; [discriminate|].
        exists j, c. split; [exact En|]. exists r. split; [|assumption].
        replace (i + N.of_nat (S j)) with (i + 1 + N.of_nat j) in Ek by lia. assumption.
Qed.

Section Lookup.
Variable H : list byte -> list byte.
Hypothesis Hlen : forall x, length (H x) = 32%nat.

(* (key, v) is an entry below n (under the key prefix p) iff key = p ++ r and lookup n r = v *)
Theorem in_entries : forall n, wf_node n = true -> entry_spec n.
Proof.
  induction n as [pk sv mbh cs IH] using tnode_ind'. intros W p k v.
  destruct (wf_unfold H Hlen _ _ _ _ W) as (_ & _ & _ & Wcs & Wch).
  assert (IH' : Forall (opt_all entry_spec) cs).
  { rewrite Forall_forall in *. intros [c|] Hin; cbn; [|exact I].
    specialize (IH _ Hin). specialize (Wch _ Hin). cbn in IH, Wch. auto. }
  assert (Hlen16 : (length cs <= 16)%nat) by (destruct Wcs as [-> | ->]; cbn; lia).
  rewrite entries_node_unfold, in_app_iff, (in_entries_children p pk k v cs IH' 0). split.
  - intros [Hv|(j & c & En & r & Ek & El)].
    + destruct sv as [v0|]; [|contradiction]. destruct Hv as [Hv|[]]. inversion Hv; subst.
      exists pk. split; [reflexivity|]. cbn [lookup]. now rewrite bytes_eqb_refl.
    + assert (Hj : (j < length cs)%nat) by (apply nth_error_Some; congruence).
      exists (pk ++ n2b (N.of_nat j) :: r). split.
      * rewrite Ek. rewrite N.add_0_l. rewrite <- !app_assoc. reflexivity.
      * rewrite lookup_child. rewrite b2n_n2b_small by lia. rewrite Nat2N.id.
        apply nth_nth_error in En. now rewrite En.
  - intros (r & -> & El).
    destruct (lookup_shape _ _ _ _ _ _ El) as [[<- ->]|(i & rest & c & -> & En & Elc)].
    + left. now left.
    + right. exists (N.to_nat (b2n i)), c. split; [now apply nth_nth_error|].
      exists rest. split; [|assumption].
      rewrite N.add_0_l, N2Nat.id, n2b_b2n. rewrite <- !app_assoc. reflexivity.
Qed.

Corollary lookup_entries n key v : wf_node n = true ->
  (lookup n key = Some v <-> In (key, v) (entries_node [] n)).
Proof.
  intro W. rewrite (in_entries n W [] key v). cbn [app]. split.
  - intro E. now exists key.
  - intros (r & -> & E). exact E.
Qed.

(* the entry list is the graph of a function: no key occurs with two values *)
Corollary entries_functional n key v v' : wf_node n = true ->
  In (key, v) (entries_node [] n) -> In (key, v') (entries_node [] n) -> v = v'.
Proof.
  intros W A B. apply (lookup_entries n key v W) in A. apply (lookup_entries n key v' W) in B. congruence.
Qed.

(* an absent key: lookup is None exactly when no entry has this key *)
Corollary lookup_none_entries n key : wf_node n = true ->
  (lookup n key = None <-> forall v, ~ In (key, v) (entries_node [] n)).
Proof.
  intro W. split.
  - intros E v Hin. apply (lookup_entries n key v W) in Hin. congruence.
  - intro Hn. destruct (lookup n key) as [v|] eqn:E; [|reflexivity].
    exfalso. apply (Hn v). now apply (lookup_entries n key v W).
Qed.

End Lookup.
