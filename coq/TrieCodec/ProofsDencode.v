(* TrieCodec/ProofsDencode.v — re-encoding a decoded node: Encode (Decode (Encode n)) = Encode n. *)
From Common Require Import Bytes Outcome.
From Coq Require Import Strings.Byte ZifyN ZifyNat ZifyBool.
From TrieCodec Require Import Codec View Dencode ProofsBasic ProofsHeader ProofsDecode.
Local Open Scope N_scope.

Lemma bitmap_of_map {A B} (f : option A -> option B) (cs : list (option A)) :
  (forall oc, is_some (f oc) = is_some oc) ->
  forall i, bitmap_of (map f cs) i = bitmap_of cs i.
Proof.
  intro Hf. induction cs as [|oc t IH]; intro i; [reflexivity|].
  cbn [map]. specialize (Hf oc). destruct oc as [c|], (f _) as [d|]; cbn in Hf; try discriminate;
    cbn [bitmap_of]; now rewrite IH.
Qed.

Lemma flat_map_map_ext_in {A B C} (g : A -> B) (f : B -> list C) (h : A -> list C) l :
  (forall x, In x l -> f (g x) = h x) -> flat_map f (map g l) = flat_map h l.
Proof.
  induction l as [|x l IH]; intro Hx; [reflexivity|].
  cbn [map flat_map]. rewrite Hx by (now left). rewrite IH; [reflexivity|]. intros y Hy. apply Hx. now right.
Qed.

Lemma view_not_stub H c mv : view H c <> DStub mv.
Proof. destruct c as [pk sv mbh [|c0 cs0]]; discriminate. Qed.

Section Reencode.
Variable H : list byte -> list byte.
Hypothesis Hlen : forall x, length (H x) = 32%nat.

Lemma dencode_branch efix pk v d cs :
  dencode H efix (DBranch pk v d cs) =
  encode_header (dval_variant efix true v) (lenN pk) ++ nibbles_to_key_le pk
  ++ le_bytes 2 (bitmap_of cs 0) ++ dval_bytes efix v ++ flat_map (denc_child H efix) cs.
Proof. reflexivity. Qed.

Lemma view_val_variant isb sv mbh :
  (sv = None -> isb = true) ->
  dval_variant true isb (view_val H sv mbh) = variant_of isb sv mbh.
Proof.
  intro Hn. unfold variant_of, view_val. destruct sv as [v|].
  - destruct mbh, isb; reflexivity.
  - rewrite (Hn eq_refl). reflexivity.
Qed.

Lemma view_val_bytes sv mbh :
  dval_bytes true (view_val H sv mbh)
  = match sv with None => [] | Some v => if mbh then H v else enc_bytes v end.
Proof.
  unfold view_val. destruct sv as [v|]; [|reflexivity].
  destruct mbh; cbn [dval_bytes]; [reflexivity|]. now rewrite zb_bytes_of.
Qed.

(* the repaired Encode maps the decoded view of a node back to the node's encoding *)
Theorem dencode_view : forall n, wf_node n = true -> dencode H true (view H n) = encode H n.
Proof.
  induction n as [pk sv mbh cs IH] using tnode_ind'. intro W.
  destruct (wf_unfold H Hlen _ _ _ _ W) as (_ & _ & Wsv & _ & Wch).
  rewrite (encode_unfold H).
  destruct cs as [|c0 cs0].
  - destruct sv as [v|]; [|destruct Wsv as [_ Z]; congruence].
    cbn [view view_val]. cbn [dencode flat_map]. rewrite app_nil_r. cbn [app].
    destruct mbh; cbn [dval_variant dval_bytes variant_of negb]; [reflexivity|].
    now rewrite zb_bytes_of.
  - remember (c0 :: cs0) as cs eqn:Ecs.
    subst cs. rewrite (view_branch H). remember (c0 :: cs0) as cs eqn:Ecs.
    rewrite dencode_branch.
    rewrite view_val_variant by reflexivity.
    rewrite view_val_bytes.
    rewrite (bitmap_of_map (vchild H)) by (intros [c|]; cbn [vchild is_some]; [destruct (_ <? _)%nat|]; reflexivity).
    do 4 f_equal.
    apply flat_map_map_ext_in.
    intros [c|] Hin; cbn [vchild enc_child]; [|reflexivity].
    rewrite Forall_forall in IH, Wch. specialize (IH _ Hin). specialize (Wch _ Hin). cbn in IH, Wch.
    assert (Hd : forall d, (forall mv, d <> DStub mv) ->
               denc_child H true (Some d) = enc_bytes (merkle_value H (dencode H true d))).
    { intros d Hd. destruct d as [mv| |]; [exfalso; eapply Hd; reflexivity| |]; reflexivity. }
    unfold merkle_value at 1.
    destruct (Nat.ltb_spec (length (encode H c)) 32) as [Hs|Hs].
    + rewrite Hd by apply view_not_stub. rewrite (IH Wch). unfold merkle_value.
      destruct (Nat.ltb_spec (length (encode H c)) 32); [reflexivity|lia].
    + cbn [denc_child]. now rewrite zb_bytes_of.
Qed.

(* hence decoding the re-encoding of a decoded node gives the same decoded node *)
Theorem decode_dencode_view st fixed n : wf_node n = true ->
  decode st fixed (dencode H true (view H n)) = Ok (Some (view H n)).
Proof. intro W. rewrite dencode_view by assumption. now apply decode_encode. Qed.

End Reencode.
