(* TrieCodec/Db.v — the node database and what reads it (definitions only).

   Mirrors pkg/trie/inmemory/database.go: Load / loadNode / loadStorageValue, GetFromDB /
   getFromDBAtNode, WriteDirty / writeDirtyNode, and the spec-level views of an in-memory trie
   (entries, lookup) they are compared with.

   The database is the 'storage' table: node hash -> node encoding and
   partialKeyNibbles ++ valueHash -> value.  A missing key is an error (pebble: not found). *)
From Common Require Import Bytes Outcome.
From Coq Require Import Strings.Byte.
From TrieCodec Require Import Codec.
Local Open Scope N_scope.

Definition E_DBMISS : nat := 20.   (* db.Get failed *)
Definition E_MODEL  : nat := 99.   (* outside the modelled behaviour (never produced by WriteDirty) *)

Definition db := list (list byte * list byte).      (* latest binding first *)
Fixpoint db_get (d : db) (k : list byte) : option (list byte) :=
  match d with
  | [] => None
  | (k', v) :: r => if bytes_eqb k' k then Some v else db_get r k
  end.
Definition db_put (d : db) (k v : list byte) : db := (k, v) :: d.

Fixpoint is_prefix (p l : list byte) : bool :=
  match p, l with
  | [], _ => true
  | x :: p', y :: l' => byte_eqb x y && is_prefix p' l'
  | _ :: _, [] => false
  end.

(* ------------------------------------------------------------------ spec views of a trie *)
(* all (key nibbles, value) pairs below a node, in key order *)
Fixpoint entries_node (prefix : list byte) (n : tnode) : list (list byte * list byte) :=
  match n with
  | TN pk sv _ cs =>
    (match sv with Some v => [(prefix ++ pk, v)] | None => [] end)
    ++ (fix go (l : list (option tnode)) (i : N) : list (list byte * list byte) :=
          match l with
          | [] => []
          | None :: r => go r (i + 1)
          | Some c :: r => entries_node (prefix ++ pk ++ [n2b i]) c ++ go r (i + 1)
          end) cs 0
  end.

(* children[k] applied to f; dflt when nil or out of range *)
Section Pick.
Context {A B : Type}.
Variable f : A -> B.
Variable dflt : B.
Fixpoint pick (l : list (option A)) (k : nat) : B :=
  match l with
  | [] => dflt
  | oc :: l' =>
    match k with
    | O => match oc with Some c => f c | None => dflt end
    | S k' => pick l' k'
    end
  end.
End Pick.

(* the value stored under a nibble key: the specification of Get *)
Fixpoint lookup (n : tnode) (key : list byte) : option (list byte) :=
  match n with
  | TN pk sv _ cs =>
    if bytes_eqb pk key then sv
    else if is_prefix pk key then
      match skipn (length pk) key with
      | [] => None
      | i :: rest => pick (fun c => lookup c rest) None cs (N.to_nat (b2n i))
      end
    else None
  end.

Section Db.
Variable H : list byte -> list byte.
Variable st : bool * bool.
Variable dfix : bool.        (* node.Decode repaired (C07 patches) *)

(* loadStorageValue: the raw value of a hashed value lives under partialKey ++ hash *)
Definition load_value (d : db) (pk : list byte) (v : dval) : outcome (list byte * bool) :=
  match v with
  | DVInline z => Ok (zb_bytes z, false)
  | DVHashed h => match db_get d (pk ++ h) with
                  | Some raw => Ok (raw, true)
                  | None => Err E_DBMISS
                  end
  end.

(* an inlined child was decoded in place; loadNode only re-encodes it.  Stubs and hashed
   values cannot occur inside an encoding of less than 32 bytes produced by Encode; they are
   outside the model (E_MODEL). *)
Fixpoint inline_ok (n : dnode) : bool :=
  match n with
  | DStub _ => false
  | DLeaf _ (DVInline _) => true
  | DLeaf _ (DVHashed _) => false
  | DBranch _ v _ cs =>
    match v with Some (DVHashed _) => false | _ => true end
    && forallb (fun oc => match oc with None => true | Some c => inline_ok c end) cs
  end.
Fixpoint tnode_of_inline (n : dnode) : tnode :=
  match n with
  | DStub _ => TN [] None false []
  | DLeaf pk (DVInline z) => TN pk (Some (zb_bytes z)) false []
  | DLeaf pk (DVHashed h) => TN pk (Some h) false []
  | DBranch pk v _ cs =>
    TN pk (match v with Some (DVInline z) => Some (zb_bytes z) | _ => None end) false
       (map (fun oc => match oc with None => None | Some c => Some (tnode_of_inline c) end) cs)
  end.
Definition inline_tnode (n : dnode) : outcome tnode :=
  if inline_ok n then Ok (tnode_of_inline n) else Err E_MODEL.

(* the children loop of loadNode; [ld] loads below a child fetched from the database *)
Fixpoint load_children (ld : dnode -> outcome tnode) (d : db) (l : list (option dnode))
  : outcome (list (option tnode)) :=
  match l with
  | [] => Ok []
  | None :: r => obind (load_children ld d r) (fun r' => Ok (None :: r'))
  | Some (DStub mv) :: r =>
    match db_get d (zb_bytes mv) with
    | None => Err E_DBMISS
    | Some enc =>
      match decode st dfix enc with
      | Ok (Some c) =>
        obind (ld c) (fun c' => obind (load_children ld d r) (fun r' => Ok (Some c' :: r')))
      | Ok None => Panic            (* loadStorageValue on a nil node *)
      | Err c => Err c
      | Panic => Panic
      | OutOfFuel => OutOfFuel
      end
    end
  | Some c :: r =>
    obind (inline_tnode c) (fun c' => obind (load_children ld d r) (fun r' => Ok (Some c' :: r')))
  end.

(* Load below a decoded node: loadStorageValue, then loadNode *)
Fixpoint load_node (fuel : nat) (d : db) (n : dnode) : outcome tnode :=
  match fuel with
  | O => OutOfFuel
  | S f =>
    match n with
    | DStub _ => Err E_MODEL
    | DLeaf pk v => obind (load_value d pk v) (fun '(raw, mbh) => Ok (TN pk (Some raw) mbh []))
    | DBranch pk v _ cs =>
      obind (match v with
             | None => Ok (None, false)
             | Some v' => obind (load_value d pk v') (fun '(raw, mbh) => Ok (Some raw, mbh))
             end) (fun '(sv, mbh) =>
      obind (load_children (load_node f d) d cs) (fun cs' => Ok (TN pk sv mbh cs')))
    end
  end.

Definition empty_root : list byte := H [Byte.x00].

(* InMemoryTrie.Load of one trie (child tries are loaded by the caller): None = nil root *)
Definition load (fuel : nat) (d : db) (root : list byte) : outcome (option tnode) :=
  if bytes_eqb root empty_root then Ok None
  else match db_get d root with
       | None => Err E_DBMISS
       | Some enc =>
         match decode st dfix enc with
         | Ok (Some n) => obind (load_node fuel d n) (fun t => Ok (Some t))
         | Ok None => Panic
         | Err c => Err c
         | Panic => Panic
         | OutOfFuel => OutOfFuel
         end
       end.

(* ------------------------------------------------------------------ GetFromDB *)
Fixpoint cpl (a b : list byte) : nat :=
  match a, b with
  | x :: a', y :: b' => if byte_eqb x y then S (cpl a' b') else O
  | _, _ => O
  end.

(* the value a node holds, as GetFromDB returns it.
   gfix = true: fixes/C04-1-getfromdb-hashed-value.patch (the raw value is read from the
   database); false: the pinned tree returns the stored hash *)
Definition node_value (gfix : bool) (d : db) (pk : list byte) (v : option dval) : outcome (option (list byte)) :=
  match v with
  | None => Ok None
  | Some (DVInline z) => Ok (Some (zb_bytes z))
  | Some (DVHashed h) =>
    if gfix then match db_get d (pk ++ h) with Some raw => Ok (Some raw) | None => Err E_DBMISS end
    else Ok (Some h)
  end.

(* getFromDBAtNode.  gfix = (hashed value, inlined branch child, diverging key, exhausted key)
   repaired, in this order *)
Fixpoint gfd (gfix : bool * bool * bool * bool) (fuel : nat) (d : db) (n : dnode) (key : list byte)
  : outcome (option (list byte)) :=
  let '(fx_val, fx_inl, fx_div, fx_exh) := gfix in
  match fuel with
  | O => OutOfFuel
  | S f =>
    match n with
    | DStub _ => Err E_MODEL
    | DLeaf pk v => if bytes_eqb pk key then node_value fx_val d pk (Some v) else Ok None
    | DBranch pk v _ cs =>
      if (negb fx_exh && match key with [] => true | _ => false end) || bytes_eqb pk key
      then node_value fx_val d pk v
      else
        let c := cpl pk key in
        if fx_div && negb (is_prefix pk key) then Ok None
        else if (length key <? length pk)%nat && bytes_eqb (firstn c pk) key then Ok None
        else
          match nth_error key c with
          | None => Panic                                  (* index out of range *)
          | Some i =>
            match nth (N.to_nat (b2n i)) cs None with
            | None => Ok None
            | Some child =>
              let rest := skipn (S c) key in
              match child with
              | DStub mv =>
                match db_get d (zb_bytes mv) with
                | None => Err E_DBMISS
                | Some enc =>
                  match decode st dfix enc with
                  | Ok (Some c') => gfd gfix f d c' rest
                  | Ok None => Panic
                  | Err e => Err e
                  | Panic => Panic
                  | OutOfFuel => OutOfFuel
                  end
                end
              | DLeaf _ _ => gfd gfix f d child rest
              | DBranch _ _ _ _ =>
                if fx_inl then gfd gfix f d child rest
                else Err E_DBMISS                           (* db.Get of an empty key *)
              end
            end
          end
    end
  end.

(* GetFromDB(db, rootHash, key): key in bytes *)
Definition get_from_db (gfix : bool * bool * bool * bool) (d : db) (root : list byte) (key : list byte)
  : outcome (option (list byte)) :=
  if bytes_eqb root empty_root then Ok None
  else match db_get d root with
       | None => Err E_DBMISS
       | Some enc =>
         match decode st dfix enc with
         | Ok (Some n) => gfd gfix (S (S (2 * length key))) d n (nibbles_of_bytes key)
         | Ok None => Panic
         | Err c => Err c
         | Panic => Panic
         | OutOfFuel => OutOfFuel
         end
       end.

End Db.

(* ------------------------------------------------------------------ WriteDirty *)
(* an in-memory node with its Dirty flag *)
Inductive wnode := WN (pk : list byte) (sv : option (list byte)) (mbh : bool) (dirty : bool)
                      (cs : list (option wnode)).

Fixpoint erase (w : wnode) : tnode :=
  match w with
  | WN pk sv mbh _ cs => TN pk sv mbh (map (fun oc => match oc with None => None | Some c => Some (erase c) end) cs)
  end.

Section Write.
Variable H : list byte -> list byte.

(* writeDirtyNode; is_root selects EncodeAndHashRoot.  The Put calls on the batch, in order. *)
Fixpoint wd_puts (is_root : bool) (w : wnode) : list (list byte * list byte) :=
  match w with
  | WN pk sv mbh dirty cs =>
    if negb dirty then []
    else
      let enc := encode H (erase w) in
      (match sv with
       | Some v => if mbh then [(pk ++ H v, v)] else []
       | None => if mbh then [(pk ++ H [], [])] else []   (* a stale MustBeHashed on a branch whose
                                                             value was deleted: hash of the nil value *)
       end)
      ++ (if negb is_root && (length enc <? 32)%nat then []
          else (H enc, enc)
               :: flat_map (fun oc => match oc with None => [] | Some c => wd_puts false c end) cs)
  end.

(* whether a (non-inlined) dirty branch was written: that is where the pinned tree writes the
   child tries *)
Definition wrote_branch (is_root : bool) (w : wnode) : bool :=
  match w with
  | WN pk sv mbh dirty cs =>
    dirty && negb (negb is_root && (length (encode H (erase w)) <? 32)%nat)
    && match cs with [] => false | _ => true end
  end.

Definition db_puts (d : db) (l : list (list byte * list byte)) : db :=
  fold_left (fun acc kv => db_put acc (fst kv) (snd kv)) l d.

Definition write_dirty_node (is_root : bool) (d : db) (w : wnode) : db * bool :=
  (db_puts d (wd_puts is_root w), wrote_branch is_root w).

(* InMemoryTrie.WriteDirty: the child tries are written from inside a dirty branch of the main
   trie.  cfix = true: fixes/C04-5-writedirty-child-tries.patch (always written) *)
Definition write_dirty (cfix : bool) (d : db) (root : option wnode) (children : list wnode) : db :=
  match root with
  | None => if cfix then fold_left (fun acc c => fst (write_dirty_node true acc c)) children d else d
  | Some w =>
    let '(d1, wrote_branch) := write_dirty_node true d w in
    if cfix || wrote_branch
    then fold_left (fun acc c => fst (write_dirty_node true acc c)) children d1
    else d1
  end.

End Write.
