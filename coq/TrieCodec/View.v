(* TrieCodec/View.v — what Decode (Encode n) must return, and well-formed in-memory nodes
   (definitions only). *)
From Common Require Import Bytes Outcome.
From TrieCodec Require Import Codec.

(* the decoded view of an in-memory node: what Decode (Encode n) must return.  Children whose
   encoding is shorter than 32 bytes come back decoded (inlined), the others as Merkle-value stubs;
   a value that must be hashed comes back as its hash. *)
Section View.
Variable H : list byte -> list byte.

Definition view_val (sv : option (list byte)) (mbh : bool) : option dval :=
  match sv with
  | None => None
  | Some v => Some (if mbh then DVHashed (H v) else DVInline (v, 0%N))
  end.

Fixpoint view (n : tnode) : dnode :=
  match n with
  | TN pk sv mbh [] =>
    DLeaf pk (match view_val sv mbh with Some v => v | None => DVInline ([], 0%N) end)
  | TN pk sv mbh cs =>
    let vcs := map (fun oc => match oc with
                              | None => None
                              | Some c => let e := encode H c in
                                          if (length e <? 32)%nat then Some (view c)
                                          else Some (DStub (H e, 0%N))
                              end) cs in
    DBranch pk (view_val sv mbh)
            (fold_left (fun d oc => match oc with
                                    | None => d
                                    | Some c => (d + desc_of c + 1)%N
                                    end) vcs 0%N)
            vcs
  end.

(* the same for triedb/codec.Decode, which leaves inlined children as bytes *)
Definition cview (n : tnode) : cnode :=
  match n with
  | TN pk sv mbh [] =>
    CLeaf pk (match sv with
              | Some v => if mbh then DVHashed (h256_of (H v)) else DVInline (v, 0%N)
              | None => DVInline ([], 0%N) end)
  | TN pk sv mbh cs =>
    CBranch pk (match sv with
                | Some v => Some (if mbh then DVHashed (h256_of (H v)) else DVInline (v, 0%N))
                | None => None end)
            (map (fun oc => match oc with
                            | None => None
                            | Some c => let e := encode H c in
                                        if (length e <? 32)%nat then Some (CInline (e, 0%N))
                                        else Some (CHashed (h256_of (H e)))
                            end) cs)
  end.
End View.

(* well-formed in-memory nodes: what the trie code builds *)
Definition nibbles_ok (pk : list byte) : bool := forallb (fun b => b2n b <? 16)%N pk.

Fixpoint wf_node (n : tnode) : bool :=
  match n with
  | TN pk sv mbh cs =>
    nibbles_ok pk && (lenN pk <=? 65535)%N
    && match sv with
       | Some v => (lenN v <? 4294967296)%N
       | None => negb mbh && match cs with [] => false | _ => true end
       end
    && match cs with [] => true | _ => (length cs =? 16)%nat end
    && forallb (fun oc => match oc with None => true | Some c => wf_node c end) cs
  end.

