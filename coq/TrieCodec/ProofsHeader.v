(* TrieCodec/ProofsHeader.v — the node header and the partial key round-trip. *)
From Common Require Import Bytes Outcome.
From Coq Require Import Strings.Byte ZifyN ZifyNat ZifyBool.
From TrieCodec Require Import Codec View ProofsBasic.
Local Open Scope N_scope.
Ltac Zify.zify_post_hook ::= Z.div_mod_to_equations.

(* ------------------------------------------------------------------ header byte, by enumeration *)
Definition variant_eqb (a b : variant) : bool :=
  match a, b with
  | VLeaf, VLeaf | VBranch, VBranch | VBranchVal, VBranchVal | VLeafHashed, VLeafHashed
  | VBranchHashed, VBranchHashed | VEmpty, VEmpty | VCompact, VCompact => true
  | _, _ => false
  end.
Lemma variant_eqb_eq a b : variant_eqb a b = true -> a = b.
Proof. destruct a, b; cbn; congruence. Qed.

Definition node_variant (v : variant) : bool :=
  match v with VEmpty | VCompact => false | _ => true end.

Definition hdr_byte_ok (v : variant) (l : N) : bool :=
  let b := N.lor (v_bits v) l in
  (b <? 256) && negb (b =? 0)
  && match decode_header_byte b with Some v' => variant_eqb v v' | None => false end
  && (N.land b (v_pkmask v) =? l).

Definition upto (n : nat) : list N := map N.of_nat (seq 0 n).
Lemma in_upto n x : x < N.of_nat n -> In x (upto n).
Proof.
  intro H. unfold upto. apply in_map_iff. exists (N.to_nat x). split; [lia|].
  apply in_seq. lia.
Qed.

Lemma hdr_byte_table :
  forallb (fun v => forallb (hdr_byte_ok v) (upto (S (N.to_nat (v_pkmask v)))))
          [VLeaf; VBranch; VBranchVal; VLeafHashed; VBranchHashed] = true.
Proof. vm_compute. reflexivity. Qed.

Lemma hdr_byte v l : node_variant v = true -> l <= v_pkmask v ->
  let b := N.lor (v_bits v) l in
  b < 256 /\ b <> 0 /\ decode_header_byte b = Some v /\ N.land b (v_pkmask v) = l.
Proof.
  intros Hv Hl.
  pose proof hdr_byte_table as T. rewrite forallb_forall in T.
  assert (Hin : In v [VLeaf; VBranch; VBranchVal; VLeafHashed; VBranchHashed])
    by (destruct v; cbn in *; try discriminate; auto 10).
  specialize (T v Hin). rewrite forallb_forall in T.
  assert (Hlt : l < N.of_nat (S (N.to_nat (v_pkmask v)))) by lia.
  specialize (T l (in_upto _ _ Hlt)). unfold hdr_byte_ok in T.
  apply andb_prop in T as [T T4]. apply andb_prop in T as [T T3]. apply andb_prop in T as [T1 T2].
  cbv zeta. repeat split.
  - lia.
  - destruct (N.eqb_spec (N.lor (v_bits v) l) 0); [discriminate|assumption].
  - destruct (decode_header_byte (N.lor (v_bits v) l)) as [v'|]; [|discriminate].
    apply variant_eqb_eq in T3. now subst.
  - now apply N.eqb_eq.
Qed.

(* ------------------------------------------------------------------ length continuation *)
Lemma dec_pklen_enc fuel rem acc rest :
  rem / 255 < N.of_nat fuel -> acc + rem <= 65535 ->
  dec_pklen (enc_pklen fuel rem ++ rest) acc = Ok (acc + rem, rest).
Proof.
  revert rem acc. induction fuel as [|f IH]; intros rem acc Hf Hb; [lia|].
  cbn [enc_pklen]. destruct (N.ltb_spec rem 255) as [Hr|Hr].
  - cbn [app dec_pklen]. rewrite b2n_n2b_lt by lia.
    rewrite (N.mod_small (acc + rem) 65536) by lia.
    destruct (N.ltb_spec (acc + rem) acc); [lia|].
    destruct (N.ltb_spec rem 255); [reflexivity|lia].
  - cbn [app dec_pklen]. change (b2n (n2b 255)) with 255.
    rewrite (N.mod_small (acc + 255) 65536) by lia.
    destruct (N.ltb_spec (acc + 255) acc); [lia|].
    change (255 <? 255) with false. cbn [negb].
    rewrite IH by lia. f_equal. f_equal. lia.
Qed.

Theorem decode_header_encode v l rest :
  node_variant v = true -> l <= 65535 ->
  decode_header (encode_header v l ++ rest) = Ok (v, l, rest).
Proof.
  intros Hv Hl. unfold encode_header.
  assert (Hm : 0 < v_pkmask v) by (destruct v; cbn in *; try discriminate; lia).
  destruct (N.ltb_spec l (v_pkmask v)) as [Hlt|Hge].
  - destruct (hdr_byte v l Hv ltac:(lia)) as (B1 & B2 & B3 & B4).
    cbn [app decode_header]. rewrite b2n_n2b_lt by assumption. rewrite B3.
    destruct (N.eqb_spec (v_pkmask v) 0); [lia|]. rewrite B4.
    destruct (N.ltb_spec l (v_pkmask v)); [reflexivity|lia].
  - destruct (hdr_byte v (v_pkmask v) Hv ltac:(lia)) as (B1 & B2 & B3 & B4).
    cbn [app decode_header]. rewrite b2n_n2b_lt by assumption. rewrite B3.
    destruct (N.eqb_spec (v_pkmask v) 0); [lia|]. rewrite B4.
    rewrite N.ltb_irrefl.
    rewrite dec_pklen_enc by lia.
    replace (v_pkmask v + (l - v_pkmask v)) with l by lia. reflexivity.
Qed.

(* the header of a node never starts with a zero byte *)
Lemma encode_header_nonzero v l : node_variant v = true ->
  exists b t, encode_header v l = b :: t /\ b2n b <> 0.
Proof.
  intro Hv. unfold encode_header. destruct (N.ltb_spec l (v_pkmask v)) as [Hlt|Hge].
  - destruct (hdr_byte v l Hv ltac:(lia)) as (B1 & B2 & _).
    eexists _, _. split; [reflexivity|]. now rewrite b2n_n2b_lt.
  - destruct (hdr_byte v (v_pkmask v) Hv ltac:(lia)) as (B1 & B2 & _).
    eexists _, _. split; [reflexivity|]. now rewrite b2n_n2b_lt.
Qed.

(* ------------------------------------------------------------------ partial key *)
Definition nibbles_okP (pk : list byte) : Prop := Forall (fun b => b2n b < 16) pk.

Definition pair_ok (a b : N) : bool :=
  let x := N.lor (N.land (N.shiftl a 4) 240) (N.land b 15) in
  (x <? 256) && (x / 16 =? a) && (x mod 16 =? b).
Lemma pair_table : forallb (fun a => forallb (pair_ok a) (upto 16)) (upto 16) = true.
Proof. vm_compute. reflexivity. Qed.

Lemma pack_pair a b : b2n a < 16 -> b2n b < 16 ->
  nibbles_of_bytes [n2b (N.lor (N.land (N.shiftl (b2n a) 4) 240) (N.land (b2n b) 15))] = [a; b].
Proof.
  intros Ha Hb. pose proof pair_table as T. rewrite forallb_forall in T.
  specialize (T (b2n a) (in_upto 16 _ Ha)). rewrite forallb_forall in T.
  specialize (T (b2n b) (in_upto 16 _ Hb)). unfold pair_ok in T.
  apply andb_prop in T as [T T3]. apply andb_prop in T as [T1 T2].
  apply N.ltb_lt in T1. apply N.eqb_eq in T2, T3.
  unfold nibbles_of_bytes. cbn [flat_map app]. rewrite b2n_n2b_lt by assumption.
  rewrite T2, T3, !n2b_b2n. reflexivity.
Qed.

Lemma nibbles_of_bytes_app a b : nibbles_of_bytes (a ++ b) = nibbles_of_bytes a ++ nibbles_of_bytes b.
Proof. unfold nibbles_of_bytes. apply flat_map_app. Qed.

Lemma nibbles_of_pack_pairs n : forall l, length l = (2 * n)%nat -> nibbles_okP l ->
  nibbles_of_bytes (pack_pairs l) = l /\ length (pack_pairs l) = n.
Proof.
  induction n as [|n IH]; intros l Hlen Hok.
  - destruct l; [split; reflexivity|discriminate].
  - destruct l as [|a [|b t]]; try (cbn in Hlen; lia).
    inversion Hok as [|? ? Ha Hok1]; subst. inversion Hok1 as [|? ? Hb Hok2]; subst.
    cbn [pack_pairs]. destruct (IH t ltac:(cbn in Hlen; lia) Hok2) as [E1 E2].
    split.
    + change (?x :: pack_pairs t) with ([x] ++ pack_pairs t).
      rewrite nibbles_of_bytes_app, pack_pair, E1 by assumption. reflexivity.
    + cbn [length]. now rewrite E2.
Qed.

Lemma even_half_exists k : Nat.even k = true -> exists n, k = (2 * n)%nat.
Proof. intro H. apply Nat.even_spec in H. destruct H as [n ->]. now exists n. Qed.

Theorem decode_key_encode pk rest : nibbles_okP pk ->
  decode_key (nibbles_to_key_le pk ++ rest) (lenN pk) = Ok (pk, rest).
Proof.
  intro Hok. unfold decode_key.
  destruct (N.eqb_spec (lenN pk) 0) as [E|E].
  { destruct pk; [reflexivity|unfold lenN in E; cbn in E; lia]. }
  unfold nibbles_to_key_le. destruct (Nat.even (length pk)) eqn:Ev.
  - destruct (even_half_exists _ Ev) as [n Hn].
    destruct (nibbles_of_pack_pairs n pk Hn Hok) as [E1 E2].
    assert (Hk : lenN pk / 2 + lenN pk mod 2 = lenN (pack_pairs pk)) by (unfold lenN in *; lia).
    rewrite Hk. rewrite rd_app by (intro Z; rewrite Z in E2; cbn in E2; unfold lenN in E; lia).
    rewrite N.eqb_refl.
    replace (N.to_nat (lenN pk mod 2)) with O by (unfold lenN; lia).
    cbn [skipn]. now rewrite E1.
  - destruct pk as [|a t]; [discriminate|].
    assert (Evt : Nat.even (length t) = true).
    { cbn [length] in Ev. rewrite Nat.even_succ in Ev. rewrite <- Nat.negb_even in Ev.
      now destruct (Nat.even (length t)). }
    destruct (even_half_exists _ Evt) as [n Hn].
    inversion Hok as [|? ? Ha Hok1]; subst.
    destruct (nibbles_of_pack_pairs n t Hn Hok1) as [E1 E2].
    assert (Hk : lenN (a :: t) / 2 + lenN (a :: t) mod 2 = lenN (a :: pack_pairs t))
      by (unfold lenN in *; cbn [length]; lia).
    rewrite Hk. rewrite rd_app by discriminate. rewrite N.eqb_refl.
    replace (N.to_nat (lenN (a :: t) mod 2)) with 1%nat by (unfold lenN; cbn [length]; lia).
    change (a :: pack_pairs t) with ([a] ++ pack_pairs t).
    rewrite nibbles_of_bytes_app, E1.
    unfold nibbles_of_bytes at 1. cbn [flat_map app skipn].
    replace (b2n a mod 16) with (b2n a) by lia. now rewrite n2b_b2n.
Qed.

Lemma nibbles_ok_P pk : View.nibbles_ok pk = true -> nibbles_okP pk.
Proof.
  unfold View.nibbles_ok, nibbles_okP. rewrite forallb_forall, Forall_forall.
  intros H x Hx. specialize (H x Hx). lia.
Qed.
