(* TrieCodec/ProofsDb.v — reading a persisted trie back: Load and GetFromDB against a database
   that holds the bindings the trie needs; WriteDirty establishes those bindings. *)
From Common Require Import Bytes Outcome.
From Coq Require Import Strings.Byte ZifyN ZifyNat ZifyBool.
From TrieCodec Require Import Codec View Db ProofsBasic ProofsHeader ProofsDecode.
Local Open Scope N_scope.

(* ------------------------------------------------------------------ generic facts *)
Lemma bytes_eqb_refl a : bytes_eqb a a = true.
Proof. destruct (bytes_eqb_spec a a); congruence. Qed.
Lemma bytes_eqb_eq a b : bytes_eqb a b = true -> a = b.
Proof. destruct (bytes_eqb_spec a b); congruence. Qed.
Lemma bytes_eqb_neq a b : a <> b -> bytes_eqb a b = false.
Proof. destruct (bytes_eqb_spec a b); congruence. Qed.

Lemma pick_nth {A B} (f : A -> B) dflt l k :
  pick f dflt l k = match nth k l None with Some c => f c | None => dflt end.
Proof.
  revert k; induction l as [|oc l IH]; intro k; destruct k; cbn; auto.
Qed.

Lemma is_prefix_app p l : is_prefix p l = true -> exists r, l = p ++ r.
Proof.
  revert l; induction p as [|x p IH]; intros l Hp; [now exists l|].
  destruct l as [|y l]; [discriminate|]. cbn in Hp. apply andb_prop in Hp as [E Hp].
  destruct (byte_eqb_spec x y); [subst|discriminate]. destruct (IH _ Hp) as [r ->]. now exists r.
Qed.
Lemma is_prefix_app_true p r : is_prefix p (p ++ r) = true.
Proof.
  induction p as [|x p IH]; [reflexivity|]. cbn [is_prefix app].
  destruct (byte_eqb_spec x x) as [_|N]; [exact IH|congruence].
Qed.
Lemma cpl_app p r : cpl p (p ++ r) = length p.
Proof.
  induction p as [|x p IH]; [now destruct r|]. cbn [cpl app length].
  destruct (byte_eqb_spec x x) as [_|N]; [now rewrite IH|congruence].
Qed.

Lemma skipn_app_exact {A} (p r : list A) : skipn (length p) (p ++ r) = r.
Proof. induction p as [|x p IH]; [reflexivity|]. cbn [length app skipn]. exact IH. Qed.

(* ------------------------------------------------------------------ what a trie needs *)
Section Needs.
Variable H : list byte -> list byte.
Hypothesis Hlen : forall x, length (H x) = 32%nat.
Variable st : bool * bool.
Variable dfix : bool.

Definition binding := (list byte * list byte)%type.

Fixpoint needs (is_root : bool) (n : tnode) : list binding :=
  match n with
  | TN pk sv mbh cs =>
    (match sv with Some v => if mbh then [(pk ++ H v, v)] else [] | None => [] end)
    ++ (if is_root || negb (length (encode H n) <? 32)%nat then [(H (encode H n), encode H n)] else [])
    ++ flat_map (fun oc => match oc with None => [] | Some c => needs false c end) cs
  end.

Definition has (d : db) (l : list binding) : Prop :=
  Forall (fun kc => db_get d (fst kc) = Some (snd kc)) l.

Lemma has_app d a b : has d (a ++ b) <-> has d a /\ has d b.
Proof. unfold has. apply Forall_app. Qed.
Lemma has_incl d a b : incl a b -> has d b -> has d a.
Proof. unfold has. intros Hi Hb. rewrite Forall_forall in *. auto. Qed.

Lemma needs_unfold r pk sv mbh cs :
  needs r (TN pk sv mbh cs) =
  (match sv with Some v => if mbh then [(pk ++ H v, v)] else [] | None => [] end)
  ++ (if r || negb (length (encode H (TN pk sv mbh cs)) <? 32)%nat
      then [(H (encode H (TN pk sv mbh cs)), encode H (TN pk sv mbh cs))] else [])
  ++ flat_map (fun oc => match oc with None => [] | Some c => needs false c end) cs.
Proof. reflexivity. Qed.

Lemma needs_child d r pk sv mbh cs c :
  has d (needs r (TN pk sv mbh cs)) -> In (Some c) cs -> has d (needs false c).
Proof.
  rewrite needs_unfold. intros Hh Hin. apply has_app in Hh as [_ Hh]. apply has_app in Hh as [_ Hh].
  eapply has_incl; [|exact Hh]. intros x Hx. apply in_flat_map. exists (Some c). auto.
Qed.

(* ------------------------------------------------------------------ inlined subtrees *)
(* an encoding shorter than 32 bytes has no hashed value and only inlined children *)
Lemma enc_bytes_length v : (length v <= length (enc_bytes v))%nat.
Proof. unfold enc_bytes. rewrite app_length. lia. Qed.

Lemma small_unfold pk sv mbh cs : wf_node (TN pk sv mbh cs) = true ->
  (length (encode H (TN pk sv mbh cs)) < 32)%nat ->
  mbh = false /\ forall c, In (Some c) cs -> (length (encode H c) < 32)%nat.
Proof.
  intros W Hs. rewrite (encode_unfold H) in Hs. rewrite !app_length in Hs.
  destruct (wf_unfold H Hlen _ _ _ _ W) as (_ & _ & Wsv & _ & _).
  split.
  - destruct mbh; [|reflexivity]. destruct sv as [v|]; [|now destruct Wsv].
    rewrite Hlen in Hs. lia.
  - intros c Hin.
    pose proof (flat_map_length_in (enc_child H) (Some c) cs Hin) as Hle.
    cbn [enc_child] in Hle. pose proof (enc_bytes_length (merkle_value H (encode H c))) as Hm.
    unfold merkle_value in *. destruct (Nat.ltb_spec (length (encode H c)) 32); [assumption|].
    rewrite Hlen in Hm. fold (enc_child H) in Hs. lia.
Qed.

Lemma inline_view : forall c, wf_node c = true -> (length (encode H c) < 32)%nat ->
  inline_ok (view H c) = true /\ tnode_of_inline (view H c) = c.
Proof.
  induction c as [pk sv mbh cs IH] using tnode_ind'. intros W Hs.
  destruct (small_unfold _ _ _ _ W Hs) as [-> Hch].
  destruct (wf_unfold H Hlen _ _ _ _ W) as (_ & _ & Wsv & _ & Wch).
  destruct cs as [|c0 cs0].
  - destruct sv as [v|]; [|destruct Wsv as [_ Z]; congruence].
    cbn [view view_val inline_ok tnode_of_inline]. rewrite zb_bytes_of. auto.
  - rewrite (view_branch H). remember (c0 :: cs0) as cs eqn:Ecs.
    assert (Hmap : forall oc, In oc cs ->
               match vchild H oc with None => true | Some c => inline_ok c end = true
               /\ match vchild H oc with None => None | Some c => Some (tnode_of_inline c) end = oc).
    { intros [c|] Hin; cbn [vchild]; [|auto].
      specialize (Hch c Hin). destruct (Nat.ltb_spec (length (encode H c)) 32); [|lia].
      rewrite Forall_forall in IH, Wch. specialize (IH _ Hin). specialize (Wch _ Hin). cbn in IH, Wch.
      destruct (IH Wch Hch) as [A B]. rewrite A, B. auto. }
    split.
    + cbn [inline_ok]. apply andb_true_intro. split.
      * destruct sv; reflexivity.
      * apply forallb_forall. intros x Hx. apply in_map_iff in Hx as (oc & <- & Hin).
        apply (Hmap oc Hin).
    + cbn [tnode_of_inline]. f_equal.
      * destruct sv as [v|]; cbn [view_val]; [now rewrite zb_bytes_of|reflexivity].
      * rewrite map_map. rewrite <- (map_id cs) at 2. apply map_ext_in. intros oc Hin. apply (Hmap oc Hin).
Qed.

(* ------------------------------------------------------------------ Load *)
Fixpoint height (n : tnode) : nat :=
  match n with
  | TN _ _ _ cs => S (fold_right (fun oc m => match oc with None => m | Some c => Nat.max (height c) m end) O cs)
  end.

Lemma height_child pk sv mbh cs c : In (Some c) cs -> (height c < height (TN pk sv mbh cs))%nat.
Proof.
  cbn [height]. induction cs as [|oc cs IH]; [contradiction|]. intros [->|Hin]; cbn [fold_right].
  - lia.
  - specialize (IH Hin). destruct oc; lia.
Qed.

Lemma load_value_view d pk sv mbh v :
  sv = Some v -> (mbh = true -> db_get d (pk ++ H v) = Some v) ->
  load_value d pk (if mbh then DVHashed (H v) else DVInline (v, 0)) = Ok (v, mbh).
Proof.
  intros -> Hh. destruct mbh; cbn [load_value].
  - now rewrite Hh.
  - now rewrite zb_bytes_of.
Qed.

Lemma load_children_view (ld : dnode -> outcome tnode) d :
  forall cs,
  (forall c, In (Some c) cs -> wf_node c = true) ->
  (forall c, In (Some c) cs -> (32 <= length (encode H c))%nat ->
             db_get d (H (encode H c)) = Some (encode H c) /\ ld (view H c) = Ok c) ->
  load_children st dfix ld d (map (vchild H) cs) = Ok cs.
Proof.
  induction cs as [|oc cs IH]; intros Wf Hc; [reflexivity|].
  assert (IH' : load_children st dfix ld d (map (vchild H) cs) = Ok cs).
  { apply IH; intros c Hin; [apply Wf|apply Hc]; now right. }
  cbn [map]. destruct oc as [c|]; cbn [vchild].
  - destruct (Nat.ltb_spec (length (encode H c)) 32) as [Hs|Hs].
    + destruct (inline_view c (Wf c (or_introl eq_refl)) Hs) as [A B].
      assert (Hns : forall mv, view H c <> DStub mv) by (destruct c as [? ? ? [|? ?]]; discriminate).
      cbn [load_children]. destruct (view H c) eqn:Ev; try (exfalso; eapply Hns; reflexivity);
        unfold inline_tnode; rewrite A, B; cbn [obind]; rewrite IH'; reflexivity.
    + destruct (Hc c (or_introl eq_refl) Hs) as [Hg Hl].
      cbn [load_children]. rewrite zb_bytes_of, Hg.
      rewrite (decode_encode H Hlen st dfix c (Wf c (or_introl eq_refl))).
      rewrite Hl. cbn [obind]. rewrite IH'. reflexivity.
  - cbn [load_children]. rewrite IH'. reflexivity.
Qed.

Theorem load_node_view : forall t, wf_node t = true ->
  forall d r fuel, has d (needs r t) -> (height t <= fuel)%nat ->
  load_node st dfix fuel d (view H t) = Ok t.
Proof.
  induction t as [pk sv mbh cs IH] using tnode_ind'. intros W d r fuel Hh Hf.
  destruct (wf_unfold H Hlen _ _ _ _ W) as (_ & _ & Wsv & _ & Wch).
  destruct fuel as [|f]; [cbn in Hf; lia|].
  assert (Hval : forall v, sv = Some v -> mbh = true -> db_get d (pk ++ H v) = Some v).
  { intros v -> ->. rewrite needs_unfold in Hh. apply has_app in Hh as [Hv _].
    inversion Hv; subst. assumption. }
  destruct cs as [|c0 cs0].
  - destruct sv as [v|]; [|destruct Wsv as [_ Z]; congruence].
    cbn [view view_val load_node].
    rewrite (load_value_view d pk (Some v) mbh v eq_refl (Hval v eq_refl)). reflexivity.
  - rewrite (view_branch H). remember (c0 :: cs0) as cs eqn:Ecs. cbn [load_node].
    assert (Hch : load_children st dfix (load_node st dfix f d) d (map (vchild H) cs) = Ok cs).
    { apply load_children_view.
      - intros c Hin. rewrite Forall_forall in Wch. exact (Wch _ Hin).
      - intros c Hin Hs. pose proof (needs_child d r pk sv mbh cs c Hh Hin) as Hn.
        split.
        + destruct c as [cpk csv cmbh ccs]. rewrite needs_unfold in Hn.
          apply has_app in Hn as [_ Hn]. apply has_app in Hn as [Hn _].
          destruct (Nat.ltb_spec (length (encode H (TN cpk csv cmbh ccs))) 32); [lia|].
          cbn in Hn. inversion Hn; subst. assumption.
        + rewrite Forall_forall in IH, Wch. apply (IH _ Hin (Wch _ Hin) d false f Hn).
          pose proof (height_child pk sv mbh cs c Hin). lia. }
    destruct sv as [v|]; cbn [view_val].
    + rewrite (load_value_view d pk (Some v) mbh v eq_refl (Hval v eq_refl)). cbn [obind].
      rewrite Hch. reflexivity.
    + destruct Wsv as [-> _]. cbn [obind]. rewrite Hch. reflexivity.
Qed.

Theorem load_has t d : wf_node t = true -> has d (needs true t) ->
  H (encode H t) <> empty_root H ->
  forall fuel, (height t <= fuel)%nat ->
  load H st dfix fuel d (H (encode H t)) = Ok (Some t).
Proof.
  intros W Hh Hne fuel Hf. unfold load. rewrite bytes_eqb_neq by assumption.
  assert (Hroot : db_get d (H (encode H t)) = Some (encode H t)).
  { destruct t as [pk sv mbh cs]. rewrite needs_unfold in Hh.
    apply has_app in Hh as [_ Hh]. apply has_app in Hh as [Hh _]. cbn [orb] in Hh.
    inversion Hh; subst. assumption. }
  rewrite Hroot. rewrite (decode_encode H Hlen st dfix t W).
  rewrite (load_node_view t W d true fuel Hh Hf). reflexivity.
Qed.

(* ------------------------------------------------------------------ GetFromDB *)
Lemma nth_map_vchild cs k :
  nth k (map (vchild H) cs) None = vchild H (nth k cs None).
Proof. revert k; induction cs as [|oc cs IH]; intro k; destruct k; cbn; auto. Qed.

Lemma view_not_stub c mv : view H c <> DStub mv.
Proof. destruct c as [? ? ? [|? ?]]; discriminate. Qed.

Lemma node_value_view d pk sv mbh :
  (forall v, sv = Some v -> mbh = true -> db_get d (pk ++ H v) = Some v) ->
  node_value true d pk (view_val H sv mbh) = Ok sv.
Proof.
  intro Hv. destruct sv as [v|]; [|reflexivity]. cbn [view_val]. destruct mbh; cbn [node_value].
  - now rewrite (Hv v eq_refl eq_refl).
  - now rewrite zb_bytes_of.
Qed.

Theorem gfd_view : forall t, wf_node t = true ->
  forall d r key fuel, has d (needs r t) -> (length key < fuel)%nat ->
  gfd st dfix (true, true, true, true) fuel d (view H t) key = Ok (lookup t key).
Proof.
  induction t as [pk sv mbh cs IH] using tnode_ind'. intros W d r key fuel Hh Hf.
  destruct (wf_unfold H Hlen _ _ _ _ W) as (_ & _ & Wsv & _ & Wch).
  destruct fuel as [|f]; [lia|].
  assert (Hval : forall v, sv = Some v -> mbh = true -> db_get d (pk ++ H v) = Some v).
  { intros v -> ->. rewrite needs_unfold in Hh. apply has_app in Hh as [Hv _].
    inversion Hv; subst. assumption. }
  destruct cs as [|c0 cs0].
  - destruct sv as [v|]; [|destruct Wsv as [_ Z]; congruence].
    cbn [view view_val gfd lookup].
    destruct (bytes_eqb pk key) eqn:Ek.
    + apply (node_value_view d pk (Some v) mbh Hval).
    + destruct (is_prefix pk key); [|reflexivity].
      destruct (skipn (length pk) key); [reflexivity|]. now rewrite pick_nth; destruct (N.to_nat _).
  - rewrite (view_branch H). remember (c0 :: cs0) as cs eqn:Ecs. cbn [gfd lookup].
    cbn [negb andb orb]. destruct (bytes_eqb pk key) eqn:Ek.
    + apply (node_value_view d pk sv mbh Hval).
    + destruct (is_prefix pk key) eqn:Ep; cbn [negb]; [|reflexivity].
      destruct (is_prefix_app _ _ Ep) as [rest0 ->].
      rewrite cpl_app. rewrite skipn_app_exact.
      assert (Hlt : (length (pk ++ rest0) <? length pk)%nat = false)
        by (apply Nat.ltb_ge; rewrite app_length; lia).
      rewrite Hlt. cbn [andb].
      destruct rest0 as [|i rest].
      { rewrite app_nil_r in Ek. now rewrite bytes_eqb_refl in Ek. }
      assert (Hnth : nth_error (pk ++ i :: rest) (length pk) = Some i)
        by (rewrite nth_error_app2 by lia; now rewrite Nat.sub_diag).
      rewrite Hnth.
      assert (Hskip : skipn (S (length pk)) (pk ++ i :: rest) = rest).
      { clear. induction pk as [|x pk IHp]; [reflexivity|]. exact IHp. }
      rewrite Hskip. rewrite nth_map_vchild, pick_nth.
      destruct (nth (N.to_nat (b2n i)) cs None) as [c|] eqn:En; cbn [vchild]; [|reflexivity].
      assert (Hin : In (Some c) cs).
      { rewrite <- En. apply nth_In. destruct (Nat.lt_ge_cases (N.to_nat (b2n i)) (length cs)); [assumption|].
        rewrite nth_overflow in En by assumption. discriminate. }
      pose proof (needs_child d r pk sv mbh cs c Hh Hin) as Hn.
      rewrite Forall_forall in IH, Wch. specialize (IH _ Hin (Wch _ Hin)). cbn in IH.
      assert (Hrl : (length rest < f)%nat) by (rewrite app_length in Hf; cbn [length] in Hf; lia).
      destruct (Nat.ltb_spec (length (encode H c)) 32) as [Hs|Hs].
      * specialize (IH d false rest f Hn Hrl).
        destruct (view H c) eqn:Ev; [exfalso; eapply view_not_stub; exact Ev| |]; exact IH.
      * assert (Hg : db_get d (H (encode H c)) = Some (encode H c)).
        { destruct c as [cpk csv cmbh ccs]. rewrite needs_unfold in Hn.
          apply has_app in Hn as [_ Hn]. apply has_app in Hn as [Hn _].
          destruct (Nat.ltb_spec (length (encode H (TN cpk csv cmbh ccs))) 32); [lia|].
          cbn in Hn. inversion Hn; subst. assumption. }
        rewrite zb_bytes_of, Hg. rewrite (decode_encode H Hlen st dfix c (Wch _ Hin)).
        exact (IH d false rest f Hn Hrl).
Qed.

Lemma length_nibbles_of_bytes k : length (nibbles_of_bytes k) = (2 * length k)%nat.
Proof.
  induction k as [|b k IH]; [reflexivity|]. unfold nibbles_of_bytes in *. cbn [flat_map].
  rewrite app_length, IH. cbn [length]. lia.
Qed.

Theorem get_from_db_has t d key : wf_node t = true -> has d (needs true t) ->
  H (encode H t) <> empty_root H ->
  get_from_db H st dfix (true, true, true, true) d (H (encode H t)) key
  = Ok (lookup t (nibbles_of_bytes key)).
Proof.
  intros W Hh Hne. unfold get_from_db. rewrite bytes_eqb_neq by assumption.
  assert (Hroot : db_get d (H (encode H t)) = Some (encode H t)).
  { destruct t as [pk sv mbh cs]. rewrite needs_unfold in Hh.
    apply has_app in Hh as [_ Hh]. apply has_app in Hh as [Hh _]. cbn [orb] in Hh.
    inversion Hh; subst. assumption. }
  rewrite Hroot. rewrite (decode_encode H Hlen st dfix t W).
  apply (gfd_view t W d true); [assumption|]. rewrite length_nibbles_of_bytes. lia.
Qed.

End Needs.
