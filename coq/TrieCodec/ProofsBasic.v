(* TrieCodec/ProofsBasic.v — lemmas about readers, the compact length, byte strings, the node
   header and partial keys. *)
From Common Require Import Bytes Outcome.
From Coq Require Import Strings.Byte ZifyN ZifyNat ZifyBool.
From TrieCodec Require Import Codec.
Local Open Scope N_scope.
Ltac Zify.zify_post_hook ::= Z.div_mod_to_equations.

(* ------------------------------------------------------------------ takeN / dropN *)
Lemma takeN_0 l : takeN 0 l = [].
Proof. destruct l; reflexivity. Qed.
Lemma dropN_0 l : dropN 0 l = l.
Proof. destruct l; reflexivity. Qed.

Lemma takeN_firstn k l : takeN k l = firstn (N.to_nat k) l.
Proof.
  revert k; induction l as [|x t IH]; intro k.
  - now rewrite firstn_nil.
  - cbn [takeN]. destruct (N.eqb_spec k 0) as [->|Hk]; [reflexivity|].
    replace (N.to_nat k) with (S (N.to_nat (N.pred k))) by lia. cbn [firstn]. now rewrite IH.
Qed.
Lemma dropN_skipn k l : dropN k l = skipn (N.to_nat k) l.
Proof.
  revert k; induction l as [|x t IH]; intro k.
  - now rewrite skipn_nil.
  - cbn [dropN]. destruct (N.eqb_spec k 0) as [->|Hk]; [reflexivity|].
    replace (N.to_nat k) with (S (N.to_nat (N.pred k))) by lia. cbn [skipn]. now rewrite IH.
Qed.

Lemma takeN_app d rest : takeN (lenN d) (d ++ rest) = d.
Proof.
  rewrite takeN_firstn. unfold lenN. rewrite Nat2N.id.
  rewrite firstn_app, Nat.sub_diag, firstn_all. cbn. now rewrite app_nil_r.
Qed.
Lemma dropN_app d rest : dropN (lenN d) (d ++ rest) = rest.
Proof.
  rewrite dropN_skipn. unfold lenN. rewrite Nat2N.id.
  rewrite skipn_app, Nat.sub_diag, skipn_all. reflexivity.
Qed.

Lemma takeN_dropN k l : takeN k l ++ dropN k l = l.
Proof. rewrite takeN_firstn, dropN_skipn. apply firstn_skipn. Qed.

Lemma lenN_takeN_le k l : lenN (takeN k l) <= k.
Proof. rewrite takeN_firstn. unfold lenN. pose proof (firstn_le_length (N.to_nat k) l). rewrite firstn_length. lia. Qed.

Lemma lenN_app a b : lenN (a ++ b) = lenN a + lenN b.
Proof. unfold lenN. rewrite app_length. lia. Qed.
Lemma lenN_cons x l : lenN (x :: l) = lenN l + 1.
Proof. unfold lenN. cbn [length]. lia. Qed.
Lemma lenN_nil : lenN [] = 0.
Proof. reflexivity. Qed.

(* reading exactly the bytes that are there *)
Lemma rd_app d rest : d <> [] -> rd (lenN d) (d ++ rest) = Some (d, rest).
Proof.
  intro Hd. unfold rd. destruct (d ++ rest) eqn:E.
  - destruct d; [congruence|discriminate].
  - rewrite <- E. now rewrite takeN_app, dropN_app.
Qed.

Lemma srd_app s d rest : d <> [] -> srd s (lenN d) (d ++ rest) = Some (d, rest).
Proof.
  intro Hd. unfold srd. rewrite rd_app by assumption.
  rewrite N.ltb_irrefl, andb_false_r. reflexivity.
Qed.

(* ------------------------------------------------------------------ bytes *)
Lemma b2n_n2b_lt n : n < 256 -> b2n (n2b n) = n.
Proof. apply b2n_n2b_small. Qed.

Lemma le_bytes_2 x : le_bytes 2 x = [n2b x; n2b (N.shiftr x 8)].
Proof. reflexivity. Qed.
Lemma le_bytes_4 x : le_bytes 4 x =
  [n2b x; n2b (N.shiftr x 8); n2b (N.shiftr (N.shiftr x 8) 8); n2b (N.shiftr (N.shiftr (N.shiftr x 8) 8) 8)].
Proof. reflexivity. Qed.

Lemma le_bytes_neq_nil k x : k <> O -> le_bytes k x <> [].
Proof. destruct k; [congruence|]. cbn. discriminate. Qed.

Lemma lenN_le_bytes k x : lenN (le_bytes k x) = N.of_nat k.
Proof. unfold lenN. now rewrite le_bytes_length. Qed.

(* ------------------------------------------------------------------ compact length *)
Lemma byte_count_4 n : 1073741824 <= n -> n < 4294967296 -> byte_count n = 4%nat.
Proof.
  intros H1 H2. unfold byte_count.
  assert (Hs : N.size n = 31 \/ N.size n = 32).
  { destruct n as [|p]; [lia|].
    assert (Hlog : N.log2 (N.pos p) = 30 \/ N.log2 (N.pos p) = 31).
    { assert (30 <= N.log2 (N.pos p)) by (change 30 with (N.log2 1073741824); now apply N.log2_le_mono).
      assert (N.log2 (N.pos p) < 32) by (apply N.log2_lt_pow2; [lia|exact H2]). lia. }
    rewrite N.size_log2 by discriminate. lia. }
  destruct Hs as [-> | ->]; reflexivity.
Qed.

Lemma dec_compact_enc s n rest : n < 4294967296 ->
  dec_compact s (enc_compact n ++ rest) = Ok (n, rest).
Proof.
  intro Hn. unfold enc_compact.
  destruct (N.ltb_spec n 64) as [H6|H6].
  { cbn [app dec_compact]. rewrite b2n_n2b_lt by lia.
    replace ((n * 4) mod 4) with 0 by (rewrite N.mod_mul; lia). cbn [N.eqb].
    replace (n * 4 / 4) with n by (rewrite N.div_mul; lia). reflexivity. }
  destruct (N.ltb_spec n 16384) as [H14|H14].
  { rewrite le_bytes_2. cbn [app dec_compact].
    rewrite !b2n_n2b.
    assert (E1 : ((n * 4 + 1) mod 256) mod 4 = 1) by lia.
    rewrite E1. cbn [N.eqb Pos.eqb].
    rewrite N.shiftr_div_pow2. change (2 ^ 8) with 256.
    assert (E2 : ((n * 4 + 1) mod 256 + 256 * ((n * 4 + 1) / 256 mod 256)) / 4 = n) by lia.
    rewrite E2. destruct (N.leb_spec n 63); [lia|]. reflexivity. }
  destruct (N.ltb_spec n 1073741824) as [H30|H30].
  { set (x := n * 4 + 2).
    assert (Hx : x < 256 ^ N.of_nat 4) by (change (256 ^ N.of_nat 4) with 4294967296; unfold x; lia).
    assert (Hv : le_val (le_bytes 4 x) = x) by (now apply le_val_le_bytes_small).
    rewrite le_bytes_4 in *. cbn [app dec_compact].
    set (b0 := n2b x) in *. set (d := [n2b (N.shiftr x 8); n2b (N.shiftr (N.shiftr x 8) 8);
                                       n2b (N.shiftr (N.shiftr (N.shiftr x 8) 8) 8)]) in *.
    assert (E1 : b2n b0 mod 4 = 2).
    { unfold b0. rewrite b2n_n2b. unfold x. lia. }
    rewrite E1. cbn [N.eqb Pos.eqb].
    change (n2b (N.shiftr x 8) :: n2b (N.shiftr (N.shiftr x 8) 8)
            :: n2b (N.shiftr (N.shiftr (N.shiftr x 8) 8) 8) :: rest) with (d ++ rest).
    change 3 with (lenN d). rewrite srd_app by (unfold d; discriminate).
    cbn [le_val] in Hv. fold (le_val d) in Hv.
    replace (b2n b0 + 256 * le_val d) with x by (rewrite <- Hv; unfold d; cbn [le_val]; lia).
    replace (x / 4) with n by (unfold x; lia).
    destruct (N.leb_spec n 16383); [lia|]. reflexivity. }
  { rewrite (byte_count_4 n) by lia. cbn [Nat.sub N.of_nat N.mul N.add app dec_compact].
    change (b2n (n2b 3)) with 3. change (3 mod 4) with 3. cbn [N.eqb Pos.eqb].
    change (3 / 4 + 4) with 4. change 4 with (lenN (le_bytes 4 n)) at 1.
    rewrite srd_app by (apply le_bytes_neq_nil; discriminate).
    cbn [N.eqb Pos.eqb].
    rewrite le_val_le_bytes_small by (change (256 ^ N.of_nat 4) with 4294967296; lia).
    destruct (N.leb_spec n 1073741823); [lia|]. reflexivity. }
Qed.

Lemma dec_bytes_enc st v rest : lenN v < 4294967296 ->
  dec_bytes st (enc_bytes v ++ rest) = Ok ((v, 0), rest).
Proof.
  intro Hl. unfold dec_bytes, enc_bytes. rewrite <- app_assoc.
  rewrite dec_compact_enc by assumption.
  destruct (N.ltb_spec 4294967295 (lenN v)); [lia|].
  destruct (N.eqb_spec (lenN v) 0) as [E|E].
  - destruct v; [reflexivity | unfold lenN in E; cbn in E; lia].
  - rewrite srd_app by (intros ->; apply E; reflexivity).
    now rewrite N.sub_diag.
Qed.

(* results of the scale readers are Ok or Err *)
Definition okerr {A} (x : outcome A) : Prop :=
  match x with Ok _ | Err _ => True | _ => False end.

Lemma okerr_obind {A B} (x : outcome A) (f : A -> outcome B) :
  okerr x -> (forall a, x = Ok a -> okerr (f a)) -> okerr (obind x f).
Proof. destruct x; cbn; intros; try contradiction; auto. Qed.

Lemma okerr_relabel {A} c (x : outcome A) : okerr x -> okerr (relabel c x).
Proof. destruct x; cbn; auto. Qed.

Lemma dec_compact_okerr s r : okerr (dec_compact s r).
Proof.
  unfold dec_compact. destruct r as [|p r1]; cbn; [exact I|].
  repeat match goal with
         | |- okerr (if ?c then _ else _) => destruct c
         | |- okerr (match ?x with _ => _ end) => destruct x
         | |- okerr (let _ := _ in _) => cbv zeta
         end; cbn; exact I.
Qed.

Lemma dec_bytes_okerr st r : okerr (dec_bytes st r).
Proof.
  unfold dec_bytes. pose proof (dec_compact_okerr (fst st) r) as Hc.
  destruct (dec_compact (fst st) r) as [[len r1]| | |]; cbn in *; try contradiction; try exact I.
  repeat match goal with
         | |- okerr (if ?c then _ else _) => destruct c
         | |- okerr (match ?x with _ => _ end) => destruct x
         end; cbn; exact I.
Qed.
