(* TrieCodec/ProofsDecode.v — node.Decode (Encode n) = view n. *)
From Common Require Import Bytes Outcome.
From Coq Require Import Strings.Byte ZifyN ZifyNat ZifyBool.
From TrieCodec Require Import Codec View ProofsBasic ProofsHeader.
Local Open Scope N_scope.
Ltac Zify.zify_post_hook ::= Z.div_mod_to_equations.

(* ------------------------------------------------------------------ induction on in-memory nodes *)
Definition opt_all (P : tnode -> Prop) (oc : option tnode) : Prop :=
  match oc with Some c => P c | None => True end.

Section TInd.
  Variable P : tnode -> Prop.
  Hypothesis HN : forall pk sv mbh cs, Forall (opt_all P) cs -> P (TN pk sv mbh cs).
  Fixpoint tnode_ind' (t : tnode) : P t :=
    match t with
    | TN pk sv mbh cs =>
      HN pk sv mbh cs
         ((fix go (l : list (option tnode)) : Forall (opt_all P) l :=
             match l with
             | [] => Forall_nil _
             | oc :: r =>
               @Forall_cons _ (opt_all P) oc r
                 (match oc as o return opt_all P o with
                  | Some c => tnode_ind' c
                  | None => I
                  end) (go r)
             end) cs)
    end.
End TInd.

(* ------------------------------------------------------------------ bitmap *)
Definition is_some {A} (o : option A) : bool := match o with Some _ => true | None => false end.

Lemma testbit_bitmap_of {A} (cs : list (option A)) : forall i j,
  N.testbit (bitmap_of cs i) j =
  if j <? i then false else is_some (nth (N.to_nat (j - i)) cs None).
Proof.
  induction cs as [|oc t IH]; intros i j.
  - cbn [bitmap_of]. rewrite N.bits_0. destruct (j <? i); [reflexivity|]. now destruct (N.to_nat (j - i)).
  - destruct oc as [c|]; cbn [bitmap_of].
    + rewrite N.lor_spec, IH, N.shiftl_1_l, N.pow2_bits_eqb.
      destruct (N.eqb_spec i j) as [->|Hne].
      * rewrite N.ltb_irrefl, N.sub_diag. reflexivity.
      * cbn [orb]. destruct (N.ltb_spec j (i + 1)), (N.ltb_spec j i); try lia; try reflexivity.
        replace (N.to_nat (j - i)) with (S (N.to_nat (j - (i + 1)))) by lia. reflexivity.
    + rewrite IH. destruct (N.ltb_spec j (i + 1)), (N.ltb_spec j i); try lia; try reflexivity.
      * replace (j - i) with 0 by lia. reflexivity.
      * replace (N.to_nat (j - i)) with (S (N.to_nat (j - (i + 1)))) by lia. reflexivity.
Qed.

Lemma testbit_bitmap_read {A} (cs : list (option A)) j : j < 16 ->
  N.testbit (le_val (le_bytes 2 (bitmap_of cs 0))) j = is_some (nth (N.to_nat j) cs None).
Proof.
  intro Hj. rewrite le_val_le_bytes. replace (256 ^ N.of_nat 2) with (2 ^ 16) by reflexivity.
  rewrite N.mod_pow2_bits_low by assumption.
  rewrite testbit_bitmap_of. destruct (N.ltb_spec j 0); [lia|]. now rewrite N.sub_0_r.
Qed.

(* ------------------------------------------------------------------ small reader facts *)
Lemma dec_hashed_app h rest : lenN h = 32 -> dec_hashed (h ++ rest) = Ok (h, rest).
Proof.
  intro Hh. unfold dec_hashed. rewrite <- Hh.
  rewrite rd_app by (intros ->; discriminate). now rewrite N.ltb_irrefl.
Qed.

Lemma rd2_le_bytes x rest : rd 2 (le_bytes 2 x ++ rest) = Some (le_bytes 2 x, rest).
Proof. change 2 with (lenN (le_bytes 2 x)) at 1. apply rd_app. discriminate. Qed.

Lemma zb_bytes_of l : zb_bytes (l, 0) = l.
Proof. unfold zb_bytes. cbn. apply app_nil_r. Qed.
Lemma zb_len_of l : zb_len (l, 0) = lenN l.
Proof. unfold zb_len. cbn. lia. Qed.

Lemma flat_map_length_in {A} (f : A -> list byte) x l :
  In x l -> (length (f x) <= length (flat_map f l))%nat.
Proof.
  induction l as [|y l IH]; [contradiction|]. intros [->|Hin]; cbn [flat_map]; rewrite app_length.
  - lia.
  - specialize (IH Hin). lia.
Qed.

(* ------------------------------------------------------------------ the round trip *)
Section RoundTrip.
Variable H : list byte -> list byte.
Hypothesis Hlen : forall x, length (H x) = 32%nat.
Variable st : bool * bool.
Variable fixed : bool.

Lemma lenN_H x : lenN (H x) = 32.
Proof. unfold lenN. now rewrite Hlen. Qed.

Definition enc_child (oc : option tnode) : list byte :=
  match oc with None => [] | Some c => enc_bytes (merkle_value H (encode H c)) end.

Definition vchild (oc : option tnode) : option dnode :=
  match oc with
  | None => None
  | Some c => let e := encode H c in
              if (length e <? 32)%nat then Some (view H c) else Some (DStub (H e, 0))
  end.

Definition desc_step (d : N) (oc : option dnode) : N :=
  match oc with None => d | Some c => d + desc_of c + 1 end.

Lemma encode_unfold pk sv mbh cs :
  encode H (TN pk sv mbh cs) =
  encode_header (variant_of (match cs with [] => false | _ => true end) sv mbh) (lenN pk)
  ++ nibbles_to_key_le pk
  ++ (if (match cs with [] => false | _ => true end) then le_bytes 2 (bitmap_of cs 0) else [])
  ++ (match sv with None => [] | Some v => if mbh then H v else enc_bytes v end)
  ++ flat_map enc_child cs.
Proof. destruct cs; reflexivity. Qed.

Lemma view_branch pk sv mbh c0 cs0 :
  view H (TN pk sv mbh (c0 :: cs0)) =
  DBranch pk (view_val H sv mbh) (fold_left desc_step (map vchild (c0 :: cs0)) 0) (map vchild (c0 :: cs0)).
Proof. reflexivity. Qed.

Lemma merkle_len e : lenN (merkle_value H e) < 4294967296.
Proof.
  unfold merkle_value. destruct (Nat.ltb_spec (length e) 32).
  - unfold lenN. lia.
  - rewrite lenN_H. lia.
Qed.

Lemma dec_children_enc (dec : list byte -> outcome (option dnode)) bitmap rest :
  forall cs i d,
  (forall c, In (Some c) cs -> (length (encode H c) < 32)%nat -> dec (encode H c) = Ok (Some (view H c))) ->
  (forall j, (j < length cs)%nat -> N.testbit bitmap (N.of_nat (i + j)) = is_some (nth j cs None)) ->
  dec_children st fixed dec (map N.of_nat (seq i (length cs))) bitmap (flat_map enc_child cs ++ rest) d
  = Ok (map vchild cs, fold_left desc_step (map vchild cs) d).
Proof.
  induction cs as [|oc t IH]; intros i d Hdec Hbits.
  - reflexivity.
  - cbn [length seq map dec_children].
    pose proof (Hbits O ltac:(cbn; lia)) as Hb0. rewrite Nat.add_0_r in Hb0. cbn [nth] in Hb0.
    assert (Hdec' : forall c, In (Some c) t -> (length (encode H c) < 32)%nat ->
                              dec (encode H c) = Ok (Some (view H c)))
      by (intros c Hin; apply Hdec; now right).
    assert (Hbits' : forall j, (j < length t)%nat ->
                               N.testbit bitmap (N.of_nat (S i + j)) = is_some (nth j t None)).
    { intros j Hj. specialize (Hbits (S j) ltac:(cbn; lia)). cbn [nth] in Hbits.
      rewrite <- Hbits. f_equal. lia. }
    rewrite Hb0. destruct oc as [c|]; cbn [is_some].
    + cbn [flat_map enc_child]. rewrite <- app_assoc.
      rewrite dec_bytes_enc by apply merkle_len. cbn [relabel obind].
      rewrite zb_len_of, zb_bytes_of. unfold merkle_value. cbn [vchild map fold_left].
      destruct (Nat.ltb_spec (length (encode H c)) 32) as [Hs|Hs].
      * destruct (N.ltb_spec (lenN (encode H c)) 32) as [_|Hc]; [|unfold lenN in Hc; lia].
        rewrite (Hdec c (or_introl eq_refl) Hs).
        rewrite (IH (S i) _ Hdec' Hbits'). cbn [obind desc_step]. reflexivity.
      * destruct (N.ltb_spec (lenN (H (encode H c))) 32) as [Hc|_]; [rewrite lenN_H in Hc; lia|].
        rewrite (IH (S i) _ Hdec' Hbits'). cbn [obind desc_step desc_of].
        rewrite N.add_0_r. reflexivity.
    + cbn [flat_map enc_child app vchild map fold_left desc_step].
      rewrite (IH (S i) _ Hdec' Hbits'). cbn [obind]. reflexivity.
Qed.

Lemma child_indices_seq : child_indices = map N.of_nat (seq 0 16).
Proof. reflexivity. Qed.

Lemma wf_unfold pk sv mbh cs : wf_node (TN pk sv mbh cs) = true ->
  nibbles_ok pk = true /\ lenN pk <= 65535
  /\ match sv with
     | Some v => lenN v < 4294967296
     | None => mbh = false /\ cs <> []
     end
  /\ (cs = [] \/ length cs = 16%nat)
  /\ Forall (opt_all (fun c => wf_node c = true)) cs.
Proof.
  cbn [wf_node]. intro W.
  apply andb_prop in W as [W W5]. apply andb_prop in W as [W W4]. apply andb_prop in W as [W W3].
  apply andb_prop in W as [W1 W2].
  repeat split.
  - assumption.
  - lia.
  - destruct sv as [v|]; [lia|]. apply andb_prop in W3 as [A B]. split.
    + now destruct mbh.
    + destruct cs; [discriminate|discriminate].
  - destruct cs; [now left|right]. now apply Nat.eqb_eq.
  - rewrite forallb_forall in W5. apply Forall_forall. intros [c|] Hin; cbn; [|exact I].
    exact (W5 _ Hin).
Qed.

Lemma variant_of_node isb sv mbh : node_variant (variant_of isb sv mbh) = true.
Proof. unfold variant_of. destruct isb, sv, mbh; reflexivity. Qed.

Theorem decode_encode_f : forall n, wf_node n = true ->
  forall fuel rest, (length (encode H n) < fuel)%nat ->
  decode_f st fixed fuel (encode H n ++ rest) = Ok (Some (view H n)).
Proof.
  induction n as [pk sv mbh cs IHcs] using tnode_ind'. intros W fuel rest Hfuel.
  destruct (wf_unfold _ _ _ _ W) as (Wpk & Wl & Wsv & Wcs & Wch).
  destruct fuel as [|f]; [lia|].
  rewrite encode_unfold in *. cbn [decode_f].
  rewrite <- !app_assoc.
  rewrite decode_header_encode by (auto using variant_of_node).
  cbn [obind].
  destruct cs as [|c0 cs0].
  - (* leaf *)
    destruct sv as [v|]; [|destruct Wsv as [_ Wn]; congruence].
    cbn [variant_of negb]. destruct mbh.
    + cbn [decode_leaf]. unfold decode_leaf.
      rewrite decode_key_encode by (now apply nibbles_ok_P). cbn [obind app].
      rewrite dec_hashed_app by apply lenN_H. reflexivity.
    + unfold decode_leaf.
      rewrite decode_key_encode by (now apply nibbles_ok_P). cbn [obind app].
      rewrite dec_bytes_enc by assumption. reflexivity.
  - (* branch *)
    remember (c0 :: cs0) as cs eqn:Ecs.
    assert (Hl16 : length cs = 16%nat) by (destruct Wcs as [Z|Z]; [subst; discriminate|exact Z]).
    assert (Hvar : match variant_of true sv mbh with
                   | VBranch | VBranchVal | VBranchHashed => True | _ => False end)
      by (unfold variant_of; destruct sv, mbh; exact I).
    assert (Hbr : forall r1,
      decode_branch st fixed (decode_f st fixed f) (variant_of true sv mbh) (lenN pk)
        (nibbles_to_key_le pk ++ le_bytes 2 (bitmap_of cs 0)
         ++ (match sv with None => [] | Some v => if mbh then H v else enc_bytes v end)
         ++ flat_map enc_child cs ++ r1)
      = Ok (view H (TN pk sv mbh cs))).
    { intro r1. unfold decode_branch.
      rewrite decode_key_encode by (now apply nibbles_ok_P). cbn [obind].
      rewrite rd2_le_bytes.
      assert (Hch : dec_children st fixed (decode_f st fixed f) child_indices
                      (le_val (le_bytes 2 (bitmap_of cs 0))) (flat_map enc_child cs ++ r1) 0
                    = Ok (map vchild cs, fold_left desc_step (map vchild cs) 0)).
      { rewrite child_indices_seq. rewrite <- Hl16.
        apply dec_children_enc.
        - intros c Hin Hs.
          rewrite Forall_forall in IHcs. specialize (IHcs (Some c) Hin). cbn in IHcs.
          rewrite Forall_forall in Wch. specialize (Wch (Some c) Hin). cbn in Wch.
          rewrite <- (app_nil_r (encode H c)). apply IHcs; [assumption|].
          pose proof (flat_map_length_in enc_child (Some c) cs Hin) as Hle.
          cbn [enc_child] in Hle. unfold merkle_value in Hle.
          destruct (Nat.ltb_spec (length (encode H c)) 32); [|lia].
          unfold enc_bytes in Hle. rewrite app_length in Hle.
          destruct (encode_header_nonzero (variant_of true sv mbh) (lenN pk) (variant_of_node _ _ _))
            as (b & t & Eh & _).
          rewrite Eh in Hfuel. rewrite !app_length in Hfuel. cbn [length] in Hfuel. lia.
        - intros j Hj. rewrite Nat.add_0_l. rewrite testbit_bitmap_read by lia.
          now rewrite Nat2N.id. }
      subst cs. rewrite view_branch.
      unfold variant_of. cbn [negb]. destruct sv as [v|].
      - destruct mbh.
        + rewrite dec_hashed_app by apply lenN_H. cbn [obind]. rewrite Hch. reflexivity.
        + rewrite dec_bytes_enc by assumption. cbn [relabel obind].
          rewrite Hch. reflexivity.
      - cbn [app obind]. rewrite Hch. reflexivity. }
    destruct (variant_of true sv mbh) eqn:Ev; try contradiction; rewrite Hbr; reflexivity.
Qed.

Theorem decode_encode n : wf_node n = true ->
  decode st fixed (encode H n) = Ok (Some (view H n)).
Proof.
  intro W. unfold decode. rewrite <- (app_nil_r (encode H n)) at 2.
  apply decode_encode_f; [assumption|lia].
Qed.

(* ---------------------------------------------------------------- triedb/codec.Decode *)
Definition cvchild (oc : option tnode) : option cchild :=
  match oc with
  | None => None
  | Some c => let e := encode H c in
              if (length e <? 32)%nat then Some (CInline (e, 0)) else Some (CHashed (h256_of (H e)))
  end.

Lemma zb_take_H x : zb_take 32 (H x, 0) = H x.
Proof.
  unfold zb_take. cbn [fst snd]. change (N.to_nat 0) with O. rewrite Nat.min_0_r.
  unfold zeros. cbn [repeat]. rewrite app_nil_r. rewrite <- (Hlen x). apply firstn_all.
Qed.

Lemma cdec_children_enc bitmap rest :
  forall cs i,
  (forall j, (j < length cs)%nat -> N.testbit bitmap (N.of_nat (i + j)) = is_some (nth j cs None)) ->
  cdec_children st (map N.of_nat (seq i (length cs))) bitmap (flat_map enc_child cs ++ rest)
  = Ok (map cvchild cs).
Proof.
  induction cs as [|oc t IH]; intros i Hbits.
  - reflexivity.
  - cbn [length seq map cdec_children].
    pose proof (Hbits O ltac:(cbn; lia)) as Hb0. rewrite Nat.add_0_r in Hb0. cbn [nth] in Hb0.
    assert (Hbits' : forall j, (j < length t)%nat ->
                               N.testbit bitmap (N.of_nat (S i + j)) = is_some (nth j t None)).
    { intros j Hj. specialize (Hbits (S j) ltac:(cbn; lia)). cbn [nth] in Hbits.
      rewrite <- Hbits. f_equal. lia. }
    rewrite Hb0. destruct oc as [c|]; cbn [is_some].
    + cbn [flat_map enc_child]. rewrite <- app_assoc.
      rewrite dec_bytes_enc by apply merkle_len. cbn [relabel obind].
      rewrite (IH (S i) Hbits'). cbn [obind cvchild map].
      rewrite zb_len_of. unfold merkle_value.
      destruct (Nat.ltb_spec (length (encode H c)) 32) as [Hs|Hs].
      * destruct (N.ltb_spec (lenN (encode H c)) 32) as [_|Hc]; [reflexivity|unfold lenN in Hc; lia].
      * destruct (N.ltb_spec (lenN (H (encode H c))) 32) as [Hc|_]; [rewrite lenN_H in Hc; lia|].
        now rewrite zb_take_H.
    + cbn [flat_map enc_child app cvchild map].
      rewrite (IH (S i) Hbits'). reflexivity.
Qed.

Lemma cview_branch pk sv mbh c0 cs0 :
  cview H (TN pk sv mbh (c0 :: cs0)) =
  CBranch pk (match sv with
              | Some v => Some (if mbh then DVHashed (h256_of (H v)) else DVInline (v, 0))
              | None => None end) (map cvchild (c0 :: cs0)).
Proof. reflexivity. Qed.

Theorem cdecode_encode n rest : wf_node n = true ->
  cdecode st fixed (encode H n ++ rest) = Ok (cview H n).
Proof.
  destruct n as [pk sv mbh cs]. intro W.
  destruct (wf_unfold _ _ _ _ W) as (Wpk & Wl & Wsv & Wcs & Wch).
  rewrite encode_unfold. unfold cdecode. rewrite <- !app_assoc.
  rewrite decode_header_encode by (auto using variant_of_node).
  cbn [obind].
  destruct cs as [|c0 cs0].
  - destruct sv as [v|]; [|destruct Wsv as [_ Wn]; congruence].
    cbn [variant_of negb]. destruct mbh.
    + rewrite decode_key_encode by (now apply nibbles_ok_P). cbn [obind app].
      rewrite dec_hashed_app by apply lenN_H. reflexivity.
    + rewrite decode_key_encode by (now apply nibbles_ok_P). cbn [obind app].
      rewrite dec_bytes_enc by assumption. reflexivity.
  - remember (c0 :: cs0) as cs eqn:Ecs.
    assert (Hl16 : length cs = 16%nat) by (destruct Wcs as [Z|Z]; [subst; discriminate|exact Z]).
    assert (Hch : forall r1, cdec_children st child_indices
                      (le_val (le_bytes 2 (bitmap_of cs 0))) (flat_map enc_child cs ++ r1)
                    = Ok (map cvchild cs)).
    { intro r1. rewrite child_indices_seq. rewrite <- Hl16. apply cdec_children_enc.
      intros j Hj. rewrite Nat.add_0_l. rewrite testbit_bitmap_read by lia. now rewrite Nat2N.id. }
    assert (Hbm : lenN (le_bytes 2 (bitmap_of cs 0)) <? 2 = false) by reflexivity.
    unfold variant_of. cbn [negb]. destruct sv as [v|]; [destruct mbh|];
      rewrite decode_key_encode by (now apply nibbles_ok_P); cbn [obind];
      rewrite rd2_le_bytes, Hbm; subst cs; rewrite cview_branch.
    + rewrite dec_hashed_app by apply lenN_H. cbn [obind]. rewrite Hch. reflexivity.
    + rewrite dec_bytes_enc by assumption. cbn [relabel obind]. rewrite Hch. reflexivity.
    + cbn [app obind]. rewrite Hch. reflexivity.
Qed.

End RoundTrip.
