(* TrieCodec/Codec.v — executable model of the byte-level trie node codec (definitions only).

   Mirrors, function by function:
     pkg/trie/node/header.go    encodeHeader, decodeHeader, decodeHeaderByte, variantsOrderedByBitMask
     pkg/trie/node/variants.go  the seven variants (bits, mask)
     pkg/trie/node/key.go       decodeKey            pkg/trie/codec/nibbles.go  NibblesToKeyLE, KeyLEToNibbles
     pkg/trie/node/decode.go    Decode, decodeBranch, decodeLeaf, decodeHashedValue
     pkg/trie/node/encode.go    Encode               pkg/trie/node/branch_encode.go  encodeChild (sequentially)
     pkg/trie/node/hash.go      MerkleValue
     pkg/trie/triedb/codec/{header,key,decode}.go    Decode (children are not decoded there)
     pkg/scale decodeUint/decodeLength/decodeBytes and encodeUint/encodeBytes as used for []byte.

   Readers are bytes.Reader values: the state is the list of remaining bytes.  Read(buf) with
   len(buf) = k > 0 returns io.EOF when nothing is left and otherwise copies min(k, remaining)
   bytes with a nil error: the short read is not noticed by callers that ignore n, the rest of buf
   keeps its zeros.  Values produced by such reads are kept as (data read, number of zero bytes
   that follow) so that a declared length of 2^32-1 costs nothing in the model.

   Two switches:
     strict : pkg/scale rejects short reads (a repaired scale decoder) or zero-fills (pinned tree),
              separately for the reads of decodeUint and the read of decodeBytes; the harness
              probes which one is in the tree, the theorems hold for all four settings.
     fixed  : true  = node.Decode / codec.Decode as repaired by fixes/C07-*.patch (errors),
              false = the pinned tree (panics on the compact variant and on an empty inlined child). *)
From Common Require Import Bytes Outcome.
From Coq Require Import Strings.Byte.
Local Open Scope N_scope.

(* ------------------------------------------------------------------ error classes *)
Definition E_EOF      : nat := 1.   (* io.EOF reached through the wrapping chain *)
Definition E_VARIANT  : nat := 2.   (* ErrVariantUnknown *)
Definition E_KEYBIG   : nat := 3.   (* ErrPartialKeyTooBig *)
Definition E_MISMATCH : nat := 4.   (* ErrReaderMismatchCount *)
Definition E_STORAGE  : nat := 5.   (* ErrDecodeStorageValue *)
Definition E_SHORT    : nat := 6.   (* ErrDecodeHashedValueTooShort *)
Definition E_BITMAP   : nat := 7.   (* ErrReadChildrenBitmap *)
Definition E_CHILD    : nat := 8.   (* ErrDecodeChildHash *)
Definition E_SCALE    : nat := 9.   (* an error of pkg/scale, always re-labelled by the caller *)

(* ------------------------------------------------------------------ readers *)
Definition lenN (l : list byte) : N := N.of_nat (length l).

Fixpoint takeN (n : N) (l : list byte) : list byte :=
  match l with
  | [] => []
  | x :: t => if n =? 0 then [] else x :: takeN (N.pred n) t
  end.
Fixpoint dropN (n : N) (l : list byte) : list byte :=
  match l with
  | [] => []
  | x :: t => if n =? 0 then l else dropN (N.pred n) t
  end.

(* reader.Read(make([]byte,k)), k > 0: None = io.EOF; Some (bytes copied, rest) *)
Definition rd (k : N) (r : list byte) : option (list byte * list byte) :=
  match r with
  | [] => None
  | _ => Some (takeN k r, dropN k r)
  end.

(* the Read of pkg/scale's decodeState; strict = short reads are errors *)
Definition srd (strict : bool) (k : N) (r : list byte) : option (list byte * list byte) :=
  match rd k r with
  | None => None
  | Some (d, r') => if strict && (lenN d <? k) then None else Some (d, r')
  end.

(* a byte string known as "data followed by zf zero bytes" *)
Definition zb := (list byte * N)%type.
Definition zb_len (z : zb) : N := lenN (fst z) + snd z.
Definition zb_bytes (z : zb) : list byte := fst z ++ zeros (N.to_nat (snd z)).
Definition zb_of (l : list byte) : zb := (l, 0).
(* first k bytes of the denoted string *)
Definition zb_take (k : nat) (z : zb) : list byte :=
  firstn k (fst z ++ zeros (Nat.min k (N.to_nat (snd z)))).

(* ------------------------------------------------------------------ pkg/scale: compact length, []byte *)
(* decodeUint into a Go uint (64 bit) *)
Definition dec_compact (strict : bool) (r : list byte) : outcome (N * list byte) :=
  match r with
  | [] => Err E_SCALE
  | p :: r1 =>
    let pn := b2n p in
    let mode := pn mod 4 in
    if mode =? 0 then Ok (pn / 4, r1)
    else if mode =? 1 then
      match r1 with
      | [] => Err E_SCALE
      | b :: r2 =>
        let v := (pn + 256 * b2n b) / 4 in
        if v <=? 63 then Err E_SCALE else Ok (v, r2)
      end
    else if mode =? 2 then
      match srd strict 3 r1 with
      | None => Err E_SCALE
      | Some (d, r2) =>
        let v := (pn + 256 * le_val d) / 4 in
        if v <=? 16383 then Err E_SCALE else Ok (v, r2)
      end
    else
      let bl := pn / 4 + 4 in
      match srd strict bl r1 with
      | None => Err E_SCALE
      | Some (d, r2) =>
        if bl =? 4 then
          let v := le_val d in if v <=? 1073741823 then Err E_SCALE else Ok (v, r2)
        else if bl =? 8 then
          let v := le_val d in if v <=? 72057594037927935 then Err E_SCALE else Ok (v, r2)
        else Err E_SCALE
      end
  end.

(* decodeBytes: the buffer is allocated with the declared length before the Read *)
Definition dec_bytes (st : bool * bool) (r : list byte) : outcome (zb * list byte) :=
  let strict := snd st in
  match dec_compact (fst st) r with
  | Ok (len, r1) =>
    if 4294967295 <? len then Err E_SCALE
    else if len =? 0 then Ok (([], 0), r1)
    else match srd strict len r1 with
         | None => Err E_SCALE
         | Some (d, r2) => Ok ((d, len - lenN d), r2)
         end
  | Err c => Err c
  | Panic => Panic
  | OutOfFuel => OutOfFuel
  end.

(* encodeUint for a Go uint *)
Definition byte_count (n : N) : nat := N.to_nat ((N.size n + 7) / 8).
Definition enc_compact (n : N) : list byte :=
  if n <? 64 then [n2b (n * 4)]
  else if n <? 16384 then le_bytes 2 (n * 4 + 1)
  else if n <? 1073741824 then le_bytes 4 (n * 4 + 2)
  else let nb := byte_count n in n2b (N.of_nat (nb - 4) * 4 + 3) :: le_bytes nb n.
Definition enc_bytes (v : list byte) : list byte := enc_compact (lenN v) ++ v.

(* ------------------------------------------------------------------ variants and header *)
Inductive variant := VLeaf | VBranch | VBranchVal | VLeafHashed | VBranchHashed | VEmpty | VCompact.

Definition v_bits (v : variant) : N :=
  match v with VLeaf => 64 | VBranch => 128 | VBranchVal => 192 | VLeafHashed => 32
             | VBranchHashed => 16 | VEmpty => 0 | VCompact => 1 end.
Definition v_mask (v : variant) : N :=
  match v with VLeaf | VBranch | VBranchVal => 192 | VLeafHashed => 224
             | VBranchHashed => 240 | VEmpty | VCompact => 255 end.
(* partialKeyLengthHeaderMask = ^mask *)
Definition v_pkmask (v : variant) : N := 255 - v_mask v.

Definition variants_ordered : list variant :=
  [VLeaf; VBranch; VBranchVal; VLeafHashed; VBranchHashed; VEmpty; VCompact].

(* decodeHeaderByte: the table is scanned from its last entry *)
Definition decode_header_byte (b : N) : option variant :=
  find (fun v => N.land b (v_mask v) =? v_bits v) (rev variants_ordered).

(* the length continuation loop of decodeHeader (uint16 accumulator) *)
Fixpoint dec_pklen (r : list byte) (acc : N) : outcome (N * list byte) :=
  match r with
  | [] => Err E_EOF
  | b :: r' =>
    let acc' := (acc + b2n b) mod 65536 in
    if acc' <? acc then Err E_KEYBIG
    else if b2n b <? 255 then Ok (acc', r')
    else dec_pklen r' acc'
  end.

Definition decode_header (r : list byte) : outcome (variant * N * list byte) :=
  match r with
  | [] => Err E_EOF
  | b :: r1 =>
    match decode_header_byte (b2n b) with
    | None => Err E_VARIANT
    | Some v =>
      let m := v_pkmask v in
      if m =? 0 then Ok (v, 0, r1)
      else
        let l := N.land (b2n b) m in
        if l <? m then Ok (v, l, r1)
        else match dec_pklen r1 l with
             | Ok (l', r2) => Ok (v, l', r2)
             | Err c => Err c
             | Panic => Panic
             | OutOfFuel => OutOfFuel
             end
    end
  end.

(* encodeHeader: first byte, then the continuation bytes *)
Fixpoint enc_pklen (fuel : nat) (rem : N) : list byte :=
  match fuel with
  | O => []
  | S f => if rem <? 255 then [n2b rem] else n2b 255 :: enc_pklen f (rem - 255)
  end.
Definition encode_header (v : variant) (pkl : N) : list byte :=
  let m := v_pkmask v in
  if pkl <? m then [n2b (N.lor (v_bits v) pkl)]
  else n2b (N.lor (v_bits v) m) :: enc_pklen (S (N.to_nat ((pkl - m) / 255))) (pkl - m).

(* ------------------------------------------------------------------ partial keys *)
(* KeyLEToNibbles *)
Definition nibbles_of_bytes (l : list byte) : list byte :=
  flat_map (fun b => [n2b (b2n b / 16); n2b (b2n b mod 16)]) l.

(* NibblesToKeyLE; with an odd count the first nibble is stored as it is *)
Fixpoint pack_pairs (l : list byte) : list byte :=
  match l with
  | a :: b :: t => n2b (N.lor (N.land (N.shiftl (b2n a) 4) 240) (N.land (b2n b) 15)) :: pack_pairs t
  | _ => []
  end.
Definition nibbles_to_key_le (l : list byte) : list byte :=
  if Nat.even (length l) then pack_pairs l
  else match l with a :: t => a :: pack_pairs t | [] => [] end.

(* decodeKey *)
Definition decode_key (r : list byte) (pkl : N) : outcome (list byte * list byte) :=
  if pkl =? 0 then Ok ([], r)
  else
    let k := pkl / 2 + pkl mod 2 in
    match rd k r with
    | None => Err E_EOF
    | Some (d, r') =>
      if lenN d =? k then Ok (skipn (N.to_nat (pkl mod 2)) (nibbles_of_bytes d), r')
      else Err E_MISMATCH
    end.

(* ------------------------------------------------------------------ decoded nodes (pkg/trie/node) *)
Inductive dval := DVInline (v : zb) | DVHashed (h : list byte).

(* DStub: the child known by its Merkle value only, i.e. the Go node {MerkleValue: hash} *)
Inductive dnode :=
| DStub (mv : zb)
| DLeaf (pk : list byte) (v : dval)
| DBranch (pk : list byte) (v : option dval) (desc : N) (cs : list (option dnode)).

Definition desc_of (n : dnode) : N := match n with DBranch _ _ d _ => d | _ => 0 end.

(* decodeHashedValue: a direct reader.Read of 32 bytes *)
Definition dec_hashed (r : list byte) : outcome (list byte * list byte) :=
  match rd 32 r with
  | None => Err E_STORAGE
  | Some (d, r') => if lenN d <? 32 then Err E_SHORT else Ok (d, r')
  end.

Definition relabel {A} (c : nat) (x : outcome A) : outcome A :=
  match x with Err _ => Err c | y => y end.

Section Decode.
Variable strict : bool * bool.   (* (decodeUint reads, decodeBytes read) reject short reads *)
Variable fixed : bool.

Definition decode_leaf (v : variant) (pkl : N) (r : list byte) : outcome dnode :=
  obind (decode_key r pkl) (fun '(pk, r1) =>
  match v with
  | VLeafHashed => obind (dec_hashed r1) (fun '(h, _) => Ok (DLeaf pk (DVHashed h)))
  | _ => obind (relabel E_STORAGE (dec_bytes strict r1)) (fun '(z, _) => Ok (DLeaf pk (DVInline z)))
  end).

(* the children loop of decodeBranch; [dec] decodes an inlined child from its own reader *)
Fixpoint dec_children (dec : list byte -> outcome (option dnode)) (idx : list N) (bitmap : N)
         (r : list byte) (desc : N) : outcome (list (option dnode) * N) :=
  match idx with
  | [] => Ok ([], desc)
  | i :: rest =>
    if N.testbit bitmap i then
      obind (relabel E_CHILD (dec_bytes strict r)) (fun '(h, r1) =>
      if zb_len h <? 32 then
        match dec (zb_bytes h) with
        | Ok (Some c) =>
          obind (dec_children dec rest bitmap r1 (desc + desc_of c + 1)) (fun '(cs, d) => Ok (Some c :: cs, d))
        | Ok None => if fixed then Err E_CHILD else Panic   (* childNode.Descendants on a nil node *)
        | Err c => Err c
        | Panic => Panic
        | OutOfFuel => OutOfFuel
        end
      else
        obind (dec_children dec rest bitmap r1 (desc + 1)) (fun '(cs, d) => Ok (Some (DStub h) :: cs, d)))
    else
      obind (dec_children dec rest bitmap r desc) (fun '(cs, d) => Ok (None :: cs, d))
  end.

Definition child_indices : list N := [0;1;2;3;4;5;6;7;8;9;10;11;12;13;14;15].

Definition decode_branch (dec : list byte -> outcome (option dnode)) (v : variant) (pkl : N)
           (r : list byte) : outcome dnode :=
  obind (decode_key r pkl) (fun '(pk, r1) =>
  match rd 2 r1 with
  | None => Err E_BITMAP
  | Some (bm, r2) =>           (* a one-byte read leaves the second bitmap byte zero *)
    let bitmap := le_val bm in
    obind (match v with
           | VBranchVal => obind (relabel E_STORAGE (dec_bytes strict r2)) (fun '(z, r3) => Ok (Some (DVInline z), r3))
           | VBranchHashed => obind (dec_hashed r2) (fun '(h, r3) => Ok (Some (DVHashed h), r3))
           | _ => Ok (None, r2)
           end) (fun '(val, r3) =>
    obind (dec_children dec child_indices bitmap r3 0) (fun '(cs, d) =>
    Ok (DBranch pk val d cs)))
  end).

(* node.Decode; None = the nil node of the empty variant *)
Fixpoint decode_f (fuel : nat) (r : list byte) : outcome (option dnode) :=
  match fuel with
  | O => OutOfFuel
  | S f =>
    obind (decode_header r) (fun '(v, pkl, r1) =>
    match v with
    | VEmpty => Ok None
    | VLeaf | VLeafHashed => obind (decode_leaf v pkl r1) (fun n => Ok (Some n))
    | VBranch | VBranchVal | VBranchHashed =>
      obind (decode_branch (decode_f f) v pkl r1) (fun n => Ok (Some n))
    | VCompact => if fixed then Err E_VARIANT else Panic
    end)
  end.

Definition decode (bs : list byte) : outcome (option dnode) := decode_f (S (length bs)) bs.

(* ------------------------------------------------------------------ pkg/trie/triedb/codec *)
Inductive cchild := CInline (d : zb) | CHashed (h : list byte).
Inductive cnode :=
| CEmpty
| CLeaf (pk : list byte) (v : dval)
| CBranch (pk : list byte) (v : option dval) (cs : list (option cchild)).

(* scale.Unmarshal(buffer, &H256): 32 bytes; an all-zero array leaves the H256 string empty *)
Definition h256_of (b : list byte) : list byte :=
  if forallb (fun x => b2n x =? 0) b then [] else b.

Fixpoint cdec_children (idx : list N) (bitmap : N) (r : list byte) : outcome (list (option cchild)) :=
  match idx with
  | [] => Ok []
  | i :: rest =>
    if N.testbit bitmap i then
      obind (relabel E_CHILD (dec_bytes strict r)) (fun '(h, r1) =>
      obind (cdec_children rest bitmap r1) (fun cs =>
      Ok (Some (if zb_len h <? 32 then CInline h else CHashed (h256_of (zb_take 32 h))) :: cs)))
    else obind (cdec_children rest bitmap r) (fun cs => Ok (None :: cs))
  end.

Definition cdecode (r : list byte) : outcome cnode :=
  obind (decode_header r) (fun '(v, pkl, r1) =>
  match v with
  | VEmpty => Ok CEmpty
  | _ =>
    obind (decode_key r1 pkl) (fun '(pk, r2) =>
    match v with
    | VLeaf => obind (relabel E_STORAGE (dec_bytes strict r2)) (fun '(z, _) => Ok (CLeaf pk (DVInline z)))
    | VLeafHashed => obind (dec_hashed r2) (fun '(h, _) => Ok (CLeaf pk (DVHashed (h256_of h))))
    | VBranch | VBranchVal | VBranchHashed =>
      (* binary.Read of a uint16 is io.ReadFull: one byte is an error here *)
      match rd 2 r2 with
      | None => Err E_BITMAP
      | Some (bm, r3) =>
        if lenN bm <? 2 then Err E_BITMAP else
        let bitmap := le_val bm in
        obind (match v with
               | VBranchVal => obind (relabel E_STORAGE (dec_bytes strict r3)) (fun '(z, r4) => Ok (Some (DVInline z), r4))
               | VBranchHashed => obind (dec_hashed r3) (fun '(h, r4) => Ok (Some (DVHashed (h256_of h)), r4))
               | _ => Ok (None, r3)
               end) (fun '(val, r4) =>
        obind (cdec_children child_indices bitmap r4) (fun cs => Ok (CBranch pk val cs)))
      end
    | _ => if fixed then Err E_VARIANT else Panic
    end)
  end).

End Decode.

(* ------------------------------------------------------------------ in-memory nodes and Encode *)
(* the fields of node.Node that Encode reads; cs = [] is Children == nil (a leaf) *)
Inductive tnode := TN (pk : list byte) (sv : option (list byte)) (mbh : bool) (cs : list (option tnode)).

Definition t_pk (n : tnode) := match n with TN pk _ _ _ => pk end.
Definition t_sv (n : tnode) := match n with TN _ sv _ _ => sv end.
Definition t_mbh (n : tnode) := match n with TN _ _ m _ => m end.
Definition t_cs (n : tnode) := match n with TN _ _ _ cs => cs end.
Definition is_branch (n : tnode) : bool := match t_cs n with [] => false | _ => true end.

Definition variant_of (isbranch : bool) (sv : option (list byte)) (mbh : bool) : variant :=
  if negb isbranch then (if mbh then VLeafHashed else VLeaf)
  else match sv with
       | None => VBranch
       | Some _ => if mbh then VBranchHashed else VBranchVal
       end.

(* ChildrenBitmap *)
Fixpoint bitmap_of {A} (cs : list (option A)) (i : N) : N :=
  match cs with
  | [] => 0
  | None :: t => bitmap_of t (i + 1)
  | Some _ :: t => N.lor (N.shiftl 1 i) (bitmap_of t (i + 1))
  end.

Section Encode.
Variable H : list byte -> list byte.     (* Blake2b-256 *)

(* MerkleValue of a non-root node *)
Definition merkle_value (enc : list byte) : list byte :=
  if (length enc <? 32)%nat then enc else H enc.

Fixpoint encode (n : tnode) : list byte :=
  match n with
  | TN pk sv mbh cs =>
    let isb := match cs with [] => false | _ => true end in
    encode_header (variant_of isb sv mbh) (lenN pk)
    ++ nibbles_to_key_le pk
    ++ (if isb then le_bytes 2 (bitmap_of cs 0) else [])
    ++ (match sv with
        | None => []
        | Some v => if mbh then H v else enc_bytes v
        end)
    ++ flat_map (fun oc => match oc with
                           | None => []
                           | Some c => enc_bytes (merkle_value (encode c))
                           end) cs
  end.

Definition root_hash (n : tnode) : list byte := H (encode n).

End Encode.
