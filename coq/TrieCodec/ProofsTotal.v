(* TrieCodec/ProofsTotal.v — the repaired decoders return a node or an error on every byte
   string: no panic, and the recursion into inlined children terminates (the fuel
   S (length bs) given by [decode] is never exhausted).

   Termination argument.  An inlined child is decoded from a fresh reader over a byte string of
   declared length < 32 that may be longer than what was left of the parent's input (short reads
   are zero-filled), so "the input gets shorter" is false.  What decreases is [mu]: the length
   of the input up to its last non-zero byte.  The child's bytes are a piece of the parent's
   remaining input followed by zeros, and the parent's header byte is non-zero. *)
From Common Require Import Bytes Outcome.
From Coq Require Import Strings.Byte ZifyN ZifyNat ZifyBool.
From TrieCodec Require Import Codec View ProofsBasic ProofsHeader.
Local Open Scope N_scope.
Ltac Zify.zify_post_hook ::= Z.div_mod_to_equations.

(* ------------------------------------------------------------------ mu *)
Fixpoint mu (l : list byte) : nat :=
  match l with
  | [] => O
  | b :: t => match mu t with
              | O => if b2n b =? 0 then O else 1%nat
              | S m => S (S m)
              end
  end.

Lemma mu_cons_le b t : (mu (b :: t) <= S (mu t))%nat.
Proof. cbn [mu]. destruct (mu t); [destruct (b2n b =? 0)|]; lia. Qed.
Lemma mu_cons_ge b t : (mu t <= mu (b :: t))%nat.
Proof. cbn [mu]. destruct (mu t); [destruct (b2n b =? 0)|]; lia. Qed.
Lemma mu_cons_nz b t : b2n b <> 0 -> mu (b :: t) = S (mu t).
Proof. intro Hb. cbn [mu]. destruct (mu t); [|reflexivity]. destruct (N.eqb_spec (b2n b) 0); [contradiction|reflexivity]. Qed.
Lemma mu_le_length l : (mu l <= length l)%nat.
Proof. induction l as [|b t IH]; [cbn; lia|]. pose proof (mu_cons_le b t). cbn [length]. lia. Qed.

Lemma mu_zeros k : mu (zeros k) = O.
Proof. induction k as [|k IH]; [reflexivity|]. unfold zeros in *. cbn [repeat mu]. rewrite IH. reflexivity. Qed.

Lemma mu_app_zeros d k : mu (d ++ zeros k) = mu d.
Proof.
  induction d as [|b t IH]; cbn [app]; [apply mu_zeros|]. cbn [mu]. now rewrite IH.
Qed.

Lemma mu_cons_mono b t t' : (mu t' <= mu t)%nat -> (mu (b :: t') <= mu (b :: t))%nat.
Proof. intro Hle. cbn [mu]. destruct (mu t'), (mu t); try destruct (b2n b =? 0); lia. Qed.

Lemma mu_takeN k l : (mu (takeN k l) <= mu l)%nat.
Proof.
  revert k; induction l as [|x t IH]; intro k; [cbn; lia|].
  cbn [takeN]. destruct (k =? 0); [cbn [mu]; lia|]. apply mu_cons_mono, IH.
Qed.

(* suffixes *)
Definition suffix (r' r : list byte) : Prop := exists p, r = p ++ r'.
Lemma suffix_refl r : suffix r r.
Proof. now exists []. Qed.
Lemma suffix_trans a b c : suffix a b -> suffix b c -> suffix a c.
Proof. intros [p ->] [q ->]. exists (q ++ p). now rewrite app_assoc. Qed.
Lemma suffix_cons x r : suffix r (x :: r).
Proof. now exists [x]. Qed.
Lemma suffix_dropN k r : suffix (dropN k r) r.
Proof. exists (takeN k r). symmetry. apply takeN_dropN. Qed.
Lemma mu_suffix r' r : suffix r' r -> (mu r' <= mu r)%nat.
Proof.
  intros [p ->]. induction p as [|x p IH]; cbn [app]; [lia|].
  pose proof (mu_cons_ge x (p ++ r')). lia.
Qed.

(* ------------------------------------------------------------------ what the readers return *)
Lemma rd_suffix k r d r' : rd k r = Some (d, r') -> suffix r' r /\ d = takeN k r.
Proof.
  unfold rd. destruct r as [|x t]; [discriminate|]. intro E. injection E as E1 E2. subst d r'.
  split; [exact (suffix_dropN k (x :: t))|reflexivity].
Qed.
Lemma srd_suffix s k r d r' : srd s k r = Some (d, r') -> suffix r' r /\ d = takeN k r.
Proof.
  unfold srd. destruct (rd k r) as [[d0 r0]|] eqn:E; [|discriminate].
  destruct (s && (lenN d0 <? k)); [discriminate|]. intro E2. inversion E2; subst. now apply rd_suffix.
Qed.

Lemma dec_compact_suffix s r n r' : dec_compact s r = Ok (n, r') -> suffix r' r.
Proof.
  unfold dec_compact. destruct r as [|p r1]; [discriminate|].
  destruct (b2n p mod 4 =? 0).
  { intro E; inversion E; subst. apply suffix_cons. }
  destruct (b2n p mod 4 =? 1).
  { destruct r1 as [|b r2]; [discriminate|]. destruct (_ <=? 63); [discriminate|].
    intro E; inversion E; subst. eapply suffix_trans; apply suffix_cons. }
  destruct (b2n p mod 4 =? 2).
  { destruct (srd s 3 r1) as [[d r2]|] eqn:E1; [|discriminate].
    destruct (_ <=? 16383); [discriminate|]. intro E; inversion E; subst.
    apply srd_suffix in E1 as [S1 _]. eapply suffix_trans; [exact S1|apply suffix_cons]. }
  cbv zeta. destruct (srd s (b2n p / 4 + 4) r1) as [[d r2]|] eqn:E1; [|discriminate].
  apply srd_suffix in E1 as [S1 _].
  destruct (_ =? 4).
  { destruct (_ <=? 1073741823); [discriminate|]. intro E; inversion E; subst.
    eapply suffix_trans; [exact S1|apply suffix_cons]. }
  destruct (_ =? 8); [|discriminate].
  destruct (_ <=? 72057594037927935); [discriminate|]. intro E; inversion E; subst.
  eapply suffix_trans; [exact S1|apply suffix_cons].
Qed.

Lemma dec_bytes_suffix st r z r' : dec_bytes st r = Ok (z, r') ->
  suffix r' r /\ (mu (zb_bytes z) <= mu r)%nat.
Proof.
  unfold dec_bytes. destruct (dec_compact (fst st) r) as [[len r1]| | |] eqn:E1; try discriminate.
  apply dec_compact_suffix in E1.
  destruct (4294967295 <? len); [discriminate|].
  destruct (len =? 0).
  { intro E; inversion E; subst. split; [assumption|]. cbn. lia. }
  destruct (srd (snd st) len r1) as [[d r2]|] eqn:E2; [|discriminate].
  apply srd_suffix in E2 as [S2 ->]. intro E; inversion E; subst. split.
  - eapply suffix_trans; eassumption.
  - unfold zb_bytes. cbn [fst snd]. rewrite mu_app_zeros.
    pose proof (mu_takeN len r1). pose proof (mu_suffix _ _ E1). lia.
Qed.

Lemma dec_hashed_suffix r h r' : dec_hashed r = Ok (h, r') -> suffix r' r.
Proof.
  unfold dec_hashed. destruct (rd 32 r) as [[d r0]|] eqn:E1; [|discriminate].
  destruct (lenN d <? 32); [discriminate|]. intro E; inversion E; subst. now apply rd_suffix in E1.
Qed.

Lemma dec_pklen_suffix r : forall acc l r', dec_pklen r acc = Ok (l, r') -> suffix r' r.
Proof.
  induction r as [|b t IH]; intros acc l r'; cbn [dec_pklen]; [discriminate|].
  destruct (_ <? acc); [discriminate|]. destruct (b2n b <? 255).
  - intro E; inversion E; subst. apply suffix_cons.
  - intro E. apply IH in E. eapply suffix_trans; [exact E|apply suffix_cons].
Qed.

Lemma decode_header_inv r v l r' : decode_header r = Ok (v, l, r') ->
  exists b r0, r = b :: r0 /\ suffix r' r0 /\ decode_header_byte (b2n b) = Some v.
Proof.
  unfold decode_header. destruct r as [|b r0]; [discriminate|].
  destruct (decode_header_byte (b2n b)) as [v0|] eqn:Ev; [|discriminate].
  destruct (v_pkmask v0 =? 0).
  { intro E; inversion E; subst. exists b, r'. auto using suffix_refl. }
  destruct (_ <? v_pkmask v0).
  { intro E; inversion E; subst. exists b, r'. auto using suffix_refl. }
  destruct (dec_pklen r0 _) as [[l' r2]| | |] eqn:E2; try discriminate.
  intro E; inversion E; subst. apply dec_pklen_suffix in E2. exists b, r0. auto.
Qed.

Lemma decode_key_suffix r l pk r' : decode_key r l = Ok (pk, r') -> suffix r' r.
Proof.
  unfold decode_key. destruct (l =? 0).
  { intro E; inversion E; subst. apply suffix_refl. }
  destruct (rd _ r) as [[d r0]|] eqn:E1; [|discriminate].
  destruct (lenN d =? _); [|discriminate]. intro E; inversion E; subst. now apply rd_suffix in E1.
Qed.

(* header byte 0 is the empty variant only *)
Lemma header_byte_zero v : decode_header_byte 0 = Some v -> v = VEmpty.
Proof. vm_compute. congruence. Qed.

(* ------------------------------------------------------------------ okerr of the pieces *)
Lemma dec_pklen_okerr r : forall acc, okerr (dec_pklen r acc).
Proof.
  induction r as [|b t IH]; intro acc; cbn [dec_pklen]; [exact I|].
  destruct (_ <? acc); [exact I|]. destruct (b2n b <? 255); [exact I|apply IH].
Qed.
Lemma decode_header_okerr r : okerr (decode_header r).
Proof.
  unfold decode_header. destruct r as [|b r0]; [exact I|].
  destruct (decode_header_byte (b2n b)); [|exact I].
  destruct (_ =? 0); [exact I|]. destruct (_ <? _); [exact I|].
  pose proof (dec_pklen_okerr r0 (N.land (b2n b) (v_pkmask v))) as Hk.
  destruct (dec_pklen r0 _) as [[? ?]| | |]; cbn in *; auto.
Qed.
Lemma decode_key_okerr r l : okerr (decode_key r l).
Proof.
  unfold decode_key. destruct (l =? 0); [exact I|].
  destruct (rd _ r) as [[d r0]|]; [|exact I]. destruct (_ =? _); exact I.
Qed.
Lemma dec_hashed_okerr r : okerr (dec_hashed r).
Proof. unfold dec_hashed. destruct (rd 32 r) as [[d r0]|]; [|exact I]. destruct (_ <? 32); exact I. Qed.

Section Total.
Variable st : bool * bool.

Lemma decode_leaf_okerr v l r : okerr (decode_leaf st v l r).
Proof.
  unfold decode_leaf. apply okerr_obind; [apply decode_key_okerr|]. intros [pk r1] _.
  destruct v; try (apply okerr_obind; [apply okerr_relabel, dec_bytes_okerr|intros [z ?] _; exact I]).
  apply okerr_obind; [apply dec_hashed_okerr|intros [h ?] _; exact I].
Qed.

(* the children loop, given that inlined children below the bound decode to Ok or Err *)
Lemma dec_children_okerr (dec : list byte -> outcome (option dnode)) bound :
  (forall c, (mu c <= bound)%nat -> okerr (dec c)) ->
  forall idx bitmap r desc, (mu r <= bound)%nat ->
  okerr (dec_children st true dec idx bitmap r desc).
Proof.
  intros Hdec idx. induction idx as [|i rest IH]; intros bitmap r desc Hr; cbn [dec_children]; [exact I|].
  destruct (N.testbit bitmap i).
  - apply okerr_obind; [apply okerr_relabel, dec_bytes_okerr|].
    intros [h r1] E. unfold relabel in E.
    destruct (dec_bytes st r) as [[h0 r0]| | |] eqn:Eb; try discriminate. inversion E; subst.
    apply dec_bytes_suffix in Eb as [Sf Hm]. pose proof (mu_suffix _ _ Sf) as Hm1.
    destruct (zb_len h <? 32).
    + specialize (Hdec (zb_bytes h) ltac:(lia)).
      destruct (dec (zb_bytes h)) as [[c|]| | |]; cbn in Hdec; try contradiction; try exact I.
      apply okerr_obind; [apply IH; lia|]. intros [cs d] _. exact I.
    + apply okerr_obind; [apply IH; lia|]. intros [cs d] _. exact I.
  - apply okerr_obind; [apply IH; lia|]. intros [cs d] _. exact I.
Qed.

Lemma decode_branch_okerr (dec : list byte -> outcome (option dnode)) bound v l r :
  (forall c, (mu c <= bound)%nat -> okerr (dec c)) -> (mu r <= bound)%nat ->
  okerr (decode_branch st true dec v l r).
Proof.
  intros Hdec Hr. unfold decode_branch.
  apply okerr_obind; [apply decode_key_okerr|]. intros [pk r1] E1.
  apply decode_key_suffix, mu_suffix in E1.
  destruct (rd 2 r1) as [[bm r2]|] eqn:E2; [|exact I].
  apply rd_suffix in E2 as [S2 _]. apply mu_suffix in S2.
  apply okerr_obind.
  { destruct v; try exact I.
    - apply okerr_obind; [apply okerr_relabel, dec_bytes_okerr|intros [z ?] _; exact I].
    - apply okerr_obind; [apply dec_hashed_okerr|intros [h ?] _; exact I]. }
  intros [val r3] E3.
  assert (S3 : (mu r3 <= mu r2)%nat).
  { destruct v; try (inversion E3; subst; lia).
    - destruct (dec_bytes st r2) as [[z r4]| | |] eqn:Eb; cbn in E3; try discriminate.
      inversion E3; subst. apply dec_bytes_suffix in Eb as [Sf _]. now apply mu_suffix.
    - destruct (dec_hashed r2) as [[h r4]| | |] eqn:Eb; cbn in E3; try discriminate.
      inversion E3; subst. apply dec_hashed_suffix in Eb. now apply mu_suffix. }
  apply okerr_obind; [eapply dec_children_okerr; [exact Hdec|lia]|].
  intros [cs d] _. exact I.
Qed.

Theorem decode_f_okerr : forall fuel r, (mu r < fuel)%nat -> okerr (decode_f st true fuel r).
Proof.
  induction fuel as [|f IH]; intros r Hr; [lia|].
  cbn [decode_f]. apply okerr_obind; [apply decode_header_okerr|].
  intros [[v l] r1] E. apply decode_header_inv in E as (b & r0 & -> & Sf & Hb).
  destruct v; try exact I.
  - apply okerr_obind; [apply decode_leaf_okerr|intros; exact I].
  - apply okerr_obind; [|intros; exact I].
    assert (Hnz : b2n b <> 0) by (intro Z; rewrite Z in Hb; apply header_byte_zero in Hb; discriminate).
    rewrite (mu_cons_nz _ _ Hnz) in Hr. apply mu_suffix in Sf.
    apply (decode_branch_okerr _ (mu r1)); [|lia]. intros c Hc. apply IH. lia.
  - apply okerr_obind; [|intros; exact I].
    assert (Hnz : b2n b <> 0) by (intro Z; rewrite Z in Hb; apply header_byte_zero in Hb; discriminate).
    rewrite (mu_cons_nz _ _ Hnz) in Hr. apply mu_suffix in Sf.
    apply (decode_branch_okerr _ (mu r1)); [|lia]. intros c Hc. apply IH. lia.
  - apply okerr_obind; [apply decode_leaf_okerr|intros; exact I].
  - apply okerr_obind; [|intros; exact I].
    assert (Hnz : b2n b <> 0) by (intro Z; rewrite Z in Hb; apply header_byte_zero in Hb; discriminate).
    rewrite (mu_cons_nz _ _ Hnz) in Hr. apply mu_suffix in Sf.
    apply (decode_branch_okerr _ (mu r1)); [|lia]. intros c Hc. apply IH. lia.
Qed.

Theorem decode_total bs : okerr (decode st true bs).
Proof. unfold decode. apply decode_f_okerr. pose proof (mu_le_length bs). lia. Qed.

(* triedb/codec.Decode has no recursion *)
Lemma cdec_children_okerr idx : forall bitmap r, okerr (cdec_children st idx bitmap r).
Proof.
  induction idx as [|i rest IH]; intros bitmap r; cbn [cdec_children]; [exact I|].
  destruct (N.testbit bitmap i).
  - apply okerr_obind; [apply okerr_relabel, dec_bytes_okerr|]. intros [h r1] _.
    apply okerr_obind; [apply IH|intros; exact I].
  - apply okerr_obind; [apply IH|intros; exact I].
Qed.

Theorem cdecode_total bs : okerr (cdecode st true bs).
Proof.
  unfold cdecode. apply okerr_obind; [apply decode_header_okerr|].
  intros [[v l] r1] _.
  destruct v; try exact I;
    (apply okerr_obind; [apply decode_key_okerr|]; intros [pk r2] _);
    try (apply okerr_obind; [apply okerr_relabel, dec_bytes_okerr|intros [z ?] _; exact I]);
    try (apply okerr_obind; [apply dec_hashed_okerr|intros [h ?] _; exact I]);
    try exact I;
    (destruct (rd 2 r2) as [[bm r3]|]; [|exact I]; destruct (lenN bm <? 2); [exact I|];
     apply okerr_obind;
     [ try exact I;
       try (apply okerr_obind; [apply okerr_relabel, dec_bytes_okerr|intros [z ?] _; exact I]);
       try (apply okerr_obind; [apply dec_hashed_okerr|intros [h ?] _; exact I])
     | intros [val r4] _; apply okerr_obind; [apply cdec_children_okerr|intros; exact I] ]).
Qed.

End Total.
