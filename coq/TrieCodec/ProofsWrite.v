(* TrieCodec/ProofsWrite.v — WriteDirty establishes the bindings a trie needs, and keeps the
   bindings of tries written before, when the hash does not collide on the strings involved. *)
From Common Require Import Bytes Outcome.
From Coq Require Import Strings.Byte ZifyN ZifyNat ZifyBool.
From TrieCodec Require Import Codec View Db ProofsBasic ProofsHeader ProofsDecode ProofsDb.
Local Open Scope N_scope.

(* ------------------------------------------------------------------ induction on wnode *)
Definition wopt_all (P : wnode -> Prop) (oc : option wnode) : Prop :=
  match oc with Some c => P c | None => True end.

Section WInd.
  Variable P : wnode -> Prop.
  Hypothesis HN : forall pk sv mbh dirty cs, Forall (wopt_all P) cs -> P (WN pk sv mbh dirty cs).
  Fixpoint wnode_ind' (t : wnode) : P t :=
    match t with
    | WN pk sv mbh dirty cs =>
      HN pk sv mbh dirty cs
         ((fix go (l : list (option wnode)) : Forall (wopt_all P) l :=
             match l with
             | [] => Forall_nil _
             | oc :: r =>
               @Forall_cons _ (wopt_all P) oc r
                 (match oc as o return wopt_all P o with
                  | Some c => wnode_ind' c
                  | None => I
                  end) (go r)
             end) cs)
    end.
End WInd.

(* ------------------------------------------------------------------ databases as lists of puts *)
Lemma db_get_put d k v k' : db_get (db_put d k v) k' = if bytes_eqb k k' then Some v else db_get d k'.
Proof. reflexivity. Qed.

Lemma db_puts_app d a b : db_puts d (a ++ b) = db_puts (db_puts d a) b.
Proof. unfold db_puts. apply fold_left_app. Qed.

Definition has_key (k : list byte) (l : list binding) : bool :=
  existsb (fun kc => bytes_eqb (fst kc) k) l.

Lemma db_puts_get_none d P k : has_key k P = false -> db_get (db_puts d P) k = db_get d k.
Proof.
  revert d; induction P as [|[k' v'] P IH]; intros d Hk; [reflexivity|].
  cbn in Hk. apply orb_false_elim in Hk as [E Hk].
  cbn [db_puts fold_left fst snd]. fold (db_puts (db_put d k' v') P). rewrite IH by assumption.
  rewrite db_get_put, E. reflexivity.
Qed.

Lemma db_puts_get_in d P k c :
  In (k, c) P -> (forall c', In (k, c') P -> c' = c) -> db_get (db_puts d P) k = Some c.
Proof.
  revert d. induction P as [|[k' v'] P IH] using rev_ind; intros d Hin Hu; [contradiction|].
  rewrite db_puts_app. cbn [db_puts fold_left fst snd]. rewrite db_get_put.
  destruct (bytes_eqb_spec k' k) as [->|Hne].
  - f_equal. apply Hu. apply in_or_app. right. now left.
  - apply in_app_or in Hin as [Hin|[Hin|[]]]; [|congruence].
    apply IH; [assumption|]. intros c' Hc'. apply Hu. apply in_or_app. now left.
Qed.

Lemma has_key_in k l : has_key k l = true -> exists c, In (k, c) l.
Proof.
  unfold has_key. rewrite existsb_exists. intros [[k' c] [Hin E]]. cbn in E.
  apply bytes_eqb_eq in E. subst. now exists c.
Qed.

Definition compat (l : list binding) : Prop :=
  forall k c1 c2, In (k, c1) l -> In (k, c2) l -> c1 = c2.

Theorem puts_has d P C N :
  has d C -> incl N (P ++ C) -> compat (P ++ C) -> has (db_puts d P) N.
Proof.
  intros Hd Hi Hc. unfold has. apply Forall_forall. intros [k c] Hin. cbn [fst snd].
  specialize (Hi _ Hin). apply in_app_or in Hi as [HP|HC].
  - apply db_puts_get_in; [assumption|]. intros c' Hc'.
    apply (Hc k); apply in_or_app; now left.
  - destruct (has_key k P) eqn:Ek.
    + destruct (has_key_in _ _ Ek) as [c' Hc'].
      assert (c' = c) by (apply (Hc k); apply in_or_app; [now left|now right]). subst c'.
      apply db_puts_get_in; [assumption|]. intros c'' Hc''. apply (Hc k); apply in_or_app; now left.
    + rewrite db_puts_get_none by assumption.
      unfold has in Hd. rewrite Forall_forall in Hd. exact (Hd _ HC).
Qed.

(* ------------------------------------------------------------------ keys are hashes *)
Section Write.
Variable H : list byte -> list byte.
Hypothesis Hlen : forall x, length (H x) = 32%nat.

Definition H_inj_on (S : list (list byte)) : Prop :=
  forall x y, In x S -> In y S -> H x = H y -> x = y.

Definition keyed (b : binding) : Prop :=
  (exists pk v, b = (pk ++ H v, v)) \/ (exists e, b = (H e, e)).

Lemma app_inv_len {A} (a a' b b' : list A) : length b = length b' -> a ++ b = a' ++ b' -> a = a' /\ b = b'.
Proof.
  intros Hl E. assert (length a = length a').
  { apply (f_equal (@length A)) in E. rewrite !app_length in E. lia. }
  revert a' E H0. induction a as [|x a IH]; intros [|y a'] E Hla; try discriminate.
  - now split.
  - cbn in E. inversion E; subst. destruct (IH a' H2 ltac:(cbn in Hla; lia)) as [-> ->]. now split.
Qed.

Theorem keyed_compat l : Forall keyed l -> H_inj_on (map snd l) -> compat l.
Proof.
  intros Hk Hinj k c1 c2 H1 H2.
  rewrite Forall_forall in Hk.
  pose proof (Hk _ H1) as K1. pose proof (Hk _ H2) as K2.
  assert (I1 : In c1 (map snd l)) by (apply in_map_iff; now exists (k, c1)).
  assert (I2 : In c2 (map snd l)) by (apply in_map_iff; now exists (k, c2)).
  destruct K1 as [(pk1 & v1 & E1)|(e1 & E1)], K2 as [(pk2 & v2 & E2)|(e2 & E2)];
    injection E1 as Ek1 Ec1; injection E2 as Ek2 Ec2; subst v1 || subst e1; subst v2 || subst e2.
  - destruct (app_inv_len pk1 pk2 (H c1) (H c2)) as [_ Hh]; [now rewrite !Hlen|congruence|].
    now apply Hinj.
  - destruct (app_inv_len pk1 [] (H c1) (H c2)) as [_ Hh]; [now rewrite !Hlen|cbn; congruence|].
    now apply Hinj.
  - destruct (app_inv_len [] pk2 (H c1) (H c2)) as [_ Hh]; [now rewrite !Hlen|cbn; congruence|].
    now apply Hinj.
  - apply Hinj; [assumption|assumption|congruence].
Qed.

(* ------------------------------------------------------------------ what WriteDirty leaves to the past *)
Definition erase_opt (oc : option wnode) : option tnode :=
  match oc with None => None | Some c => Some (erase c) end.

Lemma erase_unfold pk sv mbh dirty cs :
  erase (WN pk sv mbh dirty cs) = TN pk sv mbh (map erase_opt cs).
Proof. reflexivity. Qed.

Definition small (is_root : bool) (w : wnode) : bool :=
  negb is_root && (length (encode H (erase w)) <? 32)%nat.

(* the bindings of the clean subtrees (and of what lies below a dirty inlined node): WriteDirty
   does not write them, they must be in the database already *)
Fixpoint needs_clean (is_root : bool) (w : wnode) : list binding :=
  match w with
  | WN pk sv mbh dirty cs =>
    if negb dirty then needs H is_root (erase w)
    else if small is_root w then
      flat_map (fun oc => match oc with None => [] | Some c => needs H false (erase c) end) cs
    else flat_map (fun oc => match oc with None => [] | Some c => needs_clean false c end) cs
  end.

Lemma wd_puts_unfold r pk sv mbh dirty cs :
  wd_puts H r (WN pk sv mbh dirty cs) =
  if negb dirty then []
  else (match sv with Some v => if mbh then [(pk ++ H v, v)] else [] | None => if mbh then [(pk ++ H [], [])] else [] end)
       ++ (if small r (WN pk sv mbh dirty cs) then []
           else (H (encode H (erase (WN pk sv mbh dirty cs))), encode H (erase (WN pk sv mbh dirty cs)))
                :: flat_map (fun oc => match oc with None => [] | Some c => wd_puts H false c end) cs).
Proof. reflexivity. Qed.

Lemma flat_map_map {A B C} (g : A -> B) (f : B -> list C) l :
  flat_map f (map g l) = flat_map (fun x => f (g x)) l.
Proof. induction l as [|x l IH]; [reflexivity|]. cbn. now rewrite IH. Qed.

Lemma needs_erase r pk sv mbh dirty cs :
  needs H r (erase (WN pk sv mbh dirty cs)) =
  (match sv with Some v => if mbh then [(pk ++ H v, v)] else [] | None => [] end)
  ++ (if r || negb (length (encode H (erase (WN pk sv mbh dirty cs))) <? 32)%nat
      then [(H (encode H (erase (WN pk sv mbh dirty cs))), encode H (erase (WN pk sv mbh dirty cs)))] else [])
  ++ flat_map (fun oc => match oc with None => [] | Some c => needs H false (erase c) end) cs.
Proof.
  rewrite (erase_unfold pk sv mbh dirty cs). rewrite needs_unfold.
  rewrite flat_map_map. do 2 f_equal. apply flat_map_ext. now intros [c|].
Qed.

Theorem needs_covered : forall w r, incl (needs H r (erase w)) (wd_puts H r w ++ needs_clean r w).
Proof.
  induction w as [pk sv mbh dirty cs IH] using wnode_ind'. intro r.
  rewrite wd_puts_unfold. cbn [needs_clean]. destruct dirty; cbn [negb].
  2:{ cbn [app]. apply incl_refl. }
  rewrite needs_erase. unfold small at 1 2. fold (small r (WN pk sv mbh true cs)).
  destruct (small r (WN pk sv mbh true cs)) eqn:Es.
  - unfold small in Es. apply andb_prop in Es as [Er Esz]. destruct r; [discriminate|].
    cbn [orb]. rewrite Esz. cbn [negb app]. rewrite app_nil_r.
    intros x Hx. apply in_app_or in Hx as [Hx|Hx]; apply in_or_app; [left|now right].
    destruct sv; [assumption|contradiction].
  - assert (Hc : r || negb (length (encode H (erase (WN pk sv mbh true cs))) <? 32)%nat = true).
    { unfold small in Es. destruct r; [reflexivity|]. cbn in Es |- *. now rewrite Es. }
    rewrite Hc. intros x Hx.
    apply in_app_or in Hx as [Hx|Hx];
      [apply in_or_app; left; apply in_or_app; left; destruct sv; [assumption|contradiction]|].
    apply in_app_or in Hx as [Hx|Hx].
    + destruct Hx as [<-|[]]. apply in_or_app; left. apply in_or_app; right. now left.
    + apply in_flat_map in Hx as ([c|] & Hin & Hx); [|contradiction].
      rewrite Forall_forall in IH. specialize (IH _ Hin false _ Hx). cbn in IH.
      apply in_app_or in IH as [Hp|Hcl].
      * apply in_or_app; left. apply in_or_app; right. right.
        apply in_flat_map. exists (Some c). auto.
      * apply in_or_app; right. apply in_flat_map. exists (Some c). auto.
Qed.

(* all keys are hashes or partial key ++ hash *)
Lemma needs_keyed : forall t r, Forall keyed (needs H r t).
Proof.
  induction t as [pk sv mbh cs IH] using tnode_ind'. intro r. rewrite needs_unfold.
  apply Forall_app; split; [|apply Forall_app; split].
  - destruct sv as [v|]; [|constructor]. destruct mbh; constructor; [|constructor].
    left. now exists pk, v.
  - destruct (_ || _); constructor; [|constructor]. right. eexists. reflexivity.
  - apply Forall_forall. intros x Hx. apply in_flat_map in Hx as ([c|] & Hin & Hx); [|contradiction].
    rewrite Forall_forall in IH. specialize (IH _ Hin false). cbn in IH.
    rewrite Forall_forall in IH. auto.
Qed.

Lemma wd_puts_keyed : forall w r, Forall keyed (wd_puts H r w).
Proof.
  induction w as [pk sv mbh dirty cs IH] using wnode_ind'. intro r. rewrite wd_puts_unfold.
  destruct dirty; cbn [negb]; [|constructor].
  apply Forall_app; split.
  - destruct sv as [v|]; destruct mbh; try (constructor; fail);
      (constructor; [|constructor]); left; [now exists pk, v|now exists pk, []].
  - destruct (small r _); constructor.
    + right. eexists. reflexivity.
    + apply Forall_forall. intros x Hx. apply in_flat_map in Hx as ([c|] & Hin & Hx); [|contradiction].
      rewrite Forall_forall in IH. specialize (IH _ Hin false). cbn in IH.
      rewrite Forall_forall in IH. auto.
Qed.

Lemma needs_clean_keyed : forall w r, Forall keyed (needs_clean r w).
Proof.
  induction w as [pk sv mbh dirty cs IH] using wnode_ind'. intro r. cbn [needs_clean].
  destruct dirty; cbn [negb]; [|apply needs_keyed].
  destruct (small r _); apply Forall_forall; intros x Hx;
    apply in_flat_map in Hx as ([c|] & Hin & Hx); try contradiction.
  - pose proof (needs_keyed (erase c) false) as K. rewrite Forall_forall in K. auto.
  - rewrite Forall_forall in IH. specialize (IH _ Hin false). cbn in IH.
    rewrite Forall_forall in IH. auto.
Qed.

(* WriteDirty of one trie: if what it skips is in the database and the hash does not collide on the
   strings written and skipped, afterwards the database has everything the trie needs *)
Theorem write_dirty_node_has d r w :
  has d (needs_clean r w) ->
  H_inj_on (map snd (wd_puts H r w ++ needs_clean r w)) ->
  has (fst (write_dirty_node H r d w)) (needs H r (erase w)).
Proof.
  intros Hd Hinj. cbn [write_dirty_node fst].
  apply (puts_has d (wd_puts H r w) (needs_clean r w)); [assumption|apply needs_covered|].
  apply keyed_compat; [|assumption].
  apply Forall_app; split; [apply wd_puts_keyed|apply needs_clean_keyed].
Qed.

(* ... and what was readable before stays readable *)
Theorem puts_preserve d P N :
  has d N -> Forall keyed P -> Forall keyed N -> H_inj_on (map snd (P ++ N)) ->
  has (db_puts d P) N.
Proof.
  intros Hd KP KN Hinj. apply (puts_has d P N N); [assumption|apply incl_appr, incl_refl|].
  apply keyed_compat; [apply Forall_app; now split|assumption].
Qed.

End Write.
