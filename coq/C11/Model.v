(* C11/Model.v — entry points of the C11 check (definitions only).
   The model itself is the shared library Scale: Scale/Types.v (universe), Scale/Spec.v
   (spec_encode, from the specification), Scale/Codec.v (encode / decode mirroring pkg/scale),
   Scale/FieldOrder.v (fieldScaleIndices). *)
From Common Require Import Bytes Outcome.
From Scale Require Import Compact Types Spec Codec FieldOrder.
Local Open Scope N_scope.

(* decidable equality of values *)
Fixpoint value_eqb (a b : value) {struct a} : bool :=
  match a, b with
  | VN x, VN y => x =? y
  | VZ x, VZ y => (x =? y)%Z
  | VBool x, VBool y => Bool.eqb x y
  | VBytes x, VBytes y => bytes_eqb x y
  | VNone, VNone => true
  | VSome x, VSome y => value_eqb x y
  | VOk x, VOk y => value_eqb x y
  | VErr x, VErr y => value_eqb x y
  | VEnum i x, VEnum j y => (i =? j) && value_eqb x y
  | VList x, VList y => vals_eqb x y
  | VMap x, VMap y => kvals_eqb x y
  | _, _ => false
  end
with vals_eqb (a b : vals) {struct a} : bool :=
  match a, b with
  | VNil, VNil => true
  | VCons x r, VCons y s => value_eqb x y && vals_eqb r s
  | _, _ => false
  end
with kvals_eqb (a b : kvals) {struct a} : bool :=
  match a, b with
  | KNil, KNil => true
  | KCons k x r, KCons l y s => value_eqb k l && value_eqb x y && kvals_eqb r s
  | _, _ => false
  end.

(* what the Go round trip returned: the decoded value, or a failure *)
Definition c11_model_roundtrip (t : ty) (v : value) : option value :=
  match decode_res current t (encode_go t v) with
  | Ok (v', []) => Some v'
  | _ => None
  end.

(* the property predicate, applied to the implementation's observables:
   Marshal's bytes are the canonical encoding and Unmarshal(Marshal v) gave back v *)
Definition c11_prop (t : ty) (v : value) (impl_bytes : option (list byte)) (impl_rt : option value) : bool :=
  match impl_bytes, impl_rt with
  | Some b, Some v' => bytes_eqb b (spec_encode t v) && value_eqb v' v
  | _, _ => false
  end.

(* the guard of finding C11 uint-5to7 is Scale.Codec.has_uint57 *)
