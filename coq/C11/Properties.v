(* C11/Properties.v — property C11: SCALE encoding round-trips and is canonical.
   Only statements, each closed by `exact <lemma>`, with Print Assumptions beneath.

   Universe: Scale/Types.v (ty, value, has_type, wf_ty); specification: Scale/Spec.v (spec_encode,
   written from the SCALE specification); model of pkg/scale: Scale/Codec.v (encode_go = what
   Marshal does, encode = the same with finding some-enum repaired, decode at a cfg: [current] =
   the tree, [ideal] = the findings repaired too).
   The model's [encode] lists the entries of a map in ascending key order; Go's encodeMap emits
   them in map iteration order, so for values with a multi-entry map (multi_map v = true) the
   theorems speak of one of the orders Marshal can produce (finding map-order). *)
From Common Require Import Bytes Outcome.
From Coq Require Import Permutation Sorted.
From Scale Require Import Compact CompactProofs Types Spec Codec FieldOrder FieldOrderProofs EncodeProofs RoundTrip.
From Scale Require Import WellTyped.
From C11 Require Import Model Proofs ProofsGuards.
Local Open Scope N_scope.

(* canonicity: on every well-typed value of every shape Marshal's bytes are the canonical SCALE
   encoding — outside the guard of finding some-enum *)
Theorem C11_canonical_partial : forall t v,
  has_type v t = true -> some_enum t v = false -> encode_go t v = spec_encode t v.
Proof. exact canonical_go. Qed.
Print Assumptions C11_canonical_partial.

(* finding some-enum: Some(x) of an option-of-enum loses its 0x01 byte *)
Theorem C11_canonical_refuted : exists t v,
  wf_ty t = true /\ has_type v t = true /\ encode_go t v <> spec_encode t v.
Proof. exact canonical_go_refuted. Qed.
Print Assumptions C11_canonical_refuted.

(* with that repaired (encode) the statement holds without exception *)
Theorem C11_canonical_ideal : forall t v, has_type v t = true -> encode t v = spec_encode t v.
Proof. exact encode_canonical. Qed.
Print Assumptions C11_canonical_ideal.

(* round trip on the current tree: every well-typed value of every well-formed shape, followed by
   arbitrary bytes r, decodes to itself and leaves r — outside the guards of findings uint-5to7 and
   some-enum *)
Theorem C11_roundtrip_partial : forall t v r,
  wf_ty t = true -> has_type v t = true -> has_uint57 t v = false -> some_enum t v = false ->
  decode_res current t (encode_go t v ++ r) = Ok (v, r).
Proof. exact roundtrip_current. Qed.
Print Assumptions C11_roundtrip_partial.

(* the full statement holds once decodeUint takes the 5..7-byte mode (cfg ideal) *)
Theorem C11_roundtrip_ideal : forall t v r,
  wf_ty t = true -> has_type v t = true ->
  decode_res ideal t (encode t v ++ r) = Ok (v, r).
Proof. exact roundtrip_ideal. Qed.
Print Assumptions C11_roundtrip_ideal.

(* finding uint-5to7: on the current tree a Go uint in [2^32, 2^56) does not round-trip *)
Theorem C11_roundtrip_refuted : exists t v,
  wf_ty t = true /\ has_type v t = true /\ decode_res current t (encode_go t v) <> Ok (v, []).
Proof. exact roundtrip_refuted. Qed.
Print Assumptions C11_roundtrip_refuted.

(* the two guards are exact (second round): inside the guard the property really fails.
   uint-5to7: on the tree NO input decodes to a value with a 5..7-byte Go uint / int component (for
   types without maps), so such a value never round-trips; some-enum: Marshal's bytes of a
   well-typed value with Some(x) at an option-of-enum type are never the canonical encoding *)
Theorem C11_uint57_guard_exact : forall t v r bs,
  wf_ty t = true -> map_free t = true -> has_uint57 t v = true ->
  decode_res current t bs <> Ok (v, r).
Proof. exact uint57_guard_exact. Qed.
Print Assumptions C11_uint57_guard_exact.

Theorem C11_some_enum_guard_exact : forall t v,
  has_type v t = true -> some_enum t v = true -> encode_go t v <> spec_encode t v.
Proof. exact some_enum_guard_exact. Qed.
Print Assumptions C11_some_enum_guard_exact.

(* the pinned encoder (before fixes/C11-nil-option.patch) panics on a nil option of an enum *)
Theorem C11_encode_prefix_refuted : exists t v,
  wf_ty t = true /\ has_type v t = true /\ encode_prefix t v = Panic.
Proof. exact encode_prefix_refuted. Qed.
Print Assumptions C11_encode_prefix_refuted.

(* struct field order (scale:"n" tags; model of fieldScaleIndices, compared with Marshal by the
   `order` cases of the harness): the encoding order lists every field exactly once, and when no
   tag is repeated it is the only sequence sorted by the comparison handed to sort.Slice (tagged
   fields by ascending tag, then the untagged ones in declaration order), whatever the (unstable)
   sorting algorithm does *)
Theorem C11_field_order_perm : forall tags,
  Permutation (seq 0 (length tags)) (field_order tags).
Proof. exact field_order_perm. Qed.
Print Assumptions C11_field_order_perm.

Theorem C11_field_order_unique : forall tags sorted,
  tags_distinct_prop tags ->
  Permutation (indexed 0 tags) sorted -> StronglySorted notafter sorted ->
  map fst sorted = field_order tags.
Proof. exact field_order_unique. Qed.
Print Assumptions C11_field_order_unique.

Example C11_field_order_example :
  field_order [FIdx 2; FNone; FIdx 0; FNone; FIdx 1] = [2; 4; 0; 1; 3]%nat.
Proof. reflexivity. Qed.

(* compact integers: the spec decoder inverts the canonical encoder on the whole range, and
   accepts nothing but canonical encodings *)
Theorem C11_compact_roundtrip : forall n r, n < 2 ^ 536 ->
  compact_decode (compact_encode n ++ r) = Some (n, r).
Proof. exact compact_decode_encode. Qed.
Print Assumptions C11_compact_roundtrip.

Theorem C11_compact_canonical : forall bs n r,
  compact_decode bs = Some (n, r) -> bs = compact_encode n ++ r /\ n < 2 ^ 536.
Proof. exact compact_encode_decode. Qed.
Print Assumptions C11_compact_canonical.

(* non-vacuity: a nested value with every kind of component is well typed, is not excluded by a
   guard, and its 33-byte encoding decodes back *)
Example C11_nonvacuous :
  let t := TStruct (TCons None (TSlice (TOption TUint)) (TCons None (TMap TU8 TBytes)
            (TCons None (TResult TBig (TEnum (TCons (Some 3) TI16 TNil))) (TCons None TU128 TNil)))) in
  let v := VList (VCons (VList (VCons (VSome (VN 1073741824)) (VCons VNone VNil)))
            (VCons (VMap (KCons (VN 7) (VBytes [Byte.x01; Byte.x02]) KNil))
            (VCons (VErr (VEnum 3 (VZ (-2)))) (VCons (VN (2 ^ 100)) VNil)))) in
  wf_ty t = true /\ has_type v t = true /\ has_uint57 t v = false /\ some_enum t v = false /\
  multi_map v = false /\ length (encode_go t v) = 33%nat /\ decode_res current t (encode_go t v) = Ok (v, []).
Proof. vm_compute. repeat split; reflexivity. Qed.
