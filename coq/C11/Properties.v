(* C11/Properties.v — property C11: SCALE encoding round-trips and is canonical.
   Only statements, each closed by `exact <lemma>`, with Print Assumptions beneath. *)
From Common Require Import Bytes Outcome.
From Scale Require Import Compact CompactProofs Types Spec Codec FieldOrder.
From C11 Require Import Model Proofs.
Local Open Scope N_scope.

(* compact integers: the spec decoder inverts the canonical encoder on the whole range, and
   accepts nothing but canonical encodings *)
Theorem C11_compact_roundtrip : forall n r, n < 2 ^ 536 ->
  compact_decode (compact_encode n ++ r) = Some (n, r).
Proof. exact compact_decode_encode. Qed.
Print Assumptions C11_compact_roundtrip.

Theorem C11_compact_canonical : forall bs n r,
  compact_decode bs = Some (n, r) -> bs = compact_encode n ++ r /\ n < 2 ^ 536.
Proof. exact compact_encode_decode. Qed.
Print Assumptions C11_compact_canonical.

(* finding uint-5to7: on the current tree a Go uint between 2^32 and 2^56-1 does not round-trip *)
Theorem C11_roundtrip_refuted : exists t v,
  has_type v t = true /\ decode_res current t (encode t v) <> Ok (v, []).
Proof.
  exists TUint, (VN 4294967296). destruct uint57_witness as (H & _ & E & _).
  split; [exact H|]. rewrite E. discriminate.
Qed.
Print Assumptions C11_roundtrip_refuted.
