(* C11/ProofsGuards.v — second round (auditor): the two finding guards of C11 are exact.
   uint-5to7: no input at all decodes, on the tree, to a value inside the guard has_uint57 (so a
   value inside the guard never round-trips); some-enum: Marshal's bytes of a well-typed value
   inside the guard some_enum are never the canonical encoding (they are strictly shorter). *)
From Coq Require Import ZifyN ZifyNat ZifyBool.
From Common Require Import Bytes Outcome.
From Scale Require Import Compact CompactProofs Types Spec Codec EncodeProofs MonadLemmas RoundTrip WellTyped.
From C11 Require Import Model.
Local Open Scope N_scope.

Lemma uint57_guard_exact t v r bs :
  wf_ty t = true -> map_free t = true -> has_uint57 t v = true ->
  decode_res current t bs <> Ok (v, r).
Proof.
  intros W MF G D. unfold decode_res, run_decode in D.
  destruct (decode current t bs 0) as [o m'] eqn:E. cbn [fst] in D. subst o.
  destruct (decode_well_typed current eq_refl eq_refl t bs 0 v r m' W MF E) as [_ U].
  rewrite G in U. discriminate.
Qed.

(* Marshal's output is never longer than the repaired encoder's, and strictly shorter inside
   the guard *)
Definition b2n1 (b : bool) : nat := if b then 1%nat else 0%nat.
Definition sl_value (v : value) : Prop :=
  forall t, (length (encode_go t v) + b2n1 (some_enum t v) <= length (encode t v))%nat.
Definition sl_vals (vs : vals) : Prop :=
  (forall t, (length (encode_go_all t vs) + b2n1 (some_enum_all t vs) <= length (encode_all t vs))%nat) /\
  (forall fs, (length (encode_go_fields fs vs) + b2n1 (some_enum_fields fs vs) <= length (encode_fields fs vs))%nat).
Definition sl_kvals (kvs : kvals) : Prop :=
  forall kt vt, (length (encode_go_kvs kt vt kvs) + b2n1 (some_enum_kvs kt vt kvs) <= length (encode_kvs kt vt kvs))%nat.

Lemma b2n1_orb a b : (b2n1 (a || b) <= b2n1 a + b2n1 b)%nat.
Proof. destruct a, b; cbn; lia. Qed.

Lemma sl_all : forall v, sl_value v.
Proof.
  apply (value_mut sl_value sl_vals sl_kvals); unfold sl_value, sl_vals, sl_kvals.
  - intros n t. destruct t; cbn; lia.
  - intros z t. destruct t; cbn; lia.
  - intros b t. destruct t; cbn; lia.
  - intros l t. destruct t; cbn; lia.
  - intros t. destruct t; cbn; lia.
  - (* VSome *) intros v IH t. destruct t; try (cbn; lia). cbn [some_enum encode].
    specialize (IH t). pose proof (b2n1_orb (is_enum t) (some_enum t v)) as O.
    destruct t; cbn [encode_go is_enum b2n1 orb length] in *; lia.
  - intros v IH t. destruct t; try (cbn; lia). cbn [some_enum encode_go encode length]. specialize (IH t1). lia.
  - intros v IH t. destruct t; try (cbn; lia). cbn [some_enum encode_go encode length]. specialize (IH t2). lia.
  - intros i v IH t. destruct t; try (cbn; lia). cbn [some_enum encode_go encode].
    destruct (alt_lookup alts i) as [t'|]; [|cbn; lia]. cbn [length]. specialize (IH t'). lia.
  - intros vs [IHa IHf] t. destruct t; try (cbn; lia); cbn [some_enum encode_go encode].
    + apply IHa.
    + rewrite !app_length. specialize (IHa t). lia.
    + apply IHf.
  - intros kvs IH t. destruct t; try (cbn; lia). cbn [some_enum encode_go encode].
    rewrite !app_length. specialize (IH t1 t2). lia.
  - split; intros; cbn; lia.
  - intros v IHv r [IHa IHf]. split.
    + intro t. cbn [some_enum_all encode_go_all encode_all]. rewrite !app_length.
      specialize (IHv t). specialize (IHa t).
      pose proof (b2n1_orb (some_enum t v) (some_enum_all t r)). lia.
    + intro fs. destruct fs as [|tag t fr]; [cbn; lia|].
      cbn [some_enum_fields encode_go_fields encode_fields]. rewrite !app_length.
      specialize (IHv t). specialize (IHf fr).
      pose proof (b2n1_orb (some_enum t v) (some_enum_fields fr r)). lia.
  - intros; cbn; lia.
  - intros k IHk v IHv r IHr kt vt. cbn [some_enum_kvs encode_go_kvs encode_kvs]. rewrite !app_length.
    specialize (IHk kt). specialize (IHv vt). specialize (IHr kt vt).
    pose proof (b2n1_orb (some_enum kt k || some_enum vt v) (some_enum_kvs kt vt r)).
    pose proof (b2n1_orb (some_enum kt k) (some_enum vt v)). lia.
Qed.

Lemma some_enum_guard_exact t v :
  has_type v t = true -> some_enum t v = true -> encode_go t v <> spec_encode t v.
Proof.
  intros T G E. pose proof (sl_all v t) as L. rewrite G in L. cbn [b2n1] in L.
  rewrite (encode_canonical t v T), <- E in L. lia.
Qed.
