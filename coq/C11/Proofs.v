(* C11/Proofs.v — lemmas behind C11/Properties.v (the bulk is in Scale/*Proofs.v, RoundTrip.v). *)
From Common Require Import Bytes Outcome.
From Scale Require Import Compact CompactProofs Types Spec Codec FieldOrder EncodeProofs MonadLemmas RoundTrip.
From C11 Require Import Model.
Local Open Scope N_scope.

Lemma succeeds_res {A} (x : M A) a : succeeds x a -> fst (x 0) = Ok a.
Proof. intro H. destruct (H 0) as [m' E]. now rewrite E. Qed.

(* Marshal is canonical outside the guard of finding some-enum *)
Lemma canonical_go t v :
  has_type v t = true -> some_enum t v = false -> encode_go t v = spec_encode t v.
Proof. intros H S. rewrite encode_go_encode by assumption. now apply encode_canonical. Qed.

(* round trip on the current tree, outside the guards of findings uint-5to7 and some-enum *)
Lemma roundtrip_current t v r :
  wf_ty t = true -> has_type v t = true -> has_uint57 t v = false -> some_enum t v = false ->
  decode_res current t (encode_go t v ++ r) = Ok (v, r).
Proof.
  intros W H G S. rewrite encode_go_encode by assumption. unfold decode_res, run_decode. apply succeeds_res.
  apply (decode_encode current eq_refl); [assumption|assumption|now right].
Qed.

(* finding some-enum: Some(x) of an option-of-enum is marshalled without its option byte *)
Lemma some_enum_witness :
  let t := TOption (TEnum (TCons (Some 0) TU8 TNil)) in
  let v := VSome (VEnum 0 (VN 7)) in
  wf_ty t = true /\ has_type v t = true /\ some_enum t v = true /\
  encode_go t v = [Byte.x00; Byte.x07] /\ spec_encode t v = [Byte.x01; Byte.x00; Byte.x07] /\
  decode_res current t (encode_go t v) = Ok (VNone, [Byte.x07]).
Proof. vm_compute. repeat split; reflexivity. Qed.

Lemma canonical_go_refuted : exists t v,
  wf_ty t = true /\ has_type v t = true /\ encode_go t v <> spec_encode t v.
Proof.
  exists (TOption (TEnum (TCons (Some 0) TU8 TNil))), (VSome (VEnum 0 (VN 7))).
  destruct some_enum_witness as (W & H & _ & E & S & _). split; [exact W|]. split; [exact H|].
  rewrite E, S. discriminate.
Qed.

(* round trip for a decodeUint that also takes the 5..7-byte mode: no exception *)
Lemma roundtrip_ideal t v r :
  wf_ty t = true -> has_type v t = true ->
  decode_res ideal t (encode t v ++ r) = Ok (v, r).
Proof.
  intros W H. unfold decode_res, run_decode. apply succeeds_res.
  apply (decode_encode ideal eq_refl); [assumption|assumption|now left].
Qed.

(* the pinned/current decodeUint rejects the 5-byte big mode encodeUint emits *)
Lemma uint57_witness :
  wf_ty TUint = true /\ has_type (VN 4294967296) TUint = true /\
  encode TUint (VN 4294967296) = spec_encode TUint (VN 4294967296) /\
  decode_res current TUint (encode_go TUint (VN 4294967296)) = Err 1%nat /\
  has_uint57 TUint (VN 4294967296) = true.
Proof. vm_compute. repeat split; reflexivity. Qed.

(* Marshal of a nil pointer to a varying data type: the pinned marshal() calls IndexValue through
   the nil pointer and panics; modelled as a separately named pre-fix encoder *)
Fixpoint nil_enum_option (t : ty) (v : value) {struct v} : bool :=
  match v, t with
  | VNone, TOption (TEnum _) => true
  | VSome v', TOption t' => nil_enum_option t' v'
  | VOk v', TResult a _ => nil_enum_option a v'
  | VErr v', TResult _ b => nil_enum_option b v'
  | VEnum i v', TEnum alts => match alt_lookup alts i with Some t' => nil_enum_option t' v' | None => false end
  | VList vs, TArray _ t' => nil_enum_option_all t' vs
  | VList vs, TSlice t' => nil_enum_option_all t' vs
  | VList vs, TStruct fs => nil_enum_option_fields fs vs
  | VMap kvs, TMap kt vt => nil_enum_option_kvs vt kvs
  | _, _ => false
  end
with nil_enum_option_all (t : ty) (vs : vals) {struct vs} : bool :=
  match vs with VNil => false | VCons v r => nil_enum_option t v || nil_enum_option_all t r end
with nil_enum_option_fields (fs : tys) (vs : vals) {struct vs} : bool :=
  match vs, fs with
  | VCons v r, TCons _ t fr => nil_enum_option t v || nil_enum_option_fields fr r
  | _, _ => false
  end
with nil_enum_option_kvs (vt : ty) (kvs : kvals) {struct kvs} : bool :=
  match kvs with KNil => false | KCons _ v r => nil_enum_option vt v || nil_enum_option_kvs vt r end.

Definition encode_prefix (t : ty) (v : value) : outcome (list byte) :=
  if nil_enum_option t v then Panic else Ok (encode t v).

Lemma encode_prefix_witness :
  let t := TOption (TEnum (TCons (Some 0) TU8 TNil)) in
  wf_ty t = true /\ has_type VNone t = true /\ encode_prefix t VNone = Panic /\ spec_encode t VNone = [Byte.x00].
Proof. vm_compute. repeat split; reflexivity. Qed.

Lemma roundtrip_refuted : exists t v,
  wf_ty t = true /\ has_type v t = true /\ decode_res current t (encode_go t v) <> Ok (v, []).
Proof.
  exists TUint, (VN 4294967296). destruct uint57_witness as (W & H & _ & E & _).
  split; [exact W|]. split; [exact H|]. rewrite E. discriminate.
Qed.

Lemma encode_prefix_refuted : exists t v,
  wf_ty t = true /\ has_type v t = true /\ encode_prefix t v = Panic.
Proof.
  exists (TOption (TEnum (TCons (Some 0) TU8 TNil))), VNone.
  destruct encode_prefix_witness as (W & H & E & _). split; [exact W|]. split; [exact H|exact E].
Qed.
