(* C11/Proofs.v — lemmas behind C11/Properties.v (the bulk is in Scale/*Proofs.v). *)
From Common Require Import Bytes Outcome.
From Scale Require Import Compact CompactProofs Types Spec Codec FieldOrder.
From C11 Require Import Model.
Local Open Scope N_scope.

(* the pinned/current decodeUint rejects the 5-byte big mode encodeUint emits *)
Lemma uint57_witness :
  has_type (VN 4294967296) TUint = true /\
  encode TUint (VN 4294967296) = spec_encode TUint (VN 4294967296) /\
  decode_res current TUint (encode TUint (VN 4294967296)) = Err 1%nat /\
  decode_res ideal TUint (encode TUint (VN 4294967296)) = Ok (VN 4294967296, []).
Proof. vm_compute. repeat split; reflexivity. Qed.
