From Coq Require Import Extraction ExtrOcamlBasic.
From Common Require Import Bytes Outcome Drv.
From Scale Require Import Compact Types Spec Codec FieldOrder.
From C11 Require Import Model.
Extraction "model.ml" drv_b2n drv_n2b drv_z_of_n drv_n_of_z drv_nat_of_n drv_n_of_nat
  compact_encode compact_decode
  has_type wf_ty multi_map min_size
  spec_encode encode encode_go some_enum has_uint57 run_decode decode_res decode_cost current pinned ideal
  field_order tags_distinct
  value_eqb c11_model_roundtrip c11_prop.
