(* C15/Properties.v — placeholder until the proofs land *)
From BlockTree Require Import Model Spec.
