(* C15/Properties.v — property C15: the block tree structure matches the added blocks.
   Only statements, each closed by `exact <lemma>`, with Print Assumptions beneath.

   Vocabulary (coq/BlockTree):
   * Model.v   run : the model of lib/blocktree (NewBlockTreeFromRoot, AddBlock, Prune) on a
               history; get_all_blocks, get_leaves_of, is_descendant_of, range, ... its queries.
   * Spec.v    s_run : the specification, a SET OF BLOCKS WITH A PARENT FUNCTION: root hash and
               the list of (hash, parent hash, number, arrival, primary) of the other blocks;
               s_add accepts a header iff its parent is held, its hash is new and its number is
               the parent's plus one; s_fin keeps the blocks that descend from the finalised one
               and reports as pruned those that neither descend from it nor are its ancestors.
   * descends bl a c : c is reached from a through parent links of bl (inductive closure). *)
From Coq Require Import List NArith ZArith Bool Permutation.
From Common Require Import Outcome.
From BlockTree Require Import Model Spec ProofsTree ProofsPath ProofsSpec ProofsSim ProofsQuery
  ProofsBest ProofsHist ProofsPre ProofsNum ProofsLca ProofsMore ProofsShape ProofsAtNum ProofsWrap.
Import ListNotations.
Local Open Scope N_scope.

(* For every history of additions and finalisations from NewBlockTreeFromRoot(h, x):
   the tree holds exactly the blocks of the specification, its leaf map holds exactly the
   blocks without children, every AddBlock answers as the specification does (same error
   class), every Prune reports a permutation of the specified pruned set. *)
Theorem C15_refines_block_set : forall h x a ops,
  let t := tree_after h x a ops in
  let s := spec_after h x ops in
  Permutation (get_all_blocks t) (s_hashes s)
  /\ Permutation (get_leaves_of t) (s_leaves s)
  /\ Forall2 res_eq (snd (run (new_tree h x a) ops)) (snd (s_run (mkSst h x []) ops)).
Proof.
  intros h x a ops. repeat split.
  - exact (sim_blocks _ _ (sim_after h x a ops)).
  - exact (sim_leaves _ _ (sim_after h x a ops)).
  - exact (results_after h x a ops).
Qed.
Print Assumptions C15_refines_block_set.

(* The first sentence of the property read over the whole HISTORY, without the specification's
   transition system in between: under hash uniqueness (a hash determines the header's parent;
   no added header has the hash of the initial root), after any history the tree holds exactly
   the blocks reached from its current root -- the last effective finalisation target, or the
   initial root -- through the parent links of the additions the history ACCEPTED
   (accepted: the records of the AddBlock calls that answered nil, in order; each is an
   addition of the history with the hash, parent, number and arrival of its header). *)
Theorem C15_holds_exactly_added_descendants : forall h x a ops,
  hashes_determine_headers h ops ->
  let t := tree_after h x a ops in
  (forall y, In y (get_all_blocks t) <->
             descends (accepted (mkSst h x []) ops) (nhash (root t)) y)
  /\ (forall b, In b (accepted (mkSst h x []) ops) ->
       exists hd arr, In (OAdd hd arr) ops /\ b_hash b = h_hash hd /\ b_parent b = h_parent hd
                      /\ b_number b = h_number hd /\ b_arrival b = arr).
Proof.
  intros h x a ops H t. split.
  - exact (tree_shape h x a ops H).
  - exact (accepted_origin ops (mkSst h x [])).
Qed.
Print Assumptions C15_holds_exactly_added_descendants.

(* One AddBlock on a reachable tree: an accepted addition adds exactly its block (which was not
   held, below a parent that was held); a refused one leaves the tree unchanged (definition of
   [step]). *)
Theorem C15_add_exact : forall h x a ops hd arr t',
  let t := tree_after h x a ops in
  add_block t hd arr = Ok t' ->
  Permutation (get_all_blocks t') (h_hash hd :: get_all_blocks t)
  /\ ~ In (h_hash hd) (get_all_blocks t) /\ In (h_parent hd) (get_all_blocks t).
Proof. intros h x a ops hd arr t' t. exact (add_block_exact t _ hd arr t' (sim_after h x a ops)). Qed.
Print Assumptions C15_add_exact.

(* the leaves of the specification are, by definition, the held blocks that are nobody's parent *)
Theorem C15_leaves_are_childless : forall s y,
  In y (s_leaves s) <-> In y (s_hashes s) /\ forall b, In b (s_blocks s) -> b_parent b <> y.
Proof. exact leaves_are_childless. Qed.
Print Assumptions C15_leaves_are_childless.

(* in every reachable state the executable parent-link walk of the specification is the
   reflexive-transitive closure of the parent links *)
Theorem C15_desc_is_parent_closure : forall h x ops p c,
  s_desc (spec_after h x ops) p c = true <-> descends (s_blocks (spec_after h x ops)) p c.
Proof. intros h x ops p c. exact (sim_desc_iff _ _ p c (sim_after h x 0%Z ops)). Qed.
Print Assumptions C15_desc_is_parent_closure.

(* Finalising a held block f other than the root: the hashes reported as pruned are pairwise
   different and are exactly the held blocks that are neither descendants nor ancestors of f;
   the tree afterwards holds exactly the descendants of f. *)
Theorem C15_prune_exact : forall h x a ops f,
  let t := tree_after h x a ops in
  let s := spec_after h x ops in
  s_known s f = true -> f <> s_root s ->
  NoDup (snd (prune t f))
  /\ (forall y, In y (snd (prune t f)) <->
                In y (s_hashes s) /\ ~ descends (s_blocks s) f y /\ ~ descends (s_blocks s) y f)
  /\ (forall y, In y (get_all_blocks (fst (prune t f))) <->
                In y (s_hashes s) /\ descends (s_blocks s) f y).
Proof.
  intros h x a ops f t s Hk Hne.
  destruct (sim_prune_exact t s f (sim_after h x a ops) Hk Hne) as (A & B).
  split; [exact A|]. split; [exact B|].
  exact (sim_prune_keeps t s f (sim_after h x a ops) Hk Hne).
Qed.
Print Assumptions C15_prune_exact.

(* Ancestry and range queries agree with the parent links: IsDescendantOf is the parent-link
   walk; an answer of Range / RangeInMemory is the parent-linked chain from start to end, and
   when start is not an ancestor of end the answer is an error. *)
Theorem C15_queries_follow_parent_links : forall h x a ops p q,
  let t := tree_after h x a ops in
  let s := spec_after h x ops in
  is_descendant_of t p q = s_is_descendant_of s p q
  /\ check_range s p q (range t p q) = true
  /\ check_range_in_memory s p q (range_in_memory t p q) = true.
Proof.
  intros h x a ops p q. repeat split.
  - exact (sim_is_descendant_of _ _ p q (sim_after h x a ops)).
  - exact (sim_range _ _ p q (sim_after h x a ops)).
  - exact (sim_range_in_memory _ _ p q (sim_after h x a ops)).
Qed.
Print Assumptions C15_queries_follow_parent_links.

(* LowestCommonAncestor(p, q) is the first block on the parent chain of p from which q descends
   (ErrNodeNotFound when either is not held; it never panics on a reachable tree).
   GetHashByNumber(n) is the block with number n on the parent chain of the best block (the
   fork choice of property C16), with the same error classes as the specification.
   GetAllDescendants(p) is the set of held blocks that descend from p; GetHashesAtNumber(n)
   only reports held blocks with number n, each once, and (check_at_number_full) between the
   root's and the best block's number it reports ALL of them; outside that interval it answers
   the empty list by design of the code. *)
Theorem C15_lca_and_by_number_follow_parent_links : forall h x a ops p q n,
  let t := tree_after h x a ops in
  let s := spec_after h x ops in
  lowest_common_ancestor t p q = s_lca s p q
  /\ get_hash_by_number t n = s_hash_by_number s n
  /\ check_descendants s p (get_all_descendants t p) = true
  /\ match get_hashes_at_number t n with Ok l => check_at_number s n l = true | _ => False end
  /\ match get_hashes_at_number t n with Ok l => check_at_number_full s n l = true | _ => False end.
Proof.
  intros h x a ops p q n. repeat split.
  - exact (sim_lca _ _ p q (sim_after h x a ops)).
  - exact (sim_hash_by_number _ _ n (sim_after h x a ops)).
  - exact (sim_descendants _ _ p (sim_after h x a ops)).
  - exact (sim_at_number _ _ n (sim_after h x a ops)).
  - exact (sim_at_number_full _ _ n (sim_after h x a ops)).
Qed.
Print Assumptions C15_lca_and_by_number_follow_parent_links.

(* non-vacuity: a history with forks and a finalisation that prunes *)
Example C15_nonvacuous :
  let ops := [w_child 1; w_child 2; w_child 3; w_child 4;
              OAdd (mkHeader 5 2 2 DSecondaryPlain) 1%Z; OFin 2] in
  snd (run (new_tree 100 0 0%Z) ops) =
    [RAdd (Ok tt); RAdd (Ok tt); RAdd (Ok tt); RAdd (Ok tt); RAdd (Ok tt); RFin [1; 3; 4]]
  /\ get_all_blocks (tree_after 100 0 0%Z ops) = [2; 5]
  /\ get_leaves_of (tree_after 100 0 0%Z ops) = [5]
  /\ map b_hash (accepted (mkSst 100 0 []) ops) = [1; 2; 3; 4; 5]
  /\ get_hashes_at_number (tree_after 100 0 0%Z (removelast ops)) 1 = Ok [1; 2; 3; 4]
  /\ check_at_number_full (spec_after 100 0 (removelast ops)) 1 [4; 2; 3; 1] = true
  /\ check_at_number_full (spec_after 100 0 (removelast ops)) 1 [4; 2; 3] = false.
Proof. vm_compute. repeat split; reflexivity. Qed.

Example C15_hash_hypothesis_satisfiable :
  hashes_determine_headers 100 [w_child 1; w_child 2; OAdd (mkHeader 5 2 2 DSecondaryPlain) 1%Z; OFin 2;
                                w_child 1 (* re-delivery of an abandoned block: refused *)]
  /\ snd (run (new_tree 100 0 0%Z)
              [w_child 1; w_child 2; OAdd (mkHeader 5 2 2 DSecondaryPlain) 1%Z; OFin 2; w_child 1])
     = [RAdd (Ok tt); RAdd (Ok tt); RAdd (Ok tt); RFin [1]; RAdd (Err e_parent_not_found)].
Proof.
  split; [|vm_compute; reflexivity]. split.
  - intros hd a hd' a' H1 H2 E. simpl in H1, H2. unfold w_child in *.
    repeat (destruct H1 as [H1|H1]; [inversion H1; subst; clear H1|]); try contradiction;
    repeat (destruct H2 as [H2|H2]; [inversion H2; subst; clear H2|]); try contradiction;
    simpl in *; try reflexivity; try discriminate.
  - intros hd a H. simpl in H. unfold w_child in *.
    repeat (destruct H as [H|H]; [inversion H; subst; simpl; discriminate|]). contradiction.
Qed.

(* The pinned tree before fixes/C15-prune-iterate-copy.patch: node.prune ranged over the slice
   that deleteChild shifts; with three or more siblings pruned hashes are skipped or repeated. *)
Theorem C15_prune_prefix_refuted :
  exists t f, wf t /\ ~ Permutation (snd (prune_prefix t f)) (snd (s_fin (abs t) f)).
Proof. exact prune_prefix_refuted. Qed.
Print Assumptions C15_prune_prefix_refuted.

Theorem C15_prune_prefix_duplicates : exists t f, wf t /\ ~ NoDup (snd (prune_prefix t f)).
Proof. exact prune_prefix_duplicates. Qed.
Print Assumptions C15_prune_prefix_duplicates.

(* The pinned tree before repo commit 58bc1d7a3 "fix: BlockTree.Range fails when the start block
   is not an ancestor of the end block": Range between blocks on different forks answered a
   list that is not a parent-linked chain. *)
Theorem C15_range_prefix_refuted :
  exists t p q, wf t /\ check_range (abs t) p q (range_prefix t p q) = false
                /\ check_range_in_memory (abs t) p q (range_in_memory_prefix t p q) = false.
Proof. exact range_prefix_refuted. Qed.
Print Assumptions C15_range_prefix_refuted.

(* Block numbers are Go uint.  The theorems above are about a model with unbounded numbers; with
   the 64-bit wrap-around of `parent.number + 1` made explicit (add_block64 / run64 in Model.v)
   the two models are EQUAL, tree and results, on every history whose numbers cannot reach 2^64:
   root number + number of operations < 2^64.  Every statement of this file therefore holds of
   the wrapping model under that explicit bound. *)
Theorem C15_uint64_block_numbers : forall h x a ops,
  x + N.of_nat (length ops) < two64 ->
  run64 (new_tree h x a) ops = run (new_tree h x a) ops.
Proof. exact run64_is_run. Qed.
Print Assumptions C15_uint64_block_numbers.

(* the bound is satisfiable (every history anyone can run) and it is needed: on top of a block
   numbered 2^64 - 1 the wrapping AddBlock accepts a block numbered 0 that the unbounded model
   refuses *)
Example C15_uint64_bound_satisfiable :
  let ops := [w_child 1; w_child 2; OFin 2] in
  0 + N.of_nat (length ops) < two64 /\ (two64 - 10) + N.of_nat (length ops) < two64.
Proof. vm_compute. split; reflexivity. Qed.

Theorem C15_uint64_bound_needed :
  let t := new_tree 1 (two64 - 1) 0%Z in
  let hd := mkHeader 2 1 0 DNone in
  (exists t', add_block64 t hd 0%Z = Ok t') /\ add_block t hd 0%Z = Err e_unexpected_number.
Proof. exact wrap_witness. Qed.
Print Assumptions C15_uint64_bound_needed.
