From Coq Require Import Extraction ExtrOcamlBasic.
From Common Require Import Bytes Drv Outcome.
From BlockTree Require Import Model Spec.
Extraction "model.ml" drv_b2n drv_n2b drv_z_of_n drv_n_of_z drv_nat_of_n drv_n_of_nat
  new_tree add_block prune prune_prefix get_all_blocks get_leaves_of best_block_hash
  get_hash_by_number get_hashes_at_number is_descendant_of lowest_common_ancestor
  range range_in_memory range_prefix range_in_memory_prefix get_all_descendants
  abs s_add s_fin s_step s_leaves s_best_hash s_is_descendant_of s_lca s_hash_by_number
  check_range check_range_in_memory check_blocks check_leaves check_pruned check_descendants
  check_at_number check_at_number_full s_known s_desc.
