(* C22/Proofs.v -- safety of the GRANDPA voting protocol of C22/Model.v.

   Plan (GRANDPA paper, Theorem on safety; weights instead of counts):
   1. every reachable state is [valid]: honest voters have one vote per round and phase, and each
      honest vote carries its justification (views are subsets of what has been cast, and what
      has been cast only grows);
   2. in a valid state all views are tolerant (only Byzantine voters equivocate);
   3. if B has a supermajority of precommits in round r0 then in every view of round r0 every
      ancestor of B stays "possible" (quorum intersection: the honest supporters of B weigh at
      least threshold - f) -- [Safe];  and B is on one chain with every prevote ghost of the
      round -- [OnChain];
   4. Safe + OnChain in round r force every estimate of a completable view of round r to be >= B,
      hence every honest prevote and precommit of round r+1 is >= B, which gives Safe + OnChain
      for round r+1: induction over rounds;
   5. two blocks with supermajorities of precommits (same or different rounds) are on one chain. *)
From Coq Require Import List Arith Lia Bool NArith ZifyN ZifyNat ZifyBool.
From Grandpa Require Import Tree Votes RoundSpec RoundProofs.
From C22 Require Import Model.
Import ListNotations.
Local Open Scope N_scope.

Lemma wsum_pos_exists (l : list N) p : 0 < wsum l p -> exists v, p v = true.
Proof.
  unfold wsum. generalize 0%nat. induction l as [|w r IH]; intro i; cbn [wsum_from]; [lia|].
  destruct (p i) eqn:P; [eauto|]. intro H. apply (IH (S i)). lia.
Qed.

Lemma child_towards t g a : anc t g a -> a <> g ->
  exists c, anc t c a /\ c <> 0%nat /\ parent t c = g.
Proof.
  induction a as [|a NZ IH] using (block_ind t); intros A N.
  - apply anc_0 in A. congruence.
  - destruct (Nat.eq_dec (parent t a) g) as [E|NE].
    + exists a. split; [apply anc_refl|]. auto.
    + apply anc_step in A; [|assumption]. destruct A as [->|A]; [congruence|].
      destruct (IH A NE) as [c [C1 [C2 C3]]]. exists c. split; [|auto].
      apply anc_step; auto.
Qed.

Section Safety.
Variable t : tree.
Variable ws : list N.
Variable honest : nat -> bool.
Hypothesis TP : 0 < total ws.
Hypothesis BYZ : byz_weight ws honest <= tolerance ws.

Notation state := Model.state.
Notation follows := (follows_previous t ws).

(* ---------------- 1. validity ---------------- *)
Definition one_vote (l : list vote) : Prop :=
  forall x y, In x l -> In y l -> honest (vvoter x) = true -> vvoter x = vvoter y -> x = y.

Definition valid (s : state) : Prop :=
  (forall r, one_vote (pv s r)) /\ (forall r, one_vote (pc s r)) /\
  (forall r x, In x (pv s r) -> honest (vvoter x) = true ->
     in_tree t (vblock x) /\ follows s r (vblock x)) /\
  (forall r x, In x (pc s r) -> honest (vvoter x) = true ->
     in_tree t (vblock x) /\ (exists V, subset V (pv s r) /\ has_supermajority t ws V (vblock x) = true) /\ follows s r (vblock x)).

Definition sub_state (s s' : state) : Prop :=
  forall r, subset (pv s r) (pv s' r) /\ subset (pc s r) (pc s' r).

Lemma subset_trans (A B C : list vote) : subset A B -> subset B C -> subset A C.
Proof. intros H1 H2 x I. auto. Qed.

Lemma follows_mono s s' r b : sub_state s s' -> follows s r b -> follows s' r b.
Proof.
  intros S. destruct r as [|r]; cbn; [auto|].
  intros [E [[V [C [SV [SC [CP ES]]]]] A]]. exists E. split; [|exact A].
  exists V, C. destruct (S r) as [S1 S2]. repeat split; auto; eapply subset_trans; eauto.
Qed.

Lemma sub_add_pv s r x : sub_state s (add_pv s r x).
Proof.
  intro r'. split; [|intros y I; exact I]. intros y I. cbn. unfold add_at.
  destruct (r' =? r)%nat; [now right|exact I].
Qed.
Lemma sub_add_pc s r x : sub_state s (add_pc s r x).
Proof.
  intro r'. split; [intros y I; exact I|]. intros y I. cbn. unfold add_at.
  destruct (r' =? r)%nat; [now right|exact I].
Qed.

Lemma in_add_at f r x r' y : In y (add_at f r x r') <-> (r' = r /\ y = x) \/ In y (f r').
Proof.
  unfold add_at. destruct (Nat.eqb_spec r' r) as [->|N]; cbn [In].
  - intuition congruence. - intuition congruence.
Qed.

Lemma one_vote_add l x : one_vote l ->
  (honest (vvoter x) = false \/ not_yet l (vvoter x)) -> one_vote (x :: l).
Proof.
  intros O H a b [<-|Ia] [<-|Ib] Ha E; auto.
  - destruct H as [H|H]; [congruence|]. exfalso. apply (H b Ib). auto.
  - destruct H as [H|H]; [rewrite E in Ha; congruence|]. exfalso. apply (H a Ia). auto.
Qed.

Lemma valid_init : valid (init).
Proof. repeat split; cbn; intros; try contradiction; intros ? ? []. Qed.

Lemma valid_step s s' : valid s -> step t ws honest s s' -> valid s'.
Proof.
  intros [V1 [V2 [V3 V4]]] ST.
  assert (PV : forall s0 r x, sub_state s0 (add_pv s0 r x)) by (intros; apply sub_add_pv).
  assert (PC : forall s0 r x, sub_state s0 (add_pc s0 r x)) by (intros; apply sub_add_pc).
  inversion ST as [s0 r x HB|s0 r x HB|s0 r x HH IT NY FP|s0 r x HH NY ITc GV FP]; subst.
  - (* byzantine prevote *)
    split; [|split; [exact V2|split]].
    + intro r'. cbn. unfold add_at. destruct (r' =? r)%nat; [|apply V1].
      apply one_vote_add; [apply V1|now left].
    + intros r' y I Hy. cbn in I. apply in_add_at in I. destruct I as [[-> ->]|I]; [congruence|].
      destruct (V3 r' y I Hy) as [A B]. split; [exact A|]. eapply follows_mono; [apply PV|exact B].
    + intros r' y I Hy. cbn in I. destruct (V4 r' y I Hy) as [IY [[V [SV G]] B]].
      split; [exact IY|]. split; [exists V; split; [|exact G]; eapply subset_trans; [exact SV|apply (PV s r x r')]|].
      eapply follows_mono; [apply PV|exact B].
  - (* byzantine precommit *)
    split; [exact V1|split; [|split]].
    + intro r'. cbn. unfold add_at. destruct (r' =? r)%nat; [|apply V2].
      apply one_vote_add; [apply V2|now left].
    + intros r' y I Hy. cbn in I. destruct (V3 r' y I Hy) as [A B]. split; [exact A|].
      eapply follows_mono; [apply PC|exact B].
    + intros r' y I Hy. cbn in I. apply in_add_at in I. destruct I as [[-> ->]|I]; [congruence|].
      destruct (V4 r' y I Hy) as [IY [[V [SV G]] B]]. split; [exact IY|].
      split; [exists V; split; [exact SV|exact G]|]. eapply follows_mono; [apply PC|exact B].
  - (* honest prevote *)
    split; [|split; [exact V2|split]].
    + intro r'. cbn. unfold add_at. destruct (Nat.eqb_spec r' r) as [->|N]; [|apply V1].
      apply one_vote_add; [apply V1|now right].
    + intros r' y I Hy. cbn in I. apply in_add_at in I. destruct I as [[-> ->]|I].
      * split; [exact IT|]. eapply follows_mono; [apply PV|exact FP].
      * destruct (V3 r' y I Hy) as [A B]. split; [exact A|]. eapply follows_mono; [apply PV|exact B].
    + intros r' y I Hy. cbn in I. destruct (V4 r' y I Hy) as [IY [[V [SV G]] B]].
      split; [exact IY|]. split; [exists V; split; [|exact G]; eapply subset_trans; [exact SV|apply (PV s r x r')]|].
      eapply follows_mono; [apply PV|exact B].
  - (* honest precommit *)
    split; [exact V1|split; [|split]].
    + intro r'. cbn. unfold add_at. destruct (Nat.eqb_spec r' r) as [->|N]; [|apply V2].
      apply one_vote_add; [apply V2|now right].
    + intros r' y I Hy. cbn in I. destruct (V3 r' y I Hy) as [A B]. split; [exact A|].
      eapply follows_mono; [apply PC|exact B].
    + intros r' y I Hy. cbn in I. apply in_add_at in I. destruct I as [[-> ->]|I].
      * split; [exact ITc|]. split; [exact GV|]. eapply follows_mono; [apply PC|exact FP].
      * destruct (V4 r' y I Hy) as [IY [[V [SV G]] B]]. split; [exact IY|].
        split; [exists V; split; [exact SV|exact G]|]. eapply follows_mono; [apply PC|exact B].
Qed.

Lemma reachable_valid s : reachable t ws honest s -> valid s.
Proof. induction 1; [apply valid_init|eapply valid_step; eauto]. Qed.

(* ---------------- 2. views are tolerant ---------------- *)
Lemma honest_no_equivocation l S v : one_vote l -> subset S l -> honest v = true -> equivocates S v = false.
Proof.
  intros O SS H. destruct (equivocates S v) eqn:E; [|reflexivity]. exfalso.
  apply equivocates_spec in E. destruct E as [x [y [Ix [Iy [Vx [Vy N]]]]]].
  assert (x = y). { apply O; auto; [now rewrite Vx|congruence]. }
  subst y. unfold same_vote in N. rewrite !Nat.eqb_refl in N. discriminate.
Qed.

Lemma view_tolerant l S : one_vote l -> subset S l -> tolerant ws S = true.
Proof.
  intros O SS. unfold tolerant. apply N.leb_le.
  assert (eq_weight ws S <= byz_weight ws honest); [|lia].
  apply wsum_mono. intros v E. destruct (honest v) eqn:H; [|reflexivity].
  rewrite (honest_no_equivocation l S v O SS H) in E. discriminate.
Qed.

(* honest voter with a vote for b in S: its unique vote in l is >= b *)
Lemma honest_vote_unique l S v b x : one_vote l -> subset S l -> honest v = true ->
  votes_for t S v b = true -> In x l -> vvoter x = v -> anc t b (vblock x).
Proof.
  intros O SS H VF I Vx. apply votes_for_spec in VF. destruct VF as [y [Iy [Vy A]]].
  assert (y = x). { apply O; auto; [now rewrite Vy|congruence]. }
  now subst y.
Qed.

(* ---------------- arithmetic of quorums ---------------- *)
Lemma threshold_gt_byz : byz_weight ws honest < threshold ws.
Proof.
  pose proof (three_threshold ws TP). pose proof (tolerance_lt_third ws TP). lia.
Qed.

(* the honest supporters of a block with a supermajority weigh at least threshold - byzantine *)
Lemma honest_supporters S b : has_supermajority t ws S b = true ->
  threshold ws <= wsum ws (fun v => honest v && supports t S v b) + byz_weight ws honest.
Proof.
  unfold has_supermajority, weight. rewrite N.leb_le. intro H.
  rewrite (wsum_split ws (fun v => supports t S v b) honest) in H.
  assert (wsum ws (fun v => supports t S v b && negb (honest v)) <= byz_weight ws honest).
  { apply wsum_mono. intros v X. now apply andb_true_iff in X. }
  assert (wsum ws (fun v => supports t S v b && honest v) = wsum ws (fun v => honest v && supports t S v b)).
  { apply wsum_ext. intro v. apply andb_comm. }
  lia.
Qed.

Lemma honest_supporter_exists S b : has_supermajority t ws S b = true ->
  exists v, honest v = true /\ supports t S v b = true.
Proof.
  intro H. pose proof (honest_supporters S b H). pose proof threshold_gt_byz.
  destruct (wsum_pos_exists ws (fun v => honest v && supports t S v b)) as [v P]; [lia|].
  apply andb_true_iff in P. eauto.
Qed.

Lemma wsum_compl p : wsum ws p + wsum ws (fun v => negb (p v)) = total ws.
Proof.
  unfold total. rewrite (wsum_split ws (fun _ => true) p). f_equal; apply wsum_ext; reflexivity.
Qed.

(* quorum intersection: two supermajorities in one vote set share an honest voter *)
Lemma quorum_intersection S a b :
  has_supermajority t ws S a = true -> has_supermajority t ws S b = true ->
  exists v, honest v = true /\ supports t S v a = true /\ supports t S v b = true.
Proof.
  unfold has_supermajority, weight. rewrite !N.leb_le. intros A B.
  pose proof (wsum_incl_excl ws (fun v => supports t S v a) (fun v => supports t S v b)) as IE.
  pose proof (wsum_le_total ws (fun v => supports t S v a || supports t S v b)) as U.
  set (both := fun v => supports t S v a && supports t S v b) in *.
  rewrite (wsum_split ws both honest) in IE.
  assert (wsum ws (fun v => both v && negb (honest v)) <= byz_weight ws honest).
  { apply wsum_mono. intros v X. now apply andb_true_iff in X. }
  pose proof (three_threshold ws TP). unfold tolerance in BYZ. pose proof (threshold_le_total ws).
  destruct (wsum_pos_exists ws (fun v => both v && honest v)) as [v P]; [lia|].
  unfold both in P. rewrite !andb_true_iff in P. exists v. tauto.
Qed.

(* ---------------- 3./4. the round invariants ---------------- *)
Section Rounds.
Variable s : state.
Hypothesis VAL : valid s.
Variable B : block.

Definition Safe (r : nat) : Prop :=
  forall T X, subset T (pc s r) -> anc t X B -> possible t ws T X = true.
Definition OnChain (r : nat) : Prop :=
  forall V g, subset V (pv s r) -> ghost t ws V = Some g -> same_chain t B g.
(* all honest votes of the round are for B or a descendant *)
Definition Above (r : nat) : Prop :=
  (forall x, In x (pv s r) -> honest (vvoter x) = true -> anc t B (vblock x)) /\
  (forall x, In x (pc s r) -> honest (vvoter x) = true -> anc t B (vblock x)).

Lemma ghost_sm V g : ghost t ws V = Some g -> in_tree t g /\ has_supermajority t ws V g = true.
Proof.
  unfold ghost, blocks. intro G. apply find_rev_seq_some in G. destruct G as [A [C _]]. auto.
Qed.

(* a set H of honest voters, all of whose precommits are >= B, weighing >= threshold - byz,
   keeps every ancestor of B possible in every view *)
Lemma safe_from_heavy (r : nat) (H : nat -> bool) :
  (forall v, H v = true -> honest v = true) ->
  (forall v x, H v = true -> In x (pc s r) -> vvoter x = v -> anc t B (vblock x)) ->
  threshold ws <= wsum ws H + byz_weight ws honest ->
  Safe r.
Proof.
  intros HH HA HW T X ST AX. destruct VAL as [_ [V2 _]].
  apply (possible_tolerant_iff t ws T X (view_tolerant _ T (V2 r) ST)).
  assert (against_weight t ws T X <= wsum ws (fun v => negb (H v))).
  { apply wsum_mono. intros v AG. destruct (H v) eqn:Hv; [exfalso|reflexivity].
    unfold against in AG. apply andb_true_iff in AG. destruct AG as [VT AG].
    rewrite (honest_no_equivocation _ T v (V2 r) ST (HH v Hv)) in AG. cbn [orb] in AG.
    apply negb_true_iff in AG.
    apply voted_spec in VT. destruct VT as [x [Ix Vx]].
    assert (votes_for t T v X = true); [|congruence].
    apply votes_for_spec. exists x. repeat split; auto.
    eapply anc_trans; [exact AX|]. apply (HA v x Hv (ST x Ix) Vx). }
  pose proof (wsum_compl H). unfold tolerance in *. pose proof (threshold_le_total ws). lia.
Qed.

(* step 3: a supermajority of precommits for B in round r *)
Lemma safe_of_supermajority r : has_supermajority t ws (pc s r) B = true -> Safe r.
Proof.
  intro SM. destruct VAL as [_ [V2 _]].
  apply (safe_from_heavy r (fun v => honest v && supports t (pc s r) v B)).
  - intros v H. now apply andb_true_iff in H.
  - intros v x H I Vx. apply andb_true_iff in H. destruct H as [Hv Sp].
    unfold supports in Sp.
    rewrite (honest_no_equivocation _ (pc s r) v (V2 r) (fun y I => I) Hv) in Sp. cbn [orb] in Sp.
    exact (honest_vote_unique _ (pc s r) v B x (V2 r) (fun y I => I) Hv Sp I Vx).
  - now apply honest_supporters.
Qed.

Lemma onchain_of_supermajority r : has_supermajority t ws (pc s r) B = true -> OnChain r.
Proof.
  intros SM V g SV G. destruct VAL as [V1 [V2 [V3 V4]]].
  destruct (honest_supporter_exists _ _ SM) as [u [Hu Sp]].
  unfold supports in Sp.
  rewrite (honest_no_equivocation _ (pc s r) u (V2 r) (fun y I => I) Hu) in Sp. cbn [orb] in Sp.
  apply votes_for_spec in Sp. destruct Sp as [x [Ix [Vx Ax]]].
  destruct (V4 r x Ix) as [_ [[Vu [SVu S2]] _]]; [now rewrite Vx|].
  (* both blocks have a supermajority among all prevotes of the round *)
  destruct (ghost_sm _ _ G) as [_ S1].
  pose proof (has_supermajority_mono t ws V (pv s r) g SV S1) as S1'.
  pose proof (has_supermajority_mono t ws Vu (pv s r) (vblock x) SVu S2) as S2'.
  pose proof (view_tolerant _ (pv s r) (V1 r) (fun y I => I)) as TOL.
  destruct (supermajorities_one_chain t ws (pv s r) g (vblock x) TP TOL S1' S2') as [A|A].
  - (* g <= x and B <= x *) destruct (anc_linear t B g (vblock x) Ax A); [now left|now right].
  - left. eapply anc_trans; eauto.
Qed.

(* all honest votes above B *)
Lemma safe_of_above r : Above r -> Safe r.
Proof.
  intros [_ AC].
  apply (safe_from_heavy r honest); [auto| |].
  - intros v x Hv I Vx. apply AC; [exact I|now rewrite Vx].
  - pose proof (wsum_compl honest). unfold byz_weight. pose proof (threshold_le_total ws). lia.
Qed.

Lemma onchain_of_above r : Above r -> OnChain r.
Proof.
  intros [AP _] V g SV G. destruct VAL as [V1 _]. destruct (ghost_sm _ _ G) as [_ SM].
  destruct (honest_supporter_exists _ _ SM) as [u [Hu Sp]]. unfold supports in Sp.
  rewrite (honest_no_equivocation _ V u (V1 r) SV Hu) in Sp. cbn [orb] in Sp.
  apply votes_for_spec in Sp. destruct Sp as [x [Ix [Vx Ax]]].
  assert (AB : anc t B (vblock x)) by (apply AP; [now apply SV|now rewrite Vx]).
  exact (anc_linear t B g (vblock x) AB Ax).
Qed.

(* step 4: every estimate of a completable view is >= B *)
Lemma estimate_above r E : in_tree t B -> Safe r -> OnChain r -> completable_view t ws s r E -> anc t B E.
Proof.
  intros IB SF OC [V [C [SV [SC [CP ES]]]]].
  apply completable_spec in CP. destruct CP as [CUR [g [e [G [ES' CC]]]]].
  rewrite ES in ES'. injection ES' as <-.
  destruct (estimate_spec t ws V C E ES) as [g' [G' [AEg [HP _]]]]. rewrite G in G'. injection G' as <-.
  destruct (HP CUR) as [PE ME].
  destruct (OC V g SV G) as [ABg|AgB].
  - (* B on the chain of the ghost: B is possible, the estimate is the highest possible block *)
    apply ME; [exact ABg|]. apply (SF C B SC). apply anc_refl.
  - (* the ghost is B or strictly above B *)
    destruct (Nat.eq_dec g B) as [->|NE].
    + apply ME; [apply anc_refl|]. apply (SF C B SC). apply anc_refl.
    + exfalso.
      (* the estimate is the ghost itself, and its child towards B is possible: not completable *)
      assert (PG : possible t ws C g = true) by (apply (SF C g SC AgB)).
      assert (E = g). { apply (anc_antisym t); [exact AEg|]. apply ME; [apply anc_refl|exact PG]. }
      subst E. destruct CC as [CC|CC]; [congruence|].
      (* child of g towards B *)
      assert (CH : exists c, anc t c B /\ c <> 0%nat /\ parent t c = g) by (apply child_towards; [exact AgB|congruence]).
      destruct CH as [c [AcB [Cnz Cp]]].
      assert (In c (children t g)) by (apply in_children; split; [exact (anc_in_tree t c B AcB IB)|auto]).
      specialize (CC c H). rewrite (SF C c SC AcB) in CC. discriminate.
Qed.

Lemma above_next r : in_tree t B -> Safe r -> OnChain r -> Above (S r).
Proof.
  intros IB SF OC. destruct VAL as [_ [_ [V3 V4]]]. split.
  - intros x I Hx. destruct (V3 (S r) x I Hx) as [_ [E [CV A]]].
    eapply anc_trans; [|exact A]. eapply estimate_above; eauto.
  - intros x I Hx. destruct (V4 (S r) x I Hx) as [_ [_ [E [CV A]]]].
    eapply anc_trans; [|exact A]. eapply estimate_above; eauto.
Qed.

Lemma rounds_after r0 : in_tree t B -> has_supermajority t ws (pc s r0) B = true ->
  forall k, Safe (r0 + k) /\ OnChain (r0 + k) /\ (0 < k -> Above (r0 + k))%nat.
Proof.
  intros IB SM. induction k as [|k [SF [OC _]]].
  - rewrite Nat.add_0_r. split; [now apply safe_of_supermajority|].
    split; [now apply onchain_of_supermajority|lia].
  - replace (r0 + S k)%nat with (S (r0 + k)) by lia.
    pose proof (above_next (r0 + k) IB SF OC) as AB.
    split; [now apply safe_of_above|]. split; [now apply onchain_of_above|auto].
Qed.

End Rounds.

(* ---------------- 5. safety ---------------- *)
Lemma supermajority_in_tree s r b : valid s -> has_supermajority t ws (pc s r) b = true -> in_tree t b.
Proof.
  intros VAL SM. pose proof VAL as [_ [V2 [_ V4]]].
  destruct (honest_supporter_exists _ _ SM) as [u [Hu Sp]]. unfold supports in Sp.
  rewrite (honest_no_equivocation _ (pc s r) u (V2 r) (fun y I => I) Hu) in Sp. cbn [orb] in Sp.
  apply votes_for_spec in Sp. destruct Sp as [x [Ix [Vx Ax]]].
  destruct (V4 r x Ix) as [IT _]; [now rewrite Vx|].
  exact (anc_in_tree t b (vblock x) Ax IT).
Qed.

Lemma safety_rounds s r0 r1 b0 b1 : valid s -> (r0 <= r1)%nat ->
  has_supermajority t ws (pc s r0) b0 = true -> has_supermajority t ws (pc s r1) b1 = true ->
  same_chain t b0 b1.
Proof.
  intros VAL LE S0 S1. pose proof VAL as [_ [V2 _]].
  destruct (Nat.eq_dec r0 r1) as [->|NE].
  - (* same round: quorum intersection *)
    exact (supermajorities_one_chain t ws (pc s r1) b0 b1 TP
             (view_tolerant _ _ (V2 r1) (fun y I => I)) S0 S1).
  - pose proof (supermajority_in_tree s r0 b0 VAL S0) as IB.
    destruct (rounds_after s VAL b0 r0 IB S0 (r1 - r0)) as [_ [_ AB]].
    replace (r0 + (r1 - r0))%nat with r1 in AB by lia.
    destruct (AB ltac:(lia)) as [_ AC].
    destruct (honest_supporter_exists _ _ S1) as [u [Hu Sp]]. unfold supports in Sp.
    rewrite (honest_no_equivocation _ (pc s r1) u (V2 r1) (fun y I => I) Hu) in Sp. cbn [orb] in Sp.
    apply votes_for_spec in Sp. destruct Sp as [x [Ix [Vx Ax]]].
    assert (A0 : anc t b0 (vblock x)) by (apply AC; [exact Ix|now rewrite Vx]).
    exact (anc_linear t b0 b1 (vblock x) A0 Ax).
Qed.

Theorem safety s b b' : reachable t ws honest s ->
  finalised t ws s b -> finalised t ws s b' -> same_chain t b b'.
Proof.
  intros R [r [C [SC SM]]] [r' [C' [SC' SM']]]. pose proof (reachable_valid s R) as VAL.
  pose proof (has_supermajority_mono t ws C (pc s r) b SC SM) as G.
  pose proof (has_supermajority_mono t ws C' (pc s r') b' SC' SM') as G'.
  destruct (le_ge_dec r r') as [L|L].
  - exact (safety_rounds s r r' b b' VAL L G G').
  - destruct (safety_rounds s r' r b' b VAL L G' G) as [A|A]; [now right|now left].
Qed.

End Safety.
