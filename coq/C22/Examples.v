(* C22/Examples.v -- concrete executions: non-vacuity of the safety theorem and tightness of the
   bound on the Byzantine weight. *)
From Coq Require Import List Arith Lia Bool NArith.
From Grandpa Require Import Tree Votes RoundSpec RoundProofs.
From C22 Require Import Model Proofs.
Import ListNotations.
Local Open Scope N_scope.

Definition ex_tree : tree := [0; 1]%nat.           (* chain 0 - 1 - 2 *)
Definition ex_fork : tree := [0; 0]%nat.           (* 0 - 1 and 0 - 2 *)
Definition ex_ws : list N := [1; 1; 1; 1].
Definition honest3 (v : nat) : bool := (v <? 3)%nat.   (* voter 3 is Byzantine *)
Definition honest2 (v : nat) : bool := (v <? 2)%nat.   (* voters 2 and 3 are Byzantine *)
Definition vt (v b : nat) : vote := mkVote v b 0.

Ltac solve_not_yet := let y := fresh in let H := fresh in
  intros y H; cbn in H; repeat (destruct H as [<-|H]; [cbn; lia|]); try contradiction.

(* Round 0: voters 0,1,2 prevote and precommit block 1, the Byzantine voter 3 prevotes both 1 and
   2.  Round 1: the honest voters see round 0 completable with estimate 1, prevote block 2 and
   precommit block 2.  Blocks 1 (round 0) and 2 (round 1) are finalised. *)
Definition ex_final : state :=
  mkState (fun r => match r with
                    | O => [vt 3 2; vt 3 1; vt 2 1; vt 1 1; vt 0 1]
                    | 1%nat => [vt 2 2; vt 1 2; vt 0 2]
                    | _ => [] end)
          (fun r => match r with
                    | O => [vt 2 1; vt 1 1; vt 0 1]
                    | 1%nat => [vt 2 2; vt 1 2; vt 0 2]
                    | _ => [] end).

(* reachability does not look inside the functions: build the state step by step and compare
   pointwise *)
Definition same_state (s s' : state) : Prop := (forall r, pv s r = pv s' r) /\ (forall r, pc s r = pc s' r).

Definition run0 : state :=
  let s := init in
  let s := add_pv s 0 (vt 0 1) in let s := add_pv s 0 (vt 1 1) in let s := add_pv s 0 (vt 2 1) in
  let s := add_pv s 0 (vt 3 1) in let s := add_pv s 0 (vt 3 2) in
  let s := add_pc s 0 (vt 0 1) in let s := add_pc s 0 (vt 1 1) in let s := add_pc s 0 (vt 2 1) in
  let s := add_pv s 1 (vt 0 2) in let s := add_pv s 1 (vt 1 2) in let s := add_pv s 1 (vt 2 2) in
  let s := add_pc s 1 (vt 0 2) in let s := add_pc s 1 (vt 1 2) in add_pc s 1 (vt 2 2).

Lemma run0_same : same_state run0 ex_final.
Proof. split; intro r; destruct r as [|[|r]]; reflexivity. Qed.

Lemma run0_reachable : reachable ex_tree ex_ws honest3 run0.
Proof.
  unfold run0.
  repeat match goal with
  | |- reachable _ _ _ (add_pv _ _ (vt 3 _)) => eapply reach_step; [|apply step_byz_prevote; reflexivity]
  | |- reachable _ _ _ (add_pv _ 0%nat _) =>
      eapply reach_step; [|apply step_prevote; [reflexivity|cbn; unfold in_tree, size; cbn; lia|solve_not_yet|exact I]]
  | |- reachable _ _ _ (add_pc _ 0%nat _) =>
      eapply reach_step; [|apply step_precommit; [reflexivity|solve_not_yet|cbn; unfold in_tree, size; cbn; lia|
         exists [vt 2 1; vt 1 1; vt 0 1]; split; [intros y H; cbn in H; cbn; tauto|vm_compute; reflexivity]|exact I]]
  | |- reachable _ _ _ (add_pv _ 1%nat _) =>
      eapply reach_step; [|apply step_prevote; [reflexivity|cbn; unfold in_tree, size; cbn; lia|solve_not_yet|
         exists 1%nat; split; [exists [vt 2 1; vt 1 1; vt 0 1], [vt 2 1; vt 1 1; vt 0 1];
           repeat split; try (intros y H; cbn in H; cbn; tauto); vm_compute; reflexivity|vm_compute; tauto]]]
  | |- reachable _ _ _ (add_pc _ 1%nat _) =>
      eapply reach_step; [|apply step_precommit; [reflexivity|solve_not_yet|cbn; unfold in_tree, size; cbn; lia|
         exists [vt 2 2; vt 1 2; vt 0 2]; split; [intros y H; cbn in H; cbn; tauto|vm_compute; reflexivity]|
         exists 1%nat; split; [exists [vt 2 1; vt 1 1; vt 0 1], [vt 2 1; vt 1 1; vt 0 1];
           repeat split; try (intros y H; cbn in H; cbn; tauto); vm_compute; reflexivity|vm_compute; tauto]]]
  end.
  apply reach_init.
Qed.

Lemma run0_finalised : finalised ex_tree ex_ws run0 1%nat /\ finalised ex_tree ex_ws run0 2%nat /\
  byz_weight ex_ws honest3 <= tolerance ex_ws /\ 0 < total ex_ws.
Proof.
  split; [|split; [|split]].
  - exists 0%nat, [vt 2 1; vt 1 1; vt 0 1]. split; [intros y H; cbn in H; cbn; tauto|vm_compute; reflexivity].
  - exists 1%nat, [vt 2 2; vt 1 2; vt 0 2]. split; [intros y H; cbn in H; cbn; tauto|vm_compute; reflexivity].
  - vm_compute. discriminate.
  - vm_compute. reflexivity.
Qed.

(* with Byzantine weight above the tolerance (2 of 4) two conflicting blocks are finalised in one
   round: the bound of the theorem cannot be dropped *)
Definition run_bad : state :=
  let s := init in
  let s := add_pv s 0 (vt 0 1) in let s := add_pv s 0 (vt 1 2) in
  let s := add_pv s 0 (vt 2 1) in let s := add_pv s 0 (vt 2 2) in
  let s := add_pv s 0 (vt 3 1) in let s := add_pv s 0 (vt 3 2) in
  let s := add_pc s 0 (vt 0 1) in let s := add_pc s 0 (vt 1 2) in
  let s := add_pc s 0 (vt 2 1) in let s := add_pc s 0 (vt 2 2) in
  let s := add_pc s 0 (vt 3 1) in add_pc s 0 (vt 3 2).

Lemma run_bad_reachable : reachable ex_fork ex_ws honest2 run_bad.
Proof.
  unfold run_bad.
  repeat match goal with
  | |- reachable _ _ _ (add_pv _ _ (vt 3 _)) => eapply reach_step; [|apply step_byz_prevote; reflexivity]
  | |- reachable _ _ _ (add_pv _ _ (vt 2 _)) => eapply reach_step; [|apply step_byz_prevote; reflexivity]
  | |- reachable _ _ _ (add_pc _ _ (vt 3 _)) => eapply reach_step; [|apply step_byz_precommit; reflexivity]
  | |- reachable _ _ _ (add_pc _ _ (vt 2 _)) => eapply reach_step; [|apply step_byz_precommit; reflexivity]
  | |- reachable _ _ _ (add_pv _ 0%nat _) =>
      eapply reach_step; [|apply step_prevote; [reflexivity|cbn; unfold in_tree, size; cbn; lia|solve_not_yet|exact I]]
  | |- reachable _ _ _ (add_pc _ 0%nat (vt 0 1)) =>
      eapply reach_step; [|apply step_precommit; [reflexivity|solve_not_yet|cbn; unfold in_tree, size; cbn; lia|
         exists [vt 3 1; vt 2 1; vt 0 1]; split; [intros y H; cbn in H; cbn; tauto|vm_compute; reflexivity]|exact I]]
  | |- reachable _ _ _ (add_pc _ 0%nat (vt 1 2)) =>
      eapply reach_step; [|apply step_precommit; [reflexivity|solve_not_yet|cbn; unfold in_tree, size; cbn; lia|
         exists [vt 3 2; vt 2 2; vt 1 2]; split; [intros y H; cbn in H; cbn; tauto|vm_compute; reflexivity]|exact I]]
  end.
  apply reach_init.
Qed.

Lemma run_bad_conflict : finalised ex_fork ex_ws run_bad 1%nat /\ finalised ex_fork ex_ws run_bad 2%nat /\
  ~ same_chain ex_fork 1%nat 2%nat /\ byz_weight ex_ws honest2 = tolerance ex_ws + 1.
Proof.
  split; [|split; [|split]].
  - exists 0%nat, [vt 3 1; vt 2 1; vt 0 1]. split; [intros y H; cbn in H; cbn; tauto|vm_compute; reflexivity].
  - exists 0%nat, [vt 3 2; vt 2 2; vt 1 2]. split; [intros y H; cbn in H; cbn; tauto|vm_compute; reflexivity].
  - intros [A|A]; apply ancb_spec in A; vm_compute in A; discriminate.
  - vm_compute. reflexivity.
Qed.
