(* C22/ExamplesImpl.v -- the round-change rule of lib/grandpa is NOT safe: a reachable execution of
   ModelImpl.step_impl with one Byzantine voter of four (Byzantine weight = tolerance, honest
   weight 3/4) that finalises two blocks on different forks.  It is the execution replayed on the
   Go code by corpus/C22/main.txt (finding round-advance-ignores-estimate).

   Tree: 0 - 1, 1 - 2, 1 - 3, 3 - 4.  Voters 0, 1, 2 honest, voter 3 Byzantine.
   Round 0: prevotes 0:2, 1:2, 2:3, Byzantine 3:2.  Voters 0 and 1 see a supermajority for block 2
   and precommit it, voter 2 (who has not seen the Byzantine prevote) sees one for block 1 only and
   precommits block 1; the Byzantine voter precommits block 2.  Voter 0 sees the precommits
   {0:2, 1:2, 3:2} and finalises block 2; voters 1 and 2 see {0:2, 1:2, 2:1} and finalise block 1.
   Round 1: voters 1 and 2 (best chain now through block 4) vote for block 4, a descendant of the
   block THEY finalised; with the Byzantine voter block 4 gets a supermajority and is finalised. *)
From Coq Require Import List Arith Lia Bool NArith.
From Grandpa Require Import Tree Votes RoundSpec RoundProofs.
From C22 Require Import Model Proofs ModelImpl Examples.
Import ListNotations.
Local Open Scope N_scope.

Definition ix_tree : tree := [0; 1; 1; 3]%nat.

Definition run_impl : state :=
  let s := init in
  let s := add_pv s 0 (vt 0 2) in let s := add_pv s 0 (vt 1 2) in let s := add_pv s 0 (vt 2 3) in
  let s := add_pv s 0 (vt 3 2) in
  let s := add_pc s 0 (vt 0 2) in let s := add_pc s 0 (vt 1 2) in let s := add_pc s 0 (vt 2 1) in
  let s := add_pc s 0 (vt 3 2) in
  let s := add_pv s 1 (vt 0 2) in let s := add_pv s 1 (vt 1 4) in let s := add_pv s 1 (vt 2 4) in
  let s := add_pv s 1 (vt 3 4) in
  let s := add_pc s 1 (vt 1 4) in let s := add_pc s 1 (vt 2 4) in add_pc s 1 (vt 3 4).

(* the votes cast, per round, as the driver's guard sees them *)
Definition run_impl_pvs : cast := [[vt 3 2; vt 2 3; vt 1 2; vt 0 2]; [vt 3 4; vt 2 4; vt 1 4; vt 0 2]].
Definition run_impl_pcs : cast := [[vt 3 2; vt 2 1; vt 1 2; vt 0 2]; [vt 3 4; vt 2 4; vt 1 4]].

Ltac in_tree_tac := cbn; unfold in_tree, size; cbn; lia.
Ltac sub_tac := let y := fresh in let H := fresh in intros y H; cbn in H; cbn; tauto.

Lemma run_impl_reachable : reachable_impl ix_tree ex_ws honest3 run_impl.
Proof.
  unfold run_impl.
  repeat match goal with
  | |- reachable_impl _ _ _ (add_pv _ _ (vt 3 _)) => eapply reachi_step; [|apply stepi_byz_prevote; reflexivity]
  | |- reachable_impl _ _ _ (add_pc _ _ (vt 3 _)) => eapply reachi_step; [|apply stepi_byz_precommit; reflexivity]
  | |- reachable_impl _ _ _ (add_pv _ 0%nat _) =>
      eapply reachi_step; [|apply stepi_prevote; [reflexivity|in_tree_tac|solve_not_yet|exact I]]
  | |- reachable_impl _ _ _ (add_pc _ 0%nat (vt 2 1)) =>
      eapply reachi_step; [|apply stepi_precommit; [reflexivity|solve_not_yet|in_tree_tac|
         exists [vt 2 3; vt 1 2; vt 0 2]; split; [sub_tac|vm_compute; reflexivity]|exact I]]
  | |- reachable_impl _ _ _ (add_pc _ 0%nat _) =>
      eapply reachi_step; [|apply stepi_precommit; [reflexivity|solve_not_yet|in_tree_tac|
         exists [vt 3 2; vt 1 2; vt 0 2]; split; [sub_tac|vm_compute; reflexivity]|exact I]]
  | |- reachable_impl _ _ _ (add_pv _ 1%nat (vt 0 2)) =>
      eapply reachi_step; [|apply stepi_prevote; [reflexivity|in_tree_tac|solve_not_yet|
         exists 2%nat, [vt 3 2; vt 1 2; vt 0 2]; split; [sub_tac|split; [vm_compute; reflexivity|vm_compute; tauto]]]]
  | |- reachable_impl _ _ _ (add_pv _ 1%nat _) =>
      eapply reachi_step; [|apply stepi_prevote; [reflexivity|in_tree_tac|solve_not_yet|
         exists 1%nat, [vt 2 1; vt 1 2; vt 0 2]; split; [sub_tac|split; [vm_compute; reflexivity|vm_compute; tauto]]]]
  | |- reachable_impl _ _ _ (add_pc _ 1%nat _) =>
      eapply reachi_step; [|apply stepi_precommit; [reflexivity|solve_not_yet|in_tree_tac|
         exists [vt 3 4; vt 2 4; vt 1 4]; split; [sub_tac|vm_compute; reflexivity]|
         exists 1%nat, [vt 2 1; vt 1 2; vt 0 2]; split; [sub_tac|split; [vm_compute; reflexivity|vm_compute; tauto]]]]
  end.
  apply reachi_init.
Qed.

Lemma run_impl_conflict :
  finalised ix_tree ex_ws run_impl 2%nat /\ finalised ix_tree ex_ws run_impl 4%nat /\
  ~ same_chain ix_tree 2%nat 4%nat /\ byz_weight ex_ws honest3 <= tolerance ex_ws /\ 0 < total ex_ws.
Proof.
  split; [|split; [|split; [|split]]].
  - exists 0%nat, [vt 3 2; vt 1 2; vt 0 2]. split; [sub_tac|vm_compute; reflexivity].
  - exists 1%nat, [vt 3 4; vt 2 4; vt 1 4]. split; [sub_tac|vm_compute; reflexivity].
  - intros [A|A]; apply ancb_spec in A; vm_compute in A; discriminate.
  - vm_compute. discriminate.
  - vm_compute. reflexivity.
Qed.

Lemma run_impl_cast : (forall r, pv run_impl r = at_round run_impl_pvs r) /\
                      (forall r, pc run_impl r = at_round run_impl_pcs r).
Proof. split; intro r; destruct r as [|[|[|r]]]; reflexivity. Qed.

(* the guard of the finding is true of this execution ... *)
Lemma run_impl_guard : later_below ix_tree ex_ws honest3 run_impl_pvs run_impl_pcs = true.
Proof. vm_compute. reflexivity. Qed.

(* ... and false of the two-round execution of the protocol model in Examples.v *)
Lemma run0_guard :
  later_below ex_tree ex_ws honest3
    [[vt 3 2; vt 3 1; vt 2 1; vt 1 1; vt 0 1]; [vt 2 2; vt 1 2; vt 0 2]]
    [[vt 2 1; vt 1 1; vt 0 1]; [vt 2 2; vt 1 2; vt 0 2]] = false.
Proof. vm_compute. reflexivity. Qed.

(* the execution is not one of the protocol model: voter 1's prevote of round 1 has no
   justification -- in no view of round 0 that is completable is the estimate an ancestor of
   block 4 (checked on the view voter 1 had: all prevotes, the precommits 0:2, 1:2, 2:1) *)
Lemma run_impl_premise_fails :
  follows_view ix_tree ex_ws [vt 3 2; vt 2 3; vt 1 2; vt 0 2] [vt 2 1; vt 1 2; vt 0 2] 4%nat = false.
Proof. vm_compute. reflexivity. Qed.

(* non-vacuity of the partial statement: the two-round execution run0 of Examples.v is also an
   execution of the implementation's rule (every later vote descends from the block finalised in
   round 0), its guard is false (run0_guard) and it finalises blocks 1 and 2 *)
Lemma run0_reachable_impl : reachable_impl ex_tree ex_ws honest3 run0.
Proof.
  unfold run0.
  repeat match goal with
  | |- reachable_impl _ _ _ (add_pv _ _ (vt 3 _)) => eapply reachi_step; [|apply stepi_byz_prevote; reflexivity]
  | |- reachable_impl _ _ _ (add_pv _ 0%nat _) =>
      eapply reachi_step; [|apply stepi_prevote; [reflexivity|in_tree_tac|solve_not_yet|exact I]]
  | |- reachable_impl _ _ _ (add_pc _ 0%nat _) =>
      eapply reachi_step; [|apply stepi_precommit; [reflexivity|solve_not_yet|in_tree_tac|
         exists [vt 2 1; vt 1 1; vt 0 1]; split; [sub_tac|vm_compute; reflexivity]|exact I]]
  | |- reachable_impl _ _ _ (add_pv _ 1%nat _) =>
      eapply reachi_step; [|apply stepi_prevote; [reflexivity|in_tree_tac|solve_not_yet|
         exists 1%nat, [vt 2 1; vt 1 1; vt 0 1]; split; [sub_tac|split; [vm_compute; reflexivity|vm_compute; tauto]]]]
  | |- reachable_impl _ _ _ (add_pc _ 1%nat _) =>
      eapply reachi_step; [|apply stepi_precommit; [reflexivity|solve_not_yet|in_tree_tac|
         exists [vt 2 2; vt 1 2; vt 0 2]; split; [sub_tac|vm_compute; reflexivity]|
         exists 1%nat, [vt 2 1; vt 1 1; vt 0 1]; split; [sub_tac|split; [vm_compute; reflexivity|vm_compute; tauto]]]]
  end.
  apply reachi_init.
Qed.

Lemma run0_cast :
  (forall r, pv run0 r = at_round [[vt 3 2; vt 3 1; vt 2 1; vt 1 1; vt 0 1]; [vt 2 2; vt 1 2; vt 0 2]] r) /\
  (forall r, pc run0 r = at_round [[vt 2 1; vt 1 1; vt 0 1]; [vt 2 2; vt 1 2; vt 0 2]] r).
Proof. split; intro r; destruct r as [|[|[|r]]]; reflexivity. Qed.
