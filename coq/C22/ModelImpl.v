(* C22/ModelImpl.v -- the round-change rule lib/grandpa actually implements, and the executable
   trace predicates the multi-round trace validation evaluates (definitions only).

   finalisation.go: a node leaves round r as soon as attemptToFinalize finalised SOME block F
   (more than 2/3 of the precommits in its own view, F on the chain of its pre-voted block);
   initiateRound makes F the head; determinePreVote of round r+1 votes for the head of the node's
   best chain (or the primary's block), which is only known to descend from F.  Compared with the
   paper rule of C22/Model.v ([follows_previous]: the vote is >= the estimate of round r in a view
   in which round r is completable) the justification of an honest vote of round r+1 is weakened
   to [follows_finalised]: the vote descends from a block with a supermajority of precommits in
   some view of round r.  Everything else is the transition system of Model.v. *)
From Coq Require Import List Arith Bool NArith.
From Grandpa Require Import Tree Votes RoundSpec.
From C22 Require Import Model.
Import ListNotations.

Section ProtocolImpl.
Variable t : tree.
Variable ws : list N.
Variable honest : nat -> bool.

Definition follows_finalised (s : state) (r : nat) (b : block) : Prop :=
  match r with
  | O => True
  | S r' => exists F C, subset C (pc s r') /\ has_supermajority t ws C F = true /\ anc t F b
  end.

Inductive step_impl : state -> state -> Prop :=
| stepi_byz_prevote s r x : honest (vvoter x) = false -> step_impl s (add_pv s r x)
| stepi_byz_precommit s r x : honest (vvoter x) = false -> step_impl s (add_pc s r x)
| stepi_prevote s r x : honest (vvoter x) = true -> in_tree t (vblock x) ->
    not_yet (pv s r) (vvoter x) -> follows_finalised s r (vblock x) -> step_impl s (add_pv s r x)
| stepi_precommit s r x : honest (vvoter x) = true ->
    not_yet (pc s r) (vvoter x) ->
    in_tree t (vblock x) ->
    (exists V, subset V (pv s r) /\ has_supermajority t ws V (vblock x) = true) ->
    follows_finalised s r (vblock x) -> step_impl s (add_pc s r x).

Inductive reachable_impl : state -> Prop :=
| reachi_init : reachable_impl init
| reachi_step s s' : reachable_impl s -> step_impl s s' -> reachable_impl s'.

(* ---- the cross-round invariant as a predicate on a state (conclusion of
   C22_later_rounds_above): an honest vote of a later round is for a descendant of every block
   that has a supermajority of the precommits cast in an earlier round ---- *)
Definition later_above (s : state) : Prop :=
  forall r B r' x, (r < r')%nat -> in_tree t B -> has_supermajority t ws (pc s r) B = true ->
    In x (pv s r') \/ In x (pc s r') -> honest (vvoter x) = true -> anc t B (vblock x).

(* ---- executable versions over the votes cast per round (round index -> votes), for the driver *)
Definition cast := list (list vote).
Definition at_round (c : cast) (r : nat) : list vote := nth r c [].
Definition state_of (pvs pcs : cast) : state := mkState (at_round pvs) (at_round pcs).

Definition below_in (B : block) (l : list vote) : bool :=
  existsb (fun x => honest (vvoter x) && negb (ancb t B (vblock x))) l.

(* the guard of finding round-advance-ignores-estimate: the invariant is broken *)
Definition later_below (pvs pcs : cast) : bool :=
  let rounds := seq 0 (Nat.max (length pvs) (length pcs)) in
  existsb (fun r =>
    existsb (fun B =>
      has_supermajority t ws (at_round pcs r) B &&
      existsb (fun r' => (r <? r')%nat && (below_in B (at_round pvs r') || below_in B (at_round pcs r')))
              rounds)
      (blocks t))
    rounds.

(* the premise [follows_previous] of Model.step evaluated on ONE view (V, C) of the previous
   round: that round is completable in the view and the vote is >= its estimate *)
Definition follows_view (V C : list vote) (b : block) : bool :=
  completable t ws V C &&
  match estimate t ws V C with Some E => ancb t E b | None => false end.

End ProtocolImpl.
