(* C22/Properties.v -- property C22: GRANDPA finality is safe under a Byzantine minority.
   Statements only.  The protocol is the transition system of C22/Model.v: all interleavings of
   vote casting, views = arbitrary subsets of the votes cast (delay, reordering, loss), Byzantine
   voters cast anything at any time; unbounded trees, voters, weights and rounds.  ghost, estimate,
   completable, has_supermajority are the functions of Grandpa/RoundSpec.v + Votes.v that C20 ties
   to pkg/finality-grandpa and C21 to lib/grandpa's tallies. *)
From Coq Require Import List NArith.
From Grandpa Require Import Tree Votes RoundSpec.
From C22 Require Import Model Proofs Examples ModelImpl ProofsImpl ExamplesImpl.
Import ListNotations.
Local Open Scope N_scope.

(* In every reachable state, if the Byzantine voters weigh at most the tolerance
   total - threshold (< 1/3 of the total), no two finalised blocks are on different forks --
   whichever rounds they were finalised in. *)
Theorem C22_safety : forall t ws honest,
  0 < total ws -> byz_weight ws honest <= tolerance ws ->
  forall s b b', reachable t ws honest s ->
  finalised t ws s b -> finalised t ws s b' -> same_chain t b b'.
Proof. exact safety. Qed.
Print Assumptions C22_safety.

(* the hypothesis is "honest voters hold more than two thirds of the weight" *)
Theorem C22_tolerance_third : forall ws, 0 < total ws ->
  3 * tolerance ws < total ws /\ 2 * total ws < 3 * threshold ws.
Proof. intros ws H. split; [now apply tolerance_lt_third|now apply three_threshold]. Qed.
Print Assumptions C22_tolerance_third.

(* quorum intersection: two supermajorities in one vote set share an honest voter *)
Theorem C22_quorum_intersection : forall t ws honest,
  0 < total ws -> byz_weight ws honest <= tolerance ws -> forall S a b,
  has_supermajority t ws S a = true -> has_supermajority t ws S b = true ->
  exists v, honest v = true /\ supports t S v a = true /\ supports t S v b = true.
Proof. exact quorum_intersection. Qed.
Print Assumptions C22_quorum_intersection.

(* the invariant behind the cross-round argument: once B has a supermajority of precommits in
   round r0, every honest prevote and precommit of every later round is for B or a descendant *)
Theorem C22_later_rounds_above : forall t ws honest s B r0 k,
  0 < total ws -> byz_weight ws honest <= tolerance ws ->
  reachable t ws honest s -> in_tree t B -> has_supermajority t ws (pc s r0) B = true -> (0 < k)%nat ->
  (forall x, In x (pv s (r0 + k)) -> honest (vvoter x) = true -> anc t B (vblock x)) /\
  (forall x, In x (pc s (r0 + k)) -> honest (vvoter x) = true -> anc t B (vblock x)).
Proof.
  intros t ws honest s B r0 k TP BYZ R IB SM K.
  exact (proj2 (proj2 (rounds_after t ws honest TP BYZ s (reachable_valid t ws honest s R) B r0 IB SM k)) K).
Qed.
Print Assumptions C22_later_rounds_above.

(* non-vacuity: a two-round execution with an equivocating Byzantine voter in which block 1 is
   finalised in round 0 and its child 2 in round 1 *)
Example C22_nonvacuous :
  reachable ex_tree ex_ws honest3 run0 /\
  finalised ex_tree ex_ws run0 1%nat /\ finalised ex_tree ex_ws run0 2%nat /\
  byz_weight ex_ws honest3 <= tolerance ex_ws /\ 0 < total ex_ws.
Proof. split; [exact run0_reachable|exact run0_finalised]. Qed.

(* the bound is tight: with Byzantine weight tolerance + 1 (2 voters of 4) two conflicting
   blocks are finalised *)
Theorem C22_bound_tight :
  reachable ex_fork ex_ws honest2 run_bad /\
  finalised ex_fork ex_ws run_bad 1%nat /\ finalised ex_fork ex_ws run_bad 2%nat /\
  ~ same_chain ex_fork 1%nat 2%nat /\ byz_weight ex_ws honest2 = tolerance ex_ws + 1.
Proof. split; [exact run_bad_reachable|exact run_bad_conflict]. Qed.
Print Assumptions C22_bound_tight.

(* ============ the round-change rule lib/grandpa implements (ModelImpl.v) ==================== *)
(* lib/grandpa leaves a round as soon as it finalised some block and then votes for a descendant
   of that block ([follows_finalised]) instead of a block >= the previous round's estimate in a
   completable view ([follows_previous], the paper's rule, which C22_safety is about).  The
   multi-round trace validation (props/C22, input keyword w) therefore does not demand the step
   premises of Model.step from the implementation; it evaluates the cross-round invariant of
   C22_later_rounds_above on the votes cast ([later_below], the guard of finding
   round-advance-ignores-estimate). *)

(* In every execution of the protocol model the guard is false ... *)
Theorem C22_protocol_guard_false : forall t ws honest,
  0 < total ws -> byz_weight ws honest <= tolerance ws -> forall s pvs pcs,
  reachable t ws honest s ->
  (forall r, pv s r = at_round pvs r) -> (forall r, pc s r = at_round pcs r) ->
  later_below t ws honest pvs pcs = false.
Proof. exact protocol_guard_false. Qed.
Print Assumptions C22_protocol_guard_false.

(* ... and every execution of the implementation's rule in which the guard is false is safe
   (the full statement of C22_safety under the negation of the finding's guard) ... *)
Theorem C22_safety_impl_partial : forall t ws honest,
  0 < total ws -> byz_weight ws honest <= tolerance ws -> forall s pvs pcs b b',
  reachable_impl t ws honest s ->
  (forall r, pv s r = at_round pvs r) -> (forall r, pc s r = at_round pcs r) ->
  later_below t ws honest pvs pcs = false ->
  finalised t ws s b -> finalised t ws s b' -> same_chain t b b'.
Proof. exact safety_impl_partial. Qed.
Print Assumptions C22_safety_impl_partial.

(* ... but the implementation's rule is not safe: with one Byzantine voter of four (honest
   weight 3/4 > 2/3, Byzantine weight = tolerance) a reachable state finalises blocks 2 and 4 on
   different forks; the guard is true of it.  The same execution is replayed on the Go code
   (corpus/C22/main.txt): voter 0 finalises block 2 in round 5, voters 1 and 2 block 4 in round 6. *)
Theorem C22_impl_round_rule_refuted :
  reachable_impl ix_tree ex_ws honest3 run_impl /\
  finalised ix_tree ex_ws run_impl 2%nat /\ finalised ix_tree ex_ws run_impl 4%nat /\
  ~ same_chain ix_tree 2%nat 4%nat /\
  byz_weight ex_ws honest3 <= tolerance ex_ws /\ 0 < total ex_ws /\
  later_below ix_tree ex_ws honest3 run_impl_pvs run_impl_pcs = true /\
  (forall r, pv run_impl r = at_round run_impl_pvs r) /\ (forall r, pc run_impl r = at_round run_impl_pcs r).
Proof.
  split; [exact run_impl_reachable|].
  destruct run_impl_conflict as [A [B [C [D E]]]]. destruct run_impl_cast as [F G].
  repeat split; try assumption; exact run_impl_guard.
Qed.
Print Assumptions C22_impl_round_rule_refuted.

(* non-vacuity of C22_safety_impl_partial: run0 is an execution of the implementation's rule too,
   its guard is false, it finalises block 1 in round 0 and block 2 in round 1 *)
Example C22_impl_partial_nonvacuous :
  reachable_impl ex_tree ex_ws honest3 run0 /\
  later_below ex_tree ex_ws honest3
    [[vt 3 2; vt 3 1; vt 2 1; vt 1 1; vt 0 1]; [vt 2 2; vt 1 2; vt 0 2]]
    [[vt 2 1; vt 1 1; vt 0 1]; [vt 2 2; vt 1 2; vt 0 2]] = false /\
  finalised ex_tree ex_ws run0 1%nat /\ finalised ex_tree ex_ws run0 2%nat.
Proof.
  split; [exact run0_reachable_impl|]. split; [exact run0_guard|].
  destruct run0_finalised as [A [B _]]. split; assumption.
Qed.
