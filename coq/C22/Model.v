(* C22/Model.v -- the GRANDPA voting protocol as an asynchronous transition system
   (definitions only).

   Global state: for every round, all the prevotes and precommits that have ever been cast (by
   anyone, to anyone).  A voter acts on a VIEW: any subset of the votes cast so far -- this is
   message delay, reordering and loss.  Byzantine voters cast any vote at any time, as often as
   they like (equivocation, different votes to different voters).  An honest voter
     - casts at most one prevote and one precommit per round,
     - prevotes in round r+1 for a block >= the estimate E of round r in some view in which round
       r is completable,
     - precommits in round r only for a block with a supermajority of prevotes in some view V of
       the round (the paper: g(V); lib/grandpa: g(V) capped at a pending authority change, i.e.
       an ancestor of g(V)), and (r > 0) only if it is >= such an estimate of round r-1,
   where ghost / estimate / completable are literally the functions of Grandpa/RoundSpec.v that
   property C20 ties to pkg/finality-grandpa's Round, and supermajority is the tally C18/C20/C21
   use.  A block is finalised (by anyone who sees it) when some round's precommits contain a
   supermajority for it. *)
From Coq Require Import List Arith Bool NArith.
From Grandpa Require Import Tree Votes RoundSpec.
Import ListNotations.

Section Protocol.
Variable t : tree.
Variable ws : list N.           (* voter weights *)
Variable honest : nat -> bool.  (* which voters follow the protocol *)

Record state := mkState { pv : nat -> list vote; pc : nat -> list vote }.

Definition init : state := mkState (fun _ => []) (fun _ => []).

Definition add_at (f : nat -> list vote) (r : nat) (x : vote) : nat -> list vote :=
  fun r' => if (r' =? r)%nat then x :: f r' else f r'.
Definition add_pv (s : state) (r : nat) (x : vote) : state := mkState (add_at (pv s) r x) (pc s).
Definition add_pc (s : state) (r : nat) (x : vote) : state := mkState (pv s) (add_at (pc s) r x).

Definition byz_weight : N := wsum ws (fun v => negb (honest v)).

(* in some view of round r the round is completable with estimate E *)
Definition completable_view (s : state) (r : nat) (E : block) : Prop :=
  exists V C, subset V (pv s r) /\ subset C (pc s r) /\
              completable t ws V C = true /\ estimate t ws V C = Some E.

(* the justification an honest voter needs to act in round r on block b, from round r-1 *)
Definition follows_previous (s : state) (r : nat) (b : block) : Prop :=
  match r with
  | O => True
  | S r' => exists E, completable_view s r' E /\ anc t E b
  end.

Definition not_yet (l : list vote) (v : nat) : Prop := forall y, In y l -> vvoter y <> v.

Inductive step : state -> state -> Prop :=
| step_byz_prevote s r x : honest (vvoter x) = false -> step s (add_pv s r x)
| step_byz_precommit s r x : honest (vvoter x) = false -> step s (add_pc s r x)
| step_prevote s r x : honest (vvoter x) = true -> in_tree t (vblock x) ->
    not_yet (pv s r) (vvoter x) -> follows_previous s r (vblock x) -> step s (add_pv s r x)
| step_precommit s r x : honest (vvoter x) = true ->
    not_yet (pc s r) (vvoter x) ->
    in_tree t (vblock x) ->
    (exists V, subset V (pv s r) /\ has_supermajority t ws V (vblock x) = true) ->
    follows_previous s r (vblock x) -> step s (add_pc s r x).

Inductive reachable : state -> Prop :=
| reach_init : reachable init
| reach_step s s' : reachable s -> step s s' -> reachable s'.

(* some voter can finalise b: a commit (a set of precommits of one round) with a supermajority *)
Definition finalised (s : state) (b : block) : Prop :=
  exists r C, subset C (pc s r) /\ has_supermajority t ws C b = true.

End Protocol.
