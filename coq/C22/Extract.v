From Coq Require Import Extraction ExtrOcamlBasic.
From Common Require Import Bytes Drv Outcome.
From Grandpa Require Import Tree Votes RoundSpec.
From C21 Require Import Model Spec.
From C22 Require Import ModelImpl.
(* the protocol model of C22 is a relation (Prop); the trace validation replays the per-voter
   mirror of lib/grandpa (C21.Model) and evaluates the step premises of C22.Model.step with the
   specification functions below *)
Extraction "model.ml" drv_b2n drv_n2b drv_z_of_n drv_n_of_z drv_nat_of_n drv_n_of_nat
  mkEnv mkGV mkSt mkMsg validate_vote_message store_own prevoted_block determine_precommit
  attempt_to_finalize total_votes threshold number known no_tie prevote_candidates hash_conflict
  spec_supermajority spec_ghost spec_tolerant stored_ok lookup depth ancb
  determine_prevote spec_votes unit_ws later_below follows_view has_supermajority.
