(* C22/ProofsImpl.v -- about the round-change rule of lib/grandpa (ModelImpl.v):
   - the cross-round invariant [later_above] holds in every reachable state of the protocol model
     (Model.v), and its executable negation [later_below] (the guard of the recorded finding) is
     false on the votes cast in such a state;
   - for the implementation's rule, safety holds in every reachable state in which the guard is
     false (the partial statement), and fails in general (ExamplesImpl.v). *)
From Coq Require Import List Arith Lia Bool NArith ZifyN ZifyNat ZifyBool.
From Grandpa Require Import Tree Votes RoundSpec RoundProofs.
From C22 Require Import Model Proofs ModelImpl.
Import ListNotations.
Local Open Scope N_scope.

Section Impl.
Variable t : tree.
Variable ws : list N.
Variable honest : nat -> bool.
Hypothesis TP : 0 < total ws.
Hypothesis BYZ : byz_weight ws honest <= tolerance ws.

Notation state := Model.state.

(* ---------------- the invariant holds in the protocol model ---------------- *)
Lemma protocol_later_above s : reachable t ws honest s -> later_above t ws honest s.
Proof.
  intros R r B r' x LT IB SM I Hx.
  pose proof (rounds_after t ws honest TP BYZ s (reachable_valid t ws honest s R) B r IB SM (r' - r)) as [_ [_ AB]].
  replace (r + (r' - r))%nat with r' in AB by lia.
  destruct (AB ltac:(lia)) as [A1 A2]. destruct I as [I|I]; auto.
Qed.

(* ---------------- invariants of the implementation's rule ---------------- *)
Definition valid_impl (s : state) : Prop :=
  (forall r, one_vote honest (pv s r)) /\ (forall r, one_vote honest (pc s r)) /\
  (forall r x, In x (pc s r) -> honest (vvoter x) = true -> in_tree t (vblock x)).

Lemma valid_impl_init : valid_impl init.
Proof. repeat split; cbn; intros; try contradiction; intros ? ? []. Qed.

Lemma valid_impl_step s s' : valid_impl s -> step_impl t ws honest s s' -> valid_impl s'.
Proof.
  intros [V1 [V2 V3]] ST.
  inversion ST as [s0 r x HB|s0 r x HB|s0 r x HH IT NY FP|s0 r x HH NY ITc GV FP]; subst.
  - split; [|split; [exact V2|exact V3]].
    intro r'. cbn. unfold add_at. destruct (r' =? r)%nat; [|apply V1].
    apply one_vote_add; [apply V1|now left].
  - split; [exact V1|split].
    + intro r'. cbn. unfold add_at. destruct (r' =? r)%nat; [|apply V2].
      apply one_vote_add; [apply V2|now left].
    + intros r' y I Hy. cbn in I. apply in_add_at in I. destruct I as [[-> ->]|I]; [congruence|].
      exact (V3 r' y I Hy).
  - split; [|split; [exact V2|exact V3]].
    intro r'. cbn. unfold add_at. destruct (Nat.eqb_spec r' r) as [->|N]; [|apply V1].
    apply one_vote_add; [apply V1|now right].
  - split; [exact V1|split].
    + intro r'. cbn. unfold add_at. destruct (Nat.eqb_spec r' r) as [->|N]; [|apply V2].
      apply one_vote_add; [apply V2|now right].
    + intros r' y I Hy. cbn in I. apply in_add_at in I. destruct I as [[-> ->]|I]; [exact ITc|].
      exact (V3 r' y I Hy).
Qed.

Lemma reachable_impl_valid s : reachable_impl t ws honest s -> valid_impl s.
Proof. induction 1; [apply valid_impl_init|eapply valid_impl_step; eauto]. Qed.

(* ---------------- safety from the invariant ---------------- *)
Lemma supermajority_in_tree_impl s r b : valid_impl s ->
  has_supermajority t ws (pc s r) b = true -> in_tree t b.
Proof.
  intros [_ [V2 V3]] SM.
  destruct (honest_supporter_exists t ws honest TP BYZ _ _ SM) as [u [Hu Sp]]. unfold supports in Sp.
  rewrite (honest_no_equivocation honest _ (pc s r) u (V2 r) (fun y I => I) Hu) in Sp. cbn [orb] in Sp.
  apply votes_for_spec in Sp. destruct Sp as [x [Ix [Vx Ax]]].
  assert (IT : in_tree t (vblock x)) by (apply (V3 r x Ix); now rewrite Vx).
  exact (anc_in_tree t b (vblock x) Ax IT).
Qed.

Lemma safety_rounds_impl s r0 r1 b0 b1 : valid_impl s -> later_above t ws honest s -> (r0 <= r1)%nat ->
  has_supermajority t ws (pc s r0) b0 = true -> has_supermajority t ws (pc s r1) b1 = true ->
  same_chain t b0 b1.
Proof.
  intros VAL LA LE S0 S1. pose proof VAL as [_ [V2 _]].
  destruct (Nat.eq_dec r0 r1) as [->|NE].
  - exact (supermajorities_one_chain t ws (pc s r1) b0 b1 TP
             (view_tolerant ws honest TP BYZ _ _ (V2 r1) (fun y I => I)) S0 S1).
  - pose proof (supermajority_in_tree_impl s r0 b0 VAL S0) as IB.
    destruct (honest_supporter_exists t ws honest TP BYZ _ _ S1) as [u [Hu Sp]]. unfold supports in Sp.
    rewrite (honest_no_equivocation honest _ (pc s r1) u (V2 r1) (fun y I => I) Hu) in Sp. cbn [orb] in Sp.
    apply votes_for_spec in Sp. destruct Sp as [x [Ix [Vx Ax]]].
    assert (A0 : anc t b0 (vblock x)).
    { apply (LA r0 b0 r1 x); [lia|exact IB|exact S0|now right|now rewrite Vx]. }
    exact (anc_linear t b0 b1 (vblock x) A0 Ax).
Qed.

Theorem safety_impl_invariant s b b' : reachable_impl t ws honest s -> later_above t ws honest s ->
  finalised t ws s b -> finalised t ws s b' -> same_chain t b b'.
Proof.
  intros R LA [r [C [SC SM]]] [r' [C' [SC' SM']]]. pose proof (reachable_impl_valid s R) as VAL.
  pose proof (has_supermajority_mono t ws C (pc s r) b SC SM) as G.
  pose proof (has_supermajority_mono t ws C' (pc s r') b' SC' SM') as G'.
  destruct (le_ge_dec r r') as [L|L].
  - exact (safety_rounds_impl s r r' b b' VAL LA L G G').
  - destruct (safety_rounds_impl s r' r b' b VAL LA L G' G) as [A|A]; [now right|now left].
Qed.

(* ---------------- the executable guard ---------------- *)
Lemma no_supermajority_nil b : has_supermajority t ws [] b = false.
Proof.
  unfold has_supermajority, weight. apply N.leb_gt.
  assert (E : wsum ws (fun v => supports t [] v b) = 0).
  { unfold wsum. apply wsum_from_false. intro v. reflexivity. }
  rewrite E. pose proof (three_threshold ws TP). lia.
Qed.

Lemma at_round_beyond (c : cast) r : (length c <= r)%nat -> at_round c r = [].
Proof. intro H. unfold at_round. now apply nth_overflow. Qed.

Lemma below_in_spec B l : below_in t honest B l = true <->
  exists x, In x l /\ honest (vvoter x) = true /\ ~ anc t B (vblock x).
Proof.
  unfold below_in. rewrite existsb_exists. split.
  - intros [x [I H]]. apply andb_true_iff in H. destruct H as [H N]. apply negb_true_iff in N.
    apply ancb_false in N. eauto.
  - intros [x [I [H N]]]. exists x. split; [exact I|]. apply andb_true_iff. split; [exact H|].
    apply negb_true_iff. now apply ancb_false.
Qed.

(* guard false  <->  the invariant holds of the votes cast *)
Lemma later_below_false_iff pvs pcs :
  later_below t ws honest pvs pcs = false <-> later_above t ws honest (state_of pvs pcs).
Proof.
  set (R := Nat.max (length pvs) (length pcs)).
  split.
  - intros G r B r' x LT IB SM I Hx. cbn [state_of pv pc] in *.
    destruct (ancb t B (vblock x)) eqn:A; [now apply ancb_spec|]. exfalso.
    assert (Rr : (r < R)%nat).
    { destruct (Nat.lt_ge_cases r (length pcs)) as [L|L]; [unfold R; lia|].
      rewrite (at_round_beyond pcs r L), no_supermajority_nil in SM. discriminate. }
    assert (Rr' : (r' < R)%nat).
    { destruct (Nat.lt_ge_cases r' R) as [L|L]; [exact L|]. exfalso.
      destruct I as [I|I]; rewrite at_round_beyond in I; try contradiction; unfold R in L; lia. }
    assert (later_below t ws honest pvs pcs = true); [|congruence].
    unfold later_below. fold R. apply existsb_exists. exists r. split; [apply in_seq; lia|].
    apply existsb_exists. exists B. split; [now apply in_blocks|].
    apply andb_true_iff. split; [exact SM|].
    apply existsb_exists. exists r'. split; [apply in_seq; lia|].
    apply andb_true_iff. split; [apply Nat.ltb_lt; lia|].
    apply orb_true_iff. apply ancb_false in A.
    destruct I as [I|I]; [left|right]; apply below_in_spec; exists x; auto.
  - intro LA. destruct (later_below t ws honest pvs pcs) eqn:G; [exfalso|reflexivity].
    unfold later_below in G. fold R in G. apply existsb_exists in G. destruct G as [r [_ G]].
    apply existsb_exists in G. destruct G as [B [IB G]]. apply in_blocks in IB.
    apply andb_true_iff in G. destruct G as [SM G].
    apply existsb_exists in G. destruct G as [r' [_ G]].
    apply andb_true_iff in G. destruct G as [LT G]. apply Nat.ltb_lt in LT.
    apply orb_true_iff in G.
    destruct G as [G|G]; apply below_in_spec in G; destruct G as [x [I [Hx N]]]; apply N;
      apply (LA r B r' x LT IB SM); auto; cbn [state_of pv pc]; auto.
Qed.

(* two states with the same votes cast satisfy the invariant together *)
Lemma later_above_ext s s' : (forall r, pv s r = pv s' r) -> (forall r, pc s r = pc s' r) ->
  later_above t ws honest s -> later_above t ws honest s'.
Proof.
  intros E1 E2 LA r B r' x LT IB SM I Hx. rewrite <- E2 in SM. rewrite <- E1, <- E2 in I.
  exact (LA r B r' x LT IB SM I Hx).
Qed.

(* in the protocol model the guard is false *)
Theorem protocol_guard_false s pvs pcs : reachable t ws honest s ->
  (forall r, pv s r = at_round pvs r) -> (forall r, pc s r = at_round pcs r) ->
  later_below t ws honest pvs pcs = false.
Proof.
  intros R E1 E2. apply later_below_false_iff.
  apply (later_above_ext s); [exact E1|exact E2|now apply protocol_later_above].
Qed.

(* the implementation's rule is safe whenever the guard is false *)
Theorem safety_impl_partial s pvs pcs b b' : reachable_impl t ws honest s ->
  (forall r, pv s r = at_round pvs r) -> (forall r, pc s r = at_round pcs r) ->
  later_below t ws honest pvs pcs = false ->
  finalised t ws s b -> finalised t ws s b' -> same_chain t b b'.
Proof.
  intros R E1 E2 G. apply (safety_impl_invariant s b b' R).
  apply (later_above_ext (state_of pvs pcs)); [intro r; symmetry; apply E1|intro r; symmetry; apply E2|].
  now apply later_below_false_iff.
Qed.

End Impl.
