From Coq Require Import Extraction ExtrOcamlBasic.
From Common Require Import Bytes Drv Outcome.
From C25 Require Import Model.
Extraction "model.ml" drv_b2n drv_n2b drv_z_of_n drv_n_of_z drv_nat_of_n drv_n_of_nat
  f64_bits f64_of_bits f64_nan f64_le f64_gt f64_one f64_sub ratio_of theta_of p_of
  calculate_threshold threshold_of_p check_primary_threshold secondary_slot_author
  err_zero err_gt_one err_16_bytes split128 le_val N.leb N.ltb N.add N.mul Z.ltb.
