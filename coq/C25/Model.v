(* C25/Model.v — BABE lottery arithmetic (lib/babe/crypto.go, lib/babe/secondary.go).
   Definitions only.

   float64 is Flocq's IEEE-754 binary64 (BinarySingleNaN: prec 53, emax 1024, one NaN);
   Go's float64 division / subtraction / integer conversion are Bdiv / Bminus /
   binary_normalize with round-to-nearest-even.  math.Pow is NOT modelled: it is the Section
   variable [pow64] (the harness records math.Pow's result bits for every case so that the
   extracted model can be run; the theorems state what they need of it as hypotheses).
   Everything after the last float operation (big.Rat.SetFloat64, the shift by 128 bits, the
   Euclidean big.Int.Div, the saturation and the 16-byte check) is exact integer arithmetic. *)
From Coq Require Import ZArith NArith List Bool.
From Flocq Require Import Core.Zaux IEEE754.BinarySingleNaN.
From Common Require Import Bytes Outcome Blake2b.
From C25 Require Export Secondary.
Import ListNotations.
Local Open Scope Z_scope.

(* ------------------------------------------------------------------ binary64 *)
Definition prec : Z := 53.
Definition emax : Z := 1024.
Lemma prec64_gt_0 : FLX.Prec_gt_0 prec. Proof. reflexivity. Qed.
Lemma prec64_lt_emax : prec < emax. Proof. reflexivity. Qed.

Definition f64 : Set := binary_float prec emax.

(* exact value m * 2^e rounded to nearest even (exact whenever representable) *)
Definition f64_norm (m e : Z) (szero : bool) : f64 :=
  binary_normalize prec emax prec64_gt_0 prec64_lt_emax mode_NE m e szero.
(* float64(x) for a Go integer x (uint64 or int) *)
Definition f64_of_int (z : Z) : f64 := f64_norm z 0 false.
Definition f64_div : f64 -> f64 -> f64 := Bdiv (prec_gt_0_ := prec64_gt_0) (prec_lt_emax_ := prec64_lt_emax) mode_NE.
Definition f64_sub : f64 -> f64 -> f64 := Bminus (prec_gt_0_ := prec64_gt_0) (prec_lt_emax_ := prec64_lt_emax) mode_NE.
Definition f64_one : f64 := f64_of_int 1.
(* Go's x > y on float64: false when unordered *)
Definition f64_gt (x y : f64) : bool :=
  match Bcompare x y with Some Gt => true | _ => false end.

Definition f64_le (x y : f64) : bool :=
  match Bcompare x y with Some Lt | Some Eq => true | _ => false end.
Definition f64_nan : f64 := B754_nan.

(* IEEE-754 interchange encoding (math.Float64bits / Float64frombits); NaN payloads are
   collapsed to Go's canonical quiet NaN *)
Definition sign_bit (s : bool) : N := if s then 9223372036854775808%N else 0%N.
Definition two52 : N := 4503599627370496%N.
Definition f64_bits (x : f64) : N :=
  match x with
  | B754_zero s => sign_bit s
  | B754_infinity s => (sign_bit s + 2047 * two52)%N
  | B754_nan => 9221120237041090561%N
  | B754_finite s m e _ =>
      (sign_bit s + (if (N.pos m <? two52)%N then N.pos m
                     else Z.to_N (e + 1075) * two52 + (N.pos m - two52)))%N
  end.
Definition f64_of_bits (b : N) : f64 :=
  let s := N.testbit b 63 in
  let ef := ((b / two52) mod 2048)%N in
  let mf := (b mod two52)%N in
  if (ef =? 2047)%N then (if (mf =? 0)%N then B754_infinity s else B754_nan)
  else if (ef =? 0)%N then
    (if (mf =? 0)%N then B754_zero s else f64_norm (cond_Zopp s (Z.of_N mf)) (-1074) s)
  else f64_norm (cond_Zopp s (Z.of_N (mf + two52))) (Z.of_N ef - 1075) s.

(* ------------------------------------------------------------------ CalculateThreshold *)
Definition two128 : Z := 340282366920938463463374607431768211456.
Definition max128 : N := 340282366920938463463374607431768211455%N.

(* floor (2^128 * p) as computed by
     pRat := new(big.Rat).SetFloat64(p); numer := shift * pRat.Num(); numer.Div(numer, pRat.Denom())
   (big.Int.Div is Euclidean: floor for a positive divisor); None when SetFloat64 returns nil *)
Definition scaled_floor (p : f64) : option Z :=
  match p with
  | B754_zero _ => Some 0
  | B754_finite s m e _ =>
      let mm := cond_Zopp s (Z.pos m) in
      Some (if 0 <=? e then two128 * mm * 2 ^ e else (two128 * mm) / 2 ^ (- e))
  | _ => None
  end.

(* error classes of CalculateThreshold *)
Definition err_zero : nat := 1.      (* ErrThresholdOneIsZero *)
Definition err_gt_one : nat := 2.    (* invalid C1/C2: greater than 1 *)
Definition err_16_bytes : nat := 3.  (* threshold must be under or equal to 16 bytes *)

(* the tail after p has been computed *)
Definition threshold_of_p (p : f64) : outcome N :=
  match scaled_floor p with
  | None => Panic                      (* pRat = nil: pRat.Num() dereferences nil *)
  | Some t =>
      if t =? two128 then Ok max128
      else if two128 <=? Z.abs t then Err err_16_bytes   (* len(thresholdBig.Bytes()) > 16 *)
      else Ok (Z.to_N (Z.abs t))       (* NewUint128 reads big.Int.Bytes(), the absolute value *)
  end.

Section Threshold.
  Variable pow64 : f64 -> f64 -> f64.   (* math.Pow *)

  Definition theta_of (n : Z) : f64 := f64_div f64_one (f64_of_int n).
  Definition ratio_of (c1 c2 : Z) : f64 := f64_div (f64_of_int c1) (f64_of_int c2).
  (* p = 1 - (1-c)^theta, every operation rounded to binary64 *)
  Definition p_of (c theta : f64) : f64 := f64_sub f64_one (pow64 (f64_sub f64_one c) theta).

  (* CalculateThreshold(C1, C2 uint64, numAuths int); the result is the numeric value of the
     returned Uint128 (Upper * 2^64 + Lower) *)
  Definition calculate_threshold (c1 c2 n : Z) : outcome N :=
    if (c1 =? 0) || (c2 =? 0) then Err err_zero else
    let c := ratio_of c1 c2 in
    if f64_gt c f64_one then Err err_gt_one else
    threshold_of_p (p_of c (theta_of n)).
End Threshold.

(* ------------------------------------------------------------------ checkPrimaryThreshold *)
(* the part after the VRF in/out bytes [res] (16 bytes from MakeBytes) have been produced:
   scale.NewUint128(res) (little endian halves) and Uint128.Compare(threshold) < 0 *)
Definition u128_of_le16 (res : list byte) : N * N :=      (* (Upper, Lower) *)
  (le_val (firstn 8 (skipn 8 res)), le_val (firstn 8 res)).
Definition u128_compare (a b : N * N) : comparison :=
  match (fst a ?= fst b)%N with
  | Gt => Gt | Lt => Lt | Eq => (snd a ?= snd b)%N
  end.
Definition split128 (t : N) : N * N := ((t / 18446744073709551616)%N, (t mod 18446744073709551616)%N).
Definition check_primary_threshold (res : list byte) (threshold : N) : bool :=
  match u128_compare (u128_of_le16 res) (split128 threshold) with Lt => true | _ => false end.

