(* C25/ProofsAcc.v -- distance of CalculateThreshold's result to the real-number formula
   1 - (1-c)^(1/n), including the effect of rounding the ARGUMENTS of math.Pow
   (pp = RN(1-c), theta = RN(1/n)).  Lemmas only; the statement is C25_error_bound in
   Properties.v. *)
From Coq Require Import ZArith NArith List Bool Reals Lia Lra.
From Flocq Require Import Core IEEE754.BinarySingleNaN Relative.
From Common Require Import Bytes Outcome.
From C25 Require Import Model Proofs.

Local Open Scope R_scope.

Notation fexp64 := (SpecFloat.fexp prec emax).
Notation RN := (Generic_fmt.round radix2 fexp64 ZnearestE).
Notation R64 := (@B2R prec emax).

Local Instance prec64_inst : Prec_gt_0 prec := prec64_gt_0.
Local Instance prec64_lt_inst : Prec_lt_emax prec emax := prec64_lt_emax.
Local Instance fexp64_valid : Valid_exp fexp64 := fexp_correct prec emax prec64_gt_0.
Local Instance fexp64_mono : Monotone_exp fexp64 := fexp_monotone prec emax.

(* ------------------------------------------------------------------ real analysis *)
Lemma exp_ge_1 v : 0 <= v -> 1 <= exp v.
Proof. intros H. pose proof (exp_ineq1_le v). lra. Qed.

(* |e^a - e^b| <= |a-b| * e^b * e^|a-b| *)
Lemma exp_diff a b : Rabs (exp a - exp b) <= Rabs (a - b) * exp b * exp (Rabs (a - b)).
Proof.
  pose proof (exp_pos b) as Pb.
  destruct (Rle_lt_dec a b) as [H|H].
  - (* a <= b *)
    rewrite Rabs_left1 by (destruct H as [H|H]; [apply Rlt_le, Rlt_minus, exp_increasing, H|subst; lra]).
    rewrite (Rabs_left1 (a - b)) by lra.
    replace (- (exp a - exp b)) with (exp b * (1 - exp (a - b))).
    2:{ unfold Rminus at 2. rewrite exp_plus, exp_Ropp. field. apply Rgt_not_eq, exp_pos. }
    pose proof (exp_ineq1_le (a - b)) as E.
    pose proof (exp_ge_1 (- (a - b))) as G.
    assert (0 <= - (a - b)) by lra.
    apply Rle_trans with (- (a - b) * exp b * 1).
    + nra.
    + apply Rmult_le_compat_l. nra. apply G. lra.
  - (* b < a *)
    rewrite Rabs_pos_eq by (apply Rlt_le, Rlt_Rminus, exp_increasing, H).
    rewrite (Rabs_pos_eq (a - b)) by lra.
    set (v := a - b). assert (Hv : 0 < v) by (unfold v; lra).
    replace (exp a - exp b) with (exp b * (exp v - 1)).
    2:{ unfold v, Rminus at 2. rewrite exp_plus, exp_Ropp. field. apply Rgt_not_eq, exp_pos. }
    (* exp v - 1 <= v * exp v *)
    pose proof (exp_ineq1_le (- v)) as E. rewrite exp_Ropp in E.
    pose proof (exp_pos v) as Pv.
    assert (exp v - 1 <= v * exp v).
    { apply Rmult_le_reg_r with (/ exp v). now apply Rinv_0_lt_compat.
      replace ((exp v - 1) * / exp v) with (1 - / exp v) by (field; lra).
      replace (v * exp v * / exp v) with v by (field; lra). lra. }
    nra.
Qed.

Lemma exp1_ge_2 : 2 <= exp 1.
Proof. pose proof (exp_ineq1_le 1). lra. Qed.

(* L * e^-L <= 1/2 *)
Lemma L_exp_L L : L * exp (- L) <= / 2.
Proof.
  pose proof (exp_ineq1_le (L - 1)) as E.
  replace (1 + (L - 1)) with L in E by ring.
  unfold Rminus in E. rewrite exp_plus, exp_Ropp in E.
  pose proof (exp_pos L) as PL. pose proof exp1_ge_2 as E1.
  rewrite exp_Ropp.
  apply Rmult_le_reg_r with (exp L). exact PL.
  replace (L * / exp L * exp L) with L by (field; lra).
  apply Rle_trans with (1 := E).
  rewrite Rmult_comm. apply Rmult_le_compat_r. lra.
  apply Rle_Rinv; lra.
Qed.

Lemma ln_le_mono x y : 0 < x -> x <= y -> ln x <= ln y.
Proof. intros H [L|L]; [left; now apply ln_increasing|subst; lra]. Qed.

(* |ln (1+d)| <= 2u for |d| <= u <= 1/2 *)
Lemma ln_1p_abs d u : Rabs d <= u -> u <= / 2 -> Rabs (ln (1 + d)) <= 2 * u.
Proof.
  intros Hd Hu. apply Rabs_le_inv in Hd.
  assert (P : 0 < 1 + d) by lra.
  assert (Up : ln (1 + d) <= d).
  { rewrite <- (ln_exp d) at 2. apply ln_le_mono. exact P. apply exp_ineq1_le. }
  assert (Lo : d / (1 + d) <= ln (1 + d)).
  { assert (ln (/ (1 + d)) <= - d / (1 + d)).
    { rewrite <- (ln_exp (- d / (1 + d))). apply ln_le_mono. now apply Rinv_0_lt_compat.
      replace (/ (1 + d)) with (1 + - d / (1 + d)) by (field; lra). apply exp_ineq1_le. }
    rewrite ln_Rinv in H by exact P. unfold Rdiv in *. lra. }
  assert (- 2 * u <= d / (1 + d)).
  { apply Rmult_le_reg_r with (1 + d). exact P.
    replace (d / (1 + d) * (1 + d)) with d by (field; lra). nra. }
  apply Rabs_le. lra.
Qed.

Lemma ln2_le_1 : ln 2 <= 1.
Proof.
  rewrite <- (ln_exp 1). apply ln_le_mono. lra. apply exp1_ge_2.
Qed.

Lemma ln_ge_m53 x : / 2 ^ 53 <= x -> -53 <= ln x.
Proof.
  intros H. assert (P : 0 < 2 ^ 53) by (apply pow_lt; lra).
  apply Rle_trans with (ln (/ 2 ^ 53)).
  - rewrite ln_Rinv by exact P. rewrite ln_pow by lra.
    pose proof ln2_le_1. replace (INR 53) with 53 by (simpl; lra). lra.
  - apply ln_le_mono. now apply Rinv_0_lt_compat. exact H.
Qed.

Lemma exp_le_1p2v v : 0 <= v <= / 2 -> exp v <= 1 + 2 * v.
Proof.
  intros [H0 H1]. pose proof (exp_ineq1_le (- v)) as E. rewrite exp_Ropp in E.
  pose proof (exp_pos v) as P.
  assert (exp v <= / (1 - v)).
  { rewrite <- (Rinv_inv (exp v)). apply Rle_Rinv; lra. }
  apply Rle_trans with (1 := H).
  apply Rmult_le_reg_r with (1 - v). lra.
  rewrite Rinv_l by lra. nra.
Qed.

(* The power with perturbed arguments: X = x(1+d), th = (1/N)(1+d2) with |d|,|d2| <= u <= 2^-53
   and 2^-53 <= x <= 1, N >= 1:  | X^th - x^(1/N) | <= 3u *)
Lemma power_perturb x X th N d d2 u :
  0 < u <= / 2 ^ 53 -> / 2 ^ 53 <= x <= 1 -> X <= 1 -> 1 <= N ->
  X = x * (1 + d) -> Rabs d <= u -> th = / N * (1 + d2) -> Rabs d2 <= u ->
  Rabs (Rpower X th - Rpower x (/ N)) <= 3 * u.
Proof.
  intros [Hu0 Hu1] [Hx0 Hx1] HX HN EX Hd Eth Hd2.
  assert (P53 : 0 < / 2 ^ 53) by (apply Rinv_0_lt_compat, pow_lt; lra).
  assert (U : u <= / 9007199254740992) by (replace 9007199254740992 with (2 ^ 53) by (simpl; lra); exact Hu1).
  assert (Px : 0 < x) by lra.
  assert (Hd' := Rabs_le_inv _ _ Hd). assert (Hd2' := Rabs_le_inv _ _ Hd2).
  assert (P1d : 0 < 1 + d) by lra.
  assert (PX : 0 < X) by (rewrite EX; now apply Rmult_lt_0_compat).
  set (l := ln x). set (e := ln (1 + d)).
  assert (Hl0 : l <= 0) by (unfold l; rewrite <- ln_1; apply ln_le_mono; lra).
  assert (Hl53 : -53 <= l) by (apply ln_ge_m53; lra).
  assert (He : Rabs e <= 2 * u) by (apply ln_1p_abs; lra).
  assert (He' := Rabs_le_inv _ _ He).
  assert (ElX : ln X = l + e) by (rewrite EX; unfold l, e; apply ln_mult; assumption).
  assert (PN : 0 < N) by lra.
  assert (HiN : 0 < / N <= 1).
  { split. now apply Rinv_0_lt_compat. rewrite <- Rinv_1. apply Rle_Rinv; lra. }
  unfold Rpower. set (a := th * ln X). set (b := / N * ln x).
  assert (Eab : a - b = / N * (d2 * l + (1 + d2) * e)).
  { unfold a, b. rewrite ElX, Eth. fold l. ring. }
  set (L := - l / N).
  assert (EbL : b = - L) by (unfold b, L; fold l; field; lra).
  assert (HL : 0 <= L).
  { unfold L. apply Rmult_le_pos. lra. lra. }
  assert (Hz : Rabs (d2 * l + (1 + d2) * e) <= u * (- l) + (1 + u) * (2 * u)).
  { apply Rle_trans with (1 := Rabs_triang _ _). rewrite !Rabs_mult.
    rewrite (Rabs_left1 l) by exact Hl0. rewrite (Rabs_pos_eq (1 + d2)) by lra.
    apply Rplus_le_compat.
    - apply Rmult_le_compat_r. lra. exact Hd2.
    - apply Rmult_le_compat; try lra. apply Rabs_pos. }
  assert (Hab : Rabs (a - b) <= / N * (u * (- l) + (1 + u) * (2 * u))).
  { rewrite Eab, Rabs_mult, (Rabs_pos_eq (/ N)) by lra. apply Rmult_le_compat_l. lra. exact Hz. }
  assert (Hab56 : Rabs (a - b) <= 56 * u).
  { apply Rle_trans with (1 := Hab).
    apply Rle_trans with (1 * (u * (- l) + (1 + u) * (2 * u))).
    - apply Rmult_le_compat_r. nra. lra.
    - nra. }
  assert (Peb : 0 < exp b <= 1).
  { split. apply exp_pos. rewrite <- exp_0. rewrite EbL.
    destruct HL as [HL|HL]; [left; apply exp_increasing; lra|rewrite <- HL, Ropp_0; lra]. }
  assert (HA : Rabs (a - b) * exp b <= u * / 2 + (1 + u) * (2 * u)).
  { apply Rle_trans with (/ N * (u * (- l) + (1 + u) * (2 * u)) * exp b).
    - apply Rmult_le_compat_r. lra. exact Hab.
    - replace (/ N * (u * - l + (1 + u) * (2 * u)) * exp b)
        with (u * (L * exp (- L)) + / N * ((1 + u) * (2 * u)) * exp b)
        by (rewrite EbL; unfold L; field; lra).
      pose proof (L_exp_L L) as HLL.
      apply Rplus_le_compat.
      + apply Rmult_le_compat_l; lra.
      + assert (0 <= (1 + u) * (2 * u)) by nra.
        apply Rle_trans with (1 * ((1 + u) * (2 * u)) * 1).
        * apply Rmult_le_compat; try lra. apply Rmult_le_pos; lra.
          apply Rmult_le_compat_r; lra.
        * lra. }
  assert (HE : exp (Rabs (a - b)) <= 1 + 112 * u).
  { apply Rle_trans with (exp (56 * u)).
    - destruct Hab56 as [Hlt|Heq]; [left; now apply exp_increasing|rewrite Heq; lra].
    - apply Rle_trans with (1 + 2 * (56 * u)). apply exp_le_1p2v. lra. lra. }
  apply Rle_trans with (1 := exp_diff a b).
  apply Rle_trans with ((u * / 2 + (1 + u) * (2 * u)) * (1 + 112 * u)).
  - apply Rmult_le_compat; try assumption.
    + apply Rmult_le_pos. apply Rabs_pos. lra.
    + left. apply exp_pos.
  - nra.
Qed.

(* ------------------------------------------------------------------ the float steps *)
Lemma bpow_m53 : bpow radix2 (-53) = / 2 ^ 53.
Proof. simpl. lra. Qed.

(* a binary64 number below 1 is at most 1 - 2^-53 *)
Lemma below_one_gap c : R64 c < 1 -> R64 c <= 1 - bpow radix2 (-53).
Proof.
  intros H.
  assert (F : generic_format radix2 fexp64 (R64 c)) by apply generic_format_B2R.
  pose proof (pred_ge_gt radix2 fexp64 (R64 c) 1 F fmt_1 H) as P.
  change 1 with (bpow radix2 0) in P. rewrite pred_bpow in P.
  exact P.
Qed.

(* relative error of one rounding in the normal range *)
Lemma RN_rel x : bpow radix2 (-1022) <= Rabs x ->
  exists d, Rabs d <= bpow radix2 (-53) /\ RN x = x * (1 + d).
Proof.
  intros H.
  destruct (relative_error_N_FLT_ex radix2 (3 - emax - prec) prec prec64_gt_0
              (fun z => negb (Z.even z)) x H) as (d & D1 & D2).
  exists d. split.
  - apply Rle_trans with (1 := D1). simpl. lra.
  - exact D2.
Qed.

(* the real number the threshold approximates: x^(1/n), continued by 0 at x = 0 *)
Definition real_root (x : R) (n : Z) : R :=
  if Rlt_dec 0 x then Rpower x (/ IZR n) else 0.

(* math.Pow is within eps of the exact power on (0,1] x (0,1] *)
Definition pow_acc (pow64 : f64 -> f64 -> f64) (eps : R) : Prop :=
  forall x th, is_finite x = true -> 0 < R64 x <= 1 -> is_finite th = true -> 0 < R64 th <= 1 ->
  Rabs (R64 (pow64 x th) - Rpower (R64 x) (R64 th)) <= eps.

Lemma pow_acc_nonneg pow64 eps : pow_acc pow64 eps -> 0 <= eps.
Proof.
  intros H. destruct f64_one_correct as [O1 O2].
  apply Rle_trans with (2 := H f64_one f64_one O2 ltac:(rewrite O1; lra) O2 ltac:(rewrite O1; lra)).
  apply Rabs_pos.
Qed.

(* the arguments handed to math.Pow, as perturbations of 1 - C and 1/n *)
Lemma pow_arguments c n : is_finite c = true -> 0 <= R64 c < 1 -> (1 <= n < 2 ^ 53)%Z ->
  let pp := f64_sub f64_one c in
  let th := theta_of n in
  is_finite pp = true /\ is_finite th = true /\ 0 < R64 pp <= 1 /\ 0 < R64 th <= 1 /\
  Rabs (Rpower (R64 pp) (R64 th) - Rpower (1 - R64 c) (/ IZR n)) <= 3 * bpow radix2 (-53).
Proof.
  intros Fc [Hc0 Hc1] Hn pp th.
  destruct (one_minus_correct c Fc) as (A1 & A2 & A3). lra. fold pp in A1, A2, A3.
  destruct (theta_correct n) as (B1 & B2 & B3 & B4). lia. fold th in B1, B2, B3, B4.
  rewrite RN_small_int in B1 by lia.
  pose proof (below_one_gap c Hc1) as Gap.
  set (x := 1 - R64 c) in *.
  assert (Hx : bpow radix2 (-53) <= x <= 1) by (unfold x; lra).
  pose proof (bpow_gt_0 radix2 (-53)) as U0.
  destruct (RN_rel x) as (d & D1 & D2).
  { rewrite Rabs_pos_eq by lra. apply Rle_trans with (2 := proj1 Hx). apply bpow_le. lia. }
  assert (HN : 1 <= IZR n) by (apply IZR_le; lia).
  destruct (RN_rel (1 / IZR n)) as (d2 & E1 & E2).
  { assert (IZR n <= bpow radix2 53).
    { rewrite (bpow_nonneg_Z 53) by lia. apply IZR_le. lia. }
    assert (bpow radix2 (-53) <= 1 / IZR n).
    { replace (bpow radix2 (-53)) with (/ bpow radix2 53) by (rewrite <- bpow_opp; reflexivity). unfold Rdiv. rewrite Rmult_1_l. apply Rinv_le_contravar; lra. }
    rewrite Rabs_pos_eq by lra. apply Rle_trans with (2 := H0). apply bpow_le. lia. }
  assert (PX : 0 < R64 pp).
  { rewrite A1, D2. apply Rmult_lt_0_compat. lra. apply Rabs_le_inv in D1.
    assert (bpow radix2 (-53) <= / 2) by (rewrite bpow_m53; simpl; lra). lra. }
  repeat split; try assumption; try lra.
  apply (power_perturb x (R64 pp) (R64 th) (IZR n) d d2 (bpow radix2 (-53))).
  - split. exact U0. rewrite bpow_m53. lra.
  - rewrite <- bpow_m53. exact Hx.
  - lra.
  - exact HN.
  - rewrite A1. exact D2.
  - exact D1.
  - rewrite B1, E2. unfold Rdiv. ring.
  - exact E1.
Qed.

(* ------------------------------------------------------------------ the bound *)
Theorem error_bound pow64 c1 c2 n eps :
  pow_range pow64 -> pow_zero pow64 -> pow_acc pow64 eps ->
  (1 <= c1 < 2 ^ 64)%Z -> (1 <= c2 < 2 ^ 64)%Z -> (1 <= n < 2 ^ 53)%Z ->
  R64 (ratio_of c1 c2) <= 1 ->
  exists t, calculate_threshold pow64 c1 c2 n = Ok t /\
    Rabs (IZR (Z.of_N t) / IZR two128 - (1 - real_root (1 - R64 (ratio_of c1 c2)) n))
      <= eps + bpow radix2 (-51) + / IZR two128.
Proof.
  intros Hr Hz Ha H1 H2 Hn Hc.
  assert (Hn' : (1 <= n < 2 ^ 63)%Z) by lia.
  pose proof (pow_acc_nonneg _ _ Ha) as Heps.
  destruct (ratio_correct c1 c2 H1 H2) as (_ & A2 & A3).
  set (c := ratio_of c1 c2) in *.
  destruct (theta_correct n Hn') as (_ & B2 & B3 & B4).
  destruct (one_minus_correct c A2 (conj A3 Hc)) as (F1 & F2 & F3).
  set (pp := f64_sub f64_one c) in *. set (th := theta_of n) in *.
  assert (E4 : bpow radix2 (-51) = 4 * bpow radix2 (-53)) by (simpl; lra).
  pose proof (bpow_gt_0 radix2 (-53)) as U0.
  assert (Y : Rabs (R64 (pow64 pp th) - real_root (1 - R64 c) n) <= eps + 3 * bpow radix2 (-53)).
  { unfold real_root. destruct (Rlt_dec 0 (1 - R64 c)) as [Hlt|Hge].
    - destruct (pow_arguments c n A2 ltac:(lra) Hn) as (_ & _ & P1 & P2 & P3).
      fold pp th in P1, P2, P3.
      pose proof (Ha pp th F2 P1 B2 P2) as Q.
      replace (R64 (pow64 pp th) - Rpower (1 - R64 c) (/ IZR n))
        with ((R64 (pow64 pp th) - Rpower (R64 pp) (R64 th)) +
              (Rpower (R64 pp) (R64 th) - Rpower (1 - R64 c) (/ IZR n))) by ring.
      apply Rle_trans with (1 := Rabs_triang _ _). lra.
    - assert (Ec : R64 c = 1) by lra.
      rewrite Ec in F1. replace (1 - 1) with 0 in F1 by ring. rewrite RN_0 in F1.
      rewrite (Hz pp th F2 F1 B2 B3). rewrite Rminus_0_r, Rabs_R0. lra. }
  destruct (error_bound_partial pow64 c1 c2 n (real_root (1 - R64 c) n) (eps + 3 * bpow radix2 (-53))
              Hr H1 H2 Hn' Hc Y) as (t & Et & Bt).
  exists t. split. exact Et. fold c in Bt. rewrite E4. lra.
Qed.

(* the accuracy hypothesis is satisfiable together with the others (eps = 1: both numbers lie in
   [0,1]); with Go's math.Pow the intended instance is eps = 1 ulp <= 2^-53, which gives a total
   of at most 5 * 2^-53 + 2^-128 < 2^-50 *)
Lemma pow_acc_satisfiable : pow_acc (fun x _ => x) 1.
Proof.
  intros x th Fx [Hx0 Hx1] Ft [Ht0 Ht1].
  assert (0 < Rpower (R64 x) (R64 th) <= 1).
  { split. apply exp_pos. unfold Rpower. rewrite <- exp_0.
    assert (ln (R64 x) <= 0) by (rewrite <- ln_1; apply ln_le_mono; lra).
    assert (R64 th * ln (R64 x) <= 0) by nra.
    destruct H0 as [H0|H0]; [left; now apply exp_increasing|rewrite H0; lra]. }
  apply Rabs_le. lra.
Qed.
