(* C25/Bits.v — the IEEE-754 interchange encoding used to carry math.Pow's result from the Go
   harness into the model is faithful: decoding the encoding of any binary64 value gives the
   value back (NaN payloads collapse to the one NaN of the model). *)
From Coq Require Import ZArith NArith Bool Reals Lia.
From Flocq Require Import Core IEEE754.BinarySingleNaN.
From C25 Require Import Model Proofs.

Local Open Scope Z_scope.

Lemma bounded_cases m e : SpecFloat.bounded prec emax m e = true ->
  (Z.pos m < 2 ^ 52 /\ e = -1074) \/ (2 ^ 52 <= Z.pos m < 2 ^ 53 /\ -1074 <= e <= 971).
Proof.
  unfold SpecFloat.bounded, SpecFloat.canonical_mantissa. intros H.
  apply andb_true_iff in H. destruct H as [H1 H2].
  apply Zeq_bool_eq in H1. apply Zle_bool_imp_le in H2.
  rewrite Digits.Zpos_digits2_pos in H1.
  pose proof (Digits.Zdigits_correct radix2 (Z.pos m)) as D.
  set (d := Digits.Zdigits radix2 (Z.pos m)) in *.
  change (Z.abs (Z.pos m)) with (Z.pos m) in D.
  change (radix_val radix2) with 2 in D.
  unfold SpecFloat.fexp, SpecFloat.emin, prec, emax in *.
  assert (Hd : 0 < d).
  { destruct (Z.le_gt_cases d 0) as [L|L]; [|exact L]. exfalso.
    assert (2 ^ d <= 2 ^ 0) by (apply Z.pow_le_mono_r; lia). simpl in *. lia. }
  destruct (Z.lt_ge_cases (Z.pos m) (2 ^ 52)) as [Hm|Hm].
  - left. split; [exact Hm|].
    assert (d <= 52).
    { destruct (Z.le_gt_cases d 52) as [L|L]; [exact L|]. exfalso.
      assert (2 ^ 52 <= 2 ^ (d - 1)) by (apply Z.pow_le_mono_r; lia). lia. }
    lia.
  - right.
    assert (53 <= d).
    { destruct (Z.le_gt_cases 53 d) as [L|L]; [exact L|]. exfalso.
      assert (2 ^ d <= 2 ^ 52) by (apply Z.pow_le_mono_r; lia). lia. }
    assert (d = 53) by lia.
    replace d with 53 in D by lia. simpl in D. lia.
Qed.

Lemma norm_canonical s m e (H : SpecFloat.bounded prec emax m e = true) :
  f64_norm (cond_Zopp s (Z.pos m)) e s = B754_finite s m e H.
Proof.
  set (x := B754_finite s m e H).
  unfold f64_norm.
  generalize (binary_normalize_correct prec emax prec64_gt_0 prec64_lt_emax mode_NE
                (cond_Zopp s (Z.pos m)) e s).
  cbv zeta. change (round_mode mode_NE) with ZnearestE.
  assert (Hx : F2R (Float radix2 (cond_Zopp s (Z.pos m)) e) = B2R x) by reflexivity.
  rewrite Hx.
  assert (Hr : RN (B2R x) = B2R x).
  { apply round_generic; auto with typeclass_instances. apply generic_format_B2R. }
  rewrite Hr.
  rewrite Rlt_bool_true by (apply abs_B2R_lt_emax).
  intros (E1 & E2 & E3).
  symmetry. apply B2R_Bsign_inj; try assumption; try reflexivity.
  - now rewrite E1.
  - rewrite E3. unfold x. simpl Bsign.
    destruct s.
    + rewrite Rcompare_Lt; [reflexivity|]. simpl B2R. apply F2R_lt_0. reflexivity.
    + rewrite Rcompare_Gt; [reflexivity|]. simpl B2R. apply F2R_gt_0. reflexivity.
Qed.

Local Open Scope N_scope.

Lemma sign_fields s x : x < 9223372036854775808 ->
  N.testbit (sign_bit s + x) 63 = s /\
  ((sign_bit s + x) / two52) mod 2048 = (x / two52) mod 2048 /\
  (sign_bit s + x) mod two52 = x mod two52.
Proof.
  intros Hx. unfold sign_bit, two52. destruct s.
  - repeat split.
    + apply N.testbit_true. change (2 ^ 63) with 9223372036854775808.
      replace ((9223372036854775808 + x) / 9223372036854775808) with 1.
      reflexivity. apply N.div_unique with x; lia.
    + replace (9223372036854775808 + x) with (x + 2048 * 4503599627370496) by lia.
      rewrite N.div_add by lia. rewrite N.add_mod by lia. rewrite N.mod_same by lia.
      rewrite N.add_0_r. apply N.mod_mod. lia.
    + replace (9223372036854775808 + x) with (x + 2048 * 4503599627370496) by lia.
      apply N.mod_add. lia.
  - rewrite N.add_0_l. repeat split.
    apply N.testbit_false. change (2 ^ 63) with 9223372036854775808.
    rewrite N.div_small by exact Hx. reflexivity.
Qed.

Lemma bits_roundtrip_subnormal s m (H : SpecFloat.bounded prec emax m (-1074) = true) :
  (Z.pos m < 2 ^ 52)%Z -> f64_of_bits (f64_bits (B754_finite s m (-1074) H)) = B754_finite s m (-1074) H.
Proof.
  intros Hm.
  assert (Hlt : N.pos m < two52) by (unfold two52; lia).
  unfold f64_bits. replace (N.pos m <? two52) with true by (symmetry; apply N.ltb_lt; exact Hlt).
  unfold f64_of_bits.
  destruct (sign_fields s (N.pos m)) as (S1 & S2 & S3); [unfold two52 in Hlt; lia|].
  rewrite S1, S2, S3.
  rewrite (N.div_small (N.pos m) two52) by exact Hlt.
  rewrite (N.mod_small (N.pos m) two52) by exact Hlt.
  change ((0 mod 2048 =? 2047)) with false. change ((0 mod 2048 =? 0)) with true. cbv iota.
  change (N.pos m =? 0) with false. cbv iota.
  change (Z.of_N (N.pos m)) with (Z.pos m). apply norm_canonical.
Qed.

Lemma bits_roundtrip_normal s m e (H : SpecFloat.bounded prec emax m e = true) :
  (2 ^ 52 <= Z.pos m < 2 ^ 53)%Z -> (-1074 <= e <= 971)%Z ->
  f64_of_bits (f64_bits (B754_finite s m e H)) = B754_finite s m e H.
Proof.
  intros Hm He.
  assert (Hge : two52 <= N.pos m) by (unfold two52; lia).
  assert (Hlt : N.pos m < 2 * two52) by (unfold two52; lia).
  unfold f64_bits. replace (N.pos m <? two52) with false by (symmetry; apply N.ltb_ge; exact Hge).
  set (ef := Z.to_N (e + 1075)). set (mf := N.pos m - two52).
  assert (Hef : 1 <= ef <= 2046) by (unfold ef; lia).
  assert (Hmf : mf < two52) by (unfold mf; lia).
  assert (Hmf2 : mf + two52 = N.pos m) by (unfold mf; lia).
  unfold f64_of_bits.
  assert (Hsmall : ef * two52 + mf < 9223372036854775808).
  { apply N.lt_le_trans with (2047 * two52). nia. unfold two52. lia. }
  destruct (sign_fields s (ef * two52 + mf) Hsmall) as (S1 & S2 & S3).
  rewrite S1, S2, S3.
  assert (Hnz : two52 <> 0) by (unfold two52; lia).
  assert (D : (ef * two52 + mf) / two52 = ef).
  { symmetry. apply N.div_unique with mf; [exact Hmf|lia]. }
  assert (M : (ef * two52 + mf) mod two52 = mf).
  { symmetry. apply N.mod_unique with ef; [exact Hmf|lia]. }
  rewrite D, M. rewrite (N.mod_small ef 2048) by lia.
  replace (ef =? 2047) with false by (symmetry; apply N.eqb_neq; lia).
  replace (ef =? 0) with false by (symmetry; apply N.eqb_neq; lia).
  rewrite Hmf2. change (Z.of_N (N.pos m)) with (Z.pos m).
  replace (Z.of_N ef - 1075)%Z with e by (unfold ef; lia).
  apply norm_canonical.
Qed.

Theorem bits_roundtrip (x : f64) : f64_of_bits (f64_bits x) = x.
Proof.
  destruct x as [s|s| |s m e H].
  - destruct s; vm_compute; reflexivity.
  - destruct s; vm_compute; reflexivity.
  - vm_compute. reflexivity.
  - destruct (bounded_cases m e H) as [[Hm He]|[Hm He]].
    + subst e. now apply bits_roundtrip_subnormal.
    + now apply bits_roundtrip_normal.
Qed.
