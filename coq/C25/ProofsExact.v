(* C25/ProofsExact.v -- further facts about CalculateThreshold: the floor is exact, saturation at
   every float ratio 1, ordering of the float ratio for exactly representable operands. *)
From Coq Require Import ZArith NArith List Bool Reals Lia Lra.
From Flocq Require Import Core IEEE754.BinarySingleNaN.
From Common Require Import Bytes Outcome.
From C25 Require Import Model Proofs.

Local Open Scope R_scope.

Notation fexp64 := (SpecFloat.fexp prec emax).
Notation RN := (Generic_fmt.round radix2 fexp64 ZnearestE).
Notation R64 := (@B2R prec emax).

Local Instance prec64_inst : Prec_gt_0 prec := prec64_gt_0.
Local Instance prec64_lt_inst : Prec_lt_emax prec emax := prec64_lt_emax.
Local Instance fexp64_valid : Valid_exp fexp64 := fexp_correct prec emax prec64_gt_0.
Local Instance fexp64_mono : Monotone_exp fexp64 := fexp_monotone prec emax.

(* ------------------------------------------------------------------ multiples of 2^-53 *)
Definition mult53 (x : R) : Prop := exists k : Z, x = IZR k * bpow radix2 (-53).

(* a binary64 number >= 1/2 is a multiple of 2^-53 *)
Lemma fmt_ge_half_mult53 x : generic_format radix2 fexp64 x -> / 2 <= x -> mult53 x.
Proof.
  intros F H.
  assert (Hm : (0 <= mag radix2 x)%Z).
  { apply mag_ge_bpow. rewrite Rabs_pos_eq by lra. simpl. lra. }
  set (c := cexp radix2 fexp64 x).
  assert (Hc : (-53 <= c)%Z).
  { unfold c, cexp, SpecFloat.fexp, SpecFloat.emin, prec, emax. lia. }
  rewrite F. fold c. set (m := Ztrunc (scaled_mantissa radix2 fexp64 x)).
  exists (m * 2 ^ (c + 53))%Z. unfold F2R. cbn [Fnum Fexp].
  rewrite mult_IZR. rewrite <- (bpow_nonneg_Z (c + 53)) by lia.
  rewrite Rmult_assoc, <- bpow_plus. f_equal. f_equal. lia.
Qed.

(* 1 - y for a binary64 y in [0,1]: the rounded difference is a multiple of 2^-53 *)
Lemma one_minus_mult53 y : generic_format radix2 fexp64 y -> 0 <= y <= 1 -> mult53 (RN (1 - y)).
Proof.
  intros F [H0 H1].
  destruct (Rle_lt_dec y (/ 2)) as [Hy|Hy].
  - apply fmt_ge_half_mult53.
    + apply generic_format_round; auto with typeclass_instances.
    + apply round_ge_generic; auto with typeclass_instances.
      * replace (/ 2) with (bpow radix2 (-1)) by (simpl; lra). apply fmt_bpow. lia.
      * lra.
  - destruct (fmt_ge_half_mult53 y F) as [k Ek]. lra.
    assert (E : 1 - y = IZR (2 ^ 53 - k) * bpow radix2 (-53)).
    { rewrite minus_IZR, Ek. rewrite <- (bpow_nonneg_Z 53) by lia.
      rewrite Rmult_minus_distr_r, <- bpow_plus. simpl (bpow radix2 (53 + -53)). ring. }
    assert (Hk : (2 ^ 52 < k <= 2 ^ 53)%Z).
    { assert (bpow radix2 (-53) * IZR (2 ^ 52) < bpow radix2 (-53) * IZR k <= bpow radix2 (-53) * IZR (2 ^ 53)).
      { rewrite <- !(bpow_nonneg_Z) by lia. rewrite <- !bpow_plus.
        replace (bpow radix2 (-53 + 52)) with (/ 2) by (simpl; lra).
        replace (bpow radix2 (-53 + 53)) with 1 by (simpl; lra).
        rewrite (Rmult_comm _ (IZR k)), <- Ek. lra. }
      pose proof (bpow_gt_0 radix2 (-53)) as U.
      destruct H as [Ha Hb]. apply Rmult_lt_reg_l in Ha; [|exact U]. apply Rmult_le_reg_l in Hb; [|exact U].
      apply lt_IZR in Ha. apply le_IZR in Hb. lia. }
    rewrite round_generic; auto with typeclass_instances.
    + exists (2 ^ 53 - k)%Z. exact E.
    + rewrite E. change fexp64 with (FLT_exp (3 - emax - prec) prec).
      apply generic_format_FLT. exists (Float radix2 (2 ^ 53 - k) (-53)).
      * reflexivity.
      * cbn [Fnum]. unfold prec. change (radix_val radix2) with 2%Z. lia.
      * cbn [Fexp]. unfold emax, prec. lia.
Qed.

Lemma floor_mult53 x : mult53 x -> IZR (Zfloor (IZR two128 * x)) = IZR two128 * x.
Proof.
  intros [k E]. rewrite E.
  replace (IZR two128 * (IZR k * bpow radix2 (-53))) with (IZR (k * 2 ^ 75)).
  - now rewrite Zfloor_IZR.
  - rewrite mult_IZR. rewrite <- (bpow_nonneg_Z 75) by lia.
    replace (IZR two128) with (bpow radix2 128) by (rewrite (bpow_nonneg_Z 128) by lia; reflexivity).
    replace (bpow radix2 128) with (bpow radix2 75 * bpow radix2 53) by (rewrite <- bpow_plus; reflexivity).
    replace (bpow radix2 75 * bpow radix2 53 * (IZR k * bpow radix2 (-53)))
      with (IZR k * bpow radix2 75 * (bpow radix2 53 * bpow radix2 (-53))) by ring.
    rewrite <- bpow_plus. simpl (bpow radix2 (53 + -53)). ring.
Qed.

(* The floor of CalculateThreshold never discards anything: 2^128 * P is an integer, so the
   threshold is exactly 2^128 * P, or 2^128 - 1 when P = 1. *)
Theorem floor_exact pow64 c1 c2 n :
  pow_range pow64 -> (1 <= c1 < 2 ^ 64)%Z -> (1 <= c2 < 2 ^ 64)%Z -> (1 <= n < 2 ^ 63)%Z ->
  R64 (ratio_of c1 c2) <= 1 ->
  let P := RN (1 - R64 (pow64 (f64_sub f64_one (ratio_of c1 c2)) (theta_of n))) in
  exists t, calculate_threshold pow64 c1 c2 n = Ok t /\
    (P < 1 -> IZR (Z.of_N t) = IZR two128 * P) /\
    (P = 1 -> t = max128).
Proof.
  intros Hr H1 H2 Hn Hc P.
  destruct (exact_tail pow64 c1 c2 n Hr H1 H2 Hn Hc) as (_ & _ & _ & HP & E). fold P in HP, E.
  destruct (ratio_correct c1 c2 H1 H2) as (_ & A2 & A3).
  destruct (theta_correct n Hn) as (_ & B2 & B3 & _).
  destruct (one_minus_correct (ratio_of c1 c2) A2 (conj A3 Hc)) as (_ & F2 & F3).
  destruct (Hr _ _ F2 F3 B2 B3) as (Fy & Hy).
  assert (M : mult53 P) by (apply one_minus_mult53; [apply generic_format_B2R|exact Hy]).
  pose proof (floor_mult53 P M) as Fl.
  pose proof (floor_range P HP) as Rg.
  eexists. split. exact E. split.
  - intros Hlt.
    assert (Zfloor (IZR two128 * P) < two128)%Z.
    { apply lt_IZR. rewrite Fl. pose proof two128_pos.
      rewrite <- (Rmult_1_r (IZR two128)) at 2. apply Rmult_lt_compat_l; assumption. }
    rewrite Z.min_l by lia. rewrite Z2N.id by lia. exact Fl.
  - intros E1. rewrite E1, Rmult_1_r, Zfloor_IZR. reflexivity.
Qed.

(* ------------------------------------------------------------------ saturation at every float ratio 1 *)
Theorem saturates_ratio_one pow64 c1 c2 n :
  pow_range pow64 -> pow_zero pow64 -> (1 <= c1 < 2 ^ 64)%Z -> (1 <= c2 < 2 ^ 64)%Z -> (1 <= n < 2 ^ 63)%Z ->
  R64 (ratio_of c1 c2) = 1 -> calculate_threshold pow64 c1 c2 n = Ok max128.
Proof.
  intros Hr Hz H1 H2 Hn Hc.
  destruct (exact_tail pow64 c1 c2 n Hr H1 H2 Hn) as (_ & _ & E3 & _ & E5). lra.
  rewrite E5. clear E5.
  destruct (ratio_correct c1 c2 H1 H2) as (_ & A2 & _).
  destruct (theta_correct n Hn) as (_ & B2 & B3 & _).
  destruct (one_minus_correct (ratio_of c1 c2) A2) as (_ & F & _). lra.
  rewrite Hc in E3. replace (1 - 1) with 0 in E3 by ring. rewrite RN_0 in E3.
  rewrite (Hz _ _ F E3 B2 B3). replace (1 - 0) with 1 by ring. rewrite RN_1, Rmult_1_r, Zfloor_IZR.
  reflexivity.
Qed.

(* ------------------------------------------------------------------ ordering of the float ratio *)
(* whenever the four operands are exactly representable in binary64 (every value below 2^53, and
   e.g. every multiple of 2^11 below 2^64) the float ratio is the correctly rounded rational and
   is ordered like the rationals *)
Lemma ratio_mono_fmt c1 c2 c1' c2' :
  (1 <= c1 < 2 ^ 64)%Z -> (1 <= c2 < 2 ^ 64)%Z -> (1 <= c1' < 2 ^ 64)%Z -> (1 <= c2' < 2 ^ 64)%Z ->
  RN (IZR c1) = IZR c1 -> RN (IZR c2) = IZR c2 -> RN (IZR c1') = IZR c1' -> RN (IZR c2') = IZR c2' ->
  (c1 * c2' <= c1' * c2)%Z ->
  R64 (ratio_of c1 c2) = RN (IZR c1 / IZR c2) /\
  R64 (ratio_of c1 c2) <= R64 (ratio_of c1' c2').
Proof.
  intros H1 H2 H1' H2' E1 E2 E1' E2' H.
  destruct (ratio_correct c1 c2) as (A & _ & _); try lia.
  destruct (ratio_correct c1' c2') as (B & _ & _); try lia.
  rewrite A, B, E1, E2, E1', E2'. split; [reflexivity|]. apply RN_le.
  assert (0 < IZR c2) by (apply IZR_lt; lia). assert (0 < IZR c2') by (apply IZR_lt; lia).
  apply Rmult_le_reg_r with (IZR c2 * IZR c2'). now apply Rmult_lt_0_compat.
  replace (IZR c1 / IZR c2 * (IZR c2 * IZR c2')) with (IZR c1 * IZR c2') by (field; lra).
  replace (IZR c1' / IZR c2' * (IZR c2 * IZR c2')) with (IZR c1' * IZR c2) by (field; lra).
  rewrite <- !mult_IZR. now apply IZR_le.
Qed.

(* For operands that are NOT exactly representable the float ratio -- Substrate's
   `c.0 as f64 / c.1 as f64`, which CalculateThreshold reproduces -- is not ordered like the
   rationals: (2^53+1)/(2^53+2) > 2^53/(2^53+1) as rationals, but the first float ratio is below 1
   and the second is exactly 1, so the first threshold is strictly smaller. *)
Lemma rational_order_large_refuted :
  let a1 := (2 ^ 53 + 1)%Z in let a2 := (2 ^ 53 + 2)%Z in
  let b1 := (2 ^ 53)%Z in let b2 := (2 ^ 53 + 1)%Z in
  (b1 * a2 < a1 * b2)%Z /\
  exists ta tb, calculate_threshold (fun x _ => x) a1 a2 1 = Ok ta /\
                calculate_threshold (fun x _ => x) b1 b2 1 = Ok tb /\ (ta < tb)%N.
Proof.
  cbv zeta. split. { vm_compute. reflexivity. }
  eexists. eexists. split; [vm_compute; reflexivity|]. split; [vm_compute; reflexivity|].
  vm_compute. reflexivity.
Qed.
