(* C25/Secondary.v -- getSecondarySlotAuthor (lib/babe/secondary.go).  Definitions only; kept free
   of the floating-point development so that C24 can import it cheaply. *)
From Coq Require Import ZArith NArith List.
From Common Require Import Bytes Outcome Blake2b.
Import ListNotations.
Local Open Scope Z_scope.

(* ------------------------------------------------------------------ getSecondarySlotAuthor *)
(* blake2b-256 (randomness ++ slot as u64 LE), read big endian, big.Int.Mod numAuths
   (Euclidean; panics on 0), truncated by uint32(idx.Uint64()) *)
Definition secondary_preimage (randomness : list byte) (slot : N) : list byte :=
  randomness ++ le_bytes 8 slot.
Definition secondary_slot_author (slot : N) (n : Z) (randomness : list byte) : outcome N :=
  let h := blake2b_256 (secondary_preimage randomness slot) in
  if n =? 0 then Panic
  else Ok ((be_val h mod Z.to_N (Z.abs n)) mod 4294967296)%N.
