(* C25/Proofs.v — lemmas about the lottery arithmetic model. *)
From Coq Require Import ZArith NArith List Bool Reals Lia Lra.
From Flocq Require Import Core IEEE754.BinarySingleNaN.
From Common Require Import Bytes Outcome.
From C25 Require Import Model.
Import ListNotations.

Local Open Scope R_scope.

(* ------------------------------------------------------------------ rounding *)
Notation fexp64 := (SpecFloat.fexp prec emax).
Notation RN := (Generic_fmt.round radix2 fexp64 ZnearestE).
Notation R64 := (@B2R prec emax).

Local Instance prec64_inst : Prec_gt_0 prec := prec64_gt_0.
Local Instance prec64_lt_inst : Prec_lt_emax prec emax := prec64_lt_emax.
Local Instance fexp64_valid : Valid_exp fexp64 := fexp_correct prec emax prec64_gt_0.
Local Instance fexp64_mono : Monotone_exp fexp64 := fexp_monotone prec emax.

Lemma RN_le x y : x <= y -> RN x <= RN y.
Proof. intros H. apply round_le; auto with typeclass_instances. Qed.

Lemma fmt_0 : generic_format radix2 fexp64 0.
Proof. apply generic_format_0. Qed.
Lemma fmt_bpow e : (-1074 <= e <= 1023)%Z -> generic_format radix2 fexp64 (bpow radix2 e).
Proof.
  intros H. apply generic_format_bpow. unfold SpecFloat.fexp, SpecFloat.emin, emax, prec. lia.
Qed.
Lemma fmt_1 : generic_format radix2 fexp64 1.
Proof. change 1 with (bpow radix2 0). apply fmt_bpow. lia. Qed.

Lemma RN_0 : RN 0 = 0. Proof. apply round_0. auto with typeclass_instances. Qed.
Lemma RN_1 : RN 1 = 1. Proof. apply round_generic. auto with typeclass_instances. apply fmt_1. Qed.

Lemma RN_01 x : 0 <= x <= 1 -> 0 <= RN x <= 1.
Proof.
  intros [H0 H1]. split.
  - rewrite <- RN_0. now apply RN_le.
  - rewrite <- RN_1. now apply RN_le.
Qed.

Lemma RN_abs_le_bpow x e : (-1074 <= e <= 1023)%Z -> Rabs x <= bpow radix2 e -> Rabs (RN x) <= bpow radix2 e.
Proof.
  intros He H. apply abs_round_le_generic; auto with typeclass_instances. now apply fmt_bpow.
Qed.

Lemma no_overflow x e : (-1074 <= e <= 1023)%Z -> Rabs x <= bpow radix2 e ->
  Rlt_bool (Rabs (RN x)) (bpow radix2 emax) = true.
Proof.
  intros He H. apply Rlt_bool_true.
  apply Rle_lt_trans with (1 := RN_abs_le_bpow x e He H).
  apply bpow_lt. unfold emax. lia.
Qed.

(* ------------------------------------------------------------------ the float operations *)
Lemma bpow64 : bpow radix2 64 = IZR (2 ^ 64).
Proof. unfold bpow. apply f_equal. vm_compute. reflexivity. Qed.

Lemma f64_of_int_correct z : (Z.abs z <= 2 ^ 64)%Z ->
  R64 (f64_of_int z) = RN (IZR z) /\ is_finite (f64_of_int z) = true.
Proof.
  intros Hz. unfold f64_of_int, f64_norm.
  generalize (binary_normalize_correct prec emax prec64_gt_0 prec64_lt_emax mode_NE z 0 false).
  cbv zeta. replace (F2R (Float radix2 z 0)) with (IZR z) by (unfold F2R; simpl; ring).
  change (round_mode mode_NE) with ZnearestE.
  rewrite (no_overflow (IZR z) 64).
  - intros (H1 & H2 & _). split; assumption.
  - unfold emax; lia.
  - rewrite <- abs_IZR, bpow64. apply IZR_le. exact Hz.
Qed.

Lemma RN_ge_1 x : 1 <= x -> 1 <= RN x.
Proof. intros H. apply round_ge_generic; auto with typeclass_instances. apply fmt_1. Qed.

Lemma RN_le_bpow x e : (-1074 <= e <= 1023)%Z -> x <= bpow radix2 e -> RN x <= bpow radix2 e.
Proof. intros He H. apply round_le_generic; auto with typeclass_instances. now apply fmt_bpow. Qed.

Lemma RN_ge_0 x : 0 <= x -> 0 <= RN x.
Proof. intros H. rewrite <- RN_0. now apply RN_le. Qed.

(* float64(x) for 1 <= x < 2^64 *)
Lemma f64_of_pos_int z : (1 <= z < 2 ^ 64)%Z ->
  R64 (f64_of_int z) = RN (IZR z) /\ is_finite (f64_of_int z) = true /\
  1 <= R64 (f64_of_int z) <= bpow radix2 64.
Proof.
  intros Hz. destruct (f64_of_int_correct z) as [H1 H2]; [lia|].
  repeat split; try assumption; rewrite H1.
  - apply RN_ge_1. apply IZR_le. lia.
  - apply RN_le_bpow. unfold emax; lia. rewrite bpow64. apply IZR_le. lia.
Qed.

Lemma f64_div_correct x y e :
  R64 y <> 0 -> (-1074 <= e <= 1023)%Z -> Rabs (R64 x / R64 y) <= bpow radix2 e ->
  R64 (f64_div x y) = RN (R64 x / R64 y) /\ is_finite (f64_div x y) = is_finite x.
Proof.
  intros Hy He Hb. unfold f64_div.
  generalize (Bdiv_correct prec emax prec64_gt_0 prec64_lt_emax mode_NE x y Hy).
  change (round_mode mode_NE) with ZnearestE.
  rewrite (no_overflow _ e He Hb). intros (H1 & H2 & _). split; assumption.
Qed.

Lemma f64_sub_correct x y e :
  is_finite x = true -> is_finite y = true ->
  (-1074 <= e <= 1023)%Z -> Rabs (R64 x - R64 y) <= bpow radix2 e ->
  R64 (f64_sub x y) = RN (R64 x - R64 y) /\ is_finite (f64_sub x y) = true.
Proof.
  intros Fx Fy He Hb. unfold f64_sub.
  generalize (Bminus_correct prec emax prec64_gt_0 prec64_lt_emax mode_NE x y Fx Fy).
  change (round_mode mode_NE) with ZnearestE.
  rewrite (no_overflow _ e He Hb). intros (H1 & H2 & _). split; assumption.
Qed.

Lemma f64_one_correct : R64 f64_one = 1 /\ is_finite f64_one = true.
Proof.
  unfold f64_one. destruct (f64_of_int_correct 1) as [H1 H2]. simpl; lia.
  rewrite H1, RN_1. split; [reflexivity|assumption].
Qed.

(* 1 - y for a finite y in [0,1] *)
Lemma one_minus_correct y : is_finite y = true -> 0 <= R64 y <= 1 ->
  R64 (f64_sub f64_one y) = RN (1 - R64 y) /\ is_finite (f64_sub f64_one y) = true /\
  0 <= R64 (f64_sub f64_one y) <= 1.
Proof.
  intros Fy Hy. destruct f64_one_correct as [O1 O2].
  destruct (f64_sub_correct f64_one y 0 O2 Fy) as [H1 H2].
  - unfold emax; lia.
  - rewrite O1. simpl bpow. rewrite Rabs_pos_eq; lra.
  - rewrite O1 in H1. repeat split; try assumption; rewrite H1; apply RN_01; lra.
Qed.

(* the ratio c = float64(c1)/float64(c2) *)
Lemma ratio_correct c1 c2 : (1 <= c1 < 2 ^ 64)%Z -> (1 <= c2 < 2 ^ 64)%Z ->
  R64 (ratio_of c1 c2) = RN (RN (IZR c1) / RN (IZR c2)) /\ is_finite (ratio_of c1 c2) = true /\
  0 <= R64 (ratio_of c1 c2).
Proof.
  intros H1 H2. unfold ratio_of.
  destruct (f64_of_pos_int c1 H1) as (A1 & A2 & A3 & A4).
  destruct (f64_of_pos_int c2 H2) as (B1 & B2 & B3 & B4).
  assert (Hq : 0 <= R64 (f64_of_int c1) / R64 (f64_of_int c2) <= bpow radix2 64).
  { split.
    - apply Rmult_le_pos. lra. apply Rlt_le, Rinv_0_lt_compat. lra.
    - apply Rle_trans with (R64 (f64_of_int c1) / 1).
      + apply Rmult_le_compat_l. lra. apply Rinv_le_contravar; lra.
      + lra. }
  destruct (f64_div_correct (f64_of_int c1) (f64_of_int c2) 64) as [D1 D2].
  - lra.
  - unfold emax; lia.
  - rewrite Rabs_pos_eq; lra.
  - rewrite A2 in D2. rewrite <- A1, <- B1. repeat split; try assumption.
    rewrite D1. apply RN_ge_0. lra.
Qed.

(* theta = 1/float64(n) for n >= 1 *)
Lemma theta_correct n : (1 <= n < 2 ^ 63)%Z ->
  R64 (theta_of n) = RN (1 / RN (IZR n)) /\ is_finite (theta_of n) = true /\ 0 < R64 (theta_of n) <= 1.
Proof.
  intros Hn. unfold theta_of.
  destruct (f64_of_pos_int n) as (B1 & B2 & B3 & B4). lia.
  destruct f64_one_correct as [O1 O2].
  assert (Hq : bpow radix2 (-64) <= 1 / R64 (f64_of_int n) <= 1).
  { split.
    - replace (bpow radix2 (-64)) with (/ bpow radix2 64) by (rewrite <- bpow_opp; reflexivity).
      unfold Rdiv. rewrite Rmult_1_l. apply Rinv_le_contravar; lra.
    - unfold Rdiv. rewrite Rmult_1_l. rewrite <- Rinv_1. apply Rinv_le_contravar; lra. }
  destruct (f64_div_correct f64_one (f64_of_int n) 0) as [D1 D2].
  - lra.
  - unfold emax; lia.
  - rewrite O1. simpl bpow. rewrite Rabs_pos_eq. lra.
    apply Rle_trans with (2 := proj1 Hq). apply bpow_ge_0.
  - rewrite O1 in D1. rewrite O2 in D2. rewrite <- B1. repeat split; try assumption; rewrite D1.
    + apply Rlt_le_trans with (bpow radix2 (-64)). apply bpow_gt_0.
      apply round_ge_generic; auto with typeclass_instances. apply fmt_bpow. lia. lra.
    + apply Rle_trans with (RN 1); [apply RN_le; lra | rewrite RN_1; lra].
Qed.

Lemma f64_gt_one_false c : is_finite c = true -> (f64_gt c f64_one = false <-> R64 c <= 1).
Proof.
  intros Fc. destruct f64_one_correct as [O1 O2]. unfold f64_gt.
  rewrite (Bcompare_correct prec emax c f64_one Fc O2), O1.
  destruct (Rcompare_spec (R64 c) 1); split; intros; try reflexivity; try lra; discriminate.
Qed.

(* ------------------------------------------------------------------ the exact tail *)
Lemma bpow_nonneg_Z e : (0 <= e)%Z -> bpow radix2 e = IZR (2 ^ e).
Proof. intros H. rewrite <- (IZR_Zpower radix2) by assumption. reflexivity. Qed.

Lemma scaled_floor_correct p : is_finite p = true ->
  scaled_floor p = Some (Zfloor (IZR two128 * R64 p)).
Proof.
  destruct p as [s|s| |s m e H]; try discriminate; intros _; simpl.
  - rewrite Rmult_0_r. change 0 with (IZR 0). now rewrite Zfloor_IZR.
  - f_equal. unfold F2R. simpl Fnum. simpl Fexp. destruct (Z.leb_spec 0 e) as [He|He].
    + rewrite (bpow_nonneg_Z e He). rewrite <- !mult_IZR. rewrite Zfloor_IZR. now rewrite Z.mul_assoc.
    + replace (bpow radix2 e) with (/ IZR (2 ^ (- e))).
      * rewrite <- Rmult_assoc, <- mult_IZR. symmetry. apply Zfloor_div.
        apply Z.pow_nonzero; lia.
      * rewrite <- (bpow_nonneg_Z (- e)) by lia. rewrite <- bpow_opp. f_equal. lia.
Qed.

Definition sat128 (t : Z) : N := if (t =? two128)%Z then max128 else Z.to_N t.

Lemma two128_pos : 0 < IZR two128. Proof. apply IZR_lt. reflexivity. Qed.

Lemma floor_range v : 0 <= v <= 1 -> (0 <= Zfloor (IZR two128 * v) <= two128)%Z.
Proof.
  intros [H0 H1]. pose proof two128_pos as HK. split.
  - apply (Zfloor_lub 0). change (IZR 0) with 0. apply Rmult_le_pos. now apply Rlt_le. exact H0.
  - rewrite <- (Zfloor_IZR two128) at 2. apply Zfloor_le.
    rewrite <- (Rmult_1_r (IZR two128)) at 2. apply Rmult_le_compat_l. now apply Rlt_le. exact H1.
Qed.

Lemma threshold_of_p_correct p : is_finite p = true -> 0 <= R64 p <= 1 ->
  threshold_of_p p = Ok (sat128 (Zfloor (IZR two128 * R64 p))).
Proof.
  intros Fp Hp. unfold threshold_of_p. rewrite (scaled_floor_correct p Fp).
  pose proof (floor_range _ Hp) as Hr. set (t := Zfloor _) in *. unfold sat128.
  destruct (Z.eqb_spec t two128) as [E|E]; [reflexivity|].
  destruct (Z.leb_spec two128 (Z.abs t)); [lia|]. rewrite Z.abs_eq by lia. reflexivity.
Qed.

Lemma sat128_mono t t' : (0 <= t <= t')%Z -> (t' <= two128)%Z -> (sat128 t <= sat128 t')%N.
Proof.
  intros H1 H2. unfold sat128.
  destruct (Z.eqb_spec t two128), (Z.eqb_spec t' two128); unfold max128, two128 in *; lia.
Qed.

Lemma sat128_min t : (0 <= t <= two128)%Z -> sat128 t = Z.to_N (Z.min t (two128 - 1)).
Proof.
  intros H. unfold sat128. destruct (Z.eqb_spec t two128) as [E|E].
  - subst t. rewrite Z.min_r by lia. reflexivity.
  - rewrite Z.min_l by lia. reflexivity.
Qed.

(* ------------------------------------------------------------------ what is assumed of math.Pow *)
Definition pow_range (pow64 : f64 -> f64 -> f64) : Prop :=
  forall x th, is_finite x = true -> 0 <= R64 x <= 1 -> is_finite th = true -> 0 < R64 th ->
  is_finite (pow64 x th) = true /\ 0 <= R64 (pow64 x th) <= 1.
Definition pow_zero (pow64 : f64 -> f64 -> f64) : Prop :=
  forall x th, is_finite x = true -> R64 x = 0 -> is_finite th = true -> 0 < R64 th ->
  R64 (pow64 x th) = 0.
Definition pow_mono (pow64 : f64 -> f64 -> f64) : Prop :=
  forall x y th, is_finite x = true -> is_finite y = true -> is_finite th = true -> 0 < R64 th ->
  0 <= R64 x -> R64 x <= R64 y -> R64 y <= 1 -> R64 (pow64 x th) <= R64 (pow64 y th).

(* p = 1 (-) pow (1 (-) c) theta for a finite c in [0,1] *)
Lemma p_of_correct pow64 c th : pow_range pow64 ->
  is_finite c = true -> 0 <= R64 c <= 1 -> is_finite th = true -> 0 < R64 th ->
  let pp := f64_sub f64_one c in
  R64 pp = RN (1 - R64 c) /\
  R64 (p_of pow64 c th) = RN (1 - R64 (pow64 pp th)) /\
  is_finite (p_of pow64 c th) = true /\ 0 <= R64 (p_of pow64 c th) <= 1.
Proof.
  intros Hr Fc Hc Ft Ht pp.
  destruct (one_minus_correct c Fc Hc) as (A1 & A2 & A3). fold pp in A1, A2, A3.
  destruct (Hr pp th A2 A3 Ft Ht) as (B1 & B2).
  destruct (one_minus_correct _ B1 B2) as (C1 & C2 & C3).
  unfold p_of. fold pp. repeat split; try assumption; apply C3.
Qed.

Lemma ratio_le_one c1 c2 : (1 <= c1 < 2 ^ 64)%Z -> (1 <= c2 < 2 ^ 64)%Z -> (c1 <= c2)%Z ->
  R64 (ratio_of c1 c2) <= 1.
Proof.
  intros H1 H2 H. destruct (ratio_correct c1 c2 H1 H2) as (A & _ & _). rewrite A.
  apply Rle_trans with (RN 1); [|rewrite RN_1; lra]. apply RN_le.
  assert (1 <= RN (IZR c2)) by (apply RN_ge_1, IZR_le; lia).
  assert (RN (IZR c1) <= RN (IZR c2)) by (apply RN_le, IZR_le; lia).
  apply Rmult_le_reg_r with (RN (IZR c2)). lra. unfold Rdiv. rewrite Rmult_assoc, Rinv_l; lra.
Qed.

Theorem exact_tail pow64 c1 c2 n :
  pow_range pow64 -> (1 <= c1 < 2 ^ 64)%Z -> (1 <= c2 < 2 ^ 64)%Z -> (1 <= n < 2 ^ 63)%Z ->
  let c := ratio_of c1 c2 in
  let th := theta_of n in
  let pp := f64_sub f64_one c in
  let P := RN (1 - R64 (pow64 pp th)) in
  R64 c <= 1 ->
  R64 c = RN (RN (IZR c1) / RN (IZR c2)) /\
  R64 th = RN (1 / RN (IZR n)) /\
  R64 pp = RN (1 - R64 c) /\
  0 <= P <= 1 /\
  calculate_threshold pow64 c1 c2 n = Ok (Z.to_N (Z.min (Zfloor (IZR two128 * P)) (two128 - 1))).
Proof.
  intros Hr H1 H2 Hn c th pp P Hc1.
  destruct (ratio_correct c1 c2 H1 H2) as (A1 & A2 & A3). fold c in A1, A2, A3.
  destruct (theta_correct n Hn) as (B1 & B2 & B3 & B4). fold th in B1, B2, B3, B4.
  destruct (p_of_correct pow64 c th Hr A2 (conj A3 Hc1) B2 B3) as (C1 & C2 & C3 & C4).
  fold pp in C1, C2. fold P in C2.
  repeat split; try assumption; try (rewrite <- C2; apply C4).
  unfold calculate_threshold.
  replace ((c1 =? 0)%Z || (c2 =? 0)%Z) with false
    by (symmetry; apply orb_false_intro; apply Z.eqb_neq; lia).
  fold c. rewrite (proj2 (f64_gt_one_false c A2) Hc1). fold th.
  rewrite (threshold_of_p_correct _ C3 C4). rewrite C2. f_equal.
  apply sat128_min. apply floor_range. rewrite <- C2. exact C4.
Qed.

Lemma calculate_threshold_zero pow64 c1 c2 n : c1 = 0%Z \/ c2 = 0%Z ->
  calculate_threshold pow64 c1 c2 n = Err err_zero.
Proof.
  intros H. unfold calculate_threshold.
  replace ((c1 =? 0)%Z || (c2 =? 0)%Z) with true; [reflexivity|].
  symmetry. apply orb_true_iff. destruct H; [left|right]; now apply Z.eqb_eq.
Qed.

Lemma calculate_threshold_gt_one pow64 c1 c2 n : (1 <= c1 < 2 ^ 64)%Z -> (1 <= c2 < 2 ^ 64)%Z ->
  1 < R64 (ratio_of c1 c2) -> calculate_threshold pow64 c1 c2 n = Err err_gt_one.
Proof.
  intros H1 H2 H. unfold calculate_threshold.
  replace ((c1 =? 0)%Z || (c2 =? 0)%Z) with false
    by (symmetry; apply orb_false_intro; apply Z.eqb_neq; lia).
  destruct (ratio_correct c1 c2 H1 H2) as (_ & A2 & _).
  destruct (f64_gt (ratio_of c1 c2) f64_one) eqn:E; [reflexivity|].
  apply (f64_gt_one_false _ A2) in E. lra.
Qed.

(* saturation: c1 = c2 gives the maximum *)
Theorem saturates pow64 c1 n :
  pow_range pow64 -> pow_zero pow64 -> (1 <= c1 < 2 ^ 64)%Z -> (1 <= n < 2 ^ 63)%Z ->
  calculate_threshold pow64 c1 c1 n = Ok max128.
Proof.
  intros Hr Hz H1 Hn.
  assert (Hc : R64 (ratio_of c1 c1) = 1).
  { destruct (ratio_correct c1 c1 H1 H1) as (A & _ & _). rewrite A.
    assert (1 <= RN (IZR c1)) by (apply RN_ge_1, IZR_le; lia).
    unfold Rdiv. rewrite Rinv_r by lra. apply RN_1. }
  destruct (exact_tail pow64 c1 c1 n Hr H1 H1 Hn) as (_ & _ & E3 & _ & E5). lra.
  rewrite E5. clear E5.
  destruct (ratio_correct c1 c1 H1 H1) as (_ & A2 & _).
  destruct (theta_correct n Hn) as (_ & B2 & B3 & _).
  destruct (one_minus_correct (ratio_of c1 c1) A2) as (_ & F & _). lra.
  rewrite Hc in E3. replace (1 - 1) with 0 in E3 by ring. rewrite RN_0 in E3.
  rewrite (Hz _ _ F E3 B2 B3). replace (1 - 0) with 1 by ring. rewrite RN_1, Rmult_1_r, Zfloor_IZR.
  reflexivity.
Qed.

(* monotonicity in the (float) ratio c *)
Theorem monotone_p pow64 c c' th :
  pow_range pow64 -> pow_mono pow64 ->
  is_finite c = true -> is_finite c' = true -> is_finite th = true -> 0 < R64 th ->
  0 <= R64 c -> R64 c <= R64 c' -> R64 c' <= 1 ->
  exists t t', threshold_of_p (p_of pow64 c th) = Ok t /\
               threshold_of_p (p_of pow64 c' th) = Ok t' /\ (t <= t')%N.
Proof.
  intros Hr Hm Fc Fc' Ft Ht H0 H1 H2.
  destruct (p_of_correct pow64 c th Hr Fc) as (A1 & A2 & A3 & A4); try assumption. lra.
  destruct (p_of_correct pow64 c' th Hr Fc') as (B1 & B2 & B3 & B4); try assumption. lra.
  destruct (one_minus_correct c Fc) as (_ & P2 & P3). lra.
  destruct (one_minus_correct c' Fc') as (_ & Q2 & Q3). lra.
  eexists. eexists. split; [apply threshold_of_p_correct; assumption|].
  split; [apply threshold_of_p_correct; assumption|].
  assert (Hle : R64 (p_of pow64 c th) <= R64 (p_of pow64 c' th)).
  { rewrite A2, B2. apply RN_le.
    assert (R64 (pow64 (f64_sub f64_one c') th) <= R64 (pow64 (f64_sub f64_one c) th)).
    { apply Hm; try assumption. apply Q3. rewrite A1, B1. apply RN_le. lra. apply P3. }
    lra. }
  apply sat128_mono.
  - split. apply floor_range; assumption. apply Zfloor_le.
    apply Rmult_le_compat_l. apply Rlt_le, two128_pos. exact Hle.
  - apply floor_range; assumption.
Qed.

Theorem monotone pow64 c1 c2 c1' c2' n :
  pow_range pow64 -> pow_mono pow64 ->
  (1 <= c1 < 2 ^ 64)%Z -> (1 <= c2 < 2 ^ 64)%Z -> (1 <= c1' < 2 ^ 64)%Z -> (1 <= c2' < 2 ^ 64)%Z ->
  (1 <= n < 2 ^ 63)%Z ->
  R64 (ratio_of c1 c2) <= R64 (ratio_of c1' c2') -> R64 (ratio_of c1' c2') <= 1 ->
  exists t t', calculate_threshold pow64 c1 c2 n = Ok t /\
               calculate_threshold pow64 c1' c2' n = Ok t' /\ (t <= t')%N.
Proof.
  intros Hr Hm H1 H2 H1' H2' Hn Hle H1le.
  destruct (ratio_correct c1 c2 H1 H2) as (_ & A2 & A3).
  destruct (ratio_correct c1' c2' H1' H2') as (_ & B2 & B3).
  destruct (theta_correct n Hn) as (_ & T2 & T3 & _).
  destruct (monotone_p pow64 _ _ (theta_of n) Hr Hm A2 B2 T2 T3 A3 Hle H1le) as (t & t' & E1 & E2 & E3).
  exists t, t'. repeat split; try assumption; unfold calculate_threshold.
  - replace ((c1 =? 0)%Z || (c2 =? 0)%Z) with false
      by (symmetry; apply orb_false_intro; apply Z.eqb_neq; lia).
    rewrite (proj2 (f64_gt_one_false _ A2)) by lra. exact E1.
  - replace ((c1' =? 0)%Z || (c2' =? 0)%Z) with false
      by (symmetry; apply orb_false_intro; apply Z.eqb_neq; lia).
    rewrite (proj2 (f64_gt_one_false _ B2)) by lra. exact E2.
Qed.

(* how the float ratio orders: same denominator, and exactly for operands below 2^53 *)
Lemma ratio_mono_num c1 c1' c2 : (1 <= c1 < 2 ^ 64)%Z -> (1 <= c1' < 2 ^ 64)%Z -> (1 <= c2 < 2 ^ 64)%Z ->
  (c1 <= c1')%Z -> R64 (ratio_of c1 c2) <= R64 (ratio_of c1' c2).
Proof.
  intros H1 H1' H2 H.
  destruct (ratio_correct c1 c2 H1 H2) as (A & _ & _).
  destruct (ratio_correct c1' c2 H1' H2) as (B & _ & _). rewrite A, B. apply RN_le.
  assert (1 <= RN (IZR c2)) by (apply RN_ge_1, IZR_le; lia).
  assert (RN (IZR c1) <= RN (IZR c1')) by (apply RN_le, IZR_le; lia).
  apply Rmult_le_compat_r. apply Rlt_le, Rinv_0_lt_compat; lra. assumption.
Qed.

Lemma ratio_mono_den c1 c2 c2' : (1 <= c1 < 2 ^ 64)%Z -> (1 <= c2 < 2 ^ 64)%Z -> (1 <= c2' < 2 ^ 64)%Z ->
  (c2' <= c2)%Z -> R64 (ratio_of c1 c2) <= R64 (ratio_of c1 c2').
Proof.
  intros H1 H2 H2' H.
  destruct (ratio_correct c1 c2 H1 H2) as (A & _ & _).
  destruct (ratio_correct c1 c2' H1 H2') as (B & _ & _). rewrite A, B. apply RN_le.
  assert (1 <= RN (IZR c2')) by (apply RN_ge_1, IZR_le; lia).
  assert (1 <= RN (IZR c1)) by (apply RN_ge_1, IZR_le; lia).
  assert (RN (IZR c2') <= RN (IZR c2)) by (apply RN_le, IZR_le; lia).
  apply Rmult_le_compat_l. lra. apply Rinv_le_contravar; lra.
Qed.

Lemma RN_small_int z : (Z.abs z < 2 ^ 53)%Z -> RN (IZR z) = IZR z.
Proof.
  intros H. apply round_generic; auto with typeclass_instances.
  change fexp64 with (FLT_exp (3 - emax - prec) prec).
  apply generic_format_FLT. exists (Float radix2 z 0).
  - unfold F2R; simpl; ring.
  - exact H.
  - simpl. unfold emax, prec. lia.
Qed.

(* for operands below 2^53 the float ratio is the correctly rounded rational c1/c2, hence ordered
   like the rationals *)
Lemma ratio_mono_exact c1 c2 c1' c2' :
  (1 <= c1 < 2 ^ 53)%Z -> (1 <= c2 < 2 ^ 53)%Z -> (1 <= c1' < 2 ^ 53)%Z -> (1 <= c2' < 2 ^ 53)%Z ->
  (c1 * c2' <= c1' * c2)%Z ->
  R64 (ratio_of c1 c2) = RN (IZR c1 / IZR c2) /\
  R64 (ratio_of c1 c2) <= R64 (ratio_of c1' c2').
Proof.
  intros H1 H2 H1' H2' H.
  destruct (ratio_correct c1 c2) as (A & _ & _); try lia.
  destruct (ratio_correct c1' c2') as (B & _ & _); try lia.
  rewrite A, B. rewrite !RN_small_int by lia. split; [reflexivity|]. apply RN_le.
  assert (0 < IZR c2) by (apply IZR_lt; lia). assert (0 < IZR c2') by (apply IZR_lt; lia).
  apply Rmult_le_reg_r with (IZR c2 * IZR c2'). now apply Rmult_lt_0_compat.
  replace (IZR c1 / IZR c2 * (IZR c2 * IZR c2')) with (IZR c1 * IZR c2') by (field; lra).
  replace (IZR c1' / IZR c2' * (IZR c2 * IZR c2')) with (IZR c1' * IZR c2) by (field; lra).
  rewrite <- !mult_IZR. now apply IZR_le.
Qed.

(* ------------------------------------------------------------------ checkPrimaryThreshold *)
Local Open Scope N_scope.

Lemma le_val_16 res : length res = 16%nat ->
  le_val res = le_val (firstn 8 res) + 18446744073709551616 * le_val (firstn 8 (skipn 8 res)).
Proof.
  intros L. rewrite <- (firstn_skipn 8 res) at 1. rewrite le_val_app.
  rewrite firstn_length, L. simpl Nat.min.
  replace (firstn 8 (skipn 8 res)) with (skipn 8 res).
  - reflexivity.
  - symmetry. apply firstn_all2. rewrite skipn_length, L. simpl. lia.
Qed.

Lemma check_primary_numeric res thr : length res = 16%nat ->
  check_primary_threshold res thr = (le_val res <? thr).
Proof.
  intros L. unfold check_primary_threshold, u128_compare, u128_of_le16, split128. cbn [fst snd].
  rewrite (le_val_16 res L).
  set (lo := le_val (firstn 8 res)). set (hi := le_val (firstn 8 (skipn 8 res))).
  assert (Hlo : lo < 18446744073709551616).
  { unfold lo. pose proof (le_val_lt (firstn 8 res)) as H. rewrite firstn_length, L in H. exact H. }
  set (K := 18446744073709551616) in *.
  assert (HK : K <> 0) by (unfold K; lia).
  pose proof (N.div_mod thr K HK) as D. pose proof (N.mod_lt thr K HK) as M.
  set (q := thr / K) in *. set (r := thr mod K) in *.
  destruct (N.compare_spec hi q) as [E|E|E].
  - subst hi. rewrite E. destruct (N.compare_spec lo r) as [E2|E2|E2]; symmetry.
    + apply N.ltb_ge. lia.
    + apply N.ltb_lt. lia.
    + apply N.ltb_ge. lia.
  - symmetry. apply N.ltb_lt. nia.
  - symmetry. apply N.ltb_ge. nia.
Qed.

(* ------------------------------------------------------------------ getSecondarySlotAuthor *)
Lemma secondary_author_spec slot n randomness : (1 <= n <= 4294967296)%Z ->
  secondary_slot_author slot n randomness =
    Ok (be_val (Blake2b.blake2b_256 (randomness ++ le_bytes 8 slot)) mod Z.to_N n) /\
  be_val (Blake2b.blake2b_256 (randomness ++ le_bytes 8 slot)) mod Z.to_N n < Z.to_N n.
Proof.
  intros H. unfold secondary_slot_author, secondary_preimage.
  destruct (Z.eqb_spec n 0); [lia|]. rewrite Z.abs_eq by lia.
  set (h := be_val _). assert (Hn : Z.to_N n <> 0) by lia.
  pose proof (N.mod_lt h (Z.to_N n) Hn) as Hlt. split; [|exact Hlt].
  f_equal. apply N.mod_small. lia.
Qed.

(* ------------------------------------------------------------------ distance to the real formula *)
Local Open Scope R_scope.

Lemma RN_err_01 z : 0 <= z <= 1 -> Rabs (RN z - z) <= bpow radix2 (-53).
Proof.
  intros [H0 H1].
  apply Rle_trans with (/ 2 * ulp radix2 fexp64 z).
  - apply error_le_half_ulp; auto with typeclass_instances.
  - apply Rle_trans with (/ 2 * ulp radix2 fexp64 1).
    + apply Rmult_le_compat_l. lra. apply ulp_le_pos; auto with typeclass_instances.
    + change 1 with (bpow radix2 0) at 1. rewrite ulp_bpow.
      change (bpow radix2 (fexp64 (0 + 1))) with (bpow radix2 (-52)).
      change (/ 2) with (bpow radix2 (-1)). rewrite <- bpow_plus. apply Rle_refl.
Qed.

Lemma floor_sat_close P : 0 <= P <= 1 ->
  let t := Z.min (Zfloor (IZR two128 * P)) (two128 - 1) in
  (0 <= t < two128)%Z /\ P - / IZR two128 <= IZR t / IZR two128 <= P.
Proof.
  intros HP t. pose proof two128_pos as HK. pose proof (floor_range P HP) as Hr.
  assert (Hpos : (0 < two128)%Z) by reflexivity.
  set (K := IZR two128) in *. set (f := Zfloor (K * P)) in *.
  assert (Hf1 : IZR f <= K * P) by apply Zfloor_lb.
  assert (Hf2 : K * P < IZR f + 1) by apply Zfloor_ub.
  assert (Ht : (t = f \/ (f = two128 /\ t = two128 - 1))%Z) by (unfold t; lia).
  split. { unfold t. lia. }
  assert (Hdiv : forall a b, a <= b -> a / K <= b / K).
  { intros a b Hab. unfold Rdiv. apply Rmult_le_compat_r. apply Rlt_le, Rinv_0_lt_compat, HK. exact Hab. }
  assert (HKK : K / K = 1) by (field; lra).
  assert (HPK : K * P / K = P) by (field; lra).
  destruct Ht as [E|[E1 E2]].
  - rewrite E. split.
    + replace (P - / K) with ((K * P - 1) / K) by (field; lra). apply Hdiv. lra.
    + apply Rle_trans with (K * P / K); [now apply Hdiv|rewrite HPK; apply Rle_refl].
  - rewrite E2. rewrite minus_IZR. fold K. change (IZR 1) with 1.
    assert (HP1 : P = 1).
    { rewrite E1 in Hf1. fold K in Hf1. apply Rle_antisym. apply HP.
      apply Rmult_le_reg_l with K. exact HK. lra. }
    rewrite HP1. split.
    + replace ((K - 1) / K) with (1 - / K) by (field; lra). lra.
    + replace ((K - 1) / K) with (1 - / K) by (field; lra).
      assert (0 < / K) by now apply Rinv_0_lt_compat. lra.
Qed.

(* whatever real number Y the result of math.Pow is meant to approximate: the threshold, as a
   fraction of 2^128, is within eps + 2^-53 + 2^-128 of 1 - Y, where eps is pow's own error *)
Theorem error_bound_partial pow64 c1 c2 n Y eps :
  pow_range pow64 -> (1 <= c1 < 2 ^ 64)%Z -> (1 <= c2 < 2 ^ 64)%Z -> (1 <= n < 2 ^ 63)%Z ->
  R64 (ratio_of c1 c2) <= 1 ->
  Rabs (R64 (pow64 (f64_sub f64_one (ratio_of c1 c2)) (theta_of n)) - Y) <= eps ->
  exists t, calculate_threshold pow64 c1 c2 n = Ok t /\
    Rabs (IZR (Z.of_N t) / IZR two128 - (1 - Y)) <= eps + bpow radix2 (-53) + / IZR two128.
Proof.
  intros Hr H1 H2 Hn Hc He.
  destruct (exact_tail pow64 c1 c2 n Hr H1 H2 Hn Hc) as (_ & _ & _ & HP & E).
  set (y := R64 (pow64 (f64_sub f64_one (ratio_of c1 c2)) (theta_of n))) in *.
  set (P := RN (1 - y)) in *.
  destruct (floor_sat_close P HP) as (Ht & Hclose). cbv zeta in Ht, Hclose.
  eexists. split; [exact E|]. rewrite Z2N.id by lia.
  set (q := IZR (Z.min (Zfloor (IZR two128 * P)) (two128 - 1)) / IZR two128) in *.
  (* 0 <= y <= 1 *)
  destruct (ratio_correct c1 c2 H1 H2) as (_ & A2 & A3).
  destruct (theta_correct n Hn) as (_ & B2 & B3 & _).
  destruct (one_minus_correct (ratio_of c1 c2) A2 (conj A3 Hc)) as (_ & F2 & F3).
  destruct (Hr _ _ F2 F3 B2 B3) as (_ & Hy). fold y in Hy.
  pose proof (RN_err_01 (1 - y)) as Herr. fold P in Herr.
  assert (Herr' : Rabs (P - (1 - y)) <= bpow radix2 (-53)) by (apply Herr; lra).
  pose proof two128_pos as HK. assert (HiK : 0 < / IZR two128) by now apply Rinv_0_lt_compat.
  set (b := bpow radix2 (-53)) in *. set (iK := / IZR two128) in *.
  apply Rabs_le. apply Rabs_le_inv in Herr'. apply Rabs_le_inv in He.
  split; lra.
Qed.
