(* C25/Properties.v — property C25: BABE lottery arithmetic matches the specification.
   Only statements, each closed by `exact <lemma>`, with Print Assumptions beneath.

   Notation: R64 x is the real value of the binary64 number x; RN is IEEE-754 round to nearest
   even to binary64; pow64 stands for Go's math.Pow, about which the theorems assume only
   what is written in pow_range / pow_zero / pow_mono (C25/Proofs.v):
     pow_range: for finite x in [0,1] and finite theta > 0, pow64 x theta is finite and in [0,1]
     pow_zero : pow64 (+-0) theta = +-0 for finite theta > 0
     pow_mono : pow64 is non-decreasing in its first argument on [0,1].
   The float operations are Flocq's (BinarySingleNaN); their correctness theorems are stated
   over Coq's classical real numbers, whose standard-library axioms therefore appear under
   the first three theorems (and only those axioms). *)
From Coq Require Import ZArith NArith List Reals.
From Flocq Require Import Core IEEE754.BinarySingleNaN.
From Common Require Import Bytes Outcome.
From C25 Require Import Model Proofs Bits ProofsAcc ProofsExact.

(* For every ratio c1/c2 whose float value is <= 1 (in particular whenever c1 <= c2, see
   C25_ratio_order) and every n >= 1: CalculateThreshold succeeds and returns
       min (floor (2^128 * P), 2^128 - 1)
   where P = RN (1 - pow64 (RN (1 - c)) theta), c = RN (RN c1 / RN c2), theta = RN (1 / RN n):
   the formula 2^128 * (1 - (1-c)^(1/n)) evaluated in binary64 exactly as Substrate evaluates
   it, followed by the exact rational-to-integer tail, saturating when the floor is 2^128. *)
Theorem C25_exact_tail : forall pow64 c1 c2 n,
  pow_range pow64 -> (1 <= c1 < 2 ^ 64)%Z -> (1 <= c2 < 2 ^ 64)%Z -> (1 <= n < 2 ^ 63)%Z ->
  let c := ratio_of c1 c2 in
  let th := theta_of n in
  let pp := f64_sub f64_one c in
  let P := RN (1 - R64 (pow64 pp th)) in
  (R64 c <= 1)%R ->
  R64 c = RN (RN (IZR c1) / RN (IZR c2)) /\
  R64 th = RN (1 / RN (IZR n)) /\
  R64 pp = RN (1 - R64 c) /\
  (0 <= P <= 1)%R /\
  calculate_threshold pow64 c1 c2 n = Ok (Z.to_N (Z.min (Zfloor (IZR two128 * P)) (two128 - 1))).
Proof. exact exact_tail. Qed.
Print Assumptions C25_exact_tail.

(* c = 1 (c1 = c2) gives the maximum 2^128 - 1 *)
Theorem C25_saturates : forall pow64 c1 n,
  pow_range pow64 -> pow_zero pow64 -> (1 <= c1 < 2 ^ 64)%Z -> (1 <= n < 2 ^ 63)%Z ->
  calculate_threshold pow64 c1 c1 n = Ok max128.
Proof. exact saturates. Qed.
Print Assumptions C25_saturates.

(* the threshold is monotone in c (as a float ratio) for a fixed authority count *)
Theorem C25_monotone : forall pow64 c1 c2 c1' c2' n,
  pow_range pow64 -> pow_mono pow64 ->
  (1 <= c1 < 2 ^ 64)%Z -> (1 <= c2 < 2 ^ 64)%Z -> (1 <= c1' < 2 ^ 64)%Z -> (1 <= c2' < 2 ^ 64)%Z ->
  (1 <= n < 2 ^ 63)%Z ->
  (R64 (ratio_of c1 c2) <= R64 (ratio_of c1' c2'))%R -> (R64 (ratio_of c1' c2') <= 1)%R ->
  exists t t', calculate_threshold pow64 c1 c2 n = Ok t /\
               calculate_threshold pow64 c1' c2' n = Ok t' /\ (t <= t')%N.
Proof. exact monotone. Qed.
Print Assumptions C25_monotone.

(* ... and the float ratio is ordered like the rational c1/c2: always for a common denominator
   (or numerator), and for arbitrary pairs whenever the operands are below 2^53 (where it is
   the correctly rounded quotient); c1 <= c2 gives a ratio <= 1 *)
Theorem C25_ratio_order :
  (forall c1 c1' c2, (1 <= c1 < 2 ^ 64)%Z -> (1 <= c1' < 2 ^ 64)%Z -> (1 <= c2 < 2 ^ 64)%Z ->
     (c1 <= c1')%Z -> (R64 (ratio_of c1 c2) <= R64 (ratio_of c1' c2))%R) /\
  (forall c1 c2 c2', (1 <= c1 < 2 ^ 64)%Z -> (1 <= c2 < 2 ^ 64)%Z -> (1 <= c2' < 2 ^ 64)%Z ->
     (c2' <= c2)%Z -> (R64 (ratio_of c1 c2) <= R64 (ratio_of c1 c2'))%R) /\
  (forall c1 c2 c1' c2',
     (1 <= c1 < 2 ^ 53)%Z -> (1 <= c2 < 2 ^ 53)%Z -> (1 <= c1' < 2 ^ 53)%Z -> (1 <= c2' < 2 ^ 53)%Z ->
     (c1 * c2' <= c1' * c2)%Z ->
     R64 (ratio_of c1 c2) = RN (IZR c1 / IZR c2) /\
     (R64 (ratio_of c1 c2) <= R64 (ratio_of c1' c2'))%R) /\
  (forall c1 c2, (1 <= c1 < 2 ^ 64)%Z -> (1 <= c2 < 2 ^ 64)%Z -> (c1 <= c2)%Z ->
     (R64 (ratio_of c1 c2) <= 1)%R).
Proof.
  split; [exact ratio_mono_num|]. split; [exact ratio_mono_den|].
  split; [exact ratio_mono_exact|exact ratio_le_one].
Qed.
Print Assumptions C25_ratio_order.

(* Distance to the real-number formula, first half: if math.Pow's result for the float arguments
   pp = RN(1 - c), theta = RN(1/RN n) is within eps of ANY real number Y, then
   threshold / 2^128 is within eps + 2^-53 + 2^-128 of 1 - Y.  (C25_error_bound below
   instantiates Y with the exact power and adds the analysis of the rounded arguments.) *)
Theorem C25_error_bound_partial : forall pow64 c1 c2 n Y eps,
  pow_range pow64 -> (1 <= c1 < 2 ^ 64)%Z -> (1 <= c2 < 2 ^ 64)%Z -> (1 <= n < 2 ^ 63)%Z ->
  (R64 (ratio_of c1 c2) <= 1)%R ->
  (Rabs (R64 (pow64 (f64_sub f64_one (ratio_of c1 c2)) (theta_of n)) - Y) <= eps)%R ->
  exists t, calculate_threshold pow64 c1 c2 n = Ok t /\
    (Rabs (IZR (Z.of_N t) / IZR two128 - (1 - Y)) <= eps + bpow radix2 (-53) + / IZR two128)%R.
Proof. exact error_bound_partial. Qed.
Print Assumptions C25_error_bound_partial.

(* Distance to the real-number formula, in full (DESIGN.md's C25_error_bound): let C be the
   float ratio RN(RN c1 / RN c2) -- the number Substrate itself takes for c -- and
   real_root x n = x^(1/n) (Rpower, continued by 0 at x = 0).  If math.Pow is within eps of the
   exact power x^y on (0,1] x (0,1] (hypothesis pow_acc; 1 ulp <= 2^-53 for a faithful pow), then
   for every authority count below 2^53 the threshold exists and
       | threshold / 2^128 - (1 - (1 - C)^(1/n)) |  <=  eps + 2^-51 + 2^-128 .
   The 2^-51 = 4 * 2^-53 covers the rounding of 1 - C and of 1/n (3 * 2^-53: relative
   perturbations of at most 2^-53 in the base and in the exponent move x^y by at most
   2^-53 * (1/2 + 2 + small), using y |ln y| <= 1/e) and the final subtraction (2^-53); with
   eps = 2^-53 the total is below 2^-50, the bound the harness tests on every case.
   Note that the distance is to the formula at the FLOAT ratio C: at the rational c1/c2 no uniform
   bound exists (c1/c2 = 1 - 2^-60 has C = 1 and saturates, while the formula at the rational with
   n = 60 is 1/2); Substrate computes c the same way. *)
Theorem C25_error_bound : forall pow64 c1 c2 n eps,
  pow_range pow64 -> pow_zero pow64 -> pow_acc pow64 eps ->
  (1 <= c1 < 2 ^ 64)%Z -> (1 <= c2 < 2 ^ 64)%Z -> (1 <= n < 2 ^ 53)%Z ->
  (R64 (ratio_of c1 c2) <= 1)%R ->
  exists t, calculate_threshold pow64 c1 c2 n = Ok t /\
    (Rabs (IZR (Z.of_N t) / IZR two128 - (1 - real_root (1 - R64 (ratio_of c1 c2)) n))
       <= eps + bpow radix2 (-51) + / IZR two128)%R.
Proof. exact error_bound. Qed.
Print Assumptions C25_error_bound.

(* The floor of the statement never discards anything: P = RN(1 - pow64 ...) is a multiple of
   2^-53 (a binary64 number in [1/2,1] is one, and below 1/2 the subtraction is exact), hence
   2^128 * P is an integer and the threshold is exactly 2^128 * P, or 2^128 - 1 when P = 1.
   (This is why replacing the Euclidean big.Int.Div by a rounding division cannot be observed for
   n >= 1.) *)
Theorem C25_floor_exact : forall pow64 c1 c2 n,
  pow_range pow64 -> (1 <= c1 < 2 ^ 64)%Z -> (1 <= c2 < 2 ^ 64)%Z -> (1 <= n < 2 ^ 63)%Z ->
  (R64 (ratio_of c1 c2) <= 1)%R ->
  let P := RN (1 - R64 (pow64 (f64_sub f64_one (ratio_of c1 c2)) (theta_of n))) in
  exists t, calculate_threshold pow64 c1 c2 n = Ok t /\
    ((P < 1)%R -> IZR (Z.of_N t) = (IZR two128 * P)%R) /\
    (P = 1%R -> t = max128).
Proof. exact floor_exact. Qed.
Print Assumptions C25_floor_exact.

(* saturation at every pair whose FLOAT ratio is 1 -- c1 = c2 (C25_saturates) and also pairs
   c1 <> c2 above 2^53 that round to the same binary64 number, as in Substrate *)
Theorem C25_saturates_ratio_one : forall pow64 c1 c2 n,
  pow_range pow64 -> pow_zero pow64 -> (1 <= c1 < 2 ^ 64)%Z -> (1 <= c2 < 2 ^ 64)%Z -> (1 <= n < 2 ^ 63)%Z ->
  R64 (ratio_of c1 c2) = 1%R -> calculate_threshold pow64 c1 c2 n = Ok max128.
Proof. exact saturates_ratio_one. Qed.
Print Assumptions C25_saturates_ratio_one.

(* the float ratio is the correctly rounded rational, and ordered like the rationals, whenever
   the four operands are exactly representable in binary64 (generalises the third part of
   C25_ratio_order from operands < 2^53 to e.g. all multiples of 2^11) ... *)
Theorem C25_ratio_order_representable : forall c1 c2 c1' c2',
  (1 <= c1 < 2 ^ 64)%Z -> (1 <= c2 < 2 ^ 64)%Z -> (1 <= c1' < 2 ^ 64)%Z -> (1 <= c2' < 2 ^ 64)%Z ->
  RN (IZR c1) = IZR c1 -> RN (IZR c2) = IZR c2 -> RN (IZR c1') = IZR c1' -> RN (IZR c2') = IZR c2' ->
  (c1 * c2' <= c1' * c2)%Z ->
  R64 (ratio_of c1 c2) = RN (IZR c1 / IZR c2) /\
  (R64 (ratio_of c1 c2) <= R64 (ratio_of c1' c2'))%R.
Proof. exact ratio_mono_fmt. Qed.
Print Assumptions C25_ratio_order_representable.

(* ... and NOT in general: for operands that binary64 cannot represent, "monotone in c" read
   over the rationals c1/c2 fails -- for Substrate's `c.0 as f64 / c.1 as f64` just as for
   CalculateThreshold, which reproduces it.  (2^53+1)/(2^53+2) > 2^53/(2^53+1), yet the first
   threshold (n = 1) is strictly smaller than the second (which saturates).  Monotonicity in the
   float ratio (C25_monotone) is what holds for all inputs. *)
Theorem C25_rational_order_large_operands_refuted :
  let a1 := (2 ^ 53 + 1)%Z in let a2 := (2 ^ 53 + 2)%Z in
  let b1 := (2 ^ 53)%Z in let b2 := (2 ^ 53 + 1)%Z in
  (b1 * a2 < a1 * b2)%Z /\
  exists ta tb, calculate_threshold (fun x _ => x) a1 a2 1 = Ok ta /\
                calculate_threshold (fun x _ => x) b1 b2 1 = Ok tb /\ (ta < tb)%N.
Proof. exact rational_order_large_refuted. Qed.
Print Assumptions C25_rational_order_large_operands_refuted.

(* the inputs CalculateThreshold rejects *)
Theorem C25_errors : forall pow64 c1 c2 n,
  (c1 = 0%Z \/ c2 = 0%Z -> calculate_threshold pow64 c1 c2 n = Err err_zero) /\
  ((1 <= c1 < 2 ^ 64)%Z -> (1 <= c2 < 2 ^ 64)%Z -> (1 < R64 (ratio_of c1 c2))%R ->
   calculate_threshold pow64 c1 c2 n = Err err_gt_one).
Proof.
  intros. split; [apply calculate_threshold_zero|apply calculate_threshold_gt_one].
Qed.
Print Assumptions C25_errors.

(* checkPrimaryThreshold after the VRF bytes: little-endian value of the 16 bytes < threshold *)
Theorem C25_primary_check : forall res thr, length res = 16%nat ->
  check_primary_threshold res thr = (le_val res <? thr)%N.
Proof. exact check_primary_numeric. Qed.
Print Assumptions C25_primary_check.

(* secondary slot author = BE (blake2b-256 (randomness || slot as u64 LE)) mod n, and it is < n
   (n up to 2^32: the result type is uint32) *)
Theorem C25_secondary : forall slot n randomness, (1 <= n <= 4294967296)%Z ->
  secondary_slot_author slot n randomness =
    Ok (be_val (Blake2b.blake2b_256 (randomness ++ le_bytes 8 slot)) mod Z.to_N n)%N /\
  (be_val (Blake2b.blake2b_256 (randomness ++ le_bytes 8 slot)) mod Z.to_N n < Z.to_N n)%N.
Proof. exact secondary_author_spec. Qed.
Print Assumptions C25_secondary.

(* the bit-pattern transport of float64 values between the Go harness and the model (the
   recorded math.Pow results, the compared 1-c and 1/n) loses nothing: decoding the encoding of
   any binary64 value gives it back *)
Theorem C25_bits_roundtrip : forall x : f64, f64_of_bits (f64_bits x) = x.
Proof. exact bits_roundtrip. Qed.
Print Assumptions C25_bits_roundtrip.

(* ---- non-vacuity *)
(* the hypotheses on pow64 are satisfiable (x^1 = x, which is what math.Pow returns for n = 1) *)
Example C25_pow_hypotheses_satisfiable :
  pow_range (fun x _ => x) /\ pow_zero (fun x _ => x) /\ pow_mono (fun x _ => x).
Proof.
  split; [|split].
  - intros x th Fx Hx _ _. split; assumption.
  - intros x th _ Hx _ _. exact Hx.
  - intros x y th _ _ _ _ _ H _. exact H.
Qed.

(* the accuracy hypothesis of C25_error_bound is satisfiable together with the other three *)
Example C25_pow_acc_satisfiable : pow_acc (fun x _ => x) 1.
Proof. exact pow_acc_satisfiable. Qed.

(* c1 <> c2 with float ratio 1 (2^53 / (2^53+1)): saturates, as C25_saturates_ratio_one says *)
Example C25_nonvacuous_ratio_one :
  calculate_threshold (fun x _ => x) (2 ^ 53) (2 ^ 53 + 1) 7 = Ok max128 /\
  f64_bits (ratio_of (2 ^ 53) (2 ^ 53 + 1)) = f64_bits f64_one.
Proof. vm_compute. split; reflexivity. Qed.

(* c = 1/4, n = 1: threshold = 2^126; c = 1: the maximum *)
Example C25_nonvacuous_quarter :
  calculate_threshold (fun x _ => x) 1 4 1 = Ok 85070591730234615865843651857942052864%N /\
  calculate_threshold (fun x _ => x) 7 7 1 = Ok max128.
Proof. vm_compute. split; reflexivity. Qed.

(* c = 1/2, n = 3 with the value math.Pow(0.5, 1/3) = 0x3fe965fea53d6e3d recorded from the Go
   run: the threshold of lib/babe's own TestCalculateThreshold "happy_path"
   (Upper = 0x34d00ad6148e1800, Lower = 0) *)
Example C25_nonvacuous_happy_path :
  calculate_threshold (fun _ _ => f64_of_bits 4605324238331407933) 1 2 3
  = Ok (3805553599712204800 * 18446744073709551616)%N.
Proof. vm_compute. reflexivity. Qed.

Example C25_nonvacuous_secondary :
  secondary_slot_author 7 3 (repeat Byte.x00 32) = Ok 1%N.
Proof. vm_compute. reflexivity. Qed.
