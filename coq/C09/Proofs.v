(* C09/Proofs.v — lemmas for property C09 (storage append follows Substrate semantics). *)
From Common Require Import Bytes Outcome.
From C09 Require Import Model.
From Coq Require Import ZifyN ZifyNat ZifyBool.
Local Open Scope N_scope.

Ltac Zify.zify_post_hook ::= Z.div_mod_to_equations.

(* ---------------------------------------------------------------- bytes *)

Lemma byte_eqb_refl b : byte_eqb b b = true.
Proof. destruct (byte_eqb_spec b b); congruence. Qed.

Lemma byte_eqb_true a b : byte_eqb a b = true -> a = b.
Proof. destruct (byte_eqb_spec a b); congruence. Qed.

Lemma is_prefix_app p r : is_prefix p (p ++ r) = true.
Proof. induction p as [|x p IH]; cbn; [reflexivity|]. now rewrite byte_eqb_refl, IH. Qed.

Lemma is_prefix_inv p l : is_prefix p l = true -> l = p ++ skipn (length p) l.
Proof.
  revert l; induction p as [|x p IH]; intros l H; [reflexivity|].
  destruct l as [|y l]; [discriminate|]. cbn in H.
  apply andb_prop in H as [E H]. apply byte_eqb_true in E. subst y.
  cbn [length skipn app]. f_equal. now apply IH.
Qed.

Lemma is_prefix_length p l : is_prefix p l = true -> (length p <= length l)%nat.
Proof.
  intro H. apply is_prefix_inv in H. apply (f_equal (@length byte)) in H.
  rewrite app_length in H. lia.
Qed.

Lemma b2n_of_n2b_eq n b : n < 256 -> n = b2n b -> n2b n = b.
Proof. intros _ ->. apply n2b_b2n. Qed.

Lemma le_val2 b c : le_val [b; c] = b2n b + 256 * b2n c.
Proof. cbn [le_val]. lia. Qed.
Lemma le_val4 b c d e :
  le_val [b; c; d; e] = b2n b + 256 * (b2n c + 256 * (b2n d + 256 * b2n e)).
Proof. cbn [le_val]. lia. Qed.
Lemma le_bytes2 b c : le_bytes 2 (le_val [b; c]) = [b; c].
Proof. exact (le_bytes_le_val [b; c]). Qed.
Lemma le_bytes4 b c d e : le_bytes 4 (le_val [b; c; d; e]) = [b; c; d; e].
Proof. exact (le_bytes_le_val [b; c; d; e]). Qed.
Lemma le_val_cons b l : le_val (b :: l) = b2n b + 256 * le_val l.
Proof. reflexivity. Qed.

Lemma le_val_bound l k : length l = k -> le_val l < 256 ^ N.of_nat k.
Proof. intros <-. apply le_val_lt. Qed.

(* ---------------------------------------------------------------- byte_len *)

Lemma byte_len_4 n : two30 <= n -> n < two32 -> byte_len n = 4%nat.
Proof.
  unfold two30, two32, byte_len. intros L U.
  destruct n as [|p]; [lia|].
  assert (S : N.size (N.pos p) = N.succ (N.log2 (N.pos p))) by (apply N.size_log2; lia).
  assert (L2 : 30 <= N.log2 (N.pos p)).
  { change 30 with (N.log2 (2^30)). apply N.log2_le_mono. change (2^30) with 1073741824. lia. }
  assert (U2 : N.log2 (N.pos p) < 32).
  { apply N.log2_lt_pow2; [lia|]. change (2^32) with 4294967296. lia. }
  rewrite S.
  assert (E : (N.succ (N.log2 (N.pos p)) + 7) / 8 = 4) by lia.
  now rewrite E.
Qed.

(* ---------------------------------------------------------------- encoders agree on u32 *)

Lemma enc_big_compact n : n < two32 -> enc_big n = compact_u32_encode n.
Proof.
  intro U. unfold enc_big, compact_u32_encode.
  destruct (n <? two6) eqn:A; [reflexivity|].
  destruct (n <? two14) eqn:B; [reflexivity|].
  destruct (n <? two30) eqn:C; [reflexivity|].
  rewrite byte_len_4 by (unfold two30 in *; lia || assumption). reflexivity.
Qed.

Lemma compact_encode_length n : length (compact_u32_encode n) = compact_len n.
Proof.
  unfold compact_u32_encode, compact_len.
  destruct (n <? two6); [reflexivity|].
  destruct (n <? two14); [now rewrite le_bytes_length|].
  destruct (n <? two30); [now rewrite le_bytes_length|].
  cbn [length]. now rewrite le_bytes_length.
Qed.

(* mode (two low bits) of the first byte *)
Definition hd_mode (l : list byte) : N :=
  match l with b :: _ => b2n b mod 4 | [] => 4 end.

Lemma hd_mode_le_bytes k v : hd_mode (le_bytes (S k) v) = (v mod 256) mod 4.
Proof. cbn [le_bytes hd_mode]. now rewrite b2n_n2b. Qed.

Lemma enc_big_mode n :
  hd_mode (enc_big n) =
  if n <? two6 then 0 else if n <? two14 then 1 else if n <? two30 then 2 else 3.
Proof.
  unfold enc_big.
  destruct (n <? two6) eqn:A.
  { cbn [hd_mode]. rewrite b2n_n2b. lia. }
  destruct (n <? two14) eqn:B.
  { rewrite hd_mode_le_bytes. lia. }
  destruct (n <? two30) eqn:C.
  { rewrite hd_mode_le_bytes. lia. }
  cbn [hd_mode]. rewrite b2n_n2b. lia.
Qed.

Lemma is_prefix_mode p b r : p <> [] -> is_prefix p (b :: r) = true -> hd_mode p = b2n b mod 4.
Proof.
  destruct p as [|x p]; [congruence|]. intros _ H. cbn in H.
  apply andb_prop in H as [E _]. apply byte_eqb_true in E. now subst.
Qed.

Lemma enc_big_nonempty n : enc_big n <> [].
Proof.
  unfold enc_big.
  destruct (n <? two6); [discriminate|].
  destruct (n <? two14); [discriminate|].
  destruct (n <? two30); discriminate.
Qed.

Lemma is_prefix_mode_false n b r :
  (if n <? two6 then 0 else if n <? two14 then 1 else if n <? two30 then 2 else 3) <> b2n b mod 4 ->
  is_prefix (enc_big n) (b :: r) = false.
Proof.
  intro H. destruct (is_prefix (enc_big n) (b :: r)) eqn:P; [|reflexivity].
  apply is_prefix_mode in P; [|apply enc_big_nonempty]. rewrite enc_big_mode in P. contradiction.
Qed.

(* ---------------------------------------------------------------- read_n *)

Lemma read_n_full strict k l :
  (0 < k)%nat -> (k <= length l)%nat -> read_n strict k l = Some (firstn k l).
Proof.
  intros K L. unfold read_n. destruct l as [|x l]; [cbn in L; lia|].
  replace (length (x :: l) <? k)%nat with false by (symmetry; apply Nat.ltb_ge; exact L).
  rewrite andb_false_r. unfold pad_back.
  rewrite firstn_length_le by exact L. rewrite Nat.sub_diag. cbn [zeros repeat].
  now rewrite app_nil_r.
Qed.

Lemma read_n_length strict k l buf : read_n strict k l = Some buf -> (k <= length buf)%nat.
Proof.
  unfold read_n. destruct l as [|x l]; [discriminate|].
  destruct (strict && _)%bool; [discriminate|]. intros [= <-].
  unfold pad_back, zeros. rewrite app_length, repeat_length. lia.
Qed.

Lemma read_n_exact strict k l buf : read_n strict k l = Some buf -> length buf = k.
Proof.
  unfold read_n. destruct l as [|x l]; [discriminate|].
  destruct (strict && _)%bool; [discriminate|]. intros [= <-].
  unfold pad_back, zeros. rewrite app_length, repeat_length.
  pose proof (firstn_le_length k (x :: l)). lia.
Qed.

(* a k-byte buffer that is a prefix of the remaining input was read completely *)
Lemma read_n_prefix strict k l buf :
  read_n strict k l = Some buf -> is_prefix buf l = true -> buf = firstn k l /\ (k <= length l)%nat.
Proof.
  intros R P. pose proof (read_n_exact _ _ _ _ R) as Lb.
  pose proof (is_prefix_length _ _ P) as Ll.
  apply is_prefix_inv in P. split; [|lia].
  rewrite P at 1. rewrite firstn_app, Lb, Nat.sub_diag. cbn [firstn].
  rewrite app_nil_r. rewrite <- Lb. now rewrite firstn_all.
Qed.

(* ---------------------------------------------------------------- (A) canonical prefixes *)

Lemma some_pair_inj {A B} (a c : A) (b d : B) : Some (a, b) = Some (c, d) -> c = a /\ d = b.
Proof. intro H. injection H. auto. Qed.

Lemma canonical_go strict cur n k :
  compact_u32_decode cur = Some (n, k) ->
  n < two32 /\ k = compact_len n /\
  dec_big strict cur = Some n /\
  is_prefix (enc_big n) cur = true /\
  length (enc_big n) = compact_len n.
Proof.
  unfold compact_u32_decode, dec_big.
  destruct cur as [|b r]; [discriminate|].
  pose proof (b2n_lt b) as Hb.
  destruct (b2n b mod 4 =? 0) eqn:M0.
  { intro HS; apply some_pair_inj in HS as [-> ->].
    assert (E : enc_big (b2n b / 4) = [b]).
    { unfold enc_big. replace (b2n b / 4 <? two6) with true by (unfold two6; lia).
      f_equal. apply b2n_of_n2b_eq; lia. }
    rewrite E. unfold compact_len, two32.
    replace (b2n b / 4 <? two6) with true by (unfold two6; lia).
    cbn [is_prefix length]. rewrite byte_eqb_refl. repeat split; try reflexivity; lia. }
  destruct (b2n b mod 4 =? 1) eqn:M1.
  { destruct r as [|c r]; [discriminate|].
    pose proof (b2n_lt c) as Hc. pose proof (le_val2 b c) as V.
    destruct ((63 <? le_val [b; c] / 4) && (le_val [b; c] / 4 <=? 16383)) eqn:R; [|discriminate].
    intro HS; apply some_pair_inj in HS as [-> ->].
    set (x := le_val [b; c] / 4) in *.
    assert (X : x * 4 + 1 = le_val [b; c]) by (unfold x; lia).
    assert (E : enc_big x = [b; c]).
    { unfold enc_big. replace (x <? two6) with false by (unfold two6; lia).
      replace (x <? two14) with true by (unfold two14; lia). rewrite X. apply le_bytes2. }
    rewrite E. unfold compact_len, two32.
    replace (x <? two6) with false by (unfold two6; lia).
    replace (x <? two14) with true by (unfold two14; lia).
    cbn [is_prefix length]. rewrite !byte_eqb_refl. repeat split; try reflexivity; lia. }
  destruct (b2n b mod 4 =? 2) eqn:M2.
  { destruct r as [|c [|d [|e r]]]; try discriminate.
    pose proof (b2n_lt c) as Hc. pose proof (b2n_lt d) as Hd. pose proof (b2n_lt e) as He.
    pose proof (le_val4 b c d e) as V.
    destruct ((16383 <? le_val [b; c; d; e] / 4) && (le_val [b; c; d; e] / 4 <=? 1073741823)) eqn:R;
      [|discriminate].
    intro HS; apply some_pair_inj in HS as [-> ->].
    rewrite read_n_full by (cbn [length]; lia). cbn [firstn].
    set (x := le_val [b; c; d; e] / 4) in *.
    assert (X : x * 4 + 2 = le_val [b; c; d; e]) by (unfold x; lia).
    assert (E : enc_big x = [b; c; d; e]).
    { unfold enc_big. replace (x <? two6) with false by (unfold two6; lia).
      replace (x <? two14) with false by (unfold two14; lia).
      replace (x <? two30) with true by (unfold two30; lia). rewrite X. apply le_bytes4. }
    rewrite E. unfold compact_len, two32.
    replace (x <? two6) with false by (unfold two6; lia).
    replace (x <? two14) with false by (unfold two14; lia).
    replace (x <? two30) with true by (unfold two30; lia).
    cbn [is_prefix length]. rewrite !byte_eqb_refl. repeat split; try reflexivity; lia. }
  destruct (b2n b / 4 =? 0) eqn:T; [|discriminate].
  destruct r as [|c [|d [|e [|f r]]]]; try discriminate.
  pose proof (b2n_lt c) as Hc. pose proof (b2n_lt d) as Hd. pose proof (b2n_lt e) as He.
  pose proof (b2n_lt f) as Hf. pose proof (le_val4 c d e f) as V.
  destruct (1073741823 <? le_val [c; d; e; f]) eqn:R; [|discriminate].
  intro HS; apply some_pair_inj in HS as [-> ->].
  assert (B3 : b2n b = 3) by lia.
  rewrite B3. change (N.to_nat (3 / 4 + 4)) with 4%nat.
  rewrite read_n_full by (cbn [length]; lia). cbn [firstn].
  set (x := le_val [c; d; e; f]) in *.
  assert (X32 : x < two32) by (unfold two32; lia).
  assert (E : enc_big x = b :: [c; d; e; f]).
  { unfold enc_big. replace (x <? two6) with false by (unfold two6; lia).
    replace (x <? two14) with false by (unfold two14; lia).
    replace (x <? two30) with false by (unfold two30; lia).
    rewrite byte_len_4 by (unfold two30; lia || assumption).
    f_equal; [apply b2n_of_n2b_eq; cbn; lia | apply le_bytes4]. }
  rewrite E. unfold compact_len.
  replace (x <? two6) with false by (unfold two6; lia).
  replace (x <? two14) with false by (unfold two14; lia).
  replace (x <? two30) with false by (unfold two30; lia).
  cbn [is_prefix length]. rewrite !byte_eqb_refl. repeat split; try reflexivity; assumption.
Qed.

(* ---------------------------------------------------------------- (B) everything else *)

Lemma some_inj {A} (a b : A) : Some a = Some b -> b = a.
Proof. congruence. Qed.

Lemma firstn3 (c d e : byte) r : firstn 3 (c :: d :: e :: r) = [c; d; e].
Proof. reflexivity. Qed.

Lemma length_ge3 (l : list byte) : (3 <= length l)%nat -> exists c d e r, l = c :: d :: e :: r.
Proof. destruct l as [|c [|d [|e r]]]; cbn; try lia. eauto. Qed.
Lemma length_ge4 (l : list byte) : (4 <= length l)%nat -> exists c d e f r, l = c :: d :: e :: f :: r.
Proof. destruct l as [|c [|d [|e [|f r]]]]; cbn; try lia. eauto 6. Qed.

Lemma noncanonical_go strict cur n :
  compact_u32_decode cur = None -> dec_big strict cur = Some n -> n < u32_max ->
  is_prefix (enc_big n) cur = false.
Proof.
  unfold compact_u32_decode, dec_big.
  destruct cur as [|b r]; [discriminate|].
  pose proof (b2n_lt b) as Hb.
  destruct (b2n b mod 4 =? 0) eqn:M0; [discriminate|].
  destruct (b2n b mod 4 =? 1) eqn:M1.
  { destruct r as [|c r]; [discriminate|].
    pose proof (b2n_lt c) as Hc. pose proof (le_val2 b c) as V.
    destruct ((63 <? le_val [b; c] / 4) && (le_val [b; c] / 4 <=? 16383)) eqn:R; [discriminate|].
    intros _ HS _. apply some_inj in HS as ->.
    apply is_prefix_mode_false.
    replace (le_val [b; c] / 4 <? two6) with true by (unfold two6; lia). lia. }
  destruct (b2n b mod 4 =? 2) eqn:M2.
  { intros D HS _.
    destruct (read_n strict 3 r) as [buf|] eqn:RD; [|discriminate].
    apply some_inj in HS as ->.
    pose proof (read_n_exact _ _ _ _ RD) as Lb.
    pose proof (le_val_bound buf 3 Lb) as Vb. change (256 ^ N.of_nat 3) with 16777216 in Vb.
    pose proof (le_val_cons b buf) as V.
    set (x := le_val (b :: buf) / 4) in *.
    destruct (x <? two14) eqn:S14.
    { apply is_prefix_mode_false. rewrite S14.
      destruct (x <? two6); lia. }
    destruct (is_prefix (enc_big x) (b :: r)) eqn:P; [exfalso|reflexivity].
    assert (E : enc_big x = b :: buf).
    { unfold enc_big. replace (x <? two6) with false by (unfold two6, two14 in *; lia).
      rewrite S14. replace (x <? two30) with true by (unfold two30; lia).
      replace (x * 4 + 2) with (le_val (b :: buf)) by (unfold x; lia).
      replace 4%nat with (length (b :: buf)) by (cbn [length]; lia).
      apply le_bytes_le_val. }
    rewrite E in P. cbn [is_prefix] in P. rewrite byte_eqb_refl in P. cbn [andb] in P.
    destruct (read_n_prefix _ _ _ _ RD P) as [Eb Lr].
    destruct (length_ge3 r Lr) as (c & d & e & r' & ->).
    rewrite firstn3 in Eb. subst buf.
    replace ((16383 <? le_val [b; c; d; e] / 4) && (le_val [b; c; d; e] / 4 <=? 1073741823))
      with true in D by (fold x; unfold two14 in *; lia).
    discriminate. }
  intros D HS U.
  destruct (read_n strict (N.to_nat (b2n b / 4 + 4)) r) as [buf|] eqn:RD; [|discriminate].
  apply some_inj in HS as ->.
  set (x := le_val buf) in *.
  destruct (x <? two30) eqn:S30.
  { apply is_prefix_mode_false.
    destruct (x <? two6); [lia|]. destruct (x <? two14); [lia|]. rewrite S30. lia. }
  destruct (is_prefix (enc_big x) (b :: r)) eqn:P; [exfalso|reflexivity].
  assert (E : enc_big x = n2b 3 :: le_bytes 4 x).
  { unfold enc_big. replace (x <? two6) with false by (unfold two6, two30 in *; lia).
    replace (x <? two14) with false by (unfold two14, two30 in *; lia).
    rewrite S30. rewrite byte_len_4 by (unfold two30, two32, u32_max in *; lia). reflexivity. }
  rewrite E in P. cbn [is_prefix] in P. apply andb_prop in P as [Pb P].
  apply byte_eqb_true in Pb. subst b. rewrite b2n_n2b in *. change (3 mod 256) with 3 in *.
  change (N.to_nat (3 / 4 + 4)) with 4%nat in RD.
  pose proof (read_n_exact _ _ _ _ RD) as Lb.
  assert (E4 : le_bytes 4 x = buf).
  { unfold x. rewrite <- Lb at 1. apply le_bytes_le_val. }
  rewrite E4 in P.
  destruct (read_n_prefix _ _ _ _ RD P) as [Eb Lr].
  destruct (length_ge4 r Lr) as (c & d & e & f & r' & ->).
  cbn [firstn] in Eb. subst x. subst buf.
  change (3 / 4 =? 0) with true in D. cbv iota in D.
  replace (1073741823 <? le_val [c; d; e; f]) with true in D by (unfold two30 in *; lia).
  discriminate.
Qed.

(* ---------------------------------------------------------------- main theorem *)

Theorem go_append_substrate strict cur item :
  go_append strict cur item = substrate_append cur item.
Proof.
  unfold go_append, substrate_append.
  destruct cur as [|b r]; [reflexivity|].
  set (cur := b :: r).
  destruct (compact_u32_decode cur) as [[n k]|] eqn:D.
  - destruct (canonical_go strict cur n k D) as (U & K & G & P & L).
    rewrite G, P, L, andb_true_r.
    destruct (n <? u32_max) eqn:UM; [|reflexivity].
    rewrite enc_big_compact by (unfold two32, u32_max in *; lia). reflexivity.
  - destruct (dec_big strict cur) as [n|] eqn:G; [|reflexivity].
    destruct (n <? u32_max) eqn:UM; [|reflexivity].
    rewrite (noncanonical_go strict cur n D G) by lia. reflexivity.
Qed.

(* ---------------------------------------------------------------- the spec is the SCALE Vec append *)

Lemma hd_split (l : list byte) : l <> [] -> exists b r, l = b :: r.
Proof. destruct l; [congruence|eauto]. Qed.

Lemma compact_roundtrip n rest :
  n < two32 -> compact_u32_decode (compact_u32_encode n ++ rest) = Some (n, compact_len n).
Proof.
  intro U. unfold compact_u32_encode, compact_len.
  destruct (n <? two6) eqn:A.
  { cbn [app compact_u32_decode]. rewrite b2n_n2b.
    replace (n * 4 mod 256 mod 4 =? 0) with true by (unfold two6 in *; lia).
    do 2 f_equal. unfold two6 in *; lia. }
  destruct (n <? two14) eqn:B.
  { cbn [le_bytes app compact_u32_decode]. rewrite !b2n_n2b. rewrite N.shiftr_div_pow2.
    change (2 ^ 8) with 256.
    replace ((n * 4 + 1) mod 256 mod 4 =? 0) with false by lia.
    replace ((n * 4 + 1) mod 256 mod 4 =? 1) with true by lia.
    rewrite le_val2, !b2n_n2b.
    assert (E : ((n * 4 + 1) mod 256 + 256 * ((n * 4 + 1) / 256 mod 256)) / 4 = n)
      by (unfold two6, two14 in *; lia).
    rewrite E. replace ((63 <? n) && (n <=? 16383)) with true by (unfold two6, two14 in *; lia).
    reflexivity. }
  destruct (n <? two30) eqn:C.
  { cbn [le_bytes app compact_u32_decode]. rewrite !b2n_n2b. rewrite !N.shiftr_div_pow2.
    change (2 ^ 8) with 256.
    replace ((n * 4 + 2) mod 256 mod 4 =? 0) with false by lia.
    replace ((n * 4 + 2) mod 256 mod 4 =? 1) with false by lia.
    replace ((n * 4 + 2) mod 256 mod 4 =? 2) with true by lia.
    rewrite le_val4, !b2n_n2b.
    set (v := n * 4 + 2).
    assert (E : (v mod 256 + 256 * (v / 256 mod 256 + 256 * (v / 256 / 256 mod 256
                   + 256 * (v / 256 / 256 / 256 mod 256)))) / 4 = n)
      by (unfold v, two14, two30 in *; lia).
    rewrite E.
    replace ((16383 <? n) && (n <=? 1073741823)) with true by (unfold two14, two30 in *; lia).
    reflexivity. }
  cbn [le_bytes app compact_u32_decode]. rewrite !b2n_n2b. rewrite !N.shiftr_div_pow2.
  change (2 ^ 8) with 256. change (3 mod 256 mod 4 =? 0) with false.
  change (3 mod 256 mod 4 =? 1) with false. change (3 mod 256 mod 4 =? 2) with false.
  change (3 mod 256 / 4 =? 0) with true. cbv iota.
  rewrite le_val4, !b2n_n2b.
  assert (E : n mod 256 + 256 * (n / 256 mod 256 + 256 * (n / 256 / 256 mod 256
                 + 256 * (n / 256 / 256 / 256 mod 256))) = n)
    by (unfold two32 in *; lia).
  rewrite E. replace (1073741823 <? n) with true by (unfold two30 in *; lia). reflexivity.
Qed.

Lemma compact_encode_nonempty n : compact_u32_encode n <> [].
Proof.
  unfold compact_u32_encode.
  destruct (n <? two6); [discriminate|].
  destruct (n <? two14); [discriminate|].
  destruct (n <? two30); discriminate.
Qed.

(* a decodable prefix is the canonical encoding of its value *)
Lemma compact_decode_canonical l n k :
  compact_u32_decode l = Some (n, k) ->
  n < two32 /\ k = compact_len n /\ l = compact_u32_encode n ++ skipn k l.
Proof.
  intro D. destruct (canonical_go false l n k D) as (U & K & _ & P & L).
  repeat split; try assumption.
  apply is_prefix_inv in P. rewrite L, <- K in P.
  rewrite enc_big_compact in P by assumption. exact P.
Qed.

Lemma skipn_app_exact {A} (a b : list A) k : length a = k -> skipn k (a ++ b) = b.
Proof. intros <-. rewrite skipn_app, skipn_all, Nat.sub_diag. reflexivity. Qed.

(* appending to the SCALE encoding of a list of n opaque items gives the encoding of the
   n+1 items *)
Theorem substrate_append_vec items item :
  N.of_nat (length items) < u32_max ->
  substrate_append (encode_opaque_vec items) item = encode_opaque_vec (items ++ [item]).
Proof.
  intro U. unfold substrate_append, encode_opaque_vec.
  set (n := N.of_nat (length items)) in *.
  destruct (hd_split _ (compact_encode_nonempty n)) as (b & r & E).
  destruct (compact_u32_encode n ++ concat items) as [|b' r'] eqn:EE.
  { rewrite E in EE. discriminate. }
  rewrite <- EE. rewrite compact_roundtrip by (unfold u32_max, two32 in *; lia).
  rewrite (proj2 (N.ltb_lt _ _) U).
  rewrite skipn_app_exact by apply compact_encode_length.
  rewrite app_length, concat_app. cbn [length concat]. rewrite app_nil_r.
  replace (N.of_nat (length items + 1)) with (n + 1) by (unfold n; lia).
  now rewrite app_assoc.
Qed.

(* ---------------------------------------------------------------- pre-fix refutations *)

Definition bs (l : list N) : list byte := map n2b l.

(* 0x01 0x00: value 0 in the two-byte mode (non-canonical): Substrate replaces, the pinned code
   extends and drops only one byte *)
Lemma prefix_refuted_noncanonical :
  go_append_prefix false (bs [1; 0; 170]) (bs [187]) = Ok (bs [4; 0; 170; 187]) /\
  substrate_append (bs [1; 0; 170]) (bs [187]) = bs [4; 187].
Proof. split; vm_compute; reflexivity. Qed.

(* u32::MAX: checked_add fails in Substrate; the pinned code stores length 2^32 *)
Lemma prefix_refuted_u32max :
  go_append_prefix false (bs [3; 255; 255; 255; 255]) (bs [187]) = Ok (bs [7; 0; 0; 0; 0; 1; 187]) /\
  substrate_append (bs [3; 255; 255; 255; 255]) (bs [187]) = bs [4; 187].
Proof. split; vm_compute; reflexivity. Qed.

(* a five-byte-mode length 2^32 *)
Lemma prefix_refuted_big :
  go_append_prefix false (bs [7; 0; 0; 0; 0; 1]) (bs [187]) = Ok (bs [7; 1; 0; 0; 0; 1; 187]) /\
  substrate_append (bs [7; 0; 0; 0; 0; 1]) (bs [187]) = bs [4; 187].
Proof. split; vm_compute; reflexivity. Qed.

(* truncated four-byte mode: the short read is zero-filled, the canonical re-encoding is longer
   than the stored value and the slice expression panics *)
Lemma prefix_refuted_panic :
  go_append_prefix false (bs [254; 255; 255]) (bs [187]) = Panic /\
  substrate_append (bs [254; 255; 255]) (bs [187]) = bs [4; 187].
Proof. split; vm_compute; reflexivity. Qed.

Lemma prefix_refuted strict :
  exists cur item, go_append_prefix strict cur item <> Ok (substrate_append cur item).
Proof.
  exists (bs [1; 0; 170]), (bs [187]).
  destruct strict; vm_compute; intro H; discriminate H.
Qed.

(* the pinned code is right exactly outside the guard [not_extendable] ... *)
Lemma prefix_partial strict cur item :
  not_extendable cur = false -> go_append_prefix strict cur item = Ok (substrate_append cur item).
Proof.
  unfold not_extendable, go_append_prefix, substrate_append.
  destruct cur as [|b r]; [reflexivity|].
  set (cur := b :: r).
  destruct (compact_u32_decode cur) as [[n k]|] eqn:D; [|discriminate].
  intro G. apply negb_false_iff in G. rewrite G.
  destruct (canonical_go strict cur n k D) as (U & K & GD & P & L).
  rewrite GD.
  pose proof (is_prefix_length _ _ P) as LL.
  replace (length cur <? length (enc_big n))%nat with false by (symmetry; apply Nat.ltb_ge; exact LL).
  rewrite L. rewrite enc_big_compact by (unfold two32, u32_max in *; lia). reflexivity.
Qed.
