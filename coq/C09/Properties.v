(* C09/Properties.v — property C09: storage append follows Substrate semantics.
   Only statements, each closed by `exact <lemma>`, with Print Assumptions beneath. *)
From Common Require Import Bytes Outcome.
From C09 Require Import Model Proofs.
Local Open Scope N_scope.

(* For every stored value and every item, storageAppend (as repaired by
   fixes/C09-append-compact-u32.patch; model go_append, for either behaviour of the SCALE
   reader on short input) stores exactly what Substrate's StorageAppend::append stores:
   canonical Compact<u32> length n with n+1 <= u32::MAX -> compact(n+1) ++ old items ++ item,
   anything else -> 0x04 ++ item. *)
Theorem C09_append : forall strict cur item,
  go_append strict cur item = substrate_append cur item.
Proof. exact go_append_substrate. Qed.
Print Assumptions C09_append.

(* substrate_append is what the property text says: (1) on the SCALE encoding of a list of n
   opaque items (n+1 fitting in u32) it yields the encoding of the n+1 items; *)
Theorem C09_spec_vec : forall items item,
  N.of_nat (length items) < u32_max ->
  substrate_append (encode_opaque_vec items) item = encode_opaque_vec (items ++ [item]).
Proof. exact substrate_append_vec. Qed.
Print Assumptions C09_spec_vec.

(* (2) its length parser accepts exactly the canonical encodings of u32 values: *)
Theorem C09_spec_compact :
  (forall n rest, n < two32 ->
     compact_u32_decode (compact_u32_encode n ++ rest) = Some (n, compact_len n)) /\
  (forall l n k, compact_u32_decode l = Some (n, k) ->
     n < two32 /\ k = compact_len n /\ l = compact_u32_encode n ++ skipn k l).
Proof. split; [exact compact_roundtrip | exact compact_decode_canonical]. Qed.
Print Assumptions C09_spec_compact.

(* non-vacuity: all three branches of the spec are inhabited (extend across a mode boundary,
   replace at u32::MAX, replace a non-canonical prefix), and the empty value *)
Example C09_nonvacuous :
  substrate_append (bs [252; 1; 2]) (bs [9]) = bs [1; 1; 1; 2; 9] /\
  substrate_append (bs [3; 255; 255; 255; 255; 7]) (bs [9]) = bs [4; 9] /\
  substrate_append (bs [1; 0; 7]) (bs [9]) = bs [4; 9] /\
  substrate_append [] (bs [9]) = bs [4; 9].
Proof. vm_compute. repeat split; reflexivity. Qed.

(* storageAppend of the pinned tree (go_append_prefix) violates C09_append: *)
Theorem C09_append_prefix_refuted : forall strict,
  exists cur item, go_append_prefix strict cur item <> Ok (substrate_append cur item).
Proof. exact prefix_refuted. Qed.
Print Assumptions C09_append_prefix_refuted.

(* the concrete pre-fix witnesses replayed on the Go code (corpus/C09/main.txt): non-canonical
   prefix, u32::MAX, a 5-byte-mode 2^32, and a truncated prefix that makes the pinned code panic *)
Theorem C09_append_prefix_witnesses :
  (go_append_prefix false (bs [1; 0; 170]) (bs [187]) = Ok (bs [4; 0; 170; 187]) /\
   substrate_append (bs [1; 0; 170]) (bs [187]) = bs [4; 187]) /\
  (go_append_prefix false (bs [3; 255; 255; 255; 255]) (bs [187]) = Ok (bs [7; 0; 0; 0; 0; 1; 187]) /\
   substrate_append (bs [3; 255; 255; 255; 255]) (bs [187]) = bs [4; 187]) /\
  (go_append_prefix false (bs [7; 0; 0; 0; 0; 1]) (bs [187]) = Ok (bs [7; 1; 0; 0; 0; 1; 187]) /\
   substrate_append (bs [7; 0; 0; 0; 0; 1]) (bs [187]) = bs [4; 187]) /\
  (go_append_prefix false (bs [254; 255; 255]) (bs [187]) = Panic /\
   substrate_append (bs [254; 255; 255]) (bs [187]) = bs [4; 187]).
Proof.
  exact (conj prefix_refuted_noncanonical (conj prefix_refuted_u32max
          (conj prefix_refuted_big prefix_refuted_panic))).
Qed.
Print Assumptions C09_append_prefix_witnesses.

(* ... and was right exactly on values that start with an extendable canonical length *)
Theorem C09_append_prefix_partial : forall strict cur item,
  not_extendable cur = false -> go_append_prefix strict cur item = Ok (substrate_append cur item).
Proof. exact prefix_partial. Qed.
Print Assumptions C09_append_prefix_partial.
