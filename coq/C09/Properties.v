(* C09/Properties.v — property C09: storage append follows Substrate semantics.
   Only statements, each closed by `exact <lemma>`, with Print Assumptions beneath. *)
From Common Require Import Bytes Outcome.
From C09 Require Import Model Proofs ProofsGen.
Local Open Scope N_scope.

(* For every stored value and every item, storageAppend (as repaired by
   fixes/C09-append-compact-u32.patch; model go_append, for either behaviour of the SCALE
   reader on short input) stores exactly what Substrate's StorageAppend::append stores:
   canonical Compact<u32> length n with n+1 <= u32::MAX -> compact(n+1) ++ old items ++ item,
   anything else -> 0x04 ++ item. *)
Theorem C09_append : forall strict cur item,
  go_append strict cur item = substrate_append cur item.
Proof. exact go_append_substrate. Qed.
Print Assumptions C09_append.

(* substrate_append is what the property text says: (1) on the SCALE encoding of a list of n
   opaque items (n+1 fitting in u32) it yields the encoding of the n+1 items; *)
Theorem C09_spec_vec : forall items item,
  N.of_nat (length items) < u32_max ->
  substrate_append (encode_opaque_vec items) item = encode_opaque_vec (items ++ [item]).
Proof. exact substrate_append_vec. Qed.
Print Assumptions C09_spec_vec.

(* (2) its length parser accepts exactly the canonical encodings of u32 values: *)
Theorem C09_spec_compact :
  (forall n rest, n < two32 ->
     compact_u32_decode (compact_u32_encode n ++ rest) = Some (n, compact_len n)) /\
  (forall l n k, compact_u32_decode l = Some (n, k) ->
     n < two32 /\ k = compact_len n /\ l = compact_u32_encode n ++ skipn k l).
Proof. split; [exact compact_roundtrip | exact compact_decode_canonical]. Qed.
Print Assumptions C09_spec_compact.

(* non-vacuity: all three branches of the spec are inhabited (extend across a mode boundary,
   replace at u32::MAX, replace a non-canonical prefix), and the empty value *)
Example C09_nonvacuous :
  substrate_append (bs [252; 1; 2]) (bs [9]) = bs [1; 1; 1; 2; 9] /\
  substrate_append (bs [3; 255; 255; 255; 255; 7]) (bs [9]) = bs [4; 9] /\
  substrate_append (bs [1; 0; 7]) (bs [9]) = bs [4; 9] /\
  substrate_append [] (bs [9]) = bs [4; 9].
Proof. vm_compute. repeat split; reflexivity. Qed.

(* storageAppend of the pinned tree (go_append_prefix) violates C09_append: *)
Theorem C09_append_prefix_refuted : forall strict,
  exists cur item, go_append_prefix strict cur item <> Ok (substrate_append cur item).
Proof. exact prefix_refuted. Qed.
Print Assumptions C09_append_prefix_refuted.

(* the concrete pre-fix witnesses replayed on the Go code (corpus/C09/main.txt): non-canonical
   prefix, u32::MAX, a 5-byte-mode 2^32, and a truncated prefix that makes the pinned code panic *)
Theorem C09_append_prefix_witnesses :
  (go_append_prefix false (bs [1; 0; 170]) (bs [187]) = Ok (bs [4; 0; 170; 187]) /\
   substrate_append (bs [1; 0; 170]) (bs [187]) = bs [4; 187]) /\
  (go_append_prefix false (bs [3; 255; 255; 255; 255]) (bs [187]) = Ok (bs [7; 0; 0; 0; 0; 1; 187]) /\
   substrate_append (bs [3; 255; 255; 255; 255]) (bs [187]) = bs [4; 187]) /\
  (go_append_prefix false (bs [7; 0; 0; 0; 0; 1]) (bs [187]) = Ok (bs [7; 1; 0; 0; 0; 1; 187]) /\
   substrate_append (bs [7; 0; 0; 0; 0; 1]) (bs [187]) = bs [4; 187]) /\
  (go_append_prefix false (bs [254; 255; 255]) (bs [187]) = Panic /\
   substrate_append (bs [254; 255; 255]) (bs [187]) = bs [4; 187]).
Proof.
  exact (conj prefix_refuted_noncanonical (conj prefix_refuted_u32max
          (conj prefix_refuted_big prefix_refuted_panic))).
Qed.
Print Assumptions C09_append_prefix_witnesses.

(* ... and was right exactly on values that start with an extendable canonical length *)
Theorem C09_append_prefix_partial : forall strict cur item,
  not_extendable cur = false -> go_append_prefix strict cur item = Ok (substrate_append cur item).
Proof. exact prefix_partial. Qed.
Print Assumptions C09_append_prefix_partial.

(* ================================================================== audit round (aud-rpc-host) *)

(* storageAppend is right for EVERY length decoder that decodes each extendable canonical
   Compact<u32> prefix to its value (dec_complete): nothing else about scale.Unmarshal matters,
   because the function re-encodes the decoded length and compares it with the stored bytes. *)
Theorem C09_append_any_decoder : forall dec, dec_complete dec ->
  forall cur item, go_append_with dec cur item = substrate_append cur item.
Proof. exact go_append_with_substrate. Qed.
Print Assumptions C09_append_any_decoder.

(* the three decoders pkg/scale has had are complete: the pinned zero-filling one, a strict one, and
   dec_big_cur, the model of the decodeBigInt now in the tree (strict reads, canonical encodings only;
   tied to scale.Unmarshal by the `dec` cases of the harness) *)
Theorem C09_decoders_complete :
  dec_complete (dec_big false) /\ dec_complete (dec_big true) /\ dec_complete dec_big_cur.
Proof. exact (conj (dec_big_complete false) (conj (dec_big_complete true) dec_big_cur_complete)). Qed.
Print Assumptions C09_decoders_complete.

(* hence the model the driver replays (go_append_cur = storageAppend over dec_big_cur): *)
Theorem C09_append_cur : forall cur item, go_append_cur cur item = substrate_append cur item.
Proof. exact go_append_cur_substrate. Qed.
Print Assumptions C09_append_cur.

(* The two clauses of the property text, stated on the model of the Go code without the
   transcription substrate_append.  (1) A value starting with a canonical compact length n, with
   n+1 still fitting in u32, becomes length n+1 followed by the old items and the new item: *)
Theorem C09_extends : forall n rest item, n < u32_max ->
  go_append_cur (compact_u32_encode n ++ rest) item = compact_u32_encode (n + 1) ++ rest ++ item.
Proof. exact (append_extends dec_big_cur dec_big_cur_complete). Qed.
Print Assumptions C09_extends.

(* (2) any other value is replaced by the one-item list: *)
Theorem C09_replaces : forall cur item,
  (forall n rest, n < u32_max -> cur <> compact_u32_encode n ++ rest) ->
  go_append_cur cur item = encode_opaque_vec [item].
Proof. exact (append_replaces dec_big_cur dec_big_cur_complete). Qed.
Print Assumptions C09_replaces.

(* the hypothesis of (2) is the decidable guard: the value is absent/empty or not_extendable *)
Theorem C09_other_values : forall cur,
  (forall n rest, n < u32_max -> cur <> compact_u32_encode n ++ rest) <->
  (cur = [] \/ not_extendable cur = true).
Proof. exact not_extendable_spec. Qed.
Print Assumptions C09_other_values.

(* non-vacuity of (2): the classes the property text lists — empty, truncated (two-byte, four-byte,
   big mode), non-canonical (each mode), undecodable big mode, u32::MAX and 2^32 *)
Example C09_other_values_classes :
  forallb not_extendable
    [bs [1]; bs [254; 255; 255]; bs [3; 255; 255]; bs [1; 0; 170]; bs [2; 0; 0; 0]; bs [3; 0; 0; 0; 0];
     bs [3; 255; 255; 255; 63]; bs [7; 1; 0; 0; 0; 0]; bs [3; 255; 255; 255; 255]; bs [7; 0; 0; 0; 0; 1];
     bs [255]] = true /\
  not_extendable (bs [252; 1; 2]) = false /\ not_extendable (bs [3; 254; 255; 255; 255]) = false.
Proof. vm_compute. repeat split; reflexivity. Qed.

(* The host function ext_storage_append_version_1: key and item are the bytes the two spans denote
   in the guest memory; the value stored under the key becomes substrate_append of the old value
   (absent = empty) and the item, every other key is untouched (st_get_put_other); a span that does
   not lie inside the memory makes the function panic before anything is stored. *)
Theorem C09_host : forall m kspan vspan s,
  (forall key item, mem_read m kspan = Ok key -> mem_read m vspan = Ok item ->
     host_append m kspan vspan s = Ok (spec_host_append s key item)) /\
  (mem_read m kspan = Panic \/ mem_read m vspan = Panic -> host_append m kspan vspan s = Panic).
Proof.
  intros m kspan vspan s. split.
  - intros key item. exact (host_append_spec dec_big_cur dec_big_cur_complete m kspan vspan s key item).
  - exact (host_append_out_of_range dec_big_cur m kspan vspan s).
Qed.
Print Assumptions C09_host.

(* mem_read is total with exactly these two outcomes, decided by ptr + size <= memory size *)
Theorem C09_host_spans : forall m span,
  (span_ptr span + span_size span <= m_size m /\
     exists l, mem_read m span = Ok l /\ N.of_nat (length l) = span_size span) \/
  (m_size m < span_ptr span + span_size span /\ mem_read m span = Panic).
Proof. exact mem_read_cases. Qed.
Print Assumptions C09_host_spans.

Theorem C09_host_other_keys : forall s key item k2, k2 <> key ->
  st_get (spec_host_append s key item) k2 = st_get s k2 /\
  st_get (spec_host_append s key item) key = substrate_append (st_get s key) item.
Proof.
  intros s key item k2 NE. unfold spec_host_append.
  split; [now apply st_get_put_other | apply st_get_put_same].
Qed.
Print Assumptions C09_host_other_keys.

(* non-vacuity: key "ab" at 16, item "cd" at 18 of a one-page memory; the same spans moved one byte
   beyond the end of the memory *)
Example C09_host_nonvacuous :
  let m := {| m_size := 65536; m_base := 16; m_data := bs [171; 205] |} in
  let s := [(bs [171], bs [4; 238])] in
  host_append m 0x100000010 0x100000011 s = Ok [(bs [171], bs [8; 238; 205])] /\
  host_append m 0x100000010 0x10000ffff s = Ok [(bs [171], bs [8; 238; 0])] /\
  host_append m 0x100000010 0x200000ffff s = Panic /\
  host_append m 0x10000 0x100000011 s = Ok [(bs [171], bs [4; 238]); ([], bs [4; 205])].
Proof. vm_compute. repeat split; reflexivity. Qed.
