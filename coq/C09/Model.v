(* C09/Model.v — executable model of storageAppend (lib/runtime/wazero/imports.go) together with
   the compact-integer path it uses: scale.Unmarshal into a big.Int pointer (decodeBigInt,
   decodeSmallInt, the Read of the embedded bytes.Buffer) and scale.Marshal of a big.Int
   (encodeBigInt).  Definitions only.

   Spec side: [substrate_append] transcribes parity-scale-codec's append_or_new_impl /
   extract_length_data as used by sp-state-machine's StorageAppend::append
   (Compact<u32>::decode with its canonicity checks, checked_add(1), else the value is
   replaced by the one-item list 0x04 ++ item). *)
From Common Require Import Bytes Outcome.
Local Open Scope N_scope.

Definition two6 : N := 64.
Definition two14 : N := 16384.
Definition two30 : N := 1073741824.
Definition two32 : N := 4294967296.
Definition u32_max : N := 4294967295.

(* ------------------------------------------------------------------ Go: encodeBigInt *)

(* len(i.Bytes()): number of bytes of the minimal big-endian magnitude *)
Definition byte_len (n : N) : nat := N.to_nat ((N.size n + 7) / 8).

(* scale.Marshal of a non-nil big.Int.  In the big-integer mode the header byte is
   uint8(numBytes-4)<<2 + 3 computed in uint8 (wraps), followed by the minimal little-endian
   bytes (reverseBytes(i.Bytes())). *)
Definition enc_big (n : N) : list byte :=
  if n <? two6 then [n2b (n * 4)]
  else if n <? two14 then le_bytes 2 (n * 4 + 1)
  else if n <? two30 then le_bytes 4 (n * 4 + 2)
  else let nb := byte_len n in
       n2b (N.of_nat (nb - 4) * 4 + 3) :: le_bytes nb n.

(* ------------------------------------------------------------------ Go: decodeBigInt *)

(* ds.Read(buf) with len(buf) = k > 0 on the embedded bytes.Buffer: io.EOF when nothing is
   left; otherwise min(k, remaining) bytes are copied, the error is nil and the rest of buf
   keeps its zeros (the short read is not noticed).  [strict = true] models a reader that
   rejects short reads (io.ReadFull), which is what a repaired pkg/scale does; the C09 theorem
   holds for both, so it does not depend on which decoder is in the tree. *)
Definition read_n (strict : bool) (k : nat) (l : list byte) : option (list byte) :=
  match l with
  | [] => None
  | _ => if strict && (length l <? k)%nat then None else Some (pad_back k (firstn k l))
  end.

(* scale.Unmarshal(data, &bigIntPtr): None = error *)
Definition dec_big (strict : bool) (l : list byte) : option N :=
  match l with
  | [] => None
  | b :: r =>
    let m := b2n b mod 4 in
    if m =? 0 then Some (b2n b / 4)
    else if m =? 1 then
      match r with
      | [] => None
      | c :: _ => Some (le_val [b; c] / 4)
      end
    else if m =? 2 then
      match read_n strict 3 r with
      | None => None
      | Some buf => Some (le_val (b :: buf) / 4)
      end
    else
      match read_n strict (N.to_nat (b2n b / 4 + 4)) r with
      | None => None
      | Some buf => Some (le_val buf)
      end
  end.

Fixpoint is_prefix (p l : list byte) : bool :=
  match p, l with
  | [], _ => true
  | x :: p', y :: l' => byte_eqb x y && is_prefix p' l'
  | _ :: _, [] => false
  end.

(* ------------------------------------------------------------------ Go: storageAppend *)

(* storageAppend as repaired by fixes/C09-append-compact-u32.patch: the decoded length must be
   below u32::MAX and its canonical encoding must be a prefix of the stored value. *)
Definition go_append (strict : bool) (cur item : list byte) : list byte :=
  match cur with
  | [] => enc_big 1 ++ item
  | _ =>
    match dec_big strict cur with
    | None => n2b 4 :: item
    | Some n =>
      let lb := enc_big n in
      if (n <? u32_max) && is_prefix lb cur
      then enc_big (n + 1) ++ skipn (length lb) cur ++ item
      else n2b 4 :: item
    end
  end.

(* storageAppend of the pinned tree (kept for the refutation witnesses): any decodable length
   is extended; the number of bytes dropped is the length of the canonical re-encoding, and
   currentValue[len(lengthBytes):] panics when that exceeds len(currentValue). *)
Definition go_append_prefix (strict : bool) (cur item : list byte) : outcome (list byte) :=
  match cur with
  | [] => Ok (enc_big 1 ++ item)
  | _ =>
    match dec_big strict cur with
    | None => Ok (n2b 4 :: item)
    | Some n =>
      let lb := enc_big n in
      if (length cur <? length lb)%nat then Panic
      else Ok (enc_big (n + 1) ++ skipn (length lb) cur ++ item)
    end
  end.

(* ------------------------------------------------------------------ Substrate spec *)

Definition compact_len (n : N) : nat :=
  if n <? two6 then 1 else if n <? two14 then 2 else if n <? two30 then 4 else 5.

(* Compact<u32>::encode *)
Definition compact_u32_encode (n : N) : list byte :=
  if n <? two6 then [n2b (n * 4)]
  else if n <? two14 then le_bytes 2 (n * 4 + 1)
  else if n <? two30 then le_bytes 4 (n * 4 + 2)
  else n2b 3 :: le_bytes 4 n.

(* Compact<u32>::decode: value and number of bytes consumed; None = Err (input too short,
   non-minimal encoding "out of range", or more than four payload bytes) *)
Definition compact_u32_decode (l : list byte) : option (N * nat) :=
  match l with
  | [] => None
  | b :: r =>
    let m := b2n b mod 4 in
    if m =? 0 then Some (b2n b / 4, 1%nat)
    else if m =? 1 then
      match r with
      | c :: _ =>
        let x := le_val [b; c] / 4 in
        if (63 <? x) && (x <=? 16383) then Some (x, 2%nat) else None
      | _ => None
      end
    else if m =? 2 then
      match r with
      | c :: d :: e :: _ =>
        let x := le_val [b; c; d; e] / 4 in
        if (16383 <? x) && (x <=? 1073741823) then Some (x, 4%nat) else None
      | _ => None
      end
    else if b2n b / 4 =? 0 then
      match r with
      | c :: d :: e :: f :: _ =>
        let x := le_val [c; d; e; f] in
        if 1073741823 <? x then Some (x, 5%nat) else None
      | _ => None
      end
    else None
  end.

(* append_or_new_impl with one opaque item *)
Definition substrate_append (cur item : list byte) : list byte :=
  match cur with
  | [] => compact_u32_encode 1 ++ item
  | _ =>
    match compact_u32_decode cur with
    | Some (n, _) =>
      if n <? u32_max                      (* len.checked_add(1) *)
      then compact_u32_encode (n + 1) ++ skipn (compact_len n) cur ++ item
      else n2b 4 :: item
    | None => n2b 4 :: item
    end
  end.

(* SCALE encoding of a Vec of opaque (already encoded) items, for the list-level reading of
   the property *)
Definition encode_opaque_vec (items : list (list byte)) : list byte :=
  compact_u32_encode (N.of_nat (length items)) ++ concat items.

(* guard used by the driver to classify pre-fix failures: the stored value is non-empty and does
   not start with an extendable canonical Compact<u32> *)
Definition not_extendable (cur : list byte) : bool :=
  match cur with
  | [] => false
  | _ => match compact_u32_decode cur with
         | Some (n, _) => negb (n <? u32_max)
         | None => true
         end
  end.

(* ================================================================== additions of the audit round
   (agent aud-rpc-host).  Nothing above was changed. *)

(* ------------------------------------------------------------------ Go: decodeBigInt as it is in
   the tree now (after the C12 repairs 8e4dc3012 / e2225d943): every multi-byte read is
   io.ReadFull (a short read is an error) and only canonical encodings are accepted:
     mode 1: value > 63; mode 2: value > 16383;
     mode 3: most significant payload byte non-zero and BitLen > 30.
   None = error. *)
Definition dec_big_cur (l : list byte) : option N :=
  match l with
  | [] => None                                         (* ReadByte: io.EOF *)
  | b :: r =>
    let m := b2n b mod 4 in
    if m =? 0 then Some (b2n b / 4)
    else if m =? 1 then
      match r with
      | [] => None
      | c :: _ => let x := le_val [b; c] / 4 in if x <=? 63 then None else Some x
      end
    else if m =? 2 then
      match read_n true 3 r with
      | None => None
      | Some buf => let x := le_val (b :: buf) / 4 in if x <=? 16383 then None else Some x
      end
    else
      match read_n true (N.to_nat (b2n b / 4 + 4)) r with
      | None => None
      | Some buf =>
        let x := le_val buf in
        if (b2n (last buf Byte.x00) =? 0) || (x <? two30) then None else Some x
      end
  end.

(* ------------------------------------------------------------------ storageAppend over an
   arbitrary length decoder [dec] (the scale.Unmarshal call); go_append strict is the instance
   dec_big strict, go_append_cur the instance with the decoder now in the tree. *)
Definition go_append_with (dec : list byte -> option N) (cur item : list byte) : list byte :=
  match cur with
  | [] => enc_big 1 ++ item
  | _ =>
    match dec cur with
    | None => n2b 4 :: item
    | Some n =>
      let lb := enc_big n in
      if (n <? u32_max) && is_prefix lb cur
      then enc_big (n + 1) ++ skipn (length lb) cur ++ item
      else n2b 4 :: item
    end
  end.

Definition go_append_cur : list byte -> list byte -> list byte := go_append_with dec_big_cur.

(* what storageAppend needs from the decoder: every canonical Compact<u32> length that can still be
   incremented is decoded to its value, whatever follows it *)
Definition dec_complete (dec : list byte -> option N) : Prop :=
  forall n rest, n < u32_max -> dec (compact_u32_encode n ++ rest) = Some n.

(* the same as a boolean on one input (used by the driver as property predicate of the cases that
   call scale.Unmarshal directly): if the input starts with an extendable canonical length, the
   decoder's answer [got] is that length *)
Definition dec_complete_on (l : list byte) (got : option N) : bool :=
  match compact_u32_decode l with
  | Some (n, _) => if n <? u32_max then match got with Some g => g =? n | None => false end else true
  | None => true
  end.

(* minimal big-endian magnitude, i.e. big.Int.Bytes() (for printing decoded lengths) *)
Definition n_be_bytes (n : N) : list byte := be_bytes (byte_len n) n.

(* ------------------------------------------------------------------ Go: ext_storage_append_version_1
   The guest memory is a flat byte array of m_size bytes; only the window written by the harness is
   non-zero.  A span is ptr | size<<32 (splitPointerSize); read() panics ("write overflow") unless
   ptr + size <= len(memory) (wazero MemoryInstance.Read / hasSize). *)
Record memory := { m_size : N; m_base : N; m_data : list byte }.

Definition mem_get (m : memory) (i : N) : byte :=
  if (m_base m <=? i) && (i <? m_base m + N.of_nat (length (m_data m)))
  then nth (N.to_nat (i - m_base m)) (m_data m) Byte.x00 else Byte.x00.

Definition span_ptr (s : N) : N := s mod two32.        (* uint32(pointerSize) *)
Definition span_size (s : N) : N := (s / two32) mod two32.  (* pointerSize >> 32 of a uint64 *)

Definition mem_read (m : memory) (span : N) : outcome (list byte) :=
  let p := span_ptr span in
  let n := span_size span in
  if p + n <=? m_size m
  then Ok (map (fun i => mem_get m (p + N.of_nat i)) (seq 0 (N.to_nat n)))
  else Panic.

(* runtime.Storage as the host function sees it: Get (nil = empty for an absent key) and Put *)
Definition store := list (list byte * list byte).
Fixpoint st_get (s : store) (k : list byte) : list byte :=
  match s with
  | [] => []
  | (k', v) :: r => if bytes_eqb k k' then v else st_get r k
  end.
Fixpoint st_put (s : store) (k v : list byte) : store :=
  match s with
  | [] => [(k, v)]
  | (k', v') :: r => if bytes_eqb k k' then (k, v) :: r else (k', v') :: st_put r k v
  end.

(* read(key span); read(value span); copy; storageAppend; (the memory is not written) *)
Definition host_append_with (dec : list byte -> option N) (m : memory) (kspan vspan : N) (s : store)
  : outcome store :=
  match mem_read m kspan with
  | Ok key =>
    match mem_read m vspan with
    | Ok item => Ok (st_put s key (go_append_with dec (st_get s key) item))
    | _ => Panic
    end
  | _ => Panic
  end.
Definition host_append : memory -> N -> N -> store -> outcome store := host_append_with dec_big_cur.

(* the specification of the host call: the value under the key read from guest memory becomes
   substrate_append of the old value (absent = empty) and the item read from guest memory *)
Definition spec_host_append (s : store) (key item : list byte) : store :=
  st_put s key (substrate_append (st_get s key) item).

(* coverage bucket of the driver: extending this value makes the length prefix wider *)
Definition prefix_grows (cur : list byte) : bool :=
  match compact_u32_decode cur with
  | Some (n, _) => (n <? u32_max) && negb (compact_len (n + 1) =? compact_len n)%nat
  | None => false
  end.
