(* C09/Model.v — executable model of storageAppend (lib/runtime/wazero/imports.go) together with
   the compact-integer path it uses: scale.Unmarshal into a big.Int pointer (decodeBigInt,
   decodeSmallInt, the Read of the embedded bytes.Buffer) and scale.Marshal of a big.Int
   (encodeBigInt).  Definitions only.

   Spec side: [substrate_append] transcribes parity-scale-codec's append_or_new_impl /
   extract_length_data as used by sp-state-machine's StorageAppend::append
   (Compact<u32>::decode with its canonicity checks, checked_add(1), else the value is
   replaced by the one-item list 0x04 ++ item). *)
From Common Require Import Bytes Outcome.
Local Open Scope N_scope.

Definition two6 : N := 64.
Definition two14 : N := 16384.
Definition two30 : N := 1073741824.
Definition two32 : N := 4294967296.
Definition u32_max : N := 4294967295.

(* ------------------------------------------------------------------ Go: encodeBigInt *)

(* len(i.Bytes()): number of bytes of the minimal big-endian magnitude *)
Definition byte_len (n : N) : nat := N.to_nat ((N.size n + 7) / 8).

(* scale.Marshal of a non-nil big.Int.  In the big-integer mode the header byte is
   uint8(numBytes-4)<<2 + 3 computed in uint8 (wraps), followed by the minimal little-endian
   bytes (reverseBytes(i.Bytes())). *)
Definition enc_big (n : N) : list byte :=
  if n <? two6 then [n2b (n * 4)]
  else if n <? two14 then le_bytes 2 (n * 4 + 1)
  else if n <? two30 then le_bytes 4 (n * 4 + 2)
  else let nb := byte_len n in
       n2b (N.of_nat (nb - 4) * 4 + 3) :: le_bytes nb n.

(* ------------------------------------------------------------------ Go: decodeBigInt *)

(* ds.Read(buf) with len(buf) = k > 0 on the embedded bytes.Buffer: io.EOF when nothing is
   left; otherwise min(k, remaining) bytes are copied, the error is nil and the rest of buf
   keeps its zeros (the short read is not noticed).  [strict = true] models a reader that
   rejects short reads (io.ReadFull), which is what a repaired pkg/scale does; the C09 theorem
   holds for both, so it does not depend on which decoder is in the tree. *)
Definition read_n (strict : bool) (k : nat) (l : list byte) : option (list byte) :=
  match l with
  | [] => None
  | _ => if strict && (length l <? k)%nat then None else Some (pad_back k (firstn k l))
  end.

(* scale.Unmarshal(data, &bigIntPtr): None = error *)
Definition dec_big (strict : bool) (l : list byte) : option N :=
  match l with
  | [] => None
  | b :: r =>
    let m := b2n b mod 4 in
    if m =? 0 then Some (b2n b / 4)
    else if m =? 1 then
      match r with
      | [] => None
      | c :: _ => Some (le_val [b; c] / 4)
      end
    else if m =? 2 then
      match read_n strict 3 r with
      | None => None
      | Some buf => Some (le_val (b :: buf) / 4)
      end
    else
      match read_n strict (N.to_nat (b2n b / 4 + 4)) r with
      | None => None
      | Some buf => Some (le_val buf)
      end
  end.

Fixpoint is_prefix (p l : list byte) : bool :=
  match p, l with
  | [], _ => true
  | x :: p', y :: l' => byte_eqb x y && is_prefix p' l'
  | _ :: _, [] => false
  end.

(* ------------------------------------------------------------------ Go: storageAppend *)

(* storageAppend as repaired by fixes/C09-append-compact-u32.patch: the decoded length must be
   below u32::MAX and its canonical encoding must be a prefix of the stored value. *)
Definition go_append (strict : bool) (cur item : list byte) : list byte :=
  match cur with
  | [] => enc_big 1 ++ item
  | _ =>
    match dec_big strict cur with
    | None => n2b 4 :: item
    | Some n =>
      let lb := enc_big n in
      if (n <? u32_max) && is_prefix lb cur
      then enc_big (n + 1) ++ skipn (length lb) cur ++ item
      else n2b 4 :: item
    end
  end.

(* storageAppend of the pinned tree (kept for the refutation witnesses): any decodable length
   is extended; the number of bytes dropped is the length of the canonical re-encoding, and
   currentValue[len(lengthBytes):] panics when that exceeds len(currentValue). *)
Definition go_append_prefix (strict : bool) (cur item : list byte) : outcome (list byte) :=
  match cur with
  | [] => Ok (enc_big 1 ++ item)
  | _ =>
    match dec_big strict cur with
    | None => Ok (n2b 4 :: item)
    | Some n =>
      let lb := enc_big n in
      if (length cur <? length lb)%nat then Panic
      else Ok (enc_big (n + 1) ++ skipn (length lb) cur ++ item)
    end
  end.

(* ------------------------------------------------------------------ Substrate spec *)

Definition compact_len (n : N) : nat :=
  if n <? two6 then 1 else if n <? two14 then 2 else if n <? two30 then 4 else 5.

(* Compact<u32>::encode *)
Definition compact_u32_encode (n : N) : list byte :=
  if n <? two6 then [n2b (n * 4)]
  else if n <? two14 then le_bytes 2 (n * 4 + 1)
  else if n <? two30 then le_bytes 4 (n * 4 + 2)
  else n2b 3 :: le_bytes 4 n.

(* Compact<u32>::decode: value and number of bytes consumed; None = Err (input too short,
   non-minimal encoding "out of range", or more than four payload bytes) *)
Definition compact_u32_decode (l : list byte) : option (N * nat) :=
  match l with
  | [] => None
  | b :: r =>
    let m := b2n b mod 4 in
    if m =? 0 then Some (b2n b / 4, 1%nat)
    else if m =? 1 then
      match r with
      | c :: _ =>
        let x := le_val [b; c] / 4 in
        if (63 <? x) && (x <=? 16383) then Some (x, 2%nat) else None
      | _ => None
      end
    else if m =? 2 then
      match r with
      | c :: d :: e :: _ =>
        let x := le_val [b; c; d; e] / 4 in
        if (16383 <? x) && (x <=? 1073741823) then Some (x, 4%nat) else None
      | _ => None
      end
    else if b2n b / 4 =? 0 then
      match r with
      | c :: d :: e :: f :: _ =>
        let x := le_val [c; d; e; f] in
        if 1073741823 <? x then Some (x, 5%nat) else None
      | _ => None
      end
    else None
  end.

(* append_or_new_impl with one opaque item *)
Definition substrate_append (cur item : list byte) : list byte :=
  match cur with
  | [] => compact_u32_encode 1 ++ item
  | _ =>
    match compact_u32_decode cur with
    | Some (n, _) =>
      if n <? u32_max                      (* len.checked_add(1) *)
      then compact_u32_encode (n + 1) ++ skipn (compact_len n) cur ++ item
      else n2b 4 :: item
    | None => n2b 4 :: item
    end
  end.

(* SCALE encoding of a Vec of opaque (already encoded) items, for the list-level reading of
   the property *)
Definition encode_opaque_vec (items : list (list byte)) : list byte :=
  compact_u32_encode (N.of_nat (length items)) ++ concat items.

(* guard used by the driver to classify pre-fix failures: the stored value is non-empty and does
   not start with an extendable canonical Compact<u32> *)
Definition not_extendable (cur : list byte) : bool :=
  match cur with
  | [] => false
  | _ => match compact_u32_decode cur with
         | Some (n, _) => negb (n <? u32_max)
         | None => true
         end
  end.
