(* C09/ProofsGen.v — audit round: storageAppend is right for EVERY length decoder that is complete on
   extendable canonical Compact<u32> prefixes; the three decoders pkg/scale has had (zero-filling,
   strict, strict + canonical-only = the one in the tree) are instances; the two clauses of the
   property text stated directly; the host function ext_storage_append_version_1. *)
From Common Require Import Bytes Outcome.
From C09 Require Import Model Proofs.
From Coq Require Import ZifyN ZifyNat ZifyBool.
Local Open Scope N_scope.

Ltac Zify.zify_post_hook ::= Z.div_mod_to_equations.

(* ---------------------------------------------------------------- decoder-independent facts *)

(* a value that starts with the canonical encoding of n < 2^32 is decoded to n by Compact<u32> *)
Lemma prefix_decode n cur :
  n < two32 -> is_prefix (enc_big n) cur = true ->
  compact_u32_decode cur = Some (n, compact_len n).
Proof.
  intros U P. apply is_prefix_inv in P. rewrite enc_big_compact in P by exact U.
  rewrite P. now apply compact_roundtrip.
Qed.

Lemma some_pair_eq {A B} (a c : A) (b d : B) : Some (a, b) = Some (c, d) -> a = c.
Proof. congruence. Qed.

Theorem go_append_with_substrate dec :
  dec_complete dec -> forall cur item, go_append_with dec cur item = substrate_append cur item.
Proof.
  intros C cur item. unfold go_append_with, substrate_append.
  destruct cur as [|b r]; [reflexivity|].
  set (cur := b :: r).
  destruct (compact_u32_decode cur) as [[n k]|] eqn:D.
  - destruct (compact_decode_canonical cur n k D) as (U & K & E).
    destruct (n <? u32_max) eqn:UM.
    + assert (G : dec cur = Some n).
      { rewrite E. apply C. lia. }
      rewrite G, UM.
      assert (P : is_prefix (enc_big n) cur = true).
      { rewrite enc_big_compact by exact U. rewrite E. apply is_prefix_app. }
      rewrite P. cbn [andb].
      rewrite enc_big_compact by (unfold two32, u32_max in *; lia).
      rewrite enc_big_compact by exact U. rewrite compact_encode_length. reflexivity.
    + destruct (dec cur) as [n'|]; [|reflexivity].
      destruct (n' <? u32_max) eqn:UM'; [|reflexivity].
      destruct (is_prefix (enc_big n') cur) eqn:P; [exfalso|reflexivity].
      assert (U' : n' < two32) by (unfold two32, u32_max in *; lia).
      pose proof (prefix_decode n' cur U' P) as D'. rewrite D in D'.
      apply some_pair_eq in D'. subst n'. congruence.
  - destruct (dec cur) as [n'|]; [|reflexivity].
    destruct (n' <? u32_max) eqn:UM'; [|reflexivity].
    destruct (is_prefix (enc_big n') cur) eqn:P; [exfalso|reflexivity].
    assert (U' : n' < two32) by (unfold two32, u32_max in *; lia).
    pose proof (prefix_decode n' cur U' P) as D'. congruence.
Qed.

(* ---------------------------------------------------------------- the three decoders are complete *)

Lemma dec_big_complete strict : dec_complete (dec_big strict).
Proof.
  intros n rest U.
  assert (U2 : n < two32) by (unfold two32, u32_max in *; lia).
  pose proof (compact_roundtrip n rest U2) as D.
  now destruct (canonical_go strict _ _ _ D) as (_ & _ & G & _).
Qed.

Lemma go_append_is_with strict cur item : go_append strict cur item = go_append_with (dec_big strict) cur item.
Proof. reflexivity. Qed.

(* the decoder now in the tree agrees with Compact<u32>::decode wherever that succeeds *)
Lemma canonical_cur cur n k : compact_u32_decode cur = Some (n, k) -> dec_big_cur cur = Some n.
Proof.
  unfold compact_u32_decode, dec_big_cur.
  destruct cur as [|b r]; [discriminate|].
  pose proof (b2n_lt b) as Hb.
  destruct (b2n b mod 4 =? 0) eqn:M0.
  { intro HS. injection HS as <- _. reflexivity. }
  destruct (b2n b mod 4 =? 1) eqn:M1.
  { destruct r as [|c r]; [discriminate|].
    destruct ((63 <? le_val [b; c] / 4) && (le_val [b; c] / 4 <=? 16383)) eqn:R; [|discriminate].
    intro HS. injection HS as <- _.
    replace (le_val [b; c] / 4 <=? 63) with false by lia. reflexivity. }
  destruct (b2n b mod 4 =? 2) eqn:M2.
  { destruct r as [|c [|d [|e r]]]; try discriminate.
    destruct ((16383 <? le_val [b; c; d; e] / 4) && (le_val [b; c; d; e] / 4 <=? 1073741823)) eqn:R;
      [|discriminate].
    intro HS. injection HS as <- _.
    rewrite read_n_full by (cbn [length]; lia). cbn [firstn].
    replace (le_val [b; c; d; e] / 4 <=? 16383) with false by lia. reflexivity. }
  destruct (b2n b / 4 =? 0) eqn:T; [|discriminate].
  destruct r as [|c [|d [|e [|f r]]]]; try discriminate.
  pose proof (b2n_lt c) as Hc. pose proof (b2n_lt d) as Hd. pose proof (b2n_lt e) as He.
  pose proof (b2n_lt f) as Hf. pose proof (le_val4 c d e f) as V.
  destruct (1073741823 <? le_val [c; d; e; f]) eqn:R; [|discriminate].
  intro HS. injection HS as <- _.
  assert (B3 : b2n b = 3) by lia.
  rewrite B3. change (N.to_nat (3 / 4 + 4)) with 4%nat.
  rewrite read_n_full by (cbn [length]; lia). cbn [firstn last].
  replace (b2n f =? 0) with false by (unfold two30 in *; lia).
  replace (le_val [c; d; e; f] <? two30) with false by (unfold two30; lia).
  reflexivity.
Qed.

Lemma dec_big_cur_complete : dec_complete dec_big_cur.
Proof.
  intros n rest U.
  assert (U2 : n < two32) by (unfold two32, u32_max in *; lia).
  exact (canonical_cur _ _ _ (compact_roundtrip n rest U2)).
Qed.

Theorem go_append_cur_substrate cur item : go_append_cur cur item = substrate_append cur item.
Proof. exact (go_append_with_substrate _ dec_big_cur_complete cur item). Qed.

(* the boolean form used by the driver is implied by completeness *)
Lemma dec_complete_on_ok dec : dec_complete dec -> forall l, dec_complete_on l (dec l) = true.
Proof.
  intros C l. unfold dec_complete_on.
  destruct (compact_u32_decode l) as [[n k]|] eqn:D; [|reflexivity].
  destruct (n <? u32_max) eqn:UM; [|reflexivity].
  destruct (compact_decode_canonical l n k D) as (_ & _ & E).
  rewrite E at 1. rewrite C by lia. apply N.eqb_refl.
Qed.

(* ---------------------------------------------------------------- the two clauses of the property text *)

(* (1) a value starting with a canonical compact length n, n+1 still fitting in u32, becomes
       length n+1 followed by the old items and the new item *)
Theorem append_extends dec : dec_complete dec -> forall n rest item,
  n < u32_max ->
  go_append_with dec (compact_u32_encode n ++ rest) item = compact_u32_encode (n + 1) ++ rest ++ item.
Proof.
  intros C n rest item U. rewrite go_append_with_substrate by exact C.
  unfold substrate_append.
  destruct (hd_split _ (compact_encode_nonempty n)) as (b & r & E).
  destruct (compact_u32_encode n ++ rest) as [|b' r'] eqn:EE.
  { rewrite E in EE. discriminate. }
  rewrite <- EE. rewrite compact_roundtrip by (unfold u32_max, two32 in *; lia).
  rewrite (proj2 (N.ltb_lt _ _) U).
  now rewrite skipn_app_exact by apply compact_encode_length.
Qed.

(* (2) any other value is replaced by the one-item list *)
Theorem append_replaces dec : dec_complete dec -> forall cur item,
  (forall n rest, n < u32_max -> cur <> compact_u32_encode n ++ rest) ->
  go_append_with dec cur item = encode_opaque_vec [item].
Proof.
  intros C cur item NC. rewrite go_append_with_substrate by exact C.
  unfold encode_opaque_vec. cbn [length concat]. rewrite app_nil_r.
  change (compact_u32_encode (N.of_nat 1)) with [n2b 4].
  unfold substrate_append.
  destruct cur as [|b r]; [reflexivity|].
  destruct (compact_u32_decode (b :: r)) as [[n k]|] eqn:D; [|reflexivity].
  destruct (n <? u32_max) eqn:UM; [exfalso|reflexivity].
  destruct (compact_decode_canonical _ _ _ D) as (_ & _ & E).
  apply (NC n (skipn k (b :: r))); [lia|exact E].
Qed.

(* the hypothesis of (2) is decidable: it is the guard not_extendable, or the empty value *)
Lemma not_extendable_spec cur :
  (forall n rest, n < u32_max -> cur <> compact_u32_encode n ++ rest) <->
  (cur = [] \/ not_extendable cur = true).
Proof.
  split.
  - intro NC. destruct cur as [|b r]; [now left|right].
    unfold not_extendable.
    destruct (compact_u32_decode (b :: r)) as [[n k]|] eqn:D; [|reflexivity].
    destruct (n <? u32_max) eqn:UM; [exfalso|reflexivity].
    destruct (compact_decode_canonical _ _ _ D) as (_ & _ & E).
    apply (NC n (skipn k (b :: r))); [lia|exact E].
  - intros [->|NE] n rest U E.
    + symmetry in E. apply app_eq_nil in E as [E _]. exact (compact_encode_nonempty n E).
    + subst cur. unfold not_extendable in NE.
      destruct (hd_split _ (compact_encode_nonempty n)) as (b & r & E).
      destruct (compact_u32_encode n ++ rest) as [|b' r'] eqn:EE.
      { rewrite E in EE. discriminate. }
      rewrite <- EE in NE. rewrite compact_roundtrip in NE by (unfold u32_max, two32 in *; lia).
      rewrite (proj2 (N.ltb_lt _ _) U) in NE. discriminate.
Qed.

(* ---------------------------------------------------------------- host function *)

Theorem host_append_spec dec : dec_complete dec -> forall m kspan vspan s key item,
  mem_read m kspan = Ok key -> mem_read m vspan = Ok item ->
  host_append_with dec m kspan vspan s = Ok (spec_host_append s key item).
Proof.
  intros C m kspan vspan s key item K V. unfold host_append_with, spec_host_append.
  rewrite K, V. now rewrite go_append_with_substrate by exact C.
Qed.

(* a span that does not lie inside the guest memory makes the host function panic (Go: panic
   "write overflow" in read), nothing is stored *)
Theorem host_append_out_of_range dec m kspan vspan s :
  mem_read m kspan = Panic \/ mem_read m vspan = Panic ->
  host_append_with dec m kspan vspan s = Panic.
Proof.
  unfold host_append_with. intros [K|V].
  - now rewrite K.
  - rewrite V. destruct (mem_read m kspan); reflexivity.
Qed.

Lemma mem_read_cases m span :
  (span_ptr span + span_size span <= m_size m /\ exists l, mem_read m span = Ok l /\
     N.of_nat (length l) = span_size span) \/
  (m_size m < span_ptr span + span_size span /\ mem_read m span = Panic).
Proof.
  unfold mem_read.
  destruct (span_ptr span + span_size span <=? m_size m) eqn:R.
  - left. split; [lia|]. eexists. split; [reflexivity|].
    rewrite map_length, seq_length. lia.
  - right. split; [lia|reflexivity].
Qed.

(* the store: get after put *)
Lemma st_get_put_same s k v : st_get (st_put s k v) k = v.
Proof.
  induction s as [|[k' v'] s IH]; cbn [st_put st_get].
  - destruct (bytes_eqb_spec k k); congruence.
  - destruct (bytes_eqb_spec k k') as [->|NE]; cbn [st_get].
    + destruct (bytes_eqb_spec k' k'); congruence.
    + destruct (bytes_eqb_spec k k'); [contradiction|exact IH].
Qed.
Lemma st_get_put_other s k v k2 : k2 <> k -> st_get (st_put s k v) k2 = st_get s k2.
Proof.
  intro NE. induction s as [|[k' v'] s IH]; cbn [st_put st_get].
  - destruct (bytes_eqb_spec k2 k); [contradiction|reflexivity].
  - destruct (bytes_eqb_spec k k') as [->|NE2]; cbn [st_get].
    + destruct (bytes_eqb_spec k2 k'); [contradiction|reflexivity].
    + destruct (bytes_eqb_spec k2 k'); [reflexivity|exact IH].
Qed.
