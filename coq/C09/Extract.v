From Coq Require Import Extraction ExtrOcamlBasic.
From Common Require Import Bytes Outcome Drv.
From C09 Require Import Model.
Extraction "model.ml" drv_b2n drv_n2b drv_z_of_n drv_n_of_z drv_nat_of_n drv_n_of_nat
  enc_big dec_big go_append go_append_prefix compact_u32_encode compact_u32_decode compact_len
  substrate_append not_extendable u32_max
  dec_big_cur go_append_with go_append_cur dec_complete_on n_be_bytes
  mem_read host_append spec_host_append st_get st_put span_ptr span_size prefix_grows.
