(* C31/ProofsMeaning.v — what the boolean specification serve_spec_b says, as propositions. *)
From Coq Require Import NArith ZArith List Bool Lia.
From Common Require Import Outcome.
From C31 Require Import Gen Model ModelSpec.
Import ListNotations.
Local Open Scope N_scope.

Definition parent_child (s : store) (x y : N) : Prop :=
  exists bx by_, find_blk s x = Some bx /\ find_blk s y = Some by_
                 /\ b_parent by_ = x /\ b_number by_ = b_number bx + 1.

Lemma linked_b_spec s x y : linked_b s x y = true -> parent_child s x y.
Proof.
  unfold linked_b, parent_child. destruct (find_blk s x) as [bx|]; [|discriminate].
  destruct (find_blk s y) as [by_|]; [|discriminate]. intro H. apply andb_prop in H.
  destruct H as [H1 H2]. apply N.eqb_eq in H1. apply N.eqb_eq in H2.
  exists bx, by_. repeat split; auto.
Qed.

Lemma chain_b_stored s l : chain_b s l = true -> forall x, In x l -> exists b, find_blk s x = Some b.
Proof.
  induction l as [|x l IH]; intros H z Hz; [contradiction|]. cbn [chain_b] in H.
  destruct l as [|y l].
  - destruct Hz as [<-|[]]. unfold is_some in H. destruct (find_blk s x); [eauto|discriminate].
  - apply andb_prop in H. destruct H as [L C]. destruct Hz as [<-|Hz]; [|now apply IH].
    apply linked_b_spec in L. destruct L as (bx & _ & E & _). eauto.
Qed.

Lemma chain_b_linked s l : chain_b s l = true -> forall i x y,
  nth_error l i = Some x -> nth_error l (S i) = Some y -> parent_child s x y.
Proof.
  induction l as [|a l IH]; intros H i x y Hx Hy; [destruct i; discriminate|].
  cbn [chain_b] in H. destruct l as [|b l]; [destruct i; cbn in Hy; [discriminate|destruct i; discriminate]|].
  apply andb_prop in H. destruct H as [L C]. destruct i as [|i].
  - cbn in Hx, Hy. injection Hx as <-. injection Hy as <-. now apply linked_b_spec.
  - cbn [nth_error] in Hx. change (nth_error (b :: l) (S i) = Some y) in Hy. eapply IH; eauto.
Qed.

Lemma serve_spec_meaning s req resp : serve_spec_b s req resp = true ->
  let hs := map d_hash resp in
  let asc := if r_dir req =? dir_asc then hs else rev hs in
     N.of_nat (length resp) <= resp_max req
  /\ N.of_nat (length resp) <= max_resp
  /\ (forall x, In x hs -> exists b, find_blk s x = Some b)
  /\ (forall i x y, nth_error asc i = Some x -> nth_error asc (S i) = Some y -> parent_child s x y)
  /\ (forall d, In d resp ->
        d_fields d = N.land (N.land (r_fields req) all_fields) (avail_of s (d_hash d)))
  /\ (forall h x, r_from req = FromHash h -> hd_error hs = Some x -> x = h).
Proof.
  intros H hs asc. unfold serve_spec_b in H. destruct (find_blk s (s_best s)) as [bb|]; [|discriminate].
  apply andb_prop in H. destruct H as [H Hfrom]. apply andb_prop in H. destruct H as [H Hf].
  apply andb_prop in H. destruct H as [H L2]. apply andb_prop in H. destruct H as [C L1].
  apply N.leb_le in L1. apply N.leb_le in L2. fold hs in C. fold asc in C.
  split; [exact L1|]. split; [exact L2|].
  split.
  { intros x Hx. apply (chain_b_stored s asc C). unfold asc. destruct (r_dir req =? dir_asc); [exact Hx|].
    now apply -> in_rev. }
  split; [exact (chain_b_linked s asc C)|].
  split.
  { intros d Hd. rewrite forallb_forall in Hf. specialize (Hf d Hd). now apply N.eqb_eq in Hf. }
  intros h x Eh Hx. rewrite Eh in Hfrom. destruct (find_blk s h) as [b|]; [|discriminate].
  apply andb_prop in Hfrom. destruct Hfrom as [_ Hh]. fold hs in Hh.
  destruct hs as [|x0 hs0]; [discriminate|]. cbn in Hx. injection Hx as <-. now apply N.eqb_eq in Hh.
Qed.
