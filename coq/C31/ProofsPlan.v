(* C31/ProofsPlan.v — NewAscendingBlockRequests tiles [a, b]. *)
From Coq Require Import NArith ZArith List Bool Lia ZifyN ZifyNat ZifyBool.
From Common Require Import Outcome.
From C31 Require Import Gen Model ModelSpec.
Import ListNotations.
Local Open Scope N_scope.
Ltac Zify.zify_post_hook ::= Z.div_mod_to_equations.

(* the proofs below are about the protocol maximum the Go source declares *)
Example max_resp_is_128 : max_resp = 128.
Proof. reflexivity. Qed.

Lemma add64_small a b : a + b < two64 -> add64 a b = a + b.
Proof. intro H. unfold add64. apply N.mod_small. exact H. Qed.

Lemma sub64_small a b : b <= a -> a < two64 -> sub64 a b = a - b.
Proof.
  intros H1 H2. unfold sub64.
  assert (Hb : b < two64) by lia.
  rewrite (N.mod_small b two64 Hb).
  replace (a + two64 - b) with ((a - b) + 1 * two64) by lia.
  rewrite N.mod_add by (unfold two64; lia). apply N.mod_small. lia.
Qed.

Lemma sub64_zero_one : sub64 0 1 = two64 - 1.
Proof. reflexivity. Qed.

Lemma plan_diff a b : a <= b -> b < two64 -> b - a + 1 < two64 ->
  sub64 b (sub64 a 1) = b - a + 1.
Proof.
  intros H1 H2 H3. destruct (N.eq_dec a 0) as [->|Na].
  - rewrite sub64_zero_one. unfold sub64.
    rewrite (N.mod_small (two64 - 1) two64) by (unfold two64; lia).
    replace (b + two64 - (two64 - 1)) with (b + 1) by (unfold two64 in *; lia).
    rewrite N.mod_small by lia. lia.
  - rewrite (sub64_small a 1) by lia. rewrite sub64_small by lia. lia.
Qed.

(* the loop: i requests made, start = a + 128 i, the rest of the range has d - 128 i heights *)
Lemma plan_loop_tiles d num stop :
  num = (if d mod 128 =? 0 then d / 128 else d / 128 + 1) ->
  stop <= two64 ->
  forall k i start,
    N.of_nat k + i = num ->
    start + (d - 128 * i) = stop ->
    128 * i <= d ->
    tiles_b start (plan_loop k i num (d mod 128) start) stop = true.
Proof.
  intros Hn Hs. induction k as [|k IH]; intros i start Hk Hst Hle.
  - cbn [plan_loop tiles_b]. apply N.eqb_eq.
    destruct (d mod 128 =? 0) eqn:E; lia.
  - cbn [plan_loop tiles_b]. rewrite max_resp_is_128.
    set (mx := if (i =? num - 1) && negb (d mod 128 =? 0) then d mod 128 else 128).
    assert (Hmx : 1 <= mx <= 128 /\ 128 * i + mx <= d /\ (k = 0%nat -> 128 * i + mx = d)
                  /\ (k <> 0%nat -> mx = 128 /\ 128 * i + mx < d)).
    { assert (Hd : d = 128 * (d / 128) + d mod 128) by (apply N.div_mod'; lia).
      assert (Hlt : d mod 128 < 128) by (apply N.mod_lt; lia).
      set (q := d / 128) in *. set (r := d mod 128) in *.
      unfold mx. destruct (N.eqb_spec i (num - 1)) as [E1|E1]; destruct (N.eqb_spec r 0) as [E2|E2];
        cbn [andb negb]; rewrite Hn in *; repeat split; try lia. }
    destruct Hmx as (M1 & M2 & M3 & M4).
    assert (Hmx_le : mx <= 128) by lia.
    rewrite N.eqb_refl. cbn [andb].
    replace (1 <=? mx) with true by (symmetry; apply N.leb_le; lia).
    replace (mx <=? 128) with true by (symmetry; apply N.leb_le; lia). cbn [andb].
    destruct k as [|k'].
    + cbn [plan_loop tiles_b]. apply N.eqb_eq. specialize (M3 eq_refl). lia.
    + destruct M4 as [M4 M5]; [discriminate|].
      rewrite add64_small by lia.
      apply IH; lia.
Qed.

Lemma plan_tiles a b : a <= b -> b < two64 -> b - a + 1 < two64 ->
  plan_ok_b a b (plan a b) = true.
Proof.
  intros H1 H2 H3. unfold plan_ok_b, plan.
  replace (b <? a) with false by (symmetry; apply N.ltb_ge; lia).
  rewrite plan_diff by assumption.
  destruct (N.eqb_spec (b - a + 1) 1) as [E|E].
  - cbn [tiles_b]. rewrite N.eqb_refl, max_resp_is_128. cbn. apply N.eqb_eq. lia.
  - rewrite max_resp_is_128.
    set (d := b - a + 1) in *.
    apply (plan_loop_tiles d _ (b + 1)); try reflexivity; try lia.
Qed.

(* ---- what tiling means: the heights of the requests, concatenated, are cur .. stop-1 *)
Lemma map_seq_shift st m : forall a,
  map (fun i => st + N.of_nat i) (seq a m) = map (fun i => st + N.of_nat a + N.of_nat i) (seq 0 m).
Proof.
  induction m as [|m IH]; intro a; [reflexivity|].
  cbn [seq map]. f_equal; [lia|].
  rewrite IH. rewrite <- seq_shift, map_map. apply map_ext. intro i. lia.
Qed.

Lemma nseq_app st n m : nseq st (n + m) = nseq st n ++ nseq (st + N.of_nat n) m.
Proof.
  unfold nseq. rewrite seq_app, map_app. f_equal. cbn [plus]. apply map_seq_shift.
Qed.

Lemma nseq_length st n : length (nseq st n) = n.
Proof. unfold nseq. now rewrite map_length, seq_length. Qed.

Lemma nseq_S st n : nseq st (S n) = st :: nseq (st + 1) n.
Proof.
  change (S n) with (1 + n)%nat. rewrite nseq_app. cbn. unfold nseq at 1. cbn.
  f_equal. f_equal. lia.
Qed.

Lemma tiles_heights p : forall cur stop, tiles_b cur p stop = true ->
  cur <= stop
  /\ concat (map heights p) = nseq cur (N.to_nat (stop - cur))
  /\ Forall (fun r => 1 <= snd r <= max_resp) p.
Proof.
  induction p as [|[st mx] p IH]; intros cur stop H; cbn [tiles_b] in H.
  - apply N.eqb_eq in H. subst. repeat split; [lia| |constructor].
    rewrite N.sub_diag. reflexivity.
  - apply andb_prop in H. destruct H as [H H4]. apply andb_prop in H. destruct H as [H H3].
    apply andb_prop in H. destruct H as [H1 H2].
    apply N.eqb_eq in H1. apply N.leb_le in H2, H3. subst st.
    destruct (IH _ _ H4) as (L & C & F).
    repeat split; [lia| |constructor; [cbn [snd]; lia|exact F]].
    cbn [map concat]. rewrite C. unfold heights. cbn [fst snd].
    replace (N.to_nat (stop - cur)) with (N.to_nat mx + N.to_nat (stop - (cur + mx)))%nat by lia.
    rewrite nseq_app. f_equal. f_equal. lia.
Qed.

(* ascending order, each height once: the starts strictly increase *)
Lemma tiles_starts_increase p : forall cur stop, tiles_b cur p stop = true ->
  forall i j si sj, (i < j)%nat -> nth_error (map fst p) i = Some si -> nth_error (map fst p) j = Some sj ->
  si < sj.
Proof.
  induction p as [|[st mx] p IH]; intros cur stop H i j si sj Hij Hi Hj.
  - destruct i; discriminate.
  - cbn [tiles_b] in H. apply andb_prop in H. destruct H as [H H4]. apply andb_prop in H.
    destruct H as [H H3]. apply andb_prop in H. destruct H as [H1 H2].
    apply N.eqb_eq in H1. apply N.leb_le in H2. subst st.
    destruct j as [|j]; [lia|]. cbn [map nth_error fst] in Hj.
    destruct i as [|i].
    + cbn in Hi. injection Hi as <-.
      (* every later start is >= cur + mx *)
      clear IH.
      assert (G : forall p c stop j sj, tiles_b c p stop = true -> nth_error (map fst p) j = Some sj -> c <= sj).
      { clear. induction p as [|[st mx] p IH]; intros c stop j sj H Hj.
        - destruct j; discriminate.
        - cbn [tiles_b] in H. apply andb_prop in H. destruct H as [H H4]. apply andb_prop in H.
          destruct H as [H H3]. apply andb_prop in H. destruct H as [H1 H2].
          apply N.eqb_eq in H1. subst st. destruct j as [|j].
          + cbn in Hj. injection Hj as <-. lia.
          + cbn [map nth_error fst] in Hj. specialize (IH _ _ _ _ H4 Hj). lia. }
      specialize (G _ _ _ _ _ H4 Hj). lia.
    + cbn [map nth_error fst] in Hi. apply (IH _ _ H4 i j si sj); [lia|exact Hi|exact Hj].
Qed.
