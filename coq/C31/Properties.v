(* C31/Properties.v — property C31: block request planning and serving cover exactly the
   requested range.  Only statements, each closed by `exact <lemma>`, Print Assumptions beneath. *)
From Coq Require Import NArith ZArith List Bool Lia.
From Common Require Import Outcome.
From C31 Require Import Gen Model ModelSpec ProofsPlan ProofsStore ProofsServe ProofsQuiet ProofsMeaning ProofsByHash ProofsComplete.
Import ListNotations.
Local Open Scope N_scope.

(* Planning.  For every range a <= b of 64-bit heights (b - a + 1 itself representable, i.e. not
   the whole 2^64 range), the requests NewAscendingBlockRequests(a, b) plans
   - tile [a, b]: read in order, each request starts where the previous one ended, the first at a,
     the last ends at b (plan_ok_b, the predicate the driver evaluates on the Go output);
   - hence their heights, concatenated, are exactly a, a+1, ..., b: every height once, ascending;
   - every request asks for between 1 and max_resp (= MaxBlocksInResponse = 128) blocks;
   - the start numbers strictly increase. *)
Theorem C31_plan_partition : forall a b, a <= b -> b < two64 -> b - a + 1 < two64 ->
  let p := plan a b in
     plan_ok_b a b p = true
  /\ concat (map heights p) = nseq a (N.to_nat (b - a + 1))
  /\ Forall (fun r => 1 <= snd r <= max_resp) p
  /\ (forall i j si sj, (i < j)%nat -> nth_error (map fst p) i = Some si ->
        nth_error (map fst p) j = Some sj -> si < sj).
Proof.
  intros a b H1 H2 H3 p. pose proof (plan_tiles a b H1 H2 H3) as T. fold p in T.
  unfold plan_ok_b in T. destruct (tiles_heights _ _ _ T) as (_ & C & F).
  repeat split; auto.
  - rewrite C. f_equal. lia.
  - exact (tiles_starts_increase _ _ _ T).
Qed.
Print Assumptions C31_plan_partition.

Theorem C31_plan_empty : forall a b, b < a -> plan a b = [].
Proof. intros a b H. unfold plan. apply N.ltb_lt in H. now rewrite H. Qed.
Print Assumptions C31_plan_empty.

(* Serving.  For every well-formed chain store (any tree of blocks with forks, any best block),
   every request (by number or hash, either direction, any max, any field mask) and any number of
   earlier identical requests: if CreateBlockResponse answers with a response at all, the response
   satisfies serve_spec_b: a gap-free parent-linked chain of stored blocks in the requested
   direction, beginning with the requested block, of length
   min(requested max, 128, blocks available in that direction), every block with exactly the
   requested fields the store has. *)
Theorem C31_serve : forall s req seen resp,
  indexed s -> wf_store_b s = true ->
  serve s req seen = Ok resp -> serve_spec_b s req resp = true.
Proof. exact serve_correct. Qed.
Print Assumptions C31_serve.

(* Requests by number inside the stored range are always served (and the answer satisfies the
   specification): ascending from a number up to the best number (0 means 1), descending from
   any number; any max, any non-zero field mask, fewer than max_same+1 earlier identical requests. *)
Theorem C31_serve_by_number_answers : forall s req n seen bb,
  indexed s -> wf_store_b s = true -> find_blk s (s_best s) = Some bb ->
  r_from req = FromNum n -> r_fields req <> 0 -> seen <= max_same ->
  (r_dir req = dir_asc /\ (if n =? 0 then 1 else n) <= b_number bb) \/ r_dir req = dir_desc ->
  exists resp, serve s req seen = Ok resp /\ serve_spec_b s req resp = true.
Proof. exact serve_by_number_answers. Qed.
Print Assumptions C31_serve_by_number_answers.

(* What serve_spec_b says, as propositions about the store: the response is no longer than the
   requested and the protocol maximum; every block of it is stored; read in ascending order, each
   block is the parent of the next and one lower (gap-free, hash-linked); every block carries
   exactly the requested fields the store has; a request by hash is answered from that hash. *)
Theorem C31_serve_spec_meaning : forall s req resp, serve_spec_b s req resp = true ->
  let hs := map d_hash resp in
  let asc := if r_dir req =? dir_asc then hs else rev hs in
     N.of_nat (length resp) <= resp_max req
  /\ N.of_nat (length resp) <= max_resp
  /\ (forall x, In x hs -> exists b, find_blk s x = Some b)
  /\ (forall i x y, nth_error asc i = Some x -> nth_error asc (S i) = Some y -> parent_child s x y)
  /\ (forall d, In d resp ->
        d_fields d = N.land (N.land (r_fields req) all_fields) (avail_of s (d_hash d)))
  /\ (forall h x, r_from req = FromHash h -> hd_error hs = Some x -> x = h).
Proof. exact serve_spec_meaning. Qed.
Print Assumptions C31_serve_spec_meaning.

(* Requests BY HASH: exactly when they are served (with C31_serve_by_number_answers and
   C31_serve_never_panics this makes totality complete: every request is served or refused, and it
   is known which).  Well-formed store, non-zero field mask, at most max_same earlier copies.
   Ascending from hash h: served iff h is stored and, with e = min(best, number(h)+max-1) (64-bit
   wrap as in the code), one of the candidates checkOrGetDescendantHash looks at — the block of the
   best chain with number e, or a block of GetAllBlocksAtNumber(e) — is h itself or a descendant
   of h.  Descending from hash h: served iff h is stored, the best chain has a block eh with number
   e' = (number(h) > max ? number(h)-max+1 : 1), and eh is h or h's ancestor at that number (h
   lies on the best chain at least down to e'; from genesis only when max = 0 cannot occur: e' = 1). *)
Theorem C31_by_hash_served_iff : forall s req h seen bb,
  indexed s -> wf_store_b s = true -> find_blk s (s_best s) = Some bb ->
  r_from req = FromHash h -> r_fields req <> 0 -> seen <= max_same ->
  (r_dir req = dir_asc ->
     ((exists resp, serve s req seen = Ok resp)
      <-> exists b d, find_blk s h = Some b
            /\ candidate s (asc_end (b_number bb) (b_number b) (resp_max req)) d
            /\ (h = d \/ anc_at s d (b_number b) = Some h)))
  /\ (r_dir req = dir_desc ->
     ((exists resp, serve s req seen = Ok resp)
      <-> exists b eh, find_blk s h = Some b
            /\ anc_at s (s_best s) (desc_end true (b_number b) (resp_max req)) = Some eh
            /\ (eh = h \/ anc_at s h (desc_end true (b_number b) (resp_max req)) = Some eh))).
Proof. exact by_hash_served_iff. Qed.
Print Assumptions C31_by_hash_served_iff.

(* The store's model of GetAllBlocksAtNumber is complete: every stored block whose number does not
   exceed the best number is in all_at_number of its number (the depth-first search reaches it, the
   fuel = number of blocks suffices) ... *)
Theorem C31_all_at_number_complete : forall s x bx bb,
  indexed s -> wf_store_b s = true -> find_blk s (s_best s) = Some bb ->
  find_blk s x = Some bx -> b_number bx <= b_number bb -> In x (all_at_number s (b_number bx)).
Proof. exact all_at_number_complete_b. Qed.
Print Assumptions C31_all_at_number_complete.

(* ... so the ascending by-hash criterion needs no enumeration: served iff some STORED block with
   number e = min(best, number(h)+max-1) is h or a descendant of h. *)
Theorem C31_by_hash_asc_served_iff_stored : forall s req h seen bb,
  indexed s -> wf_store_b s = true -> find_blk s (s_best s) = Some bb ->
  r_from req = FromHash h -> r_fields req <> 0 -> seen <= max_same -> r_dir req = dir_asc ->
  ((exists resp, serve s req seen = Ok resp)
   <-> exists b d bd, find_blk s h = Some b /\ find_blk s d = Some bd
         /\ b_number bd = asc_end (b_number bb) (b_number b) (resp_max req)
         /\ (h = d \/ anc_at s d (b_number b) = Some h)).
Proof. exact by_hash_asc_served_iff_stored. Qed.
Print Assumptions C31_by_hash_asc_served_iff_stored.

(* CreateBlockResponse never panics: on every well-formed store every request (any start, any
   direction byte, any max including 0 and values above 128, any field byte, any repeat count) is
   either served or refused with an error; the `make([]..., (end-start)+1)` of the by-number
   handlers is never reached with end+1 < start, and the model never runs out of fuel. *)
Theorem C31_serve_never_panics : forall s req seen,
  indexed s -> wf_store_b s = true ->
  serve s req seen <> Panic /\ serve s req seen <> OutOfFuel.
Proof. exact serve_never_panics. Qed.
Print Assumptions C31_serve_never_panics.

(* the stores the driver builds are indexed *)
Theorem C31_mkstore_indexed : forall l best, indexed (mkstore l best).
Proof. intros. reflexivity. Qed.
Print Assumptions C31_mkstore_indexed.

(* the literal constants of the Go source the proofs and examples rely on, re-read from
   dot/network/messages/block.go and dot/sync/message.go on every run (Gen.v) *)
Example C31_consts :
  max_resp = 128 /\ dir_asc = 0 /\ dir_desc = 1 /\ max_same = 2
  /\ f_header = 1 /\ f_body = 2 /\ f_receipt = 4 /\ f_msgq = 8 /\ f_just = 16 /\ all_fields = 31.
Proof. vm_compute. repeat split; reflexivity. Qed.

(* ---- non-vacuity *)
Example C31_plan_example :
  plan 1 259 = [(1, 128); (129, 128); (257, 3)] /\ plan 0 127 = [(0, 128)] /\ plan 5 5 = [(5, 1)]
  /\ plan 0 128 = [(0, 128); (128, 1)].
Proof. vm_compute. repeat split; reflexivity. Qed.

(* genesis 0; best chain 1-2-3-4; a fork 5-6 on block 1 *)
Definition ex_store : store :=
  mkstore [ mkblk 0 99 0 3; mkblk 1 0 1 3; mkblk 2 1 2 7; mkblk 3 2 3 3; mkblk 4 3 4 19;
            mkblk 5 1 2 3; mkblk 6 5 3 3 ] 4.

Example C31_serve_example :
  wf_store_b ex_store = true
  /\ serve ex_store (mkreq 19 (FromNum 2) 0 None) 0 = Ok [mkbd 2 3; mkbd 3 3; mkbd 4 19]
  /\ serve ex_store (mkreq 1 (FromNum 9) 1 (Some 2)) 0 = Ok [mkbd 4 1; mkbd 3 1]
  /\ serve ex_store (mkreq 1 (FromHash 5) 0 None) 0 = Err E_NODESC
  /\ serve ex_store (mkreq 5 (FromHash 4) 1 (Some 3)) 0 = Ok [mkbd 4 1; mkbd 3 1; mkbd 2 5]
  /\ serve ex_store (mkreq 1 (FromHash 6) 1 None) 0 = Ok [mkbd 6 1; mkbd 5 1; mkbd 1 1]
  /\ serve ex_store (mkreq 1 (FromHash 6) 1 (Some 2)) 0 = Err E_RANGE
  /\ serve ex_store (mkreq 1 (FromNum 1) 0 None) 3 = Err E_SAME.
Proof. vm_compute. repeat split; reflexivity. Qed.

(* ---- the pinned tree (before fixes/C31-descending-end-off-by-one.patch and the BlockTree.Range
   repair) violated the property: *)

(* descending by number from block 2 with Max = 1 returned blocks 2 and 1 *)
Theorem C31_descending_off_by_one_refuted :
  exists s req resp, wf_store_b s = true /\ indexed s /\
    serve_prefix s req 0 = Ok resp /\ serve_spec_b s req resp = false
    /\ guard_desc_off_by_one s req = true.
Proof.
  exists ex_store, (mkreq 1 (FromNum 2) 1 (Some 1)), [mkbd 2 1; mkbd 1 1].
  vm_compute. repeat split; reflexivity.
Qed.
Print Assumptions C31_descending_off_by_one_refuted.

(* genesis has two children 1 and 3, with children 2 and 4; 2 is the best block.  Descending by
   hash from block 4 returned 4 followed by block 1 of the best chain, which is not 4's parent *)
Definition ex_store2 : store :=
  mkstore [ mkblk 0 99 0 3; mkblk 1 0 1 3; mkblk 2 1 2 3; mkblk 3 0 1 3; mkblk 4 3 2 3 ] 2.

Theorem C31_descending_fork_refuted :
  exists s req resp, wf_store_b s = true /\ indexed s /\
    serve_prefix s req 0 = Ok resp /\ serve_spec_b s req resp = false.
Proof.
  exists ex_store2, (mkreq 1 (FromHash 4) 1 None), [mkbd 4 1; mkbd 1 1].
  vm_compute. repeat split; reflexivity.
Qed.
Print Assumptions C31_descending_fork_refuted.

(* ---- closer: GetAllBlocksAtNumber characterised exactly (ProofsAllAt.v) *)
From C31 Require Import ProofsAllAt.

(* BlockState.GetAllBlocksAtNumber = BlockTree.GetHashesAtNumber: empty below the tree root and
   above the best block's number, otherwise a depth-first search from the root.  On every
   well-formed store, for every number e:
   - a hash is listed iff it is a stored block with number e and e <= the best number
     (C31_all_at_number_complete is the <- half);
   - no hash is listed twice, and for e <= best the list is as long as the set of stored blocks with
     number e;
   - for e > best the list is EMPTY whatever is stored: a fork that is not the best chain (the fork
     choice prefers primary-slot blocks to height) can hold blocks above the best number and
     GetHashesAtNumber does not return them (C31_all_at_number_above_best_example).  The serving
     code only asks for e = min(best, ...) so the criterion below is unaffected. *)
Theorem C31_all_at_number_exact : forall s bb,
  indexed s -> wf_store_b s = true -> find_blk s (s_best s) = Some bb ->
  forall e,
     (forall x, In x (all_at_number s e)
        <-> exists bx, find_blk s x = Some bx /\ b_number bx = e /\ e <= b_number bb)
  /\ NoDup (all_at_number s e)
  /\ (e <= b_number bb ->
        length (all_at_number s e) = length (filter (fun b => b_number b =? e) (s_blocks s)))
  /\ (b_number bb < e -> all_at_number s e = []).
Proof. exact all_at_number_exact_b. Qed.
Print Assumptions C31_all_at_number_exact.

(* Requests BY HASH, both directions, stated over the stored blocks only (C31_by_hash_served_iff
   with the candidates of checkOrGetDescendantHash replaced by what they are): ascending from h is
   served iff h is stored and some STORED block with number e = min(best, number(h)+max-1) is h or a
   descendant of h; descending from h iff h is stored and the best chain's block with number e' is h
   or h's ancestor at that number. *)
Theorem C31_by_hash_served_iff_stored : forall s req h seen bb,
  indexed s -> wf_store_b s = true -> find_blk s (s_best s) = Some bb ->
  r_from req = FromHash h -> r_fields req <> 0 -> seen <= max_same ->
  (r_dir req = dir_asc ->
     ((exists resp, serve s req seen = Ok resp)
      <-> exists b d bd, find_blk s h = Some b /\ find_blk s d = Some bd
            /\ b_number bd = asc_end (b_number bb) (b_number b) (resp_max req)
            /\ (h = d \/ anc_at s d (b_number b) = Some h)))
  /\ (r_dir req = dir_desc ->
     ((exists resp, serve s req seen = Ok resp)
      <-> exists b eh, find_blk s h = Some b
            /\ anc_at s (s_best s) (desc_end true (b_number b) (resp_max req)) = Some eh
            /\ (eh = h \/ anc_at s h (desc_end true (b_number b) (resp_max req)) = Some eh))).
Proof. exact by_hash_served_iff_stored. Qed.
Print Assumptions C31_by_hash_served_iff_stored.

(* non-vacuity on the forked store ex_store (best chain 1-2-3-4, fork 5-6 on block 1): both
   branches are listed, in the order of the depth-first search; a request ascending from the fork
   block 5 is served along the fork (block 6 is the stored block with number e = 3 below 5), one
   from 5 with max 3 is refused (e = 4: the only stored block with number 4 is not below 5) *)
Example C31_all_at_number_fork_example :
  all_at_number ex_store 0 = [0] /\ all_at_number ex_store 1 = [1]
  /\ all_at_number ex_store 2 = [2; 5] /\ all_at_number ex_store 3 = [3; 6]
  /\ all_at_number ex_store 4 = [4] /\ all_at_number ex_store 5 = []
  /\ serve ex_store (mkreq 1 (FromHash 5) 0 (Some 2)) 0 = Ok [mkbd 5 1; mkbd 6 1]
  /\ serve ex_store (mkreq 1 (FromHash 5) 0 (Some 3)) 0 = Err E_NODESC.
Proof. vm_compute. repeat split; reflexivity. Qed.

(* the bound e <= best is needed: best block 2 (number 2), the other fork 3-4-5 reaches number 3;
   block 5 is stored with number 3 and is not listed *)
Definition ex_store3 : store :=
  mkstore [ mkblk 0 99 0 3; mkblk 1 0 1 3; mkblk 2 1 2 3; mkblk 3 0 1 3; mkblk 4 3 2 3;
            mkblk 5 4 3 3 ] 2.

Example C31_all_at_number_above_best_example :
  wf_store_b ex_store3 = true /\ find_blk ex_store3 5 = Some (mkblk 5 4 3 3)
  /\ all_at_number ex_store3 3 = [] /\ all_at_number ex_store3 2 = [2; 4].
Proof. vm_compute. repeat split; reflexivity. Qed.
