From C31 Require Import Gen Model ModelSpec.
