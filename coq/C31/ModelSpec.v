(* C31/ModelSpec.v — the property predicates of C31 as executable booleans (definitions only).
   The driver evaluates them on the observables of the Go code; Properties.v proves them of the
   model for every input. *)
From Coq Require Import NArith ZArith List Bool.
From Common Require Import Outcome.
From C31 Require Import Gen Model.
Import ListNotations.
Local Open Scope N_scope.

(* ---- planning: the requests, read in order, tile [a, b]: each starts where the previous one
   ended, has between 1 and max_resp blocks, and the last one ends at b *)
Fixpoint tiles_b (cur : N) (p : list (N * N)) (stop : N) : bool :=
  match p with
  | [] => cur =? stop
  | (st, mx) :: r => (st =? cur) && (1 <=? mx) && (mx <=? max_resp) && tiles_b (cur + mx) r stop
  end.
Definition plan_ok_b (a b : N) (p : list (N * N)) : bool := tiles_b a p (b + 1).

(* the heights a request (start, max) asks for *)
Definition heights (r : N * N) : list N := nseq (fst r) (N.to_nat (snd r)).

(* ---- well-formed stores: the root is block 0 and is the only block whose parent is unknown,
   hashes are unique, every other block is one higher than its parent, numbers fit in 32 bits
   (they are u32 on the wire), the best block exists *)
Fixpoint nodup_b (l : list N) : bool :=
  match l with
  | [] => true
  | x :: r => negb (existsb (N.eqb x) r) && nodup_b r
  end.

Definition is_some {A} (o : option A) : bool := match o with Some _ => true | None => false end.

Definition wf_store_b (s : store) : bool :=
  match s_blocks s with
  | [] => false
  | r :: rest =>
    (b_number r =? 0)
    && nodup_b (map b_hash (s_blocks s))
    && negb (is_some (find_blk s (b_parent r)))
    && forallb (fun b => match find_blk s (b_parent b) with
                         | Some p => b_number b =? b_number p + 1
                         | None => false
                         end) rest
    && forallb (fun b => b_number b <? 4294967296) (s_blocks s)
    && is_some (find_blk s (s_best s))
  end.

(* ---- served responses *)

(* x is the parent of y *)
Definition linked_b (s : store) (x y : N) : bool :=
  match find_blk s x, find_blk s y with
  | Some bx, Some by_ => (b_parent by_ =? x) && (b_number by_ =? b_number bx + 1)
  | _, _ => false
  end.

(* a list of known blocks, each the parent of the next *)
Fixpoint chain_b (s : store) (l : list N) : bool :=
  match l with
  | [] => true
  | x :: r =>
    match r with
    | [] => is_some (find_blk s x)
    | y :: _ => linked_b s x y && chain_b s r
    end
  end.

Definition opt_eqb (o : option N) (x : N) : bool :=
  match o with Some y => y =? x | None => false end.

(* The response [resp] to [req] is: a gap-free parent-linked chain of stored blocks, read in the
   requested direction; it begins with the requested block (for a request by number: the block
   of the best chain with that number, where ascending requests for 0 mean 1 and descending
   requests above the best block mean the best block); its length is
   min(requested max, max_resp, available), where available counts the blocks from the start to
   the best number (ascending) or down to block 1 (descending); every block carries exactly the
   requested fields that the store has. *)
Definition serve_spec_b (s : store) (req : request) (resp : list bdata) : bool :=
  let hs := map d_hash resp in
  let asc := if r_dir req =? dir_asc then hs else rev hs in
  let mx := resp_max req in
  let len := N.of_nat (length resp) in
  match find_blk s (s_best s) with
  | None => false
  | Some bb =>
    let best := b_number bb in
    chain_b s asc
    && (len <=? mx) && (len <=? max_resp)
    && forallb (fun d => d_fields d =?
                  N.land (N.land (r_fields req) all_fields) (avail_of s (d_hash d))) resp
    && match r_from req with
       | FromHash h =>
         match find_blk s h with
         | None => false
         | Some b =>
           let avail := if r_dir req =? dir_asc then best + 1 - b_number b else b_number b in
           (len =? N.min mx avail)
           && match hs with x :: _ => x =? h | [] => true end
         end
       | FromNum n =>
         let start := if r_dir req =? dir_asc then (if n =? 0 then 1 else n) else N.min n best in
         let avail := if r_dir req =? dir_asc then best + 1 - start else start in
         (len =? N.min mx avail)
         && match hs with x :: _ => opt_eqb (anc_at s (s_best s) start) x | [] => true end
       end
  end.

(* the class of requests on which the pinned tree's descending handler answers with one block
   too many: descending, by number, effective start = max + 1 *)
Definition guard_desc_off_by_one (s : store) (req : request) : bool :=
  match r_from req, best_number s with
  | FromNum n, Ok best => (r_dir req =? dir_desc) && (N.min n best =? resp_max req + 1)
  | _, _ => false
  end.
