(* C31/ProofsStore.v — facts about well-formed chain stores: lookup, ancestors, parent links. *)
From Coq Require Import NArith ZArith List Bool Lia ZifyN ZifyNat ZifyBool FMapPositive.
From Common Require Import Outcome.
From C31 Require Import Gen Model ModelSpec ProofsPlan.
Import ListNotations.
Local Open Scope N_scope.

(* ---- the index is the list lookup *)
Lemma key_inj a b : key a = key b -> a = b.
Proof.
  unfold key. intro H. apply (f_equal N.pos) in H. rewrite !N.succ_pos_spec in H. lia.
Qed.

Lemma index_find l h :
  PositiveMap.find (key h) (index_of l) = find (fun b => b_hash b =? h) l.
Proof.
  induction l as [|b l IH]; cbn [index_of fold_right find].
  - apply PositiveMap.gempty.
  - fold (index_of l). destruct (N.eqb_spec (b_hash b) h) as [E|E].
    + subst h. apply PositiveMap.gss.
    + rewrite PositiveMap.gso; [exact IH|]. intro K. apply key_inj in K. congruence.
Qed.

Lemma find_blk_spec s h : indexed s ->
  find_blk s h = find (fun b => b_hash b =? h) (s_blocks s).
Proof. intro I. unfold find_blk. rewrite I. apply index_find. Qed.

Lemma nodup_b_NoDup l : nodup_b l = true -> NoDup l.
Proof.
  induction l as [|x l IH]; cbn [nodup_b]; intro H; [constructor|].
  apply andb_prop in H. destruct H as [H1 H2]. constructor; [|auto].
  intro K. apply negb_true_iff in H1.
  assert (existsb (N.eqb x) l = true) by (apply existsb_exists; exists x; split; [exact K|apply N.eqb_refl]).
  congruence.
Qed.

Lemma find_hash_in (l : list blk) h b :
  find (fun b => b_hash b =? h) l = Some b -> b_hash b = h /\ In b l.
Proof.
  intro H. apply find_some in H. destruct H as [H1 H2]. apply N.eqb_eq in H2. auto.
Qed.

Lemma in_find_nodup (l : list blk) b :
  NoDup (map b_hash l) -> In b l -> find (fun c => b_hash c =? b_hash b) l = Some b.
Proof.
  induction l as [|c l IH]; intros ND HI; [destruct HI|].
  cbn [find]. cbn [map] in ND. inversion ND as [|? ? NI ND']; subst.
  destruct HI as [->|HI].
  - now rewrite N.eqb_refl.
  - destruct (N.eqb_spec (b_hash c) (b_hash b)) as [E|E].
    + exfalso. apply NI. rewrite E. now apply in_map.
    + auto.
Qed.

(* ---- the facts packed in wf_store_b *)
Record wf (s : store) (wf_root : blk) (wf_rest : list blk) : Prop := mkwf {
  wf_idx : indexed s;
  wf_blocks : s_blocks s = wf_root :: wf_rest;
  wf_root0 : b_number wf_root = 0;
  wf_nodup : NoDup (map b_hash (s_blocks s));
  wf_root_parent : find_blk s (b_parent wf_root) = None;
  wf_parent : forall b, In b wf_rest ->
      exists p, find_blk s (b_parent b) = Some p /\ b_number b = b_number p + 1;
  wf_small : forall b, In b (s_blocks s) -> b_number b < 4294967296;
  wf_best : exists bb, find_blk s (s_best s) = Some bb
}.

Lemma wf_of_b s : indexed s -> wf_store_b s = true -> exists r rest, wf s r rest.
Proof.
  intros I H. unfold wf_store_b in H. destruct (s_blocks s) as [|r rest] eqn:EB; [discriminate|].
  repeat (apply andb_prop in H; let H' := fresh "W" in destruct H as [H H']).
  apply N.eqb_eq in H. apply nodup_b_NoDup in W3.
  exists r, rest. apply mkwf; auto.
  - now rewrite EB.
  - destruct (find_blk s (b_parent r)); [discriminate|reflexivity].
  - intros b Hb. rewrite forallb_forall in W1. specialize (W1 b Hb).
    destruct (find_blk s (b_parent b)) as [p|]; [|discriminate]. exists p. split; [reflexivity|].
    now apply N.eqb_eq in W1.
  - intros b Hb. rewrite forallb_forall in W0. rewrite EB in Hb. specialize (W0 b Hb).
    now apply N.ltb_lt in W0.
  - destruct (find_blk s (s_best s)) as [bb|]; [eauto|discriminate].
Qed.

Section Store.
  Variable s : store.
  Variable root : blk.
  Variable rest : list blk.
  Hypothesis W : wf s root rest.

  Lemma find_in h b : find_blk s h = Some b -> b_hash b = h /\ In b (s_blocks s).
  Proof. rewrite (find_blk_spec s h (wf_idx s root rest W)). apply find_hash_in. Qed.

  Lemma in_find b : In b (s_blocks s) -> find_blk s (b_hash b) = Some b.
  Proof.
    intro H. rewrite (find_blk_spec s _ (wf_idx s root rest W)). apply in_find_nodup; [apply (wf_nodup s root rest W)|exact H].
  Qed.

  Lemma find_small h b : find_blk s h = Some b -> b_number b < 4294967296.
  Proof. intro H. apply find_in in H. apply (wf_small s root rest W). tauto. Qed.

  (* a block whose parent is stored is one higher than its parent *)
  Lemma parent_number h b p :
    find_blk s h = Some b -> find_blk s (b_parent b) = Some p -> b_number b = b_number p + 1.
  Proof.
    intros Hb Hp. destruct (find_in _ _ Hb) as [_ HI]. rewrite (wf_blocks s root rest W) in HI.
    destruct HI as [<-|HI].
    - rewrite (wf_root_parent s root rest W) in Hp. discriminate.
    - destruct (wf_parent s root rest W b HI) as (p' & Hp' & Hn). congruence.
  Qed.

  (* a block above 0 has its parent stored *)
  Lemma parent_exists h b :
    find_blk s h = Some b -> 0 < b_number b ->
    exists p, find_blk s (b_parent b) = Some p /\ b_number b = b_number p + 1.
  Proof.
    intros Hb Hn. destruct (find_in _ _ Hb) as [_ HI]. rewrite (wf_blocks s root rest W) in HI.
    destruct HI as [<-|HI].
    - rewrite (wf_root0 s root rest W) in Hn. lia.
    - apply (wf_parent s root rest W b HI).
  Qed.

  Lemma number0_root h b : find_blk s h = Some b -> b_number b = 0 -> root_hash s = Some h.
  Proof.
    intros Hb Hn. destruct (find_in _ _ Hb) as [Hh HI]. unfold root_hash.
    rewrite (wf_blocks s root rest W) in *. destruct HI as [<-|HI]; [now rewrite Hh|].
    destruct (wf_parent s root rest W b HI) as (p & _ & Hp). lia.
  Qed.

  Lemma root_number0 r b : root_hash s = Some r -> find_blk s r = Some b -> b_number b = 0.
  Proof.
    unfold root_hash. rewrite (wf_blocks s root rest W). intros [= <-] Hb.
    assert (In root (s_blocks s)) by (rewrite (wf_blocks s root rest W); now left).
    apply in_find in H. rewrite H in Hb. injection Hb as <-. apply (wf_root0 s root rest W).
  Qed.

  (* ---- ancestors *)
  Definition parent_of (c : N) : option N :=
    match find_blk s c with
    | Some bc => match find_blk s (b_parent bc) with Some _ => Some (b_parent bc) | None => None end
    | None => None
    end.

  Lemma up_S k : forall h,
    up s (S k) h = match up s k h with Some c => parent_of c | None => None end.
  Proof.
    induction k as [|k IH]; intro h.
    - cbn [up]. unfold parent_of. destruct (find_blk s h) as [b|] eqn:E; [|reflexivity].
      cbn [up]. rewrite E. reflexivity.
    - change (up s (S (S k)) h) with
        (match find_blk s h with Some b => up s (S k) (b_parent b) | None => None end).
      destruct (find_blk s h) as [b|] eqn:E.
      + rewrite IH. cbn [up]. rewrite E. reflexivity.
      + cbn [up]. rewrite E. reflexivity.
  Qed.

  Lemma up_found k : forall h a, up s k h = Some a -> exists ba, find_blk s a = Some ba.
  Proof.
    induction k as [|k IH]; intros h a H; cbn [up] in H.
    - destruct (find_blk s h) as [b|] eqn:E; [|discriminate]. injection H as <-. eauto.
    - destruct (find_blk s h) as [b|] eqn:E; [|discriminate]. eauto.
  Qed.

  Lemma up_number k : forall h a b ba,
    up s k h = Some a -> find_blk s h = Some b -> find_blk s a = Some ba ->
    b_number b = b_number ba + N.of_nat k.
  Proof.
    induction k as [|k IH]; intros h a b ba H Hb Ha; cbn [up] in H; rewrite Hb in H.
    - injection H as <-. rewrite Hb in Ha. injection Ha as <-. lia.
    - destruct (up_found _ _ _ H) as [ba' Ha']. rewrite Ha in Ha'. injection Ha' as <-.
      assert (exists p, find_blk s (b_parent b) = Some p) as [p Hp].
      { destruct k; cbn [up] in H; destruct (find_blk s (b_parent b)); eauto; discriminate. }
      rewrite (parent_number _ _ _ Hb Hp). rewrite (IH _ _ _ _ H Hp Ha). lia.
  Qed.

  Lemma up_exists k : forall h b, find_blk s h = Some b -> N.of_nat k <= b_number b ->
    exists a, up s k h = Some a.
  Proof.
    induction k as [|k IH]; intros h b Hb Hk; cbn [up]; rewrite Hb.
    - eauto.
    - destruct (parent_exists _ _ Hb) as (p & Hp & Hn); [lia|].
      apply (IH _ p Hp). lia.
  Qed.

  Lemma anc_at_spec h n a :
    anc_at s h n = Some a ->
    exists b ba, find_blk s h = Some b /\ find_blk s a = Some ba /\ b_number ba = n /\ n <= b_number b
                 /\ up s (N.to_nat (b_number b - n)) h = Some a.
  Proof.
    unfold anc_at. destruct (find_blk s h) as [b|] eqn:Hb; [|discriminate].
    destruct (N.ltb_spec (b_number b) n) as [L|L]; [discriminate|]. intro H.
    destruct (up_found _ _ _ H) as [ba Ha]. exists b, ba. repeat split; auto.
    pose proof (up_number _ _ _ _ _ H Hb Ha). lia.
  Qed.

  Lemma anc_at_exists h b n : find_blk s h = Some b -> n <= b_number b -> exists a, anc_at s h n = Some a.
  Proof.
    intros Hb Hn. unfold anc_at. rewrite Hb.
    replace (b_number b <? n) with false by (symmetry; apply N.ltb_ge; lia).
    apply (up_exists _ _ b Hb). lia.
  Qed.

  Lemma anc_at_self h b : find_blk s h = Some b -> anc_at s h (b_number b) = Some h.
  Proof.
    intro Hb. unfold anc_at. rewrite Hb, N.ltb_irrefl, N.sub_diag. cbn [N.to_nat up]. now rewrite Hb.
  Qed.

  (* consecutive blocks of one ancestor line are parent and child *)
  Lemma anc_at_linked h n x y :
    anc_at s h n = Some x -> anc_at s h (n + 1) = Some y -> linked_b s x y = true.
  Proof.
    intros Hx Hy.
    destruct (anc_at_spec _ _ _ Hx) as (b & bx & Hb & Hbx & Nx & Lx & Ux).
    destruct (anc_at_spec _ _ _ Hy) as (b' & by_ & Hb' & Hby & Ny & Ly & Uy).
    rewrite Hb in Hb'. injection Hb' as <-.
    replace (N.to_nat (b_number b - n)) with (S (N.to_nat (b_number b - (n + 1)))) in Ux by lia.
    rewrite up_S, Uy in Ux. unfold parent_of in Ux. rewrite Hby in Ux.
    destruct (find_blk s (b_parent by_)) as [p|] eqn:Hp; [|discriminate]. injection Ux as <-.
    unfold linked_b. rewrite Hp, Hby. rewrite N.eqb_refl. cbn [andb]. apply N.eqb_eq.
    apply (parent_number _ _ _ Hby Hp).
  Qed.

  (* ---- the walk of BlockTree.Range *)
  Fixpoint path_up (k : nat) (h : N) : list N :=
    match k with
    | O => []
    | S k' => match find_blk s h with Some b => path_up k' (b_parent b) ++ [h] | None => [] end
    end.

  Lemma chain_up_spec k : forall h acc l a,
    chain_up s k h acc = Some (l, a) ->
    l = path_up k h ++ acc /\ length (path_up k h) = k
    /\ (forall ba, find_blk s a = Some ba -> up s k h = Some a).
  Proof.
    induction k as [|k IH]; intros h acc l a H; cbn [chain_up] in H.
    - injection H as <- <-. cbn [path_up up app length]. repeat split; auto.
      intros ba Hba. now rewrite Hba.
    - destruct (find_blk s h) as [b|] eqn:Hb; [|discriminate].
      destruct (IH _ _ _ _ H) as (L & Len & U). cbn [path_up up]. rewrite Hb.
      repeat split.
      + rewrite L, <- app_assoc. reflexivity.
      + rewrite app_length, Len. cbn. lia.
      + exact U.
  Qed.

  Lemma linked_found_r x y : linked_b s x y = true -> exists b, find_blk s y = Some b.
  Proof. unfold linked_b. destruct (find_blk s x), (find_blk s y); try discriminate. eauto. Qed.

  Lemma chain_b_snoc l : forall x y, l <> [] -> chain_b s l = true -> last l x = y ->
    forall z, linked_b s y z = true -> chain_b s (l ++ [z]) = true.
  Proof.
    induction l as [|a l IH]; intros x y NE C L z Hz; [congruence|].
    destruct l as [|b l].
    - cbn in L. subst. cbn [app chain_b]. rewrite Hz. destruct (linked_found_r _ _ Hz) as [bz ->]. reflexivity.
    - change (chain_b s ((a :: b :: l) ++ [z])) with (linked_b s a b && chain_b s ((b :: l) ++ [z])).
      change (chain_b s (a :: b :: l)) with (linked_b s a b && chain_b s (b :: l)) in C.
      apply andb_prop in C. destruct C as [C1 C2]. rewrite C1. cbn [andb].
      apply (IH x y); [discriminate|exact C2|exact L|exact Hz].
  Qed.

  (* walking k parents up from h to a stored block a gives a chain a :: path ending in h *)
  Lemma path_chain k : forall h a ba,
    up s k h = Some a -> find_blk s a = Some ba ->
    chain_b s (a :: path_up k h) = true /\ last (a :: path_up k h) a = h.
  Proof.
    induction k as [|k IH]; intros h a ba U Ha.
    - cbn [up] in U. destruct (find_blk s h) eqn:Hh; [|discriminate]. injection U as <-.
      cbn [path_up chain_b last]. rewrite Hh. auto.
    - cbn [up] in U. destruct (find_blk s h) as [b|] eqn:Hb; [|discriminate].
      destruct (IH _ _ _ U Ha) as [C L]. cbn [path_up]. rewrite Hb.
      assert (Hp : exists p, find_blk s (b_parent b) = Some p).
      { destruct k; cbn [up] in U; destruct (find_blk s (b_parent b)); eauto; discriminate. }
      destruct Hp as [p Hp].
      assert (Lk : linked_b s (b_parent b) h = true).
      { unfold linked_b. rewrite Hp, Hb, N.eqb_refl. cbn [andb]. apply N.eqb_eq.
        apply (parent_number _ _ _ Hb Hp). }
      split.
      + change (a :: path_up k (b_parent b) ++ [h]) with ((a :: path_up k (b_parent b)) ++ [h]).
        apply (chain_b_snoc _ a (b_parent b)); auto. discriminate.
      + change (a :: path_up k (b_parent b) ++ [h]) with ((a :: path_up k (b_parent b)) ++ [h]).
        apply last_last.
  Qed.

  Lemma chain_b_firstn n : forall l, chain_b s l = true -> chain_b s (firstn n l) = true.
  Proof.
    induction n as [|n IH]; intros l C; [reflexivity|].
    destruct l as [|a l]; [reflexivity|]. cbn [firstn].
    destruct l as [|b l].
    - destruct n; exact C.
    - change (chain_b s (a :: b :: l)) with (linked_b s a b && chain_b s (b :: l)) in C.
      apply andb_prop in C. destruct C as [C1 C2].
      specialize (IH _ C2). destruct n as [|n].
      + cbn. unfold linked_b in C1. destruct (find_blk s a); [reflexivity|discriminate].
      + cbn [firstn] in *. change (linked_b s a b && chain_b s (b :: firstn n l) = true).
        now rewrite C1.
  Qed.

  Lemma chain_b_tl a l : chain_b s (a :: l) = true -> chain_b s l = true.
  Proof.
    destruct l as [|b l]; [reflexivity|].
    change (chain_b s (a :: b :: l)) with (linked_b s a b && chain_b s (b :: l)).
    intro C. apply andb_prop in C. tauto.
  Qed.

  Lemma chain_b_skipn n : forall l, chain_b s l = true -> chain_b s (skipn n l) = true.
  Proof.
    induction n as [|n IH]; intros l C; [exact C|].
    destruct l as [|a l]; [reflexivity|]. cbn [skipn]. apply IH. eapply chain_b_tl; eauto.
  Qed.
End Store.
