(* C31/ProofsQuiet.v — the model of the repaired CreateBlockResponse never panics (no
   `makeslice: len out of range`, no index out of range) and never runs out of fuel: on a
   well-formed store every request is either served or refused with an error. *)
From Coq Require Import NArith ZArith List Bool Lia.
From Common Require Import Outcome.
From C31 Require Import Gen Model ModelSpec ProofsPlan ProofsStore ProofsServe.
Import ListNotations.
Local Open Scope N_scope.

Definition quiet {A} (o : outcome A) : Prop :=
  match o with Ok _ | Err _ => True | Panic | OutOfFuel => False end.

Lemma quiet_obind {A B} (x : outcome A) (f : A -> outcome B) :
  quiet x -> (forall a, x = Ok a -> quiet (f a)) -> quiet (obind x f).
Proof. destruct x; cbn; intros H G; auto. Qed.

Lemma quiet_omap {A B} (f : A -> outcome B) l : (forall x, quiet (f x)) -> quiet (omap f l).
Proof.
  intro H. induction l as [|x l IH]; [exact I|]. cbn [omap].
  apply quiet_obind; [apply H|]. intros y _. apply quiet_obind; [exact IH|]. intros ys _. exact I.
Qed.

Lemma quiet_hash_by_number s n : quiet (hash_by_number s n).
Proof. unfold hash_by_number. destruct (anc_at s (s_best s) n); exact I. Qed.

Lemma quiet_data_by_number s fields n : quiet (data_by_number s fields n).
Proof. unfold data_by_number. apply quiet_obind; [apply quiet_hash_by_number|]. intros; exact I. Qed.

Lemma quiet_range checked s a d : quiet (range_gen checked s a d).
Proof.
  unfold range_gen. destruct (a =? d); [exact I|]. destruct (root_hash s) as [r|]; [|exact I].
  destruct (d =? r); [exact I|]. destruct (find_blk s a) as [ba|]; [|exact I].
  destruct (find_blk s d) as [bd|]; [|exact I]. destruct (b_number bd <? b_number ba); [exact I|].
  destruct (chain_up s _ d []) as [[acc reached]|]; [|exact I].
  destruct (checked && negb (reached =? a)); exact I.
Qed.

Lemma quiet_chain_by_hash checked s anc desc mx fields dir :
  quiet (handle_chain_by_hash checked s anc desc mx fields dir).
Proof.
  unfold handle_chain_by_hash. pose proof (quiet_range checked s anc desc) as Q.
  destruct (range_gen checked s anc desc); try exact I; exact Q.
Qed.

Lemma quiet_is_desc s a d : quiet (is_desc s a d).
Proof.
  unfold is_desc. destruct (a =? d); [exact I|]. destruct (find_blk s a); [|exact I].
  destruct (find_blk s d); [|exact I]. destruct (anc_at s d _); exact I.
Qed.

Lemma quiet_check_or_get s anc n : quiet (check_or_get_descendant s anc n).
Proof.
  unfold check_or_get_descendant. destruct (hash_by_number s n) as [h| | |]; try exact I.
  destruct (is_desc s anc h) as [[|]| | |]; try exact I.
  destruct (find _ (all_at_number s n)); exact I.
Qed.

Lemma quiet_best_number s : quiet (best_number s).
Proof. unfold best_number. destruct (find_blk s (s_best s)); exact I. Qed.

Section Quiet.
  Variable s : store.
  Variable root : blk.
  Variable rest : list blk.
  Hypothesis W : wf s root rest.

  Lemma quiet_ascending req : quiet (handle_ascending true s req).
  Proof.
    unfold handle_ascending. apply quiet_obind; [apply quiet_best_number|]. intros best Hb.
    unfold best_number in Hb. destruct (find_blk s (s_best s)) as [bb|] eqn:Hbest; [|discriminate].
    injection Hb as <-. pose proof (find_small s root rest W _ _ Hbest) as BS.
    pose proof (resp_max_le req) as M. set (mx := resp_max req) in *.
    destruct (r_from req) as [n|h].
    - set (start := if n =? 0 then 1 else n).
      destruct (N.ltb_spec (b_number bb) start) as [L|L]; [exact I|].
      assert (S1 : 1 <= start) by (unfold start; destruct (N.eqb_spec n 0); lia).
      rewrite asc_end_val by lia.
      replace (start + mx =? 0) with false by (symmetry; apply N.eqb_neq; lia).
      set (e := if b_number bb <? start + mx - 1 then b_number bb else start + mx - 1).
      assert (Ee : start <= e + 1)
        by (unfold e; destruct (N.ltb_spec (b_number bb) (start + mx - 1)); lia).
      unfold handle_ascending_by_number.
      replace (e + 1 <? start) with false by (symmetry; apply N.ltb_ge; lia).
      apply quiet_omap. intro x. apply quiet_data_by_number.
    - destruct (find_blk s h) as [b|]; [|exact I].
      apply quiet_obind; [apply quiet_check_or_get|]. intros eh _. apply quiet_chain_by_hash.
  Qed.

  Lemma quiet_descending req : quiet (handle_descending true true s req).
  Proof.
    unfold handle_descending. pose proof (resp_max_le req) as M. set (mx := resp_max req) in *.
    destruct (r_from req) as [n|h].
    - apply quiet_obind; [apply quiet_best_number|]. intros best Hb.
      unfold best_number in Hb. destruct (find_blk s (s_best s)) as [bb|] eqn:Hbest; [|discriminate].
      injection Hb as <-. pose proof (find_small s root rest W _ _ Hbest) as BS.
      set (start := if b_number bb <? n then b_number bb else n).
      assert (Sm : start <= b_number bb) by (unfold start; destruct (N.ltb_spec (b_number bb) n); lia).
      rewrite desc_end_val by lia.
      set (e := if mx <? start then start - mx + 1 else 1).
      assert (Ee : e <= start + 1) by (unfold e; destruct (N.ltb_spec mx start); lia).
      unfold handle_descending_by_number.
      replace (start + 1 <? e) with false by (symmetry; apply N.ltb_ge; lia).
      apply quiet_omap. intro x. apply quiet_data_by_number.
    - destruct (find_blk s h) as [b|]; [|exact I].
      destruct (hash_by_number s _) as [eh| | |]; try exact I. apply quiet_chain_by_hash.
  Qed.

  Lemma quiet_serve req seen : quiet (serve s req seen).
  Proof.
    unfold serve, serve_gen. destruct (r_fields req =? 0); [exact I|].
    destruct (max_same <? seen); [exact I|]. destruct (r_dir req =? dir_asc); [apply quiet_ascending|].
    destruct (r_dir req =? dir_desc); [apply quiet_descending|exact I].
  Qed.
End Quiet.

Theorem serve_never_panics s req seen :
  indexed s -> wf_store_b s = true ->
  serve s req seen <> Panic /\ serve s req seen <> OutOfFuel.
Proof.
  intros Ix Wb. destruct (wf_of_b s Ix Wb) as (r & rest & W).
  pose proof (quiet_serve s r rest W req seen) as Q.
  destruct (serve s req seen); cbn in Q; split; try discriminate; contradiction.
Qed.
