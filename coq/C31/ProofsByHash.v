(* C31/ProofsByHash.v — exactly when a request BY HASH is served (totality for both request kinds
   together with serve_by_number_answers). *)
From Coq Require Import NArith ZArith List Bool Lia.
From Common Require Import Outcome.
From C31 Require Import Gen Model ModelSpec ProofsPlan ProofsStore ProofsServe ProofsQuiet.
Import ListNotations.
Local Open Scope N_scope.

(* d is h or a descendant of h (h is d's ancestor at h's number) *)
Definition desc_of (s : store) (h d : N) : Prop :=
  exists b, find_blk s h = Some b /\ (h = d \/ anc_at s d (b_number b) = Some h).

(* the number of the last block of an ascending answer *)
Definition asc_end (best n mx : N) : N :=
  let e := sub64 (add64 n mx) 1 in if best <? e then best else e.

(* the candidates checkOrGetDescendantHash looks at: the block of the best chain with the number,
   then GetAllBlocksAtNumber *)
Definition candidate (s : store) (e d : N) : Prop :=
  anc_at s (s_best s) e = Some d \/ In d (all_at_number s e).

Lemma up_chain_up s k : forall h a acc, up s k h = Some a -> exists l, chain_up s k h acc = Some (l, a).
Proof.
  induction k as [|k IH]; intros h a acc H; cbn [up chain_up] in *.
  - destruct (find_blk s h); [|discriminate]. injection H as <-. eauto.
  - destruct (find_blk s h) as [b|]; [|discriminate]. now apply IH.
Qed.

Lemma find_ex {A} (p : A -> bool) l x : In x l -> p x = true -> exists y, find p l = Some y.
Proof.
  intros Hin Hp. destruct (find p l) eqn:E; [eauto|]. rewrite (find_none _ _ E x Hin) in Hp. discriminate.
Qed.

Section ByHash.
  Variable s : store.
  Variable root : blk.
  Variable rest : list blk.
  Hypothesis W : wf s root rest.
  Variable bb : blk.
  Hypothesis Hbest : find_blk s (s_best s) = Some bb.

  Lemma is_desc_iff h d b bd : find_blk s h = Some b -> find_blk s d = Some bd ->
    (is_desc s h d = Ok true <-> (h = d \/ anc_at s d (b_number b) = Some h)).
  Proof.
    intros Hb Hd. split.
    - intro H. destruct (is_desc_true s h d b H Hb) as [E|[_ E]]; auto.
    - intros [E|E]; unfold is_desc.
      + subst. now rewrite N.eqb_refl.
      + destruct (h =? d); [reflexivity|]. rewrite Hb, Hd, E. now rewrite N.eqb_refl.
  Qed.

  (* BlockTree.Range succeeds exactly on ancestor/descendant pairs *)
  Lemma range_iff a d ba bd : find_blk s a = Some ba -> find_blk s d = Some bd ->
    ((exists l, range_gen true s a d = Ok l) <-> (a = d \/ anc_at s d (b_number ba) = Some a)).
  Proof.
    intros Ha Hd. unfold range_gen. destruct (N.eqb_spec a d) as [E|E]; [split; [intros _; now left|intros _; now exists [a]]|].
    destruct (root_hash s) as [r|] eqn:Er.
    2:{ pose proof (wf_blocks s root rest W) as B. unfold root_hash in Er. rewrite B in Er. discriminate. }
    rewrite Ha, Hd. unfold anc_at. rewrite Hd.
    destruct (N.eqb_spec d r) as [Edr|Edr].
    { split; [intros [l H]; discriminate|]. intros [C|C]; [contradiction|]. exfalso.
      subst d. pose proof (root_number0 s root rest W r bd Er Hd) as Z. rewrite Z in C.
      destruct (N.ltb_spec 0 (b_number ba)) as [L|L]; [discriminate|].
      assert (b_number ba = 0) by lia.
      pose proof (number0_root s root rest W a ba Ha H) as R. congruence. }
    destruct (N.ltb_spec (b_number bd) (b_number ba)) as [L|L].
    { split; [intros [l H]; discriminate|]. intros [C|C]; [contradiction|discriminate]. }
    split.
    - intros [l H]. right.
      destruct (chain_up s (N.to_nat (b_number bd - b_number ba)) d []) as [[acc reached]|] eqn:EC; [|discriminate].
      cbn [andb] in H. destruct (N.eqb_spec reached a) as [Era|Era]; [|discriminate]. subst reached.
      destruct (chain_up_spec s _ _ _ _ _ EC) as (_ & _ & U). exact (U ba Ha).
    - intros [C|C]; [contradiction|].
      destruct (up_chain_up s _ _ _ [] C) as [l EC]. rewrite EC. cbn [andb]. rewrite N.eqb_refl. cbn [negb]. eauto.
  Qed.

  Lemma chain_by_hash_iff a d mx fields dir ba bd : find_blk s a = Some ba -> find_blk s d = Some bd ->
    ((exists r, handle_chain_by_hash true s a d mx fields dir = Ok r)
     <-> (a = d \/ anc_at s d (b_number ba) = Some a)).
  Proof.
    intros Ha Hd. rewrite <- (range_iff a d ba bd Ha Hd). unfold handle_chain_by_hash.
    pose proof (quiet_range true s a d) as Q.
    destruct (range_gen true s a d) as [l|c| |]; cbn in Q; try contradiction.
    - split; eauto.
    - split; intros [x H]; discriminate.
  Qed.

  (* ---- ascending *)
  Lemma check_or_get_iff h b e : find_blk s h = Some b -> e <= b_number bb ->
    ((exists eh, check_or_get_descendant s h e = Ok eh)
     <-> exists d, candidate s e d /\ (h = d \/ anc_at s d (b_number b) = Some h)).
  Proof.
    intros Hb Le. destruct (anc_at_exists s root rest W _ bb e Hbest Le) as [c Ec].
    destruct (anc_at_spec s root rest W _ _ _ Ec) as (_ & bc & _ & Hc & _).
    unfold check_or_get_descendant, hash_by_number. rewrite Ec.
    pose proof (is_desc_iff h c b bc Hb Hc) as Ic.
    assert (Qc : exists v, is_desc s h c = Ok v).
    { unfold is_desc. destruct (h =? c); [eauto|]. rewrite Hb, Hc. destruct (anc_at s c (b_number b)); eauto. }
    destruct Qc as [[|] Qc]; rewrite Qc.
    - split; [|eauto]. intros _. exists c. split; [now left|]. now apply Ic.
    - set (p := fun c0 => match is_desc s h c0 with Ok true => true | _ => false end).
      split.
      + intros [eh H]. destruct (find p (all_at_number s e)) as [c'|] eqn:Ef; [|discriminate].
        apply find_some in Ef. destruct Ef as [Hin Hp]. exists c'. split; [now right|].
        destruct (all_at_number_spec s root rest W _ _ Hin) as (bc' & Hc' & _).
        apply (is_desc_iff h c' b bc' Hb Hc'). unfold p in Hp.
        destruct (is_desc s h c') as [[|]| | |]; try discriminate. reflexivity.
      + intros (d & [Cd|Cd] & Dd).
        * rewrite Ec in Cd. injection Cd as <-. apply Ic in Dd. congruence.
        * destruct (all_at_number_spec s root rest W _ _ Cd) as (bd & Hd & _).
          assert (Pd : p d = true) by (unfold p; now rewrite (proj2 (is_desc_iff h d b bd Hb Hd) Dd)).
          destruct (find_ex p _ d Cd Pd) as [y Ey]. rewrite Ey. eauto.
  Qed.
  Lemma serve_asc_hash_iff req h seen :
    r_from req = FromHash h -> r_dir req = dir_asc -> r_fields req <> 0 -> seen <= max_same ->
    ((exists resp, serve s req seen = Ok resp)
     <-> exists b d, find_blk s h = Some b
           /\ candidate s (asc_end (b_number bb) (b_number b) (resp_max req)) d
           /\ (h = d \/ anc_at s d (b_number b) = Some h)).
  Proof.
    intros Hf Hd Hz Hs. unfold serve, serve_gen.
    replace (r_fields req =? 0) with false by (symmetry; apply N.eqb_neq; exact Hz).
    replace (max_same <? seen) with false by (symmetry; apply N.ltb_ge; exact Hs).
    rewrite Hd, N.eqb_refl. unfold handle_ascending, best_number. rewrite Hbest, Hf. cbn [obind].
    destruct (find_blk s h) as [b|] eqn:Hb.
    2:{ split; [intros [r H]; discriminate|intros (b & d & H & _); discriminate]. }
    fold (asc_end (b_number bb) (b_number b) (resp_max req)).
    set (e := asc_end (b_number bb) (b_number b) (resp_max req)).
    assert (Le : e <= b_number bb).
    { unfold e, asc_end. destruct (N.ltb_spec (b_number bb) (sub64 (add64 (b_number b) (resp_max req)) 1)); lia. }
    pose proof (check_or_get_iff h b e Hb Le) as CG. split.
    - intros [resp H]. destruct (check_or_get_descendant s h e) as [eh| | |] eqn:EC; try discriminate.
      destruct (proj1 CG (ex_intro _ eh eq_refl)) as (d & Cd & Dd). exists b, d. auto.
    - intros (b' & d & Hb' & Cd & Dd). assert (b' = b) by congruence. subst b'.
      destruct (proj2 CG (ex_intro _ d (conj Cd Dd))) as [eh EC]. rewrite EC. cbn [obind].
      destruct (check_or_get_spec s root rest W h b e eh Hb EC) as (beh & Heh & _ & De).
      apply (chain_by_hash_iff h eh _ _ _ b beh Hb Heh). destruct De as [De|[_ De]]; auto.
  Qed.

  Lemma serve_desc_hash_iff req h seen :
    r_from req = FromHash h -> r_dir req = dir_desc -> r_fields req <> 0 -> seen <= max_same ->
    ((exists resp, serve s req seen = Ok resp)
     <-> exists b eh, find_blk s h = Some b
           /\ anc_at s (s_best s) (desc_end true (b_number b) (resp_max req)) = Some eh
           /\ (eh = h \/ anc_at s h (desc_end true (b_number b) (resp_max req)) = Some eh)).
  Proof.
    intros Hf Hd Hz Hs. unfold serve, serve_gen.
    replace (r_fields req =? 0) with false by (symmetry; apply N.eqb_neq; exact Hz).
    replace (max_same <? seen) with false by (symmetry; apply N.ltb_ge; exact Hs).
    rewrite Hd. replace (dir_desc =? dir_asc) with false by reflexivity. rewrite N.eqb_refl.
    unfold handle_descending. rewrite Hf.
    destruct (find_blk s h) as [b|] eqn:Hb.
    2:{ split; [intros [r H]; discriminate|intros (b & d & H & _); discriminate]. }
    set (e := desc_end true (b_number b) (resp_max req)). unfold hash_by_number.
    destruct (anc_at s (s_best s) e) as [eh|] eqn:Ee.
    2:{ split; [intros [r H]; discriminate|]. intros (b' & d & Hb' & H & _).
        assert (b' = b) by congruence. subst b'. unfold e in Ee. congruence. }
    destruct (anc_at_spec s root rest W _ _ _ Ee) as (_ & beh & _ & Heh & Ne & _).
    pose proof (chain_by_hash_iff eh h (resp_max req) (r_fields req) (r_dir req) beh b Heh Hb) as CH.
    rewrite Ne in CH. split.
    - intro H. exists b, eh. split; [reflexivity|]. split; [exact Ee|]. now apply CH.
    - intros (b' & eh' & Hb' & E1 & E2). assert (b' = b) by congruence. subst b'.
      assert (eh' = eh) by (unfold e in Ee; congruence). subst eh'. now apply CH.
  Qed.
End ByHash.

Theorem by_hash_served_iff : forall s req h seen bb,
  indexed s -> wf_store_b s = true -> find_blk s (s_best s) = Some bb ->
  r_from req = FromHash h -> r_fields req <> 0 -> seen <= max_same ->
  (r_dir req = dir_asc ->
     ((exists resp, serve s req seen = Ok resp)
      <-> exists b d, find_blk s h = Some b
            /\ candidate s (asc_end (b_number bb) (b_number b) (resp_max req)) d
            /\ (h = d \/ anc_at s d (b_number b) = Some h)))
  /\ (r_dir req = dir_desc ->
     ((exists resp, serve s req seen = Ok resp)
      <-> exists b eh, find_blk s h = Some b
            /\ anc_at s (s_best s) (desc_end true (b_number b) (resp_max req)) = Some eh
            /\ (eh = h \/ anc_at s h (desc_end true (b_number b) (resp_max req)) = Some eh))).
Proof.
  intros s req h seen bb I Wb Hb Hf Hz Hs. destruct (wf_of_b s I Wb) as (r & rest & W). split; intro Hd.
  - exact (serve_asc_hash_iff s r rest W bb Hb req h seen Hf Hd Hz Hs).
  - exact (serve_desc_hash_iff s r rest W req h seen Hf Hd Hz Hs).
Qed.
