(* C31/ProofsComplete.v — the store's model of GetAllBlocksAtNumber (all_at_number, a depth-first
   search from the root) finds EVERY stored block with the number, up to the best number. *)
From Coq Require Import NArith ZArith List Bool Lia.
From Common Require Import Outcome.
From C31 Require Import Gen Model ModelSpec ProofsPlan ProofsStore ProofsServe ProofsQuiet ProofsByHash.
Import ListNotations.
Local Open Scope N_scope.

Lemma NoDup_map_inj {A B} (f : A -> B) l :
  (forall x y, In x l -> In y l -> f x = f y -> x = y) -> NoDup l -> NoDup (map f l).
Proof.
  induction l as [|a l IH]; intros Inj ND; [constructor|]. inversion ND; subst. cbn [map]. constructor.
  - intro H. apply in_map_iff in H. destruct H as (y & E & Hy).
    assert (y = a) by (apply Inj; [now right|now left|exact E]). subst. contradiction.
  - apply IH; auto. intros x y Hx Hy. apply Inj; now right.
Qed.

Section Complete.
  Variable s : store.
  Variable root : blk.
  Variable rest : list blk.
  Hypothesis W : wf s root rest.

  Lemma dfs_complete k : forall fuel x a bx ba,
    find_blk s x = Some bx -> up s k x = Some a -> find_blk s a = Some ba -> (k <= fuel)%nat ->
    In x (dfs_at fuel s ba (b_number bx)).
  Proof.
    induction k as [|k IH]; intros fuel x a bx ba Hx U Ha Lf.
    - cbn [up] in U. rewrite Hx in U. injection U as <-. assert (ba = bx) by congruence. subst ba.
      destruct (find_in s root rest W _ _ Hx) as [Eh _].
      destruct fuel; cbn [dfs_at]; rewrite N.eqb_refl; left; exact Eh.
    - rewrite (up_S s) in U. destruct (up s k x) as [c|] eqn:Uc; [|discriminate].
      unfold parent_of in U. destruct (find_blk s c) as [bc|] eqn:Hc; [|discriminate].
      destruct (find_blk s (b_parent bc)) as [bp|] eqn:Hp; [|discriminate]. injection U as <-.
      assert (bp = ba) by congruence. subst bp.
      pose proof (up_number s root rest W _ _ _ _ _ Uc Hx Hc) as N1.
      pose proof (parent_number s root rest W _ _ _ Hc Hp) as N2.
      destruct (find_in s root rest W _ _ Hc) as [Ec Inc].
      destruct (find_in s root rest W _ _ Hp) as [Ea _].
      destruct fuel as [|f]; [lia|]. cbn [dfs_at].
      destruct (N.eqb_spec (b_number ba) (b_number bx)) as [E|_]; [lia|].
      destruct (N.ltb_spec (b_number bx) (b_number ba)) as [E|_]; [lia|].
      apply in_flat_map. exists bc. split.
      + unfold children. apply filter_In. split; [exact Inc|]. rewrite Ea, Ec.
        rewrite N.eqb_refl. cbn [andb]. apply negb_true_iff. apply N.eqb_neq. intro E.
        subst c. assert (bc = ba) by congruence. subst bc. lia.
      + apply (IH f x c bx bc Hx Uc Hc). lia.
  Qed.

  (* a block with number n has n+1 distinct stored ancestors-or-self, so n < the number of blocks *)
  Lemma number_lt_length x bx : find_blk s x = Some bx ->
    (N.to_nat (b_number bx) < length (s_blocks s))%nat.
  Proof.
    intro Hx. set (n := N.to_nat (b_number bx)).
    set (f := fun i : nat => match anc_at s x (N.of_nat i) with Some a => a | None => 0 end).
    assert (P : forall i, (i <= n)%nat -> exists b, find_blk s (f i) = Some b /\ b_number b = N.of_nat i).
    { intros i Hi. destruct (anc_at_exists s root rest W x bx (N.of_nat i) Hx) as [a Ea]; [unfold n in Hi; lia|].
      destruct (anc_at_spec s root rest W _ _ _ Ea) as (_ & ba & _ & Ha & Na & _).
      exists ba. unfold f. rewrite Ea. auto. }
    assert (ND : NoDup (map f (seq 0 (S n)))).
    { apply NoDup_map_inj; [|apply seq_NoDup].
      intros i j Hi Hj E. apply in_seq in Hi. apply in_seq in Hj.
      destruct (P i) as (bi & Fi & Ni); [lia|]. destruct (P j) as (bj & Fj & Nj); [lia|].
      rewrite E in Fi. assert (bi = bj) by congruence. subst bi. lia. }
    assert (Inc : incl (map f (seq 0 (S n))) (map b_hash (s_blocks s))).
    { intros h Hh. apply in_map_iff in Hh. destruct Hh as (i & <- & Hi). apply in_seq in Hi.
      destruct (P i) as (bi & Fi & _); [lia|]. destruct (find_in s root rest W _ _ Fi) as [E Hin].
      apply in_map_iff. exists bi. auto. }
    pose proof (NoDup_incl_length ND Inc) as L. rewrite !map_length, seq_length in L. lia.
  Qed.

  Variable bb : blk.
  Hypothesis Hbest : find_blk s (s_best s) = Some bb.

  Lemma all_at_number_complete x bx :
    find_blk s x = Some bx -> b_number bx <= b_number bb -> In x (all_at_number s (b_number bx)).
  Proof.
    intros Hx Le. unfold all_at_number. rewrite (wf_blocks s root rest W), Hbest.
    rewrite (wf_root0 s root rest W).
    destruct (N.ltb_spec (b_number bx) 0) as [E|_]; [lia|].
    destruct (N.ltb_spec (b_number bb) (b_number bx)) as [E|_]; [lia|]. cbn [orb].
    destruct (anc_at_exists s root rest W x bx 0 Hx) as [a Ea]; [lia|].
    destruct (anc_at_spec s root rest W _ _ _ Ea) as (bx' & ba & Hx' & Ha & Na & _ & U).
    assert (bx' = bx) by congruence. subst bx'. rewrite N.sub_0_r in U.
    pose proof (number0_root s root rest W a ba Ha Na) as R.
    unfold root_hash in R. rewrite (wf_blocks s root rest W) in R. injection R as R.
    assert (Hr : find_blk s (b_hash root) = Some root).
    { apply (in_find s root rest W). rewrite (wf_blocks s root rest W). now left. }
    rewrite <- R in Ha. assert (ba = root) by congruence. subst ba.
    rewrite <- (wf_blocks s root rest W).
    apply (dfs_complete (N.to_nat (b_number bx)) (length (s_blocks s)) x (b_hash root) bx root Hx); [rewrite R; exact U|exact Hr|].
    pose proof (number_lt_length x bx Hx). lia.
  Qed.

  (* hence the candidates of checkOrGetDescendantHash that matter are all stored blocks with the number *)
  Lemma candidate_iff e d : e <= b_number bb ->
    (candidate s e d <-> exists bd, find_blk s d = Some bd /\ b_number bd = e).
  Proof.
    intro Le. split.
    - intros [C|C].
      + destruct (anc_at_spec s root rest W _ _ _ C) as (_ & bd & _ & Hd & Nd & _). eauto.
      + apply (all_at_number_spec s root rest W _ _ C).
    - intros (bd & Hd & <-). right. now apply all_at_number_complete.
  Qed.
End Complete.

Theorem all_at_number_complete_b s x bx bb :
  indexed s -> wf_store_b s = true -> find_blk s (s_best s) = Some bb ->
  find_blk s x = Some bx -> b_number bx <= b_number bb -> In x (all_at_number s (b_number bx)).
Proof.
  intros I Wb Hb Hx Le. destruct (wf_of_b s I Wb) as (r & rest & W).
  exact (all_at_number_complete s r rest W bb Hb x bx Hx Le).
Qed.

(* ascending by hash, with the candidates spelled out: served iff some STORED block with number
   e = min(best, number(h)+max-1) is h or a descendant of h *)
Theorem by_hash_asc_served_iff_stored s req h seen bb :
  indexed s -> wf_store_b s = true -> find_blk s (s_best s) = Some bb ->
  r_from req = FromHash h -> r_fields req <> 0 -> seen <= max_same -> r_dir req = dir_asc ->
  ((exists resp, serve s req seen = Ok resp)
   <-> exists b d bd, find_blk s h = Some b /\ find_blk s d = Some bd
         /\ b_number bd = asc_end (b_number bb) (b_number b) (resp_max req)
         /\ (h = d \/ anc_at s d (b_number b) = Some h)).
Proof.
  intros I Wb Hb Hf Hz Hs Hd. destruct (wf_of_b s I Wb) as (r & rest & W).
  destruct (by_hash_served_iff s req h seen bb I Wb Hb Hf Hz Hs) as [A _]. rewrite (A Hd).
  assert (Le : forall b, asc_end (b_number bb) (b_number b) (resp_max req) <= b_number bb).
  { intro b. unfold asc_end.
    destruct (N.ltb_spec (b_number bb) (sub64 (add64 (b_number b) (resp_max req)) 1)); lia. }
  split.
  - intros (b & d & Hh & C & D). apply (candidate_iff s r rest W bb Hb _ d (Le b)) in C.
    destruct C as (bd & Hbd & Nd). exists b, d, bd. auto.
  - intros (b & d & bd & Hh & Hbd & Nd & D). exists b, d. split; [exact Hh|]. split; [|exact D].
    apply (candidate_iff s r rest W bb Hb _ d (Le b)). eauto.
Qed.
