From Coq Require Import Extraction ExtrOcamlBasic.
From Common Require Import Bytes Drv Outcome.
From C31 Require Import Gen Model ModelSpec.
Extraction "model.ml" drv_b2n drv_n2b drv_z_of_n drv_n_of_z drv_nat_of_n drv_n_of_nat
  plan plan_ok_b mkblk mkstore mkreq mkbd serve serve_prefix serve_spec_b wf_store_b
  guard_desc_off_by_one resp_max best_number max_resp.
