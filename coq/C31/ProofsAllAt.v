(* C31/ProofsAllAt.v — the model of BlockState.GetAllBlocksAtNumber (all_at_number) characterised
   EXACTLY: membership iff stored, with that number, and the number not above the best number; no
   hash is listed twice; above the best number the list is empty (as in BlockTree.GetHashesAtNumber,
   `if number > bestLeave.number { return []common.Hash{} }`), even when a fork that is not the best
   chain has a stored block there.  Corollary: the by-hash totality criterion over stored blocks,
   both directions in one statement. *)
From Coq Require Import NArith ZArith List Bool Lia.
From Common Require Import Outcome.
From C31 Require Import Gen Model ModelSpec ProofsPlan ProofsStore ProofsServe ProofsQuiet ProofsByHash ProofsComplete.
Import ListNotations.
Local Open Scope N_scope.

Lemma NoDup_flat_map {A B} (f : A -> list B) l :
  NoDup l -> (forall a, In a l -> NoDup (f a)) ->
  (forall a1 a2 x, In a1 l -> In a2 l -> In x (f a1) -> In x (f a2) -> a1 = a2) ->
  NoDup (flat_map f l).
Proof.
  induction l as [|a l IH]; intros ND Each Disj; cbn [flat_map]; [constructor|].
  inversion ND as [|? ? NI ND']; subst.
  assert (T : NoDup (flat_map f l)).
  { apply IH; [exact ND'| |].
    - intros c Hc. apply Each. now right.
    - intros a1 a2 x H1 H2. apply Disj; now right. }
  assert (Ha : NoDup (f a)) by (apply Each; now left).
  revert Ha. generalize (Disj a). intro Da.
  assert (Sep : forall x, In x (f a) -> ~ In x (flat_map f l)).
  { intros x Hx Hin. apply in_flat_map in Hin. destruct Hin as (c & Hc & Hxc).
    assert (a = c) by (apply (Da c x); [now left|now right|exact Hx|exact Hxc]). subst c. contradiction. }
  clear Da. induction (f a) as [|y ys IHy]; intro Ha; cbn [app]; [exact T|].
  inversion Ha as [|? ? NIy NDy]; subst. constructor.
  - intro Hin. apply in_app_or in Hin. destruct Hin as [Hin|Hin]; [contradiction|].
    apply (Sep y); [now left|exact Hin].
  - apply IHy; [|exact NDy]. intros x Hx. apply Sep. now right.
Qed.

Lemma NoDup_filter {A} (p : A -> bool) l : NoDup l -> NoDup (filter p l).
Proof.
  induction l as [|a l IH]; intro ND; cbn [filter]; [constructor|].
  inversion ND as [|? ? NI ND']; subst. destruct (p a); [|auto].
  constructor; [|auto]. intro H. apply filter_In in H. tauto.
Qed.

Lemma NoDup_of_map {A B} (f : A -> B) l : NoDup (map f l) -> NoDup l.
Proof.
  induction l as [|a l IH]; intro ND; [constructor|]. cbn [map] in ND.
  inversion ND as [|? ? NI ND']; subst. constructor; [|auto]. intro H. apply NI. now apply in_map.
Qed.

Section AllAt.
  Variable s : store.
  Variable root : blk.
  Variable rest : list blk.
  Hypothesis W : wf s root rest.

  (* a child of a stored block, as the search enumerates them *)
  Lemma children_spec b c : In b (s_blocks s) -> In c (children s (b_hash b)) ->
    In c (s_blocks s) /\ find_blk s (b_parent c) = Some b /\ b_number c = b_number b + 1.
  Proof.
    intros Hb Hc. unfold children in Hc. apply filter_In in Hc. destruct Hc as [Hc P].
    apply andb_prop in P. destruct P as [P _]. apply N.eqb_eq in P.
    assert (Fp : find_blk s (b_parent c) = Some b) by (rewrite P; now apply (in_find s root rest W)).
    split; [exact Hc|]. split; [exact Fp|].
    apply (parent_number s root rest W (b_hash c) c b); [now apply (in_find s root rest W)|exact Fp].
  Qed.

  (* everything the search from b lists has b as its ancestor at b's number *)
  Lemma dfs_anc n fuel : forall b x, In b (s_blocks s) -> In x (dfs_at fuel s b n) ->
    anc_at s x (b_number b) = Some (b_hash b).
  Proof.
    assert (Base : forall b x, In b (s_blocks s) -> b_number b = n -> In x [b_hash b] ->
                     anc_at s x (b_number b) = Some (b_hash b)).
    { intros b x Hb _ [<-|[]]. apply (anc_at_self s) with (b := b). now apply (in_find s root rest W). }
    induction fuel as [|fuel IH]; intros b x Hb Hx; cbn [dfs_at] in Hx.
    - destruct (N.eqb_spec (b_number b) n) as [E|E]; [now apply Base|].
      destruct (n <? b_number b); destruct Hx.
    - destruct (N.eqb_spec (b_number b) n) as [E|E]; [now apply Base|].
      destruct (n <? b_number b); [destruct Hx|].
      apply in_flat_map in Hx. destruct Hx as (c & Hc & Hx).
      destruct (children_spec b c Hb Hc) as (Ic & Fp & Nc).
      pose proof (IH c x Ic Hx) as A.
      destruct (anc_at_spec s root rest W _ _ _ A) as (bx & bc & Fx & Fc & Nbc & Le & U).
      assert (Fc' : find_blk s (b_hash c) = Some c) by now apply (in_find s root rest W).
      assert (bc = c) by congruence. subst bc.
      unfold anc_at. rewrite Fx.
      destruct (N.ltb_spec (b_number bx) (b_number b)) as [L|_]; [lia|].
      replace (N.to_nat (b_number bx - b_number b)) with (S (N.to_nat (b_number bx - b_number c))) by lia.
      rewrite (up_S s), U. unfold parent_of. rewrite Fc', Fp.
      f_equal. destruct (find_in s root rest W _ _ Fp) as [E' _]. symmetry. exact E'.
  Qed.

  Lemma dfs_nodup n fuel : forall b, In b (s_blocks s) -> NoDup (dfs_at fuel s b n).
  Proof.
    induction fuel as [|fuel IH]; intros b Hb; cbn [dfs_at].
    - destruct (b_number b =? n); [repeat constructor; intros []|]. destruct (n <? b_number b); constructor.
    - destruct (b_number b =? n); [repeat constructor; intros []|]. destruct (n <? b_number b); [constructor|].
      apply NoDup_flat_map.
      + unfold children. apply NoDup_filter. apply (NoDup_of_map b_hash). apply (wf_nodup s root rest W).
      + intros c Hc. apply IH. apply (children_spec b c Hb Hc).
      + intros c1 c2 x H1 H2 X1 X2.
        destruct (children_spec b c1 Hb H1) as (I1 & _ & N1).
        destruct (children_spec b c2 Hb H2) as (I2 & _ & N2).
        pose proof (dfs_anc n fuel c1 x I1 X1) as A1. pose proof (dfs_anc n fuel c2 x I2 X2) as A2.
        rewrite N1 in A1. rewrite N2 in A2. rewrite A1 in A2. injection A2 as E.
        pose proof (in_find s root rest W c1 I1) as F1. pose proof (in_find s root rest W c2 I2) as F2.
        rewrite E in F1. congruence.
  Qed.

  (* GetAllBlocksAtNumber lists no hash twice *)
  Lemma all_at_number_nodup n : NoDup (all_at_number s n).
  Proof.
    unfold all_at_number. destruct (s_blocks s) as [|r l] eqn:EB; [constructor|].
    destruct (find_blk s (s_best s)) as [bb|]; [|constructor].
    destruct ((n <? b_number r) || (b_number bb <? n)); [constructor|].
    rewrite <- EB. apply dfs_nodup. rewrite EB. now left.
  Qed.

  Variable bb : blk.
  Hypothesis Hbest : find_blk s (s_best s) = Some bb.

  (* above the best number the list is empty, whatever is stored there *)
  Lemma all_at_number_above_best n : b_number bb < n -> all_at_number s n = [].
  Proof.
    intro L. unfold all_at_number. rewrite (wf_blocks s root rest W), Hbest.
    destruct (N.ltb_spec (b_number bb) n) as [_|G]; [|lia]. now rewrite orb_true_r.
  Qed.

  (* EXACT membership *)
  Lemma all_at_number_iff n x :
    In x (all_at_number s n)
    <-> exists bx, find_blk s x = Some bx /\ b_number bx = n /\ n <= b_number bb.
  Proof.
    split.
    - intro H. destruct (all_at_number_spec s root rest W _ _ H) as (bx & Fx & Nx).
      exists bx. split; [exact Fx|]. split; [exact Nx|].
      destruct (N.le_gt_cases n (b_number bb)) as [L|G]; [exact L|].
      rewrite (all_at_number_above_best n G) in H. destruct H.
    - intros (bx & Fx & <- & L). now apply (all_at_number_complete s root rest W bb Hbest).
  Qed.

  (* the number of entries = the number of stored blocks with the number (both lists duplicate-free
     with the same members) *)
  Lemma all_at_number_count n : n <= b_number bb ->
    length (all_at_number s n)
    = length (filter (fun b => b_number b =? n) (s_blocks s)).
  Proof.
    intro L. rewrite <- (map_length b_hash (filter _ _)).
    assert (NDm : NoDup (map b_hash (filter (fun b => b_number b =? n) (s_blocks s)))).
    { pose proof (wf_nodup s root rest W) as ND. revert ND. generalize (s_blocks s) as l.
      induction l as [|a l IH]; intro ND; cbn [filter map]; [constructor|]. cbn [map] in ND.
      inversion ND as [|? ? NI ND']; subst. destruct (b_number a =? n); [|auto].
      cbn [map]. constructor; [|auto]. intro H. apply NI. apply in_map_iff in H.
      destruct H as (y & E & Hy). apply filter_In in Hy. apply in_map_iff. exists y. tauto. }
    apply Nat.le_antisymm; apply NoDup_incl_length; try exact NDm; try apply all_at_number_nodup.
    - intros x Hx. apply all_at_number_iff in Hx. destruct Hx as (bx & Fx & Nx & _).
      destruct (find_in s root rest W _ _ Fx) as [E I]. apply in_map_iff. exists bx. split; [exact E|].
      apply filter_In. split; [exact I|]. now apply N.eqb_eq.
    - intros x Hx. apply in_map_iff in Hx. destruct Hx as (b & <- & Hb). apply filter_In in Hb.
      destruct Hb as [I Nb]. apply N.eqb_eq in Nb. apply all_at_number_iff. exists b.
      split; [now apply (in_find s root rest W)|]. split; [exact Nb|exact L].
  Qed.
End AllAt.

Theorem all_at_number_exact_b s bb :
  indexed s -> wf_store_b s = true -> find_blk s (s_best s) = Some bb ->
  forall e,
     (forall x, In x (all_at_number s e)
        <-> exists bx, find_blk s x = Some bx /\ b_number bx = e /\ e <= b_number bb)
  /\ NoDup (all_at_number s e)
  /\ (e <= b_number bb ->
        length (all_at_number s e) = length (filter (fun b => b_number b =? e) (s_blocks s)))
  /\ (b_number bb < e -> all_at_number s e = []).
Proof.
  intros I Wb Hb e. destruct (wf_of_b s I Wb) as (r & rest & W).
  split; [intro x; exact (all_at_number_iff s r rest W bb Hb e x)|].
  split; [exact (all_at_number_nodup s r rest W e)|].
  split; [exact (all_at_number_count s r rest W bb Hb e)|].
  exact (all_at_number_above_best s r rest W bb Hb e).
Qed.

(* by hash, both directions, with no reference to the enumeration: ascending from h is served iff
   some STORED block with number e = min(best, number(h)+max-1) is h or a descendant of h;
   descending from h as in by_hash_served_iff (it never used the enumeration) *)
Theorem by_hash_served_iff_stored s req h seen bb :
  indexed s -> wf_store_b s = true -> find_blk s (s_best s) = Some bb ->
  r_from req = FromHash h -> r_fields req <> 0 -> seen <= max_same ->
  (r_dir req = dir_asc ->
     ((exists resp, serve s req seen = Ok resp)
      <-> exists b d bd, find_blk s h = Some b /\ find_blk s d = Some bd
            /\ b_number bd = asc_end (b_number bb) (b_number b) (resp_max req)
            /\ (h = d \/ anc_at s d (b_number b) = Some h)))
  /\ (r_dir req = dir_desc ->
     ((exists resp, serve s req seen = Ok resp)
      <-> exists b eh, find_blk s h = Some b
            /\ anc_at s (s_best s) (desc_end true (b_number b) (resp_max req)) = Some eh
            /\ (eh = h \/ anc_at s h (desc_end true (b_number b) (resp_max req)) = Some eh))).
Proof.
  intros I Wb Hb Hf Hz Hs. split.
  - intro Hd. exact (by_hash_asc_served_iff_stored s req h seen bb I Wb Hb Hf Hz Hs Hd).
  - exact (proj2 (by_hash_served_iff s req h seen bb I Wb Hb Hf Hz Hs)).
Qed.
