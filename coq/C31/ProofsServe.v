(* C31/ProofsServe.v — every answer of the (repaired) CreateBlockResponse satisfies serve_spec_b. *)
From Coq Require Import NArith ZArith List Bool Lia ZifyN ZifyNat ZifyBool.
From Common Require Import Outcome.
From C31 Require Import Gen Model ModelSpec ProofsPlan ProofsStore.
Import ListNotations.
Local Open Scope N_scope.

(* ---- generic list facts *)
Lemma omap_ok {A B} (f : A -> outcome B) : forall l r, omap f l = Ok r ->
  Forall2 (fun x y => f x = Ok y) l r.
Proof.
  induction l as [|x l IH]; intros r H; cbn [omap] in H.
  - injection H as <-. constructor.
  - destruct (f x) as [y| | |] eqn:E; cbn [obind] in H; try discriminate.
    destruct (omap f l) as [ys| | |] eqn:E2; cbn [obind] in H; try discriminate.
    injection H as <-. constructor; auto.
Qed.

Lemma Forall2_impl' {A B} (R R' : A -> B -> Prop) : (forall x y, R x y -> R' x y) ->
  forall l r, Forall2 R l r -> Forall2 R' l r.
Proof. intros HI l r H. induction H; constructor; auto. Qed.

Lemma Forall2_rev_l {A B} (R : A -> B -> Prop) : forall l r,
  Forall2 R (rev l) r -> Forall2 R l (rev r).
Proof.
  intros l r H. rewrite <- (rev_involutive l).
  induction H as [|x y l' r' Hxy H IH]; [constructor|].
  cbn [rev]. apply Forall2_app; [exact IH|]. constructor; [exact Hxy|constructor].
Qed.

Lemma nseq_last st n : nseq st (S n) = nseq st n ++ [st + N.of_nat n].
Proof.
  replace (S n) with (n + 1)%nat by lia. rewrite nseq_app. f_equal.
  unfold nseq. cbn. f_equal. lia.
Qed.

Lemma last_app_one {A} (l : list A) x d : last (l ++ [x]) d = x.
Proof. apply last_last. Qed.

Lemma hd_rev_last {A} (l : list A) d : hd d (rev l) = last l d.
Proof.
  destruct l as [|a l] using rev_ind; [reflexivity|].
  rewrite rev_app_distr, last_last. reflexivity.
Qed.

(* ---- arithmetic of the handlers *)
Lemma resp_max_le req : resp_max req <= 128.
Proof.
  unfold resp_max. rewrite max_resp_is_128. destruct (r_max req) as [m|]; [|lia].
  destruct (N.ltb_spec m 128); lia.
Qed.

Lemma asc_end_val start mx : start < 4294967296 -> mx <= 128 ->
  sub64 (add64 start mx) 1 = if start + mx =? 0 then two64 - 1 else start + mx - 1.
Proof.
  intros H1 H2. rewrite add64_small by (unfold two64; lia).
  destruct (N.eqb_spec (start + mx) 0) as [E|E].
  - rewrite E. reflexivity.
  - apply sub64_small; unfold two64; lia.
Qed.

Lemma desc_end_val start mx : start < 4294967296 -> mx <= 128 ->
  desc_end true start mx = if mx <? start then start - mx + 1 else 1.
Proof.
  intros H1 H2. unfold desc_end. destruct (N.ltb_spec mx start) as [L|L]; [|reflexivity].
  rewrite sub64_small by (unfold two64; lia). apply add64_small. unfold two64. lia.
Qed.

Example dirs : dir_asc = 0 /\ dir_desc = 1.
Proof. split; reflexivity. Qed.

Section Serve.
  Variable s : store.
  Variable root : blk.
  Variable rest : list blk.
  Hypothesis W : wf s root rest.

  Local Notation in_find := (ProofsStore.in_find s root rest W).

  Definition field_ok (fields : N) (d : bdata) : Prop :=
    d_fields d = N.land (N.land fields all_fields) (avail_of s (d_hash d)).

  Lemma field_ok_get fields h : field_ok fields (get_block_data s fields h).
  Proof. reflexivity. Qed.

  Lemma field_ok_forallb fields resp : Forall (field_ok fields) resp ->
    forallb (fun d => d_fields d =? N.land (N.land fields all_fields) (avail_of s (d_hash d))) resp = true.
  Proof.
    intro F. apply forallb_forall. rewrite Forall_forall in F. intros d Hd.
    apply N.eqb_eq. apply F. exact Hd.
  Qed.

  Lemma map_hash_get fields l : map d_hash (map (get_block_data s fields) l) = l.
  Proof. rewrite map_map. cbn [get_block_data d_hash]. apply map_id. Qed.

  (* ---- answers by number *)
  Definition by_number_rel (fields n : N) (d : bdata) : Prop :=
    exists h, anc_at s (s_best s) n = Some h /\ d = get_block_data s fields h.

  Lemma by_number_list fields l ds :
    omap (data_by_number s fields) l = Ok ds -> Forall2 (by_number_rel fields) l ds.
  Proof.
    intro H. apply omap_ok in H. eapply Forall2_impl'; [|exact H].
    intros n d Hd. unfold data_by_number, hash_by_number in Hd.
    destruct (anc_at s (s_best s) n) as [h|] eqn:E; cbn [obind] in Hd; [|discriminate].
    injection Hd as <-. exists h. auto.
  Qed.

  Lemma canon_chain fields cnt : forall st ds,
    Forall2 (by_number_rel fields) (nseq st cnt) ds ->
    chain_b s (map d_hash ds) = true /\ length ds = cnt /\ Forall (field_ok fields) ds
    /\ match ds with d :: _ => anc_at s (s_best s) st = Some (d_hash d) | [] => True end.
  Proof.
    induction cnt as [|cnt IH]; intros st ds F.
    - inversion F; subst. repeat split; constructor.
    - rewrite nseq_S in F. inversion F as [|n d l ds' R F']; subst.
      destruct R as (h & Hh & ->).
      destruct (IH _ _ F') as (C & Len & FO & Hd).
      repeat split.
      + cbn [map get_block_data d_hash]. destruct ds' as [|d' ds''].
        * cbn [map chain_b]. destruct (anc_at_spec s root rest W _ _ _ Hh) as (b & ba & _ & Ha & _).
          rewrite Ha. reflexivity.
        * cbn [map]. change (linked_b s h (d_hash d') && chain_b s (map d_hash (d' :: ds'')) = true).
          rewrite C. rewrite (anc_at_linked s root rest W _ _ _ _ Hh Hd). reflexivity.
      + cbn [length]. now rewrite Len.
      + constructor; [apply field_ok_get|exact FO].
      + exact Hh.
  Qed.

  (* ---- all_at_number only returns stored blocks with that number *)
  Lemma dfs_at_spec n fuel : forall b x, In b (s_blocks s) -> In x (dfs_at fuel s b n) ->
    exists bx, find_blk s x = Some bx /\ b_number bx = n.
  Proof.
    induction fuel as [|fuel IH]; intros b x Hb Hx; cbn [dfs_at] in Hx.
    - destruct (N.eqb_spec (b_number b) n) as [E|E].
      + destruct Hx as [<-|[]]. exists b. split; [now apply in_find|exact E].
      + destruct (n <? b_number b); destruct Hx.
    - destruct (N.eqb_spec (b_number b) n) as [E|E].
      + destruct Hx as [<-|[]]. exists b. split; [now apply in_find|exact E].
      + destruct (n <? b_number b); [destruct Hx|].
        apply in_flat_map in Hx. destruct Hx as (c & Hc & Hx).
        unfold children in Hc. apply filter_In in Hc. destruct Hc as [Hc _].
        apply (IH c x Hc Hx).
  Qed.

  Lemma all_at_number_spec n x : In x (all_at_number s n) ->
    exists bx, find_blk s x = Some bx /\ b_number bx = n.
  Proof.
    unfold all_at_number. destruct (s_blocks s) as [|r l] eqn:EB; [intros []|].
    destruct (find_blk s (s_best s)) as [bb|]; [|intros []].
    destruct ((n <? b_number r) || (b_number bb <? n)); [intros []|].
    apply dfs_at_spec. rewrite EB. now left.
  Qed.

  (* ---- is_desc *)
  Lemma is_desc_true a d ba : is_desc s a d = Ok true -> find_blk s a = Some ba ->
    a = d \/ (a <> d /\ anc_at s d (b_number ba) = Some a).
  Proof.
    unfold is_desc. destruct (N.eqb_spec a d) as [E|E]; [auto|]. intros H Ha. right. split; [exact E|].
    rewrite Ha in H. destruct (find_blk s d) as [bd|]; [|discriminate].
    destruct (anc_at s d (b_number ba)) as [h|]; [|discriminate].
    injection H as H. apply N.eqb_eq in H. now subst.
  Qed.

  Lemma check_or_get_spec h b e eh :
    find_blk s h = Some b -> check_or_get_descendant s h e = Ok eh ->
    exists beh, find_blk s eh = Some beh /\ b_number beh = e
      /\ (h = eh \/ (h <> eh /\ anc_at s eh (b_number b) = Some h)).
  Proof.
    intros Hb H. unfold check_or_get_descendant in H.
    unfold hash_by_number in H.
    destruct (anc_at s (s_best s) e) as [c|] eqn:Ec; [|discriminate].
    destruct (is_desc s h c) as [[|]| | |] eqn:Ed; try discriminate.
    - injection H as <-.
      destruct (anc_at_spec s root rest W _ _ _ Ec) as (bb & bc & _ & Hc & Nc & _).
      exists bc. repeat split; auto. apply (is_desc_true _ _ _ Ed Hb).
    - destruct (find _ (all_at_number s e)) as [c'|] eqn:Ef; [|discriminate].
      injection H as <-. apply find_some in Ef. destruct Ef as [Hin Hd].
      destruct (is_desc s h c') as [[|]| | |] eqn:Ed'; try discriminate.
      destruct (all_at_number_spec _ _ Hin) as (bc & Hc & Nc).
      exists bc. repeat split; auto. apply (is_desc_true _ _ _ Ed' Hb).
  Qed.

  (* ---- the repaired Range: a chain from a to d *)
  Lemma range_spec a d ba bd l :
    find_blk s a = Some ba -> find_blk s d = Some bd ->
    range_gen true s a d = Ok l ->
    b_number ba <= b_number bd /\ chain_b s l = true
    /\ N.of_nat (length l) = b_number bd - b_number ba + 1
    /\ hd a l = a /\ last l a = d /\ l <> [].
  Proof.
    intros Ha Hd H. unfold range_gen in H.
    destruct (N.eqb_spec a d) as [E|E].
    - injection H as <-. subst d. rewrite Ha in Hd. injection Hd as <-.
      cbn [chain_b length hd last]. rewrite Ha. repeat split; try lia; try reflexivity. discriminate.
    - destruct (root_hash s) as [r|]; [|discriminate].
      destruct (d =? r); [discriminate|]. rewrite Ha, Hd in H.
      destruct (N.ltb_spec (b_number bd) (b_number ba)) as [L|L]; [discriminate|].
      destruct (chain_up s (N.to_nat (b_number bd - b_number ba)) d []) as [[acc reached]|] eqn:EC; [|discriminate].
      cbn [andb] in H. destruct (N.eqb_spec reached a) as [ER|ER]; cbn [negb] in H; [|discriminate].
      injection H as <-. subst reached.
      destruct (chain_up_spec s _ _ _ _ _ EC) as (Lacc & Len & U).
      rewrite app_nil_r in Lacc. subst acc. specialize (U ba Ha).
      destruct (path_chain s root rest W _ _ _ _ U Ha) as [C La].
      repeat split; auto.
      + cbn [length]. rewrite Len. lia.
      + discriminate.
  Qed.

  Lemma firstn_cons_hd {A} n (a : A) l d : firstn n (a :: l) <> [] -> hd d (firstn n (a :: l)) = a.
  Proof. destruct n; cbn; [congruence|reflexivity]. Qed.

  (* ================= the four kinds of request ================= *)
  Variable bb : blk.
  Hypothesis Hbest : find_blk s (s_best s) = Some bb.

  Lemma best_number_val : best_number s = Ok (b_number bb).
  Proof. unfold best_number. now rewrite Hbest. Qed.

  Lemma best_small : b_number bb < 4294967296.
  Proof. apply (find_small s root rest W _ _ Hbest). Qed.

  Lemma spec_intro req resp :
    chain_b s (if r_dir req =? dir_asc then map d_hash resp else rev (map d_hash resp)) = true ->
    N.of_nat (length resp) <= resp_max req ->
    Forall (field_ok (r_fields req)) resp ->
    match r_from req with
    | FromHash h =>
      match find_blk s h with
      | None => False
      | Some b =>
        let avail := if r_dir req =? dir_asc then b_number bb + 1 - b_number b else b_number b in
        N.of_nat (length resp) = N.min (resp_max req) avail
        /\ match map d_hash resp with x :: _ => x = h | [] => True end
      end
    | FromNum n =>
      let start := if r_dir req =? dir_asc then (if n =? 0 then 1 else n) else N.min n (b_number bb) in
      let avail := if r_dir req =? dir_asc then b_number bb + 1 - start else start in
      N.of_nat (length resp) = N.min (resp_max req) avail
      /\ match map d_hash resp with x :: _ => anc_at s (s_best s) start = Some x | [] => True end
    end ->
    serve_spec_b s req resp = true.
  Proof.
    intros C L F S. unfold serve_spec_b. rewrite Hbest. rewrite C. cbn [andb].
    pose proof (resp_max_le req) as M.
    replace (N.of_nat (length resp) <=? resp_max req) with true by (symmetry; apply N.leb_le; lia).
    replace (N.of_nat (length resp) <=? max_resp) with true
      by (symmetry; apply N.leb_le; rewrite max_resp_is_128; lia).
    rewrite (field_ok_forallb _ _ F). cbn [andb].
    destruct (r_from req) as [n|h].
    - cbn zeta in S. destruct S as [S1 S2]. rewrite S1, N.eqb_refl. cbn [andb].
      destruct (map d_hash resp) as [|x l]; [reflexivity|]. rewrite S2. cbn [opt_eqb]. apply N.eqb_refl.
    - destruct (find_blk s h) as [b|]; [|contradiction]. cbn zeta in S. destruct S as [S1 S2].
      rewrite S1, N.eqb_refl. cbn [andb].
      destruct (map d_hash resp) as [|x l]; [reflexivity|]. subst x. apply N.eqb_refl.
  Qed.

  (* ascending, by number *)
  Lemma serve_asc_num req n resp :
    r_dir req = dir_asc -> r_from req = FromNum n ->
    handle_ascending true s req = Ok resp -> serve_spec_b s req resp = true.
  Proof.
    intros Hd Hf H. unfold handle_ascending in H. rewrite best_number_val, Hf in H. cbn [obind] in H.
    pose proof (resp_max_le req) as M. pose proof best_small as BS.
    set (mx := resp_max req) in *. set (best := b_number bb) in *.
    set (start := if n =? 0 then 1 else n) in *.
    destruct (N.ltb_spec best start) as [L|L]; [discriminate|].
    assert (S1 : 1 <= start) by (unfold start; destruct (N.eqb_spec n 0); lia).
    rewrite asc_end_val in H by lia.
    replace (start + mx =? 0) with false in H by (symmetry; apply N.eqb_neq; lia).
    set (e := if best <? start + mx - 1 then best else start + mx - 1) in *.
    assert (Ee : e + 1 - start = N.min mx (best + 1 - start) /\ start <= e + 1).
    { unfold e. destruct (N.ltb_spec best (start + mx - 1)); lia. }
    destruct Ee as [Ee1 Ee2].
    unfold handle_ascending_by_number in H.
    replace (e + 1 <? start) with false in H by (symmetry; apply N.ltb_ge; lia).
    apply by_number_list in H. apply canon_chain in H. destruct H as (C & Len & FO & Hh).
    apply spec_intro; rewrite ?Hd, ?N.eqb_refl, ?Hf; auto.
    - rewrite Len. lia.
    - cbn beta iota zeta. fold start. split; [rewrite Len; lia|].
      destruct resp as [|d r]; [exact I|]. exact Hh.
  Qed.

  (* descending, by number *)
  Lemma serve_desc_num req n resp :
    r_dir req = dir_desc -> r_from req = FromNum n ->
    handle_descending true true s req = Ok resp -> serve_spec_b s req resp = true.
  Proof.
    intros Hd Hf H. unfold handle_descending in H. rewrite Hf, best_number_val in H. cbn [obind] in H.
    pose proof (resp_max_le req) as M. pose proof best_small as BS.
    set (mx := resp_max req) in *. set (best := b_number bb) in *.
    set (start := if best <? n then best else n) in *.
    assert (Sm : start = N.min n best) by (unfold start; destruct (N.ltb_spec best n); lia).
    rewrite desc_end_val in H by lia.
    set (e := if mx <? start then start - mx + 1 else 1) in *.
    assert (Ee : start + 1 - e = N.min mx start /\ e <= start + 1 /\ 1 <= e).
    { unfold e. destruct (N.ltb_spec mx start); lia. }
    destruct Ee as (Ee1 & Ee2 & Ee3).
    unfold handle_descending_by_number in H.
    replace (start + 1 <? e) with false in H by (symmetry; apply N.ltb_ge; lia).
    apply by_number_list in H. pose proof H as H0. apply Forall2_rev_l in H.
    apply canon_chain in H. destruct H as (C & Len & FO & _).
    rewrite rev_length in Len.
    assert (Hdir : (dir_desc =? dir_asc) = false) by reflexivity.
    apply spec_intro; rewrite ?Hd, ?Hdir, ?Hf; auto.
    - rewrite <- map_rev. exact C.
    - rewrite Len. lia.
    - apply Forall_rev in FO. now rewrite rev_involutive in FO.
    - cbn beta iota zeta. fold best mx. rewrite <- Sm. split; [rewrite Len; lia|].
      destruct resp as [|d r]; [exact I|]. cbn [map].
      (* the first block answers the number start *)
      destruct (N.to_nat (start + 1 - e)) as [|k] eqn:Ek; [cbn in Len; discriminate|].
      rewrite nseq_last, rev_app_distr in H0. cbn [rev app] in H0.
      inversion H0 as [|x y l r' R F']; subst. destruct R as (h & Hh & ->).
      cbn [get_block_data d_hash]. rewrite <- Hh. f_equal. lia.
  Qed.

  (* ascending, by hash *)
  Lemma serve_asc_hash req h resp :
    r_dir req = dir_asc -> r_from req = FromHash h ->
    handle_ascending true s req = Ok resp -> serve_spec_b s req resp = true.
  Proof.
    intros Hd Hf H. unfold handle_ascending in H. rewrite best_number_val, Hf in H. cbn [obind] in H.
    destruct (find_blk s h) as [b|] eqn:Hb; [|discriminate].
    pose proof (resp_max_le req) as M. pose proof best_small as BS.
    pose proof (find_small s root rest W _ _ Hb) as SS.
    set (mx := resp_max req) in *. set (best := b_number bb) in *. set (start := b_number b) in *.
    rewrite asc_end_val in H by lia.
    set (e0 := if start + mx =? 0 then two64 - 1 else start + mx - 1) in *.
    set (e := if best <? e0 then best else e0) in *.
    destruct (check_or_get_descendant s h e) as [eh| | |] eqn:EC; cbn [obind] in H; try discriminate.
    destruct (check_or_get_spec _ _ _ _ Hb EC) as (beh & Heh & Ne & Desc).
    unfold handle_chain_by_hash in H.
    destruct (range_gen true s h eh) as [sub| | |] eqn:ER; try discriminate.
    destruct (range_spec _ _ _ _ _ Hb Heh ER) as (Le & C & Len & Hhd & Hla & NE).
    rewrite Hd, N.eqb_refl in H. replace (dir_asc =? dir_desc) with false in H by reflexivity.
    injection H as <-. fold start in Le, Len. rewrite Ne in Le, Len.
    (* the length *)
    assert (Etot : N.min mx (e - start + 1) = N.min mx (best + 1 - start)).
    { unfold e, e0 in *. destruct (N.eqb_spec (start + mx) 0) as [Z|Z].
      - assert (mx = 0) by lia. lia.
      - destruct (N.ltb_spec best (start + mx - 1)); lia. }
    set (sub' := if mx <? N.of_nat (length sub) then firstn (N.to_nat mx) sub else sub).
    assert (Lsub : N.of_nat (length sub') = N.min mx (e - start + 1)).
    { unfold sub'. destruct (N.ltb_spec mx (N.of_nat (length sub))) as [T|T].
      - rewrite firstn_length_le by lia. lia.
      - lia. }
    assert (Csub : chain_b s sub' = true).
    { unfold sub'. destruct (mx <? N.of_nat (length sub)); [apply (chain_b_firstn s); exact C|exact C]. }
    apply spec_intro; rewrite ?Hd, ?N.eqb_refl, ?Hf, ?Hb, ?map_hash_get; auto.
    - rewrite map_length. fold sub'. lia.
    - apply Forall_forall. intros d Hin. apply in_map_iff in Hin. destruct Hin as (x & <- & _). apply field_ok_get.
    - cbn beta iota zeta. fold start best. rewrite map_length. fold sub'. split; [lia|].
      destruct sub as [|a sub0]; [congruence|]. cbn [hd] in Hhd. subst a.
      unfold sub'. destruct (mx <? N.of_nat (length (h :: sub0))); [|reflexivity].
      destruct (N.to_nat mx); cbn; auto.
  Qed.

  (* descending, by hash *)
  Lemma serve_desc_hash req h resp :
    r_dir req = dir_desc -> r_from req = FromHash h ->
    handle_descending true true s req = Ok resp -> serve_spec_b s req resp = true.
  Proof.
    intros Hd Hf H. unfold handle_descending in H. rewrite Hf in H.
    destruct (find_blk s h) as [b|] eqn:Hb; [|discriminate].
    pose proof (resp_max_le req) as M.
    pose proof (find_small s root rest W _ _ Hb) as SS.
    set (mx := resp_max req) in *. set (start := b_number b) in *.
    rewrite desc_end_val in H by lia.
    set (e := if mx <? start then start - mx + 1 else 1) in *.
    unfold hash_by_number in H.
    destruct (anc_at s (s_best s) e) as [eh|] eqn:EA; [|discriminate].
    destruct (anc_at_spec s root rest W _ _ _ EA) as (b0 & beh & _ & Heh & Ne & _).
    unfold handle_chain_by_hash in H.
    destruct (range_gen true s eh h) as [sub| | |] eqn:ER; try discriminate.
    destruct (range_spec _ _ _ _ _ Heh Hb ER) as (Le & C & Len & Hhd & Hla & NE).
    rewrite Hd in H. replace (dir_desc =? dir_asc) with false in H by reflexivity.
    rewrite N.eqb_refl in H. injection H as <-. fold start in Le, Len. rewrite Ne in Le, Len.
    assert (Etot : start - e + 1 = N.min mx start /\ 1 <= e).
    { unfold e in *. destruct (N.ltb_spec mx start); lia. }
    destruct Etot as [Etot E1].
    replace (mx <? N.of_nat (length sub)) with false by (symmetry; apply N.ltb_ge; lia).
    assert (Hdir : (dir_desc =? dir_asc) = false) by reflexivity.
    apply spec_intro; rewrite ?Hd, ?Hdir, ?Hf, ?Hb; auto.
    - rewrite map_rev, rev_involutive, map_hash_get. exact C.
    - rewrite rev_length, map_length. lia.
    - apply Forall_rev. apply Forall_forall. intros d Hin. apply in_map_iff in Hin.
      destruct Hin as (x & <- & _). apply field_ok_get.
    - cbn beta iota zeta. rewrite rev_length, map_length. split; [lia|].
      rewrite map_rev, map_hash_get.
      destruct (rev sub) as [|x l] eqn:ERv; [exact I|].
      change x with (hd eh (x :: l)). rewrite <- ERv, hd_rev_last. exact Hla.
  Qed.

  Lemma serve_sound req seen resp :
    serve s req seen = Ok resp -> serve_spec_b s req resp = true.
  Proof.
    unfold serve, serve_gen. destruct (r_fields req =? 0); [discriminate|].
    destruct (max_same <? seen); [discriminate|].
    destruct (N.eqb_spec (r_dir req) dir_asc) as [Ea|Ea].
    - intro H. destruct (r_from req) as [n|h] eqn:Ef.
      + eapply serve_asc_num; eauto.
      + eapply serve_asc_hash; eauto.
    - destruct (N.eqb_spec (r_dir req) dir_desc) as [Ed|Ed]; [|discriminate].
      intro H. destruct (r_from req) as [n|h] eqn:Ef.
      + eapply serve_desc_num; eauto.
      + eapply serve_desc_hash; eauto.
  Qed.
End Serve.

Theorem serve_correct s req seen resp :
  indexed s -> wf_store_b s = true -> serve s req seen = Ok resp -> serve_spec_b s req resp = true.
Proof.
  intros I Wb H. destruct (wf_of_b s I Wb) as (r & rest & W).
  destruct (wf_best s r rest W) as [bb Hbb].
  eapply serve_sound; eauto.
Qed.

(* ---- requests by number inside the stored range are always answered *)
Lemma omap_total {A B} (f : A -> outcome B) l :
  (forall x, In x l -> exists y, f x = Ok y) -> exists r, omap f l = Ok r.
Proof.
  induction l as [|x l IH]; intro H; [exists []; reflexivity|].
  destruct (H x (or_introl eq_refl)) as [y Hy].
  destruct IH as [r Hr]; [intros z Hz; apply H; now right|].
  exists (y :: r). cbn [omap]. rewrite Hy. cbn [obind]. rewrite Hr. reflexivity.
Qed.

Lemma in_nseq x st n : In x (nseq st n) -> st <= x < st + N.of_nat n.
Proof.
  unfold nseq. intro H. apply in_map_iff in H. destruct H as (i & <- & Hi). apply in_seq in Hi. lia.
Qed.

Section Total.
  Variable s : store.
  Variable root : blk.
  Variable rest : list blk.
  Hypothesis W : wf s root rest.
  Variable bb : blk.
  Hypothesis Hbest : find_blk s (s_best s) = Some bb.

  Lemma by_number_total fields l :
    (forall n, In n l -> n <= b_number bb) -> exists r, omap (data_by_number s fields) l = Ok r.
  Proof.
    intro H. apply omap_total. intros n Hn. unfold data_by_number, hash_by_number.
    destruct (anc_at_exists s root rest W _ bb n Hbest (H n Hn)) as [a Ha]. rewrite Ha.
    cbn [obind]. eauto.
  Qed.

  Lemma serve_by_number_total req n seen :
    r_from req = FromNum n -> r_fields req <> 0 -> seen <= max_same ->
    (r_dir req = dir_asc /\ (if n =? 0 then 1 else n) <= b_number bb) \/ r_dir req = dir_desc ->
    exists resp, serve s req seen = Ok resp.
  Proof.
    intros Hf Hz Hs Hd. unfold serve, serve_gen.
    replace (r_fields req =? 0) with false by (symmetry; apply N.eqb_neq; exact Hz).
    replace (max_same <? seen) with false by (symmetry; apply N.ltb_ge; exact Hs).
    pose proof (resp_max_le req) as M.
    pose proof (find_small s root rest W _ _ Hbest) as BS.
    destruct Hd as [[Hd Hn]|Hd].
    - rewrite Hd, N.eqb_refl. unfold handle_ascending. unfold best_number. rewrite Hbest, Hf. cbn [obind].
      set (mx := resp_max req) in *. set (best := b_number bb) in *.
      set (start := if n =? 0 then 1 else n) in *.
      replace (best <? start) with false by (symmetry; apply N.ltb_ge; exact Hn).
      assert (S1 : 1 <= start) by (unfold start; destruct (N.eqb_spec n 0); lia).
      rewrite asc_end_val by lia.
      replace (start + mx =? 0) with false by (symmetry; apply N.eqb_neq; lia).
      set (e := if best <? start + mx - 1 then best else start + mx - 1).
      assert (Ee : start <= e + 1 /\ e <= best) by (unfold e; destruct (N.ltb_spec best (start + mx - 1)); lia).
      unfold handle_ascending_by_number.
      replace (e + 1 <? start) with false by (symmetry; apply N.ltb_ge; lia).
      apply by_number_total. intros x Hx. apply in_nseq in Hx. lia.
    - rewrite Hd. replace (dir_desc =? dir_asc) with false by reflexivity. rewrite N.eqb_refl.
      unfold handle_descending. rewrite Hf. unfold best_number. rewrite Hbest. cbn [obind].
      set (mx := resp_max req) in *. set (best := b_number bb) in *.
      set (start := if best <? n then best else n).
      assert (Sm : start <= best) by (unfold start; destruct (N.ltb_spec best n); lia).
      rewrite desc_end_val by lia.
      set (e := if mx <? start then start - mx + 1 else 1).
      assert (Ee : e <= start + 1) by (unfold e; destruct (N.ltb_spec mx start); lia).
      unfold handle_descending_by_number.
      replace (start + 1 <? e) with false by (symmetry; apply N.ltb_ge; lia).
      apply by_number_total. intros x Hx. apply in_rev in Hx. apply in_nseq in Hx. lia.
  Qed.
End Total.

Theorem serve_by_number_answers s req n seen bb :
  indexed s -> wf_store_b s = true -> find_blk s (s_best s) = Some bb ->
  r_from req = FromNum n -> r_fields req <> 0 -> seen <= max_same ->
  (r_dir req = dir_asc /\ (if n =? 0 then 1 else n) <= b_number bb) \/ r_dir req = dir_desc ->
  exists resp, serve s req seen = Ok resp /\ serve_spec_b s req resp = true.
Proof.
  intros I Wb Hb Hf Hz Hs Hd. destruct (wf_of_b s I Wb) as (r & rest & W).
  destruct (serve_by_number_total s r rest W bb Hb req n seen Hf Hz Hs Hd) as [resp E].
  exists resp. split; [exact E|]. eapply serve_correct; eauto.
Qed.
