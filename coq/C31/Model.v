(* C31/Model.v — executable model (definitions only) of
     dot/network/messages/block.go  NewAscendingBlockRequests
     dot/sync/message.go            CreateBlockResponse, handleAscendingRequest,
                                    handleDescendingRequest, checkOrGetDescendantHash,
                                    handleAscendingByNumber, handleDescendingByNumber,
                                    handleChainByHash, getBlockDataByNumber, getBlockData
   over an abstract chain store that stands for dot/state.BlockState with every block but the
   root (genesis, the last finalised block) still in the in-memory block tree.  Go `uint` is 64 bit:
   every + and - of the Go code is written with add64 / sub64.  Block hashes are abstract
   numbers (the harness numbers the blocks of a generated tree). *)
From Coq Require Import NArith ZArith List Bool FMapPositive.
From Common Require Import Outcome.
From C31 Require Import Gen.
Import ListNotations.
Local Open Scope N_scope.

Definition two64 : N := 18446744073709551616.
Definition add64 (a b : N) : N := (a + b) mod two64.
Definition sub64 (a b : N) : N := (a + two64 - b mod two64) mod two64.

(* constants read from the Go source on every run (Gen.v) *)
Definition max_resp : N := Z.to_N Gen.max_blocks_in_response.
Definition f_header : N := Z.to_N Gen.requested_data_header.
Definition f_body : N := Z.to_N Gen.requested_data_body.
Definition f_receipt : N := Z.to_N Gen.requested_data_receipt.
Definition f_msgq : N := Z.to_N Gen.requested_data_message_queue.
Definition f_just : N := Z.to_N Gen.requested_data_justification.
Definition dir_asc : N := Z.to_N Gen.dir_ascending.
Definition dir_desc : N := Z.to_N Gen.dir_descending.
Definition max_same : N := Z.to_N Gen.max_same_request_per_peer.

(* ------------------------------------------------------------------ request planning *)

(* the loop of NewAscendingBlockRequests; k = remaining iterations *)
Fixpoint plan_loop (k : nat) (i num missing start : N) : list (N * N) :=
  match k with
  | O => []
  | S k' =>
    let mx := if (i =? num - 1) && negb (missing =? 0) then missing else max_resp in
    (start, mx) :: plan_loop k' (i + 1) num missing (add64 start mx)
  end.

(* NewAscendingBlockRequests(a, b, _): the (start, max) of every request, in order *)
Definition plan (a b : N) : list (N * N) :=
  if b <? a then [] else
  let diff := sub64 b (sub64 a 1) in
  if diff =? 1 then [(a, 1)] else
  let missing := diff mod max_resp in
  let num := if missing =? 0 then diff / max_resp else diff / max_resp + 1 in
  plan_loop (N.to_nat num) 0 num missing a.

(* ------------------------------------------------------------------ the chain store *)

Record blk := mkblk {
  b_hash : N;
  b_parent : N;
  b_number : N;
  b_avail : N      (* bit mask of the fields BlockState can produce for the block *)
}.

(* blocks in insertion order, the head is the root of the block tree; s_best is the hash of the
   best block (the fork choice is property C16's subject and a parameter here); s_index is a
   lookup table hash -> block, always index_of s_blocks (stores are built with mk_store) *)
Record store := mkstore_raw { s_blocks : list blk; s_best : N; s_index : PositiveMap.t blk }.

Definition key (h : N) : positive := N.succ_pos h.
Definition index_of (l : list blk) : PositiveMap.t blk :=
  fold_right (fun b m => PositiveMap.add (key (b_hash b)) b m) (PositiveMap.empty blk) l.
Definition mkstore (l : list blk) (best : N) : store := mkstore_raw l best (index_of l).
Definition indexed (s : store) : Prop := s_index s = index_of (s_blocks s).

(* the first block of s_blocks with hash h (Proofs.find_blk_spec) *)
Definition find_blk (s : store) (h : N) : option blk := PositiveMap.find (key h) (s_index s).

Definition root_hash (s : store) : option N :=
  match s_blocks s with b :: _ => Some (b_hash b) | [] => None end.

(* the k-th ancestor of h *)
Fixpoint up (s : store) (k : nat) (h : N) : option N :=
  match k with
  | O => match find_blk s h with Some _ => Some h | None => None end
  | S k' => match find_blk s h with Some b => up s k' (b_parent b) | None => None end
  end.

(* the ancestor of h with number n *)
Definition anc_at (s : store) (h n : N) : option N :=
  match find_blk s h with
  | Some b => if b_number b <? n then None else up s (N.to_nat (b_number b - n)) h
  | None => None
  end.

(* error classes of CreateBlockResponse *)
Definition E_INVALID : nat := 1.
Definition E_DIR : nat := 2.
Definition E_SAME : nat := 3.
Definition E_TOOHIGH : nat := 4.
Definition E_NOSTART : nat := 5.
Definition E_NODESC : nat := 6.
Definition E_NOTCHAIN : nat := 7.
Definition E_RANGE : nat := 8.
Definition E_BYNUMBER : nat := 9.
Definition E_OTHER : nat := 10.

(* BlockState.BestBlockNumber *)
Definition best_number (s : store) : outcome N :=
  match find_blk s (s_best s) with Some b => Ok (b_number b) | None => Err E_OTHER end.

(* BlockState.GetHashByNumber: the block of the best chain with the number *)
Definition hash_by_number (s : store) (n : N) : outcome N :=
  match anc_at s (s_best s) n with Some h => Ok h | None => Err E_OTHER end.

(* BlockState.IsDescendantOf(a, d) *)
Definition is_desc (s : store) (a d : N) : outcome bool :=
  if a =? d then Ok true else
  match find_blk s a, find_blk s d with
  | Some ba, Some bd =>
    match anc_at s d (b_number ba) with
    | Some h => Ok (h =? a)
    | None => Ok false
    end
  | _, _ => Err E_OTHER
  end.

Definition children (s : store) (h : N) : list blk :=
  filter (fun c => (b_parent c =? h) && negb (b_hash c =? h)) (s_blocks s).

(* node.hashesAtNumber: depth-first, children in insertion order *)
Fixpoint dfs_at (fuel : nat) (s : store) (b : blk) (n : N) : list N :=
  if b_number b =? n then [b_hash b] else
  if n <? b_number b then [] else
  match fuel with
  | O => []
  | S f => flat_map (fun c => dfs_at f s c n) (children s (b_hash b))
  end.

(* BlockState.GetAllBlocksAtNumber *)
Definition all_at_number (s : store) (n : N) : list N :=
  match s_blocks s, find_blk s (s_best s) with
  | r :: _, Some bb =>
    if (n <? b_number r) || (b_number bb <? n) then [] else dfs_at (length (s_blocks s)) s r n
  | _, _ => []
  end.

(* the walk of accumulateHashesInDescedingOrder: k steps up from h, consing the hashes passed
   (so the accumulator is in ascending order); returns the accumulator and the node reached *)
Fixpoint chain_up (s : store) (k : nat) (h : N) (acc : list N) : option (list N * N) :=
  match k with
  | O => Some (acc, h)
  | S k' =>
    match find_blk s h with
    | Some b => chain_up s k' (b_parent b) (h :: acc)
    | None => None
    end
  end.

(* BlockState.Range(a, d) -> BlockTree.Range.  [checked] = true is the repaired BlockTree.Range
   that verifies that the walk from d arrives at a; false is the code of the pinned tree, which
   puts a in front of d's ancestors without looking. *)
Definition range_gen (checked : bool) (s : store) (a d : N) : outcome (list N) :=
  if a =? d then Ok [a] else
  match root_hash s with
  | None => Err E_RANGE
  | Some r =>
    if d =? r then Err E_RANGE        (* d is in the database, a is not: "range start should be in database" *)
    else
    match find_blk s a, find_blk s d with
    | Some ba, Some bd =>
      if b_number bd <? b_number ba then Err E_RANGE else
      match chain_up s (N.to_nat (b_number bd - b_number ba)) d [] with
      | Some (acc, reached) =>
        if checked && negb (reached =? a) then Err E_RANGE else Ok (a :: acc)
      | None => Err E_RANGE
      end
    | _, _ => Err E_RANGE
    end
  end.

(* ------------------------------------------------------------------ requests and responses *)

Inductive from := FromNum (n : N) | FromHash (h : N).
Record request := mkreq { r_fields : N; r_from : from; r_dir : N; r_max : option N }.
Record bdata := mkbd { d_hash : N; d_fields : N }.

Definition all_fields : N := N.lor f_header (N.lor f_body (N.lor f_receipt (N.lor f_msgq f_just))).

Definition avail_of (s : store) (h : N) : N :=
  match find_blk s h with Some b => b_avail b | None => 0 end.

(* getBlockData: a field is present iff it was requested and BlockState has it *)
Definition get_block_data (s : store) (fields h : N) : bdata :=
  mkbd h (N.land (N.land fields all_fields) (avail_of s h)).

Definition nseq (start : N) (count : nat) : list N :=
  map (fun i => start + N.of_nat i) (seq 0 count).

Fixpoint omap {A B} (f : A -> outcome B) (l : list A) : outcome (list B) :=
  match l with
  | [] => Ok []
  | x :: r => obind (f x) (fun y => obind (omap f r) (fun ys => Ok (y :: ys)))
  end.

Definition data_by_number (s : store) (fields n : N) : outcome bdata :=
  obind (hash_by_number s n) (fun h => Ok (get_block_data s fields h)).

(* handleAscendingByNumber: make([]..., (end-start)+1) then the loop start+i <= end *)
Definition handle_ascending_by_number (s : store) (start end_ fields : N) : outcome (list bdata) :=
  if end_ + 1 <? start then Panic    (* makeslice: len out of range *)
  else omap (data_by_number s fields) (nseq start (N.to_nat (end_ + 1 - start))).

(* handleDescendingByNumber: make([]..., (start-end)+1) then the loop start-i >= end (end >= 1) *)
Definition handle_descending_by_number (s : store) (start end_ fields : N) : outcome (list bdata) :=
  if start + 1 <? end_ then Panic
  else omap (data_by_number s fields) (rev (nseq end_ (N.to_nat (start + 1 - end_)))).

Definition handle_chain_by_hash (checked : bool) (s : store) (anc desc mx fields dir : N)
  : outcome (list bdata) :=
  match range_gen checked s anc desc with
  | Ok sub =>
    let len := N.of_nat (length sub) in
    let sub' := if mx <? len
                then (if dir =? dir_asc then firstn (N.to_nat mx) sub
                      else skipn (N.to_nat (len - mx)) sub)
                else sub in
    let data := map (get_block_data s fields) sub' in
    Ok (if dir =? dir_desc then rev data else data)
  | Err _ => Err E_RANGE
  | Panic => Panic
  | OutOfFuel => OutOfFuel
  end.

(* checkOrGetDescendantHash(ancestor, nil, n) *)
Definition check_or_get_descendant (s : store) (ancestor n : N) : outcome N :=
  match hash_by_number s n with
  | Ok h =>
    match is_desc s ancestor h with
    | Ok true => Ok h
    | Ok false =>
      match find (fun c => match is_desc s ancestor c with Ok true => true | _ => false end)
                 (all_at_number s n) with
      | Some c => Ok c
      | None => Err E_NODESC
      end
    | _ => Err E_OTHER
    end
  | _ => Err E_OTHER
  end.

Definition resp_max (req : request) : N :=
  match r_max req with
  | Some m => if m <? max_resp then m else max_resp
  | None => max_resp
  end.

Definition handle_ascending (checked : bool) (s : store) (req : request) : outcome (list bdata) :=
  let mx := resp_max req in
  obind (best_number s) (fun best =>
  match r_from req with
  | FromHash h =>
    match find_blk s h with
    | None => Err E_NOSTART
    | Some b =>
      let start := b_number b in
      let e := sub64 (add64 start mx) 1 in
      let e := if best <? e then best else e in
      obind (check_or_get_descendant s h e) (fun eh =>
      handle_chain_by_hash checked s h eh mx (r_fields req) (r_dir req))
    end
  | FromNum n =>
    let start := if n =? 0 then 1 else n in
    if best <? start then Err E_TOOHIGH else
    let e := sub64 (add64 start mx) 1 in
    let e := if best <? e then best else e in
    handle_ascending_by_number s start e (r_fields req)
  end).

(* [strict] = true is the repaired comparison startNumber > max; false is the pinned tree's
   startNumber > max+1 *)
Definition desc_end (strict : bool) (start mx : N) : N :=
  if (if strict then mx <? start else add64 mx 1 <? start)
  then add64 (sub64 start mx) 1 else 1.

Definition handle_descending (strict checked : bool) (s : store) (req : request)
  : outcome (list bdata) :=
  let mx := resp_max req in
  match r_from req with
  | FromHash h =>
    match find_blk s h with
    | None => Err E_NOSTART
    | Some b =>
      let e := desc_end strict (b_number b) mx in
      match hash_by_number s e with
      | Ok eh => handle_chain_by_hash checked s eh h mx (r_fields req) (r_dir req)
      | _ => Err E_BYNUMBER
      end
    end
  | FromNum n =>
    obind (best_number s) (fun best =>
    let start := if best <? n then best else n in
    handle_descending_by_number s start (desc_end strict start mx) (r_fields req))
  end.

(* CreateBlockResponse; [seen] = how often the peer has already sent this very request *)
Definition serve_gen (strict checked : bool) (s : store) (req : request) (seen : N)
  : outcome (list bdata) :=
  if r_fields req =? 0 then Err E_INVALID else
  if max_same <? seen then Err E_SAME else
  if r_dir req =? dir_asc then handle_ascending checked s req
  else if r_dir req =? dir_desc then handle_descending strict checked s req
  else Err E_DIR.

(* the repaired code (fixes/C31-*.patch) and the code of the pinned tree *)
Definition serve : store -> request -> N -> outcome (list bdata) := serve_gen true true.
Definition serve_prefix : store -> request -> N -> outcome (list bdata) := serve_gen false false.
