(* C31/VmCheck.v — boolean comparison of the model with the observables of the Go code, evaluated
   with vm_compute inside Coq on a sample of every trace (bin/check: vm_sample); the terms are
   printed by props/C31/driver.ml (--coq).  Guards the extraction and the OCaml driver. *)
From Coq Require Import NArith ZArith List Bool.
From Common Require Import Outcome.
From C31 Require Import Gen Model ModelSpec.
Import ListNotations.
Local Open Scope N_scope.

Fixpoint list_eqb {A} (eq : A -> A -> bool) (a b : list A) : bool :=
  match a, b with
  | [], [] => true
  | x :: r, y :: s => eq x y && list_eqb eq r s
  | _, _ => false
  end.

Definition pair_eqb (a b : N * N) : bool := (fst a =? fst b) && (snd a =? snd b).
Definition bdata_eqb (a b : bdata) : bool := (d_hash a =? d_hash b) && (d_fields a =? d_fields b).

(* the planned requests are the model's, and they tile [a, b] *)
Definition vm_plan (a b : N) (observed : list (N * N)) : bool :=
  list_eqb pair_eqb (plan a b) observed
  && (if b <? a then match observed with [] => true | _ => false end else plan_ok_b a b observed).

(* the answer is the model's; a served response satisfies the specification *)
Definition vm_serve (blocks : list blk) (best : N) (req : request) (seen : N)
  (observed : outcome (list bdata)) : bool :=
  let s := mkstore blocks best in
  wf_store_b s &&
  match serve s req seen, observed with
  | Ok a, Ok b => list_eqb bdata_eqb a b && serve_spec_b s req b
  | Err c, Err d => Nat.eqb c d
  | _, _ => false
  end.
