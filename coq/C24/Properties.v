(* C24/Properties.v — property C24: BABE verification accepts exactly authorised blocks.
   Only statements, each closed by `exact <lemma>`, with Print Assumptions beneath.

   The cryptographic primitives are parameters of every statement (universally quantified):
     key_valid i            authority i's raw key is a valid sr25519 public key
     below i slot out       the VRF in/out bytes for (randomness, slot, epoch, out, pk_i) are below
                            the epoch threshold (checkPrimaryThreshold; arithmetic part: C25)
     vrf_verify i slot o p  pk_i verifies the VRF proof over the slot's transcript
     seal_verify i r dg s   pk_i verifies s over blake2b(scale(header r with digest dg))
     equiv i slot           the slot state's equivocation check for the block
   each answering T (true), F (false) or E (the primitive fails).  The secondary slot author is
   concrete (BLAKE2b, C25).  [authorised] (C24/Model.v) is the property's right-hand side:
   the digest is  PreRuntime data :: mid ++ [Seal sig],  data decodes to a claim d whose
   authority index is in range and names a valid key, d is a primary claim below the threshold
   with a valid VRF proof, or a secondary claim OF THE KIND THE CONFIGURATION ALLOWS by the
   slot's assigned author (with a valid VRF proof for the VRF kind), sig is that authority's
   signature over the header without the seal, and no equivocation is reported. *)
From Coq Require Import ZArith NArith List Bool.
From Common Require Import Bytes Outcome.
From C24 Require Import Model Proofs Manager ProofsManager Consts.
Import ListNotations.
Local Open Scope N_scope.

(* For the three epoch configurations of the protocol (SecondarySlots = 0, 1, 2), every
   authority set size, randomness, header and primitive behaviour:
   verification succeeds iff the block is authorised. *)
Theorem C24_accept_iff :
  forall (R : Type) key_valid below vrf_verify seal_verify equiv (c : cfg) (h : header R),
  allowed c <= 2 ->
  (verify R key_valid below vrf_verify seal_verify equiv c h = Ok tt <->
   authorised R key_valid below vrf_verify seal_verify equiv c h).
Proof. exact accept_iff. Qed.
Print Assumptions C24_accept_iff.

(* Every claim produced by the node's own slot lottery (claimSlot), put into a header as its
   first digest item and sealed with the claiming key, passes verification under the same epoch
   data, provided honest VRF signatures and honest seals verify. *)
Theorem C24_own_claims_pass :
  forall (R : Type) key_valid below vrf_verify seal_verify equiv vrf_sign
         (c : cfg) me slot d (rest : R) mid eng seng sig,
  allowed c <= 2 -> me < n_auth c -> key_valid me = true ->
  (forall k, vrf_verify me slot (fst (vrf_sign me slot k)) (snd (vrf_sign me slot k)) = T) ->
  (forall k, length (fst (vrf_sign me slot k)) = 32%nat /\ length (snd (vrf_sign me slot k)) = 64%nat) ->
  me < 4294967296 -> slot < 18446744073709551616 ->
  claim_slot below vrf_sign c me slot = Ok d ->
  seal_verify me rest (PreRuntime eng (encode_predigest d) :: mid) sig = T ->
  equiv me slot = F ->
  verify R key_valid below vrf_verify seal_verify equiv c
    {| h_rest := rest; h_digest := PreRuntime eng (encode_predigest d) :: mid ++ [Seal seng sig] |} = Ok tt.
Proof. exact own_claims_pass. Qed.
Print Assumptions C24_own_claims_pass.

(* the executable predicate the check evaluates on the implementation's answers is the
   specification *)
Theorem C24_authorised_decidable :
  forall (R : Type) key_valid below vrf_verify seal_verify equiv (c : cfg) (h : header R),
  authorised_b R key_valid below vrf_verify seal_verify equiv c h = true <->
  authorised R key_valid below vrf_verify seal_verify equiv c h.
Proof. exact authorised_reflect. Qed.
Print Assumptions C24_authorised_decidable.

(* the pre-digest wire format round-trips *)
Theorem C24_predigest_roundtrip : forall d, wf_predigest d ->
  decode_predigest (encode_predigest d) = Some d.
Proof. exact decode_encode. Qed.
Print Assumptions C24_predigest_roundtrip.

(* The pinned tree (secondarySlots = SecondarySlots > 0) violated C24_accept_iff: with one
   authority and the configuration "secondary PLAIN", a sealed secondary VRF claim is accepted
   although it is not authorised; the repaired verification rejects it with ErrBadSlotClaim. *)
Theorem C24_secondary_kind_prefix_refuted :
  verify_prefix unit (fun _ => true) (fun _ _ _ => T) (fun _ _ _ _ => T) (fun _ _ _ _ => T) (fun _ _ => F)
    witness_cfg witness_header = Ok tt /\
  ~ authorised unit (fun _ => true) (fun _ _ _ => T) (fun _ _ _ _ => T) (fun _ _ _ _ => T) (fun _ _ => F)
    witness_cfg witness_header /\
  verify unit (fun _ => true) (fun _ _ _ => T) (fun _ _ _ _ => T) (fun _ _ _ _ => T) (fun _ _ => F)
    witness_cfg witness_header = Err e_badslot.
Proof. exact prefix_refuted. Qed.
Print Assumptions C24_secondary_kind_prefix_refuted.

(* ... and outside that class of inputs (guard [wrong_kind]: the first digest item is a
   well-formed secondary claim of the kind the configuration does not name) the pinned tree's
   verification already accepts exactly the authorised blocks. *)
Theorem C24_accept_iff_prefix_partial :
  forall (R : Type) key_valid below vrf_verify seal_verify equiv (c : cfg) (h : header R),
  allowed c <= 2 -> wrong_kind c (h_digest h) = false ->
  (verify_prefix R key_valid below vrf_verify seal_verify equiv c h = Ok tt <->
   authorised R key_valid below vrf_verify seal_verify equiv c h).
Proof. exact accept_iff_prefix_partial. Qed.
Print Assumptions C24_accept_iff_prefix_partial.

(* ================================================================== VerificationManager
   The statements above are about verifyAuthorshipRight under given epoch data.  The ones below
   are about VerificationManager.VerifyBlock (C24/Manager.v): which epoch's data governs the
   block, and that the verdict does not depend on what the same manager was asked before.  The
   node's state (block / epoch / slot state) and the verifier info are parameters of every
   statement, as are the primitives, now indexed by the verifier info they use and by the epoch
   number in the VRF transcript. *)

(* The data epoch ("epochWhereDataDescriptorIs"): the block's own epoch when its parent is the
   genesis block; otherwise a block whose epoch is below its parent's is refused, and the data is
   that of min(block epoch, parent epoch + 1) -- the epoch after the parent's when epochs were
   skipped.  (parent epoch + 1 is uint64 arithmetic; the hypothesis excludes the wrap, see
   C24_nonvacuous_epochs for what happens there.) *)
Theorem C24_data_epoch : forall pe cur,
  select_epoch true pe cur = Ok cur /\
  (forall p, pe = Some p -> p + 1 < two64 ->
     select_epoch false pe cur = if cur <? p then Err m_epoch_lower else Ok (N.min cur (p + 1))).
Proof. exact data_epoch. Qed.
Print Assumptions C24_data_epoch.

(* VerifyBlock succeeds iff the parent is known, the epochs are consistent, the verifier info of
   the data epoch is available and the block is authorised (in the sense of C24_accept_iff)
   under that info, with the block's OWN epoch number in the VRF transcripts. *)
Theorem C24_verify_block_iff :
  forall (R K : Type) k_cfg key_valid below vrf_verify seal_verify equiv
         parent is_genesis epoch_of slot_dur_ok info (h : header R),
  (forall d k, info d h = Some k -> allowed (k_cfg k) <= 2) ->
  (verify_block R K k_cfg key_valid below vrf_verify seal_verify equiv parent is_genesis epoch_of
     slot_dur_ok info h = Ok tt <->
   block_authorised R K k_cfg key_valid below vrf_verify seal_verify equiv parent is_genesis epoch_of
     slot_dur_ok info h).
Proof. exact verify_block_iff. Qed.
Print Assumptions C24_verify_block_iff.

Theorem C24_block_authorised_decidable :
  forall (R K : Type) k_cfg key_valid below vrf_verify seal_verify equiv
         parent is_genesis epoch_of slot_dur_ok info (h : header R),
  block_authorised_b R K k_cfg key_valid below vrf_verify seal_verify equiv parent is_genesis epoch_of
    slot_dur_ok info h = true <->
  block_authorised R K k_cfg key_valid below vrf_verify seal_verify equiv parent is_genesis epoch_of
    slot_dur_ok info h.
Proof. exact block_authorised_reflect. Qed.
Print Assumptions C24_block_authorised_decidable.

(* History independence: for every state of the manager, every sequence of earlier VerifyBlock /
   SetOnDisabled calls (on any forks, epochs, with any outcomes) and every header, the verdict of
   VerifyBlock is the stateless function verify_block of the header and the node's state.
   The proof is one line because the model's VerifyBlock, like the code's, reads neither epochInfo
   nor onDisabled; what ties that reading of the code to lib/babe is the `seq` correspondence
   (one manager, two forks with different data for the same epoch number), and
   C24_cached_variant_refuted shows the statement is not vacuous. *)
Theorem C24_history_independent :
  forall (R K : Type) k_cfg key_valid below vrf_verify seal_verify equiv
         parent is_genesis epoch_of slot_dur_ok info descendant number
         (st : mstate R K) (before : list (mop R)) (h : header R),
  snd (mrun R K k_cfg key_valid below vrf_verify seal_verify equiv parent is_genesis epoch_of slot_dur_ok
         info descendant number st (before ++ [OpVerify h])) =
  snd (mrun R K k_cfg key_valid below vrf_verify seal_verify equiv parent is_genesis epoch_of slot_dur_ok
         info descendant number st before) ++
  [verify_block R K k_cfg key_valid below vrf_verify seal_verify equiv parent is_genesis epoch_of
     slot_dur_ok info h].
Proof. exact history_independent. Qed.
Print Assumptions C24_history_independent.

(* ... and so every VerifyBlock answer inside any history is the stateless verdict *)
Theorem C24_history_verdicts :
  forall (R K : Type) k_cfg key_valid below vrf_verify seal_verify equiv
         parent is_genesis epoch_of slot_dur_ok info descendant number
         (st : mstate R K) (ops : list (mop R)),
  verdicts_ok R K k_cfg key_valid below vrf_verify seal_verify equiv parent is_genesis epoch_of slot_dur_ok
    info ops
    (snd (mrun R K k_cfg key_valid below vrf_verify seal_verify equiv parent is_genesis epoch_of slot_dur_ok
            info descendant number st ops)).
Proof. exact history_verdicts. Qed.
Print Assumptions C24_history_verdicts.

(* A manager that answered VerifyBlock from its epochInfo cache keyed by the epoch number alone
   (seeded/C24-m2; [verify_block_cached] is NOT the code) would violate it: two forks announce
   one resp. two authorities for epoch 3; after a fork-0 block, the fork-1 block claimed by
   authority 1 is refused (index out of range under fork 0's data) although it is authorised. *)
Theorem C24_cached_variant_refuted :
  let kv := fun (_ : cfg) (_ : N) => true in
  let bl := fun (_ : cfg) (_ _ _ : N) (_ : list byte) => T in
  let vv := fun (_ : cfg) (_ _ _ : N) (_ _ : list byte) => T in
  let sv := fun (_ : cfg) (_ : N) (_ : N) (_ : list item) (_ : list byte) => T in
  let eqv := fun _ _ : N => F in
  let w_info := fun (_ : N) (h : header N) => Some (w_cfg (h_rest h)) in
  let desc := fun _ _ : header N => Some false in
  let num := fun _ : header N => 1 in
  let ops := [OpVerify (w_header 0 0); OpVerify (w_header 1 1)] in
  snd (mrun N cfg (fun k => k) kv bl vv sv eqv w_parent (fun _ => true) (fun _ => Some 3) true w_info desc num
         (ms_init N cfg) ops) = [Ok tt; Ok tt] /\
  snd (mrun_cached N cfg (fun k => k) kv bl vv sv eqv w_parent (fun _ => true) (fun _ => Some 3) true w_info desc num
         (ms_init N cfg) ops) = [Ok tt; Err e_badidx] /\
  verify_block N cfg (fun k => k) kv bl vv sv eqv w_parent (fun _ => true) (fun _ => Some 3) true w_info
    (w_header 1 1) = Ok tt.
Proof. exact cached_refuted. Qed.
Print Assumptions C24_cached_variant_refuted.

(* the data epoch on examples: parent in epoch 3 and block in epoch 7 -> data of epoch 4; block in
   epoch 4 or 3 -> its own; block in epoch 2 -> refused; genesis parent -> own epoch; and the
   uint64 wrap of parentEpoch + 1 at 2^64 - 1 (data epoch 0) *)
Example C24_nonvacuous_epochs :
  select_epoch false (Some 3) 7 = Ok 4 /\ select_epoch false (Some 3) 4 = Ok 4 /\
  select_epoch false (Some 3) 3 = Ok 3 /\ select_epoch false (Some 3) 2 = Err m_epoch_lower /\
  select_epoch true None 7 = Ok 7 /\ select_epoch false None 7 = Err m_parent_epoch /\
  select_epoch false (Some 18446744073709551615) 18446744073709551615 = Ok 0.
Proof. exact select_epoch_examples. Qed.

(* the constants of the Go source the model's literals stand for (re-read on every run into
   Gen.v): field widths of the pre-digest codec and the AllowedSlots values the kind tests use *)
Example C24_constants_tied :
  (forall i s o p, length o = Z.to_nat Gen.vrf_output_length -> length p = Z.to_nat Gen.vrf_proof_length ->
     i < 4294967296 -> s < 18446744073709551616 ->
     decode_predigest (encode_predigest (Primary i s o p)) = Some (Primary i s o p)) /\
  plain_allowed (Z.to_N Gen.primary_and_secondary_plain_slots) = true /\
  vrf_allowed (Z.to_N Gen.primary_and_secondary_vrf_slots) = true /\
  plain_allowed (Z.to_N Gen.primary_and_secondary_vrf_slots) = false /\
  vrf_allowed (Z.to_N Gen.primary_and_secondary_plain_slots) = false /\
  any_secondary (Z.to_N Gen.primary_slots) = false /\
  length (randomness witness_cfg) = Z.to_nat Gen.randomness_length.
Proof.
  split; [|repeat split; reflexivity].
  intros i s o p Lo Lp Hi Hs. apply decode_encode. repeat split; assumption.
Qed.

(* ---- non-vacuity: authorised blocks of each kind exist and are accepted *)
Example C24_nonvacuous :
  let kv := fun _ : N => true in
  let bl := fun (_ _ : N) (_ : list byte) => T in
  let vv := fun (_ _ : N) (_ _ : list byte) => T in
  let sv := fun (_ : N) (_ : unit) (_ : list item) (_ : list byte) => T in
  let eq := fun _ _ : N => F in
  let out := repeat Byte.x00 32 in let prf := repeat Byte.x00 64 in
  let hdr d := {| h_rest := tt; h_digest := [PreRuntime [] (encode_predigest d); Consensus [] []; Seal [] []] |} in
  let c a := {| n_auth := 3; allowed := a; randomness := repeat Byte.x01 32 |} in
  (* slot 7's secondary author among 3 authorities for this randomness *)
  secondary_slot_author_idx (c 1) 7 = Some 1 /\
  verify unit kv bl vv sv eq (c 0) (hdr (Primary 2 7 out prf)) = Ok tt /\
  verify unit kv bl vv sv eq (c 1) (hdr (SecPlain 1 7)) = Ok tt /\
  verify unit kv bl vv sv eq (c 2) (hdr (SecVRF 1 7 out prf)) = Ok tt /\
  verify unit kv bl vv sv eq (c 2) (hdr (SecPlain 1 7)) = Err e_badslot /\
  verify unit kv bl vv sv eq (c 1) (hdr (SecPlain 2 7)) = Err e_badsec /\
  verify unit kv bl vv sv eq (c 0) (hdr (SecPlain 1 7)) = Err e_badslot /\
  verify unit kv bl vv sv eq (c 0) (hdr (Primary 3 7 out prf)) = Err e_badidx.
Proof. vm_compute. repeat split; reflexivity. Qed.
