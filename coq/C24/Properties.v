(* C24/Properties.v — property C24: BABE verification accepts exactly authorised blocks.
   Only statements, each closed by `exact <lemma>`, with Print Assumptions beneath.

   The cryptographic primitives are parameters of every statement (universally quantified):
     key_valid i            authority i's raw key is a valid sr25519 public key
     below i slot out       the VRF in/out bytes for (randomness, slot, epoch, out, pk_i) are below
                            the epoch threshold (checkPrimaryThreshold; arithmetic part: C25)
     vrf_verify i slot o p  pk_i verifies the VRF proof over the slot's transcript
     seal_verify i r dg s   pk_i verifies s over blake2b(scale(header r with digest dg))
     equiv i slot           the slot state's equivocation check for the block
   each answering T (true), F (false) or E (the primitive fails).  The secondary slot author is
   concrete (BLAKE2b, C25).  [authorised] (C24/Model.v) is the property's right-hand side:
   the digest is  PreRuntime data :: mid ++ [Seal sig],  data decodes to a claim d whose
   authority index is in range and names a valid key, d is a primary claim below the threshold
   with a valid VRF proof, or a secondary claim OF THE KIND THE CONFIGURATION ALLOWS by the
   slot's assigned author (with a valid VRF proof for the VRF kind), sig is that authority's
   signature over the header without the seal, and no equivocation is reported. *)
From Coq Require Import ZArith NArith List Bool.
From Common Require Import Bytes Outcome.
From C24 Require Import Model Proofs.
Import ListNotations.
Local Open Scope N_scope.

(* For the three epoch configurations of the protocol (SecondarySlots = 0, 1, 2), every
   authority set size, randomness, header and primitive behaviour:
   verification succeeds iff the block is authorised. *)
Theorem C24_accept_iff :
  forall (R : Type) key_valid below vrf_verify seal_verify equiv (c : cfg) (h : header R),
  allowed c <= 2 ->
  (verify R key_valid below vrf_verify seal_verify equiv c h = Ok tt <->
   authorised R key_valid below vrf_verify seal_verify equiv c h).
Proof. exact accept_iff. Qed.
Print Assumptions C24_accept_iff.

(* Every claim produced by the node's own slot lottery (claimSlot), put into a header as its
   first digest item and sealed with the claiming key, passes verification under the same epoch
   data, provided honest VRF signatures and honest seals verify. *)
Theorem C24_own_claims_pass :
  forall (R : Type) key_valid below vrf_verify seal_verify equiv vrf_sign
         (c : cfg) me slot d (rest : R) mid eng seng sig,
  allowed c <= 2 -> me < n_auth c -> key_valid me = true ->
  (forall k, vrf_verify me slot (fst (vrf_sign me slot k)) (snd (vrf_sign me slot k)) = T) ->
  (forall k, length (fst (vrf_sign me slot k)) = 32%nat /\ length (snd (vrf_sign me slot k)) = 64%nat) ->
  me < 4294967296 -> slot < 18446744073709551616 ->
  claim_slot below vrf_sign c me slot = Ok d ->
  seal_verify me rest (PreRuntime eng (encode_predigest d) :: mid) sig = T ->
  equiv me slot = F ->
  verify R key_valid below vrf_verify seal_verify equiv c
    {| h_rest := rest; h_digest := PreRuntime eng (encode_predigest d) :: mid ++ [Seal seng sig] |} = Ok tt.
Proof. exact own_claims_pass. Qed.
Print Assumptions C24_own_claims_pass.

(* the executable predicate the check evaluates on the implementation's answers is the
   specification *)
Theorem C24_authorised_decidable :
  forall (R : Type) key_valid below vrf_verify seal_verify equiv (c : cfg) (h : header R),
  authorised_b R key_valid below vrf_verify seal_verify equiv c h = true <->
  authorised R key_valid below vrf_verify seal_verify equiv c h.
Proof. exact authorised_reflect. Qed.
Print Assumptions C24_authorised_decidable.

(* the pre-digest wire format round-trips *)
Theorem C24_predigest_roundtrip : forall d, wf_predigest d ->
  decode_predigest (encode_predigest d) = Some d.
Proof. exact decode_encode. Qed.
Print Assumptions C24_predigest_roundtrip.

(* The pinned tree (secondarySlots = SecondarySlots > 0) violated C24_accept_iff: with one
   authority and the configuration "secondary PLAIN", a sealed secondary VRF claim is accepted
   although it is not authorised; the repaired verification rejects it with ErrBadSlotClaim. *)
Theorem C24_secondary_kind_prefix_refuted :
  verify_prefix unit (fun _ => true) (fun _ _ _ => T) (fun _ _ _ _ => T) (fun _ _ _ _ => T) (fun _ _ => F)
    witness_cfg witness_header = Ok tt /\
  ~ authorised unit (fun _ => true) (fun _ _ _ => T) (fun _ _ _ _ => T) (fun _ _ _ _ => T) (fun _ _ => F)
    witness_cfg witness_header /\
  verify unit (fun _ => true) (fun _ _ _ => T) (fun _ _ _ _ => T) (fun _ _ _ _ => T) (fun _ _ => F)
    witness_cfg witness_header = Err e_badslot.
Proof. exact prefix_refuted. Qed.
Print Assumptions C24_secondary_kind_prefix_refuted.

(* ... and outside that class of inputs (guard [wrong_kind]: the first digest item is a
   well-formed secondary claim of the kind the configuration does not name) the pinned tree's
   verification already accepts exactly the authorised blocks. *)
Theorem C24_accept_iff_prefix_partial :
  forall (R : Type) key_valid below vrf_verify seal_verify equiv (c : cfg) (h : header R),
  allowed c <= 2 -> wrong_kind c (h_digest h) = false ->
  (verify_prefix R key_valid below vrf_verify seal_verify equiv c h = Ok tt <->
   authorised R key_valid below vrf_verify seal_verify equiv c h).
Proof. exact accept_iff_prefix_partial. Qed.
Print Assumptions C24_accept_iff_prefix_partial.

(* ---- non-vacuity: authorised blocks of each kind exist and are accepted *)
Example C24_nonvacuous :
  let kv := fun _ : N => true in
  let bl := fun (_ _ : N) (_ : list byte) => T in
  let vv := fun (_ _ : N) (_ _ : list byte) => T in
  let sv := fun (_ : N) (_ : unit) (_ : list item) (_ : list byte) => T in
  let eq := fun _ _ : N => F in
  let out := repeat Byte.x00 32 in let prf := repeat Byte.x00 64 in
  let hdr d := {| h_rest := tt; h_digest := [PreRuntime [] (encode_predigest d); Consensus [] []; Seal [] []] |} in
  let c a := {| n_auth := 3; allowed := a; randomness := repeat Byte.x01 32 |} in
  (* slot 7's secondary author among 3 authorities for this randomness *)
  secondary_slot_author_idx (c 1) 7 = Some 1 /\
  verify unit kv bl vv sv eq (c 0) (hdr (Primary 2 7 out prf)) = Ok tt /\
  verify unit kv bl vv sv eq (c 1) (hdr (SecPlain 1 7)) = Ok tt /\
  verify unit kv bl vv sv eq (c 2) (hdr (SecVRF 1 7 out prf)) = Ok tt /\
  verify unit kv bl vv sv eq (c 2) (hdr (SecPlain 1 7)) = Err e_badslot /\
  verify unit kv bl vv sv eq (c 1) (hdr (SecPlain 2 7)) = Err e_badsec /\
  verify unit kv bl vv sv eq (c 0) (hdr (SecPlain 1 7)) = Err e_badslot /\
  verify unit kv bl vv sv eq (c 0) (hdr (Primary 3 7 out prf)) = Err e_badidx.
Proof. vm_compute. repeat split; reflexivity. Qed.
