From Coq Require Import Extraction ExtrOcamlBasic.
From Common Require Import Bytes Drv Outcome.
From C25 Require Import Secondary.
From C24 Require Import Model Manager.
Extraction "model.ml" drv_b2n drv_n2b drv_z_of_n drv_n_of_z drv_nat_of_n drv_n_of_nat
  verify verify_prefix authorised_b claim_slot decode_predigest encode_predigest pd_idx pd_slot
  secondary_slot_author wrong_kind
  e_missing e_nopre e_noseal e_decode e_badidx e_over e_badslot e_badsec e_badsig e_other
  e_equiv_err e_equivocated c_notour c_tech c_other
  select_epoch verify_block block_authorised_b mstep ms_init
  m_noparent m_epoch m_parent_epoch m_epoch_lower m_slotdur m_info s_epoch s_info s_badidx s_desc s_already.
