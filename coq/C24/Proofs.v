(* C24/Proofs.v — lemmas about the BABE verification model. *)
From Coq Require Import ZArith NArith List Bool Lia.
From Common Require Import Bytes Outcome.
From C25 Require Import Secondary.
From C24 Require Import Model.
Import ListNotations.
Local Open Scope N_scope.

(* ------------------------------------------------------------------ digest shape *)
Lemma digest_shape (dg : list item) eng data seng sig :
  (2 <= length dg)%nat -> hd RuntimeEnvUpdated dg = PreRuntime eng data ->
  last dg RuntimeEnvUpdated = Seal seng sig ->
  exists mid, dg = PreRuntime eng data :: mid ++ [Seal seng sig].
Proof.
  intros L H1 H2. destruct dg as [|x l]; [simpl in L; lia|]. simpl in H1. subst x.
  destruct l as [|y l]; [simpl in L; lia|].
  destruct (@exists_last _ (y :: l)) as (mid & a & E); [discriminate|].
  rewrite E in *. exists mid. f_equal. f_equal.
  change (PreRuntime eng data :: mid ++ [a]) with ((PreRuntime eng data :: mid) ++ [a]) in H2.
  rewrite last_last in H2. now subst a.
Qed.

Lemma shape_facts eng data mid seng sig :
  let dg := PreRuntime eng data :: mid ++ [Seal seng sig] in
  (length dg <? 2)%nat = false /\ hd RuntimeEnvUpdated dg = PreRuntime eng data /\
  last dg RuntimeEnvUpdated = Seal seng sig /\ removelast dg = PreRuntime eng data :: mid.
Proof.
  intros dg. repeat split.
  - apply Nat.ltb_ge. unfold dg. simpl. rewrite app_length. simpl. lia.
  - unfold dg. change (PreRuntime eng data :: mid ++ [Seal seng sig])
      with ((PreRuntime eng data :: mid) ++ [Seal seng sig]). apply last_last.
  - unfold dg. change (PreRuntime eng data :: mid ++ [Seal seng sig])
      with ((PreRuntime eng data :: mid) ++ [Seal seng sig]). apply removelast_last.
Qed.

(* ------------------------------------------------------------------ pre-digest codec *)
Lemma take_app k (a b : list byte) : length a = k -> take k (a ++ b) = Some (a, b).
Proof.
  intros L. unfold take. rewrite app_length, L.
  replace (k + length b <? k)%nat with false by (symmetry; apply Nat.ltb_ge; lia).
  subst k. now rewrite firstn_app, firstn_all, Nat.sub_diag, firstn_O, app_nil_r, skipn_app,
    skipn_all, Nat.sub_diag.
Qed.

Definition wf_predigest (d : predigest) : Prop :=
  pd_idx d < 4294967296 /\ pd_slot d < 18446744073709551616 /\
  match d with
  | Primary _ _ o p | SecVRF _ _ o p => length o = 32%nat /\ length p = 64%nat
  | SecPlain _ _ => True
  end.

Lemma decode_encode d : wf_predigest d -> decode_predigest (encode_predigest d) = Some d.
Proof.
  intros (Hi & Hs & Hl).
  assert (Li : forall i, length (le_bytes 4 i) = 4%nat) by (intro; apply le_bytes_length).
  assert (Ls : forall i, length (le_bytes 8 i) = 8%nat) by (intro; apply le_bytes_length).
  destruct d as [i s o p|i s|i s o p]; simpl in Hi, Hs, Hl; unfold encode_predigest, decode_predigest;
    rewrite b2n_n2b_small by lia; cbn [N.eqb Pos.eqb orb negb].
  - destruct Hl as [Lo Lp]. rewrite (take_app 4) by apply Li. rewrite (take_app 8) by apply Ls.
    rewrite (take_app 32) by exact Lo. rewrite <- (app_nil_r p). rewrite (take_app 64) by exact Lp.
    rewrite !le_val_le_bytes_small by (simpl; lia). now rewrite app_nil_r.
  - rewrite (take_app 4) by apply Li. rewrite <- (app_nil_r (le_bytes 8 s)).
    rewrite (take_app 8) by apply Ls. now rewrite !le_val_le_bytes_small by (simpl; lia).
  - destruct Hl as [Lo Lp]. rewrite (take_app 4) by apply Li. rewrite (take_app 8) by apply Ls.
    rewrite (take_app 32) by exact Lo. rewrite <- (app_nil_r p). rewrite (take_app 64) by exact Lp.
    rewrite !le_val_le_bytes_small by (simpl; lia). now rewrite app_nil_r.
Qed.

(* ------------------------------------------------------------------ verification *)
Section Verify.
  Variable R : Type.
  Variable key_valid : N -> bool.
  Variable below : N -> N -> list byte -> tri.
  Variable vrf_verify : N -> N -> list byte -> list byte -> tri.
  Variable seal_verify : N -> R -> list item -> list byte -> tri.
  Variable equiv : N -> N -> tri.

  Notation verify := (verify R key_valid below vrf_verify seal_verify equiv).
  Notation verify_pre := (verify_pre key_valid below vrf_verify).
  Notation authorised := (authorised R key_valid below vrf_verify seal_verify equiv).
  Notation authorised_b := (authorised_b R key_valid below vrf_verify seal_verify equiv).
  Notation right_to_produce := (right_to_produce below vrf_verify).
  Notation right_to_produce_b := (right_to_produce_b below vrf_verify).

  Lemma allowed_kinds a : a <= 2 ->
    plain_allowed a = (a =? 1) /\ vrf_allowed a = (a =? 2).
  Proof.
    intros H. unfold plain_allowed, vrf_allowed.
    assert (a = 0 \/ a = 1 \/ a = 2) as [E|[E|E]] by lia; subst a; split; reflexivity.
  Qed.

  Lemma is_T_iff t : is_T t = true <-> t = T.
  Proof. destruct t; simpl; split; congruence. Qed.
  Lemma is_F_iff t : is_F t = true <-> t = F.
  Proof. destruct t; simpl; split; congruence. Qed.

  (* a pair of secondary-kind tests is exact for the claim in [data] *)
  Definition kinds_exact (plain_ok vrf_ok : N -> bool) (c : cfg) (data : list byte) : Prop :=
    match decode_predigest data with
    | Some (SecPlain _ _) => plain_ok (allowed c) = (allowed c =? 1)
    | Some (SecVRF _ _ _ _) => vrf_ok (allowed c) = (allowed c =? 2)
    | _ => True
    end.

  (* verifyPreRuntimeDigest succeeds, and the author's key is usable, exactly when the claim is
     well-formed, in range and gives the right to produce *)
  Lemma verify_pre_gen_ok plain_ok vrf_ok c data d : kinds_exact plain_ok vrf_ok c data ->
    (verify_pre_gen key_valid below vrf_verify plain_ok vrf_ok c data = Ok d /\ key_valid (pd_idx d) = true) <->
    (decode_predigest data = Some d /\ pd_idx d < n_auth c /\ key_valid (pd_idx d) = true /\
     right_to_produce c d).
  Proof.
    unfold kinds_exact, verify_pre_gen.
    destruct (decode_predigest data) as [d0|]; [|intros _; split; [intros [H _]; discriminate|intros [H _]; discriminate]].
    intros Hk.
    destruct (N.leb_spec (n_auth c) (pd_idx d0)) as [Hn|Hn].
    { split; [intros [H _]; discriminate|]. intros (E & Hlt & _). inversion E; subst. lia. }
    destruct d0 as [i s o p|i s|i s o p]; cbn [pd_idx] in *; unfold Model.right_to_produce.
    - destruct (key_valid i) eqn:K; cbn [negb].
      2:{ split; [intros [H _]; discriminate|]. intros (E & _ & K' & _). inversion E; subst. cbn in K'. congruence. }
      destruct (below i s o) eqn:B; try (split; [intros [H _]; discriminate|
        intros (E & _ & _ & H); inversion E; subst; destruct H; congruence]).
      destruct (vrf_verify i s o p) eqn:V; try (split; [intros [H _]; discriminate|
        intros (E & _ & _ & H); inversion E; subst; destruct H; congruence]).
      split.
      + intros [H _]. inversion H; subst. cbn. repeat split; assumption.
      + intros (E & _ & _ & _). inversion E; subst. split; [reflexivity|exact K].
    - rewrite Hk. destruct (N.eqb_spec (allowed c) 1) as [A|A]; cbn [negb].
      2:{ split; [intros [H _]; discriminate|]. intros (E & _ & _ & H). inversion E; subst. destruct H; congruence. }
      destruct (author_is c s i) eqn:Au; cbn [negb].
      2:{ split; [intros [H _]; discriminate|]. intros (E & _ & _ & H). inversion E; subst. destruct H; congruence. }
      split.
      + intros [H K]. inversion H; subst. cbn in *. repeat split; assumption.
      + intros (E & _ & K & _). inversion E; subst. split; [reflexivity|exact K].
    - rewrite Hk. destruct (N.eqb_spec (allowed c) 2) as [A|A]; cbn [negb].
      2:{ split; [intros [H _]; discriminate|]. intros (E & _ & _ & H). inversion E; subst. destruct H; congruence. }
      destruct (key_valid i) eqn:K; cbn [negb].
      2:{ split; [intros [H _]; discriminate|]. intros (E & _ & K' & _). inversion E; subst. cbn in K'. congruence. }
      destruct (author_is c s i) eqn:Au; cbn [negb].
      2:{ split; [intros [H _]; discriminate|]. intros (E & _ & _ & H). inversion E; subst. destruct H as (_ & H & _); congruence. }
      destruct (vrf_verify i s o p) eqn:V; try (split; [intros [H _]; discriminate|
        intros (E & _ & _ & H); inversion E; subst; destruct H as (_ & _ & H); congruence]).
      split.
      + intros [H _]. inversion H; subst. cbn. repeat split; assumption.
      + intros (E & _ & _ & _). inversion E; subst. split; [reflexivity|exact K].
  Qed.

  Notation verify_gen := (verify_gen R key_valid below vrf_verify seal_verify equiv).

  Lemma accept_iff_gen plain_ok vrf_ok c (h : header R) :
    (forall eng data rest, h_digest h = PreRuntime eng data :: rest -> kinds_exact plain_ok vrf_ok c data) ->
    (verify_gen plain_ok vrf_ok c h = Ok tt <-> authorised c h).
  Proof.
    intros Hk. split.
    - unfold Model.verify_gen.
      destruct (Nat.ltb_spec (length (h_digest h)) 2) as [L|L]; [discriminate|].
      destruct (hd RuntimeEnvUpdated (h_digest h)) as [eng data| | |] eqn:H1; try discriminate.
      destruct (last (h_digest h) RuntimeEnvUpdated) as [| |seng sig|] eqn:H2; try discriminate.
      destruct (verify_pre_gen key_valid below vrf_verify plain_ok vrf_ok c data) as [d|e| |] eqn:P;
        try discriminate.
      destruct (key_valid (pd_idx d)) eqn:K; cbn [negb]; [|discriminate].
      destruct (seal_verify (pd_idx d) (h_rest h) (removelast (h_digest h)) sig) eqn:S; try discriminate.
      destruct (equiv (pd_idx d) (pd_slot d)) eqn:Q; try discriminate. intros _.
      destruct (digest_shape _ _ _ _ _ L H1 H2) as [mid E].
      destruct (proj1 (verify_pre_gen_ok plain_ok vrf_ok c data d (Hk _ _ _ E)) (conj P K)) as (D1 & D2 & D3 & D4).
      exists eng, data, mid, seng, sig, d. repeat split; try assumption.
      rewrite E in S. destruct (shape_facts eng data mid seng sig) as (_ & _ & _ & Rl).
      cbv zeta in Rl. rewrite Rl in S. exact S.
    - intros (eng & data & mid & seng & sig & d & E & D1 & D2 & D3 & D4 & S & Q).
      destruct (proj2 (verify_pre_gen_ok plain_ok vrf_ok c data d (Hk _ _ _ E)) (conj D1 (conj D2 (conj D3 D4)))) as [P K].
      destruct (shape_facts eng data mid seng sig) as (F1 & F2 & F3 & F4). cbv zeta in *.
      unfold Model.verify_gen. rewrite E, F1, F2, F3, F4.
      rewrite P, K. cbn [negb]. rewrite S, Q. reflexivity.
  Qed.

  Theorem accept_iff c (h : header R) : allowed c <= 2 ->
    (verify c h = Ok tt <-> authorised c h).
  Proof.
    intros Ha. apply accept_iff_gen. intros eng data rest _. unfold kinds_exact.
    destruct (allowed_kinds _ Ha) as [Ep Ev].
    destruct (decode_predigest data) as [[| |]|]; auto.
  Qed.

  (* the pinned tree's verification is right outside the guard of the finding *)
  Theorem accept_iff_prefix_partial c (h : header R) : allowed c <= 2 ->
    wrong_kind c (h_digest h) = false ->
    (verify_prefix R key_valid below vrf_verify seal_verify equiv c h = Ok tt <-> authorised c h).
  Proof.
    intros Ha Hg. apply accept_iff_gen. intros eng data rest E. unfold kinds_exact.
    unfold wrong_kind in Hg. rewrite E in Hg. unfold any_secondary.
    destruct (decode_predigest data) as [[| |]|]; auto.
    - apply N.eqb_neq in Hg. assert (allowed c = 0 \/ allowed c = 1) as [A|A] by lia; rewrite A; reflexivity.
    - apply N.eqb_neq in Hg. assert (allowed c = 0 \/ allowed c = 2) as [A|A] by lia; rewrite A; reflexivity.
  Qed.

  Lemma right_to_produce_reflect c d : right_to_produce_b c d = true <-> right_to_produce c d.
  Proof.
    destruct d as [i s o p|i s|i s o p]; unfold Model.right_to_produce_b, Model.right_to_produce;
      rewrite ?andb_true_iff, ?is_T_iff, ?N.eqb_eq; tauto.
  Qed.

  Lemma authorised_reflect c (h : header R) : authorised_b c h = true <-> authorised c h.
  Proof.
    unfold Model.authorised_b, Model.authorised. split.
    - destruct (h_digest h) as [|x rest] eqn:E; [discriminate|].
      destruct x as [eng data| | |]; try discriminate.
      destruct rest as [|y rest']; [discriminate|].
      destruct (last (y :: rest') RuntimeEnvUpdated) as [| |seng sig|] eqn:L; try discriminate.
      destruct (decode_predigest data) as [d|] eqn:D; [|discriminate].
      rewrite !andb_true_iff, is_T_iff, is_F_iff, N.ltb_lt, right_to_produce_reflect.
      intros ((((H1 & H2) & H3) & H4) & H5).
      destruct (@exists_last _ (y :: rest')) as (mid & a & E2); [discriminate|].
      rewrite E2 in L. rewrite last_last in L. subst a.
      exists eng, data, mid, seng, sig, d. rewrite E2. repeat split; try assumption.
      change (PreRuntime eng data :: mid ++ [Seal seng sig]) with ((PreRuntime eng data :: mid) ++ [Seal seng sig]) in H4.
      rewrite E2 in H4.
      change (PreRuntime eng data :: mid ++ [Seal seng sig]) with ((PreRuntime eng data :: mid) ++ [Seal seng sig]) in H4.
      rewrite removelast_last in H4. exact H4.
    - intros (eng & data & mid & seng & sig & d & E & D1 & D2 & D3 & D4 & S & Q).
      rewrite E. destruct (mid ++ [Seal seng sig]) as [|y rest'] eqn:E2.
      { destruct mid; discriminate. }
      rewrite <- E2. rewrite last_last. rewrite D1.
      rewrite !andb_true_iff, is_T_iff, is_F_iff, N.ltb_lt, right_to_produce_reflect.
      change (PreRuntime eng data :: mid ++ [Seal seng sig]) with ((PreRuntime eng data :: mid) ++ [Seal seng sig]).
      rewrite removelast_last. repeat split; assumption.
  Qed.

  (* ---- own claims pass *)
  Variable vrf_sign : N -> N -> N -> list byte * list byte.
  Notation claim_slot := (claim_slot below vrf_sign).

  Lemma claim_slot_cases c me slot d : claim_slot c me slot = Ok d ->
    pd_idx d = me /\ pd_slot d = slot /\
    ((exists k, d = Primary me slot (fst (vrf_sign me slot k)) (snd (vrf_sign me slot k)) /\
                below me slot (fst (vrf_sign me slot k)) = T) \/
     (allowed c = 1 /\ d = SecPlain me slot /\ author_is c slot me = true) \/
     (allowed c = 2 /\ author_is c slot me = true /\
      exists k, d = SecVRF me slot (fst (vrf_sign me slot k)) (snd (vrf_sign me slot k)))).
  Proof.
    unfold Model.claim_slot. destruct (vrf_sign me slot 0) as [out prf] eqn:V0.
    destruct (below me slot out) eqn:B.
    - intros H. inversion H; subst. split; [reflexivity|]. split; [reflexivity|]. left. exists 0.
      rewrite V0. split; [reflexivity|exact B].
    - destruct (N.eqb_spec (allowed c) 0); [discriminate|].
      destruct (N.eqb_spec (allowed c) 2) as [A2|A2].
      + unfold author_is.
        destruct (secondary_slot_author slot (Z.of_N (n_auth c)) (randomness c)) as [a| | |]; try discriminate.
        destruct (N.eqb_spec a me); [|discriminate]. destruct (vrf_sign me slot 1) as [o p] eqn:V1.
        intros H. inversion H; subst. split; [reflexivity|]. split; [reflexivity|]. right. right.
        split; [assumption|]. split; [reflexivity|]. exists 1. now rewrite V1.
      + destruct (N.eqb_spec (allowed c) 1) as [A1|A1]; [|discriminate]. unfold author_is.
        destruct (secondary_slot_author slot (Z.of_N (n_auth c)) (randomness c)) as [a| | |]; try discriminate.
        destruct (N.eqb_spec a me); [|discriminate].
        intros H. inversion H; subst. split; [reflexivity|]. split; [reflexivity|]. right. left.
        split; [assumption|]. split; reflexivity.
    - discriminate.
  Qed.

  (* every claim the node's own lottery produces, sealed by the same key, verifies: under the
     hypotheses that an honest VRF signature verifies and an honest seal verifies *)
  Theorem own_claims_pass c me slot d rest mid eng seng sig :
    allowed c <= 2 -> me < n_auth c -> key_valid me = true ->
    (forall k, vrf_verify me slot (fst (vrf_sign me slot k)) (snd (vrf_sign me slot k)) = T) ->
    (forall k, length (fst (vrf_sign me slot k)) = 32%nat /\ length (snd (vrf_sign me slot k)) = 64%nat) ->
    me < 4294967296 -> slot < 18446744073709551616 ->
    claim_slot c me slot = Ok d ->
    seal_verify me rest (PreRuntime eng (encode_predigest d) :: mid) sig = T ->
    equiv me slot = F ->
    verify c {| h_rest := rest; h_digest := PreRuntime eng (encode_predigest d) :: mid ++ [Seal seng sig] |} = Ok tt.
  Proof.
    intros Ha Hme K Hv Hl Hme32 Hs64 Hc Hs Hq.
    destruct (claim_slot_cases c me slot d Hc) as (I & S & Cases).
    apply accept_iff; [exact Ha|].
    exists eng, (encode_predigest d), mid, seng, sig, d. cbn [h_rest h_digest]. rewrite I, S.
    repeat split; try assumption.
    - apply decode_encode. unfold wf_predigest. rewrite I, S. repeat split; try assumption.
      destruct Cases as [(k & E & _)|[(_ & E & _)|(_ & _ & k & E)]]; subst d; try exact Logic.I; apply Hl.
    - destruct Cases as [(k & E & B)|[(A & E & Au)|(A & Au & k & E)]]; subst d; cbn.
      + split; [exact B|apply Hv].
      + split; assumption.
      + repeat split; try assumption. apply Hv.
  Qed.
End Verify.

(* ------------------------------------------------------------------ the pinned tree *)
(* One authority, configuration "primary + secondary PLAIN" (SecondarySlots = 1): a secondary
   VRF claim passes the pre-fix verification although the configuration does not allow it. *)
Definition witness_cfg : cfg := {| n_auth := 1; allowed := 1; randomness := repeat Byte.x00 32 |}.
Definition witness_header : header unit :=
  {| h_rest := tt;
     h_digest := [PreRuntime [] (encode_predigest (SecVRF 0 5 (repeat Byte.x00 32) (repeat Byte.x00 64)));
                  Seal [] []] |}.

Lemma prefix_refuted :
  verify_prefix unit (fun _ => true) (fun _ _ _ => T) (fun _ _ _ _ => T) (fun _ _ _ _ => T) (fun _ _ => F)
    witness_cfg witness_header = Ok tt /\
  ~ authorised unit (fun _ => true) (fun _ _ _ => T) (fun _ _ _ _ => T) (fun _ _ _ _ => T) (fun _ _ => F)
    witness_cfg witness_header /\
  verify unit (fun _ => true) (fun _ _ _ => T) (fun _ _ _ _ => T) (fun _ _ _ _ => T) (fun _ _ => F)
    witness_cfg witness_header = Err e_badslot.
Proof.
  split; [vm_compute; reflexivity|]. split; [|vm_compute; reflexivity].
  intros A. apply (accept_iff unit) in A; [|vm_compute; discriminate].
  revert A. vm_compute. discriminate.
Qed.
