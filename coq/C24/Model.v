(* C24/Model.v — BABE block verification and slot claiming (lib/babe/verify.go,
   lib/babe/epoch.go claimSlot, lib/babe/crypto.go claimPrimarySlot etc.), control flow only.
   Definitions only.

   Cryptography is abstract: the sr25519 / merlin / header-hash operations are Section
   variables, indexed by the authority whose public key is used:
     key_valid i            sr25519.NewPublicKey(authorities[i].Key) succeeds
     below i slot out       checkPrimaryThreshold(randomness, slot, epoch, out, threshold, pk_i)
     vrf_verify i slot o p  pk_i.VrfVerify(makeTranscript(randomness, slot, epoch), o, p)
     seal_verify i r dg s   pk_i.Verify(blake2b(scale(header r with digest dg)), s)
     equiv i slot           slotState.CheckEquivocation for the block (T: a proof is returned)
   each three-valued (T true / F false / E the primitive returns an error).
   getSecondarySlotAuthor is concrete (C25/Secondary.v, Gallina BLAKE2b).

   The model mirrors the REPAIRED code (fixes/C24-secondary-kind.patch): a secondary claim is
   accepted only when the epoch configuration names that kind.  [verify_prefix] is the pinned
   tree's behaviour (secondarySlots = SecondarySlots > 0 accepts either kind). *)
From Coq Require Import ZArith NArith List Bool.
From Common Require Import Bytes Outcome.
From C25 Require Import Secondary.
Import ListNotations.
Local Open Scope N_scope.

Inductive tri := T | F | E.

(* header digest items (dot/types/digest.go) *)
Inductive item :=
| PreRuntime (engine data : list byte)
| Consensus (engine data : list byte)
| Seal (engine data : list byte)
| RuntimeEnvUpdated.

(* BABE pre-digests (dot/types/babe_digest.go) *)
Inductive predigest :=
| Primary (idx slot : N) (out proof : list byte)
| SecPlain (idx slot : N)
| SecVRF (idx slot : N) (out proof : list byte).

Definition pd_idx (d : predigest) : N :=
  match d with Primary i _ _ _ => i | SecPlain i _ => i | SecVRF i _ _ _ => i end.
Definition pd_slot (d : predigest) : N :=
  match d with Primary _ s _ _ => s | SecPlain _ s => s | SecVRF _ s _ _ => s end.

(* SCALE form of the BabeDigest varying type: index byte 1/2/3, u32 LE authority index,
   u64 LE slot, [32]byte output, [64]byte proof.  Decoding is strict about missing bytes and
   ignores trailing ones.  (The pinned decoder zero-fills an integer field that is only partly
   present -- property C12's subject; the harness truncates at field boundaries only, where
   both behaviours fail.) *)
Definition take (k : nat) (l : list byte) : option (list byte * list byte) :=
  if (length l <? k)%nat then None else Some (firstn k l, skipn k l).

Definition decode_predigest (data : list byte) : option predigest :=
  match data with
  | [] => None
  | t :: r =>
    let tag := b2n t in
    if negb ((tag =? 1) || (tag =? 2) || (tag =? 3)) then None else
    match take 4 r with
    | None => None
    | Some (bi, r1) =>
      match take 8 r1 with
      | None => None
      | Some (bs, r2) =>
        let idx := le_val bi in
        let slot := le_val bs in
        if tag =? 2 then Some (SecPlain idx slot) else
        match take 32 r2 with
        | None => None
        | Some (out, r3) =>
          match take 64 r3 with
          | None => None
          | Some (prf, _) =>
            Some (if tag =? 1 then Primary idx slot out prf else SecVRF idx slot out prf)
          end
        end
      end
    end
  end.

Definition encode_predigest (d : predigest) : list byte :=
  match d with
  | Primary i s o p => n2b 1 :: le_bytes 4 i ++ le_bytes 8 s ++ o ++ p
  | SecPlain i s => n2b 2 :: le_bytes 4 i ++ le_bytes 8 s
  | SecVRF i s o p => n2b 3 :: le_bytes 4 i ++ le_bytes 8 s ++ o ++ p
  end.

(* error classes of VerifyBlock / verifyAuthorshipRight *)
Definition e_missing : nat := 1.      (* errMissingDigestItems *)
Definition e_nopre : nat := 2.        (* types.ErrNoFirstPreDigest *)
Definition e_noseal : nat := 3.       (* errLastDigestItemNotSeal *)
Definition e_decode : nat := 4.       (* DecodeBabePreDigest fails *)
Definition e_badidx : nat := 5.       (* ErrInvalidBlockProducerIndex *)
Definition e_over : nat := 6.         (* ErrVRFOutputOverThreshold *)
Definition e_badslot : nat := 7.      (* ErrBadSlotClaim *)
Definition e_badsec : nat := 8.       (* ErrBadSecondarySlotClaim *)
Definition e_badsig : nat := 9.       (* ErrBadSignature *)
Definition e_other : nat := 10.       (* an error of a cryptographic primitive *)
Definition e_equiv_err : nat := 11.   (* could not verify block equivocation *)
Definition e_equivocated : nat := 12. (* ErrProducerEquivocated *)

(* error classes of claimSlot *)
Definition c_notour : nat := 1.       (* errNotOurTurnToPropose *)
Definition c_tech : nat := 2.         (* errInvalidSlotTechnique *)
Definition c_other : nat := 3.

(* epoch configuration as the verifier sees it; [allowed] is ConfigData.SecondarySlots:
   0 primary only, 1 primary + secondary plain, 2 primary + secondary VRF *)
Record cfg := { n_auth : N; allowed : N; randomness : list byte }.

(* which secondary kinds a configuration allows *)
Definition plain_allowed (a : N) : bool := (0 <? a) && negb (a =? 2).
Definition vrf_allowed (a : N) : bool := (0 <? a) && negb (a =? 1).
Definition any_secondary (a : N) : bool := 0 <? a.   (* the pinned tree: SecondarySlots > 0 *)

(* the secondary slot author of a slot under a configuration (None: getSecondarySlotAuthor panics) *)
Definition secondary_slot_author_idx (c : cfg) (slot : N) : option N :=
  match secondary_slot_author slot (Z.of_N (n_auth c)) (randomness c) with Ok a => Some a | _ => None end.

(* guard of the finding secondary-kind-not-checked: the first digest item is a well-formed
   secondary claim of the kind the configuration does not name *)
Definition wrong_kind (c : cfg) (dg : list item) : bool :=
  match dg with
  | PreRuntime _ data :: _ =>
    match decode_predigest data with
    | Some (SecPlain _ _) => allowed c =? 2
    | Some (SecVRF _ _ _ _) => allowed c =? 1
    | _ => false
    end
  | _ => false
  end.

Section Verify.
  Variable R : Type.                      (* the header fields other than the digest *)
  Variable key_valid : N -> bool.
  Variable below : N -> N -> list byte -> tri.
  Variable vrf_verify : N -> N -> list byte -> list byte -> tri.
  Variable seal_verify : N -> R -> list item -> list byte -> tri.
  Variable equiv : N -> N -> tri.

  Record header := { h_rest : R; h_digest : list item }.

  Section Gen.
    Variable plain_ok vrf_ok : N -> bool.

    Definition author_is (c : cfg) (slot i : N) : bool :=
      match secondary_slot_author slot (Z.of_N (n_auth c)) (randomness c) with
      | Ok a => a =? i
      | _ => false
      end.

    (* verifier.verifyPreRuntimeDigest *)
    Definition verify_pre_gen (c : cfg) (data : list byte) : outcome predigest :=
      match decode_predigest data with
      | None => Err e_decode
      | Some d =>
        if n_auth c <=? pd_idx d then Err e_badidx else
        match d with
        | Primary i slot out prf =>
            (* verifyPrimarySlotWinner *)
            if negb (key_valid i) then Err e_other else
            match below i slot out with
            | E => Err e_other
            | F => Err e_over
            | T => match vrf_verify i slot out prf with
                   | E => Err e_other | F => Err e_badslot | T => Ok d
                   end
            end
        | SecVRF i slot out prf =>
            if negb (vrf_ok (allowed c)) then Err e_badslot else
            if negb (key_valid i) then Err e_other else
            (* verifySecondarySlotVRF *)
            if negb (author_is c slot i) then Err e_badsec else
            match vrf_verify i slot out prf with
            | E => Err e_other | F => Err e_badslot | T => Ok d
            end
        | SecPlain i slot =>
            if negb (plain_ok (allowed c)) then Err e_badslot else
            (* verifySecondarySlotPlain *)
            if negb (author_is c slot i) then Err e_badsec else Ok d
        end
      end.

    (* verifier.verifyAuthorshipRight (as reached from VerificationManager.VerifyBlock) *)
    Definition verify_gen (c : cfg) (h : header) : outcome unit :=
      let dg := h_digest h in
      if (length dg <? 2)%nat then Err e_missing else
      match hd RuntimeEnvUpdated dg with
      | PreRuntime _ data =>
        match last dg RuntimeEnvUpdated with
        | Seal _ sig =>
          match verify_pre_gen c data with
          | Ok d =>
            let i := pd_idx d in
            if negb (key_valid i) then Err e_other else          (* authority.FromRawSr25519 *)
            match seal_verify i (h_rest h) (removelast dg) sig with
            | E => Err e_other
            | F => Err e_badsig
            | T => match equiv i (pd_slot d) with
                   | E => Err e_equiv_err | T => Err e_equivocated | F => Ok tt
                   end
            end
          | Err e => Err e
          | Panic => Panic
          | OutOfFuel => OutOfFuel
          end
        | _ => Err e_noseal
        end
      | _ => Err e_nopre
      end.
  End Gen.

  Definition verify_pre := verify_pre_gen plain_allowed vrf_allowed.
  Definition verify := verify_gen plain_allowed vrf_allowed.
  (* the pinned tree before the fix *)
  Definition verify_prefix := verify_gen any_secondary any_secondary.

  (* ---- the specification (property C24): the author had the right to produce the block and
     sealed it.  [authorised_b] is the executable form the driver evaluates on the
     implementation's observables; C24/Proofs.v shows it equivalent to [authorised]. *)
  Definition right_to_produce (c : cfg) (d : predigest) : Prop :=
    match d with
    | Primary i s o p => below i s o = T /\ vrf_verify i s o p = T
    | SecPlain i s => allowed c = 1 /\ author_is c s i = true
    | SecVRF i s o p => allowed c = 2 /\ author_is c s i = true /\ vrf_verify i s o p = T
    end.

  Definition authorised (c : cfg) (h : header) : Prop :=
    exists eng data mid seng sig d,
      h_digest h = PreRuntime eng data :: mid ++ [Seal seng sig] /\
      decode_predigest data = Some d /\
      pd_idx d < n_auth c /\
      key_valid (pd_idx d) = true /\
      right_to_produce c d /\
      seal_verify (pd_idx d) (h_rest h) (PreRuntime eng data :: mid) sig = T /\
      equiv (pd_idx d) (pd_slot d) = F.

  Definition is_T (t : tri) : bool := match t with T => true | _ => false end.
  Definition is_F (t : tri) : bool := match t with F => true | _ => false end.

  Definition right_to_produce_b (c : cfg) (d : predigest) : bool :=
    match d with
    | Primary i s o p => is_T (below i s o) && is_T (vrf_verify i s o p)
    | SecPlain i s => (allowed c =? 1) && author_is c s i
    | SecVRF i s o p => (allowed c =? 2) && author_is c s i && is_T (vrf_verify i s o p)
    end.

  Definition authorised_b (c : cfg) (h : header) : bool :=
    match h_digest h with
    | PreRuntime _ data :: (_ :: _) as rest =>
      match last rest RuntimeEnvUpdated with
      | Seal _ sig =>
        match decode_predigest data with
        | Some d =>
          (pd_idx d <? n_auth c) && key_valid (pd_idx d) && right_to_produce_b c d &&
          is_T (seal_verify (pd_idx d) (h_rest h) (removelast (h_digest h)) sig) &&
          is_F (equiv (pd_idx d) (pd_slot d))
        | None => false
        end
      | _ => false
      end
    | _ => false
    end.

  (* ---- the claim side: claimSlot / claimPrimarySlot / claimSecondarySlotVRF / ...Plain.
     vrf_sign i slot k: the k-th VrfSign call of authority i's keypair on the slot's transcript *)
  Variable vrf_sign : N -> N -> N -> list byte * list byte.

  Definition claim_slot (c : cfg) (me slot : N) : outcome predigest :=
    let '(out, prf) := vrf_sign me slot 0 in
    match below me slot out with
    | E => Err c_other
    | T => Ok (Primary me slot out prf)
    | F =>
      if allowed c =? 0 then Err c_notour
      else if allowed c =? 2 then
        match secondary_slot_author slot (Z.of_N (n_auth c)) (randomness c) with
        | Ok a => if a =? me then let '(o, p) := vrf_sign me slot 1 in Ok (SecVRF me slot o p)
                  else Err c_notour
        | Err e => Err c_other | Panic => Panic | OutOfFuel => OutOfFuel
        end
      else if allowed c =? 1 then
        match secondary_slot_author slot (Z.of_N (n_auth c)) (randomness c) with
        | Ok a => if a =? me then Ok (SecPlain me slot) else Err c_notour
        | Err e => Err c_other | Panic => Panic | OutOfFuel => OutOfFuel
        end
      else Err c_tech
    end.
End Verify.

Arguments h_rest {R}.
Arguments h_digest {R}.
