(* C24/Manager.v -- VerificationManager (lib/babe/verify.go): VerifyBlock's choice of the epoch
   whose data governs the block, getVerifierInfo, and the manager's mutable state (the
   epochInfo cache and the onDisabled table written by SetOnDisabled).  Definitions only.

   The node's state is seen through the interfaces the manager calls; they are Section
   variables (the harness stubs them):
     parent h        blockState.GetHeader(h.ParentHash)               (None: error)
     is_genesis p    p.Hash() == blockState.GenesisHash()
     epoch_of h      epochState.GetEpochForBlock(h)                    (None: error)
     slot_dur_ok     epochState.GetSlotDuration() succeeds
     info d h        getVerifierInfo(d, h): GetEpochDataRaw + GetConfigData + CalculateThreshold
                     (None: one of them fails); K is the type of verifierInfo
     descendant a b  blockState.IsDescendantOf(a.Hash(), b.Hash())     (None: error)
     number h        h.Number
   and the sr25519 primitives of C24/Model.v are indexed by the verifierInfo whose authorities /
   randomness / threshold they use and by the epoch number that goes into the VRF transcript. *)
From Coq Require Import ZArith NArith List Bool.
From Common Require Import Bytes Outcome.
From C24 Require Import Model.
Import ListNotations.
Local Open Scope N_scope.

(* error classes of VerifyBlock before verifyAuthorshipRight is reached (those of
   verifyAuthorshipRight are 1..12, C24/Model.v) *)
Definition m_noparent : nat := 20.     (* getting header *)
Definition m_epoch : nat := 21.        (* getting epoch for block header *)
Definition m_parent_epoch : nat := 22. (* getting epoch for parent header *)
Definition m_epoch_lower : nat := 23.  (* errEpochLowerThanExpected *)
Definition m_slotdur : nat := 24.      (* getting current slot duration *)
Definition m_info : nat := 25.         (* getting verifier info *)

(* result classes of SetOnDisabled *)
Definition s_epoch : nat := 1.         (* GetEpochForBlock fails *)
Definition s_info : nat := 2.          (* getVerifierInfo fails *)
Definition s_badidx : nat := 3.        (* ErrInvalidBlockProducerIndex *)
Definition s_desc : nat := 4.          (* IsDescendantOf fails *)
Definition s_already : nat := 5.       (* ErrAuthorityAlreadyDisabled *)

Definition two64 : N := 18446744073709551616.
Definition two32 : N := 4294967296.

(* epochWhereDataDescriptorIs: the block's own epoch; when the parent is not the genesis block
   and epochs were skipped (the block's epoch is more than one past its parent's), the epoch after
   the parent's.  uint64 arithmetic: parentEpoch + 1 wraps. *)
Definition select_epoch (parent_is_genesis : bool) (parent_epoch : option N) (cur : N) : outcome N :=
  if parent_is_genesis then Ok cur else
  match parent_epoch with
  | None => Err m_parent_epoch
  | Some pe =>
    if cur <? pe then Err m_epoch_lower
    else if (pe + 1) mod two64 <? cur then Ok ((pe + 1) mod two64)
    else Ok cur
  end.

(* association lists standing for Go maps *)
Fixpoint aget {V : Type} (k : N) (l : list (N * V)) : option V :=
  match l with
  | [] => None
  | (k', v) :: r => if k' =? k then Some v else aget k r
  end.
Fixpoint aset {V : Type} (k : N) (v : V) (l : list (N * V)) : list (N * V) :=
  match l with
  | [] => [(k, v)]
  | (k', v') :: r => if k' =? k then (k, v) :: r else (k', v') :: aset k v r
  end.

Section Manager.
  Variable R : Type.
  Variable K : Type.
  Variable k_cfg : K -> cfg.
  Variable key_valid : K -> N -> bool.
  Variable below : K -> N -> N -> N -> list byte -> tri.                   (* info, epoch, i, slot, out *)
  Variable vrf_verify : K -> N -> N -> N -> list byte -> list byte -> tri. (* info, epoch, i, slot, out, proof *)
  Variable seal_verify : K -> N -> R -> list item -> list byte -> tri.
  Variable equiv : N -> N -> tri.                                          (* the slot state, not the info *)

  Variable parent : header R -> option (header R).
  Variable is_genesis : header R -> bool.
  Variable epoch_of : header R -> option N.
  Variable slot_dur_ok : bool.
  Variable info : N -> header R -> option K.
  Variable descendant : header R -> header R -> option bool.
  Variable number : header R -> N.

  (* the verification of one block under given verifier info k, transcript epoch e *)
  Definition verify_with (k : K) (e : N) (h : header R) : outcome unit :=
    verify R (key_valid k) (below k e) (vrf_verify k e) (seal_verify k) equiv (k_cfg k) h.

  (* the steps of VerifyBlock up to the choice of the data epoch *)
  Definition block_epochs (h : header R) : outcome (N * N) :=      (* (current epoch, data epoch) *)
    match parent h with
    | None => Err m_noparent
    | Some p =>
      match epoch_of h with
      | None => Err m_epoch
      | Some ce =>
        match select_epoch (is_genesis p) (if is_genesis p then None else epoch_of p) ce with
        | Ok d => Ok (ce, d)
        | Err e => Err e
        | Panic => Panic
        | OutOfFuel => OutOfFuel
        end
      end
    end.

  (* VerificationManager.VerifyBlock: a function of the header and of the node's state only *)
  Definition verify_block (h : header R) : outcome unit :=
    match block_epochs h with
    | Ok (ce, d) =>
      if negb slot_dur_ok then Err m_slotdur else
      match info d h with
      | None => Err m_info
      | Some k => verify_with k ce h
      end
    | Err e => Err e
    | Panic => Panic
    | OutOfFuel => OutOfFuel
    end.

  (* ---- the manager's mutable state *)
  Record mstate := {
    ms_info : list (N * K);                                    (* epochInfo *)
    ms_dis : list (N * list (N * list (N * header R)))         (* onDisabled: epoch -> index -> (number, block) *)
  }.
  Definition ms_init : mstate := {| ms_info := []; ms_dis := [] |}.

  (* the loop of SetOnDisabled over the blocks at which the producer was already disabled *)
  Fixpoint scan_disabled (infos : list (N * header R)) (h : header R) : option nat :=
    match infos with
    | [] => None
    | (num, blk) :: r =>
      match descendant blk h with
      | None => Some s_desc
      | Some d => if d && (num <=? number h) then Some s_already else scan_disabled r h
      end
    end.

  (* VerificationManager.SetOnDisabled(index, header) *)
  Definition set_on_disabled (st : mstate) (idx : N) (h : header R) : mstate * outcome unit :=
    match epoch_of h with
    | None => (st, Err s_epoch)
    | Some e =>
      let filled :=
        match aget e (ms_info st) with
        | Some k => Some (st, k)
        | None =>
          match info e h with
          | None => None
          | Some k => Some ({| ms_info := aset e k (ms_info st); ms_dis := ms_dis st |}, k)
          end
        end in
      match filled with
      | None => (st, Err s_info)
      | Some (st1, k) =>
        (* index >= uint32(len(authorities)) *)
        if n_auth (k_cfg k) mod two32 <=? idx then (st1, Err s_badidx) else
        let dis := match aget e (ms_dis st1) with Some m => m | None => [] end in
        match aget idx dis with
        | None =>
          ({| ms_info := ms_info st1; ms_dis := aset e (aset idx [(number h, h)] dis) (ms_dis st1) |}, Ok tt)
        | Some infos =>
          match scan_disabled infos h with
          | Some c => (st1, Err c)
          | None =>
            ({| ms_info := ms_info st1;
                ms_dis := aset e (aset idx (infos ++ [(number h, h)]) dis) (ms_dis st1) |}, Ok tt)
          end
        end
      end
    end.

  Inductive mop :=
  | OpVerify (h : header R)
  | OpDisable (idx : N) (h : header R).

  (* one call on the manager.  VerifyBlock reads neither epochInfo nor onDisabled (and writes
     nothing): it fetches the verifier info afresh for every block *)
  Definition mstep (st : mstate) (op : mop) : mstate * outcome unit :=
    match op with
    | OpVerify h => (st, verify_block h)
    | OpDisable idx h => set_on_disabled st idx h
    end.

  Fixpoint mrun (st : mstate) (ops : list mop) : mstate * list (outcome unit) :=
    match ops with
    | [] => (st, [])
    | op :: r =>
      let '(st1, res) := mstep st op in
      let '(st2, rs) := mrun st1 r in (st2, res :: rs)
    end.

  (* ---- a variant that is NOT the code: VerifyBlock answering from the epochInfo cache when it
     has an entry for the data epoch (the seeded defect seeded/C24-m2; upstream gossamer had this
     shape).  Used only to show that history independence is a real obligation. *)
  Definition verify_block_cached (st : mstate) (h : header R) : mstate * outcome unit :=
    match block_epochs h with
    | Ok (ce, d) =>
      if negb slot_dur_ok then (st, Err m_slotdur) else
      match aget d (ms_info st) with
      | Some k => (st, verify_with k ce h)
      | None =>
        match info d h with
        | None => (st, Err m_info)
        | Some k => ({| ms_info := aset d k (ms_info st); ms_dis := ms_dis st |}, verify_with k ce h)
        end
      end
    | Err e => (st, Err e)
    | Panic => (st, Panic)
    | OutOfFuel => (st, OutOfFuel)
    end.
  Definition mstep_cached (st : mstate) (op : mop) : mstate * outcome unit :=
    match op with
    | OpVerify h => verify_block_cached st h
    | OpDisable idx h => set_on_disabled st idx h
    end.
  Fixpoint mrun_cached (st : mstate) (ops : list mop) : mstate * list (outcome unit) :=
    match ops with
    | [] => (st, [])
    | op :: r =>
      let '(st1, res) := mstep_cached st op in
      let '(st2, rs) := mrun_cached st1 r in (st2, res :: rs)
    end.

  (* ---- specification: the block is authorised under the data of the epoch that governs it *)
  (* the data epoch in words: the block's epoch ce, except that a block whose parent (not the
     genesis block) lies in epoch pe with pe + 1 < ce is judged by the data announced for pe + 1 *)
  Definition governs (h : header R) (ce d : N) : Prop :=
    exists p, parent h = Some p /\ epoch_of h = Some ce /\
      (is_genesis p = true /\ d = ce \/
       is_genesis p = false /\ exists pe, epoch_of p = Some pe /\ pe <= ce /\
         d = (if (pe + 1) mod two64 <? ce then (pe + 1) mod two64 else ce)).

  Definition block_authorised (h : header R) : Prop :=
    exists ce d k, governs h ce d /\ slot_dur_ok = true /\ info d h = Some k /\
      authorised R (key_valid k) (below k ce) (vrf_verify k ce) (seal_verify k) equiv (k_cfg k) h.

  (* executable form of [block_authorised], evaluated by the driver on the implementation's
     observables (C24/ProofsManager.v: block_authorised_reflect) *)
  Definition block_authorised_b (h : header R) : bool :=
    match block_epochs h with
    | Ok (ce, d) =>
      slot_dur_ok &&
      match info d h with
      | Some k => authorised_b R (key_valid k) (below k ce) (vrf_verify k ce) (seal_verify k) equiv (k_cfg k) h
      | None => false
      end
    | _ => false
    end.
End Manager.

Arguments OpVerify {R}.
Arguments OpDisable {R}.
Arguments ms_info {R K}.
Arguments ms_dis {R K}.
