(* C24/ProofsManager.v -- lemmas about the VerificationManager model. *)
From Coq Require Import ZArith NArith List Bool Lia.
From Common Require Import Bytes Outcome.
From C25 Require Import Secondary.
From C24 Require Import Model Proofs Manager.
Import ListNotations.
Local Open Scope N_scope.

(* ------------------------------------------------------------------ the data epoch *)
Lemma select_epoch_genesis pe cur : select_epoch true pe cur = Ok cur.
Proof. reflexivity. Qed.

(* below the uint64 wrap: the data epoch is min(cur, parent epoch + 1), and a block whose epoch
   is lower than its parent's is refused *)
Lemma select_epoch_spec pe cur : pe + 1 < two64 ->
  select_epoch false (Some pe) cur =
    if cur <? pe then Err m_epoch_lower else Ok (N.min cur (pe + 1)).
Proof.
  intros H. unfold select_epoch. rewrite (N.mod_small (pe + 1)) by exact H.
  destruct (N.ltb_spec cur pe); [reflexivity|].
  destruct (N.ltb_spec (pe + 1) cur); f_equal; lia.
Qed.

Lemma data_epoch pe cur :
  select_epoch true pe cur = Ok cur /\
  (forall p, pe = Some p -> p + 1 < two64 ->
     select_epoch false pe cur = if cur <? p then Err m_epoch_lower else Ok (N.min cur (p + 1))).
Proof.
  split; [apply select_epoch_genesis|].
  intros p E H. subst pe. now apply select_epoch_spec.
Qed.

Section Manager.
  Variable R : Type.
  Variable K : Type.
  Variable k_cfg : K -> cfg.
  Variable key_valid : K -> N -> bool.
  Variable below : K -> N -> N -> N -> list byte -> tri.
  Variable vrf_verify : K -> N -> N -> N -> list byte -> list byte -> tri.
  Variable seal_verify : K -> N -> R -> list item -> list byte -> tri.
  Variable equiv : N -> N -> tri.
  Variable parent : header R -> option (header R).
  Variable is_genesis : header R -> bool.
  Variable epoch_of : header R -> option N.
  Variable slot_dur_ok : bool.
  Variable info : N -> header R -> option K.

  Notation verify_block :=
    (verify_block R K k_cfg key_valid below vrf_verify seal_verify equiv parent is_genesis epoch_of slot_dur_ok info).
  Notation block_epochs := (block_epochs R parent is_genesis epoch_of).
  Notation governs := (governs R parent is_genesis epoch_of).
  Notation block_authorised :=
    (block_authorised R K k_cfg key_valid below vrf_verify seal_verify equiv parent is_genesis epoch_of slot_dur_ok info).

  Lemma block_epochs_governs h ce d : block_epochs h = Ok (ce, d) <-> governs h ce d.
  Proof.
    unfold Manager.block_epochs, Manager.governs. split.
    - destruct (parent h) as [p|]; [|discriminate].
      destruct (epoch_of h) as [ce'|]; [|discriminate].
      destruct (is_genesis p) eqn:G.
      + cbn. intros E. inversion E; subst. exists p. repeat split; auto.
      + unfold select_epoch. destruct (epoch_of p) as [pe|] eqn:EP; [|discriminate].
        destruct (N.ltb_spec ce' pe) as [L|L]; [discriminate|].
        destruct ((pe + 1) mod two64 <? ce') eqn:Sk; intros E; inversion E; subst;
          exists p; repeat split; auto; right; split; auto; exists pe; repeat split; auto;
          rewrite Sk; reflexivity.
    - intros (p & Pp & Ec & [[G D]|[G (pe & Ep & L & D)]]); rewrite Pp, Ec, G.
      + subst d. reflexivity.
      + rewrite Ep. unfold select_epoch.
        destruct (N.ltb_spec ce pe) as [L'|L']; [lia|].
        subst d. destruct ((pe + 1) mod two64 <? ce); reflexivity.
  Qed.

  (* VerifyBlock succeeds iff the block is authorised under the data of the epoch that governs
     it, with the block's own epoch in the VRF transcripts *)
  Theorem verify_block_iff h :
    (forall d k, info d h = Some k -> allowed (k_cfg k) <= 2) ->
    (verify_block h = Ok tt <-> block_authorised h).
  Proof.
    intros Ha. unfold Manager.verify_block, Manager.block_authorised. split.
    - destruct (block_epochs h) as [[ce d]| | |] eqn:E; try discriminate.
      destruct slot_dur_ok eqn:S; cbn [negb]; [|discriminate].
      destruct (info d h) as [k|] eqn:I; [|discriminate].
      unfold verify_with. intros V.
      exists ce, d, k. repeat split; auto.
      + now apply block_epochs_governs.
      + apply (accept_iff R); [exact (Ha d k I)|exact V].
    - intros (ce & d & k & G & S & I & A).
      apply block_epochs_governs in G. rewrite G, S, I. cbn [negb]. unfold verify_with.
      apply (accept_iff R); [exact (Ha d k I)|exact A].
  Qed.

  Lemma block_authorised_reflect h :
    block_authorised_b R K k_cfg key_valid below vrf_verify seal_verify equiv parent is_genesis epoch_of
      slot_dur_ok info h = true <-> block_authorised h.
  Proof.
    unfold Manager.block_authorised_b, Manager.block_authorised. split.
    - destruct (block_epochs h) as [[ce d]| | |] eqn:E; try discriminate.
      rewrite andb_true_iff. intros [S A].
      destruct (info d h) as [k|] eqn:I; [|discriminate].
      exists ce, d, k. repeat split; auto.
      + now apply block_epochs_governs.
      + now apply (authorised_reflect R).
    - intros (ce & d & k & G & S & I & A).
      apply block_epochs_governs in G. rewrite G, S, I. cbn [andb].
      now apply (authorised_reflect R).
  Qed.

  Variable descendant : header R -> header R -> option bool.
  Variable number : header R -> N.
  Notation mstep :=
    (mstep R K k_cfg key_valid below vrf_verify seal_verify equiv parent is_genesis epoch_of slot_dur_ok info descendant number).
  Notation mrun :=
    (mrun R K k_cfg key_valid below vrf_verify seal_verify equiv parent is_genesis epoch_of slot_dur_ok info descendant number).
  Notation set_on_disabled := (set_on_disabled R K k_cfg epoch_of info descendant number).

  (* ---- history independence: whatever calls the manager served before, VerifyBlock answers
     verify_block h *)
  Lemma mstep_verify st h : snd (mstep st (OpVerify h)) = verify_block h.
  Proof. reflexivity. Qed.

  Lemma mrun_app st ops1 ops2 :
    mrun st (ops1 ++ ops2) =
      let '(st1, r1) := mrun st ops1 in let '(st2, r2) := mrun st1 ops2 in (st2, r1 ++ r2).
  Proof.
    revert st. induction ops1 as [|op r IH]; intros st; cbn [app Manager.mrun].
    - destruct (mrun st ops2). reflexivity.
    - destruct (mstep st op) as [st1 res]. rewrite IH.
      destruct (mrun st1 r) as [st2 rs]. destruct (mrun st2 ops2) as [st3 rs2]. reflexivity.
  Qed.

  Theorem history_independent (st : mstate R K) (before : list (mop R)) (h : header R) :
    snd (mrun st (before ++ [OpVerify h])) = snd (mrun st before) ++ [verify_block h].
  Proof.
    rewrite mrun_app. destruct (mrun st before) as [st1 r1]. cbn. reflexivity.
  Qed.

  (* every VerifyBlock of a history answers as the stateless function does *)
  Fixpoint verdicts_ok (ops : list (mop R)) (res : list (outcome unit)) : Prop :=
    match ops, res with
    | [], [] => True
    | OpVerify h :: ops', r :: res' => r = verify_block h /\ verdicts_ok ops' res'
    | OpDisable _ _ :: ops', _ :: res' => verdicts_ok ops' res'
    | _, _ => False
    end.

  Theorem history_verdicts st ops : verdicts_ok ops (snd (mrun st ops)).
  Proof.
    revert st. induction ops as [|op r IH]; intros st; cbn [Manager.mrun].
    - exact I.
    - destruct (mstep st op) as [st1 res] eqn:E. specialize (IH st1).
      destruct (mrun st1 r) as [st2 rs]. cbn [snd] in *.
      destruct op as [h|idx h]; cbn [verdicts_ok].
      + split; [|exact IH]. cbn in E. now inversion E.
      + exact IH.
  Qed.

  (* SetOnDisabled never fails to record a valid first disabling, and leaves the state alone
     when the epoch is unknown *)
  Lemma set_on_disabled_unknown_epoch st idx h : epoch_of h = None ->
    set_on_disabled st idx h = (st, Err s_epoch).
  Proof. intros E. unfold Manager.set_on_disabled. now rewrite E. Qed.
End Manager.

(* ------------------------------------------------------------------ the cached variant is refuted *)
(* Two forks announce different authority counts for the same epoch number: fork 0 has one
   authority, fork 1 has two.  After a block of fork 0 was verified, the cached variant judges a
   block of fork 1 claimed by authority 1 with fork 0's data (index out of range), the code's
   VerifyBlock (and the specification) accept it. *)
Definition w_cfg (fork : N) : cfg :=
  {| n_auth := fork + 1; allowed := 0; randomness := repeat Byte.x00 32 |}.
Definition w_header (fork idx : N) : header N :=
  {| h_rest := fork;
     h_digest := [PreRuntime [] (encode_predigest (Primary idx 5 (repeat Byte.x00 32) (repeat Byte.x00 64)));
                  Seal [] []] |}.
Definition w_parent (h : header N) : option (header N) := Some {| h_rest := h_rest h; h_digest := [] |}.

Section Witness.
  Let kv := fun (_ : cfg) (_ : N) => true.
  Let bl := fun (_ : cfg) (_ _ _ : N) (_ : list byte) => T.
  Let vv := fun (_ : cfg) (_ _ _ : N) (_ _ : list byte) => T.
  Let sv := fun (_ : cfg) (_ : N) (_ : N) (_ : list item) (_ : list byte) => T.
  Let eqv := fun _ _ : N => F.
  Let w_info := fun (_ : N) (h : header N) => Some (w_cfg (h_rest h)).
  Let desc := fun _ _ : header N => Some false.
  Let num := fun _ : header N => 1.

  Lemma cached_refuted :
    let ops := [OpVerify (w_header 0 0); OpVerify (w_header 1 1)] in
    snd (mrun N cfg (fun k => k) kv bl vv sv eqv w_parent (fun _ => true) (fun _ => Some 3) true w_info desc num
           (ms_init N cfg) ops) = [Ok tt; Ok tt] /\
    snd (mrun_cached N cfg (fun k => k) kv bl vv sv eqv w_parent (fun _ => true) (fun _ => Some 3) true w_info desc num
           (ms_init N cfg) ops) = [Ok tt; Err e_badidx] /\
    verify_block N cfg (fun k => k) kv bl vv sv eqv w_parent (fun _ => true) (fun _ => Some 3) true w_info
      (w_header 1 1) = Ok tt.
  Proof. vm_compute. repeat split; reflexivity. Qed.

  (* non-vacuity of the data epoch: parent in epoch 3, block in epoch 7 -> the data of epoch 4;
     block in epoch 4 or 3 -> its own epoch; block in epoch 2 -> refused; genesis parent -> own *)
  Lemma select_epoch_examples :
    select_epoch false (Some 3) 7 = Ok 4 /\ select_epoch false (Some 3) 4 = Ok 4 /\
    select_epoch false (Some 3) 3 = Ok 3 /\ select_epoch false (Some 3) 2 = Err m_epoch_lower /\
    select_epoch true None 7 = Ok 7 /\ select_epoch false None 7 = Err m_parent_epoch /\
    (* the uint64 wrap of parentEpoch + 1 *)
    select_epoch false (Some 18446744073709551615) 18446744073709551615 = Ok 0.
  Proof. vm_compute. repeat split; reflexivity. Qed.
End Witness.
