(* Scale/Codec.v — executable model of pkg/scale's encoder (encode.go) and decoder (decode.go),
   definitions only.  The decoder runs in a small state monad whose state is the COST METER:
     + n  for every make([]byte, n) / reflect buffer the Go code allocates for input data
     + 1  for every call of decodeState.unmarshal
   Go panics are explicit (outcome Panic); loops over a decoded count run on fuel
   S (length input) and report OutOfFuel when it is exhausted (excluded by a theorem for
   well-formed types).

   The record [cfg] selects, per defect found on the pinned tree, the pinned behaviour (false)
   or the behaviour after the proposed fix (true):
     fix_read    the fixed-size reads use io.ReadFull and decodeUint rejects an unsupported
                 big-mode length before reading (fixes/C12-short-read.patch); pinned: a short
                 read of the underlying bytes.Buffer is accepted, the buffer stays zero-filled
     fix_big     decodeBigInt rejects non-canonical compact forms (fixes/C12-bigint-canonical.patch)
     fix_map     decodeMap allocates a nil destination map (fixes/C12-map-nil.patch);
                 pinned: panics "assignment to entry in nil map" on the first entry
   and three repairs that are NOT proposed as patches (recorded as findings, because existing
   tests of gossamer pin the defective behaviour, or the semantics is not ours to choose):
     fix_bytes   decodeBytes would allocate while it reads, at most 4 KiB ahead, and fail on
                 truncated input; pinned and current: make([]byte, declared length) first, then
                 one short read, the missing bytes stay zero (finding C12 bytes-overrun;
                 dot/rpc/modules TestSystemModule_AccountNextIndex pins it)
     fix_uint57  decodeUint would accept the 5..7-byte big mode that encodeUint emits (pkg/scale's
                 own Test_decodeState_decodeUint pins the rejection: finding C11 uint-5to7)
     strict_map  decodeMap would reject keys that are not strictly ascending (finding C12
                 map-noncanonical)
   [current] = the tree with the proposed patches applied: what the checks compare the Go
   code with; [pinned] = the pinned tree, kept for the _refuted witnesses; [ideal] = all six:
   the decoder for which the properties hold without exception. *)
From Common Require Import Bytes Outcome.
From Scale Require Import Compact Types.
Local Open Scope N_scope.

Record cfg := { fix_read : bool; fix_big : bool; fix_bytes : bool; fix_map : bool;
                fix_uint57 : bool; strict_map : bool }.
Definition current : cfg := {| fix_read := true; fix_big := true; fix_bytes := false; fix_map := true;
                               fix_uint57 := false; strict_map := false |}.
Definition pinned : cfg := {| fix_read := false; fix_big := false; fix_bytes := false; fix_map := false;
                              fix_uint57 := false; strict_map := false |}.
Definition ideal : cfg := {| fix_read := true; fix_big := true; fix_bytes := true; fix_map := true;
                             fix_uint57 := true; strict_map := true |}.

(* ------------------------------------------------------------------ encoder *)

(* two's complement pattern of z in k bytes: Go's uintN(i) conversion *)
Definition wrap (bytes : nat) (z : Z) : N := Z.to_N (z mod 2 ^ (8 * Z.of_nat bytes)).
(* intN(u) conversion *)
Definition signed (bytes : nat) (u : N) : Z :=
  if u <? 2 ^ (8 * N.of_nat bytes - 1) then Z.of_N u else (Z.of_N u - 2 ^ (8 * Z.of_nat bytes))%Z.

(* encodeUint: for numBytes = 0; numBytes < 256 && m != 0; numBytes++ { m = m >> 8 } *)
Fixpoint num_bytes_loop (fuel : nat) (m cnt : N) : N :=
  match fuel with
  | O => cnt
  | S f => if m =? 0 then cnt else num_bytes_loop f (N.shiftr m 8) (cnt + 1)
  end.
Definition go_num_bytes (i : N) : N := num_bytes_loop 256 i 0.

Definition go_encode_uint (i : N) : list byte :=
  if i <? 64 then [n2b (N.shiftl i 2)]
  else if i <? 16384 then le_bytes 2 (N.shiftl i 2 + 1)
  else if i <? 1073741824 then le_bytes 4 (N.shiftl i 2 + 2)
  else let nb := go_num_bytes i in
       n2b (N.shiftl (nb - 4) 2 + 3) :: firstn (N.to_nat nb) (le_bytes 8 i).

(* big.Int.Bytes(): minimal big-endian magnitude *)
Definition go_big_bytes (n : N) : list byte :=
  strip_leading_zeros (be_bytes (N.to_nat (N.size n)) n).

Definition go_encode_big (n : N) : list byte :=
  if n <? 64 then [n2b (N.shiftl n 2)]
  else if n <? 16384 then le_bytes 2 (N.shiftl n 2 + 1)
  else if n <? 1073741824 then le_bytes 4 (N.shiftl n 2 + 2)
  else let b := go_big_bytes n in
       n2b (N.shiftl (N.of_nat (length b) - 4) 2 + 3) :: rev b.

(* encodeUint128: padBytes(i.Bytes(), LittleEndian); Bytes() trims the trailing zeros *)
Definition go_encode_u128 (n : N) : list byte :=
  pad_back 16 (strip_trailing_zeros
                 (le_bytes 8 (N.land n 18446744073709551615) ++ le_bytes 8 (N.shiftr n 64))).

Fixpoint encode (t : ty) (v : value) {struct v} : list byte :=
  match v, t with
  | VN n, TU8 => le_bytes 1 n
  | VN n, TU16 => le_bytes 2 n
  | VN n, TU32 => le_bytes 4 n
  | VN n, TU64 => le_bytes 8 n
  | VN n, TU128 => go_encode_u128 n
  | VN n, TUint => go_encode_uint n
  | VN n, TBig => go_encode_big n
  | VZ z, TI8 => le_bytes 1 (wrap 1 z)
  | VZ z, TI16 => le_bytes 2 (wrap 2 z)
  | VZ z, TI32 => le_bytes 4 (wrap 4 z)
  | VZ z, TI64 => le_bytes 8 (wrap 8 z)
  | VZ z, TInt => go_encode_uint (wrap 8 z)
  | VBool b, TBool => [if b then Byte.x01 else Byte.x00]
  | VBytes l, TBytes => go_encode_uint (N.of_nat (length l)) ++ l
  | VBytes l, TStr => go_encode_uint (N.of_nat (length l)) ++ l
  | VNone, TOption _ => [Byte.x00]
  | VSome v', TOption t' => Byte.x01 :: encode t' v'
  | VOk v', TResult a _ => Byte.x00 :: encode a v'
  | VErr v', TResult _ b => Byte.x01 :: encode b v'
  | VEnum i v', TEnum alts =>
      match alt_lookup alts i with
      | Some t' => n2b i :: encode t' v'
      | None => []
      end
  | VList vs, TArray _ t' => encode_all t' vs
  | VList vs, TSlice t' => go_encode_uint (N.of_nat (vals_len vs)) ++ encode_all t' vs
  | VList vs, TStruct fs => encode_fields fs vs
  | VMap kvs, TMap kt vt => go_encode_uint (N.of_nat (kvals_len kvs)) ++ encode_kvs kt vt kvs
  | _, _ => []
  end
with encode_all (t : ty) (vs : vals) {struct vs} : list byte :=
  match vs with
  | VNil => []
  | VCons v r => encode t v ++ encode_all t r
  end
with encode_fields (fs : tys) (vs : vals) {struct vs} : list byte :=
  match vs, fs with
  | VCons v r, TCons _ t fr => encode t v ++ encode_fields fr r
  | _, _ => []
  end
with encode_kvs (kt vt : ty) (kvs : kvals) {struct kvs} : list byte :=
  match kvs with
  | KNil => []
  | KCons k v r => encode kt k ++ encode vt v ++ encode_kvs kt vt r
  end.

(* The encoder of the tree.  marshal() asks whether its argument implements
   EncodeVaryingDataType before it looks at pointers; a non-nil pointer to a varying data type
   (Option::Some of an enum) has the value-receiver methods of its element, so it is encoded as
   the bare enum, WITHOUT the 0x01 option byte (pkg/scale's own tests pin that pointers to varying
   data types encode as the value: finding C11 some-enum).  [encode] above is the encoder with
   that repaired; [encode_go] is what Marshal does; they agree outside the guard [some_enum]. *)
Fixpoint encode_go (t : ty) (v : value) {struct v} : list byte :=
  match v, t with
  | VSome v', TOption t' =>
      match t' with
      | TEnum _ => encode_go t' v'
      | _ => Byte.x01 :: encode_go t' v'
      end
  | VOk v', TResult a _ => Byte.x00 :: encode_go a v'
  | VErr v', TResult _ b => Byte.x01 :: encode_go b v'
  | VEnum i v', TEnum alts =>
      match alt_lookup alts i with
      | Some t' => n2b i :: encode_go t' v'
      | None => []
      end
  | VList vs, TArray _ t' => encode_go_all t' vs
  | VList vs, TSlice t' => go_encode_uint (N.of_nat (vals_len vs)) ++ encode_go_all t' vs
  | VList vs, TStruct fs => encode_go_fields fs vs
  | VMap kvs, TMap kt vt => go_encode_uint (N.of_nat (kvals_len kvs)) ++ encode_go_kvs kt vt kvs
  | _, _ => encode t v
  end
with encode_go_all (t : ty) (vs : vals) {struct vs} : list byte :=
  match vs with
  | VNil => []
  | VCons v r => encode_go t v ++ encode_go_all t r
  end
with encode_go_fields (fs : tys) (vs : vals) {struct vs} : list byte :=
  match vs, fs with
  | VCons v r, TCons _ t fr => encode_go t v ++ encode_go_fields fr r
  | _, _ => []
  end
with encode_go_kvs (kt vt : ty) (kvs : kvals) {struct kvs} : list byte :=
  match kvs with
  | KNil => []
  | KCons k v r => encode_go kt k ++ encode_go vt v ++ encode_go_kvs kt vt r
  end.

Definition is_enum (t : ty) : bool := match t with TEnum _ => true | _ => false end.
(* guard of finding C11 some-enum: the value contains Some(x) at an option-of-enum type *)
Fixpoint some_enum (t : ty) (v : value) {struct v} : bool :=
  match v, t with
  | VSome v', TOption t' => is_enum t' || some_enum t' v'
  | VOk v', TResult a _ => some_enum a v'
  | VErr v', TResult _ b => some_enum b v'
  | VEnum i v', TEnum alts => match alt_lookup alts i with Some t' => some_enum t' v' | None => false end
  | VList vs, TArray _ t' => some_enum_all t' vs
  | VList vs, TSlice t' => some_enum_all t' vs
  | VList vs, TStruct fs => some_enum_fields fs vs
  | VMap kvs, TMap kt vt => some_enum_kvs kt vt kvs
  | _, _ => false
  end
with some_enum_all (t : ty) (vs : vals) {struct vs} : bool :=
  match vs with VNil => false | VCons v r => some_enum t v || some_enum_all t r end
with some_enum_fields (fs : tys) (vs : vals) {struct vs} : bool :=
  match vs, fs with
  | VCons v r, TCons _ t fr => some_enum t v || some_enum_fields fr r
  | _, _ => false
  end
with some_enum_kvs (kt vt : ty) (kvs : kvals) {struct kvs} : bool :=
  match kvs with
  | KNil => false
  | KCons k v r => some_enum kt k || some_enum vt v || some_enum_kvs kt vt r
  end.

(* guard of finding C11 uint-5to7: the value contains a Go uint / int (compact) component whose
   64-bit pattern needs 5, 6 or 7 bytes (or a sequence / map of that many elements) — encodeUint emits a big-mode length decodeUint rejects *)
Definition uint57 (n : N) : bool := (4294967296 <=? n) && (n <? 72057594037927936).
Fixpoint has_uint57 (t : ty) (v : value) {struct v} : bool :=
  match v, t with
  | VN n, TUint => uint57 n
  | VZ z, TInt => uint57 (wrap 8 z)
  | VSome v', TOption t' => has_uint57 t' v'
  | VOk v', TResult a _ => has_uint57 a v'
  | VErr v', TResult _ b => has_uint57 b v'
  | VEnum i v', TEnum alts => match alt_lookup alts i with Some t' => has_uint57 t' v' | None => false end
  | VList vs, TArray _ t' => has_uint57_all t' vs
  | VList vs, TSlice t' => uint57 (N.of_nat (vals_len vs)) || has_uint57_all t' vs
  | VList vs, TStruct fs => has_uint57_fields fs vs
  | VMap kvs, TMap kt vt => uint57 (N.of_nat (kvals_len kvs)) || has_uint57_kvs kt vt kvs
  | _, _ => false
  end
with has_uint57_all (t : ty) (vs : vals) {struct vs} : bool :=
  match vs with VNil => false | VCons v r => has_uint57 t v || has_uint57_all t r end
with has_uint57_fields (fs : tys) (vs : vals) {struct vs} : bool :=
  match vs, fs with
  | VCons v r, TCons _ t fr => has_uint57 t v || has_uint57_fields fr r
  | _, _ => false
  end
with has_uint57_kvs (kt vt : ty) (kvs : kvals) {struct kvs} : bool :=
  match kvs with
  | KNil => false
  | KCons k v r => has_uint57 kt k || has_uint57 vt v || has_uint57_kvs kt vt r
  end.

(* ------------------------------------------------------------------ decoder monad *)

Definition M (A : Type) : Type := N -> outcome A * N.
Definition ret {A} (a : A) : M A := fun m => (Ok a, m).
Definition fail {A} : M A := fun m => (Err 1%nat, m).
Definition panic {A} : M A := fun m => (Panic, m).
Definition nofuel {A} : M A := fun m => (OutOfFuel, m).
Definition bind {A B} (x : M A) (f : A -> M B) : M B :=
  fun m => match x m with
           | (Ok a, m') => f a m'
           | (Err c, m') => (Err c, m')
           | (Panic, m') => (Panic, m')
           | (OutOfFuel, m') => (OutOfFuel, m')
           end.
Definition tick (k : N) : M unit := fun m => (Ok tt, m + k).
Definition lift {A} (o : option A) : M A := match o with Some a => ret a | None => fail end.

Declare Scope m_scope.
Delimit Scope m_scope with M.
Notation "x <- a ;; b" := (bind a (fun x => b)) (at level 61, a at next level, right associativity) : m_scope.
Notation "' pat <- a ;; b" := (bind a (fun x => match x with pat => b end))
  (at level 61, pat pattern, a at next level, right associativity) : m_scope.
Notation "a ;;; b" := (bind a (fun _ => b)) (at level 61, right associativity) : m_scope.
Local Open Scope m_scope.

(* ------------------------------------------------------------------ reading *)

(* bytes.Buffer.Read into a k-byte buffer: (buffer contents, rest); None = io.EOF *)
Definition read_short (k : nat) (bs : list byte) : option (list byte * list byte) :=
  match k, bs with
  | O, _ => Some ([], bs)
  | _, [] => None
  | _, _ => Some (pad_back k (firstn k bs), skipn k bs)
  end.
(* io.ReadFull: exactly k bytes or an error.  Same function as Compact.take (lemma
   read_exact_take in MonadLemmas.v), written without measuring the whole input first *)
Fixpoint read_exact (k : nat) (bs : list byte) : option (list byte * list byte) :=
  match k with
  | O => Some ([], bs)
  | S k' => match bs with
            | [] => None
            | x :: r => match read_exact k' r with
                        | Some (a, r') => Some (x :: a, r')
                        | None => None
                        end
            end
  end.

(* decodeState.ReadByte: b := make([]byte, 1); ds.Reader.Read(b) *)
Definition read_byte (bs : list byte) : M (byte * list byte) :=
  tick 1 ;;; match bs with [] => fail | b :: r => ret (b, r) end.

(* buf := make([]byte, k); ds.Read(buf) *)
Definition read (c : cfg) (k : nat) (bs : list byte) : M (list byte * list byte) :=
  tick (N.of_nat k) ;;; lift (if fix_read c then read_exact k bs else read_short k bs).

(* most significant byte of a little-endian buffer is non-zero: buf[len-1] != 0 *)
Definition top_nonzero (l : list byte) : bool := negb (b2n (last l Byte.x00) =? 0).

(* decodeUint into a Go uint (64 bit) *)
Definition dec_uint (c : cfg) (bs : list byte) : M (N * list byte) :=
  '(b0, r) <- read_byte bs ;;
  let p := b2n b0 in
  let mode := p mod 4 in
  if mode =? 0 then ret (N.shiftr p 2, r)
  else if mode =? 1 then
    '(b1, r') <- read_byte r ;;
    let v := N.shiftr (p + 256 * b2n b1) 2 in
    if (v <=? 63) || (32767 <? v) then fail else ret (v, r')
  else if mode =? 2 then
    '(x, r') <- read c 3 r ;;
    let v := N.shiftr (p + 256 * le_val x) 2 in
    if (v <=? 16383) || (1073741823 <? v) then fail else ret (v, r')
  else
    let k := N.shiftr p 2 + 4 in
    let supported := (k =? 4) || (k =? 8) || (fix_uint57 c && (5 <=? k) && (k <=? 7)) in
    if fix_read c && negb supported then fail        (* rejected before allocating / reading *)
    else
    '(x, r') <- read c (N.to_nat k) r ;;
    if k =? 4 then
      let v := le_val x in if v <=? 1073741823 then fail else ret (v, r')
    else if k =? 8 then
      let v := le_val x in if v <=? 72057594037927935 then fail else ret (v, r')
    else if supported then
      let v := le_val x in if top_nonzero x then ret (v, r') else fail
    else fail.

(* decodeBigInt (with decodeSmallInt) *)
Definition dec_big (c : cfg) (bs : list byte) : M (N * list byte) :=
  '(b0, r) <- read_byte bs ;;
  let p := b2n b0 in
  let mode := N.land p 3 in
  if mode =? 0 then ret (N.shiftr p 2, r)
  else if mode =? 1 then
    '(b1, r') <- read_byte r ;;
    let v := N.shiftr (p + 256 * b2n b1) 2 in
    if fix_big c && (v <=? 63) then fail else ret (v, r')
  else if mode =? 2 then
    '(x, r') <- read c 3 r ;;
    let v := N.shiftr (p + 256 * le_val x) 2 in
    if fix_big c && (v <=? 16383) then fail else ret (v, r')
  else
    let k := N.shiftr p 2 + 4 in
    '(x, r') <- read c (N.to_nat k) r ;;
    (* o := reverseBytes(buf); big.NewInt(0).SetBytes(o) *)
    let v := be_val (rev x) in
    if fix_big c && (negb (top_nonzero x) || (v <=? 1073741823)) then fail else ret (v, r').

(* the repaired decodeBytes: b := make(min(length, 4096)); ReadFull; while read < length
   { nb := make(read + min(length-read, read)); copy; ReadFull the new part }.
   [avail] bytes are available; returns unit (the data is firstn length of the input). *)
Definition max_prealloc : N := 4096.
Fixpoint read_chunks (fuel : nat) (len rd avail : N) : M unit :=
  if rd =? len then ret tt
  else match fuel with
       | O => nofuel
       | S f => let g := N.min (len - rd) rd in
                tick (rd + g) ;;;
                if avail <? rd + g then fail else read_chunks f len (rd + g) avail
       end.

Definition dec_bytes (c : cfg) (bs : list byte) : M (list byte * list byte) :=
  '(len, r) <- dec_uint c bs ;;
  if 4294967295 <? len then fail
  else if fix_bytes c then
    let avail := N.of_nat (length r) in
    let c0 := N.min len max_prealloc in
    tick c0 ;;;
    if avail <? c0 then fail
    else read_chunks 64 len c0 avail ;;;
         ret (firstn (N.to_nat len) r, skipn (N.to_nat len) r)
  else
    tick len ;;;                                     (* b := make([]byte, length) *)
    if len =? 0 then ret ([], r)
    else lift (read_short (N.to_nat len) r).         (* one ds.Read(b), short reads accepted *)

(* ------------------------------------------------------------------ maps *)

Fixpoint map_insert (k v : value) (m : kvals) : kvals :=
  match m with
  | KNil => KCons k v KNil
  | KCons k' v' r =>
      match key_n k, key_n k' with
      | Some a, Some b => if a <? b then KCons k v m
                          else if a =? b then KCons k v r
                          else KCons k' v' (map_insert k v r)
      | _, _ => KCons k' v' (map_insert k v r)
      end
  end.
(* dstv.SetMapIndex for every decoded entry, in input order *)
Fixpoint map_norm (raw acc : kvals) : kvals :=
  match raw with KNil => acc | KCons k v r => map_norm r (map_insert k v acc) end.

(* ------------------------------------------------------------------ decoder *)

Definition bool_of_byte (b : byte) : option bool :=
  if b2n b =? 0 then Some false else if b2n b =? 1 then Some true else None.

(* element loops, parameterised by the element decoder *)
Section Loops.
  Variable dec : list byte -> M (value * list byte).
  (* decodeArray: exactly n elements *)
  Fixpoint dec_array (n : nat) (bs : list byte) {struct n} : M (vals * list byte) :=
    match n with
    | O => ret (VNil, bs)
    | S n' => '(v, r) <- dec bs ;; '(vs, r') <- dec_array n' r ;; ret (VCons v vs, r')
    end.
  (* decodeSlice: for i := uint(0); i < l; i++ { unmarshal(elem); append } *)
  Fixpoint dec_loop (fuel : nat) (cnt : N) (bs : list byte) {struct fuel} : M (vals * list byte) :=
    if cnt =? 0 then ret (VNil, bs)
    else match fuel with
         | O => nofuel
         | S f => '(v, r) <- dec bs ;; '(vs, r') <- dec_loop f (cnt - 1) r ;; ret (VCons v vs, r')
         end.
End Loops.
Section MapLoop.
  Variable c : cfg.
  Variables deck decv : list byte -> M (value * list byte).
  (* decodeMap: key, value, dstv.SetMapIndex.  [lo] = previous key, used by strict_map only *)
  Fixpoint dec_map_loop (fuel : nat) (cnt : N) (lo : option N) (bs : list byte) {struct fuel}
    : M (kvals * list byte) :=
    if cnt =? 0 then ret (KNil, bs)
    else match fuel with
         | O => nofuel
         | S f => '(k, r1) <- deck bs ;; '(v, r2) <- decv r1 ;;
                  if negb (fix_map c) then panic     (* SetMapIndex on the nil destination map *)
                  else if strict_map c && negb (key_above lo k) then fail
                  else '(kvs, r') <- dec_map_loop f (cnt - 1) (key_n k) r2 ;; ret (KCons k v kvs, r')
         end.
End MapLoop.

Fixpoint decode (c : cfg) (t : ty) (bs : list byte) {struct t} : M (value * list byte) :=
  tick 1 ;;;
  match t with
  | TU8 => '(b, r) <- read_byte bs ;; ret (VN (b2n b), r)
  | TU16 => '(x, r) <- read c 2 bs ;; ret (VN (le_val x), r)
  | TU32 => '(x, r) <- read c 4 bs ;; ret (VN (le_val x), r)
  | TU64 => '(x, r) <- read c 8 bs ;; ret (VN (le_val x), r)
  | TI8 => '(b, r) <- read_byte bs ;; ret (VZ (signed 1 (b2n b)), r)
  | TI16 => '(x, r) <- read c 2 bs ;; ret (VZ (signed 2 (le_val x)), r)
  | TI32 => '(x, r) <- read c 4 bs ;; ret (VZ (signed 4 (le_val x)), r)
  | TI64 => '(x, r) <- read c 8 bs ;; ret (VZ (signed 8 (le_val x)), r)
  | TUint => '(n, r) <- dec_uint c bs ;; ret (VN n, r)
  | TInt => '(n, r) <- dec_uint c bs ;; ret (VZ (signed 8 n), r)
  | TBig => '(n, r) <- dec_big c bs ;; ret (VN n, r)
  | TU128 =>
      (* binary.Read = io.ReadFull on every tree; NewUint128(buf): Lower = LE(buf[:8]), Upper = LE(buf[8:]) *)
      tick 16 ;;;
      '(x, r) <- lift (read_exact 16 bs) ;;
      ret (VN (le_val (firstn 8 x) + 18446744073709551616 * le_val (skipn 8 x)), r)
  | TBool => '(b, r) <- read_byte bs ;;
             match bool_of_byte b with Some v => ret (VBool v, r) | None => fail end
  | TBytes => '(l, r) <- dec_bytes c bs ;; ret (VBytes l, r)
  | TStr => '(l, r) <- dec_bytes c bs ;; ret (VBytes l, r)
  | TOption t' =>
      '(b, r) <- read_byte bs ;;
      match bool_of_byte b with
      | Some false => ret (VNone, r)
      | Some true => '(v, r') <- decode c t' r ;; ret (VSome v, r')
      | None => fail
      end
  | TResult a b =>
      '(x, r) <- read_byte bs ;;
      match bool_of_byte x with
      | Some false => '(v, r') <- decode c a r ;; ret (VOk v, r')
      | Some true => '(v, r') <- decode c b r ;; ret (VErr v, r')
      | None => fail
      end
  | TEnum alts => '(b, r) <- read_byte bs ;; decode_alt c alts (b2n b) r
  | TArray n t' => '(vs, r) <- dec_array (decode c t') n bs ;; ret (VList vs, r)
  | TSlice t' =>
      '(cnt, r) <- dec_uint c bs ;;
      '(vs, r') <- dec_loop (decode c t') (S (length r)) cnt r ;; ret (VList vs, r')
  | TMap kt vt =>
      '(cnt, r) <- dec_uint c bs ;;
      '(raw, r') <- dec_map_loop c (decode c kt) (decode c vt) (S (length r)) cnt None r ;;
      ret (VMap (map_norm raw KNil), r')
  | TStruct fs => '(vs, r) <- decode_fields c fs bs ;; ret (VList vs, r)
  end
with decode_fields (c : cfg) (fs : tys) (bs : list byte) {struct fs} : M (vals * list byte) :=
  match fs with
  | TNil => ret (VNil, bs)
  | TCons _ t r => '(v, bs1) <- decode c t bs ;; '(vs, bs2) <- decode_fields c r bs1 ;;
                   ret (VCons v vs, bs2)
  end
with decode_alt (c : cfg) (alts : tys) (i : N) (bs : list byte) {struct alts} : M (value * list byte) :=
  match alts with
  | TNil => fail                                   (* vdt.ValueAt(index) error *)
  | TCons (Some j) t r =>
      if j =? i then '(v, r') <- decode c t bs ;; ret (VEnum i v, r') else decode_alt c r i bs
  | TCons None _ r => decode_alt c r i bs
  end.

(* entry points *)
Definition run_decode (c : cfg) (t : ty) (bs : list byte) : outcome (value * list byte) * N :=
  decode c t bs 0.
Definition decode_res (c : cfg) (t : ty) (bs : list byte) : outcome (value * list byte) :=
  fst (run_decode c t bs).
Definition decode_cost (c : cfg) (t : ty) (bs : list byte) : N := snd (run_decode c t bs).
