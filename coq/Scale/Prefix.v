(* Scale/Prefix.v — whatever the strict decoder accepts is a canonical encoding:
     fix_read c, fix_big c, fix_bytes c, strict_map c ->
     decode c t bs m = (Ok (v, r), m') -> wf_ty t ->
     has_type v t = true /\ bs = spec_encode t v ++ r
   (so truncated and non-canonical inputs are rejected, and the consumed prefix is exactly the
   canonical encoding of the returned value). *)
From Coq Require Import ZifyN ZifyNat ZifyBool.
From Common Require Import Bytes Outcome.
From Scale Require Import Compact CompactProofs BytesLemmas Types Spec Codec EncodeProofs MonadLemmas LeafProofs RoundTrip.
Local Open Scope N_scope.
Local Open Scope m_scope.
Ltac Zify.zify_post_hook ::= Z.div_mod_to_equations.

Lemma signed_in_z_1 u : u < 256 -> in_z 8 (signed 1 u) = true /\ twos 1 (signed 1 u) = u.
Proof.
  intro H. unfold in_z, signed, twos. change (2 ^ (8 - 1))%Z with 128%Z. change (2 ^ (8 * Z.of_nat 1))%Z with 256%Z.
  change (2 ^ (8 * N.of_nat 1 - 1)) with 128. destruct (N.ltb_spec u 128); split; lia.
Qed.
Lemma signed_in_z_2 u : u < 65536 -> in_z 16 (signed 2 u) = true /\ twos 2 (signed 2 u) = u.
Proof.
  intro H. unfold in_z, signed, twos. change (2 ^ (16 - 1))%Z with 32768%Z. change (2 ^ (8 * Z.of_nat 2))%Z with 65536%Z.
  change (2 ^ (8 * N.of_nat 2 - 1)) with 32768. destruct (N.ltb_spec u 32768); split; lia.
Qed.
Lemma signed_in_z_4 u : u < 4294967296 -> in_z 32 (signed 4 u) = true /\ twos 4 (signed 4 u) = u.
Proof.
  intro H. unfold in_z, signed, twos. change (2 ^ (32 - 1))%Z with 2147483648%Z.
  change (2 ^ (8 * Z.of_nat 4))%Z with 4294967296%Z.
  change (2 ^ (8 * N.of_nat 4 - 1)) with 2147483648. destruct (N.ltb_spec u 2147483648); split; lia.
Qed.
Lemma signed_in_z_8 u : u < 18446744073709551616 ->
  in_z 64 (signed 8 u) = true /\ twos 8 (signed 8 u) = u.
Proof.
  intro H. unfold in_z, signed, twos. change (2 ^ (64 - 1))%Z with 9223372036854775808%Z.
  change (2 ^ (8 * Z.of_nat 8))%Z with 18446744073709551616%Z.
  change (2 ^ (8 * N.of_nat 8 - 1)) with 9223372036854775808.
  destruct (N.ltb_spec u 9223372036854775808); split; lia.
Qed.

Lemma bool_of_byte_some b v : bool_of_byte b = Some v -> b = (if v then Byte.x01 else Byte.x00).
Proof.
  unfold bool_of_byte. destruct (N.eqb_spec (b2n b) 0) as [E|E].
  - intro H; injection H as <-. apply b2n_inj. rewrite E. reflexivity.
  - destruct (N.eqb_spec (b2n b) 1) as [E1|E1]; [|discriminate].
    intro H; injection H as <-. apply b2n_inj. rewrite E1. reflexivity.
Qed.

Section Prefix.
Variable c : cfg.
Hypothesis Hread : fix_read c = true.
Hypothesis Hbig : fix_big c = true.
Hypothesis Hbytes : fix_bytes c = true.
Hypothesis Hstrict : strict_map c = true.

Definition pf_ty (t : ty) : Prop :=
  forall bs m v r m', decode c t bs m = (Ok (v, r), m') -> wf_ty t = true ->
    has_type v t = true /\ bs = spec_encode t v ++ r.
Definition pf_tys (fs : tys) : Prop :=
  (forall bs m vs r m', decode_fields c fs bs m = (Ok (vs, r), m') -> wf_tys fs = true ->
     has_types vs fs = true /\ bs = spec_encode_fields fs vs ++ r) /\
  (forall i bs m v r m', decode_alt c fs i bs m = (Ok (v, r), m') -> wf_tys fs = true ->
     exists t v', alt_lookup fs i = Some t /\ v = VEnum i v' /\ has_type v' t = true /\
                  bs = spec_encode t v' ++ r).

Lemma fixed_pf k bs m x r m' :
  read c k bs m = (Ok (x, r), m') -> bs = le_bytes k (le_val x) ++ r /\ le_val x < 256 ^ N.of_nat k.
Proof.
  intro H. apply (read_ok c _ _ _ _ _ _ Hread) in H as [-> L]. split.
  - rewrite <- L, le_bytes_le_val. reflexivity.
  - rewrite <- L. apply le_val_lt.
Qed.

Lemma array_pf t : pf_ty t -> wf_ty t = true -> forall n bs m vs r m',
  dec_array (decode c t) n bs m = (Ok (vs, r), m') ->
  all_type vs t = true /\ vals_len vs = n /\ bs = spec_encode_all t vs ++ r.
Proof.
  intros IH W. induction n as [|n IHn]; intros bs m vs r m' H; cbn [dec_array] in H.
  - apply ret_ok in H as [H _]. injection H as <- <-. now repeat split.
  - apply bind_ok in H as ([v r1] & m1 & D & H). apply bind_ok in H as ([vs' r2] & m2 & D2 & H).
    apply ret_ok in H as [H _]. injection H as <- <-.
    apply IH in D as [T ->]; try assumption. apply IHn in D2 as (T2 & L2 & ->).
    cbn [all_type vals_len spec_encode_all]. rewrite T, T2, L2, app_assoc. now repeat split.
Qed.

Lemma loop_pf t : pf_ty t -> wf_ty t = true -> forall fuel cnt bs m vs r m',
  dec_loop (decode c t) fuel cnt bs m = (Ok (vs, r), m') ->
  all_type vs t = true /\ N.of_nat (vals_len vs) = cnt /\ bs = spec_encode_all t vs ++ r.
Proof.
  intros IH W. induction fuel as [|f IHf]; intros cnt bs m vs r m' H; cbn [dec_loop] in H;
    destruct (N.eqb_spec cnt 0) as [E|E].
  - apply ret_ok in H as [H _]. injection H as <- <-. subst. now repeat split.
  - discriminate.
  - apply ret_ok in H as [H _]. injection H as <- <-. subst. now repeat split.
  - apply bind_ok in H as ([v r1] & m1 & D & H). apply bind_ok in H as ([vs' r2] & m2 & D2 & H).
    apply ret_ok in H as [H _]. injection H as <- <-.
    apply IH in D as [T ->]; try assumption. apply IHf in D2 as (T2 & L2 & ->).
    cbn [all_type vals_len spec_encode_all]. rewrite T, T2, app_assoc. repeat split. lia.
Qed.

Lemma map_loop_pf kt vt : pf_ty kt -> pf_ty vt -> wf_ty kt = true -> wf_ty vt = true ->
  forall fuel cnt lo bs m kvs r m',
  dec_map_loop c (decode c kt) (decode c vt) fuel cnt lo bs m = (Ok (kvs, r), m') ->
  kv_type kvs kt vt lo = true /\ N.of_nat (kvals_len kvs) = cnt /\ bs = spec_encode_kvs kt vt kvs ++ r.
Proof.
  intros IHk IHv Wk Wv. induction fuel as [|f IHf]; intros cnt lo bs m kvs r m' H; cbn [dec_map_loop] in H;
    destruct (N.eqb_spec cnt 0) as [E|E].
  - apply ret_ok in H as [H _]. injection H as <- <-. subst. now repeat split.
  - discriminate.
  - apply ret_ok in H as [H _]. injection H as <- <-. subst. now repeat split.
  - apply bind_ok in H as ([k r1] & m1 & D & H). apply bind_ok in H as ([v r2] & m2 & D2 & H).
    destruct (fix_map c); cbn [negb] in H; [|discriminate].
    rewrite Hstrict in H. cbn [andb] in H. destruct (key_above lo k) eqn:KA; cbn [negb] in H; [|discriminate].
    apply bind_ok in H as ([kvs' r3] & m3 & D3 & H).
    apply ret_ok in H as [H _]. injection H as <- <-.
    apply IHk in D as [T ->]; try assumption. apply IHv in D2 as [T2 ->]; try assumption.
    apply IHf in D3 as (T3 & L3 & ->).
    cbn [kv_type kvals_len spec_encode_kvs]. rewrite T, T2, T3, KA, <- !app_assoc. repeat split. lia.
Qed.

Lemma pf_all : forall t, pf_ty t.
Proof.
  apply (ty_mut pf_ty pf_tys); unfold pf_ty, pf_tys.
  - (* TU8 *) intros bs m v r m' H _. cbn [decode] in H. apply tick_seq_ok in H.
    apply bind_ok in H as ([b r1] & m1 & R & H). apply read_byte_ok in R as ->.
    apply ret_ok in H as [H _]. injection H as <- <-. cbn [has_type spec_encode le_bytes app].
    rewrite n2b_b2n. split; [apply N.ltb_lt, b2n_lt|reflexivity].
  - (* TU16 *) intros bs m v r m' H _. cbn [decode] in H. apply tick_seq_ok in H.
    apply bind_ok in H as ([x r1] & m1 & R & H). apply fixed_pf in R as [-> L].
    apply ret_ok in H as [H _]. injection H as <- <-. split; [apply N.ltb_lt; exact L|reflexivity].
  - (* TU32 *) intros bs m v r m' H _. cbn [decode] in H. apply tick_seq_ok in H.
    apply bind_ok in H as ([x r1] & m1 & R & H). apply fixed_pf in R as [-> L].
    apply ret_ok in H as [H _]. injection H as <- <-. split; [apply N.ltb_lt; exact L|reflexivity].
  - (* TU64 *) intros bs m v r m' H _. cbn [decode] in H. apply tick_seq_ok in H.
    apply bind_ok in H as ([x r1] & m1 & R & H). apply fixed_pf in R as [-> L].
    apply ret_ok in H as [H _]. injection H as <- <-. split; [apply N.ltb_lt; exact L|reflexivity].
  - (* TI8 *) intros bs m v r m' H _. cbn [decode] in H. apply tick_seq_ok in H.
    apply bind_ok in H as ([b r1] & m1 & R & H). apply read_byte_ok in R as ->.
    apply ret_ok in H as [H _]. injection H as <- <-. cbn [has_type spec_encode].
    destruct (signed_in_z_1 (b2n b) (b2n_lt b)) as [A B]. rewrite A, B. cbn [le_bytes app].
    rewrite n2b_b2n. now split.
  - (* TI16 *) intros bs m v r m' H _. cbn [decode] in H. apply tick_seq_ok in H.
    apply bind_ok in H as ([x r1] & m1 & R & H). apply fixed_pf in R as [-> L].
    apply ret_ok in H as [H _]. injection H as <- <-. cbn [has_type spec_encode].
    destruct (signed_in_z_2 (le_val x) L) as [A B]. rewrite A, B. now split.
  - (* TI32 *) intros bs m v r m' H _. cbn [decode] in H. apply tick_seq_ok in H.
    apply bind_ok in H as ([x r1] & m1 & R & H). apply fixed_pf in R as [-> L].
    apply ret_ok in H as [H _]. injection H as <- <-. cbn [has_type spec_encode].
    destruct (signed_in_z_4 (le_val x) L) as [A B]. rewrite A, B. now split.
  - (* TI64 *) intros bs m v r m' H _. cbn [decode] in H. apply tick_seq_ok in H.
    apply bind_ok in H as ([x r1] & m1 & R & H). apply fixed_pf in R as [-> L].
    apply ret_ok in H as [H _]. injection H as <- <-. cbn [has_type spec_encode].
    destruct (signed_in_z_8 (le_val x) L) as [A B]. rewrite A, B. now split.
  - (* TUint *) intros bs m v r m' H _. cbn [decode] in H. apply tick_seq_ok in H.
    apply bind_ok in H as ([n r1] & m1 & R & H). apply (dec_uint_sound c _ _ _ _ _ Hread) in R as [R L].
    apply compact_encode_decode in R as [-> _].
    apply ret_ok in H as [H _]. injection H as <- <-. split; [now apply N.ltb_lt|reflexivity].
  - (* TInt *) intros bs m v r m' H _. cbn [decode] in H. apply tick_seq_ok in H.
    apply bind_ok in H as ([n r1] & m1 & R & H). apply (dec_uint_sound c _ _ _ _ _ Hread) in R as [R L].
    apply compact_encode_decode in R as [-> _].
    apply ret_ok in H as [H _]. injection H as <- <-. cbn [has_type spec_encode].
    destruct (signed_in_z_8 n L) as [A B]. rewrite A, B. now split.
  - (* TBig *) intros bs m v r m' H _. cbn [decode] in H. apply tick_seq_ok in H.
    apply bind_ok in H as ([n r1] & m1 & R & H). apply (dec_big_sound c _ _ _ _ _ Hread Hbig) in R.
    apply compact_encode_decode in R as [-> L].
    apply ret_ok in H as [H _]. injection H as <- <-. split; [now apply N.ltb_lt|reflexivity].
  - (* TU128 *) intros bs m v r m' H _. cbn [decode] in H. apply tick_seq_ok in H. apply tick_seq_ok in H.
    apply bind_ok in H as ([x r1] & m1 & R & H). apply lift_ok in R as [R _].
    rewrite read_exact_take in R. apply take_spec in R as [-> L]. rewrite le_val_split8 in H by exact L.
    apply ret_ok in H as [H _]. injection H as <- <-.
    cbn [has_type spec_encode]. split.
    + apply N.ltb_lt. pose proof (le_val_lt x) as U. rewrite L in U. exact U.
    + rewrite <- L, le_bytes_le_val. reflexivity.
  - (* TBool *) intros bs m v r m' H _. cbn [decode] in H. apply tick_seq_ok in H.
    apply bind_ok in H as ([b r1] & m1 & R & H). apply read_byte_ok in R as ->.
    destruct (bool_of_byte b) as [x|] eqn:B; [|discriminate].
    apply ret_ok in H as [H _]. injection H as <- <-. apply bool_of_byte_some in B as ->. now split.
  - (* TBytes *) intros bs m v r m' H _. cbn [decode] in H. apply tick_seq_ok in H.
    apply bind_ok in H as ([l r1] & m1 & R & H). apply (dec_bytes_sound c _ _ _ _ _ Hread Hbytes) in R as [-> L].
    apply ret_ok in H as [H _]. injection H as <- <-. cbn [has_type spec_encode]. unfold spec_seq_prefix.
    rewrite <- app_assoc. split; [now apply N.ltb_lt|reflexivity].
  - (* TStr *) intros bs m v r m' H _. cbn [decode] in H. apply tick_seq_ok in H.
    apply bind_ok in H as ([l r1] & m1 & R & H). apply (dec_bytes_sound c _ _ _ _ _ Hread Hbytes) in R as [-> L].
    apply ret_ok in H as [H _]. injection H as <- <-. cbn [has_type spec_encode]. unfold spec_seq_prefix.
    rewrite <- app_assoc. split; [now apply N.ltb_lt|reflexivity].
  - (* TOption *) intros t IH bs m v r m' H W. cbn [decode wf_ty] in *. apply tick_seq_ok in H.
    apply bind_ok in H as ([b r1] & m1 & R & H). apply read_byte_ok in R as ->.
    destruct (bool_of_byte b) as [[|]|] eqn:B; [| |discriminate]; apply bool_of_byte_some in B as ->.
    + apply bind_ok in H as ([v1 r2] & m2 & D & H). apply IH in D as [T ->]; try assumption.
      apply ret_ok in H as [H _]. injection H as <- <-. now split.
    + apply ret_ok in H as [H _]. injection H as <- <-. now split.
  - (* TResult *) intros a IHa b IHb bs m v r m' H W. cbn [decode wf_ty] in *. apply andb_prop in W as [W1 W2].
    apply tick_seq_ok in H.
    apply bind_ok in H as ([x r1] & m1 & R & H). apply read_byte_ok in R as ->.
    destruct (bool_of_byte x) as [[|]|] eqn:B; [| |discriminate]; apply bool_of_byte_some in B as ->.
    + apply bind_ok in H as ([v1 r2] & m2 & D & H). apply IHb in D as [T ->]; try assumption.
      apply ret_ok in H as [H _]. injection H as <- <-. now split.
    + apply bind_ok in H as ([v1 r2] & m2 & D & H). apply IHa in D as [T ->]; try assumption.
      apply ret_ok in H as [H _]. injection H as <- <-. now split.
  - (* TEnum *) intros alts [_ IHalt] bs m v r m' H W. cbn [decode wf_ty] in *. apply andb_prop in W as [W1 W2].
    apply tick_seq_ok in H.
    apply bind_ok in H as ([b r1] & m1 & R & H). apply read_byte_ok in R as ->.
    apply IHalt in H as (t & v' & AL & -> & T & ->); try assumption.
    cbn [has_type spec_encode]. rewrite AL, n2b_b2n. now split.
  - (* TArray *) intros n t IH bs m v r m' H W. cbn [decode wf_ty] in *. apply tick_seq_ok in H.
    apply bind_ok in H as ([vs r1] & m1 & D & H). apply (array_pf t IH W) in D as (T & L & ->).
    apply ret_ok in H as [H _]. injection H as <- <-. cbn [has_type spec_encode].
    rewrite T, L, Nat.eqb_refl. now split.
  - (* TSlice *) intros t IH bs m v r m' H W. cbn [decode wf_ty] in *. apply andb_prop in W as [W1 W2].
    apply tick_seq_ok in H.
    apply bind_ok in H as ([cnt r1] & m1 & R & H). apply (dec_uint_sound c _ _ _ _ _ Hread) in R as [R L].
    apply compact_encode_decode in R as [-> _].
    apply bind_ok in H as ([vs r2] & m2 & D & H). apply (loop_pf t IH W1) in D as (T & LL & ->).
    apply ret_ok in H as [H _]. injection H as <- <-. cbn [has_type spec_encode]. unfold spec_seq_prefix.
    rewrite T, LL, <- app_assoc. split; [|reflexivity]. cbn [andb]. now apply N.ltb_lt.
  - (* TMap *) intros kt IHk vt IHv bs m v r m' H W. cbn [decode wf_ty] in *. apply andb_prop in W as [W1 W2].
    assert (Wk : wf_ty kt = true) by (destruct kt; try discriminate W1; reflexivity).
    apply tick_seq_ok in H.
    apply bind_ok in H as ([cnt r1] & m1 & R & H). apply (dec_uint_sound c _ _ _ _ _ Hread) in R as [R L].
    apply compact_encode_decode in R as [-> _].
    apply bind_ok in H as ([raw r2] & m2 & D & H).
    apply (map_loop_pf kt vt IHk IHv Wk W2) in D as (T & LL & ->).
    apply ret_ok in H as [H _]. injection H as <- <-. rewrite (map_norm_id raw kt vt T).
    cbn [has_type spec_encode]. unfold spec_seq_prefix.
    rewrite T, LL, <- app_assoc. split; [|reflexivity]. cbn [andb]. now apply N.ltb_lt.
  - (* TStruct *) intros fs [IHf _] bs m v r m' H W. cbn [decode wf_ty] in *. apply tick_seq_ok in H.
    apply bind_ok in H as ([vs r1] & m1 & D & H). apply IHf in D as [T ->]; try assumption.
    apply ret_ok in H as [H _]. injection H as <- <-. now split.
  - (* TNil *) split.
    + intros bs m vs r m' H _. cbn [decode_fields] in H. apply ret_ok in H as [H _]. injection H as <- <-. now split.
    + intros i bs m v r m' H _. discriminate.
  - (* TCons *) intros tag t IHt fr [IHf IHa]. split.
    + intros bs m vs r m' H W. cbn [decode_fields wf_tys] in *. apply andb_prop in W as [W1 W2].
      apply bind_ok in H as ([v r1] & m1 & D & H). apply bind_ok in H as ([vs' r2] & m2 & D2 & H).
      apply ret_ok in H as [H _]. injection H as <- <-.
      apply IHt in D as [T ->]; try assumption. apply IHf in D2 as [T2 ->]; try assumption.
      cbn [has_types spec_encode_fields]. rewrite T, T2, app_assoc. now split.
    + intros i bs m v r m' H W. cbn [decode_alt wf_tys alt_lookup] in *. apply andb_prop in W as [W1 W2].
      destruct tag as [j|]; [|now apply IHa in H].
      destruct (N.eqb_spec j i) as [E|E]; [|now apply IHa in H].
      apply bind_ok in H as ([v1 r1] & m1 & D & H). apply IHt in D as [T ->]; try assumption.
      apply ret_ok in H as [H _]. injection H as <- <-. exists t, v1. now repeat split.
Qed.

Theorem decode_prefix t bs m v r m' :
  wf_ty t = true -> decode c t bs m = (Ok (v, r), m') ->
  has_type v t = true /\ bs = spec_encode t v ++ r.
Proof. intros W H. eapply pf_all; eassumption. Qed.

End Prefix.
