(* Scale/RoundTrip.v — decoding an encoding gives back the value and the rest of the input:
     wf_ty t -> has_type v t -> (fix_uint57 c \/ no 5..7-byte uint in v) -> fix_map c ->
     decode c t (encode t v ++ r) = Ok (v, r)           (for every meter)
   for every cfg c (the pinned reading defects do not matter on well-formed input). *)
From Coq Require Import ZifyN ZifyNat ZifyBool.
From Common Require Import Bytes Outcome.
From Scale Require Import Compact CompactProofs BytesLemmas Types Spec Codec EncodeProofs MonadLemmas LeafProofs.
Local Open Scope N_scope.
Local Open Scope m_scope.
Ltac Zify.zify_post_hook ::= Z.div_mod_to_equations.

(* ---- encodings are at least min_size long *)
Lemma compact_encode_len1 n : (1 <= length (compact_encode n))%nat.
Proof. pose proof (compact_encode_nonempty n). destruct (compact_encode n); [contradiction|cbn; lia]. Qed.

Definition ms_value (v : value) : Prop :=
  forall t, has_type v t = true -> (min_size t <= length (spec_encode t v))%nat.
Definition ms_vals (vs : vals) : Prop :=
  (forall t, all_type vs t = true -> (vals_len vs * min_size t <= length (spec_encode_all t vs))%nat) /\
  (forall fs, has_types vs fs = true -> (min_sizes fs <= length (spec_encode_fields fs vs))%nat).
Definition ms_kvals (kvs : kvals) : Prop :=
  forall kt vt lo, kv_type kvs kt vt lo = true -> is_ukey kt = true ->
    (kvals_len kvs <= length (spec_encode_kvs kt vt kvs))%nat.

Lemma ms_all : forall v, ms_value v.
Proof.
  apply (value_mut ms_value ms_vals ms_kvals); unfold ms_value, ms_vals, ms_kvals.
  - intros n t H. destruct t; try discriminate H; cbn [spec_encode min_size];
      rewrite ?le_bytes_length; try lia; apply compact_encode_len1.
  - intros z t H. destruct t; try discriminate H; cbn [spec_encode min_size];
      rewrite ?le_bytes_length; try lia; apply compact_encode_len1.
  - intros b t H. destruct t; try discriminate H. cbn. lia.
  - intros l t H. destruct t; try discriminate H; cbn [spec_encode min_size]; rewrite app_length;
      unfold spec_seq_prefix; pose proof (compact_encode_len1 (N.of_nat (length l))); lia.
  - intros t H. destruct t; try discriminate H. cbn. lia.
  - intros v _ t H. destruct t; try discriminate H. cbn. lia.
  - intros v _ t H. destruct t; try discriminate H. cbn. lia.
  - intros v _ t H. destruct t; try discriminate H. cbn. lia.
  - intros i v _ t H. destruct t; try discriminate H. cbn [spec_encode min_size has_type] in *.
    destruct (alt_lookup alts i); [cbn; lia|discriminate].
  - intros vs [IHa IHf] t H. destruct t; try discriminate H; cbn [spec_encode min_size has_type] in *.
    + apply andb_prop in H as [H L]. apply Nat.eqb_eq in L. subst n. now apply IHa.
    + rewrite app_length. unfold spec_seq_prefix.
      pose proof (compact_encode_len1 (N.of_nat (vals_len vs))). lia.
    + now apply IHf.
  - intros kvs _ t H. destruct t; try discriminate H; cbn [spec_encode min_size].
    rewrite app_length. unfold spec_seq_prefix. pose proof (compact_encode_len1 (N.of_nat (kvals_len kvs))). lia.
  - split; intros; cbn; try lia. destruct fs; [cbn; lia|discriminate].
  - intros v IHv r [IHa IHf]. split.
    + intros t H. cbn [all_type vals_len spec_encode_all] in *. apply andb_prop in H as [H1 H2].
      rewrite app_length. specialize (IHv t H1). specialize (IHa t H2). lia.
    + intros fs H. destruct fs as [|tag t fr]; [discriminate|].
      cbn [has_types min_sizes spec_encode_fields] in *. apply andb_prop in H as [H1 H2].
      rewrite app_length. specialize (IHv t H1). specialize (IHf fr H2). lia.
  - intros; cbn; lia.
  - intros k IHk v _ r IHr kt vt lo H U. cbn [kv_type kvals_len spec_encode_kvs] in *.
    apply andb_prop in H as [H H4]. apply andb_prop in H as [H H3]. apply andb_prop in H as [H1 H2].
    rewrite !app_length. specialize (IHk kt H1). specialize (IHr kt vt _ H4 U).
    assert (1 <= min_size kt)%nat by (destruct kt; try discriminate U; cbn; lia). lia.
Qed.

Lemma ms_vals_all : forall vs, ms_vals vs.
Proof.
  induction vs as [|v vs IH]; unfold ms_vals in *.
  - split; intros; cbn; try lia. destruct fs; [cbn; lia|discriminate].
  - destruct IH as [IHa IHf]. split.
    + intros t H. cbn [all_type vals_len spec_encode_all] in *. apply andb_prop in H as [H1 H2].
      rewrite app_length. pose proof (ms_all v t H1). specialize (IHa t H2). lia.
    + intros fs H. destruct fs as [|tag t fr]; [discriminate|].
      cbn [has_types min_sizes spec_encode_fields] in *. apply andb_prop in H as [H1 H2].
      rewrite app_length. pose proof (ms_all v t H1). specialize (IHf fr H2). lia.
Qed.
Lemma ms_kvals_all : forall kvs, ms_kvals kvs.
Proof.
  induction kvs as [|k v r IHr]; unfold ms_kvals in *; [intros; cbn; lia|].
  intros kt vt lo H U. cbn [kv_type kvals_len spec_encode_kvs] in *.
  apply andb_prop in H as [H H4]. apply andb_prop in H as [H H3]. apply andb_prop in H as [H1 H2].
  rewrite !app_length. pose proof (ms_all k kt H1). specialize (IHr kt vt _ H4 U).
  assert (1 <= min_size kt)%nat by (destruct kt; try discriminate U; cbn; lia). lia.
Qed.

Lemma enc_min_size t v : has_type v t = true -> (min_size t <= length (encode t v))%nat.
Proof. intro H. rewrite encode_canonical by assumption. now apply ms_all. Qed.

(* ---- small facts *)
Lemma signed_wrap_1 z : in_z 8 z = true -> signed 1 (wrap 1 z) = z.
Proof.
  unfold in_z, signed, wrap. change (2 ^ (8 - 1))%Z with 128%Z. change (2 ^ (8 * Z.of_nat 1))%Z with 256%Z.
  change (2 ^ (8 * N.of_nat 1 - 1)) with 128. intro H.
  destruct (N.ltb_spec (Z.to_N (z mod 256)) 128); lia.
Qed.
Lemma signed_wrap_2 z : in_z 16 z = true -> signed 2 (wrap 2 z) = z.
Proof.
  unfold in_z, signed, wrap. change (2 ^ (16 - 1))%Z with 32768%Z. change (2 ^ (8 * Z.of_nat 2))%Z with 65536%Z.
  change (2 ^ (8 * N.of_nat 2 - 1)) with 32768. intro H.
  destruct (N.ltb_spec (Z.to_N (z mod 65536)) 32768); lia.
Qed.
Lemma signed_wrap_4 z : in_z 32 z = true -> signed 4 (wrap 4 z) = z.
Proof.
  unfold in_z, signed, wrap. change (2 ^ (32 - 1))%Z with 2147483648%Z. change (2 ^ (8 * Z.of_nat 4))%Z with 4294967296%Z.
  change (2 ^ (8 * N.of_nat 4 - 1)) with 2147483648. intro H.
  destruct (N.ltb_spec (Z.to_N (z mod 4294967296)) 2147483648); lia.
Qed.
Lemma signed_wrap_8 z : in_z 64 z = true -> signed 8 (wrap 8 z) = z.
Proof.
  unfold in_z, signed, wrap. change (2 ^ (64 - 1))%Z with 9223372036854775808%Z.
  change (2 ^ (8 * Z.of_nat 8))%Z with 18446744073709551616%Z.
  change (2 ^ (8 * N.of_nat 8 - 1)) with 9223372036854775808. intro H.
  destruct (N.ltb_spec (Z.to_N (z mod 18446744073709551616)) 9223372036854775808); lia.
Qed.

Lemma wrap_lt k z : wrap k z < 256 ^ N.of_nat k.
Proof.
  unfold wrap.
  assert (0 <= z mod 2 ^ (8 * Z.of_nat k) < 2 ^ (8 * Z.of_nat k))%Z as B
    by (apply Z.mod_pos_bound; apply Z.pow_pos_nonneg; lia).
  rewrite pow256. apply N2Z.inj_lt. rewrite Z2N.id by lia. rewrite N2Z.inj_pow.
  replace (Z.of_N (8 * N.of_nat k)) with (8 * Z.of_nat k)%Z by lia. apply B.
Qed.

Lemma le_val_split8 (x : list byte) :
  length x = 16%nat -> le_val (firstn 8 x) + 18446744073709551616 * le_val (skipn 8 x) = le_val x.
Proof.
  intro L. rewrite <- (firstn_skipn 8 x) at 3. rewrite le_val_app.
  rewrite firstn_length_le by lia. reflexivity.
Qed.

Lemma decode_alt_lookup c alts i t bs :
  alt_lookup alts i = Some t ->
  decode_alt c alts i bs = ('(v, r') <- decode c t bs ;; ret (VEnum i v, r')).
Proof.
  induction alts as [|tag t0 r IH]; [discriminate|].
  cbn [alt_lookup decode_alt]. destruct tag as [j|]; [|exact IH].
  destruct (N.eqb_spec j i) as [E|E]; [|exact IH]. intro H. now injection H as ->.
Qed.

Lemma alt_lookup_lt alts i t : alt_tags_ok alts = true -> alt_lookup alts i = Some t -> i < 256.
Proof.
  induction alts as [|tag t0 r IH]; [discriminate|]. cbn [alt_tags_ok alt_lookup].
  destruct tag as [j|]; [|discriminate]. intros H L.
  apply andb_prop in H as [H H3]. apply andb_prop in H as [H1 H2].
  destruct (N.eqb_spec j i) as [E|E]; [subst; now apply N.ltb_lt|]. now apply IH.
Qed.

Lemma alt_lookup_wf alts i t : wf_tys alts = true -> alt_lookup alts i = Some t -> wf_ty t = true.
Proof.
  induction alts as [|tag t0 r IH]; [discriminate|]. cbn [wf_tys alt_lookup].
  intros H L. apply andb_prop in H as [H1 H2]. destruct tag as [j|]; [|now apply IH].
  destruct (N.eqb_spec j i) as [E|E]; [now injection L as <-|now apply IH].
Qed.

(* ---- maps: inserting strictly ascending keys appends *)
Fixpoint kv_snoc (m : kvals) (k v : value) : kvals :=
  match m with KNil => KCons k v KNil | KCons k' v' r => KCons k' v' (kv_snoc r k v) end.
Fixpoint kv_app (a b : kvals) : kvals :=
  match a with KNil => b | KCons k v r => KCons k v (kv_app r b) end.
Fixpoint keys_le (m : kvals) (n : N) : Prop :=
  match m with KNil => True | KCons k _ r => (exists a, k = VN a /\ a <= n) /\ keys_le r n end.

Lemma map_insert_above m n v b : keys_le m b -> b < n -> map_insert (VN n) v m = kv_snoc m (VN n) v.
Proof.
  induction m as [|k' v' r IH]; intros K L; [reflexivity|].
  cbn [keys_le] in K. destruct K as [(a & -> & A) K]. cbn [map_insert key_n kv_snoc].
  destruct (N.ltb_spec n a); [lia|]. destruct (N.eqb_spec n a); [lia|]. now rewrite IH.
Qed.

Lemma keys_le_snoc m n v b : keys_le m b -> b <= n -> keys_le (kv_snoc m (VN n) v) n.
Proof.
  induction m as [|k' v' r IH]; intros K L; cbn [kv_snoc keys_le].
  - split; [exists n; split; [reflexivity|lia]|exact I].
  - cbn [keys_le] in K. destruct K as [(a & -> & A) K]. split; [exists a; split; [reflexivity|lia]|now apply IH].
Qed.

Lemma kv_app_snoc m k v r : kv_app (kv_snoc m k v) r = kv_app m (KCons k v r).
Proof. induction m as [|k' v' m IH]; [reflexivity|]. cbn. now rewrite IH. Qed.

Definition acc_ok (acc : kvals) (lo : option N) : Prop :=
  match lo with None => acc = KNil | Some l => keys_le acc l end.

Lemma map_norm_sorted kvs : forall kt vt lo acc,
  kv_type kvs kt vt lo = true -> acc_ok acc lo -> map_norm kvs acc = kv_app acc kvs.
Proof.
  induction kvs as [|k v r IH]; intros kt vt lo acc H A.
  - cbn. clear. induction acc as [|k v a IHa]; [reflexivity|]. cbn. now rewrite <- IHa.
  - cbn [kv_type map_norm] in *.
    apply andb_prop in H as [H H4]. apply andb_prop in H as [H H3]. apply andb_prop in H as [H1 H2].
    destruct k as [n| | | | | | | | | |]; try discriminate H2. cbn [key_above key_n] in *.
    assert (INS : map_insert (VN n) v acc = kv_snoc acc (VN n) v /\ keys_le (kv_snoc acc (VN n) v) n).
    { destruct lo as [l|]; cbn [acc_ok] in A.
      - apply N.ltb_lt in H2. split; [now apply (map_insert_above acc n v l)|apply (keys_le_snoc acc n v l); [assumption|lia]].
      - subst acc. cbn. split; [reflexivity|]. split; [exists n; split; [reflexivity|lia]|exact I]. }
    destruct INS as [-> KL]. rewrite (IH kt vt (Some n) _ H4 KL). apply kv_app_snoc.
Qed.

Lemma map_norm_id kvs kt vt : kv_type kvs kt vt None = true -> map_norm kvs KNil = kvs.
Proof. intro H. now rewrite (map_norm_sorted kvs kt vt None KNil H eq_refl). Qed.

(* ---- the main induction *)
Section RoundTrip.
Variable c : cfg.
Hypothesis Hmap : fix_map c = true.

Definition G (b : bool) : Prop := fix_uint57 c = true \/ b = false.
Lemma G_or a b : G (a || b) -> G a /\ G b.
Proof. unfold G. intros [H|H]; [now split; left|]. apply orb_false_elim in H as [-> ->]. now split; right. Qed.

Definition rt_value (v : value) : Prop :=
  forall t r, wf_ty t = true -> has_type v t = true -> G (has_uint57 t v) ->
    succeeds (decode c t (encode t v ++ r)) (v, r).
Definition rt_vals (vs : vals) : Prop :=
  (forall t r, wf_ty t = true -> all_type vs t = true -> G (has_uint57_all t vs) ->
     succeeds (dec_array (decode c t) (vals_len vs) (encode_all t vs ++ r)) (vs, r) /\
     forall fuel, (vals_len vs <= fuel)%nat ->
       succeeds (dec_loop (decode c t) fuel (N.of_nat (vals_len vs)) (encode_all t vs ++ r)) (vs, r)) /\
  (forall fs r, wf_tys fs = true -> has_types vs fs = true -> G (has_uint57_fields fs vs) ->
     succeeds (decode_fields c fs (encode_fields fs vs ++ r)) (vs, r)).
Definition rt_kvals (kvs : kvals) : Prop :=
  forall kt vt lo r fuel, wf_ty kt = true -> wf_ty vt = true -> kv_type kvs kt vt lo = true ->
    G (has_uint57_kvs kt vt kvs) -> (kvals_len kvs <= fuel)%nat ->
    succeeds (dec_map_loop c (decode c kt) (decode c vt) fuel (N.of_nat (kvals_len kvs)) lo
                (encode_kvs kt vt kvs ++ r)) (kvs, r).

Ltac step := eapply succeeds_bind.
Ltac dec_start := cbn [decode encode]; apply succeeds_tick_seq.

Lemma uint_rt n r : n < 2 ^ 64 -> G (uint57 n) -> succeeds (dec_uint c (go_encode_uint n ++ r)) (n, r).
Proof.
  intros H Gn. rewrite go_encode_uint_canonical by assumption.
  apply dec_uint_complete; [|assumption|exact Gn].
  apply compact_decode_encode. apply N.lt_trans with (2 ^ 64); [assumption|reflexivity].
Qed.

Lemma len_rt k r : N.of_nat k <? 2 ^ 32 = true ->
  succeeds (dec_uint c (go_encode_uint (N.of_nat k) ++ r)) (N.of_nat k, r).
Proof.
  intro H. apply N.ltb_lt in H. change (2 ^ 32) with 4294967296 in H. apply uint_rt.
  - apply N.lt_trans with 4294967296; [assumption|reflexivity].
  - right. now apply uint57_small.
Qed.

Lemma fixed_rt k n r (f : N -> value) :
  (0 < k)%nat -> n < 256 ^ N.of_nat k ->
  succeeds ('(x, r0) <- read c k (le_bytes k n ++ r) ;; ret (f (le_val x), r0)) (f n, r).
Proof.
  intros K H. step; [apply read_le_bytes; assumption|cbv beta iota]. rewrite le_val_le_bytes_small by assumption.
  apply succeeds_ret.
Qed.

Lemma rt_all : forall v, rt_value v.
Proof.
  apply (value_mut rt_value rt_vals rt_kvals); unfold rt_value, rt_vals, rt_kvals.
  - (* VN *) intros n t r W H Gu. destruct t; try discriminate H; cbn [has_type has_uint57] in *; dec_start.
    + apply N.ltb_lt in H. change (le_bytes 1 n) with [n2b n]. cbn [app].
      step; [apply read_byte_app|cbv beta iota]. rewrite b2n_n2b_small by (change (2 ^ 8) with 256 in H; lia). apply succeeds_ret.
    + apply N.ltb_lt in H. apply (fixed_rt 2 n r VN); [lia|exact H].
    + apply N.ltb_lt in H. apply (fixed_rt 4 n r VN); [lia|exact H].
    + apply N.ltb_lt in H. apply (fixed_rt 8 n r VN); [lia|exact H].
    + apply N.ltb_lt in H. step; [apply uint_rt; assumption|cbv beta iota]. apply succeeds_ret.
    + apply N.ltb_lt in H. rewrite go_encode_big_canonical.
      step; [apply dec_big_complete, compact_decode_encode; exact H|cbv beta iota]. apply succeeds_ret.
    + apply N.ltb_lt in H. rewrite go_encode_u128_canonical. apply succeeds_tick_seq.
      step; [apply succeeds_lift; rewrite read_exact_take; apply take_le_bytes|cbv beta iota].
      rewrite le_val_split8 by apply le_bytes_length.
      rewrite le_val_le_bytes_small by exact H. apply succeeds_ret.
  - (* VZ *) intros z t r W H Gu. destruct t; try discriminate H; cbn [has_type has_uint57] in *; dec_start.
    + change (le_bytes 1 (wrap 1 z)) with [n2b (wrap 1 z)]. cbn [app].
      step; [apply read_byte_app|cbv beta iota]. rewrite b2n_n2b_small by apply (wrap_lt 1 z).
      rewrite signed_wrap_1 by assumption. apply succeeds_ret.
    + rewrite <- (signed_wrap_2 z H) at 2. apply (fixed_rt 2 (wrap 2 z) r (fun u => VZ (signed 2 u))); [lia|apply wrap_lt].
    + rewrite <- (signed_wrap_4 z H) at 2. apply (fixed_rt 4 (wrap 4 z) r (fun u => VZ (signed 4 u))); [lia|apply wrap_lt].
    + rewrite <- (signed_wrap_8 z H) at 2. apply (fixed_rt 8 (wrap 8 z) r (fun u => VZ (signed 8 u))); [lia|apply wrap_lt].
    + step; [apply uint_rt; [apply (wrap_lt 8 z)|exact Gu]|cbv beta iota].
      rewrite signed_wrap_8 by assumption. apply succeeds_ret.
  - (* VBool *) intros b t r W H Gu. destruct t; try discriminate H. dec_start. cbn [app].
    step; [apply read_byte_app|cbv beta iota]. destruct b; apply succeeds_ret.
  - (* VBytes *) intros l t r W H Gu.
    assert (L : N.of_nat (length l) <? 2 ^ 32 = true -> 
      succeeds (dec_bytes c ((go_encode_uint (N.of_nat (length l)) ++ l) ++ r)) (l, r)).
    { intro HL. apply N.ltb_lt in HL. rewrite go_encode_uint_canonical, <- app_assoc.
      - now apply dec_bytes_complete.
      - apply N.lt_trans with (2 ^ 32); [assumption|reflexivity]. }
    destruct t; try discriminate H; cbn [has_type] in H; dec_start; (step; [apply L; exact H|cbv beta iota]); apply succeeds_ret.
  - (* VNone *) intros t r W H Gu. destruct t; try discriminate H. dec_start. cbn [app].
    step; [apply read_byte_app|cbv beta iota]. apply succeeds_ret.
  - (* VSome *) intros v IH t r W H Gu. destruct t; try discriminate H. cbn [has_type has_uint57 wf_ty] in *.
    dec_start. cbn [app]. step; [apply read_byte_app|cbv beta iota]. change (bool_of_byte Byte.x01) with (Some true). cbv iota.
    step; [apply IH; assumption|cbv beta iota]. apply succeeds_ret.
  - (* VOk *) intros v IH t r W H Gu. destruct t; try discriminate H. cbn [has_type has_uint57 wf_ty] in *.
    apply andb_prop in W as [W1 W2].
    dec_start. cbn [app]. step; [apply read_byte_app|cbv beta iota]. change (bool_of_byte Byte.x00) with (Some false). cbv iota.
    step; [apply IH; assumption|cbv beta iota]. apply succeeds_ret.
  - (* VErr *) intros v IH t r W H Gu. destruct t; try discriminate H. cbn [has_type has_uint57 wf_ty] in *.
    apply andb_prop in W as [W1 W2].
    dec_start. cbn [app]. step; [apply read_byte_app|cbv beta iota]. change (bool_of_byte Byte.x01) with (Some true). cbv iota.
    step; [apply IH; assumption|cbv beta iota]. apply succeeds_ret.
  - (* VEnum *) intros i v IH t r W H Gu. destruct t; try discriminate H. cbn [has_type has_uint57 wf_ty] in *.
    apply andb_prop in W as [W1 W2].
    dec_start. destruct (alt_lookup alts i) as [t'|] eqn:AL; [|discriminate]. cbn [app].
    step; [apply read_byte_app|cbv beta iota].
    rewrite b2n_n2b_small by (eapply alt_lookup_lt; eassumption).
    rewrite (decode_alt_lookup c alts i t' _ AL).
    step; [apply IH; [eapply alt_lookup_wf; eassumption|assumption|assumption]|cbv beta iota]. apply succeeds_ret.
  - (* VList *) intros vs [IHa IHf] t r W H Gu. destruct t; try discriminate H; cbn [has_type has_uint57 wf_ty] in *.
    + apply andb_prop in H as [H L]. apply Nat.eqb_eq in L. subst n. dec_start.
      step; [apply (IHa t r W H Gu)|cbv beta iota]. apply succeeds_ret.
    + apply andb_prop in H as [H L]. apply andb_prop in W as [W1 W2]. apply G_or in Gu as [GL Gu].
      dec_start. rewrite <- app_assoc.
      step; [apply uint_rt; [now apply N.ltb_lt|exact GL]|cbv beta iota].
      step; [apply (IHa t r W1 H Gu)|cbv beta iota; apply succeeds_ret].
      (* enough fuel: every element takes at least one byte *)
      apply Nat.leb_le in W2. rewrite app_length.
      assert (vals_len vs * min_size t <= length (encode_all t vs))%nat.
      { assert (E : encode_all t vs = spec_encode_all t vs).
        { clear -H. revert H. induction vs as [|v vs IHvs]; [reflexivity|].
          cbn [all_type encode_all spec_encode_all]. intro H. apply andb_prop in H as [H1 H2].
          rewrite encode_canonical, IHvs by assumption. reflexivity. }
        rewrite E. apply (proj1 (ms_vals_all vs)). exact H. }
      nia.
    + dec_start. step; [apply (IHf fs r W H Gu)|cbv beta iota]. apply succeeds_ret.
  - (* VMap *) intros kvs IH t r W H Gu. destruct t; try discriminate H; cbn [has_type has_uint57 wf_ty] in *.
    apply andb_prop in H as [H L]. apply andb_prop in W as [W1 W2]. apply G_or in Gu as [GL Gu].
    dec_start. rewrite <- app_assoc.
    step; [apply uint_rt; [now apply N.ltb_lt|exact GL]|cbv beta iota].
    step; [apply IH; try eassumption; [destruct t1; try discriminate W1; reflexivity|]|cbv beta iota].
    2:{ rewrite (map_norm_id kvs t1 t2 H). apply succeeds_ret. }
    rewrite app_length.
    assert (kvals_len kvs <= length (encode_kvs t1 t2 kvs))%nat.
    { assert (E : encode_kvs t1 t2 kvs = spec_encode_kvs t1 t2 kvs).
      { clear -H. revert H. generalize (@None N). induction kvs as [|k v kvs IHk]; [reflexivity|].
        intros lo H. cbn [kv_type encode_kvs spec_encode_kvs] in *.
        apply andb_prop in H as [H H4]. apply andb_prop in H as [H H3]. apply andb_prop in H as [H1 H2].
        rewrite !encode_canonical by assumption. rewrite (IHk _ H4). reflexivity. }
      rewrite E. eapply ms_kvals_all; eassumption. }
    lia.
  - (* VNil *) split.
    + intros t r W H Gu. split; [apply succeeds_ret|]. intros fuel _. destruct fuel; apply succeeds_ret.
    + intros fs r W H Gu. destruct fs; [|discriminate]. apply succeeds_ret.
  - (* VCons *) intros v IHv vs [IHa IHf]. split.
    + intros t r W H Gu. cbn [all_type has_uint57_all vals_len encode_all] in *.
      apply andb_prop in H as [H1 H2]. apply G_or in Gu as [G1 G2]. rewrite <- app_assoc.
      destruct (IHa t r W H2 G2) as [IA IL]. split.
      * cbn [dec_array]. step; [apply IHv; assumption|cbv beta iota]. step; [exact IA|cbv beta iota]. apply succeeds_ret.
      * intros fuel F. destruct fuel as [|f]; [lia|]. cbn [dec_loop].
        destruct (N.eqb_spec (N.of_nat (S (vals_len vs))) 0); [lia|].
        step; [apply IHv; assumption|cbv beta iota].
        replace (N.of_nat (S (vals_len vs)) - 1) with (N.of_nat (vals_len vs)) by lia.
        step; [apply IL; lia|cbv beta iota]. apply succeeds_ret.
    + intros fs r W H Gu. destruct fs as [|tag t fr]; [discriminate|].
      cbn [has_types has_uint57_fields encode_fields wf_tys decode_fields] in *.
      apply andb_prop in H as [H1 H2]. apply andb_prop in W as [W1 W2]. apply G_or in Gu as [G1 G2].
      rewrite <- app_assoc. step; [apply IHv; assumption|cbv beta iota]. step; [apply IHf; assumption|cbv beta iota]. apply succeeds_ret.
  - (* KNil *) intros kt vt lo r fuel Wk Wv H Gu F. destruct fuel; apply succeeds_ret.
  - (* KCons *) intros k IHk v IHv kvs IHr kt vt lo r fuel Wk Wv H Gu F.
    cbn [kv_type has_uint57_kvs kvals_len encode_kvs] in *.
    apply andb_prop in H as [H H4]. apply andb_prop in H as [H H3]. apply andb_prop in H as [H1 H2].
    apply G_or in Gu as [Gu G3]. apply G_or in Gu as [G1 G2].
    destruct fuel as [|f]; [lia|]. cbn [dec_map_loop].
    destruct (N.eqb_spec (N.of_nat (S (kvals_len kvs))) 0); [lia|].
    rewrite <- !app_assoc.
    step; [apply IHk; assumption|cbv beta iota]. step; [apply IHv; assumption|cbv beta iota].
    rewrite Hmap. cbn [negb]. rewrite H2. cbn [negb]. rewrite andb_false_r.
    replace (N.of_nat (S (kvals_len kvs)) - 1) with (N.of_nat (kvals_len kvs)) by lia.
    step; [apply IHr; try assumption; lia|cbv beta iota]. apply succeeds_ret.
Qed.

Theorem decode_encode t v r :
  wf_ty t = true -> has_type v t = true -> G (has_uint57 t v) ->
  succeeds (decode c t (encode t v ++ r)) (v, r).
Proof. intros. now apply rt_all. Qed.

End RoundTrip.
