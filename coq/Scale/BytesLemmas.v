(* Scale/BytesLemmas.v — further lemmas about Common.Bytes needed by the SCALE proofs. *)
From Coq Require Import ZifyN ZifyNat ZifyBool.
From Common Require Import Bytes.
From Scale Require Import Compact CompactProofs.
Local Open Scope N_scope.
Ltac Zify.zify_post_hook ::= Z.div_mod_to_equations.

Lemma le_bytes_zero d : le_bytes d 0 = zeros d.
Proof. induction d as [|d IH]; [reflexivity|]. cbn [le_bytes]. rewrite N.shiftr_0_l, IH. reflexivity. Qed.

Lemma le_bytes_app k d n :
  le_bytes (k + d) n = le_bytes k n ++ le_bytes d (n / 256 ^ N.of_nat k).
Proof.
  revert n; induction k as [|k IH]; intro n.
  - cbn [Nat.add le_bytes app]. change (256 ^ N.of_nat 0) with 1. now rewrite N.div_1_r.
  - cbn [Nat.add le_bytes app]. rewrite IH. do 2 f_equal.
    rewrite N.shiftr_div_pow2. change (2 ^ 8) with 256.
    rewrite Nat2N.inj_succ, N.pow_succ_r', N.div_div by (try apply N.pow_nonzero; lia). reflexivity.
Qed.

Lemma le_bytes_mod k n : le_bytes k (n mod 256 ^ N.of_nat k) = le_bytes k n.
Proof.
  revert n; induction k as [|k IH]; intro n; [reflexivity|].
  cbn [le_bytes]. f_equal.
  - apply b2n_inj. rewrite !b2n_n2b. rewrite Nat2N.inj_succ, N.pow_succ_r'.
    rewrite N.mod_mul_r by (try apply N.pow_nonzero; lia).
    rewrite (N.mul_comm 256), N.mod_add by lia. now rewrite N.mod_mod by lia.
  - rewrite <- (IH (N.shiftr n 8)). f_equal.
    rewrite !N.shiftr_div_pow2. change (2 ^ 8) with 256.
    rewrite Nat2N.inj_succ, N.pow_succ_r'.
    rewrite N.mod_mul_r by (try apply N.pow_nonzero; lia).
    rewrite (N.mul_comm 256), N.div_add by lia.
    rewrite (N.div_small (n mod 256)) by (apply N.mod_lt; lia). now rewrite N.add_0_l.
Qed.

Lemma le_bytes_small_pad k d n :
  n < 256 ^ N.of_nat k -> le_bytes (k + d) n = le_bytes k n ++ zeros d.
Proof. intro H. rewrite le_bytes_app, N.div_small by assumption. now rewrite le_bytes_zero. Qed.

Lemma firstn_le_bytes k j n : (k <= j)%nat -> firstn k (le_bytes j n) = le_bytes k n.
Proof.
  intro H. replace j with (k + (j - k))%nat by lia. rewrite le_bytes_app.
  rewrite firstn_app, le_bytes_length, Nat.sub_diag, firstn_O, app_nil_r.
  rewrite <- (le_bytes_length k n) at 1. apply firstn_all.
Qed.

(* strip_leading_zeros only removes a prefix of zeros *)
Lemma strip_leading_split l :
  l = zeros (length l - length (strip_leading_zeros l)) ++ strip_leading_zeros l.
Proof.
  induction l as [|x l IH]; [reflexivity|].
  cbn [strip_leading_zeros]. destruct (N.eqb_spec (b2n x) 0) as [E|E].
  - assert (L : (length (strip_leading_zeros l) <= length l)%nat).
    { rewrite IH at 2. rewrite app_length. lia. }
    cbn [length]. replace (S (length l) - length (strip_leading_zeros l))%nat
      with (S (length l - length (strip_leading_zeros l))) by lia.
    unfold zeros in *. cbn [repeat app]. rewrite <- IH.
    f_equal. apply b2n_inj. rewrite E. reflexivity.
  - rewrite Nat.sub_diag. reflexivity.
Qed.

Lemma strip_leading_length l : (length (strip_leading_zeros l) <= length l)%nat.
Proof. rewrite (strip_leading_split l) at 2. rewrite app_length. lia. Qed.

Lemma rev_zeros d : rev (zeros d) = zeros d.
Proof.
  unfold zeros. induction d as [|d IH]; [reflexivity|].
  cbn [repeat rev]. rewrite IH. clear IH. induction d; [reflexivity|]. cbn. now rewrite IHd.
Qed.

Lemma strip_trailing_split l :
  l = strip_trailing_zeros l ++ zeros (length l - length (strip_trailing_zeros l)).
Proof.
  unfold strip_trailing_zeros. rewrite rev_length.
  pose proof (strip_leading_split (rev l)) as H. rewrite rev_length in H.
  apply (f_equal (@rev byte)) in H. rewrite rev_involutive, rev_app_distr, rev_zeros in H. exact H.
Qed.

Lemma pad_back_strip_trailing l : pad_back (length l) (strip_trailing_zeros l) = l.
Proof. unfold pad_back. symmetry. apply strip_trailing_split. Qed.

Lemma strip_leading_zeros_app_zeros d l : strip_leading_zeros (zeros d ++ l) = strip_leading_zeros l.
Proof. induction d as [|d IH]; [reflexivity|]. unfold zeros in *. cbn. exact IH. Qed.

Lemma strip_trailing_app_zeros l d : strip_trailing_zeros (l ++ zeros d) = strip_trailing_zeros l.
Proof.
  unfold strip_trailing_zeros. rewrite rev_app_distr, rev_zeros, strip_leading_zeros_app_zeros. reflexivity.
Qed.

Lemma strip_leading_nonzero x l : b2n x <> 0 -> strip_leading_zeros (x :: l) = x :: l.
Proof. intro H. cbn. destruct (N.eqb_spec (b2n x) 0); [contradiction|reflexivity]. Qed.

(* top byte of a little-endian list *)
Lemma le_val_snoc l x : le_val (l ++ [x]) = le_val l + 256 ^ N.of_nat (length l) * b2n x.
Proof. rewrite le_val_app. cbn [le_val]. lia. Qed.

Lemma last_snoc {A} (l : list A) x d : last (l ++ [x]) d = x.
Proof. induction l as [|a l IH]; [reflexivity|]. cbn [app]. destruct (l ++ [x]) eqn:E; [destruct l; discriminate|]. exact IH. Qed.

(* for a non-empty list: top byte non-zero iff the value needs all the bytes *)
Lemma top_byte_spec (l : list byte) :
  l <> [] ->
  (b2n (last l Byte.x00) <> 0 <-> 256 ^ (N.of_nat (length l) - 1) <= le_val l).
Proof.
  intro NE. destruct (exists_last NE) as (l' & x & ->).
  rewrite last_snoc, le_val_snoc, app_length. cbn [length].
  replace (N.of_nat (length l' + 1) - 1) with (N.of_nat (length l')) by lia.
  pose proof (le_val_lt l') as U. pose proof (b2n_lt x).
  set (P := 256 ^ N.of_nat (length l')) in *.
  assert (0 < P) by (unfold P; apply N.neq_0_lt_0, N.pow_nonzero; lia).
  split; intro H1; nia.
Qed.

Lemma strip_trailing_top_nonzero l :
  l <> [] -> b2n (last l Byte.x00) <> 0 -> strip_trailing_zeros l = l.
Proof.
  intros NE H. destruct (exists_last NE) as (l' & x & ->). rewrite last_snoc in H.
  unfold strip_trailing_zeros. rewrite rev_app_distr. cbn [rev app].
  rewrite strip_leading_nonzero by assumption. cbn [rev]. now rewrite rev_involutive.
Qed.

(* the minimal little-endian form: le_bytes (byte_len n) n has a non-zero top byte *)
Lemma le_bytes_min_top n : n <> 0 ->
  b2n (last (le_bytes (N.to_nat (byte_len n)) n) Byte.x00) <> 0.
Proof.
  intro NZ. set (k := N.to_nat (byte_len n)).
  assert (K : (1 <= k)%nat) by (pose proof (byte_len_pos n NZ); lia).
  assert (NE : le_bytes k n <> []) by (intro E; apply (f_equal (@length byte)) in E; rewrite le_bytes_length in E; cbn in E; lia).
  apply (top_byte_spec _ NE). rewrite le_bytes_length.
  rewrite le_val_le_bytes_small by (unfold k; rewrite N2Nat.id; apply byte_len_upper).
  unfold k. rewrite N2Nat.id. now apply byte_len_lower.
Qed.

Lemma strip_trailing_le_bytes j n :
  (N.to_nat (byte_len n) <= j)%nat ->
  strip_trailing_zeros (le_bytes j n) = le_bytes (N.to_nat (byte_len n)) n.
Proof.
  intro H. set (k := N.to_nat (byte_len n)) in *.
  replace j with (k + (j - k))%nat by lia.
  rewrite le_bytes_small_pad by (unfold k; rewrite N2Nat.id; apply byte_len_upper).
  rewrite strip_trailing_app_zeros.
  destruct (N.eq_dec n 0) as [->|NZ].
  - unfold k. rewrite byte_len_0. reflexivity.
  - apply strip_trailing_top_nonzero.
    + intro E. apply (f_equal (@length byte)) in E. rewrite le_bytes_length in E.
      pose proof (byte_len_pos n NZ). unfold k in E. cbn in E. lia.
    + now apply le_bytes_min_top.
Qed.

Lemma byte_len_shift m : m <> 0 -> byte_len m = byte_len (m / 256) + 1.
Proof.
  intro NZ. destruct (N.eq_dec (m / 256) 0) as [E|E].
  - rewrite E, byte_len_0. apply byte_len_unique.
    + lia.
    + change (256 ^ (0 + 1 - 1)) with 1. lia.
    + change (256 ^ (0 + 1)) with 256. lia.
  - pose proof (byte_len_lower _ E) as L. pose proof (byte_len_upper (m / 256)) as U.
    pose proof (byte_len_pos _ E) as P.
    set (k := byte_len (m / 256)) in *.
    apply byte_len_unique; [lia| |].
    + replace (k + 1 - 1) with (N.succ (k - 1)) by lia. rewrite N.pow_succ_r'. lia.
    + replace (k + 1) with (N.succ k) by lia. rewrite N.pow_succ_r'. lia.
Qed.
