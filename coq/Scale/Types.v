(* Scale/Types.v — the universe of SCALE shapes pkg/scale supports (definitions only).

   ty      descriptions of Go destination types as pkg/scale sees them
   value   untyped values (one inductive, no dependent types)
   has_type v t : bool   typing; it also carries the range side conditions under which the
                         round-trip / canonicity theorems are stated
   wf_ty t : bool        well-formed descriptions (enum indices are bytes and distinct, map keys
                         are unsigned integers, slice/map elements are not zero-sized)

   TSlice TU8 stands for a slice of a NAMED byte type: Go's []uint8 is []byte, TBytes.
   Structs are described in WIRE order (the order pkg/scale's fieldScaleIndices produces); the
   mapping from declaration order + `scale:"n"` tags to wire order is Scale/FieldOrder.v. *)
From Common Require Import Bytes.
Local Open Scope N_scope.

Inductive ty : Type :=
| TU8 | TU16 | TU32 | TU64            (* uint8..uint64: fixed width little endian *)
| TI8 | TI16 | TI32 | TI64            (* int8..int64: two's complement little endian *)
| TUint                               (* Go uint: compact, 64 bit *)
| TInt                                (* Go int: compact of the two's complement uint64 *)
| TBig                                (* *big.Int: compact, < 2^536 *)
| TU128                               (* *scale.Uint128: 16 bytes little endian *)
| TBool
| TBytes                              (* []byte *)
| TStr                                (* string: same wire form as []byte *)
| TOption (t : ty)                    (* Go pointer *)
| TResult (a b : ty)                  (* scale.Result *)
| TEnum (alts : tys)                  (* VaryingDataType: tag = Some index *)
| TArray (n : nat) (t : ty)
| TSlice (t : ty)
| TMap (k v : ty)
| TStruct (fs : tys)                  (* fields in wire order; tags are ignored here *)
with tys : Type :=
| TNil
| TCons (tag : option N) (t : ty) (r : tys).

Inductive value : Type :=
| VN (n : N)                          (* every unsigned integer kind *)
| VZ (z : Z)                          (* every signed integer kind *)
| VBool (b : bool)
| VBytes (l : list byte)              (* []byte and string *)
| VNone | VSome (v : value)
| VOk (v : value) | VErr (v : value)
| VEnum (idx : N) (v : value)
| VList (vs : vals)                   (* arrays, slices, structs *)
| VMap (kvs : kvals)                  (* entries in ascending key order *)
with vals : Type := VNil | VCons (v : value) (r : vals)
with kvals : Type := KNil | KCons (k v : value) (r : kvals).

Scheme ty_mut := Induction for ty Sort Prop
with tys_mut := Induction for tys Sort Prop.
Scheme value_mut := Induction for value Sort Prop
with vals_mut := Induction for vals Sort Prop
with kvals_mut := Induction for kvals Sort Prop.

Fixpoint vals_len (vs : vals) : nat := match vs with VNil => O | VCons _ r => S (vals_len r) end.
Fixpoint kvals_len (kvs : kvals) : nat := match kvs with KNil => O | KCons _ _ r => S (kvals_len r) end.
Fixpoint tys_len (fs : tys) : nat := match fs with TNil => O | TCons _ _ r => S (tys_len r) end.

Fixpoint vals_to_list (vs : vals) : list value :=
  match vs with VNil => [] | VCons v r => v :: vals_to_list r end.
Fixpoint vals_of_list (l : list value) : vals :=
  match l with [] => VNil | v :: r => VCons v (vals_of_list r) end.
Fixpoint vals_app (a b : vals) : vals :=
  match a with VNil => b | VCons v r => VCons v (vals_app r b) end.
Fixpoint vals_rev_app (a acc : vals) : vals :=
  match a with VNil => acc | VCons v r => vals_rev_app r (VCons v acc) end.
Definition vals_rev (a : vals) : vals := vals_rev_app a VNil.

(* the alternative with index i of an enum *)
Fixpoint alt_lookup (alts : tys) (i : N) : option ty :=
  match alts with
  | TNil => None
  | TCons (Some j) t r => if j =? i then Some t else alt_lookup r i
  | TCons None _ r => alt_lookup r i
  end.

Definition in_z (bits : Z) (z : Z) : bool := ((- 2 ^ (bits - 1) <=? z) && (z <? 2 ^ (bits - 1)))%Z.

(* key of the first entry must be below k (strictly ascending unsigned keys) *)
Definition key_above (lo : option N) (k : value) : bool :=
  match k, lo with
  | VN n, Some l => l <? n
  | VN _, None => true
  | _, _ => false
  end.
Definition key_n (k : value) : option N := match k with VN n => Some n | _ => None end.

Fixpoint has_type (v : value) (t : ty) {struct v} : bool :=
  match v, t with
  | VN n, TU8 => n <? 2 ^ 8
  | VN n, TU16 => n <? 2 ^ 16
  | VN n, TU32 => n <? 2 ^ 32
  | VN n, TU64 => n <? 2 ^ 64
  | VN n, TUint => n <? 2 ^ 64
  | VN n, TBig => n <? 2 ^ 536
  | VN n, TU128 => n <? 2 ^ 128
  | VZ z, TI8 => in_z 8 z
  | VZ z, TI16 => in_z 16 z
  | VZ z, TI32 => in_z 32 z
  | VZ z, TI64 => in_z 64 z
  | VZ z, TInt => in_z 64 z
  | VBool _, TBool => true
  | VBytes l, TBytes => N.of_nat (length l) <? 2 ^ 32
  | VBytes l, TStr => N.of_nat (length l) <? 2 ^ 32
  | VNone, TOption _ => true
  | VSome v', TOption t' => has_type v' t'
  | VOk v', TResult a _ => has_type v' a
  | VErr v', TResult _ b => has_type v' b
  | VEnum i v', TEnum alts =>
      match alt_lookup alts i with Some t' => has_type v' t' | None => false end
  | VList vs, TArray n t' => all_type vs t' && (vals_len vs =? n)%nat
  | VList vs, TSlice t' => all_type vs t' && (N.of_nat (vals_len vs) <? 2 ^ 64)
  | VList vs, TStruct fs => has_types vs fs
  | VMap kvs, TMap kt vt => kv_type kvs kt vt None && (N.of_nat (kvals_len kvs) <? 2 ^ 64)
  | _, _ => false
  end
with all_type (vs : vals) (t : ty) {struct vs} : bool :=
  match vs with
  | VNil => true
  | VCons v r => has_type v t && all_type r t
  end
with has_types (vs : vals) (fs : tys) {struct vs} : bool :=
  match vs, fs with
  | VNil, TNil => true
  | VCons v r, TCons _ t fr => has_type v t && has_types r fr
  | _, _ => false
  end
with kv_type (kvs : kvals) (kt vt : ty) (lo : option N) {struct kvs} : bool :=
  match kvs with
  | KNil => true
  | KCons k v r => has_type k kt && key_above lo k && has_type v vt && kv_type r kt vt (key_n k)
  end.

(* a lower bound on the number of bytes any encoding of the type takes (0 = may be empty) *)
Fixpoint min_size (t : ty) : nat :=
  match t with
  | TU8 | TI8 | TBool => 1 | TU16 | TI16 => 2 | TU32 | TI32 => 4 | TU64 | TI64 => 8
  | TUint | TInt | TBig | TBytes | TStr => 1
  | TU128 => 16
  | TOption _ | TResult _ _ | TEnum _ => 1
  | TArray n t' => n * min_size t'
  | TSlice _ | TMap _ _ => 1
  | TStruct fs => min_sizes fs
  end
with min_sizes (fs : tys) : nat :=
  match fs with TNil => 0 | TCons _ t r => min_size t + min_sizes r end.

Definition is_ukey (t : ty) : bool :=
  match t with TU8 | TU16 | TU32 | TU64 | TUint => true | _ => false end.

Fixpoint alt_tags_ok (alts : tys) : bool :=
  match alts with
  | TNil => true
  | TCons (Some i) _ r =>
      (i <? 256) && (match alt_lookup r i with None => true | Some _ => false end) && alt_tags_ok r
  | TCons None _ _ => false
  end.

Fixpoint wf_ty (t : ty) : bool :=
  match t with
  | TOption t' => wf_ty t'
  | TResult a b => wf_ty a && wf_ty b
  | TEnum alts => alt_tags_ok alts && wf_tys alts
  | TArray _ t' => wf_ty t'
  | TSlice t' => wf_ty t' && (1 <=? min_size t')%nat
  | TMap k v => is_ukey k && wf_ty v
  | TStruct fs => wf_tys fs
  | _ => true
  end
with wf_tys (fs : tys) : bool :=
  match fs with TNil => true | TCons _ t r => wf_ty t && wf_tys r end.

(* values that contain a map with two or more entries: Go's encodeMap emits the entries in map
   iteration order, which is not a function of the value (finding C11 map-order) *)
Fixpoint multi_map (v : value) : bool :=
  match v with
  | VSome v' | VOk v' | VErr v' | VEnum _ v' => multi_map v'
  | VList vs => multi_maps vs
  | VMap kvs => (2 <=? kvals_len kvs)%nat || multi_kvs kvs
  | _ => false
  end
with multi_maps (vs : vals) : bool :=
  match vs with VNil => false | VCons v r => multi_map v || multi_maps r end
with multi_kvs (kvs : kvals) : bool :=
  match kvs with KNil => false | KCons k v r => multi_map k || multi_map v || multi_kvs r end.
