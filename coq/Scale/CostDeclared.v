(* Scale/CostDeclared.v — closer: the allocation meter of the CURRENT decoder (decodeBytes allocates
   the declared length first, fix_bytes c = false) bounded for EVERY input, failing decodes and
   types with maps included:

       decode_cost c t bs  <=  ca t + cb t * |bs|  +  declared c t bs

   [declared c t bs] is a walker over the input: it follows the decoder through [bs] at type [t]
   and sums the byte-string lengths decodeBytes ACCEPTS (the compact length decoded and not above
   2^32-1: the argument of make([]byte, length)), whether or not the read that follows, or a later
   component, fails.  It looks at results only (res x = outcome of x, which does not depend on the
   meter), never at the meter.  On a successful decode of a map-free type it is exactly
   CostExcess.bytes_total of the returned value (declared_bytes_total), so the theorem extends
   CostExcess.decode_cost_excess to all outcomes and to maps. *)
From Coq Require Import ZifyN ZifyNat ZifyBool.
From Common Require Import Bytes Outcome.
From Scale Require Import Compact CompactProofs BytesLemmas Types Spec Codec MonadLemmas LeafProofs Total Cost WellTyped CostExcess Mono.
Local Open Scope N_scope.
Local Open Scope m_scope.

(* the outcome of a computation (run from meter 0; the outcome of the decoders is meter independent:
   [stable] below) *)
Definition res {A} (x : M A) : outcome A := fst (x 0).

(* ------------------------------------------------------------------ the walker *)
Section Walker.
Variable c : cfg.

(* decodeBytes: the length it accepts and passes to make *)
Definition decl_bytes (bs : list byte) : N :=
  match res (dec_uint c bs) with
  | Ok (n, _) => if 4294967295 <? n then 0 else n
  | _ => 0
  end.

Section WLoops.
  Variable dec : list byte -> M (value * list byte).
  Variable dl : list byte -> N.
  Fixpoint decl_array (n : nat) (bs : list byte) {struct n} : N :=
    match n with
    | O => 0
    | S n' => dl bs + match res (dec bs) with Ok (_, r) => decl_array n' r | _ => 0 end
    end.
  Fixpoint decl_loop (fuel : nat) (cnt : N) (bs : list byte) {struct fuel} : N :=
    if cnt =? 0 then 0
    else match fuel with
         | O => 0
         | S f => dl bs + match res (dec bs) with Ok (_, r) => decl_loop f (cnt - 1) r | _ => 0 end
         end.
End WLoops.
Section WMapLoop.
  Variables deck decv : list byte -> M (value * list byte).
  Variables dlk dlv : list byte -> N.
  Fixpoint decl_map_loop (fuel : nat) (cnt : N) (lo : option N) (bs : list byte) {struct fuel} : N :=
    if cnt =? 0 then 0
    else match fuel with
         | O => 0
         | S f =>
             dlk bs +
             match res (deck bs) with
             | Ok (k, r1) =>
                 dlv r1 +
                 match res (decv r1) with
                 | Ok (_, r2) =>
                     if negb (fix_map c) then 0
                     else if strict_map c && negb (key_above lo k) then 0
                     else decl_map_loop f (cnt - 1) (key_n k) r2
                 | _ => 0
                 end
             | _ => 0
             end
         end.
End WMapLoop.

Fixpoint declared (t : ty) (bs : list byte) {struct t} : N :=
  match t with
  | TBytes | TStr => decl_bytes bs
  | TOption t' =>
      match bs with
      | b :: r => match bool_of_byte b with Some true => declared t' r | _ => 0 end
      | [] => 0
      end
  | TResult a b =>
      match bs with
      | x :: r => match bool_of_byte x with
                  | Some false => declared a r
                  | Some true => declared b r
                  | None => 0
                  end
      | [] => 0
      end
  | TEnum alts => match bs with b :: r => declared_alt alts (b2n b) r | [] => 0 end
  | TArray n t' => decl_array (decode c t') (declared t') n bs
  | TSlice t' =>
      match res (dec_uint c bs) with
      | Ok (cnt, r) => decl_loop (decode c t') (declared t') (S (length r)) cnt r
      | _ => 0
      end
  | TMap kt vt =>
      match res (dec_uint c bs) with
      | Ok (cnt, r) => decl_map_loop (decode c kt) (decode c vt) (declared kt) (declared vt)
                         (S (length r)) cnt None r
      | _ => 0
      end
  | TStruct fs => declared_fields fs bs
  | _ => 0
  end
with declared_fields (fs : tys) (bs : list byte) {struct fs} : N :=
  match fs with
  | TNil => 0
  | TCons _ t r => declared t bs +
                   match res (decode c t bs) with Ok (_, bs1) => declared_fields r bs1 | _ => 0 end
  end
with declared_alt (alts : tys) (i : N) (bs : list byte) {struct alts} : N :=
  match alts with
  | TNil => 0
  | TCons (Some j) t r => if j =? i then declared t bs else declared_alt r i bs
  | TCons None _ r => declared_alt r i bs
  end.
End Walker.

(* ------------------------------------------------------------------ bounds with a declared term *)

(* x, whatever its outcome, spends at most a + b * (bytes used) + d *)
Definition bd {A} (x : M (A * list byte)) (bs : list byte) (a b d : N) : Prop :=
  forall m o m', x m = (o, m') -> m' <= m + a + b * used bs o + d /\ suffix_ok bs o.

(* a success is a success with the same result from every meter *)
Definition stable {A} (x : M A) : Prop := forall m a m', x m = (Ok a, m') -> succeeds x a.

Lemma succeeds_res {A} (x : M A) a : succeeds x a -> res x = Ok a.
Proof. intro H. unfold res. destruct (H 0) as [m' ->]. reflexivity. Qed.

Lemma bd_of_bnd {A} (x : M (A * list byte)) bs a b d : bnd x bs a b -> bd x bs a b d.
Proof. intros H m o m' E. destruct (H m o m' E) as [C S]. split; [lia|exact S]. Qed.

Lemma bd_weaken {A} (x : M (A * list byte)) bs a b d a' b' d' :
  a <= a' -> b <= b' -> d <= d' -> bd x bs a b d -> bd x bs a' b' d'.
Proof.
  intros La Lb Ld H m o m' E. destruct (H m o m' E) as [C S]. split; [|exact S].
  assert (b * used bs o <= b' * used bs o) by (apply N.mul_le_mono_r; exact Lb). lia.
Qed.

Lemma bd_tick {A} k (y : M (A * list byte)) bs a b d : bd y bs a b d -> bd (tick k ;;; y) bs (k + a) b d.
Proof.
  intros H m o m' E. unfold bind, tick in E. destruct (H _ _ _ E) as [C S]. split; [lia|exact S].
Qed.

Lemma bd_bind {A B} (x : M (A * list byte)) (f : A * list byte -> M (B * list byte)) bs a1 a2 b d1
      (d2 : A -> list byte -> N) d :
  stable x -> bd x bs a1 b d1 ->
  (forall v r, res x = Ok (v, r) -> len r <= len bs -> bd (f (v, r)) r a2 b (d2 v r)) ->
  (forall v r, res x = Ok (v, r) -> d1 + d2 v r <= d) -> d1 <= d ->
  bd (bind x f) bs (a1 + a2) b d.
Proof.
  intros St Hx Hf Hd Hd1 m o m' E. unfold bind in E. destruct (x m) as [[[v r]| | |] m1] eqn:Ex.
  - destruct (Hx m _ _ Ex) as [C1 S1]. cbn [used suffix_ok] in C1, S1.
    pose proof (succeeds_res _ _ (St _ _ _ Ex)) as R.
    destruct (Hf v r R S1 m1 o m' E) as [C2 S2]. pose proof (Hd v r R) as D. split.
    + destruct o as [[w r']| | |]; cbn [used suffix_ok] in *; nia.
    + destruct o as [[w r']| | |]; cbn [suffix_ok] in *; lia.
  - destruct (Hx m _ _ Ex) as [C1 _]. injection E as <- <-. cbn [used] in *. split; [lia|exact I].
  - destruct (Hx m _ _ Ex) as [C1 _]. injection E as <- <-. cbn [used] in *. split; [lia|exact I].
  - destruct (Hx m _ _ Ex) as [C1 _]. injection E as <- <-. cbn [used] in *. split; [lia|exact I].
Qed.

(* x followed by a repackaging of its result *)
Lemma bd_map {A B} (x : M (A * list byte)) (g : A -> B) bs a b d :
  bd x bs a b d -> bd (bind x (fun p => match p with (v, r) => ret (g v, r) end)) bs a b d.
Proof.
  intros Hx m o m' E. unfold bind in E. destruct (x m) as [[[v r]| | |] m1] eqn:Ex;
    destruct (Hx m _ _ Ex) as [C1 S1]; unfold ret in E; injection E as <- <-; cbn [used suffix_ok] in *;
    split; assumption.
Qed.

Section Declared.
Variable c : cfg.
Hypothesis Hread : fix_read c = true.
Hypothesis Hbig : fix_big c = true.
Hypothesis Hmap : fix_map c = true.
Hypothesis Hbytes : fix_bytes c = false.

(* ---- stability (Mono.v at c' = c) *)
Lemma stable_read_byte bs : stable (read_byte bs).
Proof. intros m a m' H. exact (read_byte_mono bs m a m' H). Qed.
Lemma stable_dec_uint bs : stable (dec_uint c bs).
Proof. intros m a m' H. exact (dec_uint_mono c c Hread eq_refl bs m a m' H). Qed.
Lemma stable_decode t bs : stable (decode c t bs).
Proof.
  intros m [v r] m' H.
  exact (decode_mono c c Hread Hread Hbig eq_refl eq_refl (fun h => h) (fun h => h) t bs m v r m' H).
Qed.

Lemma res_read_byte bs b r : res (read_byte bs) = Ok (b, r) -> bs = b :: r.
Proof.
  unfold res. destruct (read_byte bs 0) as [o m'] eqn:E. cbn [fst]. intros ->.
  exact (read_byte_ok _ _ _ _ _ E).
Qed.

Lemma bd_read_byte bs b d : bd (read_byte bs) bs 1 b d.
Proof. apply bd_of_bnd, bnd_read_byte. Qed.
Lemma bd_dec_uint bs b d : bd (dec_uint c bs) bs cu b d.
Proof. apply bd_of_bnd, bnd_dec_uint, Hread. Qed.

(* ---- decodeBytes on the tree: the compact length, then make([]byte, length), whatever follows *)
Lemma read_short_suffix k r x r' : read_short k r = Some (x, r') -> len r' <= len r.
Proof.
  unfold read_short. destruct k as [|k]; [intro H; injection H as _ <-; lia|].
  destruct r as [|b0 t]; [discriminate|]. intro H. injection H as _ <-.
  pose proof (skipn_length k t) as SL. unfold len. cbn [length]. lia.
Qed.

Lemma bd_dec_bytes bs : bd (dec_bytes c bs) bs cu 0 (decl_bytes c bs).
Proof.
  unfold dec_bytes. rewrite Hbytes.
  apply (bd_weaken _ _ (cu + 0) 0 (decl_bytes c bs)); [lia|lia|lia|].
  apply (bd_bind _ _ bs cu 0 0 0 (fun n _ => if 4294967295 <? n then 0 else n)).
  - apply stable_dec_uint.
  - apply bd_dec_uint.
  - intros n r _ L. cbv beta iota. destruct (4294967295 <? n).
    + apply bd_of_bnd, bnd_fail.
    + intros m o m' E. unfold bind, tick in E. destruct (n =? 0).
      * unfold ret in E. injection E as <- <-. cbn [used suffix_ok]. split; lia.
      * destruct (read_short (N.to_nat n) r) as [[x r']|] eqn:RS; cbn [lift] in E.
        -- unfold ret in E. injection E as <- <-. cbn [used suffix_ok].
           pose proof (read_short_suffix _ _ _ _ RS). split; lia.
        -- unfold fail in E. injection E as <- <-. cbn [used suffix_ok]. split; [lia|exact I].
  - intros n r R. unfold decl_bytes. rewrite R. lia.
  - lia.
Qed.

(* ---- loops *)
Lemma bd_array (dec : list byte -> M (value * list byte)) dl a b :
  (forall bs, bd (dec bs) bs a b (dl bs)) -> (forall bs, stable (dec bs)) ->
  forall n bs, bd (dec_array dec n bs) bs (N.of_nat n * a) b (decl_array dec dl n bs).
Proof.
  intros H St. induction n as [|n IH]; intro bs; cbn [dec_array decl_array].
  - apply bd_of_bnd, bnd_ret, N.le_refl.
  - apply (bd_weaken _ _ (a + N.of_nat n * a) b
             (dl bs + match res (dec bs) with Ok (_, r) => decl_array dec dl n r | _ => 0 end));
      [lia|lia|lia|].
    apply (bd_bind _ _ bs a (N.of_nat n * a) b (dl bs) (fun _ r => decl_array dec dl n r)).
    + apply St.
    + apply H.
    + intros v r _ L. cbv beta iota. apply (bd_map _ (fun vs => VCons v vs)). apply IH.
    + intros v r R. rewrite R. lia.
    + lia.
Qed.

Lemma bd_loop (dec : list byte -> M (value * list byte)) dl a b :
  (forall bs, bd (dec bs) bs a b (dl bs)) -> (forall bs, stable (dec bs)) -> eats dec ->
  forall fuel cnt bs, bd (dec_loop dec fuel cnt bs) bs a (a + b) (decl_loop dec dl fuel cnt bs).
Proof.
  intros H St EA. induction fuel as [|f IH]; intros cnt bs; cbn [dec_loop decl_loop].
  - destruct (cnt =? 0); apply bd_of_bnd;
      [apply (bnd_weaken _ _ 0 (a + b)); [lia|lia|apply bnd_ret, N.le_refl]|].
    apply (bnd_weaken _ _ 0 (a + b)); [lia|lia|apply bnd_nofuel].
  - destruct (cnt =? 0); [apply bd_of_bnd, (bnd_weaken _ _ 0 (a + b)); [lia|lia|apply bnd_ret, N.le_refl]|].
    intros m o m' E. unfold bind in E.
    destruct (dec bs m) as [[[v r]| | |] m1] eqn:D.
    + destruct (H bs m _ _ D) as [C1 S1]. cbn [used suffix_ok] in C1, S1.
      pose proof (EA _ _ _ _ _ D) as U.
      rewrite (succeeds_res _ _ (St _ _ _ _ D)).
      destruct (dec_loop dec f (cnt - 1) r m1) as [[[vs r']| | |] m2] eqn:DL;
        destruct (IH (cnt - 1) r m1 _ _ DL) as [C2 S2]; cbn [used suffix_ok] in C2, S2;
        unfold ret in E; injection E as <- <-; cbn [used suffix_ok]; split; try exact I; nia.
    + destruct (H bs m _ _ D) as [C1 _]. injection E as <- <-. cbn [used] in *. split; [nia|exact I].
    + destruct (H bs m _ _ D) as [C1 _]. injection E as <- <-. cbn [used] in *. split; [nia|exact I].
    + destruct (H bs m _ _ D) as [C1 _]. injection E as <- <-. cbn [used] in *. split; [nia|exact I].
Qed.

Lemma bd_map_loop (deck decv : list byte -> M (value * list byte)) dlk dlv ak av b :
  (forall bs, bd (deck bs) bs ak b (dlk bs)) -> (forall bs, bd (decv bs) bs av b (dlv bs)) ->
  (forall bs, stable (deck bs)) -> (forall bs, stable (decv bs)) -> eats deck ->
  forall fuel cnt lo bs, bd (dec_map_loop c deck decv fuel cnt lo bs) bs (ak + av) (ak + av + b)
                            (decl_map_loop c deck decv dlk dlv fuel cnt lo bs).
Proof.
  intros Hk Hv Sk Sv EA. induction fuel as [|f IH]; intros cnt lo bs; cbn [dec_map_loop decl_map_loop].
  - destruct (cnt =? 0); apply bd_of_bnd;
      [apply (bnd_weaken _ _ 0 (ak + av + b)); [lia|lia|apply bnd_ret, N.le_refl]|].
    apply (bnd_weaken _ _ 0 (ak + av + b)); [lia|lia|apply bnd_nofuel].
  - destruct (cnt =? 0); [apply bd_of_bnd, (bnd_weaken _ _ 0 (ak + av + b)); [lia|lia|apply bnd_ret, N.le_refl]|].
    rewrite Hmap. cbn [negb].
    intros m o m' E. unfold bind in E.
    destruct (deck bs m) as [[[k r1]| | |] m1] eqn:DK.
    2-4: destruct (Hk bs m _ _ DK) as [C1 _]; injection E as <- <-; cbn [used] in *; split; [nia|exact I].
    destruct (Hk bs m _ _ DK) as [C1 S1]. cbn [used suffix_ok] in C1, S1.
    pose proof (EA _ _ _ _ _ DK) as U.
    rewrite (succeeds_res _ _ (Sk _ _ _ _ DK)).
    destruct (decv r1 m1) as [[[v r2]| | |] m2] eqn:DV.
    2-4: destruct (Hv r1 m1 _ _ DV) as [C2 _]; injection E as <- <-; cbn [used] in *; split; [nia|exact I].
    destruct (Hv r1 m1 _ _ DV) as [C2 S2]. cbn [used suffix_ok] in C2, S2.
    rewrite (succeeds_res _ _ (Sv _ _ _ _ DV)).
    destruct (strict_map c && negb (key_above lo k)).
    { unfold fail in E. injection E as <- <-. cbn [used]. split; [nia|exact I]. }
    destruct (dec_map_loop c deck decv f (cnt - 1) (key_n k) r2 m2) as [[[kvs r']| | |] m3] eqn:DL;
      destruct (IH (cnt - 1) (key_n k) r2 m2 _ _ DL) as [C3 S3]; cbn [used suffix_ok] in C3, S3;
      unfold ret in E; injection E as <- <-; cbn [used suffix_ok]; split; try exact I; nia.
Qed.

(* ---- the decoder *)
Lemma declared_fields_cons tag t fr bs :
  declared_fields c (TCons tag t fr) bs =
  declared c t bs + match res (decode c t bs) with Ok (_, bs1) => declared_fields c fr bs1 | _ => 0 end.
Proof. reflexivity. Qed.
Lemma declared_alt_cons tag t fr i bs :
  declared_alt c (TCons tag t fr) i bs =
  match tag with
  | Some j => if j =? i then declared c t bs else declared_alt c fr i bs
  | None => declared_alt c fr i bs
  end.
Proof. destruct tag; reflexivity. Qed.

Definition dt (t : ty) : Prop :=
  wf_ty t = true -> forall bs, bd (decode c t bs) bs (ca t) (cb t) (declared c t bs).
Definition dts (fs : tys) : Prop :=
  wf_tys fs = true ->
  (forall bs, bd (decode_fields c fs bs) bs (ca_sum fs) (cb_max fs) (declared_fields c fs bs)) /\
  (forall i bs, bd (decode_alt c fs i bs) bs (ca_max fs) (cb_max fs) (declared_alt c fs i bs)).

(* types without byte strings: the linear bound of Cost.v, nothing declared needed *)
Lemma dt_free t : bytes_free t = true -> dt t.
Proof. intros B W bs. apply bd_of_bnd. apply (cost_all c Hread Hmap t W (or_intror B)). Qed.

Lemma dt_all : forall t, dt t.
Proof.
  apply (ty_mut dt dts); unfold dts.
  1-13: apply dt_free; reflexivity.
  - (* TBytes *) intros _ bs. cbn [decode ca cb declared].
    apply (bd_weaken _ _ (1 + cu) 0 (decl_bytes c bs)); [lia|lia|lia|]. apply bd_tick.
    apply (bd_map _ VBytes). apply bd_dec_bytes.
  - (* TStr *) intros _ bs. cbn [decode ca cb declared].
    apply (bd_weaken _ _ (1 + cu) 0 (decl_bytes c bs)); [lia|lia|lia|]. apply bd_tick.
    apply (bd_map _ VBytes). apply bd_dec_bytes.
  - (* TOption *) intros t IH W bs. cbn [decode ca cb wf_ty] in *.
    apply (bd_weaken _ _ (1 + (1 + ca t)) (cb t) (declared c (TOption t) bs)); [lia|lia|lia|].
    apply bd_tick.
    apply (bd_bind _ _ bs 1 (ca t) (cb t) 0
             (fun b r => match bool_of_byte b with Some true => declared c t r | _ => 0 end)).
    + apply stable_read_byte.
    + apply bd_read_byte.
    + intros x r _ L. cbv beta iota. destruct (bool_of_byte x) as [[|]|].
      * apply (bd_map _ VSome). apply (IH W).
      * apply bd_of_bnd. apply (bnd_weaken _ _ 0 (cb t)); [lia|lia|]. apply bnd_ret, N.le_refl.
      * apply bd_of_bnd. apply (bnd_weaken _ _ 0 (cb t)); [lia|lia|]. apply bnd_fail.
    + intros x r R. apply res_read_byte in R as ->. cbn [declared]. lia.
    + lia.
  - (* TResult *) intros a IHa b IHb W bs. cbn [decode ca cb wf_ty] in *.
    apply andb_prop in W as [W1 W2].
    apply (bd_weaken _ _ (1 + (1 + N.max (ca a) (ca b))) (N.max (cb a) (cb b)) (declared c (TResult a b) bs));
      [lia|lia|lia|].
    apply bd_tick.
    apply (bd_bind _ _ bs 1 (N.max (ca a) (ca b)) (N.max (cb a) (cb b)) 0
             (fun x r => match bool_of_byte x with
                         | Some false => declared c a r | Some true => declared c b r | None => 0 end)).
    + apply stable_read_byte.
    + apply bd_read_byte.
    + intros x r _ L. cbv beta iota. destruct (bool_of_byte x) as [[|]|].
      * apply (bd_map _ VErr). eapply bd_weaken; [| | |apply (IHb W2)]; lia.
      * apply (bd_map _ VOk). eapply bd_weaken; [| | |apply (IHa W1)]; lia.
      * apply bd_of_bnd. apply (bnd_weaken _ _ 0 (N.max (cb a) (cb b))); [lia|lia|]. apply bnd_fail.
    + intros x r R. apply res_read_byte in R as ->. cbn [declared]. lia.
    + lia.
  - (* TEnum *) intros alts IH W bs. cbn [decode ca cb wf_ty] in *.
    apply andb_prop in W as [W1 W2].
    apply (bd_weaken _ _ (1 + (1 + ca_max alts)) (cb_max alts) (declared c (TEnum alts) bs)); [lia|lia|lia|].
    apply bd_tick.
    apply (bd_bind _ _ bs 1 (ca_max alts) (cb_max alts) 0 (fun x r => declared_alt c alts (b2n x) r)).
    + apply stable_read_byte.
    + apply bd_read_byte.
    + intros x r _ L. cbv beta iota. apply (proj2 (IH W2)).
    + intros x r R. apply res_read_byte in R as ->. apply N.eq_le_incl. reflexivity.
    + lia.
  - (* TArray *) intros n t IH W bs. cbn [decode ca cb wf_ty declared] in *.
    apply (bd_weaken _ _ (1 + N.of_nat n * ca t) (cb t) (decl_array (decode c t) (declared c t) n bs)); [lia|lia|lia|].
    apply bd_tick. apply (bd_map _ VList). apply bd_array; [apply (IH W)|apply stable_decode].
  - (* TSlice *) intros t IH W bs. cbn [decode ca cb wf_ty] in *.
    apply andb_prop in W as [W1 W2]. apply Nat.leb_le in W2.
    apply (bd_weaken _ _ (1 + (cu + ca t)) (ca t + cb t) (declared c (TSlice t) bs)); [lia|lia|lia|].
    apply bd_tick.
    apply (bd_bind _ _ bs cu (ca t) (ca t + cb t) 0
             (fun cnt r => decl_loop (decode c t) (declared c t) (S (length r)) cnt r)).
    + apply stable_dec_uint.
    + apply bd_dec_uint.
    + intros cnt r _ L. cbv beta iota. apply (bd_map _ VList).
      apply bd_loop; [apply (IH W1)|apply stable_decode|now apply eats_decode].
    + intros cnt r R. cbn [declared]. rewrite R. lia.
    + lia.
  - (* TMap *) intros kt IHk vt IHv W bs. cbn [decode ca cb wf_ty] in *.
    apply andb_prop in W as [W1 W2].
    assert (Wk : wf_ty kt = true) by (destruct kt; try discriminate W1; reflexivity).
    assert (Mk : (1 <= min_size kt)%nat) by (destruct kt; try discriminate W1; cbn; lia).
    apply (bd_weaken _ _ (1 + (cu + (ca kt + ca vt))) (ca kt + ca vt + N.max (cb kt) (cb vt))
             (declared c (TMap kt vt) bs)); [lia|lia|lia|].
    apply bd_tick.
    apply (bd_bind _ _ bs cu (ca kt + ca vt) (ca kt + ca vt + N.max (cb kt) (cb vt)) 0
             (fun cnt r => decl_map_loop c (decode c kt) (decode c vt) (declared c kt) (declared c vt)
                             (S (length r)) cnt None r)).
    + apply stable_dec_uint.
    + apply bd_dec_uint.
    + intros cnt r _ L. cbv beta iota. apply (bd_map _ (fun raw => VMap (map_norm raw KNil))).
      apply bd_map_loop; [| |apply stable_decode|apply stable_decode|now apply eats_decode].
      * intro bs'. eapply bd_weaken; [| | |apply (IHk Wk)]; lia.
      * intro bs'. eapply bd_weaken; [| | |apply (IHv W2)]; lia.
    + intros cnt r R. cbn [declared]. rewrite R. lia.
    + lia.
  - (* TStruct *) intros fs IH W bs. cbn [decode ca cb wf_ty] in *.
    apply (bd_weaken _ _ (1 + ca_sum fs) (cb_max fs) (declared_fields c fs bs)); [lia|lia|apply N.le_refl|].
    apply bd_tick. apply (bd_map _ VList). apply (proj1 (IH W)).
  - (* TNil *) intros _. split; intros; cbn [decode_fields decode_alt ca_sum ca_max cb_max].
    + apply bd_of_bnd, bnd_ret, N.le_refl.
    + apply bd_of_bnd, bnd_fail.
  - (* TCons *) intros tag t IHt fr IHf W. cbn [wf_tys] in *.
    apply andb_prop in W as [W1 W2]. split.
    + intro bs. cbn [decode_fields ca_sum cb_max]. rewrite declared_fields_cons.
      apply (bd_bind _ _ bs (ca t) (ca_sum fr) (N.max (cb t) (cb_max fr)) (declared c t bs)
               (fun _ r => declared_fields c fr r)).
      * apply stable_decode.
      * eapply bd_weaken; [| | |apply (IHt W1)]; lia.
      * intros v r _ L. cbv beta iota. apply (bd_map _ (fun vs => VCons v vs)).
        eapply bd_weaken; [| | |apply (proj1 (IHf W2))]; lia.
      * intros v r R. rewrite R. lia.
      * lia.
    + intros i bs. cbn [decode_alt ca_max cb_max]. rewrite declared_alt_cons.
      assert (REST : bd (decode_alt c fr i bs) bs (N.max (ca t) (ca_max fr)) (N.max (cb t) (cb_max fr))
                        (declared_alt c fr i bs)).
      { eapply bd_weaken; [| | |apply (proj2 (IHf W2))]; lia. }
      destruct tag as [j|]; [|exact REST]. destruct (j =? i); [|exact REST].
      apply (bd_map _ (fun v => VEnum i v)). eapply bd_weaken; [| | |apply (IHt W1)]; lia.
Qed.

(* THE bound: every well-formed type (maps included), every input, every outcome *)
Theorem decode_cost_declared t bs :
  wf_ty t = true -> decode_cost c t bs <= ca t + cb t * len bs + declared c t bs.
Proof.
  intro W. unfold decode_cost, run_decode. destruct (decode c t bs 0) as [o m'] eqn:E. cbn [snd].
  destruct (dt_all t W bs 0 o m' E) as [C _].
  assert (used bs o <= len bs) by (destruct o as [[v r]| | |]; cbn [used]; lia).
  assert (cb t * used bs o <= cb t * len bs) by (apply N.mul_le_mono_l; assumption). lia.
Qed.

(* ---- on success (types without maps) the walker's sum is the byte-string total of the value *)
Lemma declared_struct fs bs : declared c (TStruct fs) bs = declared_fields c fs bs.
Proof. reflexivity. Qed.
Lemma declared_enum alts b r : declared c (TEnum alts) (b :: r) = declared_alt c alts (b2n b) r.
Proof. reflexivity. Qed.

Lemma decl_bytes_ok bs m l r m' : dec_bytes c bs m = (Ok (l, r), m') -> decl_bytes c bs = len l.
Proof.
  intro H. unfold dec_bytes in H. rewrite Hbytes in H.
  apply bind_ok in H as ([n r0] & m1 & U & H). cbv beta iota in H.
  unfold decl_bytes. rewrite (succeeds_res _ _ (stable_dec_uint _ _ _ _ U)).
  destruct (4294967295 <? n); [discriminate|].
  apply tick_seq_ok in H.
  destruct (N.eqb_spec n 0) as [Z|Z].
  - apply ret_ok in H as [H _]. injection H as <- _. unfold len. cbn [length]. lia.
  - apply lift_ok in H as [H _]. pose proof (read_short_length _ _ _ _ H) as LL. unfold len. lia.
Qed.

Definition de (t : ty) : Prop :=
  map_free t = true -> forall bs m v r m', decode c t bs m = (Ok (v, r), m') -> declared c t bs = bytes_total v.
Definition des (fs : tys) : Prop :=
  map_free_tys fs = true ->
  (forall bs m vs r m', decode_fields c fs bs m = (Ok (vs, r), m') -> declared_fields c fs bs = bytes_total_vals vs) /\
  (forall i bs m v r m', decode_alt c fs i bs m = (Ok (v, r), m') -> declared_alt c fs i bs = bytes_total v).

Lemma de_array t :
  (forall bs m v r m', decode c t bs m = (Ok (v, r), m') -> declared c t bs = bytes_total v) ->
  forall n bs m vs r m', dec_array (decode c t) n bs m = (Ok (vs, r), m') ->
    decl_array (decode c t) (declared c t) n bs = bytes_total_vals vs.
Proof.
  intro IH. induction n as [|n IHn]; intros bs m vs r m' H; cbn [dec_array decl_array] in *.
  - apply ret_ok in H as [H _]. injection H as <- _. reflexivity.
  - apply bind_ok in H as ([v r1] & m1 & D & H). apply bind_ok in H as ([vs' r2] & m2 & D2 & H).
    apply ret_ok in H as [H _]. injection H as <- _.
    rewrite (succeeds_res _ _ (stable_decode _ _ _ _ _ D)).
    rewrite (IH _ _ _ _ _ D), (IHn _ _ _ _ _ D2). reflexivity.
Qed.

Lemma de_loop t :
  (forall bs m v r m', decode c t bs m = (Ok (v, r), m') -> declared c t bs = bytes_total v) ->
  forall fuel cnt bs m vs r m', dec_loop (decode c t) fuel cnt bs m = (Ok (vs, r), m') ->
    decl_loop (decode c t) (declared c t) fuel cnt bs = bytes_total_vals vs.
Proof.
  intro IH. induction fuel as [|f IHf]; intros cnt bs m vs r m' H; cbn [dec_loop decl_loop] in *;
    destruct (cnt =? 0).
  - apply ret_ok in H as [H _]. injection H as <- _. reflexivity.
  - discriminate.
  - apply ret_ok in H as [H _]. injection H as <- _. reflexivity.
  - apply bind_ok in H as ([v r1] & m1 & D & H). apply bind_ok in H as ([vs' r2] & m2 & D2 & H).
    apply ret_ok in H as [H _]. injection H as <- _.
    rewrite (succeeds_res _ _ (stable_decode _ _ _ _ _ D)).
    rewrite (IH _ _ _ _ _ D), (IHf _ _ _ _ _ _ D2). reflexivity.
Qed.

Ltac leafeq :=
  intros _ bs m v r m' H; cbn [decode] in H; apply tick_seq_ok in H;
  apply bind_ok in H as ([x r1] & m1 & _ & H); apply ret_ok in H as [H _]; injection H as <- _; reflexivity.

Lemma de_all : forall t, de t.
Proof.
  apply (ty_mut de des); unfold des.
  1-11: leafeq.
  - (* TU128 *) intros _ bs m v r m' H. cbn [decode] in H. apply tick_seq_ok in H. apply tick_seq_ok in H.
    apply bind_ok in H as ([x r1] & m1 & _ & H). apply ret_ok in H as [H _]. injection H as <- _. reflexivity.
  - (* TBool *) intros _ bs m v r m' H. cbn [decode] in H. apply tick_seq_ok in H.
    apply bind_ok in H as ([x r1] & m1 & _ & H). cbv beta iota in H.
    destruct (bool_of_byte x); [|discriminate]. apply ret_ok in H as [H _]. injection H as <- _. reflexivity.
  - (* TBytes *) intros _ bs m v r m' H. cbn [decode] in H. apply tick_seq_ok in H.
    apply bind_ok in H as ([l r1] & m1 & D & H). apply ret_ok in H as [H _]. injection H as <- _.
    cbn [declared bytes_total]. exact (decl_bytes_ok _ _ _ _ _ D).
  - (* TStr *) intros _ bs m v r m' H. cbn [decode] in H. apply tick_seq_ok in H.
    apply bind_ok in H as ([l r1] & m1 & D & H). apply ret_ok in H as [H _]. injection H as <- _.
    cbn [declared bytes_total]. exact (decl_bytes_ok _ _ _ _ _ D).
  - (* TOption *) intros t IH MF bs m v r m' H. cbn [decode map_free] in *. apply tick_seq_ok in H.
    apply bind_ok in H as ([b r1] & m1 & R & H). apply read_byte_ok in R as ->.
    cbv beta iota in H. cbn [declared]. destruct (bool_of_byte b) as [[|]|]; [| |discriminate].
    + apply bind_ok in H as ([v1 r2] & m2 & D & H). apply ret_ok in H as [H _]. injection H as <- _.
      cbn [bytes_total]. exact (IH MF _ _ _ _ _ D).
    + apply ret_ok in H as [H _]. injection H as <- _. reflexivity.
  - (* TResult *) intros a IHa b IHb MF bs m v r m' H. cbn [decode map_free] in *.
    apply andb_prop in MF as [M1 M2]. apply tick_seq_ok in H.
    apply bind_ok in H as ([x r1] & m1 & R & H). apply read_byte_ok in R as ->.
    cbv beta iota in H. cbn [declared]. destruct (bool_of_byte x) as [[|]|]; [| |discriminate].
    + apply bind_ok in H as ([v1 r2] & m2 & D & H). apply ret_ok in H as [H _]. injection H as <- _.
      cbn [bytes_total]. exact (IHb M2 _ _ _ _ _ D).
    + apply bind_ok in H as ([v1 r2] & m2 & D & H). apply ret_ok in H as [H _]. injection H as <- _.
      cbn [bytes_total]. exact (IHa M1 _ _ _ _ _ D).
  - (* TEnum *) intros alts IH MF bs m v r m' H. cbn [decode map_free] in *. apply tick_seq_ok in H.
    apply bind_ok in H as ([b r1] & m1 & R & H). apply read_byte_ok in R as ->.
    cbv beta iota in H. rewrite declared_enum. exact (proj2 (IH MF) _ _ _ _ _ _ H).
  - (* TArray *) intros n t IH MF bs m v r m' H. cbn [decode map_free] in *. apply tick_seq_ok in H.
    apply bind_ok in H as ([vs r1] & m1 & D & H). apply ret_ok in H as [H _]. injection H as <- _.
    cbn [declared bytes_total]. exact (de_array t (IH MF) _ _ _ _ _ _ D).
  - (* TSlice *) intros t IH MF bs m v r m' H. cbn [decode map_free] in *. apply tick_seq_ok in H.
    apply bind_ok in H as ([cnt r1] & m1 & U & H).
    apply bind_ok in H as ([vs r2] & m2 & D & H). apply ret_ok in H as [H _]. injection H as <- _.
    cbn [declared bytes_total]. rewrite (succeeds_res _ _ (stable_dec_uint _ _ _ _ U)).
    exact (de_loop t (IH MF) _ _ _ _ _ _ _ D).
  - (* TMap *) intros kt _ vt _ MF. discriminate MF.
  - (* TStruct *) intros fs IH MF bs m v r m' H. cbn [decode map_free] in *. apply tick_seq_ok in H.
    apply bind_ok in H as ([vs r1] & m1 & D & H). apply ret_ok in H as [H _]. injection H as <- _.
    rewrite declared_struct. cbn [bytes_total]. exact (proj1 (IH MF) _ _ _ _ _ D).
  - (* TNil *) intros _. split.
    + intros bs m vs r m' H. cbn [decode_fields] in H. apply ret_ok in H as [H _]. injection H as <- _. reflexivity.
    + intros i bs m v r m' H. discriminate.
  - (* TCons *) intros tag t IHt fr IHf MF. cbn [map_free_tys] in *.
    apply andb_prop in MF as [M1 M2]. split.
    + intros bs m vs r m' H. cbn [decode_fields] in H. rewrite declared_fields_cons.
      apply bind_ok in H as ([v r1] & m1 & D & H). apply bind_ok in H as ([vs' r2] & m2 & D2 & H).
      apply ret_ok in H as [H _]. injection H as <- _.
      rewrite (succeeds_res _ _ (stable_decode _ _ _ _ _ D)).
      rewrite (IHt M1 _ _ _ _ _ D), (proj1 (IHf M2) _ _ _ _ _ D2). reflexivity.
    + intros i bs m v r m' H. cbn [decode_alt] in H. rewrite declared_alt_cons.
      destruct tag as [j|]; [|exact (proj2 (IHf M2) _ _ _ _ _ _ H)].
      destruct (j =? i); [|exact (proj2 (IHf M2) _ _ _ _ _ _ H)].
      apply bind_ok in H as ([v1 r1] & m1 & D & H). apply ret_ok in H as [H _]. injection H as <- _.
      cbn [bytes_total]. exact (IHt M1 _ _ _ _ _ D).
Qed.

Theorem declared_bytes_total t bs v r :
  map_free t = true -> decode_res c t bs = Ok (v, r) -> declared c t bs = bytes_total v.
Proof.
  intros MF D. unfold decode_res, run_decode in D. destruct (decode c t bs 0) as [o m'] eqn:E.
  cbn [fst] in D. subst o. exact (de_all t MF bs 0 v r m' E).
Qed.

(* CostExcess.decode_cost_excess is the successful, map-free case of decode_cost_declared *)
Corollary decode_cost_excess_again t bs v r :
  wf_ty t = true -> map_free t = true -> decode_res c t bs = Ok (v, r) ->
  decode_cost c t bs <= ca t + cb t * len bs + bytes_total v.
Proof.
  intros W MF D. rewrite <- (declared_bytes_total t bs v r MF D). exact (decode_cost_declared t bs W).
Qed.
End Declared.
