(* Scale/FieldOrder.v — model of pkg/scale's fieldScaleIndices (scale.go): the order in which the
   fields of a struct are encoded, from the `scale:"n"` tags (definitions only).

   Go: fields with tag "-" are dropped (not modelled: never generated), untagged fields get a nil
   scaleIndex, then
     sort.Slice(indices, less)   less i j :=  nil,non-nil -> false | non-nil,nil -> true
                                            | nil,nil -> fieldIndex i < fieldIndex j
                                            | non-nil,non-nil -> *scaleIndex i < *scaleIndex j
   sort.Slice is not stable; when no two fields carry the same tag [less] is a strict total order
   and every sorting algorithm returns the same sequence, which is what [field_order] computes
   (by insertion sort).  Lemmas: Scale/FieldOrderProofs.v. *)
From Coq Require Import List ZArith Arith Bool.
Import ListNotations.

Inductive ftag := FNone | FIdx (z : Z).

Definition less (a b : nat * ftag) : bool :=
  match snd a, snd b with
  | FNone, FIdx _ => false
  | FIdx _, FNone => true
  | FNone, FNone => (fst a <? fst b)%nat
  | FIdx x, FIdx y => (x <? y)%Z
  end.

Fixpoint insert (x : nat * ftag) (l : list (nat * ftag)) : list (nat * ftag) :=
  match l with
  | [] => [x]
  | y :: r => if less x y then x :: y :: r else y :: insert x r
  end.
Definition isort (l : list (nat * ftag)) : list (nat * ftag) := fold_right insert [] l.

Fixpoint indexed (i : nat) (l : list ftag) : list (nat * ftag) :=
  match l with [] => [] | a :: r => (i, a) :: indexed (S i) r end.

(* the field indices in encoding order *)
Definition field_order (tags : list ftag) : list nat := map fst (isort (indexed 0 tags)).

(* the order the SCALE convention prescribes: tagged fields by ascending tag, then the untagged
   fields in declaration order — written without sorting: position of field i = number of fields
   that come before it *)
Definition before (a b : nat * ftag) : bool := less a b.
Definition rank (all : list (nat * ftag)) (x : nat * ftag) : nat :=
  length (filter (fun y => before y x) all).
Definition tags_distinct (tags : list ftag) : bool :=
  let zs := flat_map (fun t => match t with FIdx z => [z] | FNone => [] end) tags in
  (fix nodup (l : list Z) : bool :=
     match l with [] => true | z :: r => negb (existsb (Z.eqb z) r) && nodup r end) zs.
