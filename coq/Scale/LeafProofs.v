(* Scale/LeafProofs.v — the Go compact-integer and byte-string decoders (Codec.dec_uint, dec_big,
   dec_bytes) against the specification decoder Compact.compact_decode, in both directions. *)
From Coq Require Import ZifyN ZifyNat ZifyBool.
From Common Require Import Bytes Outcome.
From Scale Require Import Compact CompactProofs BytesLemmas Types Spec Codec EncodeProofs MonadLemmas.
Local Open Scope N_scope.
Local Open Scope m_scope.
Ltac Zify.zify_post_hook ::= Z.div_mod_to_equations.

Lemma shiftr2 p : N.shiftr p 2 = p / 4.
Proof. rewrite N.shiftr_div_pow2. reflexivity. Qed.
Lemma land3 p : N.land p 3 = p mod 4.
Proof. change 3 with (N.ones 2). rewrite N.land_ones. reflexivity. Qed.

Lemma byte_len_bounds v k : 1 <= k -> (byte_len v = k <-> 256 ^ (k - 1) <= v < 256 ^ k).
Proof.
  intro K. split.
  - intros <-. split; [|apply byte_len_upper].
    apply byte_len_lower. intro E. subst v. rewrite byte_len_0 in K. lia.
  - intros [L U]. now apply byte_len_unique.
Qed.

Lemma top_nonzero_spec (x : list byte) k :
  length x = k -> (1 <= k)%nat ->
  (top_nonzero x = true <-> byte_len (le_val x) = N.of_nat k).
Proof.
  intros L K. assert (NE : x <> []) by (intro E; subst x; cbn in L; lia).
  unfold top_nonzero. rewrite negb_true_iff, N.eqb_neq.
  rewrite (top_byte_spec x NE), L.
  rewrite (byte_len_bounds (le_val x) (N.of_nat k)) by lia.
  pose proof (le_val_lt x) as U. rewrite L in U. tauto.
Qed.

Lemma uint57_spec n : uint57 n = false -> n < 2 ^ 64 -> 1073741824 <= n ->
  byte_len n = 4 \/ byte_len n = 8.
Proof.
  unfold uint57. intros H U L.
  destruct (N.leb_spec 4294967296 n) as [A|A].
  - destruct (N.ltb_spec n 72057594037927936) as [B|B]; [discriminate|].
    right. apply byte_len_unique; [lia| |]; [change (256 ^ (8 - 1)) with 72057594037927936; lia|
    change (256 ^ 8) with (2 ^ 64); lia].
  - left. apply byte_len_unique; [lia| |]; [change (256 ^ (4 - 1)) with 16777216; lia|
    change (256 ^ 4) with 4294967296; lia].
Qed.

(* ------------------------------------------------------------------ decodeUint *)
Lemma dec_uint_complete c bs n r :
  compact_decode bs = Some (n, r) -> n < 2 ^ 64 ->
  (fix_uint57 c = true \/ uint57 n = false) ->
  succeeds (dec_uint c bs) (n, r).
Proof.
  intros D U G. unfold compact_decode in D. destruct bs as [|b0 t]; [discriminate|].
  unfold dec_uint. eapply succeeds_bind; [apply read_byte_app|]. cbv beta iota zeta.
  pose proof (b2n_lt b0) as B0. set (p := b2n b0) in *. rewrite !shiftr2.
  destruct (N.eqb_spec (p mod 4) 0) as [M0|M0].
  { injection D as <- <-. apply succeeds_ret. }
  destruct (N.eqb_spec (p mod 4) 1) as [M1|M1].
  { destruct (take 1 t) as [[x r']|] eqn:T; [|discriminate].
    pose proof (take_spec _ _ _ _ T) as [-> L]. destruct x as [|b1 [|? ?]]; try discriminate L.
    rewrite le_val_single in D. pose proof (b2n_lt b1) as B1.
    eapply succeeds_bind; [apply read_byte_app|]. cbv beta iota zeta. rewrite shiftr2.
    remember ((p + 256 * b2n b1) / 4) as v eqn:Ev.
    destruct (N.leb_spec 64 v) as [G1|G1]; [|discriminate]. injection D as <- <-.
    destruct (N.leb_spec v 63); [lia|]. destruct (N.ltb_spec 32767 v); [lia|]. apply succeeds_ret. }
  destruct (N.eqb_spec (p mod 4) 2) as [M2|M2].
  { destruct (take 3 t) as [[x r']|] eqn:T; [|discriminate].
    eapply succeeds_bind; [apply read_of_take; [lia|exact T]|]. cbv beta iota zeta. rewrite shiftr2.
    pose proof (take_spec _ _ _ _ T) as [_ L].
    pose proof (le_val_lt x) as X. rewrite L in X. change (256 ^ N.of_nat 3) with 16777216 in X.
    remember ((p + 256 * le_val x) / 4) as v eqn:Ev.
    destruct (N.leb_spec 16384 v) as [G1|G1]; [|discriminate]. injection D as <- <-.
    destruct (N.leb_spec v 16383); [lia|]. destruct (N.ltb_spec 1073741823 v); [lia|]. apply succeeds_ret. }
  remember (p / 4 + 4) as k eqn:Ek.
  destruct (take (N.to_nat k) t) as [[x r']|] eqn:T; [|discriminate].
  pose proof (take_spec _ _ _ _ T) as [_ L].
  remember (le_val x) as v eqn:Ev.
  destruct (N.eqb_spec (byte_len v) k) as [K|K]; [|discriminate].
  destruct (N.leb_spec 1073741824 v) as [G1|G1]; [|discriminate].
  cbn [andb] in D. injection D as <- <-.
  pose proof (byte_len_le_8 v U) as K8.
  assert (SUP : (k =? 4) || (k =? 8) || (fix_uint57 c && (5 <=? k) && (k <=? 7)) = true).
  { destruct G as [G|G].
    - rewrite G. cbn [andb]. destruct (N.eqb_spec k 4); [reflexivity|]. destruct (N.eqb_spec k 8); [reflexivity|].
      cbn [orb]. apply andb_true_intro. split; [apply N.leb_le|apply N.leb_le]; lia.
    - destruct (uint57_spec v G U G1) as [E|E]; rewrite K in E; subst k; rewrite E; reflexivity. }
  rewrite SUP. rewrite andb_false_r. cbn [negb].
  eapply succeeds_bind; [apply read_of_take; [lia|exact T]|]. cbv beta iota zeta. rewrite <- Ev.
  destruct (N.eqb_spec k 4) as [K4|K4].
  { destruct (N.leb_spec v 1073741823); [lia|]. apply succeeds_ret. }
  destruct (N.eqb_spec k 8) as [K8'|K8'].
  { rewrite K8' in K. apply (byte_len_bounds v 8) in K; [|lia].
    change (256 ^ (8 - 1)) with 72057594037927936 in K.
    destruct (N.leb_spec v 72057594037927935); [lia|]. apply succeeds_ret. }
  assert (TN : top_nonzero x = true).
  { apply (top_nonzero_spec x (N.to_nat k)); [exact L|lia|]. rewrite <- Ev, N2Nat.id. exact K. }
  rewrite TN. apply succeeds_ret.
Qed.

Lemma dec_uint_sound c bs m n r m' :
  fix_read c = true -> dec_uint c bs m = (Ok (n, r), m') ->
  compact_decode bs = Some (n, r) /\ n < 2 ^ 64.
Proof.
  intros F H. unfold dec_uint in H.
  apply bind_ok in H as ([b0 t] & m1 & R0 & H). apply read_byte_ok in R0 as ->.
  cbv beta iota zeta in H. unfold compact_decode.
  pose proof (b2n_lt b0) as B0. set (p := b2n b0) in *. rewrite !shiftr2 in H.
  destruct (N.eqb_spec (p mod 4) 0) as [M0|M0].
  { apply ret_ok in H as [H _]. injection H as <- <-. split; [reflexivity|].
    apply N.lt_trans with 64; [lia|reflexivity]. }
  destruct (N.eqb_spec (p mod 4) 1) as [M1|M1].
  { apply bind_ok in H as ([b1 r'] & m2 & R1 & H). apply read_byte_ok in R1 as ->.
    cbv beta iota zeta in H. rewrite shiftr2 in H.
    change (take 1 (b1 :: r')) with (take (length [b1]) ([b1] ++ r')). rewrite take_app, le_val_single.
    pose proof (b2n_lt b1) as B1. remember ((p + 256 * b2n b1) / 4) as v eqn:Ev.
    destruct (N.leb_spec v 63) as [A|A]; [discriminate|].
    destruct (N.ltb_spec 32767 v) as [B|B]; [discriminate|]. cbn [orb] in H.
    apply ret_ok in H as [H _]. injection H as <- <-.
    destruct (N.leb_spec 64 v); [|lia]. split; [reflexivity|]. apply N.lt_trans with 32768; [lia|reflexivity]. }
  destruct (N.eqb_spec (p mod 4) 2) as [M2|M2].
  { apply bind_ok in H as ([x r'] & m2 & R1 & H). apply (read_ok c _ _ _ _ _ _ F) in R1 as [-> L].
    cbv beta iota zeta in H. rewrite shiftr2 in H.
    rewrite <- L, take_app.
    pose proof (le_val_lt x) as X. rewrite L in X. change (256 ^ N.of_nat 3) with 16777216 in X.
    remember ((p + 256 * le_val x) / 4) as v eqn:Ev.
    destruct (N.leb_spec v 16383) as [A|A]; [discriminate|].
    destruct (N.ltb_spec 1073741823 v) as [B|B]; [discriminate|]. cbn [orb] in H.
    apply ret_ok in H as [H _]. injection H as <- <-.
    destruct (N.leb_spec 16384 v); [|lia]. split; [reflexivity|].
    apply N.lt_trans with 1073741824; [lia|reflexivity]. }
  remember (p / 4 + 4) as k eqn:Ek.
  rewrite F in H. cbn [andb] in H.
  destruct ((k =? 4) || (k =? 8) || (fix_uint57 c && (5 <=? k) && (k <=? 7))) eqn:SUP; [|discriminate].
  cbn [negb] in H.
  apply bind_ok in H as ([x r'] & m2 & R1 & H). apply (read_ok c _ _ _ _ _ _ F) in R1 as [-> L].
  cbv beta iota zeta in H. rewrite <- L, take_app.
  remember (le_val x) as v eqn:Ev.
  pose proof (le_val_lt x) as X. rewrite L, N2Nat.id, <- Ev in X.
  assert (K8 : k <= 8).
  { destruct (N.eqb_spec k 4); [lia|]. destruct (N.eqb_spec k 8); [lia|]. cbn [orb] in SUP.
    apply andb_prop in SUP as [_ S]. apply N.leb_le in S. lia. }
  assert (V64 : v < 2 ^ 64).
  { apply N.lt_le_trans with (256 ^ k); [assumption|]. change (2 ^ 64) with (256 ^ 8).
    apply N.pow_le_mono_r; lia. }
  assert (GOAL : byte_len v = k /\ 1073741824 <= v -> 
     (if (byte_len v =? k) && (1073741824 <=? v) then Some (v, r') else None) = Some (v, r') /\ v < 2 ^ 64).
  { intros [A B]. rewrite A, N.eqb_refl. destruct (N.leb_spec 1073741824 v); [|lia]. now split. }
  destruct (N.eqb_spec k 4) as [K4|K4].
  { destruct (N.leb_spec v 1073741823) as [A|A]; [discriminate|].
    apply ret_ok in H as [H _]. injection H as <- <-. apply GOAL. split; [|lia].
    rewrite K4 in *. apply byte_len_unique; [lia| |assumption]. change (256 ^ (4 - 1)) with 16777216. lia. }
  destruct (N.eqb_spec k 8) as [K8'|K8'].
  { destruct (N.leb_spec v 72057594037927935) as [A|A]; [discriminate|].
    apply ret_ok in H as [H _]. injection H as <- <-. apply GOAL. split; [|lia].
    rewrite K8' in *. apply byte_len_unique; [lia| |assumption].
    change (256 ^ (8 - 1)) with 72057594037927936. lia. }
  destruct (top_nonzero x) eqn:TN; [|discriminate].
  apply ret_ok in H as [H _]. injection H as <- <-. apply GOAL.
  apply (top_nonzero_spec x (N.to_nat k)) in TN; [|exact L|lia]. rewrite <- Ev, N2Nat.id in TN.
  split; [exact TN|].
  apply (byte_len_bounds v k) in TN; [|lia]. destruct TN as [TL _].
  assert (K5 : 5 <= k).
  { destruct (N.eqb_spec k 4); [lia|]. destruct (N.eqb_spec k 8); [lia|]. cbn [orb] in SUP.
    apply andb_prop in SUP as [S _]. apply andb_prop in S as [_ S]. apply N.leb_le in S. exact S. }
  apply N.le_trans with (256 ^ 4); [change (256 ^ 4) with 4294967296; lia|].
  apply N.le_trans with (256 ^ (k - 1)); [|assumption]. apply N.pow_le_mono_r; lia.
Qed.

(* ------------------------------------------------------------------ decodeBigInt *)
Lemma dec_big_complete c bs n r :
  compact_decode bs = Some (n, r) -> succeeds (dec_big c bs) (n, r).
Proof.
  intros D. unfold compact_decode in D. destruct bs as [|b0 t]; [discriminate|].
  unfold dec_big. eapply succeeds_bind; [apply read_byte_app|]. cbv beta iota zeta.
  pose proof (b2n_lt b0) as B0. set (p := b2n b0) in *. rewrite !shiftr2, land3.
  destruct (N.eqb_spec (p mod 4) 0) as [M0|M0].
  { injection D as <- <-. apply succeeds_ret. }
  destruct (N.eqb_spec (p mod 4) 1) as [M1|M1].
  { destruct (take 1 t) as [[x r']|] eqn:T; [|discriminate].
    pose proof (take_spec _ _ _ _ T) as [-> L]. destruct x as [|b1 [|? ?]]; try discriminate L.
    rewrite le_val_single in D.
    eapply succeeds_bind; [apply read_byte_app|]. cbv beta iota zeta. rewrite shiftr2.
    remember ((p + 256 * b2n b1) / 4) as v eqn:Ev.
    destruct (N.leb_spec 64 v) as [G1|G1]; [|discriminate]. injection D as <- <-.
    destruct (N.leb_spec v 63); [lia|]. rewrite andb_false_r. apply succeeds_ret. }
  destruct (N.eqb_spec (p mod 4) 2) as [M2|M2].
  { destruct (take 3 t) as [[x r']|] eqn:T; [|discriminate].
    eapply succeeds_bind; [apply read_of_take; [lia|exact T]|]. cbv beta iota zeta. rewrite shiftr2.
    remember ((p + 256 * le_val x) / 4) as v eqn:Ev.
    destruct (N.leb_spec 16384 v) as [G1|G1]; [|discriminate]. injection D as <- <-.
    destruct (N.leb_spec v 16383); [lia|]. rewrite andb_false_r. apply succeeds_ret. }
  remember (p / 4 + 4) as k eqn:Ek.
  destruct (take (N.to_nat k) t) as [[x r']|] eqn:T; [|discriminate].
  pose proof (take_spec _ _ _ _ T) as [_ L].
  eapply succeeds_bind; [apply read_of_take; [lia|exact T]|]. cbv beta iota zeta.
  rewrite be_val_rev. remember (le_val x) as v eqn:Ev.
  destruct (N.eqb_spec (byte_len v) k) as [K|K]; [|discriminate].
  destruct (N.leb_spec 1073741824 v) as [G1|G1]; [|discriminate].
  cbn [andb] in D. injection D as <- <-.
  assert (TN : top_nonzero x = true).
  { apply (top_nonzero_spec x (N.to_nat k)); [exact L|lia|]. rewrite <- Ev, N2Nat.id. exact K. }
  rewrite TN. cbn [negb orb]. destruct (N.leb_spec v 1073741823); [lia|].
  rewrite andb_false_r. apply succeeds_ret.
Qed.

Lemma dec_big_sound c bs m n r m' :
  fix_read c = true -> fix_big c = true -> dec_big c bs m = (Ok (n, r), m') ->
  compact_decode bs = Some (n, r).
Proof.
  intros F FB H. unfold dec_big in H.
  apply bind_ok in H as ([b0 t] & m1 & R0 & H). apply read_byte_ok in R0 as ->.
  cbv beta iota zeta in H. unfold compact_decode.
  pose proof (b2n_lt b0) as B0. set (p := b2n b0) in *. rewrite !shiftr2, land3 in H. rewrite FB in H.
  cbn [andb] in H.
  destruct (N.eqb_spec (p mod 4) 0) as [M0|M0].
  { apply ret_ok in H as [H _]. injection H as <- <-. reflexivity. }
  destruct (N.eqb_spec (p mod 4) 1) as [M1|M1].
  { apply bind_ok in H as ([b1 r'] & m2 & R1 & H). apply read_byte_ok in R1 as ->.
    cbv beta iota zeta in H. rewrite shiftr2 in H.
    change (take 1 (b1 :: r')) with (take (length [b1]) ([b1] ++ r')). rewrite take_app, le_val_single.
    remember ((p + 256 * b2n b1) / 4) as v eqn:Ev.
    destruct (N.leb_spec v 63) as [A|A]; [discriminate|].
    apply ret_ok in H as [H _]. injection H as <- <-.
    destruct (N.leb_spec 64 v); [reflexivity|lia]. }
  destruct (N.eqb_spec (p mod 4) 2) as [M2|M2].
  { apply bind_ok in H as ([x r'] & m2 & R1 & H). apply (read_ok c _ _ _ _ _ _ F) in R1 as [-> L].
    cbv beta iota zeta in H. rewrite shiftr2 in H. rewrite <- L, take_app.
    remember ((p + 256 * le_val x) / 4) as v eqn:Ev.
    destruct (N.leb_spec v 16383) as [A|A]; [discriminate|].
    apply ret_ok in H as [H _]. injection H as <- <-.
    destruct (N.leb_spec 16384 v); [reflexivity|lia]. }
  remember (p / 4 + 4) as k eqn:Ek.
  apply bind_ok in H as ([x r'] & m2 & R1 & H). apply (read_ok c _ _ _ _ _ _ F) in R1 as [-> L].
  cbv beta iota zeta in H. rewrite <- L, take_app. rewrite be_val_rev in H.
  remember (le_val x) as v eqn:Ev.
  destruct (top_nonzero x) eqn:TN; [|discriminate]. cbn [negb orb] in H.
  destruct (N.leb_spec v 1073741823) as [A|A]; [discriminate|].
  apply ret_ok in H as [H _]. injection H as <- <-.
  apply (top_nonzero_spec x (N.to_nat k)) in TN; [|exact L|lia]. rewrite <- Ev, N2Nat.id in TN.
  rewrite TN, N.eqb_refl. destruct (N.leb_spec 1073741824 v); [reflexivity|lia].
Qed.

(* ------------------------------------------------------------------ decodeBytes *)
Lemma read_chunks_complete fuel len rd avail :
  rd <= len -> len <= avail ->
  (rd = len \/ (1 <= rd /\ len < rd * 2 ^ N.of_nat fuel)) ->
  succeeds (read_chunks fuel len rd avail) tt.
Proof.
  revert rd; induction fuel as [|f IH]; intros rd L A G.
  - cbn [read_chunks]. destruct (N.eqb_spec rd len) as [E|E]; [apply succeeds_ret|].
    exfalso. destruct G as [G|[G1 G2]]; [contradiction|]. change (2 ^ N.of_nat 0) with 1 in G2. lia.
  - cbn [read_chunks]. destruct (N.eqb_spec rd len) as [E|E]; [apply succeeds_ret|].
    destruct G as [G|[G1 G2]]; [contradiction|].
    apply succeeds_tick_seq.
    destruct (N.ltb_spec avail (rd + N.min (len - rd) rd)); [lia|].
    apply IH; [lia|lia|].
    destruct (N.le_gt_cases rd (len - rd)) as [C|C].
    + right. rewrite N.min_r by assumption. split; [lia|].
      rewrite Nat2N.inj_succ, N.pow_succ_r' in G2. lia.
    + left. rewrite N.min_l by lia. lia.
Qed.

Lemma read_chunks_sound fuel len rd avail m m' :
  read_chunks fuel len rd avail m = (Ok tt, m') -> rd <= len -> rd <= avail -> len <= avail.
Proof.
  revert rd m; induction fuel as [|f IH]; intros rd m H L A; cbn [read_chunks] in H.
  - destruct (N.eqb_spec rd len) as [E|E]; [lia|discriminate].
  - destruct (N.eqb_spec rd len) as [E|E]; [lia|].
    apply tick_seq_ok in H.
    destruct (N.ltb_spec avail (rd + N.min (len - rd) rd)) as [C|C]; [discriminate|].
    apply IH in H; lia.
Qed.

Lemma firstn_app_exact {A} (l r : list A) : firstn (length l) (l ++ r) = l.
Proof. rewrite firstn_app, Nat.sub_diag, firstn_O, app_nil_r. apply firstn_all. Qed.
Lemma skipn_app_exact {A} (l r : list A) : skipn (length l) (l ++ r) = r.
Proof. rewrite skipn_app, Nat.sub_diag, skipn_all. reflexivity. Qed.

Lemma uint57_small n : n < 4294967296 -> uint57 n = false.
Proof. intro H. unfold uint57. destruct (N.leb_spec 4294967296 n); [lia|reflexivity]. Qed.

Lemma dec_bytes_complete c (l r : list byte) :
  N.of_nat (length l) < 2 ^ 32 ->
  succeeds (dec_bytes c (compact_encode (N.of_nat (length l)) ++ l ++ r)) (l, r).
Proof.
  intro H. change (2 ^ 32) with 4294967296 in H. unfold dec_bytes.
  eapply succeeds_bind.
  { apply dec_uint_complete.
    - apply compact_decode_encode. apply N.lt_trans with 4294967296; [assumption|reflexivity].
    - apply N.lt_trans with 4294967296; [assumption|reflexivity].
    - right. now apply uint57_small. }
  cbv beta iota. set (len := N.of_nat (length l)) in *.
  destruct (N.ltb_spec 4294967295 len); [lia|].
  assert (NL : N.to_nat len = length l) by (unfold len; lia).
  destruct (fix_bytes c).
  - apply succeeds_tick_seq.
    assert (AV : len <= N.of_nat (length (l ++ r))) by (rewrite app_length; lia).
    destruct (N.ltb_spec (N.of_nat (length (l ++ r))) (N.min len max_prealloc)); [lia|].
    eapply succeeds_bind.
    + apply read_chunks_complete; [lia|assumption|].
      unfold max_prealloc. destruct (N.le_gt_cases len 4096) as [C|C].
      * left. lia.
      * right. rewrite N.min_r by lia. split; [lia|]. change (2 ^ N.of_nat 64) with 18446744073709551616. lia.
    + rewrite NL, firstn_app_exact, skipn_app_exact. apply succeeds_ret.
  - apply succeeds_tick_seq. destruct (N.eqb_spec len 0) as [E|E].
    + assert (l = []) by (destruct l; [reflexivity|cbn in len; lia]). subst l. apply succeeds_ret.
    + apply succeeds_lift. apply read_short_of_take; [lia|]. rewrite NL. apply take_app.
Qed.

Lemma dec_bytes_sound c bs m l r m' :
  fix_read c = true -> fix_bytes c = true -> dec_bytes c bs m = (Ok (l, r), m') ->
  bs = compact_encode (N.of_nat (length l)) ++ l ++ r /\ N.of_nat (length l) < 2 ^ 32.
Proof.
  intros F FB H. unfold dec_bytes in H.
  apply bind_ok in H as ([len r0] & m1 & U & H). apply (dec_uint_sound c _ _ _ _ _ F) in U as [U _].
  apply compact_encode_decode in U as [-> _]. cbv beta iota in H.
  destruct (N.ltb_spec 4294967295 len) as [A|A]; [discriminate|]. rewrite FB in H.
  apply tick_seq_ok in H.
  destruct (N.ltb_spec (N.of_nat (length r0)) (N.min len max_prealloc)) as [B|B]; [discriminate|].
  apply bind_ok in H as ([] & m2 & CH & H).
  apply read_chunks_sound in CH; [|lia|lia].
  apply ret_ok in H as [H _]. injection H as <- <-.
  assert (LL : length (firstn (N.to_nat len) r0) = N.to_nat len) by (apply firstn_length_le; lia).
  rewrite LL, N2Nat.id, firstn_skipn. split; [reflexivity|]. change (2 ^ 32) with 4294967296. lia.
Qed.
