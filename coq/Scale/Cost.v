(* Scale/Cost.v — the decoder's cost meter (bytes it asks `make` for + calls of unmarshal) is linear
   in the input:   decode c t bs m = (o, m')  ->  m' <= m + ca t + cb t * |bs|
   for a well-formed type t, provided decodeBytes is the repaired one (fix_bytes c) or the type
   has no []byte / string component (bytes_free t).  ca, cb are computed from the type.
   The pinned decodeBytes has no such bound (C12_bytes_overrun_refuted). *)
From Coq Require Import ZifyN ZifyNat ZifyBool.
From Common Require Import Bytes Outcome.
From Scale Require Import Compact CompactProofs BytesLemmas Types Spec Codec MonadLemmas LeafProofs Total.
Local Open Scope N_scope.
Local Open Scope m_scope.
Ltac Zify.zify_post_hook ::= Z.div_mod_to_equations.

Definition cu : N := 69.            (* decodeUint / decodeBigInt: ReadByte + at most 67 + 1 bytes *)

Fixpoint ca (t : ty) : N :=
  match t with
  | TU8 | TI8 | TBool => 2
  | TU16 | TI16 => 3
  | TU32 | TI32 => 5
  | TU64 | TI64 => 9
  | TUint | TInt | TBig => 1 + cu
  | TU128 => 17
  | TBytes | TStr => 1 + cu + 4096
  | TOption t' => 2 + ca t'
  | TResult a b => 2 + N.max (ca a) (ca b)
  | TEnum alts => 2 + ca_max alts
  | TArray n t' => 1 + N.of_nat n * ca t'
  | TSlice t' => 1 + cu + ca t'
  | TMap k v => 1 + cu + (ca k + ca v)
  | TStruct fs => 1 + ca_sum fs
  end
with ca_max (fs : tys) : N := match fs with TNil => 0 | TCons _ t r => N.max (ca t) (ca_max r) end
with ca_sum (fs : tys) : N := match fs with TNil => 0 | TCons _ t r => ca t + ca_sum r end.

Fixpoint cb (t : ty) : N :=
  match t with
  | TBytes | TStr => 4
  | TOption t' => cb t'
  | TResult a b => N.max (cb a) (cb b)
  | TEnum alts => cb_max alts
  | TArray _ t' => cb t'
  | TSlice t' => ca t' + cb t'
  | TMap k v => (ca k + ca v) + N.max (cb k) (cb v)
  | TStruct fs => cb_max fs
  | _ => 0
  end
with cb_max (fs : tys) : N := match fs with TNil => 0 | TCons _ t r => N.max (cb t) (cb_max r) end.

Fixpoint bytes_free (t : ty) : bool :=
  match t with
  | TBytes | TStr => false
  | TOption t' => bytes_free t'
  | TResult a b => bytes_free a && bytes_free b
  | TEnum alts => bytes_free_tys alts
  | TArray _ t' => bytes_free t'
  | TSlice t' => bytes_free t'
  | TMap k v => bytes_free k && bytes_free v
  | TStruct fs => bytes_free_tys fs
  | _ => true
  end
with bytes_free_tys (fs : tys) : bool :=
  match fs with TNil => true | TCons _ t r => bytes_free t && bytes_free_tys r end.

Definition len (l : list byte) : N := N.of_nat (length l).

(* bytes of bs consumed by an outcome (all of bs when it is not a success) *)
Definition used {A} (bs : list byte) (o : outcome (A * list byte)) : N :=
  match o with Ok (_, r) => len bs - len r | _ => len bs end.
Definition suffix_ok {A} (bs : list byte) (o : outcome (A * list byte)) : Prop :=
  match o with Ok (_, r) => len r <= len bs | _ => True end.

Definition bnd {A} (x : M (A * list byte)) (bs : list byte) (a b : N) : Prop :=
  forall m o m', x m = (o, m') -> m' <= m + a + b * used bs o /\ suffix_ok bs o.

Lemma bnd_weaken {A} (x : M (A * list byte)) bs a b a' b' : a <= a' -> b <= b' -> bnd x bs a b -> bnd x bs a' b'.
Proof.
  intros La Lb H m o m' E. destruct (H m o m' E) as [C S]. split; [|exact S].
  assert (b * used bs o <= b' * used bs o) by (apply N.mul_le_mono_r; exact Lb). lia.
Qed.

Lemma bnd_ret {A} (x : A) r bs b : len r <= len bs -> bnd (ret (x, r)) bs 0 b.
Proof.
  intros L m o m' E. unfold ret in E. injection E as <- <-. split; [|exact L].
  rewrite <- N.add_assoc. apply N.le_add_r.
Qed.

Lemma bnd_fail {A} bs b : bnd (@fail (A * list byte)) bs 0 b.
Proof. intros m o m' E. unfold fail in E. injection E as <- <-. split; [rewrite <- N.add_assoc; apply N.le_add_r|exact I]. Qed.

Lemma bnd_nofuel {A} bs b : bnd (@nofuel (A * list byte)) bs 0 b.
Proof. intros m o m' E. unfold nofuel in E. injection E as <- <-. split; [rewrite <- N.add_assoc; apply N.le_add_r|exact I]. Qed.

Lemma bnd_tick {A} k (y : M (A * list byte)) bs a b : bnd y bs a b -> bnd (tick k ;;; y) bs (k + a) b.
Proof.
  intros H m o m' E. unfold bind, tick in E. destruct (H _ _ _ E) as [C S]. split; [lia|exact S].
Qed.

Lemma bnd_bind {A B} (x : M (A * list byte)) (f : A * list byte -> M (B * list byte)) bs a1 a2 b :
  bnd x bs a1 b ->
  (forall v r, len r <= len bs -> bnd (f (v, r)) r a2 b) ->
  bnd (bind x f) bs (a1 + a2) b.
Proof.
  intros Hx Hf m o m' E. unfold bind in E. destruct (x m) as [[[v r]| | |] m1] eqn:Ex.
  - destruct (Hx m _ _ Ex) as [C1 S1]. cbn [used suffix_ok] in C1, S1.
    destruct (Hf v r S1 m1 o m' E) as [C2 S2]. split.
    + destruct o as [[w r']| | |]; cbn [used suffix_ok] in *; nia.
    + destruct o as [[w r']| | |]; cbn [suffix_ok] in *; lia.
  - destruct (Hx m _ _ Ex) as [C1 _]. injection E as <- <-. cbn [used] in *. split; [lia|exact I].
  - destruct (Hx m _ _ Ex) as [C1 _]. injection E as <- <-. cbn [used] in *. split; [lia|exact I].
  - destruct (Hx m _ _ Ex) as [C1 _]. injection E as <- <-. cbn [used] in *. split; [lia|exact I].
Qed.

Lemma bnd_if {A} (c : bool) (x y : M (A * list byte)) bs a b : bnd x bs a b -> bnd y bs a b -> bnd (if c then x else y) bs a b.
Proof. destruct c; auto. Qed.

Lemma bnd_lift {A} (o : option (A * list byte)) bs b :
  (forall v r, o = Some (v, r) -> len r <= len bs) -> bnd (lift o) bs 0 b.
Proof. intro H. destruct o as [[v r]|]; cbn [lift]; [apply bnd_ret; exact (H v r eq_refl)|apply bnd_fail]. Qed.

Lemma bnd_read_byte bs b : bnd (read_byte bs) bs 1 b.
Proof.
  unfold read_byte. apply (bnd_tick 1 _ bs 0 b). destruct bs as [|x r]; [apply bnd_fail|].
  apply bnd_ret. unfold len. cbn [length]. lia.
Qed.

Lemma take_len k l x r : take k l = Some (x, r) -> len r <= len l.
Proof. intro H. apply take_spec in H as [-> L]. unfold len. rewrite app_length. lia. Qed.

Section Cost.
Variable c : cfg.
Hypothesis Hread : fix_read c = true.
Hypothesis Hmap : fix_map c = true.

Lemma bnd_read k bs b : bnd (read c k bs) bs (N.of_nat k) b.
Proof.
  unfold read. rewrite Hread.
  apply (bnd_weaken _ _ (N.of_nat k + 0) b); [lia|lia|]. apply bnd_tick, bnd_lift.
  intros v r H. rewrite read_exact_take in H. now apply take_len in H.
Qed.

(* the prefix byte gives at most 67 following bytes *)
Lemma prefix_len (b0 : byte) : N.of_nat (N.to_nat (N.shiftr (b2n b0) 2 + 4)) <= 67.
Proof. pose proof (b2n_lt b0). rewrite shiftr2. lia. Qed.

Lemma bnd_dec_uint bs b : bnd (dec_uint c bs) bs cu b.
Proof.
  unfold dec_uint, cu. change 69 with (1 + 68). apply bnd_bind; [apply bnd_read_byte|].
  intros b0 r L. cbv beta iota zeta.
  repeat apply bnd_if.
  - apply (bnd_weaken _ _ 0 b); [lia|lia|]. apply bnd_ret; apply N.le_refl.
  - change 68 with (1 + 67). apply bnd_bind; [apply bnd_read_byte|].
    intros b1 r' L'. apply bnd_if; (apply (bnd_weaken _ _ 0 b); [lia|lia|]; first [apply bnd_fail|apply bnd_ret; apply N.le_refl]).
  - change 68 with (3 + 65). apply bnd_bind; [apply (bnd_read 3)|].
    intros x r' L'. cbv beta iota. apply bnd_if; (apply (bnd_weaken _ _ 0 b); [lia|lia|]; first [apply bnd_fail|apply bnd_ret; apply N.le_refl]).
  - apply (bnd_weaken _ _ 0 b); [lia|lia|]. apply bnd_fail.
  - apply (bnd_weaken _ _ (N.of_nat (N.to_nat (N.shiftr (b2n b0) 2 + 4)) + 0) b); [pose proof (prefix_len b0); lia|lia|].
    apply bnd_bind; [apply bnd_read|].
    intros x r' L'. cbv beta iota zeta.
    repeat apply bnd_if; first [apply bnd_fail|apply bnd_ret; apply N.le_refl].
Qed.

Lemma bnd_dec_big bs b : bnd (dec_big c bs) bs cu b.
Proof.
  unfold dec_big, cu. change 69 with (1 + 68). apply bnd_bind; [apply bnd_read_byte|].
  intros b0 r L. cbv beta iota zeta.
  repeat apply bnd_if.
  - apply (bnd_weaken _ _ 0 b); [lia|lia|]. apply bnd_ret; apply N.le_refl.
  - change 68 with (1 + 67). apply bnd_bind; [apply bnd_read_byte|].
    intros b1 r' L'. apply bnd_if; (apply (bnd_weaken _ _ 0 b); [lia|lia|]; first [apply bnd_fail|apply bnd_ret; apply N.le_refl]).
  - change 68 with (3 + 65). apply bnd_bind; [apply (bnd_read 3)|].
    intros x r' L'. cbv beta iota. apply bnd_if; (apply (bnd_weaken _ _ 0 b); [lia|lia|]; first [apply bnd_fail|apply bnd_ret; apply N.le_refl]).
  - apply (bnd_weaken _ _ (N.of_nat (N.to_nat (N.shiftr (b2n b0) 2 + 4)) + 0) b); [pose proof (prefix_len b0); lia|lia|].
    apply bnd_bind; [apply bnd_read|].
    intros x r' L'. cbv beta iota zeta. apply bnd_if; first [apply bnd_fail|apply bnd_ret; apply N.le_refl].
Qed.

(* the chunk loop: whatever happens, the allocations are within four times the bytes present *)
Lemma read_chunks_done fuel l avail m : read_chunks fuel l l avail m = (Ok tt, m).
Proof. destruct fuel; cbn [read_chunks]; rewrite N.eqb_refl; reflexivity. Qed.

Lemma chunks_cost fuel l rd avail m o m' :
  read_chunks fuel l rd avail m = (o, m') -> rd <= l -> rd <= avail ->
  m' + 2 * rd <= m + 4 * (match o with Ok _ => l | _ => avail end) /\
  (match o with Ok _ => l <= avail | _ => True end).
Proof.
  revert rd m; induction fuel as [|f IH]; intros rd m E L A; cbn [read_chunks] in E.
  - destruct (N.eqb_spec rd l) as [Q|Q]; injection E as <- <-; split; try lia; exact I.
  - destruct (N.eqb_spec rd l) as [Q|Q]; [injection E as <- <-; split; lia|].
    unfold bind, tick in E. set (g := N.min (l - rd) rd) in *.
    destruct (N.ltb_spec avail (rd + g)) as [B|B].
    + injection E as <- <-. split; [lia|exact I].
    + destruct (N.le_gt_cases rd (l - rd)) as [D|D].
      * assert (g = rd) by (unfold g; lia).
        destruct (IH (rd + g) (m + (rd + g)) E) as [C1 C2]; [lia|lia|]. split; [lia|exact C2].
      * assert (Gq : rd + g = l) by (unfold g; lia). rewrite Gq in E.
        rewrite read_chunks_done in E. injection E as <- <-. split; lia.
Qed.
Lemma bnd_chunks fuel l c0 (r : list byte) :
  c0 <= l -> c0 <= len r ->
  bnd (read_chunks fuel l c0 (N.of_nat (length r)) ;;;
       ret (firstn (N.to_nat l) r, skipn (N.to_nat l) r)) r 0 4.
Proof.
  intros L A m o m' E. unfold bind in E.
  destruct (read_chunks fuel l c0 (N.of_nat (length r)) m) as [o1 m1] eqn:RC.
  destruct (chunks_cost _ _ _ _ _ _ _ RC L A) as [C1 C2].
  destruct o1 as [[]| | |].
  - unfold ret in E. injection E as <- <-. cbn [used suffix_ok]. unfold len in *.
    rewrite skipn_length. split; lia.
  - injection E as <- <-. cbn [used suffix_ok]. unfold len in *. split; [lia|exact I].
  - injection E as <- <-. cbn [used suffix_ok]. unfold len in *. split; [lia|exact I].
  - injection E as <- <-. cbn [used suffix_ok]. unfold len in *. split; [lia|exact I].
Qed.

Lemma bnd_dec_bytes bs : fix_bytes c = true -> bnd (dec_bytes c bs) bs (cu + 4096) 4.
Proof.
  intro FB. unfold dec_bytes. rewrite FB.
  apply bnd_bind; [apply bnd_dec_uint|].
  intros l r L. cbv beta iota. apply bnd_if; [apply (bnd_weaken _ _ 0 4); [lia|lia|apply bnd_fail]|].
  apply (bnd_weaken _ _ (N.min l max_prealloc + 0) 4); [unfold max_prealloc; lia|lia|].
  apply bnd_tick.
  destruct (N.ltb_spec (N.of_nat (length r)) (N.min l max_prealloc)) as [B|B]; [apply bnd_fail|].
  apply bnd_chunks; [lia|exact B].
Qed.

(* ---- loops *)
Lemma bnd_array (dec : list byte -> M (value * list byte)) a b :
  (forall bs, bnd (dec bs) bs a b) -> forall n bs, bnd (dec_array dec n bs) bs (N.of_nat n * a) b.
Proof.
  intros H. induction n as [|n IH]; intro bs; cbn [dec_array].
  - apply bnd_ret. apply N.le_refl.
  - apply (bnd_weaken _ _ (a + (N.of_nat n * a + 0)) b); [lia|lia|].
    apply bnd_bind; [apply H|]. intros v r L. cbv beta iota.
    apply bnd_bind; [apply IH|]. intros vs r' L'. cbv beta iota. apply bnd_ret. apply N.le_refl.
Qed.

(* an element decoder that costs at most a + b * (bytes it used) and uses at least one byte when
   it succeeds: the loop costs at most a + (a + b) * (bytes used) *)
Definition eats (dec : list byte -> M (value * list byte)) : Prop :=
  forall bs m v r m', dec bs m = (Ok (v, r), m') -> len r + 1 <= len bs.

Lemma bnd_loop (dec : list byte -> M (value * list byte)) a b :
  (forall bs, bnd (dec bs) bs a b) -> eats dec ->
  forall fuel cnt bs, bnd (dec_loop dec fuel cnt bs) bs a (a + b).
Proof.
  intros H EA. induction fuel as [|f IH]; intros cnt bs; cbn [dec_loop].
  - destruct (cnt =? 0); [apply (bnd_weaken _ _ 0 (a + b)); [lia|lia|apply bnd_ret, N.le_refl]|].
    apply (bnd_weaken _ _ 0 (a + b)); [lia|lia|apply bnd_nofuel].
  - destruct (cnt =? 0); [apply (bnd_weaken _ _ 0 (a + b)); [lia|lia|apply bnd_ret, N.le_refl]|].
    intros m o m' E. unfold bind in E.
    destruct (dec bs m) as [[[v r]| | |] m1] eqn:D.
    + destruct (H bs m _ _ D) as [C1 S1]. cbn [used suffix_ok] in C1, S1.
      pose proof (EA _ _ _ _ _ D) as U.
      destruct (dec_loop dec f (cnt - 1) r m1) as [[[vs r']| | |] m2] eqn:DL;
        destruct (IH (cnt - 1) r m1 _ _ DL) as [C2 S2]; cbn [used suffix_ok] in C2, S2;
        unfold ret in E; injection E as <- <-; cbn [used suffix_ok]; split; try exact I; nia.
    + destruct (H bs m _ _ D) as [C1 _]. injection E as <- <-. cbn [used] in *. split; [nia|exact I].
    + destruct (H bs m _ _ D) as [C1 _]. injection E as <- <-. cbn [used] in *. split; [nia|exact I].
    + destruct (H bs m _ _ D) as [C1 _]. injection E as <- <-. cbn [used] in *. split; [nia|exact I].
Qed.

Lemma bnd_map_loop (deck decv : list byte -> M (value * list byte)) ak av b :
  (forall bs, bnd (deck bs) bs ak b) -> (forall bs, bnd (decv bs) bs av b) -> eats deck ->
  forall fuel cnt lo bs, bnd (dec_map_loop c deck decv fuel cnt lo bs) bs (ak + av) (ak + av + b).
Proof.
  intros Hk Hv EA. induction fuel as [|f IH]; intros cnt lo bs; cbn [dec_map_loop].
  - destruct (cnt =? 0); [apply (bnd_weaken _ _ 0 (ak + av + b)); [lia|lia|apply bnd_ret, N.le_refl]|].
    apply (bnd_weaken _ _ 0 (ak + av + b)); [lia|lia|apply bnd_nofuel].
  - destruct (cnt =? 0); [apply (bnd_weaken _ _ 0 (ak + av + b)); [lia|lia|apply bnd_ret, N.le_refl]|].
    rewrite Hmap. cbn [negb].
    intros m o m' E. unfold bind in E.
    destruct (deck bs m) as [[[k r1]| | |] m1] eqn:DK.
    2-4: destruct (Hk bs m _ _ DK) as [C1 _]; injection E as <- <-; cbn [used] in *; split; [nia|exact I].
    destruct (Hk bs m _ _ DK) as [C1 S1]. cbn [used suffix_ok] in C1, S1.
    pose proof (EA _ _ _ _ _ DK) as U.
    destruct (decv r1 m1) as [[[v r2]| | |] m2] eqn:DV.
    2-4: destruct (Hv r1 m1 _ _ DV) as [C2 _]; injection E as <- <-; cbn [used] in *; split; [nia|exact I].
    destruct (Hv r1 m1 _ _ DV) as [C2 S2]. cbn [used suffix_ok] in C2, S2.
    destruct (strict_map c && negb (key_above lo k)).
    { unfold fail in E. injection E as <- <-. cbn [used]. split; [nia|exact I]. }
    destruct (dec_map_loop c deck decv f (cnt - 1) (key_n k) r2 m2) as [[[kvs r']| | |] m3] eqn:DL;
      destruct (IH (cnt - 1) (key_n k) r2 m2 _ _ DL) as [C3 S3]; cbn [used suffix_ok] in C3, S3;
      unfold ret in E; injection E as <- <-; cbn [used suffix_ok]; split; try exact I; nia.
Qed.
(* ---- the decoder *)
Definition okb (t : ty) : Prop := fix_bytes c = true \/ bytes_free t = true.
Definition okbs (fs : tys) : Prop := fix_bytes c = true \/ bytes_free_tys fs = true.
Definition cost_ty (t : ty) : Prop :=
  wf_ty t = true -> okb t -> forall bs, bnd (decode c t bs) bs (ca t) (cb t).
Definition cost_tys (fs : tys) : Prop :=
  wf_tys fs = true -> okbs fs ->
  (forall bs, bnd (decode_fields c fs bs) bs (ca_sum fs) (cb_max fs)) /\
  (forall i bs, bnd (decode_alt c fs i bs) bs (ca_max fs) (cb_max fs)).

Lemma okb_and a b : (fix_bytes c = true \/ a && b = true) -> (fix_bytes c = true \/ a = true) /\ (fix_bytes c = true \/ b = true).
Proof. intros [H|H]; [now split; left|]. apply andb_prop in H as [-> ->]. now split; right. Qed.

Lemma eats_decode t : wf_ty t = true -> (1 <= min_size t)%nat -> eats (decode c t).
Proof.
  intros W M bs m v r m' E. pose proof (decode_consumes c Hread Hmap t bs m v r m' W E). unfold len. lia.
Qed.

Ltac leaf K rd :=
  intros _ _ bs; cbn [decode ca cb];
  apply (bnd_weaken _ _ (1 + (K + 0)) 0); [unfold cu; lia|lia|];
  apply bnd_tick; apply bnd_bind; [apply rd|];
  intros x r L; cbv beta iota; apply bnd_ret, N.le_refl.

Lemma cost_all : forall t, cost_ty t.
Proof.
  apply (ty_mut cost_ty cost_tys); unfold cost_ty, cost_tys.
  - leaf 1 bnd_read_byte.
  - leaf 2 (bnd_read 2).
  - leaf 4 (bnd_read 4).
  - leaf 8 (bnd_read 8).
  - leaf 1 bnd_read_byte.
  - leaf 2 (bnd_read 2).
  - leaf 4 (bnd_read 4).
  - leaf 8 (bnd_read 8).
  - leaf cu bnd_dec_uint.
  - leaf cu bnd_dec_uint.
  - leaf cu bnd_dec_big.
  - (* TU128 *) intros _ _ bs. cbn [decode ca cb].
    apply (bnd_weaken _ _ (1 + (16 + (0 + 0))) 0); [lia|lia|].
    apply bnd_tick, bnd_tick. apply bnd_bind.
    + apply bnd_lift. intros v r H. rewrite read_exact_take in H. now apply take_len in H.
    + intros x r L. cbv beta iota. apply bnd_ret, N.le_refl.
  - (* TBool *) intros _ _ bs. cbn [decode ca cb].
    apply (bnd_weaken _ _ (1 + (1 + 0)) 0); [lia|lia|]. apply bnd_tick. apply bnd_bind; [apply bnd_read_byte|].
    intros x r L. cbv beta iota. destruct (bool_of_byte x); [apply bnd_ret, N.le_refl|apply bnd_fail].
  - (* TBytes *) intros _ [FB|FB] bs; [|discriminate FB]. cbn [decode ca cb].
    apply (bnd_weaken _ _ (1 + ((cu + 4096) + 0)) 4); [lia|lia|]. apply bnd_tick.
    apply bnd_bind; [now apply bnd_dec_bytes|]. intros x r L. cbv beta iota. apply bnd_ret, N.le_refl.
  - (* TStr *) intros _ [FB|FB] bs; [|discriminate FB]. cbn [decode ca cb].
    apply (bnd_weaken _ _ (1 + ((cu + 4096) + 0)) 4); [lia|lia|]. apply bnd_tick.
    apply bnd_bind; [now apply bnd_dec_bytes|]. intros x r L. cbv beta iota. apply bnd_ret, N.le_refl.
  - (* TOption *) intros t IH W B bs. cbn [decode ca cb wf_ty bytes_free] in *.
    apply (bnd_weaken _ _ (1 + (1 + (ca t + 0))) (cb t)); [lia|lia|]. apply bnd_tick.
    apply bnd_bind; [apply bnd_read_byte|]. intros x r L. cbv beta iota.
    destruct (bool_of_byte x) as [[|]|].
    + apply bnd_bind; [apply (IH W B)|]. intros v r' L'. cbv beta iota. apply bnd_ret, N.le_refl.
    + apply (bnd_weaken _ _ 0 (cb t)); [lia|lia|]. apply bnd_ret, N.le_refl.
    + apply (bnd_weaken _ _ 0 (cb t)); [lia|lia|]. apply bnd_fail.
  - (* TResult *) intros a IHa b IHb W B bs. cbn [decode ca cb wf_ty bytes_free] in *.
    apply andb_prop in W as [W1 W2]. apply okb_and in B as [B1 B2].
    apply (bnd_weaken _ _ (1 + (1 + (N.max (ca a) (ca b) + 0))) (N.max (cb a) (cb b))); [lia|lia|]. apply bnd_tick.
    apply bnd_bind; [apply bnd_read_byte|]. intros x r L. cbv beta iota.
    destruct (bool_of_byte x) as [[|]|].
    + apply bnd_bind; [eapply bnd_weaken; [| |apply (IHb W2 B2)]; lia|].
      intros v r' L'. cbv beta iota. apply bnd_ret, N.le_refl.
    + apply bnd_bind; [eapply bnd_weaken; [| |apply (IHa W1 B1)]; lia|].
      intros v r' L'. cbv beta iota. apply bnd_ret, N.le_refl.
    + apply (bnd_weaken _ _ 0 (N.max (cb a) (cb b))); [lia|lia|]. apply bnd_fail.
  - (* TEnum *) intros alts IH W B bs. cbn [decode ca cb wf_ty bytes_free] in *.
    apply andb_prop in W as [W1 W2].
    apply (bnd_weaken _ _ (1 + (1 + ca_max alts)) (cb_max alts)); [lia|lia|]. apply bnd_tick.
    apply bnd_bind; [apply bnd_read_byte|]. intros x r L. cbv beta iota. apply (proj2 (IH W2 B)).
  - (* TArray *) intros n t IH W B bs. cbn [decode ca cb wf_ty bytes_free] in *.
    apply (bnd_weaken _ _ (1 + (N.of_nat n * ca t + 0)) (cb t)); [lia|lia|]. apply bnd_tick.
    apply bnd_bind; [apply bnd_array; apply (IH W B)|]. intros vs r L. cbv beta iota. apply bnd_ret, N.le_refl.
  - (* TSlice *) intros t IH W B bs. cbn [decode ca cb wf_ty bytes_free] in *.
    apply andb_prop in W as [W1 W2]. apply Nat.leb_le in W2.
    apply (bnd_weaken _ _ (1 + (cu + (ca t + 0))) (ca t + cb t)); [lia|lia|]. apply bnd_tick.
    apply bnd_bind; [apply bnd_dec_uint|]. intros cnt r L. cbv beta iota.
    apply bnd_bind; [apply bnd_loop; [apply (IH W1 B)|now apply eats_decode]|].
    intros vs r' L'. cbv beta iota. apply bnd_ret, N.le_refl.
  - (* TMap *) intros kt IHk vt IHv W B bs. cbn [decode ca cb wf_ty bytes_free] in *.
    apply andb_prop in W as [W1 W2]. apply okb_and in B as [B1 B2].
    assert (Wk : wf_ty kt = true) by (destruct kt; try discriminate W1; reflexivity).
    assert (Mk : (1 <= min_size kt)%nat) by (destruct kt; try discriminate W1; cbn; lia).
    apply (bnd_weaken _ _ (1 + (cu + ((ca kt + ca vt) + 0))) (ca kt + ca vt + N.max (cb kt) (cb vt))); [lia|lia|].
    apply bnd_tick.
    apply bnd_bind; [apply bnd_dec_uint|]. intros cnt r L. cbv beta iota.
    apply bnd_bind.
    + apply bnd_map_loop; [| |now apply eats_decode].
      * intro bs'. eapply bnd_weaken; [| |apply (IHk Wk B1)]; lia.
      * intro bs'. eapply bnd_weaken; [| |apply (IHv W2 B2)]; lia.
    + intros raw r' L'. cbv beta iota. apply bnd_ret, N.le_refl.
  - (* TStruct *) intros fs IH W B bs. cbn [decode ca cb wf_ty bytes_free] in *.
    apply (bnd_weaken _ _ (1 + (ca_sum fs + 0)) (cb_max fs)); [lia|lia|]. apply bnd_tick.
    apply bnd_bind; [apply (proj1 (IH W B))|]. intros vs r L. cbv beta iota. apply bnd_ret, N.le_refl.
  - (* TNil *) intros _ _. split; intros; cbn [decode_fields decode_alt ca_sum ca_max cb_max].
    + apply bnd_ret, N.le_refl.
    + apply bnd_fail.
  - (* TCons *) intros tag t IHt fr IHf W B. cbn [wf_tys bytes_free_tys] in *.
    apply andb_prop in W as [W1 W2]. apply okb_and in B as [B1 B2]. split.
    + intro bs. cbn [decode_fields ca_sum cb_max].
      apply (bnd_weaken _ _ (ca t + (ca_sum fr + 0)) (N.max (cb t) (cb_max fr))); [lia|lia|].
      apply bnd_bind; [eapply bnd_weaken; [| |apply (IHt W1 B1)]; lia|]. intros v r L. cbv beta iota.
      apply bnd_bind; [eapply bnd_weaken; [| |apply (proj1 (IHf W2 B2))]; lia|].
      intros vs r' L'. cbv beta iota. apply bnd_ret, N.le_refl.
    + intros i bs. cbn [decode_alt ca_max cb_max].
      assert (REST : bnd (decode_alt c fr i bs) bs (N.max (ca t) (ca_max fr)) (N.max (cb t) (cb_max fr))).
      { eapply bnd_weaken; [| |apply (proj2 (IHf W2 B2))]; lia. }
      destruct tag as [j|]; [|exact REST]. destruct (j =? i); [|exact REST].
      apply (bnd_weaken _ _ (ca t + 0) (N.max (cb t) (cb_max fr))); [lia|lia|].
      apply bnd_bind; [eapply bnd_weaken; [| |apply (IHt W1 B1)]; lia|].
      intros v r L. cbv beta iota. apply bnd_ret, N.le_refl.
Qed.

Theorem decode_cost_linear t bs :
  wf_ty t = true -> (fix_bytes c = true \/ bytes_free t = true) ->
  decode_cost c t bs <= ca t + cb t * len bs.
Proof.
  intros W B. unfold decode_cost, run_decode. destruct (decode c t bs 0) as [o m'] eqn:E. cbn [snd].
  destruct (cost_all t W B bs 0 o m' E) as [C _].
  assert (used bs o <= len bs) by (destruct o as [[v r]| | |]; cbn [used]; lia).
  assert (cb t * used bs o <= cb t * len bs) by (apply N.mul_le_mono_l; assumption). lia.
Qed.
End Cost.
