(* Scale/EncodeProofs.v — the Go encoder model (Codec.encode) produces the canonical encoding
   (Spec.spec_encode) on every well-typed value. *)
From Coq Require Import ZifyN ZifyNat ZifyBool.
From Common Require Import Bytes Outcome.
From Scale Require Import Compact CompactProofs BytesLemmas Types Spec Codec.
Local Open Scope N_scope.
Ltac Zify.zify_post_hook ::= Z.div_mod_to_equations.

(* ---- encodeUint's byte-count loop computes the minimal byte length *)
Lemma num_bytes_loop_spec fuel m cnt :
  byte_len m <= N.of_nat fuel -> num_bytes_loop fuel m cnt = cnt + byte_len m.
Proof.
  revert m cnt; induction fuel as [|f IH]; intros m cnt H.
  - cbn [num_bytes_loop]. assert (byte_len m = 0) by lia. lia.
  - cbn [num_bytes_loop]. destruct (N.eqb_spec m 0) as [->|NZ].
    + rewrite byte_len_0. lia.
    + rewrite N.shiftr_div_pow2. change (2 ^ 8) with 256.
      pose proof (byte_len_shift m NZ) as S. rewrite IH by lia. lia.
Qed.

Lemma go_num_bytes_spec i : i < 2 ^ 64 -> go_num_bytes i = byte_len i.
Proof.
  intro H. unfold go_num_bytes. rewrite num_bytes_loop_spec; [lia|].
  assert (byte_len i <= 67) by (apply byte_len_le_67; apply N.lt_trans with (2 ^ 64); [assumption|reflexivity]).
  change (N.of_nat 256) with 256. lia.
Qed.

Lemma byte_len_le_8 i : i < 2 ^ 64 -> byte_len i <= 8.
Proof.
  intro H. destruct (N.eq_dec i 0) as [->|NZ]; [cbn; lia|].
  pose proof (byte_len_lower i NZ) as L.
  destruct (N.le_gt_cases (byte_len i) 8) as [C|C]; [assumption|exfalso].
  assert (256 ^ 8 <= 256 ^ (byte_len i - 1)) by (apply N.pow_le_mono_r; lia).
  change (256 ^ 8) with (2 ^ 64) in H0. lia.
Qed.

Lemma shiftl2 i : N.shiftl i 2 = 4 * i.
Proof. rewrite N.shiftl_mul_pow2. change (2 ^ 2) with 4. lia. Qed.

Theorem go_encode_uint_canonical n : n < 2 ^ 64 -> go_encode_uint n = compact_encode n.
Proof.
  intro H. unfold go_encode_uint, compact_encode. rewrite !shiftl2.
  destruct (n <? 64); [reflexivity|]. destruct (n <? 16384); [reflexivity|].
  destruct (N.ltb_spec n 1073741824) as [C|C]; [reflexivity|].
  rewrite go_num_bytes_spec by assumption.
  f_equal. apply firstn_le_bytes. pose proof (byte_len_le_8 n H). lia.
Qed.

(* ---- big.Int.Bytes() reversed is the minimal little-endian form *)
Lemma byte_len_le_size n : (N.to_nat (byte_len n) <= N.to_nat (N.size n))%nat.
Proof. unfold byte_len. assert ((N.size n + 7) / 8 <= N.size n) by lia. lia. Qed.

Lemma rev_go_big_bytes n : rev (go_big_bytes n) = le_bytes (N.to_nat (byte_len n)) n.
Proof.
  unfold go_big_bytes, be_bytes.
  change (rev (strip_leading_zeros (rev ?l))) with (strip_trailing_zeros l).
  apply strip_trailing_le_bytes. apply byte_len_le_size.
Qed.

Lemma go_big_bytes_length n : N.of_nat (length (go_big_bytes n)) = byte_len n.
Proof. rewrite <- rev_length, rev_go_big_bytes, le_bytes_length. lia. Qed.

Theorem go_encode_big_canonical n : go_encode_big n = compact_encode n.
Proof.
  unfold go_encode_big, compact_encode. rewrite !shiftl2.
  destruct (n <? 64); [reflexivity|]. destruct (n <? 16384); [reflexivity|].
  destruct (n <? 1073741824); [reflexivity|].
  rewrite go_big_bytes_length, rev_go_big_bytes. reflexivity.
Qed.

(* ---- Uint128 *)
Theorem go_encode_u128_canonical n : go_encode_u128 n = le_bytes 16 n.
Proof.
  unfold go_encode_u128.
  assert (E : le_bytes 8 (N.land n 18446744073709551615) ++ le_bytes 8 (N.shiftr n 64) = le_bytes 16 n).
  { change 16%nat with (8 + 8)%nat. rewrite le_bytes_app. f_equal.
    - change 18446744073709551615 with (N.ones 64). rewrite N.land_ones.
      change (2 ^ 64) with (256 ^ N.of_nat 8). apply le_bytes_mod.
    - rewrite N.shiftr_div_pow2. reflexivity. }
  rewrite E. rewrite <- (le_bytes_length 16 n) at 1. apply pad_back_strip_trailing.
Qed.

(* ---- the encoder is canonical on well-typed values *)
Lemma in_z_wrap_lt bytes z : in_z (8 * Z.of_nat bytes) z = true -> wrap bytes z < 2 ^ (8 * N.of_nat bytes).
Proof.
  intros _. unfold wrap.
  assert (0 <= z mod 2 ^ (8 * Z.of_nat bytes) < 2 ^ (8 * Z.of_nat bytes))%Z as B
    by (apply Z.mod_pos_bound; apply Z.pow_pos_nonneg; lia).
  apply N2Z.inj_lt. rewrite Z2N.id by lia. rewrite N2Z.inj_pow. 
  replace (Z.of_N (8 * N.of_nat bytes)) with (8 * Z.of_nat bytes)%Z by lia. apply B.
Qed.

Lemma wrap_twos bytes z : wrap bytes z = twos bytes z.
Proof. reflexivity. Qed.

Lemma len_lt_64 k : N.of_nat k <? 2 ^ 32 = true -> N.of_nat k < 2 ^ 64.
Proof. intro H. apply N.ltb_lt in H. apply N.lt_trans with (2 ^ 32); [assumption|reflexivity]. Qed.

Definition canon_value (v : value) : Prop :=
  forall t, has_type v t = true -> encode t v = spec_encode t v.
Definition canon_vals (vs : vals) : Prop :=
  (forall t, all_type vs t = true -> encode_all t vs = spec_encode_all t vs) /\
  (forall fs, has_types vs fs = true -> encode_fields fs vs = spec_encode_fields fs vs).
Definition canon_kvals (kvs : kvals) : Prop :=
  forall kt vt lo, kv_type kvs kt vt lo = true -> encode_kvs kt vt kvs = spec_encode_kvs kt vt kvs.

Lemma canon_all : (forall v, canon_value v).
Proof.
  apply (value_mut canon_value canon_vals canon_kvals); unfold canon_value, canon_vals, canon_kvals.
  - (* VN *) intros n t H. destruct t; try discriminate H; cbn [encode spec_encode]; try reflexivity.
    + apply go_encode_uint_canonical. now apply N.ltb_lt.
    + apply go_encode_big_canonical.
    + apply go_encode_u128_canonical.
  - (* VZ *) intros z t H. destruct t; try discriminate H; cbn [encode spec_encode]; try reflexivity.
    apply go_encode_uint_canonical.
    change (2 ^ 64) with (2 ^ (8 * N.of_nat 8)). apply in_z_wrap_lt. exact H.
  - (* VBool *) intros b t H. destruct t; try discriminate H. reflexivity.
  - (* VBytes *) intros l t H.
    assert (L : forall k, (N.of_nat k <? 2 ^ 32) = true ->
                go_encode_uint (N.of_nat k) ++ l = spec_seq_prefix k ++ l).
    { intros k Hk. unfold spec_seq_prefix. rewrite go_encode_uint_canonical; [reflexivity|].
      apply len_lt_64. exact Hk. }
    destruct t; try discriminate H; cbn [encode spec_encode has_type] in *; apply L; exact H.
  - (* VNone *) intros t H. destruct t; try discriminate H. reflexivity.
  - (* VSome *) intros v IH t H. destruct t; try discriminate H. cbn [encode spec_encode]. f_equal. apply IH. exact H.
  - (* VOk *) intros v IH t H. destruct t; try discriminate H. cbn [encode spec_encode]. f_equal. apply IH. exact H.
  - (* VErr *) intros v IH t H. destruct t; try discriminate H. cbn [encode spec_encode]. f_equal. apply IH. exact H.
  - (* VEnum *) intros i v IH t H. destruct t; try discriminate H. cbn [encode spec_encode has_type] in *.
    destruct (alt_lookup alts i); [|discriminate]. f_equal. apply IH. exact H.
  - (* VList *) intros vs [IHa IHf] t H. destruct t; try discriminate H; cbn [encode spec_encode has_type] in *.
    + apply andb_prop in H as [H _]. now apply IHa.
    + apply andb_prop in H as [H L]. unfold spec_seq_prefix.
      rewrite go_encode_uint_canonical by (now apply N.ltb_lt). f_equal. now apply IHa.
    + now apply IHf.
  - (* VMap *) intros kvs IH t H. destruct t; try discriminate H; cbn [encode spec_encode has_type] in *.
    apply andb_prop in H as [H L]. unfold spec_seq_prefix.
    rewrite go_encode_uint_canonical by (now apply N.ltb_lt). f_equal. eapply IH; eassumption.
  - (* VNil *) split; intros; reflexivity.
  - (* VCons *) intros v IHv r [IHa IHf]. split.
    + intros t H. cbn [all_type encode_all spec_encode_all] in *. apply andb_prop in H as [H1 H2].
      rewrite IHv, IHa by assumption. reflexivity.
    + intros fs H. destruct fs as [|tag t fr]; [discriminate|].
      cbn [has_types encode_fields spec_encode_fields] in *. apply andb_prop in H as [H1 H2].
      rewrite IHv, IHf by assumption. reflexivity.
  - (* KNil *) intros; reflexivity.
  - (* KCons *) intros k IHk v IHv r IHr kt vt lo H.
    cbn [kv_type encode_kvs spec_encode_kvs] in *.
    apply andb_prop in H as [H H4]. apply andb_prop in H as [H H3]. apply andb_prop in H as [H1 H2].
    rewrite IHk, IHv by assumption. rewrite (IHr kt vt _ H4). reflexivity.
Qed.

Theorem encode_canonical t v : has_type v t = true -> encode t v = spec_encode t v.
Proof. intro H. now apply canon_all. Qed.

(* ---- Marshal (encode_go) agrees with the repaired encoder outside the some-enum guard *)
Definition ego_value (v : value) : Prop :=
  forall t, some_enum t v = false -> encode_go t v = encode t v.
Definition ego_vals (vs : vals) : Prop :=
  (forall t, some_enum_all t vs = false -> encode_go_all t vs = encode_all t vs) /\
  (forall fs, some_enum_fields fs vs = false -> encode_go_fields fs vs = encode_fields fs vs).
Definition ego_kvals (kvs : kvals) : Prop :=
  forall kt vt, some_enum_kvs kt vt kvs = false -> encode_go_kvs kt vt kvs = encode_kvs kt vt kvs.

Lemma ego_all : forall v, ego_value v.
Proof.
  apply (value_mut ego_value ego_vals ego_kvals); unfold ego_value, ego_vals, ego_kvals.
  - intros n t _. destruct t; reflexivity.
  - intros z t _. destruct t; reflexivity.
  - intros b t _. destruct t; reflexivity.
  - intros l t _. destruct t; reflexivity.
  - intros t _. destruct t; reflexivity.
  - intros v IH t H. destruct t; try reflexivity. cbn [some_enum] in H.
    apply orb_false_elim in H as [E H]. cbn [encode_go encode].
    destruct t; try discriminate E; rewrite (IH _ H); reflexivity.
  - intros v IH t H. destruct t; try reflexivity. cbn [some_enum encode_go encode] in *. now rewrite IH.
  - intros v IH t H. destruct t; try reflexivity. cbn [some_enum encode_go encode] in *. now rewrite IH.
  - intros i v IH t H. destruct t; try reflexivity. cbn [some_enum encode_go encode] in *.
    destruct (alt_lookup alts i); [|reflexivity]. now rewrite IH.
  - intros vs [IHa IHf] t H. destruct t; try reflexivity; cbn [some_enum encode_go encode] in *.
    + now apply IHa.
    + now rewrite IHa.
    + now apply IHf.
  - intros kvs IH t H. destruct t; try reflexivity. cbn [some_enum encode_go encode] in *. now rewrite IH.
  - split; intros; reflexivity.
  - intros v IHv r [IHa IHf]. split.
    + intros t H. cbn [some_enum_all encode_go_all encode_all] in *. apply orb_false_elim in H as [H1 H2].
      now rewrite IHv, IHa.
    + intros fs H. destruct fs as [|tag t fr]; [reflexivity|].
      cbn [some_enum_fields encode_go_fields encode_fields] in *. apply orb_false_elim in H as [H1 H2].
      now rewrite IHv, IHf.
  - intros; reflexivity.
  - intros k IHk v IHv r IHr kt vt H. cbn [some_enum_kvs encode_go_kvs encode_kvs] in *.
    apply orb_false_elim in H as [H H3]. apply orb_false_elim in H as [H1 H2].
    now rewrite IHk, IHv, IHr.
Qed.

Theorem encode_go_encode t v : some_enum t v = false -> encode_go t v = encode t v.
Proof. intro H. now apply ego_all. Qed.
