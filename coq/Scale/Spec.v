(* Scale/Spec.v — the canonical SCALE encoding, written from the specification
   (Polkadot spec "SCALE codec" / parity-scale-codec), independently of pkg/scale's structure.

     fixed-width integers   little endian, two's complement for signed
     compact / big          Scale.Compact.compact_encode
     bool                   0x00 / 0x01
     byte sequence, string  compact(length) ++ bytes
     Option                 0x00 | 0x01 ++ value          (the modern codec: no OptionBool special case)
     Result                 0x00 ++ ok | 0x01 ++ err
     enum (varying type)    index byte ++ value
     tuple / struct / array concatenation of the components
     sequence               compact(length) ++ concatenation
     map (BTreeMap)         compact(number of entries) ++ (key ++ value)*, keys ascending
   Go's `int` has no SCALE counterpart; gossamer's convention (compact of the two's complement
   64-bit pattern) is taken as its canonical form. *)
From Common Require Import Bytes.
From Scale Require Import Compact Types.
Local Open Scope N_scope.

(* two's complement of z in `bytes` bytes *)
Definition twos (bytes : nat) (z : Z) : N := Z.to_N (z mod 2 ^ (8 * Z.of_nat bytes)).

Definition spec_seq_prefix (len : nat) : list byte := compact_encode (N.of_nat len).

Fixpoint spec_encode (t : ty) (v : value) {struct v} : list byte :=
  match v, t with
  | VN n, TU8 => le_bytes 1 n
  | VN n, TU16 => le_bytes 2 n
  | VN n, TU32 => le_bytes 4 n
  | VN n, TU64 => le_bytes 8 n
  | VN n, TU128 => le_bytes 16 n
  | VN n, TUint => compact_encode n
  | VN n, TBig => compact_encode n
  | VZ z, TI8 => le_bytes 1 (twos 1 z)
  | VZ z, TI16 => le_bytes 2 (twos 2 z)
  | VZ z, TI32 => le_bytes 4 (twos 4 z)
  | VZ z, TI64 => le_bytes 8 (twos 8 z)
  | VZ z, TInt => compact_encode (twos 8 z)
  | VBool b, TBool => [if b then Byte.x01 else Byte.x00]
  | VBytes l, TBytes => spec_seq_prefix (length l) ++ l
  | VBytes l, TStr => spec_seq_prefix (length l) ++ l
  | VNone, TOption _ => [Byte.x00]
  | VSome v', TOption t' => Byte.x01 :: spec_encode t' v'
  | VOk v', TResult a _ => Byte.x00 :: spec_encode a v'
  | VErr v', TResult _ b => Byte.x01 :: spec_encode b v'
  | VEnum i v', TEnum alts =>
      match alt_lookup alts i with
      | Some t' => n2b i :: spec_encode t' v'
      | None => []
      end
  | VList vs, TArray _ t' => spec_encode_all t' vs
  | VList vs, TSlice t' => spec_seq_prefix (vals_len vs) ++ spec_encode_all t' vs
  | VList vs, TStruct fs => spec_encode_fields fs vs
  | VMap kvs, TMap kt vt => spec_seq_prefix (kvals_len kvs) ++ spec_encode_kvs kt vt kvs
  | _, _ => []
  end
with spec_encode_all (t : ty) (vs : vals) {struct vs} : list byte :=
  match vs with
  | VNil => []
  | VCons v r => spec_encode t v ++ spec_encode_all t r
  end
with spec_encode_fields (fs : tys) (vs : vals) {struct vs} : list byte :=
  match vs, fs with
  | VCons v r, TCons _ t fr => spec_encode t v ++ spec_encode_fields fr r
  | _, _ => []
  end
with spec_encode_kvs (kt vt : ty) (kvs : kvals) {struct kvs} : list byte :=
  match kvs with
  | KNil => []
  | KCons k v r => spec_encode kt k ++ spec_encode vt v ++ spec_encode_kvs kt vt r
  end.
