(* Scale/Mono.v — second round (auditor): a stricter decoder accepts less, and what it accepts the
   laxer one accepts with the same result.

   For two cfgs c, c' that read the same way (fix_read on both, fix_big on the stricter; same fix_map and
   fix_uint57) and where c' is at least as strict as c about byte strings and map keys
   (fix_bytes c -> fix_bytes c', strict_map c -> strict_map c'):

     decode c' t bs m = (Ok (v, r), m')  ->  succeeds (decode c t bs) (v, r)

   This ties the finding guards of C12 (which compare [current] with the decoders that have the
   chunked decodeBytes / the strict decodeMap) to the canonicity theorem Prefix.decode_prefix:
   when the stricter decoder does not fail, both return the same value, and that value is the one
   the canonicity theorem speaks about. *)
From Coq Require Import ZifyN ZifyNat ZifyBool.
From Common Require Import Bytes Outcome.
From Scale Require Import Compact CompactProofs BytesLemmas Types Spec Codec EncodeProofs MonadLemmas LeafProofs RoundTrip Prefix WellTyped.
Local Open Scope N_scope.
Local Open Scope m_scope.

Section Mono.
Variables c c' : cfg.
Hypothesis Hr : fix_read c = true.
Hypothesis Hr' : fix_read c' = true.
Hypothesis Hb' : fix_big c' = true.
Hypothesis Hm : fix_map c = fix_map c'.
Hypothesis H57 : fix_uint57 c = fix_uint57 c'.
Hypothesis Hby : fix_bytes c = true -> fix_bytes c' = true.
Hypothesis Hs : strict_map c = true -> strict_map c' = true.

(* ---- leaves *)
Lemma read_byte_mono bs m a m' : read_byte bs m = (Ok a, m') -> succeeds (read_byte bs) a.
Proof. destruct a as [b r]. intro H. apply read_byte_ok in H as ->. apply read_byte_app. Qed.

Lemma read_mono k bs m a m' : read c' k bs m = (Ok a, m') -> succeeds (read c k bs) a.
Proof.
  unfold read. intro H. apply tick_seq_ok in H. apply lift_ok in H as [H _].
  apply succeeds_tick_seq, succeeds_lift. rewrite Hr. rewrite Hr' in H. exact H.
Qed.

Lemma dec_uint_mono bs m a m' : dec_uint c' bs m = (Ok a, m') -> succeeds (dec_uint c bs) a.
Proof.
  destruct a as [n r]. intro H.
  pose proof (dec_uint_sound c' _ _ _ _ _ Hr' H) as [D U].
  apply dec_uint_complete; [exact D|exact U|].
  pose proof H57 as G. destruct (fix_uint57 c') eqn:E'; [left; exact G|right].
  exact (proj2 (dec_uint_not57 c' Hr' E' _ _ _ _ _ H)).
Qed.

Lemma dec_big_mono bs m a m' : dec_big c' bs m = (Ok a, m') -> succeeds (dec_big c bs) a.
Proof.
  destruct a as [n r]. intro H. apply dec_big_complete. exact (dec_big_sound c' _ _ _ _ _ Hr' Hb' H).
Qed.

(* the allocate-first decodeBytes returns what the chunked one returns whenever the latter succeeds *)
Lemma dec_bytes_mono bs m a m' : dec_bytes c' bs m = (Ok a, m') -> succeeds (dec_bytes c bs) a.
Proof.
  destruct a as [l r]. intro H. destruct (fix_bytes c') eqn:FB.
  - destruct (dec_bytes_sound c' _ _ _ _ _ Hr' FB H) as [-> L]. now apply dec_bytes_complete.
  - assert (FBc : fix_bytes c = false).
    { pose proof Hby as G. destruct (fix_bytes c) eqn:E; [|reflexivity]. discriminate (G eq_refl). }
    unfold dec_bytes in *. apply bind_ok in H as ([len r0] & m1 & U & H).
    eapply succeeds_bind; [eapply dec_uint_mono; exact U|]. cbv beta iota in *.
    destruct (4294967295 <? len); [discriminate|]. rewrite FB in H. rewrite FBc.
    apply tick_seq_ok in H. apply succeeds_tick_seq.
    destruct (len =? 0).
    + apply ret_ok in H as [H _]. injection H as <- <-. apply succeeds_ret.
    + apply lift_ok in H as [H _]. now apply succeeds_lift.
Qed.

(* ---- loops *)
Definition mono_dec (d d' : list byte -> M (value * list byte)) : Prop :=
  forall bs m v r m', d' bs m = (Ok (v, r), m') -> succeeds (d bs) (v, r).

Lemma array_mono d d' : mono_dec d d' -> forall n bs m vs r m',
  dec_array d' n bs m = (Ok (vs, r), m') -> succeeds (dec_array d n bs) (vs, r).
Proof.
  intros IH. induction n as [|n IHn]; intros bs m vs r m' H; cbn [dec_array] in *.
  - apply ret_ok in H as [H _]. injection H as <- <-. apply succeeds_ret.
  - apply bind_ok in H as ([v r1] & m1 & D & H). apply bind_ok in H as ([vs' r2] & m2 & D2 & H).
    apply ret_ok in H as [H _]. injection H as <- <-.
    eapply succeeds_bind; [eapply IH; exact D|]. cbv beta iota.
    eapply succeeds_bind; [eapply IHn; exact D2|]. apply succeeds_ret.
Qed.

Lemma loop_mono d d' : mono_dec d d' -> forall fuel cnt bs m vs r m',
  dec_loop d' fuel cnt bs m = (Ok (vs, r), m') -> succeeds (dec_loop d fuel cnt bs) (vs, r).
Proof.
  intros IH. induction fuel as [|f IHf]; intros cnt bs m vs r m' H; cbn [dec_loop] in *;
    destruct (cnt =? 0).
  - apply ret_ok in H as [H _]. injection H as <- <-. apply succeeds_ret.
  - discriminate.
  - apply ret_ok in H as [H _]. injection H as <- <-. apply succeeds_ret.
  - apply bind_ok in H as ([v r1] & m1 & D & H). apply bind_ok in H as ([vs' r2] & m2 & D2 & H).
    apply ret_ok in H as [H _]. injection H as <- <-.
    eapply succeeds_bind; [eapply IH; exact D|]. cbv beta iota.
    eapply succeeds_bind; [eapply IHf; exact D2|]. apply succeeds_ret.
Qed.

Lemma map_loop_mono dk dk' dv dv' : mono_dec dk dk' -> mono_dec dv dv' ->
  forall fuel cnt lo bs m kvs r m',
  dec_map_loop c' dk' dv' fuel cnt lo bs m = (Ok (kvs, r), m') ->
  succeeds (dec_map_loop c dk dv fuel cnt lo bs) (kvs, r).
Proof.
  intros IHk IHv. induction fuel as [|f IHf]; intros cnt lo bs m kvs r m' H; cbn [dec_map_loop] in *;
    destruct (cnt =? 0).
  - apply ret_ok in H as [H _]. injection H as <- <-. apply succeeds_ret.
  - discriminate.
  - apply ret_ok in H as [H _]. injection H as <- <-. apply succeeds_ret.
  - apply bind_ok in H as ([k r1] & m1 & D & H). apply bind_ok in H as ([v r2] & m2 & D2 & H).
    eapply succeeds_bind; [eapply IHk; exact D|]. cbv beta iota.
    eapply succeeds_bind; [eapply IHv; exact D2|]. cbv beta iota.
    rewrite Hm. destruct (fix_map c'); cbn [negb] in *; [|discriminate].
    destruct (strict_map c' && negb (key_above lo k)) eqn:S'; [discriminate|].
    assert (S : strict_map c && negb (key_above lo k) = false).
    { pose proof Hs as G. destruct (strict_map c) eqn:E; [|reflexivity]. rewrite (G eq_refl) in S'. exact S'. }
    rewrite S.
    apply bind_ok in H as ([kvs' r3] & m3 & D3 & H).
    apply ret_ok in H as [H _]. injection H as <- <-.
    eapply succeeds_bind; [eapply IHf; exact D3|]. apply succeeds_ret.
Qed.

(* ---- the decoder *)
Definition mono_ty (t : ty) : Prop := mono_dec (decode c t) (decode c' t).
Definition mono_tys (fs : tys) : Prop :=
  (forall bs m vs r m', decode_fields c' fs bs m = (Ok (vs, r), m') ->
     succeeds (decode_fields c fs bs) (vs, r)) /\
  (forall i, mono_dec (decode_alt c fs i) (decode_alt c' fs i)).

Ltac fixed_leaf R H :=
  apply tick_seq_ok in H;
  apply bind_ok in H as ([? ?] & ? & R & H);
  apply ret_ok in H as [H _]; injection H as <- <-;
  apply succeeds_tick_seq;
  (eapply succeeds_bind; [first [eapply read_byte_mono; exact R | eapply read_mono; exact R
                                 | eapply dec_uint_mono; exact R | eapply dec_big_mono; exact R
                                 | eapply dec_bytes_mono; exact R]|]);
  apply succeeds_ret.

Lemma mono_all : forall t, mono_ty t.
Proof.
  apply (ty_mut mono_ty mono_tys); unfold mono_ty, mono_tys, mono_dec.
  - (* TU8 *) intros bs m v r m' H. cbn [decode] in *. fixed_leaf R H.
  - (* TU16 *) intros bs m v r m' H. cbn [decode] in *. fixed_leaf R H.
  - (* TU32 *) intros bs m v r m' H. cbn [decode] in *. fixed_leaf R H.
  - (* TU64 *) intros bs m v r m' H. cbn [decode] in *. fixed_leaf R H.
  - (* TI8 *) intros bs m v r m' H. cbn [decode] in *. fixed_leaf R H.
  - (* TI16 *) intros bs m v r m' H. cbn [decode] in *. fixed_leaf R H.
  - (* TI32 *) intros bs m v r m' H. cbn [decode] in *. fixed_leaf R H.
  - (* TI64 *) intros bs m v r m' H. cbn [decode] in *. fixed_leaf R H.
  - (* TUint *) intros bs m v r m' H. cbn [decode] in *. fixed_leaf R H.
  - (* TInt *) intros bs m v r m' H. cbn [decode] in *. fixed_leaf R H.
  - (* TBig *) intros bs m v r m' H. cbn [decode] in *. fixed_leaf R H.
  - (* TU128 *) intros bs m v r m' H. cbn [decode] in *.
    apply tick_seq_ok in H. apply tick_seq_ok in H.
    apply bind_ok in H as ([x r1] & m1 & R & H). apply lift_ok in R as [R _].
    apply ret_ok in H as [H _]. injection H as <- <-.
    apply succeeds_tick_seq, succeeds_tick_seq.
    eapply succeeds_bind; [apply succeeds_lift; exact R|]. apply succeeds_ret.
  - (* TBool *) intros bs m v r m' H. cbn [decode] in *. apply tick_seq_ok in H.
    apply bind_ok in H as ([b r1] & m1 & R & H). apply succeeds_tick_seq.
    eapply succeeds_bind; [eapply read_byte_mono; exact R|]. cbv beta iota in *.
    destruct (bool_of_byte b); [|discriminate].
    apply ret_ok in H as [H _]. injection H as <- <-. apply succeeds_ret.
  - (* TBytes *) intros bs m v r m' H. cbn [decode] in *. fixed_leaf R H.
  - (* TStr *) intros bs m v r m' H. cbn [decode] in *. fixed_leaf R H.
  - (* TOption *) intros t IH bs m v r m' H. cbn [decode] in *. apply tick_seq_ok in H.
    apply bind_ok in H as ([b r1] & m1 & R & H). apply succeeds_tick_seq.
    eapply succeeds_bind; [eapply read_byte_mono; exact R|]. cbv beta iota in *.
    destruct (bool_of_byte b) as [[|]|]; [| |discriminate].
    + apply bind_ok in H as ([v1 r2] & m2 & D & H). apply ret_ok in H as [H _]. injection H as <- <-.
      eapply succeeds_bind; [eapply IH; exact D|]. apply succeeds_ret.
    + apply ret_ok in H as [H _]. injection H as <- <-. apply succeeds_ret.
  - (* TResult *) intros a IHa b IHb bs m v r m' H. cbn [decode] in *. apply tick_seq_ok in H.
    apply bind_ok in H as ([x r1] & m1 & R & H). apply succeeds_tick_seq.
    eapply succeeds_bind; [eapply read_byte_mono; exact R|]. cbv beta iota in *.
    destruct (bool_of_byte x) as [[|]|]; [| |discriminate].
    + apply bind_ok in H as ([v1 r2] & m2 & D & H). apply ret_ok in H as [H _]. injection H as <- <-.
      eapply succeeds_bind; [eapply IHb; exact D|]. apply succeeds_ret.
    + apply bind_ok in H as ([v1 r2] & m2 & D & H). apply ret_ok in H as [H _]. injection H as <- <-.
      eapply succeeds_bind; [eapply IHa; exact D|]. apply succeeds_ret.
  - (* TEnum *) intros alts [_ IHalt] bs m v r m' H. cbn [decode] in *. apply tick_seq_ok in H.
    apply bind_ok in H as ([b r1] & m1 & R & H). apply succeeds_tick_seq.
    eapply succeeds_bind; [eapply read_byte_mono; exact R|]. cbv beta iota in *.
    eapply IHalt; exact H.
  - (* TArray *) intros n t IH bs m v r m' H. cbn [decode] in *. apply tick_seq_ok in H.
    apply bind_ok in H as ([vs r1] & m1 & D & H). apply ret_ok in H as [H _]. injection H as <- <-.
    apply succeeds_tick_seq.
    eapply succeeds_bind; [eapply (array_mono _ _ IH); exact D|]. apply succeeds_ret.
  - (* TSlice *) intros t IH bs m v r m' H. cbn [decode] in *. apply tick_seq_ok in H.
    apply bind_ok in H as ([cnt r1] & m1 & R & H).
    apply bind_ok in H as ([vs r2] & m2 & D & H). apply ret_ok in H as [H _]. injection H as <- <-.
    apply succeeds_tick_seq.
    eapply succeeds_bind; [eapply dec_uint_mono; exact R|]. cbv beta iota.
    eapply succeeds_bind; [eapply (loop_mono _ _ IH); exact D|]. apply succeeds_ret.
  - (* TMap *) intros kt IHk vt IHv bs m v r m' H. cbn [decode] in *. apply tick_seq_ok in H.
    apply bind_ok in H as ([cnt r1] & m1 & R & H).
    apply bind_ok in H as ([raw r2] & m2 & D & H). apply ret_ok in H as [H _]. injection H as <- <-.
    apply succeeds_tick_seq.
    eapply succeeds_bind; [eapply dec_uint_mono; exact R|]. cbv beta iota.
    eapply succeeds_bind; [eapply (map_loop_mono _ _ _ _ IHk IHv); exact D|]. apply succeeds_ret.
  - (* TStruct *) intros fs [IHf _] bs m v r m' H. cbn [decode] in *. apply tick_seq_ok in H.
    apply bind_ok in H as ([vs r1] & m1 & D & H). apply ret_ok in H as [H _]. injection H as <- <-.
    apply succeeds_tick_seq.
    eapply succeeds_bind; [eapply IHf; exact D|]. apply succeeds_ret.
  - (* TNil *) split.
    + intros bs m vs r m' H. cbn [decode_fields] in *. apply ret_ok in H as [H _]. injection H as <- <-.
      apply succeeds_ret.
    + intros i bs m v r m' H. discriminate.
  - (* TCons *) intros tag t IHt fr [IHf IHa]. split.
    + intros bs m vs r m' H. cbn [decode_fields] in *.
      apply bind_ok in H as ([v r1] & m1 & D & H). apply bind_ok in H as ([vs' r2] & m2 & D2 & H).
      apply ret_ok in H as [H _]. injection H as <- <-.
      eapply succeeds_bind; [eapply IHt; exact D|]. cbv beta iota.
      eapply succeeds_bind; [eapply IHf; exact D2|]. apply succeeds_ret.
    + intros i bs m v r m' H. cbn [decode_alt] in *.
      destruct tag as [j|]; [|eapply IHa; exact H].
      destruct (j =? i); [|eapply IHa; exact H].
      apply bind_ok in H as ([v1 r1] & m1 & D & H). apply ret_ok in H as [H _]. injection H as <- <-.
      eapply succeeds_bind; [eapply IHt; exact D|]. apply succeeds_ret.
Qed.

Theorem decode_mono t bs m v r m' :
  decode c' t bs m = (Ok (v, r), m') -> succeeds (decode c t bs) (v, r).
Proof. apply mono_all. Qed.

End Mono.

(* in terms of decode_res *)
Corollary decode_res_mono c c' t bs v r :
  fix_read c = true -> fix_read c' = true -> fix_big c' = true ->
  fix_map c = fix_map c' -> fix_uint57 c = fix_uint57 c' ->
  (fix_bytes c = true -> fix_bytes c' = true) -> (strict_map c = true -> strict_map c' = true) ->
  decode_res c' t bs = Ok (v, r) -> decode_res c t bs = Ok (v, r).
Proof.
  intros Hr Hr' Hb' Hm H57 Hby Hs D.
  unfold decode_res, run_decode in *. destruct (decode c' t bs 0) as [o m'] eqn:E. cbn [fst] in D. subst o.
  destruct (decode_mono c c' Hr Hr' Hb' Hm H57 Hby Hs t bs 0 v r m' E 0) as [m1 ->]. reflexivity.
Qed.
