(* Scale/Eqb.v — second round (auditor): decidable equality of universe values, for the vm_compute
   cross-checks of the drivers (same function as C11.Model.value_eqb; definitions only). *)
From Common Require Import Bytes Outcome.
From Scale Require Import Types.
Local Open Scope N_scope.

Fixpoint val_eqb (a b : value) {struct a} : bool :=
  match a, b with
  | VN x, VN y => x =? y
  | VZ x, VZ y => (x =? y)%Z
  | VBool x, VBool y => Bool.eqb x y
  | VBytes x, VBytes y => bytes_eqb x y
  | VNone, VNone => true
  | VSome x, VSome y => val_eqb x y
  | VOk x, VOk y => val_eqb x y
  | VErr x, VErr y => val_eqb x y
  | VEnum i x, VEnum j y => (i =? j) && val_eqb x y
  | VList x, VList y => vals_eqb x y
  | VMap x, VMap y => kvals_eqb x y
  | _, _ => false
  end
with vals_eqb (a b : vals) {struct a} : bool :=
  match a, b with
  | VNil, VNil => true
  | VCons x r, VCons y s => val_eqb x y && vals_eqb r s
  | _, _ => false
  end
with kvals_eqb (a b : kvals) {struct a} : bool :=
  match a, b with
  | KNil, KNil => true
  | KCons k x r, KCons l y s => val_eqb k l && val_eqb x y && kvals_eqb r s
  | _, _ => false
  end.

(* the shape of a decoder outcome, for comparing with what the implementation reported *)
Definition dec_matches {A} (o : outcome (value * list A)) (want : option (value * nat)) : bool :=
  match o, want with
  | Ok (v, r), Some (w, rest) => val_eqb v w && Nat.eqb (length r) rest
  | Err _, None => true
  | _, _ => false
  end.

(* the same, when the implementation does not report how much it consumed *)
Definition dec_value_matches {A} (o : outcome (value * list A)) (want : option value) : bool :=
  match o, want with
  | Ok (v, _), Some w => val_eqb v w
  | Err _, None => true
  | _, _ => false
  end.
