(* Scale/CostExcess.v — round 5 (auditor): the allocation meter of the CURRENT decoder (decodeBytes
   allocates the declared length first, fix_bytes c = false), with the excess over the linear bound
   NAMED: a decode that succeeds costs at most

       ca t + cb t * |input|  +  bytes_total v

   where bytes_total v is the sum of the lengths of the byte strings / strings in the returned
   value v - exactly the lengths decodeBytes declared and accepted (zero-filled or not).  So the
   declared byte-string lengths are the only source of super-linear allocation; for values
   without byte strings the bound is the linear one.  (Types without maps: decodeMap drops the
   earlier value of a repeated key, whose allocation is then no longer visible in the result.)
   Failing decodes are not covered here (their accepted lengths appear in no result): for those
   only Cost.decode_cost_linear (types without byte strings) applies. *)
From Coq Require Import ZifyN ZifyNat ZifyBool.
From Common Require Import Bytes Outcome.
From Scale Require Import Compact CompactProofs BytesLemmas Types Spec Codec MonadLemmas LeafProofs Total Cost WellTyped.
Local Open Scope N_scope.
Local Open Scope m_scope.

Fixpoint bytes_total (v : value) : N :=
  match v with
  | VBytes l => len l
  | VSome v' | VOk v' | VErr v' | VEnum _ v' => bytes_total v'
  | VList vs => bytes_total_vals vs
  | VMap kvs => bytes_total_kvs kvs
  | _ => 0
  end
with bytes_total_vals (vs : vals) : N :=
  match vs with VNil => 0 | VCons v r => bytes_total v + bytes_total_vals r end
with bytes_total_kvs (kvs : kvals) : N :=
  match kvs with KNil => 0 | KCons k v r => bytes_total k + bytes_total v + bytes_total_kvs r end.

(* success-only cost bound: x, when it succeeds with (v, r), has spent at most a + b * (bytes
   consumed) + P v *)
Definition sb {A} (x : M (A * list byte)) (bs : list byte) (a b : N) (P : A -> N) : Prop :=
  forall m v r m', x m = (Ok (v, r), m') ->
    len r <= len bs /\ m' + b * len r <= m + a + b * len bs + P v.

Lemma sb_of_bnd {A} (x : M (A * list byte)) bs a b P : bnd x bs a b -> sb x bs a b P.
Proof.
  intros H m v r m' E. destruct (H m _ _ E) as [C S]. cbn [used suffix_ok] in *. split; [exact S|nia].
Qed.

Lemma sb_weaken {A} (x : M (A * list byte)) bs a b a' b' P :
  a <= a' -> b <= b' -> sb x bs a b P -> sb x bs a' b' P.
Proof.
  intros La Lb H m v r m' E. destruct (H m v r m' E) as [S C]. split; [exact S|nia].
Qed.

Section Excess.
Variable c : cfg.
Hypothesis Hread : fix_read c = true.
Hypothesis Hmap : fix_map c = true.
Hypothesis Hbytes : fix_bytes c = false.

(* decodeBytes on the tree: the compact length, then make([]byte, length) *)
Lemma sb_dec_bytes bs : sb (dec_bytes c bs) bs cu 0 len.
Proof.
  intros m l r m' H. unfold dec_bytes in H. rewrite Hbytes in H.
  apply bind_ok in H as ([n r0] & m1 & U & H). cbv beta iota in H.
  destruct (bnd_dec_uint c Hread bs 0 m _ _ U) as [CU SU]. cbn [used suffix_ok] in CU, SU.
  destruct (4294967295 <? n); [discriminate|].
  apply tick_seq_ok in H.
  destruct (N.eqb_spec n 0) as [Z|Z].
  - apply ret_ok in H as [H <-]. injection H as <- <-. split; [exact SU|]. unfold len at 3. cbn [length]. lia.
  - apply lift_ok in H as [H <-].
    pose proof (read_short_length _ _ _ _ H) as LL.
    assert (R : len r <= len r0).
    { unfold read_short in H. destruct (N.to_nat n) as [|k] eqn:K; [lia|].
      destruct r0 as [|b0 t]; [discriminate|]. injection H as _ <-.
      pose proof (skipn_length k t) as SL. unfold len. cbn [length skipn]. lia. }
    split; [lia|]. unfold len at 3. rewrite LL. lia.
Qed.

Definition sbt (t : ty) : Prop :=
  wf_ty t = true -> map_free t = true -> forall bs, sb (decode c t bs) bs (ca t) (cb t) bytes_total.
Definition sbts (fs : tys) : Prop :=
  wf_tys fs = true -> map_free_tys fs = true ->
  (forall bs, sb (decode_fields c fs bs) bs (ca_sum fs) (cb_max fs) bytes_total_vals) /\
  (forall i bs, sb (decode_alt c fs i bs) bs (ca_max fs) (cb_max fs) bytes_total).

(* types without byte strings: the linear bound of Cost.v, no excess *)
Lemma sbt_free t : bytes_free t = true -> sbt t.
Proof.
  intros B W _ bs. apply sb_of_bnd. apply (cost_all c Hread Hmap t W (or_intror B)).
Qed.

Lemma sb_array t : (forall bs, sb (decode c t bs) bs (ca t) (cb t) bytes_total) ->
  forall n bs, sb (dec_array (decode c t) n bs) bs (N.of_nat n * ca t) (cb t) bytes_total_vals.
Proof.
  intro IH. induction n as [|n IHn]; intros bs m vs r m' H; cbn [dec_array] in H.
  - apply ret_ok in H as [H <-]. injection H as <- <-. cbn [bytes_total_vals]. split; lia.
  - apply bind_ok in H as ([v r1] & m1 & D & H). apply bind_ok in H as ([vs' r2] & m2 & D2 & H).
    apply ret_ok in H as [H <-]. injection H as <- <-.
    destruct (IH _ _ _ _ _ D) as [S1 C1]. destruct (IHn _ _ _ _ _ D2) as [S2 C2].
    cbn [bytes_total_vals]. split; [lia|nia].
Qed.

Lemma sb_loop t : (forall bs, sb (decode c t bs) bs (ca t) (cb t) bytes_total) -> eats (decode c t) ->
  forall fuel cnt bs, sb (dec_loop (decode c t) fuel cnt bs) bs (ca t) (ca t + cb t) bytes_total_vals.
Proof.
  intros IH EA. induction fuel as [|f IHf]; intros cnt bs m vs r m' H; cbn [dec_loop] in H;
    destruct (cnt =? 0).
  - apply ret_ok in H as [H <-]. injection H as <- <-. cbn [bytes_total_vals]. split; lia.
  - discriminate.
  - apply ret_ok in H as [H <-]. injection H as <- <-. cbn [bytes_total_vals]. split; lia.
  - apply bind_ok in H as ([v r1] & m1 & D & H). apply bind_ok in H as ([vs' r2] & m2 & D2 & H).
    apply ret_ok in H as [H <-]. injection H as <- <-.
    destruct (IH _ _ _ _ _ D) as [S1 C1]. destruct (IHf _ _ _ _ _ _ D2) as [S2 C2].
    pose proof (EA _ _ _ _ _ D) as U.
    cbn [bytes_total_vals]. split; [lia|nia].
Qed.

Lemma sb_all : forall t, sbt t.
Proof.
  apply (ty_mut sbt sbts); unfold sbts.
  1-13: apply sbt_free; reflexivity.
  - (* TBytes *) intros _ _ bs m v r m' H. cbn [decode ca cb] in *. apply tick_seq_ok in H.
    apply bind_ok in H as ([l r1] & m1 & D & H). apply ret_ok in H as [H <-]. injection H as <- <-.
    destruct (sb_dec_bytes _ _ _ _ _ D) as [S C]. cbn [bytes_total]. split; [exact S|nia].
  - (* TStr *) intros _ _ bs m v r m' H. cbn [decode ca cb] in *. apply tick_seq_ok in H.
    apply bind_ok in H as ([l r1] & m1 & D & H). apply ret_ok in H as [H <-]. injection H as <- <-.
    destruct (sb_dec_bytes _ _ _ _ _ D) as [S C]. cbn [bytes_total]. split; [exact S|nia].
  - (* TOption *) intros t IH W MF bs m v r m' H. cbn [decode ca cb wf_ty map_free] in *.
    apply tick_seq_ok in H. apply bind_ok in H as ([b r1] & m1 & R & H).
    destruct (sb_of_bnd _ _ _ (cb t) (fun _ => 0) (bnd_read_byte bs (cb t)) _ _ _ _ R) as [S0 C0].
    cbv beta iota in H. destruct (bool_of_byte b) as [[|]|]; [| |discriminate].
    + apply bind_ok in H as ([v1 r2] & m2 & D & H). apply ret_ok in H as [H <-]. injection H as <- <-.
      destruct (IH W MF _ _ _ _ _ D) as [S1 C1]. cbn [bytes_total]. split; [lia|nia].
    + apply ret_ok in H as [H <-]. injection H as <- <-. cbn [bytes_total]. split; [lia|nia].
  - (* TResult *) intros a IHa b IHb W MF bs m v r m' H. cbn [decode ca cb wf_ty map_free] in *.
    apply andb_prop in W as [W1 W2]. apply andb_prop in MF as [M1 M2].
    apply tick_seq_ok in H. apply bind_ok in H as ([x r1] & m1 & R & H).
    destruct (sb_of_bnd _ _ _ (N.max (cb a) (cb b)) (fun _ => 0) (bnd_read_byte bs _) _ _ _ _ R) as [S0 C0].
    cbv beta iota in H. destruct (bool_of_byte x) as [[|]|]; [| |discriminate].
    + apply bind_ok in H as ([v1 r2] & m2 & D & H). apply ret_ok in H as [H <-]. injection H as <- <-.
      destruct (sb_weaken _ _ _ _ _ _ _ (N.le_max_r (ca a) (ca b)) (N.le_max_r (cb a) (cb b)) (IHb W2 M2 r1) _ _ _ _ D) as [S1 C1].
      cbn [bytes_total]. split; [lia|nia].
    + apply bind_ok in H as ([v1 r2] & m2 & D & H). apply ret_ok in H as [H <-]. injection H as <- <-.
      destruct (sb_weaken _ _ _ _ _ _ _ (N.le_max_l (ca a) (ca b)) (N.le_max_l (cb a) (cb b)) (IHa W1 M1 r1) _ _ _ _ D) as [S1 C1].
      cbn [bytes_total]. split; [lia|nia].
  - (* TEnum *) intros alts IH W MF bs m v r m' H. cbn [decode ca cb wf_ty map_free] in *.
    apply andb_prop in W as [W1 W2].
    apply tick_seq_ok in H. apply bind_ok in H as ([b r1] & m1 & R & H).
    destruct (sb_of_bnd _ _ _ (cb_max alts) (fun _ => 0) (bnd_read_byte bs _) _ _ _ _ R) as [S0 C0].
    cbv beta iota in H. destruct (proj2 (IH W2 MF) _ _ _ _ _ _ H) as [S1 C1]. split; [lia|nia].
  - (* TArray *) intros n t IH W MF bs m v r m' H. cbn [decode ca cb wf_ty map_free] in *.
    apply tick_seq_ok in H. apply bind_ok in H as ([vs r1] & m1 & D & H).
    apply ret_ok in H as [H <-]. injection H as <- <-.
    destruct (sb_array t (IH W MF) n _ _ _ _ _ D) as [S1 C1]. cbn [bytes_total]. split; [lia|nia].
  - (* TSlice *) intros t IH W MF bs m v r m' H. cbn [decode ca cb wf_ty map_free] in *.
    apply andb_prop in W as [W1 W2]. apply Nat.leb_le in W2.
    apply tick_seq_ok in H. apply bind_ok in H as ([cnt r1] & m1 & U & H).
    destruct (sb_of_bnd _ _ _ (ca t + cb t) (fun _ => 0) (bnd_dec_uint c Hread bs _) _ _ _ _ U) as [S0 C0].
    apply bind_ok in H as ([vs r2] & m2 & D & H). apply ret_ok in H as [H <-]. injection H as <- <-.
    destruct (sb_loop t (IH W1 MF) (eats_decode c Hread Hmap t W1 W2) _ _ _ _ _ _ _ D) as [S1 C1].
    cbn [bytes_total]. split; [lia|nia].
  - (* TMap *) intros kt _ vt _ _ MF. discriminate MF.
  - (* TStruct *) intros fs IH W MF bs m v r m' H. cbn [decode ca cb wf_ty map_free] in *.
    apply tick_seq_ok in H. apply bind_ok in H as ([vs r1] & m1 & D & H).
    apply ret_ok in H as [H <-]. injection H as <- <-.
    destruct (proj1 (IH W MF) _ _ _ _ _ D) as [S1 C1]. cbn [bytes_total]. split; [lia|nia].
  - (* TNil *) intros _ _. split.
    + intros bs m vs r m' H. cbn [decode_fields] in H. apply ret_ok in H as [H <-]. injection H as <- <-.
      cbn [bytes_total_vals ca_sum cb_max]. split; lia.
    + intros i bs m v r m' H. discriminate.
  - (* TCons *) intros tag t IHt fr IHf W MF. cbn [wf_tys map_free_tys] in *.
    apply andb_prop in W as [W1 W2]. apply andb_prop in MF as [M1 M2]. split.
    + intros bs m vs r m' H. cbn [decode_fields ca_sum cb_max] in *.
      apply bind_ok in H as ([v r1] & m1 & D & H). apply bind_ok in H as ([vs' r2] & m2 & D2 & H).
      apply ret_ok in H as [H <-]. injection H as <- <-.
      destruct (sb_weaken _ _ _ _ _ _ _ (N.le_refl (ca t)) (N.le_max_l (cb t) (cb_max fr)) (IHt W1 M1 bs) _ _ _ _ D) as [S1 C1].
      destruct (sb_weaken _ _ _ _ _ _ _ (N.le_refl (ca_sum fr)) (N.le_max_r (cb t) (cb_max fr)) (proj1 (IHf W2 M2) r1) _ _ _ _ D2) as [S2 C2].
      cbn [bytes_total_vals]. split; [lia|nia].
    + intros i bs m v r m' H. cbn [decode_alt ca_max cb_max] in *.
      assert (REST : decode_alt c fr i bs m = (Ok (v, r), m') ->
                     len r <= len bs /\ m' + N.max (cb t) (cb_max fr) * len r <=
                       m + N.max (ca t) (ca_max fr) + N.max (cb t) (cb_max fr) * len bs + bytes_total v).
      { intro E. exact (sb_weaken _ _ _ _ _ _ _ (N.le_max_r (ca t) (ca_max fr)) (N.le_max_r (cb t) (cb_max fr)) (proj2 (IHf W2 M2) i bs) _ _ _ _ E). }
      destruct tag as [j|]; [|now apply REST]. destruct (j =? i); [|now apply REST].
      apply bind_ok in H as ([v1 r1] & m1 & D & H). apply ret_ok in H as [H <-]. injection H as <- <-.
      destruct (sb_weaken _ _ _ _ _ _ _ (N.le_max_l (ca t) (ca_max fr)) (N.le_max_l (cb t) (cb_max fr)) (IHt W1 M1 bs) _ _ _ _ D) as [S1 C1].
      cbn [bytes_total]. split; [lia|nia].
Qed.

Theorem decode_cost_excess t bs v r :
  wf_ty t = true -> map_free t = true -> decode_res c t bs = Ok (v, r) ->
  decode_cost c t bs <= ca t + cb t * len bs + bytes_total v.
Proof.
  intros W MF D. unfold decode_res, decode_cost, run_decode in *.
  destruct (decode c t bs 0) as [o m'] eqn:E. cbn [fst snd] in *. subst o.
  destruct (sb_all t W MF bs 0 v r m' E) as [S C]. lia.
Qed.

End Excess.
