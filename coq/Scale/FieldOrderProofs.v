(* Scale/FieldOrderProofs.v — the encoding order of struct fields (model of fieldScaleIndices):
   field_order is a permutation of the field indices, sorted by the comparison sort.Slice is given,
   and — when no two fields carry the same tag — it is the ONLY sorted permutation, so whatever
   (unstable) algorithm sort.Slice uses, it returns this sequence: tagged fields by ascending
   tag, then the untagged fields in declaration order. *)
From Coq Require Import List ZArith Arith Bool Lia Permutation Sorted.
Import ListNotations.
From Scale Require Import FieldOrder.

Definition entry := (nat * ftag)%type.

Lemma less_irrefl (a : entry) : less a a = false.
Proof. destruct a as [i [|z]]; unfold less; cbn; [apply Nat.ltb_irrefl|apply Z.ltb_irrefl]. Qed.

Lemma less_asym (a b : entry) : less a b = true -> less b a = false.
Proof.
  destruct a as [i [|x]], b as [j [|y]]; unfold less; cbn; intro H; try reflexivity; try discriminate.
  - apply Nat.ltb_lt in H. apply Nat.ltb_ge. lia.
  - apply Z.ltb_lt in H. apply Z.ltb_ge. lia.
Qed.

Lemma less_trans (a b c : entry) : less a b = true -> less b c = true -> less a c = true.
Proof.
  destruct a as [i [|x]], b as [j [|y]], c as [k [|z]]; unfold less; cbn; intros H1 H2;
    try reflexivity; try discriminate.
  - apply Nat.ltb_lt in H1, H2. apply Nat.ltb_lt. lia.
  - apply Z.ltb_lt in H1, H2. apply Z.ltb_lt. lia.
Qed.

(* negative transitivity: if c is not before b and b is not before a then c is not before a *)
Lemma less_negtrans (a b c : entry) : less b a = false -> less c b = false -> less c a = false.
Proof.
  destruct a as [i [|x]], b as [j [|y]], c as [k [|z]]; unfold less; cbn; intros H1 H2;
    try reflexivity; try discriminate.
  - apply Nat.ltb_ge in H1, H2. apply Nat.ltb_ge. lia.
  - apply Z.ltb_ge in H1, H2. apply Z.ltb_ge. lia.
Qed.

(* a is not after b *)
Definition notafter (a b : entry) : Prop := less b a = false.

Lemma insert_perm x l : Permutation (x :: l) (insert x l).
Proof.
  induction l as [|y r IH]; [apply Permutation_refl|]. cbn [insert].
  destruct (less x y); [apply Permutation_refl|].
  eapply Permutation_trans; [apply perm_swap|]. now apply perm_skip.
Qed.

Lemma isort_perm l : Permutation l (isort l).
Proof.
  induction l as [|x r IH]; [apply Permutation_refl|]. cbn [isort fold_right].
  eapply Permutation_trans; [apply perm_skip; exact IH|]. apply insert_perm.
Qed.

Lemma insert_sorted x l : StronglySorted notafter l -> StronglySorted notafter (insert x l).
Proof.
  induction l as [|y r IH]; intro S; cbn [insert].
  - constructor; [constructor|constructor].
  - inversion S as [|? ? Sr Fy]; subst. destruct (less x y) eqn:L.
    + constructor; [exact S|]. constructor; [unfold notafter; now apply less_asym|].
      rewrite Forall_forall in *. intros z Hz. unfold notafter in *.
      (* z is not before y, x is before y: z is not before x *)
      specialize (Fy z Hz). destruct (less z x) eqn:Lz; [|reflexivity].
      rewrite (less_trans z x y Lz L) in Fy. discriminate.
    + constructor; [now apply IH|]. rewrite Forall_forall in *. intros z Hz.
      apply (Permutation_in _ (Permutation_sym (insert_perm x r))) in Hz. destruct Hz as [<-|Hz].
      * exact L.
      * now apply Fy.
Qed.

Lemma isort_sorted l : StronglySorted notafter (isort l).
Proof.
  induction l as [|x r IH]; [constructor|]. cbn [isort fold_right]. now apply insert_sorted.
Qed.

(* ---- uniqueness of the sorted permutation when the order is total on the entries *)
Definition total_on (l : list entry) : Prop :=
  forall a b, In a l -> In b l -> a <> b -> less a b = true \/ less b a = true.

Lemma sorted_perm_unique (l1 l2 : list entry) :
  NoDup l1 -> total_on l1 -> Permutation l1 l2 ->
  StronglySorted notafter l1 -> StronglySorted notafter l2 -> l1 = l2.
Proof.
  revert l2; induction l1 as [|a r1 IH]; intros l2 ND T P S1 S2.
  - apply Permutation_nil in P. now subst.
  - destruct l2 as [|b r2]; [apply Permutation_sym, Permutation_nil in P; discriminate|].
    inversion S1 as [|? ? S1r F1]; subst. inversion S2 as [|? ? S2r F2]; subst.
    inversion ND as [|? ? NI ND']; subst.
    assert (E : a = b).
    { destruct (Permutation_in a P (or_introl eq_refl)) as [->|Ha]; [reflexivity|].
      assert (Hb : In b (a :: r1)) by (apply (Permutation_in b (Permutation_sym P)); now left).
      destruct Hb as [->|Hb]; [reflexivity|].
      (* a is not after b (b in r1) and b is not after a (a in r2): by totality a = b *)
      rewrite Forall_forall in F1, F2. specialize (F1 b Hb). specialize (F2 a Ha). unfold notafter in *.
      destruct (T a b (or_introl eq_refl) (or_intror Hb)) as [L|L]; [|congruence|congruence].
      intro Q. subst. contradiction. }
    subst b. f_equal. apply IH; try assumption.
    + intros x y Hx Hy N. apply T; [now right|now right|assumption].
    + now apply Permutation_cons_inv in P.
Qed.

(* the entries of a struct: index paired with tag *)
Lemma indexed_fst i tags : map fst (indexed i tags) = seq i (length tags).
Proof. revert i; induction tags as [|t r IH]; intro i; cbn; [reflexivity|]. now rewrite IH. Qed.

Lemma indexed_nodup i tags : NoDup (indexed i tags).
Proof.
  apply (NoDup_map_inv fst). rewrite indexed_fst. apply seq_NoDup.
Qed.

(* field_order lists every field index exactly once *)
Theorem field_order_perm tags : Permutation (seq 0 (length tags)) (field_order tags).
Proof.
  unfold field_order. rewrite <- (indexed_fst 0 tags). apply Permutation_map, isort_perm.
Qed.

(* distinct tags make the comparison total on the entries *)
Definition tags_distinct_prop (tags : list ftag) : Prop :=
  forall i j z, nth_error tags i = Some (FIdx z) -> nth_error tags j = Some (FIdx z) -> i = j.

Lemma indexed_in i tags k t : In (k, t) (indexed i tags) -> i <= k /\ nth_error tags (k - i) = Some t.
Proof.
  revert i; induction tags as [|t0 r IH]; intros i H; [destruct H|].
  cbn [indexed] in H. destruct H as [H|H].
  - injection H as <- <-. split; [lia|]. now rewrite Nat.sub_diag.
  - apply IH in H as [L N]. split; [lia|]. replace (k - i) with (S (k - S i)) by lia. exact N.
Qed.

Lemma indexed_total tags : tags_distinct_prop tags -> total_on (indexed 0 tags).
Proof.
  intros D [i ti] [j tj] Hi Hj N.
  apply indexed_in in Hi as [_ Ni]. apply indexed_in in Hj as [_ Nj]. rewrite Nat.sub_0_r in *.
  unfold less; cbn [fst snd]. destruct ti as [|x], tj as [|y].
  - destruct (Nat.lt_trichotomy i j) as [L|[E|L]].
    + left. now apply Nat.ltb_lt.
    + subst. exfalso. apply N. reflexivity.
    + right. now apply Nat.ltb_lt.
  - now right.
  - now left.
  - destruct (Z.lt_trichotomy x y) as [L|[E|L]].
    + left. now apply Z.ltb_lt.
    + subst. exfalso. apply N. f_equal. exact (D i j y Ni Nj).
    + right. now apply Z.ltb_lt.
Qed.

(* whatever sorting algorithm is used with the comparison [less] (sort.Slice is not stable), when
   no tag is repeated the result is field_order *)
Theorem field_order_unique tags (sorted : list entry) :
  tags_distinct_prop tags ->
  Permutation (indexed 0 tags) sorted -> StronglySorted notafter sorted ->
  map fst sorted = field_order tags.
Proof.
  intros D P S. unfold field_order. f_equal. symmetry.
  assert (P' : Permutation (isort (indexed 0 tags)) sorted).
  { eapply Permutation_trans; [apply Permutation_sym, isort_perm|exact P]. }
  apply sorted_perm_unique; try assumption.
  - apply (Permutation_NoDup (isort_perm _)). apply indexed_nodup.
  - intros a b Ha Hb N. apply (indexed_total tags D).
    + apply (Permutation_in a (Permutation_sym (isort_perm _)) Ha).
    + apply (Permutation_in b (Permutation_sym (isort_perm _)) Hb).
    + exact N.
  - apply isort_sorted.
Qed.

(* the order itself: every tagged field precedes every untagged one, tagged fields ascend by tag,
   untagged fields keep their declaration order *)
Theorem field_order_sorted tags : StronglySorted notafter (isort (indexed 0 tags)).
Proof. apply isort_sorted. Qed.
