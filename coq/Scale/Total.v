(* Scale/Total.v — the decoder is total and makes progress:
     fix_read c, fix_map c, wf_ty t ->
     decode c t bs m is never Panic and never OutOfFuel, and when it returns Ok (v, r) then
     length r + min_size t <= length bs   (r is what remains of bs).
   (The pinned tree, fix_map = false, panics: Codec.pinned, see C12.) *)
From Coq Require Import ZifyN ZifyNat ZifyBool.
From Common Require Import Bytes Outcome.
From Scale Require Import Compact CompactProofs BytesLemmas Types Spec Codec MonadLemmas LeafProofs.
Local Open Scope N_scope.
Local Open Scope m_scope.

Definition safe {A} (o : outcome A) : Prop := o <> Panic /\ o <> OutOfFuel.

(* x, reading from bs, never raises and consumes at least k bytes when it succeeds *)
Definition prog {A} (x : M (A * list byte)) (bs : list byte) (k : nat) : Prop :=
  forall m o m', x m = (o, m') ->
    safe o /\ forall a r, o = Ok (a, r) -> (length r + k <= length bs)%nat.

Lemma safe_ok {A} (a : A) : safe (Ok a).
Proof. split; discriminate. Qed.
Lemma safe_err {A} e : safe (@Err A e).
Proof. split; discriminate. Qed.

Lemma prog_ret {A} (a : A) r bs k : (length r + k <= length bs)%nat -> prog (ret (a, r)) bs k.
Proof.
  intros H m o m' E. unfold ret in E. injection E as <- <-. split; [apply safe_ok|].
  intros a' r' E. injection E as <- <-. exact H.
Qed.

Lemma prog_fail {A} bs k : prog (@fail (A * list byte)) bs k.
Proof. intros m o m' E. unfold fail in E. injection E as <- <-. split; [apply safe_err|discriminate]. Qed.

Lemma prog_weaken {A} (x : M (A * list byte)) bs k k' : (k' <= k)%nat -> prog x bs k -> prog x bs k'.
Proof. intros L H m o m' E. destruct (H m o m' E) as [S C]. split; [exact S|]. intros a r Eo. specialize (C a r Eo). lia. Qed.

Lemma prog_bind {A B} (x : M (A * list byte)) (f : A * list byte -> M (B * list byte)) bs k1 k2 :
  prog x bs k1 ->
  (forall a r, (length r + k1 <= length bs)%nat -> prog (f (a, r)) r k2) ->
  prog (bind x f) bs (k1 + k2).
Proof.
  intros Hx Hf m o m' E. unfold bind in E. destruct (x m) as [[[a r]| | |] m1] eqn:Ex.
  - destruct (Hx m _ _ Ex) as [_ C]. specialize (C a r eq_refl).
    destruct (Hf a r C m1 o m' E) as [S C2]. split; [exact S|].
    intros b r' Eo. specialize (C2 b r' Eo). lia.
  - injection E as <- <-. split; [apply safe_err|discriminate].
  - exfalso. destruct (Hx m _ _ Ex) as [[S _] _]. exact (S eq_refl).
  - exfalso. destruct (Hx m _ _ Ex) as [[_ S] _]. exact (S eq_refl).
Qed.

Lemma prog_tick {A} k0 (y : M (A * list byte)) bs k : prog y bs k -> prog (tick k0 ;;; y) bs k.
Proof. intros H m o m' E. unfold bind, tick in E. exact (H _ _ _ E). Qed.

Lemma prog_lift {A} (o : option (A * list byte)) bs k :
  (forall a r, o = Some (a, r) -> (length r + k <= length bs)%nat) -> prog (lift o) bs k.
Proof.
  intro H. destruct o as [[a r]|]; cbn [lift]; [apply prog_ret; exact (H a r eq_refl)|apply prog_fail].
Qed.

Lemma prog_read_byte bs : prog (read_byte bs) bs 1.
Proof.
  unfold read_byte. apply prog_tick. destruct bs as [|b r]; [apply prog_fail|].
  apply prog_ret. cbn. lia.
Qed.

Lemma take_length k l x r : take k l = Some (x, r) -> (length r + k = length l)%nat.
Proof. intro H. apply take_spec in H as [-> L]. rewrite app_length. lia. Qed.

Section Total.
Variable c : cfg.
Hypothesis Hread : fix_read c = true.
Hypothesis Hmap : fix_map c = true.

Lemma prog_read k bs : prog (read c k bs) bs k.
Proof.
  unfold read. apply prog_tick. rewrite Hread. apply prog_lift.
  intros a r H. rewrite read_exact_take in H. apply take_length in H. lia.
Qed.

Lemma prog_exact k bs : prog (lift (read_exact k bs)) bs k.
Proof. apply prog_lift. intros a r H. rewrite read_exact_take in H. apply take_length in H. lia. Qed.

(* if-then-else helpers *)
Lemma prog_if {A} (b : bool) (x y : M (A * list byte)) bs k : prog x bs k -> prog y bs k -> prog (if b then x else y) bs k.
Proof. destruct b; auto. Qed.

Lemma prog_dec_uint bs : prog (dec_uint c bs) bs 1.
Proof.
  unfold dec_uint. apply (prog_bind _ _ _ 1%nat 0%nat); [apply prog_read_byte|].
  intros b0 r L. cbv beta iota zeta.
  repeat apply prog_if.
  - apply prog_ret. lia.
  - apply (prog_bind _ _ _ 0%nat 0%nat); [eapply prog_weaken; [|apply prog_read_byte]; lia|].
    intros b1 r' L'. apply prog_if; [apply prog_fail|apply prog_ret; lia].
  - apply (prog_bind _ _ _ 0%nat 0%nat); [eapply prog_weaken; [|apply prog_read]; lia|].
    intros x r' L'. cbv beta iota. apply prog_if; [apply prog_fail|apply prog_ret; lia].
  - apply prog_fail.
  - apply (prog_bind _ _ _ 0%nat 0%nat); [eapply prog_weaken; [|apply prog_read]; lia|].
    intros x r' L'. cbv beta iota zeta.
    repeat apply prog_if; try apply prog_fail; apply prog_ret; lia.
Qed.

Lemma prog_dec_big bs : prog (dec_big c bs) bs 1.
Proof.
  unfold dec_big. apply (prog_bind _ _ _ 1%nat 0%nat); [apply prog_read_byte|].
  intros b0 r L. cbv beta iota zeta.
  repeat apply prog_if.
  - apply prog_ret. lia.
  - apply (prog_bind _ _ _ 0%nat 0%nat); [eapply prog_weaken; [|apply prog_read_byte]; lia|].
    intros b1 r' L'. apply prog_if; [apply prog_fail|apply prog_ret; lia].
  - apply (prog_bind _ _ _ 0%nat 0%nat); [eapply prog_weaken; [|apply prog_read]; lia|].
    intros x r' L'. cbv beta iota. apply prog_if; [apply prog_fail|apply prog_ret; lia].
  - apply (prog_bind _ _ _ 0%nat 0%nat); [eapply prog_weaken; [|apply prog_read]; lia|].
    intros x r' L'. cbv beta iota zeta. apply prog_if; [apply prog_fail|apply prog_ret; lia].
Qed.

(* the chunk loop of the repaired decodeBytes has enough fuel *)
Lemma read_chunks_safe fuel len rd avail m :
  rd <= len -> (rd = len \/ (1 <= rd /\ len < rd * 2 ^ N.of_nat fuel)) ->
  safe (fst (read_chunks fuel len rd avail m)).
Proof.
  revert rd m; induction fuel as [|f IH]; intros rd m L G; cbn [read_chunks].
  - destruct (N.eqb_spec rd len) as [E|E]; [apply safe_ok|].
    exfalso. destruct G as [G|[G1 G2]]; [contradiction|]. change (2 ^ N.of_nat 0) with 1 in G2. lia.
  - destruct (N.eqb_spec rd len) as [E|E]; [apply safe_ok|].
    destruct G as [G|[G1 G2]]; [contradiction|].
    unfold bind, tick. destruct (N.ltb_spec avail (rd + N.min (len - rd) rd)); [apply safe_err|].
    apply IH; [lia|].
    destruct (N.le_gt_cases rd (len - rd)) as [C|C].
    + right. rewrite N.min_r by assumption. split; [lia|].
      rewrite Nat2N.inj_succ, N.pow_succ_r' in G2. lia.
    + left. rewrite N.min_l by lia. lia.
Qed.

Lemma pow_fuel64 : 2 ^ N.of_nat 64 = 18446744073709551616.
Proof. vm_compute. reflexivity. Qed.

Lemma skipn_length_le {A} k (l : list A) : (length (skipn k l) <= length l)%nat.
Proof. rewrite skipn_length. lia. Qed.

Lemma prog_chunks fuel len c0 (r : list byte) :
  c0 <= len -> (c0 = len \/ (1 <= c0 /\ len < c0 * 2 ^ N.of_nat fuel)) ->
  prog (read_chunks fuel len c0 (N.of_nat (length r)) ;;;
        ret (firstn (N.to_nat len) r, skipn (N.to_nat len) r)) r 0.
Proof.
  intros L G m o m' E. unfold bind in E.
  pose proof (read_chunks_safe fuel len c0 (N.of_nat (length r)) m L G) as S.
  destruct (read_chunks fuel len c0 (N.of_nat (length r)) m) as [[[]| | |] m1]; cbn [fst] in S.
  - unfold ret in E. injection E as <- <-. split; [apply safe_ok|].
    intros a r' Eo. injection Eo as <- <-. rewrite skipn_length. lia.
  - injection E as <- <-. split; [apply safe_err|discriminate].
  - exfalso. exact (proj1 S eq_refl).
  - exfalso. exact (proj2 S eq_refl).
Qed.

Lemma prealloc_fuel len : len <= 4294967295 ->
  N.min len max_prealloc = len \/ (1 <= N.min len max_prealloc /\ len < N.min len max_prealloc * 2 ^ N.of_nat 64).
Proof.
  intro H. rewrite pow_fuel64. unfold max_prealloc. lia.
Qed.

Lemma prog_short len (r : list byte) : prog (lift (read_short (N.to_nat len) r)) r 0.
Proof.
  apply prog_lift. intros a r' H.
  unfold read_short in H. destruct (N.to_nat len); [injection H as <- <-; lia|].
  destruct r; [discriminate|]. injection H as <- <-. rewrite skipn_length. cbn [length]. lia.
Qed.

Lemma prog_dec_bytes bs : prog (dec_bytes c bs) bs 1.
Proof.
  unfold dec_bytes. apply (prog_bind _ _ _ 1%nat 0%nat); [apply prog_dec_uint|].
  intros len r L. cbv beta iota.
  destruct (N.ltb_spec 4294967295 len) as [BIG|SMALL]; [apply prog_fail|].
  destruct (fix_bytes c).
  - apply prog_tick. apply prog_if; [apply prog_fail|].
    apply prog_chunks; [apply N.le_min_l|apply prealloc_fuel; exact SMALL].
  - apply prog_tick. apply prog_if; [apply prog_ret; rewrite Nat.add_0_r; apply Nat.le_refl|apply prog_short].
Qed.

(* ---- loops *)
Lemma prog_array (dec : list byte -> M (value * list byte)) k :
  (forall bs, prog (dec bs) bs k) -> forall n bs, prog (dec_array dec n bs) bs (n * k).
Proof.
  intros H. induction n as [|n IH]; intro bs; cbn [dec_array].
  - apply prog_ret. lia.
  - change (S n * k)%nat with (k + n * k)%nat. apply prog_bind; [apply H|].
    intros v r L. cbv beta iota.
    replace (n * k)%nat with (n * k + 0)%nat by lia. apply prog_bind; [apply IH|].
    intros vs r' L'. cbv beta iota. apply prog_ret. lia.
Qed.

Lemma prog_loop (dec : list byte -> M (value * list byte)) :
  (forall bs, prog (dec bs) bs 1) ->
  forall fuel cnt bs, (length bs < fuel)%nat -> prog (dec_loop dec fuel cnt bs) bs 0.
Proof.
  intros H. induction fuel as [|f IH]; intros cnt bs F; [lia|]. cbn [dec_loop].
  destruct (cnt =? 0); [apply prog_ret; lia|].
  apply (prog_weaken _ _ (1 + 0)%nat); [lia|]. apply prog_bind; [apply H|].
  intros v r L. cbv beta iota.
  apply (prog_bind _ _ _ 0%nat 0%nat); [apply IH; lia|].
  intros vs r' L'. cbv beta iota. apply prog_ret. lia.
Qed.
Lemma prog_map_loop (deck decv : list byte -> M (value * list byte)) :
  (forall bs, prog (deck bs) bs 1) -> (forall bs, prog (decv bs) bs 0) ->
  forall fuel cnt lo bs, (length bs < fuel)%nat -> prog (dec_map_loop c deck decv fuel cnt lo bs) bs 0.
Proof.
  intros Hk Hv. induction fuel as [|f IH]; intros cnt lo bs F; [lia|]. cbn [dec_map_loop].
  destruct (cnt =? 0); [apply prog_ret; lia|].
  apply (prog_weaken _ _ (1 + 0)%nat); [lia|]. apply prog_bind; [apply Hk|].
  intros k r1 L1. cbv beta iota.
  apply (prog_bind _ _ _ 0%nat 0%nat); [apply Hv|].
  intros v r2 L2. cbv beta iota. rewrite Hmap. cbn [negb].
  apply prog_if; [apply prog_fail|].
  apply (prog_bind _ _ _ 0%nat 0%nat); [apply IH; lia|].
  intros kvs r' L'. cbv beta iota. apply prog_ret. lia.
Qed.

(* ---- the decoder *)
Definition tot_ty (t : ty) : Prop := wf_ty t = true -> forall bs, prog (decode c t bs) bs (min_size t).
Definition tot_tys (fs : tys) : Prop :=
  wf_tys fs = true ->
  (forall bs, prog (decode_fields c fs bs) bs (min_sizes fs)) /\
  (forall i bs, prog (decode_alt c fs i bs) bs 0).

Ltac leaf := intros _ bs; cbn [decode min_size]; apply prog_tick.

Lemma tot_all : forall t, tot_ty t.
Proof.
  apply (ty_mut tot_ty tot_tys); unfold tot_ty, tot_tys.
  - leaf. apply (prog_bind _ _ _ 1%nat 0%nat); [apply prog_read_byte|]. intros b r L. apply prog_ret. lia.
  - leaf. apply (prog_bind _ _ _ 2%nat 0%nat); [apply prog_read|]. intros b r L. apply prog_ret. lia.
  - leaf. apply (prog_bind _ _ _ 4%nat 0%nat); [apply prog_read|]. intros b r L. apply prog_ret. lia.
  - leaf. apply (prog_bind _ _ _ 8%nat 0%nat); [apply prog_read|]. intros b r L. apply prog_ret. lia.
  - leaf. apply (prog_bind _ _ _ 1%nat 0%nat); [apply prog_read_byte|]. intros b r L. apply prog_ret. lia.
  - leaf. apply (prog_bind _ _ _ 2%nat 0%nat); [apply prog_read|]. intros b r L. apply prog_ret. lia.
  - leaf. apply (prog_bind _ _ _ 4%nat 0%nat); [apply prog_read|]. intros b r L. apply prog_ret. lia.
  - leaf. apply (prog_bind _ _ _ 8%nat 0%nat); [apply prog_read|]. intros b r L. apply prog_ret. lia.
  - leaf. apply (prog_bind _ _ _ 1%nat 0%nat); [apply prog_dec_uint|]. intros b r L. apply prog_ret. lia.
  - leaf. apply (prog_bind _ _ _ 1%nat 0%nat); [apply prog_dec_uint|]. intros b r L. apply prog_ret. lia.
  - leaf. apply (prog_bind _ _ _ 1%nat 0%nat); [apply prog_dec_big|]. intros b r L. apply prog_ret. lia.
  - leaf. apply prog_tick. apply (prog_bind _ _ _ 16%nat 0%nat); [apply prog_exact|]. intros b r L. apply prog_ret. lia.
  - leaf. apply (prog_bind _ _ _ 1%nat 0%nat); [apply prog_read_byte|]. intros b r L. cbv beta iota.
    destruct (bool_of_byte b); [apply prog_ret; lia|apply prog_fail].
  - leaf. apply (prog_bind _ _ _ 1%nat 0%nat); [apply prog_dec_bytes|]. intros b r L. apply prog_ret. lia.
  - leaf. apply (prog_bind _ _ _ 1%nat 0%nat); [apply prog_dec_bytes|]. intros b r L. apply prog_ret. lia.
  - (* TOption *) intros t IH W bs. cbn [decode min_size wf_ty] in *. apply prog_tick.
    apply (prog_bind _ _ _ 1%nat 0%nat); [apply prog_read_byte|]. intros b r L. cbv beta iota.
    destruct (bool_of_byte b) as [[|]|]; [|apply prog_ret; lia|apply prog_fail].
    apply (prog_bind _ _ _ 0%nat 0%nat); [eapply prog_weaken; [|apply (IH W)]; lia|].
    intros v r' L'. apply prog_ret. lia.
  - (* TResult *) intros a IHa b IHb W bs. cbn [decode min_size wf_ty] in *. apply andb_prop in W as [W1 W2].
    apply prog_tick.
    apply (prog_bind _ _ _ 1%nat 0%nat); [apply prog_read_byte|]. intros x r L. cbv beta iota.
    destruct (bool_of_byte x) as [[|]|]; [| |apply prog_fail].
    + apply (prog_bind _ _ _ 0%nat 0%nat); [eapply prog_weaken; [|apply (IHb W2)]; lia|].
      intros v r' L'. apply prog_ret. lia.
    + apply (prog_bind _ _ _ 0%nat 0%nat); [eapply prog_weaken; [|apply (IHa W1)]; lia|].
      intros v r' L'. apply prog_ret. lia.
  - (* TEnum *) intros alts IH W bs. cbn [decode min_size wf_ty] in *. apply andb_prop in W as [W1 W2].
    apply prog_tick.
    apply (prog_bind _ _ _ 1%nat 0%nat); [apply prog_read_byte|]. intros x r L. cbv beta iota.
    apply (proj2 (IH W2)).
  - (* TArray *) intros n t IH W bs. cbn [decode min_size wf_ty] in *. apply prog_tick.
    replace (n * min_size t)%nat with (n * min_size t + 0)%nat by lia.
    apply prog_bind; [apply prog_array; apply (IH W)|]. intros vs r L. apply prog_ret. lia.
  - (* TSlice *) intros t IH W bs. cbn [decode min_size wf_ty] in *. apply andb_prop in W as [W1 W2].
    apply Nat.leb_le in W2. apply prog_tick.
    apply (prog_bind _ _ _ 1%nat 0%nat); [apply prog_dec_uint|]. intros cnt r L. cbv beta iota.
    apply (prog_bind _ _ _ 0%nat 0%nat).
    + apply prog_loop; [|lia]. intro bs'. eapply prog_weaken; [|apply (IH W1)]. exact W2.
    + intros vs r' L'. apply prog_ret. lia.
  - (* TMap *) intros kt IHk vt IHv W bs. cbn [decode min_size wf_ty] in *. apply andb_prop in W as [W1 W2].
    assert (Wk : wf_ty kt = true) by (destruct kt; try discriminate W1; reflexivity).
    assert (Mk : (1 <= min_size kt)%nat) by (destruct kt; try discriminate W1; cbn; lia).
    apply prog_tick.
    apply (prog_bind _ _ _ 1%nat 0%nat); [apply prog_dec_uint|]. intros cnt r L. cbv beta iota.
    apply (prog_bind _ _ _ 0%nat 0%nat).
    + apply prog_map_loop; [| |lia].
      * intro bs'. eapply prog_weaken; [|apply (IHk Wk)]. exact Mk.
      * intro bs'. eapply prog_weaken; [|apply (IHv W2)]. lia.
    + intros raw r' L'. apply prog_ret. lia.
  - (* TStruct *) intros fs IH W bs. cbn [decode min_size wf_ty] in *. apply prog_tick.
    replace (min_sizes fs) with (min_sizes fs + 0)%nat by lia.
    apply prog_bind; [apply (proj1 (IH W))|]. intros vs r L. apply prog_ret. lia.
  - (* TNil *) intros _. split; intros; cbn [decode_fields decode_alt min_sizes]; [apply prog_ret; lia|apply prog_fail].
  - (* TCons *) intros tag t IHt fr IHf W. cbn [wf_tys] in W. apply andb_prop in W as [W1 W2]. split.
    + intro bs. cbn [decode_fields min_sizes].
      apply prog_bind; [apply (IHt W1)|]. intros v r L. cbv beta iota.
      replace (min_sizes fr) with (min_sizes fr + 0)%nat by lia.
      apply prog_bind; [apply (proj1 (IHf W2))|]. intros vs r' L'. apply prog_ret. lia.
    + intros i bs. cbn [decode_alt]. destruct tag as [j|]; [|apply (proj2 (IHf W2))].
      destruct (j =? i); [|apply (proj2 (IHf W2))].
      apply (prog_bind _ _ _ 0%nat 0%nat); [eapply prog_weaken; [|apply (IHt W1)]; lia|].
      intros v r L. apply prog_ret. lia.
Qed.

Theorem decode_total t bs m :
  wf_ty t = true ->
  fst (decode c t bs m) <> Panic /\ fst (decode c t bs m) <> OutOfFuel.
Proof.
  intro W. destruct (decode c t bs m) as [o m'] eqn:E. exact (proj1 (tot_all t W bs m o m' E)).
Qed.

Theorem decode_consumes t bs m v r m' :
  wf_ty t = true -> decode c t bs m = (Ok (v, r), m') -> (length r + min_size t <= length bs)%nat.
Proof. intros W E. exact (proj2 (tot_all t W bs m _ m' E) v r eq_refl). Qed.

End Total.
