(* Scale/Total.v — the decoder is total and makes progress:
     fix_read c, fix_map c, wf_ty t ->
     decode c t bs m is never Panic and never OutOfFuel, and when it returns Ok (v, r) then
     length r + min_size t <= length bs   (r is what remains of bs).
   (The pinned tree, fix_map = false, panics: Codec.pinned, see C12.) *)
From Coq Require Import ZifyN ZifyNat ZifyBool.
From Common Require Import Bytes Outcome.
From Scale Require Import Compact CompactProofs BytesLemmas Types Spec Codec MonadLemmas LeafProofs.
Local Open Scope N_scope.
Local Open Scope m_scope.

Definition safe {A} (o : outcome A) : Prop := o <> Panic /\ o <> OutOfFuel.

(* x, reading from bs, never raises and consumes at least k bytes when it succeeds *)
Definition prog {A} (x : M (A * list byte)) (bs : list byte) (k : nat) : Prop :=
  forall m o m', x m = (o, m') ->
    safe o /\ forall a r, o = Ok (a, r) -> (length r + k <= length bs)%nat.

Lemma safe_ok {A} (a : A) : safe (Ok a).
Proof. split; discriminate. Qed.
Lemma safe_err {A} e : safe (@Err A e).
Proof. split; discriminate. Qed.

Lemma prog_ret {A} (a : A) r bs k : (length r + k <= length bs)%nat -> prog (ret (a, r)) bs k.
Proof.
  intros H m o m' E. unfold ret in E. injection E as <- <-. split; [apply safe_ok|].
  intros a' r' E. injection E as <- <-. exact H.
Qed.

Lemma prog_fail {A} bs k : prog (@fail (A * list byte)) bs k.
Proof. intros m o m' E. unfold fail in E. injection E as <- <-. split; [apply safe_err|discriminate]. Qed.

Lemma prog_weaken {A} (x : M (A * list byte)) bs k k' : (k' <= k)%nat -> prog x bs k -> prog x bs k'.
Proof. intros L H m o m' E. destruct (H m o m' E) as [S C]. split; [exact S|]. intros a r Eo. specialize (C a r Eo). lia. Qed.

Lemma prog_bind {A B} (x : M (A * list byte)) (f : A * list byte -> M (B * list byte)) bs k1 k2 :
  prog x bs k1 ->
  (forall a r, (length r + k1 <= length bs)%nat -> prog (f (a, r)) r k2) ->
  prog (bind x f) bs (k1 + k2).
Proof.
  intros Hx Hf m o m' E. unfold bind in E. destruct (x m) as [[[a r]| | |] m1] eqn:Ex.
  - destruct (Hx m _ _ Ex) as [_ C]. specialize (C a r eq_refl).
    destruct (Hf a r C m1 o m' E) as [S C2]. split; [exact S|].
    intros b r' Eo. specialize (C2 b r' Eo). lia.
  - injection E as <- <-. split; [apply safe_err|discriminate].
  - exfalso. destruct (Hx m _ _ Ex) as [[S _] _]. exact (S eq_refl).
  - exfalso. destruct (Hx m _ _ Ex) as [[_ S] _]. exact (S eq_refl).
Qed.

Lemma prog_tick {A} k0 (y : M (A * list byte)) bs k : prog y bs k -> prog (tick k0 ;;; y) bs k.
Proof. intros H m o m' E. unfold bind, tick in E. exact (H _ _ _ E). Qed.

Lemma prog_lift {A} (o : option (A * list byte)) bs k :
  (forall a r, o = Some (a, r) -> (length r + k <= length bs)%nat) -> prog (lift o) bs k.
Proof.
  intro H. destruct o as [[a r]|]; cbn [lift]; [apply prog_ret; exact (H a r eq_refl)|apply prog_fail].
Qed.

Lemma prog_read_byte bs : prog (read_byte bs) bs 1.
Proof.
  unfold read_byte. apply prog_tick. destruct bs as [|b r]; [apply prog_fail|].
  apply prog_ret. cbn. lia.
Qed.

Lemma take_length k l x r : take k l = Some (x, r) -> (length r + k = length l)%nat.
Proof. intro H. apply take_spec in H as [-> L]. rewrite app_length. lia. Qed.

Section Total.
Variable c : cfg.
Hypothesis Hread : fix_read c = true.
Hypothesis Hmap : fix_map c = true.

Lemma prog_read k bs : prog (read c k bs) bs k.
Proof.
  unfold read. apply prog_tick. rewrite Hread. apply prog_lift.
  intros a r H. apply take_length in H. lia.
Qed.

Lemma prog_exact k bs : prog (lift (read_exact k bs)) bs k.
Proof. apply prog_lift. intros a r H. apply take_length in H. lia. Qed.

(* if-then-else helpers *)
Lemma prog_if {A} (b : bool) (x y : M (A * list byte)) bs k : prog x bs k -> prog y bs k -> prog (if b then x else y) bs k.
Proof. destruct b; auto. Qed.

Lemma prog_dec_uint bs : prog (dec_uint c bs) bs 1.
Proof.
  unfold dec_uint. apply (prog_bind _ _ _ 1%nat 0%nat); [apply prog_read_byte|].
  intros b0 r L. cbv beta iota zeta.
  repeat apply prog_if.
  - apply prog_ret. lia.
  - apply (prog_bind _ _ _ 0%nat 0%nat); [eapply prog_weaken; [|apply prog_read_byte]; lia|].
    intros b1 r' L'. apply prog_if; [apply prog_fail|apply prog_ret; lia].
  - apply (prog_bind _ _ _ 0%nat 0%nat); [eapply prog_weaken; [|apply prog_read]; lia|].
    intros x r' L'. cbv beta iota. apply prog_if; [apply prog_fail|apply prog_ret; lia].
  - apply prog_fail.
  - apply (prog_bind _ _ _ 0%nat 0%nat); [eapply prog_weaken; [|apply prog_read]; lia|].
    intros x r' L'. cbv beta iota zeta.
    repeat apply prog_if; try apply prog_fail; apply prog_ret; lia.
Qed.

Lemma prog_dec_big bs : prog (dec_big c bs) bs 1.
Proof.
  unfold dec_big. apply (prog_bind _ _ _ 1%nat 0%nat); [apply prog_read_byte|].
  intros b0 r L. cbv beta iota zeta.
  repeat apply prog_if.
  - apply prog_ret. lia.
  - apply (prog_bind _ _ _ 0%nat 0%nat); [eapply prog_weaken; [|apply prog_read_byte]; lia|].
    intros b1 r' L'. apply prog_if; [apply prog_fail|apply prog_ret; lia].
  - apply (prog_bind _ _ _ 0%nat 0%nat); [eapply prog_weaken; [|apply prog_read]; lia|].
    intros x r' L'. cbv beta iota. apply prog_if; [apply prog_fail|apply prog_ret; lia].
  - apply (prog_bind _ _ _ 0%nat 0%nat); [eapply prog_weaken; [|apply prog_read]; lia|].
    intros x r' L'. cbv beta iota zeta. apply prog_if; [apply prog_fail|apply prog_ret; lia].
Qed.

(* the chunk loop of the repaired decodeBytes has enough fuel *)
Lemma read_chunks_safe fuel len rd avail m :
  rd <= len -> (rd = len \/ (1 <= rd /\ len < rd * 2 ^ N.of_nat fuel)) ->
  safe (fst (read_chunks fuel len rd avail m)).
Proof.
  revert rd m; induction fuel as [|f IH]; intros rd m L G; cbn [read_chunks].
  - destruct (N.eqb_spec rd len) as [E|E]; [apply safe_ok|].
    exfalso. destruct G as [G|[G1 G2]]; [contradiction|]. change (2 ^ N.of_nat 0) with 1 in G2. lia.
  - destruct (N.eqb_spec rd len) as [E|E]; [apply safe_ok|].
    destruct G as [G|[G1 G2]]; [contradiction|].
    unfold bind, tick. destruct (N.ltb_spec avail (rd + N.min (len - rd) rd)); [apply safe_err|].
    apply IH; [lia|].
    destruct (N.le_gt_cases rd (len - rd)) as [C|C].
    + right. rewrite N.min_r by assumption. split; [lia|].
      rewrite Nat2N.inj_succ, N.pow_succ_r' in G2. lia.
    + left. rewrite N.min_l by lia. lia.
Qed.

Lemma skipn_length_le {A} k (l : list A) : (length (skipn k l) <= length l)%nat.
Proof. rewrite skipn_length. lia. Qed.

Lemma prog_dec_bytes bs : prog (dec_bytes c bs) bs 1.
Proof.
  unfold dec_bytes. apply (prog_bind _ _ _ 1%nat 0%nat); [apply prog_dec_uint|].
  intros len r L. cbv beta iota.
  destruct (N.ltb_spec 4294967295 len) as [BIG|SMALL]; [apply prog_fail|].
  destruct (fix_bytes c).
  - apply prog_tick. apply prog_if; [apply prog_fail|].
    intros m o m' E. unfold bind in E.
    match type of E with context [read_chunks ?f ?a ?b ?d m] =>
      assert (S : safe (fst (read_chunks f a b d m)));
      [|destruct (read_chunks f a b d m) as [[[]| | |] m1]] end.
    { apply read_chunks_safe; [lia|]. unfold max_prealloc.
      destruct (N.le_gt_cases len 4096); [left; lia|right]. rewrite N.min_r by lia. split; [lia|].
      change (2 ^ N.of_nat 64) with 18446744073709551616. lia. }
    + cbv beta in E. unfold ret in E. injection E as <- <-. split; [apply safe_ok|].
      intros a r' Eo. injection Eo as <- <-. pose proof (skipn_length_le (N.to_nat len) r). lia.
    + injection E as <- <-. split; [apply safe_err|discriminate].
    + exfalso. exact (proj1 S eq_refl).
    + exfalso. exact (proj2 S eq_refl).
  - apply prog_tick. apply prog_if; [apply prog_ret; lia|].
    apply prog_lift. intros a r' H.
    unfold read_short in H. destruct (N.to_nat len); [injection H as <- <-; lia|].
    destruct r; [discriminate|]. injection H as <- <-.
    rewrite skipn_length. cbn [length]. clear. lia.
Qed.

(* ---- loops *)
Lemma prog_array (dec : list byte -> M (value * list byte)) k :
  (forall bs, prog (dec bs) bs k) -> forall n bs, prog (dec_array dec n bs) bs (n * k).
Proof.
  intros H. induction n as [|n IH]; intro bs; cbn [dec_array].
  - apply prog_ret. lia.
  - change (S n * k)%nat with (k + n * k)%nat. apply prog_bind; [apply H|].
    intros v r L. cbv beta iota.
    replace (n * k)%nat with (n * k + 0)%nat by lia. apply prog_bind; [apply IH|].
    intros vs r' L'. cbv beta iota. apply prog_ret. lia.
Qed.

Lemma prog_loop (dec : list byte -> M (value * list byte)) :
  (forall bs, prog (dec bs) bs 1) ->
  forall fuel cnt bs, (length bs < fuel)%nat -> prog (dec_loop dec fuel cnt bs) bs 0.
Proof.
  intros H. induction fuel as [|f IH]; intros cnt bs F; [lia|]. cbn [dec_loop].
  destruct (cnt =? 0); [apply prog_ret; lia|].
  apply (prog_weaken _ _ (1 + 0)%nat); [lia|]. apply prog_bind; [apply H|].
  intros v r L. cbv beta iota.
  apply (prog_bind _ _ _ 0%nat 0%nat); [apply IH; lia|].
  intros vs r' L'. cbv beta iota. apply prog_ret. lia.
Qed.
End Total.
