(* Scale/MonadLemmas.v — reasoning principles for the decoder monad of Scale/Codec.v. *)
From Coq Require Import ZifyN ZifyNat ZifyBool.
From Common Require Import Bytes Outcome.
From Scale Require Import Compact CompactProofs Types Codec.
Local Open Scope N_scope.
Local Open Scope m_scope.

(* x returns a, whatever the meter *)
Definition succeeds {A} (x : M A) (a : A) : Prop := forall m, exists m', x m = (Ok a, m').

Lemma succeeds_ret {A} (a : A) : succeeds (ret a) a.
Proof. intro m. now exists m. Qed.

Lemma succeeds_bind {A B} (x : M A) (f : A -> M B) a b :
  succeeds x a -> succeeds (f a) b -> succeeds (bind x f) b.
Proof.
  intros Hx Hf m. destruct (Hx m) as [m1 E1]. destruct (Hf m1) as [m2 E2].
  exists m2. unfold bind. now rewrite E1.
Qed.

Lemma succeeds_tick k : succeeds (tick k) tt.
Proof. intro m. now exists (m + k). Qed.

Lemma succeeds_tick_seq {B} k (y : M B) b : succeeds y b -> succeeds (tick k ;;; y) b.
Proof. intro H. eapply succeeds_bind; [apply succeeds_tick | exact H]. Qed.

Lemma succeeds_lift {A} (o : option A) a : o = Some a -> succeeds (lift o) a.
Proof. intros ->. apply succeeds_ret. Qed.

Lemma succeeds_inj {A} (x : M A) a b : succeeds x a -> succeeds x b -> a = b.
Proof. intros Ha Hb. destruct (Ha 0) as [m1 E1]. destruct (Hb 0) as [m2 E2]. congruence. Qed.

(* inversion of a successful bind *)
Lemma bind_ok {A B} (x : M A) (f : A -> M B) m b m' :
  bind x f m = (Ok b, m') -> exists a m1, x m = (Ok a, m1) /\ f a m1 = (Ok b, m').
Proof.
  unfold bind. destruct (x m) as [[a| | |] m1]; intro H; try discriminate. now exists a, m1.
Qed.

Lemma tick_seq_ok {B} k (y : M B) m b m' : (tick k ;;; y) m = (Ok b, m') -> y (m + k) = (Ok b, m').
Proof. intro H. apply bind_ok in H as (u & m1 & E & H). unfold tick in E. injection E as _ <-. exact H. Qed.

Lemma ret_ok {A} (a b : A) m m' : ret a m = (Ok b, m') -> a = b /\ m = m'.
Proof. unfold ret. intro H. injection H as -> ->. now split. Qed.

Lemma lift_ok {A} (o : option A) m a m' : lift o m = (Ok a, m') -> o = Some a /\ m = m'.
Proof. destruct o; cbn; intro H; [|discriminate]. apply ret_ok in H as [-> ->]. now split. Qed.

Lemma fail_ok {A} m (a : A) m' : fail m = (Ok a, m') -> False.
Proof. discriminate. Qed.

(* reading *)
Lemma read_exact_take k bs : read_exact k bs = take k bs.
Proof.
  revert bs; induction k as [|k IH]; intro bs.
  - unfold take. cbn. reflexivity.
  - destruct bs as [|x r]; [reflexivity|]. cbn [read_exact]. rewrite IH. unfold take.
    cbn [length firstn skipn]. change (S (length r) <? S k)%nat with (length r <? k)%nat.
    destruct (length r <? k)%nat; reflexivity.
Qed.

Lemma read_byte_app b r : succeeds (read_byte (b :: r)) (b, r).
Proof. unfold read_byte. apply succeeds_tick_seq, succeeds_ret. Qed.

Lemma read_short_of_take k r x r' : (0 < k)%nat -> take k r = Some (x, r') -> read_short k r = Some (x, r').
Proof.
  intros K T. pose proof (take_spec _ _ _ _ T) as [-> L].
  unfold read_short. destruct k as [|k]; [lia|].
  destruct (x ++ r') eqn:E.
  - destruct x; [cbn in L; lia | discriminate].
  - rewrite <- E. rewrite firstn_app, <- L, Nat.sub_diag, firstn_O, app_nil_r, firstn_all.
    rewrite skipn_app, Nat.sub_diag, skipn_all. cbn [skipn app].
    unfold pad_back. rewrite Nat.sub_diag. cbn [zeros repeat]. now rewrite app_nil_r.
Qed.

Lemma read_of_take c k r x r' : (0 < k)%nat -> take k r = Some (x, r') -> succeeds (read c k r) (x, r').
Proof.
  intros K T. unfold read. apply succeeds_tick_seq, succeeds_lift.
  destruct (fix_read c); [rewrite read_exact_take; exact T | now apply read_short_of_take].
Qed.

Lemma read_le_bytes c k n r : (0 < k)%nat -> succeeds (read c k (le_bytes k n ++ r)) (le_bytes k n, r).
Proof. intro K. apply read_of_take; [assumption | apply take_le_bytes]. Qed.

Lemma read_ok c k bs m x r m' :
  fix_read c = true -> read c k bs m = (Ok (x, r), m') -> bs = x ++ r /\ length x = k.
Proof.
  intros F H. unfold read in H. apply tick_seq_ok in H. apply lift_ok in H as [H _].
  rewrite F, read_exact_take in H. now apply take_spec in H.
Qed.

Lemma read_byte_ok bs m b r m' : read_byte bs m = (Ok (b, r), m') -> bs = b :: r.
Proof.
  unfold read_byte. intro H. apply tick_seq_ok in H. destruct bs; [discriminate|].
  apply ret_ok in H as [H _]. now injection H as -> ->.
Qed.
